/-
Proofs/Fit.lean — helper and refinement lemmas for Model/Fit.lean (property C08).
-/
import Model.Fit
import Model.Slim
import Proofs.Core
import Proofs.Slim
import Mathlib.Tactic.Ring
import Mathlib.Tactic.Linarith
import Mathlib.Algebra.BigOperators.Group.List.Basic
import Mathlib.Algebra.Order.Field.Basic

namespace Model
namespace FitProofs

open Impl.Fit

/-! ### sums -/

theorem foldl_add_eq {α : Type} [AddCommMonoid α] (l : List α) (a : α) :
    l.foldl (· + ·) a = a + l.sum := by
  induction l generalizing a with
  | nil => simp
  | cons x xs ih => simp [ih, add_assoc]

theorem sum_eq {α : Type} [Field α] (l : List α) : Impl.Fit.sum l = l.sum := by
  unfold Impl.Fit.sum
  rw [foldl_add_eq]; simp

/-! ### boolean-mask selection -/

theorem selectUnmasked_nil_left {α : Type} (a : List α) : selectUnmasked [] a = [] := by
  simp [selectUnmasked]

theorem selectUnmasked_cons {α : Type} (b : Bool) (bs : List Bool) (x : α) (xs : List α) :
    selectUnmasked (b :: bs) (x :: xs)
      = if b then selectUnmasked bs xs else x :: selectUnmasked bs xs := by
  cases b <;> simp [selectUnmasked]

/-- `a[mask == 0]` lists the entries at the unmasked flat positions in ascending order. -/
theorem selectUnmasked_eq_range {α : Type} (bits : List Bool) (a : List α) (zero : α)
    (h : a.length = bits.length) :
    selectUnmasked bits a
      = ((List.range bits.length).filter fun k => !bits.getD k true).map fun k => a.getD k zero := by
  induction bits generalizing a with
  | nil => simp [selectUnmasked]
  | cons b bs ih =>
    cases a with
    | nil => simp at h
    | cons x xs =>
      have hx : xs.length = bs.length := by simpa using h
      rw [selectUnmasked_cons, ih xs hx, List.length_cons, List.range_succ_eq_map]
      cases b <;> simp [List.filter_map, List.map_map, Function.comp_def]

theorem selectUnmasked_map {α : Type} (g : α → α) (bits : List Bool) (a : List α) :
    selectUnmasked bits (a.map g) = (selectUnmasked bits a).map g := by
  induction bits generalizing a with
  | nil => simp [selectUnmasked]
  | cons b bs ih =>
    cases a with
    | nil => simp [selectUnmasked]
    | cons x xs =>
      rw [List.map_cons, selectUnmasked_cons, selectUnmasked_cons, ih]
      cases b <;> simp

/-- the `where=mask == 0` ufunc followed by `[mask == 0]` is the plain ufunc on the selected entries -/
theorem selectUnmasked_maskedZipWith {α : Type} [Zero α] (f : α → α → α) (bits : List Bool)
    (a b : List α) (ha : a.length = bits.length) (hb : b.length = bits.length) :
    selectUnmasked bits (maskedZipWith f bits a b)
      = List.zipWith f (selectUnmasked bits a) (selectUnmasked bits b) := by
  induction bits generalizing a b with
  | nil => simp [selectUnmasked, maskedZipWith]
  | cons m ms ih =>
    cases a with
    | nil => simp at ha
    | cons x xs =>
      cases b with
      | nil => simp at hb
      | cons y ys =>
        have hx : xs.length = ms.length := by simpa using ha
        have hy : ys.length = ms.length := by simpa using hb
        have := ih xs ys hx hy
        unfold maskedZipWith at this ⊢
        simp only [List.zip_cons_cons, List.zipWith_cons_cons, selectUnmasked_cons]
        cases m <;> simp [this]

theorem maskedZipWith_length {α : Type} [Zero α] (f : α → α → α) (bits : List Bool) (a b : List α)
    (ha : a.length = bits.length) (hb : b.length = bits.length) :
    (maskedZipWith f bits a b).length = bits.length := by
  simp [maskedZipWith, ha, hb]

/-- element-wise content of a `where=mask == 0` ufunc -/
theorem maskedZipWith_getElem? {α : Type} [Zero α] (f : α → α → α) (bits : List Bool) (a b : List α)
    (k : Nat) (m : Bool) (x y : α) (hm : bits[k]? = some m) (hx : a[k]? = some x) (hy : b[k]? = some y) :
    (maskedZipWith f bits a b)[k]? = some (if m then 0 else f x y) := by
  have hz : (a.zip b)[k]? = some (x, y) := List.getElem?_zip_eq_some.mpr ⟨hx, hy⟩
  simp [maskedZipWith, List.getElem?_zipWith, hz, hm]

/-- `selectUnmasked` only looks at the unmasked entries -/
theorem selectUnmasked_congr {α : Type} (bits : List Bool) (a a' : List α) (zero : α)
    (h : a.length = bits.length) (h' : a'.length = bits.length)
    (hagree : ∀ k, bits.getD k true = false → a.getD k zero = a'.getD k zero) :
    selectUnmasked bits a = selectUnmasked bits a' := by
  rw [selectUnmasked_eq_range bits a zero h, selectUnmasked_eq_range bits a' zero h']
  apply List.map_congr_left
  intro k hk
  simp only [List.mem_filter] at hk
  exact hagree k (by simpa using hk.2)

/-! ### the tie to C01: numpy's `a[mask == 0]` is `array_2d_slim_from` -/

theorem spec_slimFrom_eq_range {α : Type} (m : Mask) (a : List α) (zero : α) :
    Spec.slimFrom m a zero
      = ((List.range (m.h * m.w)).filter fun k => !m.bits.getD k true).map fun k => a.getD k zero := by
  unfold Spec.slimFrom Spec.unmaskedPixels
  rw [← pixels_map_flat, List.filter_map, List.map_map]
  congr 1

theorem selectUnmasked_eq_slimFrom {α : Type} (m : Mask) (hm : m.WF) (a : List α) (zero : α)
    (ha : a.length = m.h * m.w) :
    selectUnmasked m.bits a = Impl.slimFrom m a zero := by
  rw [slimFrom_eq, spec_slimFrom_eq_range, selectUnmasked_eq_range m.bits a zero (by rw [ha, hm]), hm]

/-! ### `FitDataset` level -/

/-- the offset a fit subtracts from the dataset's data: the background sky for `FitImaging`, nothing
    for a plain `FitDataset`. -/
def bgEff {α : Type} [Zero α] (f : FitInput α) : α := if f.isImaging then f.background else 0

theorem fitData_eq {α : Type} [Field α] [BEq α] [LawfulBEq α] (f : FitInput α) :
    fitData f = f.data.map (· - bgEff f) := by
  unfold fitData bgEff
  cases hI : f.isImaging
  · simp
  · by_cases hb : f.background = 0
    · simp [hb]
    · have : (f.background != 0) = true := by simpa using hb
      simp [this]

theorem fitData_length {α : Type} [Field α] [BEq α] [LawfulBEq α] (f : FitInput α) :
    (fitData f).length = f.data.length := by rw [fitData_eq]; simp

section nativeSlim
variable {α : Type} [Field α]

theorem residualMapWithMask_length (bits : List Bool) (d mo : List α)
    (hd : d.length = bits.length) (hmo : mo.length = bits.length) :
    (residualMapWithMask bits d mo).length = bits.length :=
  maskedZipWith_length _ bits d mo hd hmo

/-- masked-native residuals, restricted to the unmasked pixels, are the slim residuals -/
theorem select_residualMapWithMask (bits : List Bool) (d mo : List α)
    (hd : d.length = bits.length) (hmo : mo.length = bits.length) :
    selectUnmasked bits (residualMapWithMask bits d mo)
      = residualMap (selectUnmasked bits d) (selectUnmasked bits mo) :=
  selectUnmasked_maskedZipWith _ bits d mo hd hmo

theorem select_normalizedResidualMapWithMask (bits : List Bool) (r n : List α)
    (hr : r.length = bits.length) (hn : n.length = bits.length) :
    selectUnmasked bits (normalizedResidualMapWithMask bits r n)
      = normalizedResidualMap (selectUnmasked bits r) (selectUnmasked bits n) :=
  selectUnmasked_maskedZipWith _ bits r n hr hn

theorem select_chiSquaredMapWithMask (bits : List Bool) (r n : List α)
    (hr : r.length = bits.length) (hn : n.length = bits.length) :
    selectUnmasked bits (chiSquaredMapWithMask bits r n)
      = chiSquaredMap (selectUnmasked bits r) (selectUnmasked bits n) := by
  unfold chiSquaredMapWithMask chiSquaredMap
  rw [selectUnmasked_map, selectUnmasked_maskedZipWith _ bits r n hr hn, List.map_zipWith]

theorem select_residualFluxFractionMapWithMask (bits : List Bool) (r d : List α)
    (hr : r.length = bits.length) (hd : d.length = bits.length) :
    selectUnmasked bits (residualFluxFractionMapWithMask bits r d)
      = residualFluxFractionMap (selectUnmasked bits r) (selectUnmasked bits d) :=
  selectUnmasked_maskedZipWith _ bits r d hr hd

end nativeSlim

section fitNativeSlim
variable {α : Type} [Field α] [BEq α] [LawfulBEq α]

/-- the masked-native fit input on native arrays `d n mo` -/
def nativeInput (m : Mask) (img : Bool) (d n mo : List α) (bg : α) : FitInput α :=
  { useMask := true, isImaging := img, bits := m.bits, data := d, noise := n, model := mo,
    background := bg }

/-- the slim fit input holding `array_2d_slim_from` of the same native arrays -/
def slimInput (m : Mask) (img : Bool) (d n mo : List α) (bg : α) : FitInput α :=
  { useMask := false, isImaging := img, bits := m.bits, data := Impl.slimFrom m d 0,
    noise := Impl.slimFrom m n 0, model := Impl.slimFrom m mo 0, background := bg }

variable (m : Mask) (hm : m.WF) (img : Bool) (d n mo : List α) (bg : α)
  (hd : d.length = m.h * m.w) (hn : n.length = m.h * m.w) (hmo : mo.length = m.h * m.w)

include hm hd in
theorem select_fitData :
    selectUnmasked m.bits (fitData (nativeInput m img d n mo bg)) = fitData (slimInput m img d n mo bg) := by
  rw [fitData_eq, fitData_eq, selectUnmasked_map]
  simp only [nativeInput, slimInput, bgEff]
  rw [selectUnmasked_eq_slimFrom m hm d 0 hd]
  rfl

include hm hd hmo in
theorem select_fitResidualMap :
    selectUnmasked m.bits (fitResidualMap (nativeInput m img d n mo bg))
      = fitResidualMap (slimInput m img d n mo bg) := by
  have hb : m.bits.length = m.h * m.w := hm
  have hD : (fitData (nativeInput m img d n mo bg)).length = m.bits.length := by
    rw [fitData_length, hb]; simpa [nativeInput] using hd
  have hM : mo.length = m.bits.length := by rw [hmo]; exact hm.symm
  have h1 := select_fitData m hm img d n mo bg hd
  unfold fitResidualMap
  simp only [nativeInput, slimInput] at h1 ⊢
  simp only [if_true, Bool.false_eq_true, if_false]
  rw [select_residualMapWithMask m.bits _ mo (by simpa [nativeInput] using hD) hM, h1,
    selectUnmasked_eq_slimFrom m hm mo 0 hmo]

include hm hd hmo in
theorem fitResidualMap_native_length :
    (fitResidualMap (nativeInput m img d n mo bg)).length = m.bits.length := by
  have hb : m.bits.length = m.h * m.w := hm
  unfold fitResidualMap
  simp only [nativeInput, if_true]
  apply residualMapWithMask_length
  · rw [fitData_length, hb]; exact hd
  · rw [hb]; exact hmo

include hm hd hn hmo in
theorem select_fitNormalizedResidualMap :
    selectUnmasked m.bits (fitNormalizedResidualMap (nativeInput m img d n mo bg))
      = fitNormalizedResidualMap (slimInput m img d n mo bg) := by
  have hb : m.bits.length = m.h * m.w := hm
  have h1 := select_fitResidualMap m hm img d n mo bg hd hmo
  have hl := fitResidualMap_native_length m hm img d n mo bg hd hmo
  unfold fitNormalizedResidualMap
  simp only [nativeInput, slimInput] at h1 hl ⊢
  simp only [if_true, Bool.false_eq_true, if_false]
  rw [select_normalizedResidualMapWithMask m.bits _ n hl (by rw [hb]; exact hn), h1,
    selectUnmasked_eq_slimFrom m hm n 0 hn]

include hm hd hn hmo in
theorem select_fitChiSquaredMap :
    selectUnmasked m.bits (fitChiSquaredMap (nativeInput m img d n mo bg))
      = fitChiSquaredMap (slimInput m img d n mo bg) := by
  have hb : m.bits.length = m.h * m.w := hm
  have h1 := select_fitResidualMap m hm img d n mo bg hd hmo
  have hl := fitResidualMap_native_length m hm img d n mo bg hd hmo
  unfold fitChiSquaredMap
  simp only [nativeInput, slimInput] at h1 hl ⊢
  simp only [if_true, Bool.false_eq_true, if_false]
  rw [select_chiSquaredMapWithMask m.bits _ n hl (by rw [hb]; exact hn), h1,
    selectUnmasked_eq_slimFrom m hm n 0 hn]

include hm hd hmo in
theorem select_fitResidualFluxFractionMap :
    selectUnmasked m.bits (fitResidualFluxFractionMap (nativeInput m img d n mo bg))
      = fitResidualFluxFractionMap (slimInput m img d n mo bg) := by
  have hb : m.bits.length = m.h * m.w := hm
  have h1 := select_fitResidualMap m hm img d n mo bg hd hmo
  have h2 := select_fitData m hm img d n mo bg hd
  have hl := fitResidualMap_native_length m hm img d n mo bg hd hmo
  have hD : (fitData (nativeInput m img d n mo bg)).length = m.bits.length := by
    rw [fitData_length, hb]; simpa [nativeInput] using hd
  unfold fitResidualFluxFractionMap
  simp only [nativeInput, slimInput] at h1 h2 hl hD ⊢
  simp only [if_true, Bool.false_eq_true, if_false]
  rw [select_residualFluxFractionMapWithMask m.bits _ _ hl hD, h1, h2]

include hm hd hn hmo in
/-- chi-squared of the masked-native evaluation = chi-squared of the slim evaluation -/
theorem fitChiSquared_native_eq_slim :
    fitChiSquared (nativeInput m img d n mo bg) = fitChiSquared (slimInput m img d n mo bg) := by
  have h1 := select_fitChiSquaredMap m hm img d n mo bg hd hn hmo
  unfold fitChiSquared chiSquaredWithMask chiSquared
  simp only [nativeInput, slimInput] at h1 ⊢
  simp only [if_true, Bool.false_eq_true, if_false]
  rw [h1]

omit [BEq α] [LawfulBEq α] in
include hm hn in
theorem fitNoiseNormalization_native_eq_slim (log : α → α) (twoPi : α) :
    fitNoiseNormalization log twoPi (nativeInput m img d n mo bg)
      = fitNoiseNormalization log twoPi (slimInput m img d n mo bg) := by
  unfold fitNoiseNormalization noiseNormalizationWithMask noiseNormalization
  simp only [nativeInput, slimInput, if_true, Bool.false_eq_true, if_false]
  rw [selectUnmasked_eq_slimFrom m hm n 0 hn]

end fitNativeSlim

/-! ### element-wise content of the maps -/
section elementwise
variable {α : Type} [Field α] [BEq α] [LawfulBEq α]

theorem fitData_getElem? (f : FitInput α) (k : Nat) (x : α) (hx : f.data[k]? = some x) :
    (fitData f)[k]? = some (x - bgEff f) := by
  rw [fitData_eq]; simp [hx]

/-- the maps of the slim evaluation (`use_mask_in_fit = False`) at entry `k` -/
theorem slim_maps_getElem? (f : FitInput α) (hu : f.useMask = false) (k : Nat) (x y z : α)
    (hx : f.data[k]? = some x) (hy : f.model[k]? = some y) (hz : f.noise[k]? = some z) :
    (fitResidualMap f)[k]? = some (x - bgEff f - y)
    ∧ (fitNormalizedResidualMap f)[k]? = some ((x - bgEff f - y) / z)
    ∧ (fitChiSquaredMap f)[k]? = some (((x - bgEff f - y) / z) ^ 2)
    ∧ (fitResidualFluxFractionMap f)[k]? = some ((x - bgEff f - y) / (x - bgEff f)) := by
  have hD := fitData_getElem? f k x hx
  have hR : (fitResidualMap f)[k]? = some (x - bgEff f - y) := by
    simp [fitResidualMap, hu, residualMap, List.getElem?_zipWith, hD, hy]
  refine ⟨hR, ?_, ?_, ?_⟩
  · simp [fitNormalizedResidualMap, hu, normalizedResidualMap, List.getElem?_zipWith, hR, hz]
  · simp [fitChiSquaredMap, hu, chiSquaredMap, List.getElem?_zipWith, hR, hz, pow_two]
  · simp [fitResidualFluxFractionMap, hu, residualFluxFractionMap, List.getElem?_zipWith, hR, hD]

/-- the maps of the masked-native evaluation (`use_mask_in_fit = True`) at entry `k` -/
theorem masked_maps_getElem? (f : FitInput α) (hu : f.useMask = true) (k : Nat) (mk : Bool)
    (x y z : α) (hm : f.bits[k]? = some mk)
    (hx : f.data[k]? = some x) (hy : f.model[k]? = some y) (hz : f.noise[k]? = some z) :
    (fitResidualMap f)[k]? = some (if mk then 0 else x - bgEff f - y)
    ∧ (fitNormalizedResidualMap f)[k]? = some (if mk then 0 else (x - bgEff f - y) / z)
    ∧ (fitChiSquaredMap f)[k]? = some (if mk then 0 else ((x - bgEff f - y) / z) ^ 2)
    ∧ (fitResidualFluxFractionMap f)[k]? = some (if mk then 0 else (x - bgEff f - y) / (x - bgEff f)) := by
  have hD := fitData_getElem? f k x hx
  have hR : (fitResidualMap f)[k]? = some (if mk then 0 else x - bgEff f - y) := by
    simp only [fitResidualMap, hu, if_true, residualMapWithMask]
    exact maskedZipWith_getElem? _ _ _ _ k mk _ _ hm hD hy
  refine ⟨hR, ?_, ?_, ?_⟩
  · simp only [fitNormalizedResidualMap, hu, if_true, normalizedResidualMapWithMask]
    rw [maskedZipWith_getElem? _ _ _ _ k mk _ _ hm hR hz]
    cases mk <;> simp
  · simp only [fitChiSquaredMap, hu, if_true, chiSquaredMapWithMask, List.getElem?_map]
    rw [maskedZipWith_getElem? _ _ _ _ k mk _ _ hm hR hz]
    cases mk <;> simp [pow_two]
  · simp only [fitResidualFluxFractionMap, hu, if_true, residualFluxFractionMapWithMask]
    rw [maskedZipWith_getElem? _ _ _ _ k mk _ _ hm hR hD]
    cases mk <;> simp

end elementwise

/-- signal-to-noise: `data / noise` with negatives clipped to zero -/
theorem signalToNoise_getElem? {α : Type} [Field α] [LinearOrder α] (d n : List α) (k : Nat) (x z : α)
    (hx : d[k]? = some x) (hz : n[k]? = some z) :
    (signalToNoiseMap d n)[k]? = some (max (x / z) 0) := by
  simp only [signalToNoiseMap, List.getElem?_map, List.getElem?_zipWith, hx, hz, Option.map_some]
  congr 1
  by_cases h : x / z < 0
  · simp [h, max_eq_right (le_of_lt h)]
  · simp [h, max_eq_left (not_lt.mp h)]

/-! ### the scalars as sums over the unmasked pixels -/
section sums
variable {α : Type} [Field α] [BEq α] [LawfulBEq α]

theorem getElem?_eq_some_getD {β : Type} (l : List β) (k : Nat) (d : β) (h : k < l.length) :
    l[k]? = some (l.getD k d) := by
  simp [List.getD_eq_getElem?_getD, List.getElem?_eq_getElem h]

/-- masked-native evaluation: chi-squared is the sum over the unmasked flat positions only -/
theorem fitChiSquared_masked_sum (f : FitInput α) (hu : f.useMask = true)
    (hd : f.data.length = f.bits.length) (hm : f.model.length = f.bits.length)
    (hn : f.noise.length = f.bits.length) :
    fitChiSquared f
      = ((Spec.Fit.unmaskedIdx f.bits).map fun k =>
          ((f.data.getD k 0 - bgEff f - f.model.getD k 0) / f.noise.getD k 0) ^ 2).sum := by
  have hlen : (fitChiSquaredMap f).length = f.bits.length := by
    simp only [fitChiSquaredMap, hu, if_true, chiSquaredMapWithMask, List.length_map]
    apply maskedZipWith_length
    · simp only [fitResidualMap, hu, if_true]
      apply residualMapWithMask_length
      · rw [fitData_length]; exact hd
      · exact hm
    · exact hn
  simp only [fitChiSquared, hu, if_true, chiSquaredWithMask]
  rw [sum_eq, selectUnmasked_eq_range f.bits _ 0 hlen]
  unfold Spec.Fit.unmaskedIdx
  congr 1
  apply List.map_congr_left
  intro k hk
  simp only [List.mem_filter, List.mem_range] at hk
  obtain ⟨hk, hb⟩ := hk
  have hb' : f.bits[k]? = some false := by
    have := getElem?_eq_some_getD f.bits k true hk
    rw [this]; simpa using hb
  have := (masked_maps_getElem? f hu k false _ _ _ hb'
    (getElem?_eq_some_getD f.data k 0 (by omega))
    (getElem?_eq_some_getD f.model k 0 (by omega))
    (getElem?_eq_some_getD f.noise k 0 (by omega))).2.2.1
  rw [List.getD_eq_getElem?_getD, this]
  simp

omit [BEq α] [LawfulBEq α] in
/-- masked-native evaluation: the noise normalization is the sum over the unmasked flat positions -/
theorem fitNoiseNormalization_masked_sum (log : α → α) (twoPi : α) (f : FitInput α)
    (hu : f.useMask = true) (hn : f.noise.length = f.bits.length) :
    fitNoiseNormalization log twoPi f
      = ((Spec.Fit.unmaskedIdx f.bits).map fun k => log (twoPi * (f.noise.getD k 0) ^ 2)).sum := by
  simp only [fitNoiseNormalization, hu, if_true, noiseNormalizationWithMask]
  rw [sum_eq, selectUnmasked_eq_range f.bits _ 0 hn, List.map_map]
  unfold Spec.Fit.unmaskedIdx
  congr 1
  apply List.map_congr_left
  intro k _
  simp [pow_two]

theorem zipWith_eq_range {β γ δ : Type} (g : β → γ → δ) (a : List β) (b : List γ) (n : Nat)
    (ha : a.length = n) (hb : b.length = n) (x : β) (y : γ) :
    List.zipWith g a b = (List.range n).map fun k => g (a.getD k x) (b.getD k y) := by
  apply List.ext_getElem
  · simp [ha, hb]
  · intro k h1 h2
    have hk : k < n := by simpa using h2
    simp [List.getD_eq_getElem?_getD, List.getElem?_eq_getElem (ha ▸ hk),
      List.getElem?_eq_getElem (hb ▸ hk)]

/-- slim evaluation: chi-squared is the sum over all stored (= unmasked) entries -/
theorem fitChiSquared_slim_sum (f : FitInput α) (hu : f.useMask = false) (N : Nat)
    (hd : f.data.length = N) (hm : f.model.length = N) (hn : f.noise.length = N) :
    fitChiSquared f
      = ((List.range N).map fun k =>
          ((f.data.getD k 0 - bgEff f - f.model.getD k 0) / f.noise.getD k 0) ^ 2).sum := by
  have hlen : (fitChiSquaredMap f).length = N := by
    simp [fitChiSquaredMap, hu, chiSquaredMap, fitResidualMap, residualMap, fitData_length, hd, hm, hn]
  simp only [fitChiSquared, hu, Bool.false_eq_true, if_false, chiSquared]
  rw [sum_eq]
  congr 1
  apply List.ext_getElem
  · simp [hlen]
  · intro k h1 h2
    have hk : k < N := by simpa using h2
    have := (slim_maps_getElem? f hu k _ _ _
      (getElem?_eq_some_getD f.data k 0 (by omega))
      (getElem?_eq_some_getD f.model k 0 (by omega))
      (getElem?_eq_some_getD f.noise k 0 (by omega))).2.2.1
    rw [List.getElem?_eq_getElem h1] at this
    simpa using this

omit [BEq α] [LawfulBEq α] in
theorem fitNoiseNormalization_slim_sum (log : α → α) (twoPi : α) (f : FitInput α)
    (hu : f.useMask = false) :
    fitNoiseNormalization log twoPi f
      = (f.noise.map fun z => log (twoPi * z ^ 2)).sum := by
  simp only [fitNoiseNormalization, hu, Bool.false_eq_true, if_false, noiseNormalization]
  rw [sum_eq]
  simp [pow_two]

end sums

/-! ### reduced matrices and the regularization term -/
section reduced

theorem filterMap_ite_eq {ι β : Type} (l : List ι) (c : ι → Bool) (g : ι → β) :
    l.filterMap (fun i => if c i then none else some (g i)) = (l.filter fun i => !c i).map g := by
  induction l with
  | nil => simp
  | cons a l ih =>
    simp only [List.filterMap_cons, List.filter_cons]
    cases c a <;> simp [ih]

/-- `np.delete(l, idx)` keeps exactly the entries at the positions not listed, in order -/
theorem deleteIdx_eq_map {β : Type} (l : List β) (idx : List Nat) (d : β) :
    deleteIdx l idx = (Spec.Fit.keepIdx l.length idx).map fun i => l.getD i d := by
  unfold deleteIdx Spec.Fit.keepIdx
  rw [← filterMap_ite_eq]
  apply List.filterMap_congr
  intro i hi
  have hi' : i < l.length := by simpa using hi
  simp [List.getD_eq_getElem?_getD, List.getElem?_eq_getElem hi']

variable {α : Type} [Field α]

/-- entry `[i, j]` of a matrix given as a list of rows -/
def get2 (M : List (List α)) (i j : Nat) : α := (M.getD i []).getD j 0

theorem dot_eq_sum (a b : List α) : dot a b = (List.zipWith (· * ·) a b).sum := by
  unfold dot; rw [foldl_add_eq]; simp

theorem zipWith_map_same {ι β γ δ : Type} (l : List ι) (f : ι → β) (g : ι → γ) (h : β → γ → δ) :
    List.zipWith h (l.map f) (l.map g) = l.map fun i => h (f i) (g i) := by
  induction l with
  | nil => simp
  | cons a l ih => simp [ih]

theorem dot_map_map {ι : Type} (l : List ι) (f g : ι → α) :
    dot (l.map f) (l.map g) = (l.map fun i => f i * g i).sum := by
  rw [dot_eq_sum, zipWith_map_same]

theorem sum_map_filter {ι : Type} (l : List ι) (p : ι → Bool) (f : ι → α) :
    ((l.filter p).map f).sum = (l.map fun i => if p i then f i else 0).sum := by
  induction l with
  | nil => simp
  | cons a l ih =>
    simp only [List.filter_cons, List.map_cons, List.sum_cons]
    cases p a <;> simp [ih]

theorem list_eq_map_range {β : Type} (l : List β) (d : β) :
    l = (List.range l.length).map fun i => l.getD i d := by
  apply List.ext_getElem
  · simp
  · intro k h1 h2
    simp [List.getD_eq_getElem?_getD, List.getElem?_eq_getElem h1]

/-- a square matrix as the table of its entries -/
theorem mat_eq_map_range (n : Nat) (H : List (List α)) (hH : H.length = n)
    (hrow : ∀ r ∈ H, r.length = n) :
    H = (List.range n).map fun i => (List.range n).map fun j => get2 H i j := by
  conv_lhs => rw [list_eq_map_range H []]
  rw [hH]
  apply List.map_congr_left
  intro i hi
  have hi' : i < H.length := by rw [hH]; simpa using hi
  have hr : (H.getD i []).length = n := by
    apply hrow
    rw [List.getD_eq_getElem?_getD, List.getElem?_eq_getElem hi']
    simp
  conv_lhs => rw [list_eq_map_range (H.getD i []) 0]
  rw [hr]
  rfl

/-- the reduced matrix holds the entries at the kept (regularized) positions -/
theorem matDelete_eq (n : Nat) (H : List (List α)) (idx : List Nat) (hH : H.length = n)
    (hrow : ∀ r ∈ H, r.length = n) :
    matDelete H idx
      = (Spec.Fit.keepIdx n idx).map fun i => (Spec.Fit.keepIdx n idx).map fun j => get2 H i j := by
  unfold matDelete
  rw [deleteIdx_eq_map H idx [], hH, List.map_map]
  apply List.map_congr_left
  intro i hi
  have hi' : i < H.length := by
    rw [hH]; simp only [Spec.Fit.keepIdx, List.mem_filter, List.mem_range] at hi; exact hi.1
  have hr : (H.getD i []).length = n := by
    apply hrow
    rw [List.getD_eq_getElem?_getD, List.getElem?_eq_getElem hi']
    simp
  simp only [Function.comp]
  rw [deleteIdx_eq_map _ idx 0, hr]
  rfl

/-- `s_red^T H_red s_red = s^T H s` when every row and column of `H` at a deleted index is zero -/
theorem quad_reduced (n : Nat) (s : List α) (H : List (List α)) (idx : List Nat)
    (hs : s.length = n) (hH : H.length = n) (hrow : ∀ r ∈ H, r.length = n)
    (hz : ∀ i j, i < n → j < n → (idx.contains i = true ∨ idx.contains j = true) → get2 H i j = 0) :
    dot (deleteIdx s idx) (matVec (matDelete H idx) (deleteIdx s idx)) = dot s (matVec H s) := by
  set keep := Spec.Fit.keepIdx n idx with hkeep
  set sg : Nat → α := fun i => s.getD i 0 with hsg
  have e1 : deleteIdx s idx = keep.map sg := by rw [deleteIdx_eq_map s idx 0, hs]
  have e2 := matDelete_eq n H idx hH hrow
  have e3 : s = (List.range n).map sg := by
    conv_lhs => rw [list_eq_map_range s 0]
    rw [hs]
  have e4 := mat_eq_map_range n H hH hrow
  have lhs : dot (deleteIdx s idx) (matVec (matDelete H idx) (deleteIdx s idx))
      = (keep.map fun i => sg i * (keep.map fun j => get2 H i j * sg j).sum).sum := by
    rw [e1, e2]
    unfold matVec
    rw [List.map_map, dot_map_map]
    congr 1
    apply List.map_congr_left
    intro i _
    simp only [Function.comp]
    rw [dot_map_map]
  have rhs : dot s (matVec H s)
      = ((List.range n).map fun i => sg i * ((List.range n).map fun j => get2 H i j * sg j).sum).sum := by
    conv_lhs => rw [e4, e3]
    unfold matVec
    rw [List.map_map, dot_map_map]
    congr 1
    apply List.map_congr_left
    intro i _
    simp only [Function.comp]
    rw [dot_map_map]
  rw [lhs, rhs, hkeep]
  unfold Spec.Fit.keepIdx
  rw [sum_map_filter]
  congr 1
  apply List.map_congr_left
  intro i hi
  have hi' : i < n := by simpa using hi
  cases hci : idx.contains i
  · simp only [Bool.not_false, if_true]
    congr 1
    rw [sum_map_filter]
    congr 1
    apply List.map_congr_left
    intro j hj
    have hj' : j < n := by simpa using hj
    cases hcj : idx.contains j
    · simp
    · simp [hz i j hi' hj' (Or.inr hcj)]
  · simp only [Bool.not_true, Bool.false_eq_true, if_false]
    have : ((List.range n).map fun j => get2 H i j * sg j) = (List.range n).map fun _ => (0 : α) := by
      apply List.map_congr_left
      intro j hj
      have hj' : j < n := by simpa using hj
      simp [hz i j hi' hj' (Or.inl hci)]
    rw [this]
    simp

end reduced

/-! ### which parameters are unregularized -/
section noreg
variable {α : Type}

theorem paramRange_loop (objs : List (LinObj α)) (acc : List (Nat × Nat)) (n : Nat) :
    objs.foldl (fun (st : List (Nat × Nat) × Nat) o =>
        (st.1 ++ [(st.2, st.2 + o.params)], st.2 + o.params)) (acc, n)
      = (acc ++ Spec.Fit.rangesFrom n objs, n + ((objs.map (·.params)).sum)) := by
  induction objs generalizing acc n with
  | nil => simp [Spec.Fit.rangesFrom]
  | cons o os ih =>
    simp only [List.foldl_cons, ih, Spec.Fit.rangesFrom, List.map_cons, List.sum_cons]
    simp [Nat.add_assoc]

theorem paramRangeList_eq (objs : List (LinObj α)) :
    paramRangeList objs = Spec.Fit.rangesFrom 0 objs := by
  unfold paramRangeList
  rw [paramRange_loop]; simp

theorem noReg_loop (objs : List (LinObj α)) (off : Nat) (acc : List Nat) :
    (List.zip objs (Spec.Fit.rangesFrom off objs)).foldl
        (fun acc (p : LinObj α × (Nat × Nat)) =>
          if p.1.reg.isNone then acc ++ (List.range (p.2.2 - p.2.1)).map (· + p.2.1) else acc) acc
      = acc ++ Spec.Fit.noRegFrom off objs := by
  induction objs generalizing off acc with
  | nil => simp [Spec.Fit.rangesFrom, Spec.Fit.noRegFrom]
  | cons o os ih =>
    simp only [Spec.Fit.rangesFrom, List.zip_cons_cons, List.foldl_cons, Spec.Fit.noRegFrom]
    rw [ih]
    have hr : (List.range o.params).map (· + off) = List.range' off o.params := by
      rw [List.range'_eq_map_range]
      apply List.map_congr_left; intro a _; omega
    cases h : o.reg.isNone <;> simp [hr]

/-- `no_regularization_index_list` lists, object by object, the parameter indices of the linear
    objects that have no regularization scheme -/
theorem noRegularizationIndexList_eq (objs : List (LinObj α)) :
    noRegularizationIndexList objs = Spec.Fit.noRegFrom 0 objs := by
  unfold noRegularizationIndexList
  rw [paramRangeList_eq, noReg_loop]; simp

theorem noRegFrom_shift (objs : List (LinObj α)) (off c : Nat) :
    Spec.Fit.noRegFrom (off + c) objs = (Spec.Fit.noRegFrom off objs).map (· + c) := by
  induction objs generalizing off with
  | nil => simp [Spec.Fit.noRegFrom]
  | cons o os ih =>
    simp only [Spec.Fit.noRegFrom, List.map_append]
    have : off + c + o.params = off + o.params + c := by omega
    rw [this, ih]
    congr 1
    cases o.reg.isNone
    · simp
    · simp only [if_true]
      rw [List.range'_eq_map_range, List.range'_eq_map_range, List.map_map]
      apply List.map_congr_left; intro a _; simp; omega

theorem mem_noRegFrom_cons (o : LinObj α) (os : List (LinObj α)) (i : Nat) :
    i ∈ Spec.Fit.noRegFrom 0 (o :: os)
      ↔ (o.reg.isNone = true ∧ i < o.params) ∨ (o.params ≤ i ∧ i - o.params ∈ Spec.Fit.noRegFrom 0 os) := by
  simp only [Spec.Fit.noRegFrom, List.mem_append, Nat.zero_add]
  have h2 : i ∈ Spec.Fit.noRegFrom o.params os
      ↔ (o.params ≤ i ∧ i - o.params ∈ Spec.Fit.noRegFrom 0 os) := by
    have := noRegFrom_shift os 0 o.params
    rw [Nat.zero_add] at this
    rw [this, List.mem_map]
    constructor
    · rintro ⟨a, ha, rfl⟩
      exact ⟨by omega, by simpa using ha⟩
    · rintro ⟨h1, h2⟩
      exact ⟨i - o.params, h2, by omega⟩
  rw [h2]
  cases o.reg.isNone <;> simp [List.mem_range']

end noreg

/-! ### the block-diagonal regularization matrix -/
section blocks
variable {α : Type} [Field α]

/-- a block list is well-formed when every block is square of its declared size -/
def BlocksWF (L : List (Nat × List (List α))) : Prop :=
  ∀ p ∈ L, p.2.length = p.1 ∧ ∀ r ∈ p.2, r.length = p.1

theorem nat_foldl_add (l : List Nat) : l.foldl (· + ·) 0 = l.sum := by
  rw [foldl_add_eq]; simp

theorem blockDiag_dims (L : List (Nat × List (List α))) (hL : BlocksWF L) :
    (blockDiag L).length = (L.map (·.1)).sum
    ∧ ∀ r ∈ blockDiag L, r.length = (L.map (·.1)).sum := by
  induction L with
  | nil => simp [blockDiag]
  | cons p rest ih =>
    obtain ⟨n, b⟩ := p
    have hp := hL (n, b) (by simp)
    have hrest : BlocksWF rest := fun q hq => hL q (by simp [hq])
    obtain ⟨ih1, ih2⟩ := ih hrest
    simp only [blockDiag, nat_foldl_add, List.length_append, List.length_map, List.map_cons,
      List.sum_cons, List.mem_append, List.mem_map]
    refine ⟨by rw [hp.1, ih1], ?_⟩
    rintro r (⟨row, hrow, rfl⟩ | ⟨row, hrow, rfl⟩)
    · simp [hp.2 row hrow]
    · simp [ih2 row hrow]

theorem get2_blockDiag_cons (n : Nat) (b : List (List α)) (rest : List (Nat × List (List α)))
    (hb : b.length = n) (hrow : ∀ r ∈ b, r.length = n) (i j : Nat) :
    get2 (blockDiag ((n, b) :: rest)) i j
      = if i < n then (if j < n then get2 b i j else 0)
        else (if j < n then 0 else get2 (blockDiag rest) (i - n) (j - n)) := by
  unfold get2
  simp only [blockDiag, List.getD_eq_getElem?_getD]
  by_cases hi : i < n
  · have hi' : i < b.length := by omega
    simp only [hi, if_true]
    rw [List.getElem?_append_left (by simpa using hi')]
    simp only [List.getElem?_map, List.getElem?_eq_getElem hi', Option.map_some, Option.getD_some]
    have hr : (b[i]).length = n := hrow _ (List.getElem_mem hi')
    by_cases hj : j < n
    · simp only [hj, if_true]
      rw [List.getElem?_append_left (by omega)]
    · simp only [hj, if_false]
      rw [List.getElem?_append_right (by omega)]
      by_cases hj2 : j - (b[i]).length < (List.map (fun x => x.1) rest).foldl (· + ·) 0
      · simp [hj2]
      · simp [hj2]
  · simp only [hi, if_false]
    rw [List.getElem?_append_right (by simp; omega)]
    simp only [List.length_map, hb, List.getElem?_map]
    cases hR : (blockDiag rest)[i - n]? with
    | none => simp
    | some row =>
      simp only [Option.map_some, Option.getD_some]
      by_cases hj : j < n
      · simp only [hj, if_true]
        rw [List.getElem?_append_left (by simpa using hj)]
        simp [hj]
      · simp only [hj, if_false]
        rw [List.getElem?_append_right (by simp; omega)]
        simp

/-- every linear object's own regularization matrix is square of its parameter count -/
def ObjsWF (objs : List (LinObj α)) : Prop :=
  ∀ o ∈ objs, ∀ m, o.reg = some m → m.length = o.params ∧ ∀ r ∈ m, r.length = o.params

theorem objReg_dims (o : LinObj α)
    (h : ∀ m, o.reg = some m → m.length = o.params ∧ ∀ r ∈ m, r.length = o.params) :
    (objRegularizationMatrix o).length = o.params
    ∧ ∀ r ∈ objRegularizationMatrix o, r.length = o.params := by
  unfold objRegularizationMatrix
  cases hr : o.reg with
  | none =>
    refine ⟨by simp, ?_⟩
    intro r hr'
    rw [List.mem_replicate] at hr'
    rw [hr'.2]; simp
  | some m => exact h m hr

theorem blocksWF_of_objsWF (objs : List (LinObj α)) (h : ObjsWF objs) :
    BlocksWF (objs.map fun o => (o.params, objRegularizationMatrix o)) := by
  intro p hp
  rw [List.mem_map] at hp
  obtain ⟨o, ho, rfl⟩ := hp
  exact objReg_dims o (h o ho)

omit [Field α] in
theorem totalParams_eq (objs : List (LinObj α)) :
    totalParams objs = (objs.map (·.params)).sum := by
  unfold totalParams; rw [nat_foldl_add]

/-- `regularization_matrix` is `total_params × total_params` -/
theorem regularizationMatrix_dims (objs : List (LinObj α)) (h : ObjsWF objs) :
    (regularizationMatrix objs).length = totalParams objs
    ∧ ∀ r ∈ regularizationMatrix objs, r.length = totalParams objs := by
  have := blockDiag_dims _ (blocksWF_of_objsWF objs h)
  simp only [List.map_map, Function.comp_def] at this
  rw [totalParams_eq]
  exact this

/-- rows and columns of `regularization_matrix` at an unregularized parameter are zero -/
theorem regularizationMatrix_zero (objs : List (LinObj α)) (h : ObjsWF objs) (i j : Nat)
    (hij : i ∈ Spec.Fit.noRegFrom 0 objs ∨ j ∈ Spec.Fit.noRegFrom 0 objs) :
    get2 (regularizationMatrix objs) i j = 0 := by
  induction objs generalizing i j with
  | nil => simp [Spec.Fit.noRegFrom] at hij
  | cons o os ih =>
    have ho := objReg_dims o (h o (by simp))
    have hos : ObjsWF os := fun q hq => h q (by simp [hq])
    unfold regularizationMatrix
    rw [List.map_cons, get2_blockDiag_cons _ _ _ ho.1 ho.2]
    rw [mem_noRegFrom_cons, mem_noRegFrom_cons] at hij
    by_cases hi : i < o.params
    · by_cases hj : j < o.params
      · simp only [hi, hj, if_true]
        have hnone : o.reg.isNone = true := by
          rcases hij with (⟨h1, _⟩ | ⟨h1, _⟩) | (⟨h1, _⟩ | ⟨h1, _⟩)
          · exact h1
          · omega
          · exact h1
          · omega
        have : o.reg = none := by simpa using hnone
        unfold objRegularizationMatrix get2
        rw [this]
        simp [List.getD_eq_getElem?_getD, hi, hj]
      · simp [hi, hj]
    · by_cases hj : j < o.params
      · simp [hi, hj]
      · simp only [hi, hj, if_false]
        apply ih hos
        rcases hij with (⟨_, h1⟩ | ⟨_, h1⟩) | (⟨_, h1⟩ | ⟨_, h1⟩)
        · omega
        · exact Or.inl h1
        · omega
        · exact Or.inr h1

end blocks

/-! ### the evidence terms on the reduced matrices -/
section evidence
variable {α : Type} [Field α]

omit [Field α] in
theorem allHave_iff (objs : List (LinObj α)) :
    allHaveRegularization objs = true ↔ ∀ o ∈ objs, o.reg.isSome = true := by
  unfold allHaveRegularization
  rw [beq_iff_eq, eq_comm, List.length_filter_eq_length_iff]

omit [Field α] in
theorem noRegFrom_nil_of_all (objs : List (LinObj α)) (off : Nat)
    (h : ∀ o ∈ objs, o.reg.isSome = true) : Spec.Fit.noRegFrom off objs = [] := by
  induction objs generalizing off with
  | nil => rfl
  | cons o os ih =>
    have ho : o.reg.isSome = true := h o (by simp)
    have : o.reg.isNone = false := by
      cases hr : o.reg <;> simp [hr] at ho ⊢
    simp [Spec.Fit.noRegFrom, this, ih (off + o.params) (fun q hq => h q (by simp [hq]))]

/-- the regularization term computed on the reduced matrices is the full quadratic form `s^T H s` -/
theorem regularizationTerm_eq_full (objs : List (LinObj α)) (hwf : ObjsWF objs) (s : List α)
    (hs : s.length = totalParams objs) (hhas : hasRegularization objs = true) :
    regularizationTerm s objs = dot s (matVec (regularizationMatrix objs) s) := by
  unfold regularizationTerm reconstructionReduced regularizationMatrixReduced
  simp only [hhas, Bool.not_true, Bool.false_eq_true, if_false]
  cases hall : allHaveRegularization objs
  · simp only [Bool.false_eq_true, if_false]
    obtain ⟨d1, d2⟩ := regularizationMatrix_dims objs hwf
    apply quad_reduced (totalParams objs) s _ _ hs d1 d2
    intro i j _ _ hij
    apply regularizationMatrix_zero objs hwf
    rw [noRegularizationIndexList_eq] at hij
    simpa [List.contains_iff_mem] using hij
  · simp

theorem matAdd_get2 (n : Nat) (A B : List (List α)) (hA : A.length = n) (hB : B.length = n)
    (hrA : ∀ r ∈ A, r.length = n) (hrB : ∀ r ∈ B, r.length = n) (i j : Nat) (hi : i < n) (hj : j < n) :
    get2 (matAdd A B) i j = get2 A i j + get2 B i j := by
  have hiA : i < A.length := by omega
  have hiB : i < B.length := by omega
  have h1 : (A[i]).length = n := hrA _ (List.getElem_mem hiA)
  have h2 : (B[i]).length = n := hrB _ (List.getElem_mem hiB)
  unfold get2 matAdd
  simp only [List.getD_eq_getElem?_getD, List.getElem?_zipWith, List.getElem?_eq_getElem hiA,
    List.getElem?_eq_getElem hiB, Option.getD_some]
  rw [List.getElem?_eq_getElem (by rw [h1]; exact hj), List.getElem?_eq_getElem (by rw [h2]; exact hj)]
  simp

theorem matAdd_dims (n : Nat) (A B : List (List α)) (hA : A.length = n) (hB : B.length = n)
    (hrA : ∀ r ∈ A, r.length = n) (hrB : ∀ r ∈ B, r.length = n) :
    (matAdd A B).length = n ∧ ∀ r ∈ matAdd A B, r.length = n := by
  unfold matAdd
  refine ⟨by simp [hA, hB], ?_⟩
  intro r hr
  rw [List.mem_iff_getElem] at hr
  obtain ⟨k, hk, rfl⟩ := hr
  have hk' : k < n := by simpa [hA, hB] using hk
  simp only [List.getElem_zipWith, List.length_zipWith]
  rw [hrA _ (List.getElem_mem (by omega)), hrB _ (List.getElem_mem (by omega))]
  simp

/-- the matrices handed to the two log-determinants, and the vector in the regularization term, are
    `F + H`, `H` and `s` with exactly the rows / columns / entries of the unregularized parameters
    removed (the partially regularized case) -/
theorem reduced_entries (objs : List (LinObj α)) (hwf : ObjsWF objs) (F : List (List α)) (s : List α)
    (hF : F.length = totalParams objs) (hFr : ∀ r ∈ F, r.length = totalParams objs)
    (hhas : hasRegularization objs = true) (hall : allHaveRegularization objs = false) :
    let keep := Spec.Fit.keepIdx (totalParams objs) (Spec.Fit.noRegFrom 0 objs)
    curvatureRegMatrixReduced F objs
        = keep.map (fun i => keep.map fun j => get2 F i j + get2 (regularizationMatrix objs) i j)
    ∧ regularizationMatrixReduced objs
        = keep.map (fun i => keep.map fun j => get2 (regularizationMatrix objs) i j)
    ∧ (s.length = totalParams objs → reconstructionReduced s objs = keep.map fun i => s.getD i 0) := by
  intro keep
  obtain ⟨d1, d2⟩ := regularizationMatrix_dims objs hwf
  obtain ⟨a1, a2⟩ := matAdd_dims _ F _ hF d1 hFr d2
  have hk : ∀ i ∈ keep, i < totalParams objs := by
    intro i hi
    simp only [keep, Spec.Fit.keepIdx, List.mem_filter, List.mem_range] at hi
    exact hi.1
  refine ⟨?_, ?_, ?_⟩
  · unfold curvatureRegMatrixReduced curvatureRegMatrix
    simp only [hall, hhas, Bool.not_true, Bool.false_eq_true, if_false]
    rw [matDelete_eq _ _ _ a1 a2, noRegularizationIndexList_eq]
    apply List.map_congr_left
    intro i hi
    apply List.map_congr_left
    intro j hj
    exact matAdd_get2 _ F _ hF d1 hFr d2 i j (hk i hi) (hk j hj)
  · unfold regularizationMatrixReduced
    simp only [hall, Bool.false_eq_true, if_false]
    rw [matDelete_eq _ _ _ d1 d2, noRegularizationIndexList_eq]
  · intro hs
    unfold reconstructionReduced
    simp only [hall, Bool.false_eq_true, if_false]
    rw [deleteIdx_eq_map s _ 0, hs, noRegularizationIndexList_eq]

end evidence

/-! ### the unregularized index list is strictly ascending; the pixel count of `reduced_chi_squared` -/
section extras
variable {α : Type}

theorem noRegFrom_ge (objs : List (LinObj α)) (off i : Nat) (h : i ∈ Spec.Fit.noRegFrom off objs) :
    off ≤ i := by
  induction objs generalizing off with
  | nil => simp [Spec.Fit.noRegFrom] at h
  | cons o os ih =>
    simp only [Spec.Fit.noRegFrom, List.mem_append] at h
    rcases h with h | h
    · cases hr : o.reg.isNone
      · simp [hr] at h
      · simp only [hr, if_true, List.mem_range'_1] at h; exact h.1
    · have := ih (off + o.params) h; omega

theorem noRegFrom_sorted (objs : List (LinObj α)) (off : Nat) :
    (Spec.Fit.noRegFrom off objs).Pairwise (· < ·) := by
  induction objs generalizing off with
  | nil => simp [Spec.Fit.noRegFrom]
  | cons o os ih =>
    simp only [Spec.Fit.noRegFrom]
    rw [List.pairwise_append]
    refine ⟨?_, ih _, ?_⟩
    · cases o.reg.isNone
      · simp
      · simp only [if_true]; exact List.pairwise_lt_range'
    · intro a ha b hb
      have hb' := noRegFrom_ge os _ b hb
      cases hr : o.reg.isNone
      · simp [hr] at ha
      · simp only [hr, if_true, List.mem_range'_1] at ha; omega

theorem count_unmasked (bits : List Bool) :
    bits.length - (bits.filter id).length = (bits.filter fun b => !b).length := by
  induction bits with
  | nil => rfl
  | cons b bs ih =>
    have hle : (bs.filter id).length ≤ bs.length := List.length_filter_le _ _
    cases b
    · simp only [List.filter_cons, id, Bool.false_eq_true, if_false, Bool.not_false, if_true,
        List.length_cons]
      omega
    · simp only [List.filter_cons, id, if_true, Bool.not_true, Bool.false_eq_true, if_false,
        List.length_cons]
      omega

end extras

end FitProofs
end Model
