/-
Proofs/FitLogDet.lean — the log-determinant terms of the evidence (property C08, stretch goal):
the formulas the code evaluates on a Cholesky / LU factorisation equal `log det` of the matrix, over ℝ.
Bridge between the model's list-of-rows matrices and Mathlib's `Matrix (Fin n) (Fin n) ℝ`.
-/
import Model.Fit
import Proofs.Fit
import Mathlib.LinearAlgebra.Matrix.Block
import Mathlib.LinearAlgebra.Matrix.Determinant.Basic
import Mathlib.Analysis.SpecialFunctions.Log.Basic

namespace Model
namespace FitProofs

open Impl.Fit

/-- the `n×n` matrix whose entries are those of a list of rows -/
noncomputable def toMatrix (n : Nat) (M : List (List ℝ)) : Matrix (Fin n) (Fin n) ℝ :=
  Matrix.of fun i j => get2 M i j

@[simp] theorem toMatrix_apply (n : Nat) (M : List (List ℝ)) (i j : Fin n) :
    toMatrix n M i j = get2 M i j := rfl

/-- list sums over `range n` are `Fin n` sums -/
theorem list_sum_range_eq_fin_sum (n : Nat) (f : Nat → ℝ) :
    ((List.range n).map f).sum = ∑ i : Fin n, f i := by
  rw [← Finset.sum_range]
  induction n with
  | zero => simp
  | succ n ih => rw [List.range_succ, List.map_append, List.sum_append, ih, Finset.sum_range_succ]; simp

theorem diag_eq (n : Nat) (L : List (List ℝ)) (hL : L.length = n) :
    diag L = (List.range n).map fun i => get2 L i i := by
  unfold diag get2; rw [hL]

/-- contract of `numpy.linalg.cholesky(A)`: a lower-triangular `L` with positive diagonal and
    `L·Lᵀ = A` -/
structure CholeskyContract (n : Nat) (A L : List (List ℝ)) : Prop where
  len : L.length = n
  lower : ∀ i j, i < n → j < n → i < j → get2 L i j = 0
  pos : ∀ i, i < n → 0 < get2 L i i
  mul : ∀ i j, i < n → j < n →
    ((List.range n).map fun k => get2 L i k * get2 L j k).sum = get2 A i j

theorem cholesky_det (n : Nat) (A L : List (List ℝ)) (h : CholeskyContract n A L) :
    (toMatrix n A).det = (∏ i : Fin n, get2 L i i) ^ 2 := by
  have hmul : toMatrix n A = toMatrix n L * (toMatrix n L).transpose := by
    ext i j
    rw [Matrix.mul_apply]
    simp only [toMatrix_apply, Matrix.transpose_apply]
    rw [← h.mul i j i.2 j.2, list_sum_range_eq_fin_sum]
  have hlow : (toMatrix n L).IsLowerTriangular := by
    intro i j hij
    have : i < j := by simpa using hij
    exact h.lower i j i.2 j.2 this
  rw [hmul, Matrix.det_mul, Matrix.det_transpose, Matrix.det_of_isLowerTriangular _ hlow, pow_two]
  rfl

/-- `2 * Σ log(diag L) = log det A` for a Cholesky factor `L` of `A` -/
theorem logDetViaCholesky_eq (n : Nat) (chol : List (List ℝ) → List (List ℝ)) (A : List (List ℝ))
    (h : CholeskyContract n A (chol A)) :
    logDetViaCholesky Real.log chol A = Real.log (toMatrix n A).det
    ∧ 0 < (toMatrix n A).det := by
  have hpos : ∀ i : Fin n, 0 < get2 (chol A) i i := fun i => h.pos i i.2
  have hprod : 0 < ∏ i : Fin n, get2 (chol A) i i := Finset.prod_pos fun i _ => hpos i
  rw [cholesky_det n A _ h]
  refine ⟨?_, by positivity⟩
  unfold logDetViaCholesky
  rw [foldl_add_eq, zero_add, diag_eq n _ h.len, List.map_map, list_sum_range_eq_fin_sum,
    Real.log_pow, Real.log_prod (fun i _ => (hpos i).ne')]
  simp [Function.comp]

/-- contract of `scipy.sparse.linalg.splu(A)` as the code relies on it: `L` lower-, `U`
    upper-triangular and `P_r·A·P_c = L·U` for a row permutation `σ` and a column permutation `τ` -/
structure LUContract (n : Nat) (A L U : List (List ℝ)) (σ τ : Equiv.Perm (Fin n)) : Prop where
  lenL : L.length = n
  lenU : U.length = n
  lowerL : ∀ i j, i < n → j < n → i < j → get2 L i j = 0
  upperU : ∀ i j, i < n → j < n → j < i → get2 U i j = 0
  mul : ∀ i j : Fin n,
    ((List.range n).map fun k => get2 L i k * get2 U k j).sum = get2 A (σ i) (τ j)

theorem lu_det (n : Nat) (A L U : List (List ℝ)) (σ τ : Equiv.Perm (Fin n))
    (h : LUContract n A L U σ τ) :
    |(toMatrix n A).det| = |∏ i : Fin n, get2 L i i| * |∏ i : Fin n, get2 U i i| := by
  have hmul : ((toMatrix n A).submatrix σ id).submatrix id τ = toMatrix n L * toMatrix n U := by
    ext i j
    rw [Matrix.mul_apply]
    simp only [toMatrix_apply, Matrix.submatrix_apply, id]
    rw [← h.mul i j, list_sum_range_eq_fin_sum]
  have hlow : (toMatrix n L).IsLowerTriangular := by
    intro i j hij
    have : i < j := by simpa using hij
    exact h.lowerL i j i.2 j.2 this
  have hup : (toMatrix n U).IsUpperTriangular := by
    intro i j hij
    have : j < i := by simpa using hij
    exact h.upperU i j i.2 j.2 this
  have hd := congrArg Matrix.det hmul
  rw [Matrix.det_permute', Matrix.det_permute, Matrix.det_mul,
    Matrix.det_of_isLowerTriangular _ hlow, Matrix.det_of_isUpperTriangular hup] at hd
  have habs := congrArg abs hd
  rw [abs_mul, abs_mul, abs_mul] at habs
  have hs : ∀ ρ : Equiv.Perm (Fin n), |((Equiv.Perm.sign ρ : ℤˣ) : ℝ)| = 1 := by
    intro ρ
    rcases Int.units_eq_one_or (Equiv.Perm.sign ρ) with h1 | h1 <;> simp [h1]
  have hs' : ∀ ρ : Equiv.Perm (Fin n), |(((Equiv.Perm.sign ρ : ℤˣ) : ℤ) : ℝ)| = 1 := by
    intro ρ
    rcases Int.units_eq_one_or (Equiv.Perm.sign ρ) with h1 | h1 <;> simp [h1]
  simp only [hs', one_mul] at habs
  simpa using habs

/-- `Σ log|diag L| + Σ log|diag U| = log |det A|` for an LU factorisation of a non-singular `A` -/
theorem logDetViaLU_eq (n : Nat) (lu : List (List ℝ) → List (List ℝ) × List (List ℝ))
    (A : List (List ℝ)) (σ τ : Equiv.Perm (Fin n))
    (h : LUContract n A (lu A).1 (lu A).2 σ τ) (hdet : (toMatrix n A).det ≠ 0) :
    logDetViaLU Real.log (fun x => |x|) lu A = Real.log |(toMatrix n A).det| := by
  have hd := lu_det n A _ _ σ τ h
  have hne : |∏ i : Fin n, get2 (lu A).1 i i| * |∏ i : Fin n, get2 (lu A).2 i i| ≠ 0 := by
    rw [← hd]; exact abs_ne_zero.mpr hdet
  have hL : ∀ i : Fin n, get2 (lu A).1 i i ≠ 0 := by
    intro i hi
    apply hne
    rw [Finset.prod_eq_zero (Finset.mem_univ i) hi]; simp
  have hU : ∀ i : Fin n, get2 (lu A).2 i i ≠ 0 := by
    intro i hi
    apply hne
    have h0 : ∏ i : Fin n, get2 (lu A).2 i i = 0 := Finset.prod_eq_zero (Finset.mem_univ i) hi
    rw [h0]; simp
  rw [hd, Real.log_mul (by intro h0; exact hne (by rw [h0]; simp)) (by intro h0; exact hne (by rw [h0]; simp)),
    Real.log_abs, Real.log_abs, Real.log_prod (fun i _ => hL i), Real.log_prod (fun i _ => hU i)]
  unfold logDetViaLU
  rw [foldl_add_eq, foldl_add_eq, zero_add, zero_add, diag_eq n _ h.lenL, diag_eq n _ h.lenU,
    List.map_map, List.map_map, list_sum_range_eq_fin_sum, list_sum_range_eq_fin_sum]
  simp [Function.comp, Real.log_abs]

end FitProofs
end Model
