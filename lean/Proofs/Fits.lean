/-
Proofs/Fits.lean — helper lemmas for property C16.
-/
import Model.Fits
import Proofs.Slim

namespace Model
namespace Fits

/-! ### flips -/

theorem flipud_flipud (d : Data α) : flipud (flipud d) = d := by
  cases d <;> simp [flipud]

theorem flipIf_flipIf (flip : Bool) (d : Data α) : flipIf flip (flipIf flip d) = d := by
  cases flip <;> simp [flipIf, flipud_flipud]

/-! ### rows of a row-major list -/

theorem toRows_length (h w : Nat) (a : List α) : (toRows h w a).length = h := by
  induction h generalizing a with
  | zero => rfl
  | succ h ih => simp [toRows, ih]

theorem toRows_flatten (h w : Nat) (a : List α) (ha : a.length = h * w) :
    (toRows h w a).flatten = a := by
  induction h generalizing a with
  | zero => simp [toRows]; simpa using ha
  | succ h ih =>
    simp only [toRows, List.flatten_cons]
    rw [ih (a.drop w) (by rw [List.length_drop, ha, Nat.succ_mul]; omega)]
    exact List.take_append_drop w a

theorem toRows_head_length (h w : Nat) (a : List α) (ha : a.length = (h + 1) * w) :
    ((toRows (h + 1) w a).headD []).length = w := by
  simp only [toRows, List.headD_cons, List.length_take]
  rw [ha, Nat.succ_mul]; omega

/-- every row has `w` entries -/
theorem toRows_row_length (h w : Nat) (a : List α) (ha : a.length = h * w) :
    ∀ r ∈ toRows h w a, r.length = w := by
  induction h generalizing a with
  | zero => simp [toRows]
  | succ h ih =>
    intro r hr
    simp only [toRows, List.mem_cons] at hr
    rcases hr with rfl | hr
    · rw [List.length_take, ha, Nat.succ_mul]; omega
    · exact ih (a.drop w) (by rw [List.length_drop, ha, Nat.succ_mul]; omega) r hr

/-- entry `(y, x)` of the row view is entry `y*w + x` of the flat list -/
theorem toRows_get (h w : Nat) (a : List α) (y x : Nat) (hy : y < h) (hx : x < w)
    (ha : a.length = h * w) :
    ((toRows h w a)[y]?.bind fun r => r[x]?) = a[y * w + x]? := by
  induction h generalizing a y with
  | zero => omega
  | succ h ih =>
    cases y with
    | zero =>
      simp only [toRows, List.getElem?_cons_zero, Option.bind_some, Nat.zero_mul, Nat.zero_add]
      rw [List.getElem?_take_of_lt hx]
    | succ y =>
      simp only [toRows, List.getElem?_cons_succ]
      rw [ih (a.drop w) y (by omega) (by rw [List.length_drop, ha, Nat.succ_mul]; omega)]
      rw [List.getElem?_drop]
      congr 1
      rw [Nat.succ_mul]; omega

/-! ### header cards -/

theorem scales2d_roundtrip [DecidableEq α] (sy sx zero : α) :
    scales2dFromHeader (pixelScaleHeader [sy, sx] zero) = some (sy, sx) := by
  by_cases h : sx = sy
  · subst h
    simp [pixelScaleHeader, scales2dFromHeader]
  · simp [pixelScaleHeader, scales2dFromHeader, List.lookup, h]

theorem scales1d_roundtrip [DecidableEq α] (s zero : α) :
    scales1dFromHeader (pixelScaleHeader [s] zero) = some s := by
  simp [pixelScaleHeader, scales1dFromHeader]

/-! ### slim/native facts (restated from property C01 so that this file only depends on Proofs.Slim) -/

theorem slimFrom_length (m : Mask) (a : List α) (zero : α) :
    (Impl.slimFrom m a zero).length = Impl.totalPixels m := by
  rw [slimFrom_eq, totalPixels_eq]; simp [Spec.slimFrom]

theorem nativeFrom_slimFrom (m : Mask) (a : List α) (zero : α) :
    Impl.nativeFrom m (Impl.slimFrom m a zero) zero = Impl.applyMask m a zero := by
  apply List.ext_getElem?
  intro j
  by_cases hj : j < m.h * m.w
  · cases hm : m.bits.getD j true with
    | true =>
      rw [nativeFrom_masked m _ zero j hj hm]
      have hm' : m.bits[j]?.getD true = true := by simpa using hm
      simp [Impl.applyMask, hj, hm']
    | false =>
      obtain ⟨k, hk, hflat⟩ := exists_slim_index m j hj hm
      have := nativeFrom_hit m (Impl.slimFrom m a zero) zero k hk
      rw [hflat] at this
      rw [this, slimFrom_eq]
      have hm' : m.bits[j]?.getD true = false := by simpa using hm
      simp [Impl.applyMask, hj, hm', Spec.slimFrom, hk, hflat]
  · have h1 : (Impl.nativeFrom m (Impl.slimFrom m a zero) zero).length ≤ j := by
      rw [nativeFrom_length]; omega
    have h2 : (Impl.applyMask m a zero).length ≤ j := by simp [Impl.applyMask]; omega
    rw [List.getElem?_eq_none h1, List.getElem?_eq_none h2]

theorem applyMask_allFalse (h w : Nat) (v : List α) (zero : α) (hv : v.length = h * w) :
    Impl.applyMask (allFalse h w) v zero = v := by
  apply List.ext_getElem
  · simp [Impl.applyMask, allFalse, hv]
  · intro k h1 h2
    have hk : k < h * w := by simpa [Impl.applyMask, allFalse] using h1
    simp [Impl.applyMask, allFalse, hk, List.getElem?_eq_getElem h2]

/-! ### `Array2D.no_mask` of a rectangular 2-D array gives that array back -/

theorem noMask_toRows (h w : Nat) (v : List α) (sc : α × α) (zero : α) (hh : 0 < h)
    (hv : v.length = h * w) :
    ∃ r, noMask (toRows h w v) sc zero = some r ∧ r.mask = allFalse h w ∧ r.scales = sc
      ∧ r.native zero = some v := by
  obtain ⟨h', rfl⟩ : ∃ h', h = h' + 1 := ⟨h - 1, by omega⟩
  have hlen : (toRows (h' + 1) w v).length = h' + 1 := toRows_length _ _ _
  have hhead : ((toRows (h' + 1) w v).headD []).length = w := toRows_head_length h' w v hv
  have hflat : (toRows (h' + 1) w v).flatten = v := toRows_flatten _ _ _ hv
  refine ⟨⟨allFalse (h' + 1) w,
    .slim (Impl.slimFrom (allFalse (h' + 1) w) (Impl.applyMask (allFalse (h' + 1) w) v zero) zero), sc⟩,
    ?_, rfl, rfl, ?_⟩
  · simp only [noMask, hlen, hhead, hflat]
    simp [Impl.convertArray2d, allFalse, hv]
  · simp only [Read2d.native, Impl.viewNative, Impl.Stored.toInput, Impl.convertArray2d]
    rw [if_neg (by rw [slimFrom_length]; simp)]
    simp only [if_true]
    rw [nativeFrom_slimFrom, applyMask_allFalse _ _ _ _ hv, applyMask_allFalse _ _ _ _ hv]

/-! ### bool ↔ float encoding of masks -/

theorem numToBool_boolToNum [DecidableEq α] (zero one : α) (h : one ≠ zero) (b : Bool) :
    numToBool zero (boolToNum zero one b) = b := by
  cases b <;> simp [numToBool, boolToNum, h]

theorem map_numToBool_boolToNum [DecidableEq α] (zero one : α) (h : one ≠ zero) (bits : List Bool) :
    (bits.map (boolToNum zero one)).map (numToBool zero) = bits := by
  rw [List.map_map]
  conv => rhs; rw [← List.map_id bits]
  apply List.map_congr_left
  intro b _
  exact numToBool_boolToNum zero one h b

/-! ### reading back what the writers produce -/

theorem array2dFromHdu_hduForOutput2d [DecidableEq α] (flip : Bool) (h w : Nat) (v : List α)
    (sc : α × α) (zero : α) (hh : 0 < h) (hv : v.length = h * w) :
    ∃ r, array2dFromHdu flip (hduForOutput2d flip (toRows h w v) (pixelScaleHeader [sc.1, sc.2] zero)) zero
          = some r
      ∧ r.mask = allFalse h w ∧ r.scales = sc ∧ r.native zero = some v := by
  obtain ⟨r, h1, h2, h3, h4⟩ := noMask_toRows h w v sc zero hh hv
  refine ⟨r, ?_, h2, h3, h4⟩
  simp only [array2dFromHdu, hduForOutput2d, flipIf_flipIf, scales2d_roundtrip]
  exact h1

theorem array2dFromFits_hduForOutput2d (flip : Bool) (file : File α) (k : Nat) (h w : Nat)
    (v : List α) (hdr : List (String × α)) (sc : α × α) (zero : α) (hh : 0 < h) (hv : v.length = h * w)
    (hk : file[k]? = some (hduForOutput2d flip (toRows h w v) hdr)) :
    ∃ r, array2dFromFits flip file k sc zero = some r
      ∧ r.mask = allFalse h w ∧ r.scales = sc ∧ r.native zero = some v := by
  obtain ⟨r, h1, h2, h3, h4⟩ := noMask_toRows h w v sc zero hh hv
  refine ⟨r, ?_, h2, h3, h4⟩
  simp only [array2dFromFits, hk, hduForOutput2d, flipIf_flipIf]
  exact h1

end Fits
end Model
