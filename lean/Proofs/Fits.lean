/-
Proofs/Fits.lean — helper lemmas for property C16.
-/
import Model.Fits
import Proofs.Slim

namespace Model
namespace Fits

theorem flipud_flipud (d : Data α) : flipud (flipud d) = d := by
  cases d <;> simp [flipud]

theorem flipIf_flipIf (flip : Bool) (d : Data α) : flipIf flip (flipIf flip d) = d := by
  cases flip <;> simp [flipIf, flipud_flipud]

end Fits
end Model
