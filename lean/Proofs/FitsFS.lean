/-
Proofs/FitsFS.lean — the filesystem state machine of property C16 (overwrite / makedirs semantics).
-/
import Model.Fits

namespace Model
namespace Fits
namespace FS

variable {γ : Type}

/-! ### association-list facts -/

theorem lookup_filter_ne (files : List (Path × γ)) (p q : Path) :
    (files.filter fun e => e.1 != p).lookup q = if q = p then none else files.lookup q := by
  induction files with
  | nil => simp
  | cons e files ih =>
    obtain ⟨k, v⟩ := e
    by_cases hk : k = p
    · subst hk
      simp only [List.filter_cons, bne_self_eq_false, Bool.false_eq_true, if_false, ih, List.lookup_cons]
      by_cases hq : q = k
      · simp [hq]
      · have : (q == k) = false := by simpa using hq
        simp [hq, this]
    · have hne : (k != p) = true := by simpa using hk
      simp only [List.filter_cons, hne, if_true, List.lookup_cons, ih]
      by_cases hq : q = k
      · subst hq; simp [hk]
      · have : (q == k) = false := by simpa using hq
        simp [this]

theorem filter_eq_nil_of_lookup_none (files : List (Path × γ)) (p : Path)
    (h : files.lookup p = none) : files.filter (fun e => e.1 == p) = [] := by
  induction files with
  | nil => rfl
  | cons e files ih =>
    obtain ⟨k, v⟩ := e
    simp only [List.lookup_cons] at h
    by_cases hk : p = k
    · subst hk; simp at h
    · have h1 : (p == k) = false := by simpa using hk
      have h2 : (k == p) = false := by simpa using (fun h' => hk h'.symm)
      rw [h1] at h
      simp only [List.filter_cons, h2, Bool.false_eq_true, if_false]
      exact ih h

theorem filter_filter_ne (files : List (Path × γ)) (p : Path) :
    (files.filter fun e => e.1 != p).filter (fun e => e.1 == p) = [] := by
  rw [List.filter_filter]
  apply List.filter_eq_nil_iff.mpr
  intro e _
  by_cases h : e.1 = p <;> simp [h]

/-! ### prefixes -/

theorem mem_prefixes {p q : Path} : q ∈ prefixes p ↔ ∃ k, k < p.length ∧ q = p.take (k + 1) := by
  simp [prefixes, eq_comm]

theorem self_mem_prefixes {p : Path} (hp : p ≠ []) : p ∈ prefixes p := by
  rw [mem_prefixes]
  have : 0 < p.length := List.length_pos_iff.mpr hp
  exact ⟨p.length - 1, by omega, by rw [List.take_of_length_le (by omega)]⟩

theorem prefixes_ne_nil {p q : Path} (h : q ∈ prefixes p) : q ≠ [] := by
  obtain ⟨k, hk, rfl⟩ := mem_prefixes.mp h
  intro h0
  rcases List.take_eq_nil_iff.mp h0 with h | h
  · omega
  · subst h; simp at hk

theorem prefixes_length_le {p q : Path} (h : q ∈ prefixes p) : q.length ≤ p.length := by
  obtain ⟨k, hk, rfl⟩ := mem_prefixes.mp h
  simp; omega

/-- a prefix of a prefix is a prefix -/
theorem prefixes_trans {p q r : Path} (hq : q ∈ prefixes p) (hr : r ∈ prefixes q) : r ∈ prefixes p := by
  obtain ⟨k, hk, rfl⟩ := mem_prefixes.mp hq
  obtain ⟨j, hj, rfl⟩ := mem_prefixes.mp hr
  rw [mem_prefixes]
  simp only [List.length_take] at hj
  refine ⟨j, by omega, ?_⟩
  rw [List.take_take]
  congr 1
  omega

/-- the target itself is never one of the directories created for it -/
theorem not_mem_prefixes_dropLast (p : Path) : p ∉ prefixes p.dropLast := by
  intro h
  have h1 := prefixes_length_le h
  have hne := prefixes_ne_nil h
  simp at h1
  have : 0 < p.length := List.length_pos_iff.mpr hne
  omega

/-! ### invariants and side conditions -/

/-- the directory set is closed under taking ancestors (true of every real filesystem) -/
def DirsClosed (fs : FS γ) : Prop := ∀ d, fs.isDir d = true → ∀ q ∈ prefixes d, fs.isDir q = true

/-- side conditions on a target path `p` under which the property speaks: it names a file (not the
    working directory), is not an existing directory, and no ancestor is a regular file -/
structure Target (fs : FS γ) (p : Path) : Prop where
  nonempty : p ≠ []
  notDir : fs.isDir p = false
  ancestors : ∀ q ∈ prefixes p.dropLast, fs.isFile q = false

theorem isDir_iff {fs : FS γ} {d : Path} : fs.isDir d = true ↔ d = [] ∨ d ∈ fs.dirs := by
  simp [isDir]

/-! ### the three phases -/

theorem makedirs_ok (fs : FS γ) (d : Path) (h : ∀ q ∈ prefixes d, fs.isFile q = false) :
    fs.makedirs d = .ok { fs with dirs := fs.dirs ++ (prefixes d).filter fun q => !fs.isDir q } := by
  unfold makedirs
  have : (prefixes d).any fs.isFile = false := by
    rw [List.any_eq_false]
    intro q hq
    simp [h q hq]
  simp [this, pure, Except.pure]

/-- `ensureDir` succeeds, leaves the files alone, and afterwards exactly the old directories plus the
    ancestors of the target exist; it does nothing when there is no directory part (bare file name)
    or the directory is already there. -/
theorem ensureDir_spec (fs : FS γ) (p : Path) (ht : Target fs p) (hc : DirsClosed fs) :
    ∃ fs1, ensureDir fs p = .ok fs1 ∧ fs1.files = fs.files
      ∧ (∀ d, fs1.isDir d = true ↔ (fs.isDir d = true ∨ d ∈ prefixes p.dropLast))
      ∧ (p.dropLast = [] ∨ fs.isDir p.dropLast = true → fs1 = fs) := by
  unfold ensureDir
  by_cases hd : p.dropLast = []
  · refine ⟨fs, by simp [hd, pure, Except.pure], rfl, ?_, fun _ => rfl⟩
    intro d; simp [hd, prefixes]
  · have hself : p.dropLast ∈ prefixes p.dropLast := self_mem_prefixes hd
    have hnf : fs.isFile p.dropLast = false := ht.ancestors _ hself
    by_cases he : fs.isDir p.dropLast = true
    · refine ⟨fs, by simp [pathExists, he, pure, Except.pure], rfl, ?_, fun _ => rfl⟩
      intro d
      constructor
      · exact Or.inl
      · rintro (h | h)
        · exact h
        · exact hc _ he d h
    · have he' : fs.isDir p.dropLast = false := by simpa using he
      refine ⟨{ fs with dirs := fs.dirs ++ (prefixes p.dropLast).filter fun q => !fs.isDir q }, ?_, rfl,
        ?_, ?_⟩
      · have hcond : (p.dropLast != [] && !fs.pathExists p.dropLast) = true := by
          simp [pathExists, he', hnf, hd]
        rw [if_pos hcond]
        exact makedirs_ok fs _ ht.ancestors
      · intro d
        rw [isDir_iff, isDir_iff]
        simp only [List.mem_append, List.mem_filter, Bool.not_eq_true']
        constructor
        · rintro (h | h | ⟨h1, _⟩)
          · exact Or.inl (Or.inl h)
          · exact Or.inl (Or.inr h)
          · exact Or.inr h1
        · rintro ((h | h) | h)
          · exact Or.inl h
          · exact Or.inr (Or.inl h)
          · by_cases hdd : fs.isDir d = true
            · rcases isDir_iff.mp hdd with h' | h'
              · exact Or.inl h'
              · exact Or.inr (Or.inl h')
            · exact Or.inr (Or.inr ⟨h, by simpa using hdd⟩)
      · rintro (h | h)
        · exact absurd h hd
        · exact absurd h he

theorem isFile_iff_read {fs : FS γ} {p : Path} : fs.isFile p = true ↔ ∃ c, fs.read p = some c := by
  simp [isFile, read, Option.isSome_iff_exists]

/-- the whole call, under the side conditions: it fails exactly when the target exists and overwrite
    was not requested (with astropy's "already exists" error); otherwise the new state has the new
    content at the target — and only it —, every other file as before, and as directories exactly the
    old ones plus the target's ancestors. -/
theorem output_spec (fs : FS γ) (p : Path) (ow : Bool) (c : γ) (ht : Target fs p) (hc : DirsClosed fs) :
    (fs.isFile p = true ∧ ow = false ∧ output fs p ow c = .error "exists_no_overwrite")
    ∨ ((fs.isFile p = false ∨ ow = true) ∧ ∃ fs', output fs p ow c = .ok fs'
        ∧ fs'.read p = some c
        ∧ fs'.files.filter (fun e => e.1 == p) = [(p, c)]
        ∧ (∀ q, q ≠ p → fs'.read q = fs.read q)
        ∧ (∀ d, fs'.isDir d = true ↔ (fs.isDir d = true ∨ d ∈ prefixes p.dropLast))
        ∧ (p.dropLast = [] ∨ fs.isDir p.dropLast = true → fs'.dirs = fs.dirs)) := by
  obtain ⟨fs1, h1, hfiles, hdirs, hsame⟩ := ensureDir_spec fs p ht hc
  have hnd1 : fs1.isDir p = false := by
    cases h : fs1.isDir p with
    | false => rfl
    | true =>
      rcases (hdirs p).mp h with h' | h'
      · rw [ht.notDir] at h'; exact absurd h' (by simp)
      · exact absurd h' (not_mem_prefixes_dropLast p)
  have hparent : fs1.isDir p.dropLast = true := by
    by_cases hd : p.dropLast = []
    · simp [hd, isDir]
    · exact (hdirs _).mpr (Or.inr (self_mem_prefixes hd))
  have hfile1 : fs1.isFile p = fs.isFile p := by simp [isFile, hfiles]
  unfold output
  simp only [h1, bind, Except.bind]
  cases hf : fs.isFile p with
  | false =>
    right
    refine ⟨Or.inl rfl, ?_⟩
    have hex : fs1.pathExists p = false := by simp [pathExists, hnd1, hfile1, hf]
    have hlk : fs.files.lookup p = none := by
      simpa [isFile] using hf
    refine ⟨{ fs1 with files := (p, c) :: fs1.files }, ?_, ?_, ?_, ?_, ?_, ?_⟩
    · simp [clearTarget, hex, pure, Except.pure, writeto, hparent]
    · simp [read]
    · simp only [List.filter_cons, beq_self_eq_true, if_true, hfiles]
      rw [filter_eq_nil_of_lookup_none _ _ hlk]
    · intro q hq
      have : (q == p) = false := by simpa using hq
      simp [read, List.lookup_cons, this, hfiles]
    · intro d; simpa [isDir] using hdirs d
    · intro h; simp [hsame h]
  | true =>
    cases ow with
    | false =>
      left
      refine ⟨rfl, rfl, ?_⟩
      have hex : fs1.pathExists p = true := by simp [pathExists, hfile1, hf]
      simp [clearTarget, pure, Except.pure, writeto, hex]
      rfl
    | true =>
      right
      refine ⟨Or.inr rfl, ?_⟩
      have hex : fs1.pathExists p = true := by simp [pathExists, hfile1, hf]
      have hf1 : fs1.isFile p = true := by rw [hfile1, hf]
      let fs2 : FS γ := { fs1 with files := fs1.files.filter fun e => e.1 != p }
      have hclear : clearTarget fs1 p true = .ok fs2 := by
        simp [clearTarget, hex, remove, hf1, pure, Except.pure, fs2]
      have hlk2 : fs2.files.lookup p = none := by
        simp [fs2, lookup_filter_ne]
      have hex2 : fs2.pathExists p = false := by
        have : fs2.isDir p = false := by simpa [fs2, isDir] using hnd1
        simp [pathExists, this, isFile, hlk2]
      have hpar2 : fs2.isDir p.dropLast = true := by simpa [fs2, isDir] using hparent
      refine ⟨{ fs2 with files := (p, c) :: fs2.files }, ?_, ?_, ?_, ?_, ?_, ?_⟩
      · simp [hclear, writeto, hex2, hpar2, pure, Except.pure]
      · simp [read]
      · simp only [List.filter_cons, beq_self_eq_true, if_true]
        simp [fs2]
      · intro q hq
        have : (q == p) = false := by simpa using hq
        simp [read, List.lookup_cons, this, fs2, lookup_filter_ne, hq, hfiles]
      · intro d; simpa [fs2, isDir] using hdirs d
      · intro h; simp [fs2, hsame h]

end FS
end Fits
end Model
