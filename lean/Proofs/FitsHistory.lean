/-
Proofs/FitsHistory.lean — histories of `output_to_fits` calls (property C16): for every finite
sequence of calls over a pool of compatible target paths, the outcomes and the final contents are those
of the abstract "last successful write wins, existing + no overwrite fails" semantics.
-/
import Model.Fits
import Proofs.FitsFS

namespace Model
namespace Fits

variable {γ : Type}

/-! ### the abstract semantics the property states -/

/-- one call on an abstract content map: fails iff the path holds something and overwrite is off
    (nothing changes); otherwise the path holds the new content and nothing else changes -/
def specStep (st : Path → Option γ) (s : Path × Bool × γ) : Option String × (Path → Option γ) :=
  if (st s.1).isSome && !s.2.1 then (some "exists_no_overwrite", st)
  else (none, fun q => if q = s.1 then some s.2.2 else st q)

def specRun (st : Path → Option γ) : List (Path × Bool × γ) → List (Option String) × (Path → Option γ)
  | [] => ([], st)
  | s :: ss =>
    let r := specStep st s
    let rest := specRun r.2 ss
    (r.1 :: rest.1, rest.2)

/-! ### `outputs` as a recursion -/

def outputsRec (fs : FS γ) : List (Path × Bool × γ) → List (Option String) × FS γ
  | [] => ([], fs)
  | s :: ss =>
    match output fs s.1 s.2.1 s.2.2 with
    | .ok fs' => let rest := outputsRec fs' ss; (none :: rest.1, rest.2)
    | .error e => let rest := outputsRec fs ss; (some e :: rest.1, rest.2)

theorem outputs_foldl_eq (acc : List (Option String)) (fs : FS γ) (steps : List (Path × Bool × γ)) :
    steps.foldl outputStep (acc, fs) = (acc ++ (outputsRec fs steps).1, (outputsRec fs steps).2) := by
  induction steps generalizing acc fs with
  | nil => simp [outputsRec]
  | cons s ss ih =>
    simp only [List.foldl_cons, outputsRec, outputStep]
    cases h : output fs s.1 s.2.1 s.2.2 with
    | ok fs' => simp [ih]
    | error e => simp [ih]

theorem outputs_eq_rec (fs : FS γ) (steps : List (Path × Bool × γ)) :
    outputs fs steps = outputsRec fs steps := by
  unfold outputs
  rw [outputs_foldl_eq]
  simp

/-! ### a pool of compatible targets and the invariant it maintains -/

/-- a set of target paths such that each names a file and none is an ancestor directory of another -/
structure PoolOK (P : Path → Prop) : Prop where
  nonempty : ∀ p, P p → p ≠ []
  compatible : ∀ p q, P p → P q → p ∉ FS.prefixes q.dropLast

/-- the filesystem states reachable by writing only to pool paths -/
structure Inv (P : Path → Prop) (fs : FS γ) : Prop where
  closed : FS.DirsClosed fs
  files : ∀ q, fs.isFile q = true → P q
  dirs : ∀ d, fs.isDir d = true → ¬ P d

theorem Inv.target {P : Path → Prop} (hP : PoolOK P) {fs : FS γ} (hi : Inv P fs) {p : Path} (hp : P p) :
    FS.Target fs p := by
  refine ⟨hP.nonempty p hp, ?_, ?_⟩
  · cases h : fs.isDir p with
    | false => rfl
    | true => exact absurd hp (hi.dirs p h)
  · intro q hq
    cases h : fs.isFile q with
    | false => rfl
    | true => exact absurd hq (hP.compatible q p (hi.files q h) hp)

theorem Inv.step {P : Path → Prop} (hP : PoolOK P) {fs fs' : FS γ} (hi : Inv P fs) {p : Path} (hp : P p)
    {ow : Bool} {c : γ} (h : output fs p ow c = .ok fs') : Inv P fs' := by
  rcases FS.output_spec fs p ow c (hi.target hP hp) hi.closed with ⟨_, _, he⟩ | ⟨_, fs2, h2, hr, _, hq, hd, _⟩
  · rw [he] at h; cases h
  · rw [h2] at h
    cases h
    refine ⟨?_, ?_, ?_⟩
    · intro d hdd q hqd
      rcases (hd d).mp hdd with h' | h'
      · exact (hd q).mpr (Or.inl (hi.closed d h' q hqd))
      · exact (hd q).mpr (Or.inr (FS.prefixes_trans h' hqd))
    · intro q hqf
      by_cases hqp : q = p
      · rw [hqp]; exact hp
      · have : fs.isFile q = true := by
          have := hq q hqp
          simp only [FS.isFile, FS.read] at this hqf ⊢
          rw [← this]; exact hqf
        exact hi.files q this
    · intro d hdd hPd
      rcases (hd d).mp hdd with h' | h'
      · exact hi.dirs d h' hPd
      · exact hP.compatible d p hPd hp h'

/-- **every history**: the outcomes reported by the calls and the content found afterwards at every
    path are exactly those of the abstract semantics, and the invariant persists -/
theorem outputsRec_spec {P : Path → Prop} (hP : PoolOK P) (steps : List (Path × Bool × γ)) (fs : FS γ)
    (hi : Inv P fs) (hs : ∀ s ∈ steps, P s.1) :
    (outputsRec fs steps).1 = (specRun fs.read steps).1
    ∧ (∀ q, (outputsRec fs steps).2.read q = (specRun fs.read steps).2 q)
    ∧ Inv P (outputsRec fs steps).2 := by
  induction steps generalizing fs with
  | nil => exact ⟨rfl, fun _ => rfl, hi⟩
  | cons s ss ih =>
    obtain ⟨p, ow, c⟩ := s
    have hp : P p := hs (p, ow, c) (by simp)
    have hss : ∀ s ∈ ss, P s.1 := fun s h => hs s (by simp [h])
    have hfile : (fs.read p).isSome = fs.isFile p := rfl
    rcases FS.output_spec fs p ow c (hi.target hP hp) hi.closed with
      ⟨hf, ho, he⟩ | ⟨hcond, fs2, h2, hr, _, hq, _, _⟩
    · -- the call fails: nothing changes
      obtain ⟨i1, i2, i3⟩ := ih fs hi hss
      have hst : specStep fs.read (p, ow, c) = (some "exists_no_overwrite", fs.read) := by
        simp [specStep, hfile, hf, ho]
      simp only [outputsRec, he, specRun, hst]
      exact ⟨by rw [i1], i2, i3⟩
    · have hi2 : Inv P fs2 := hi.step hP hp h2
      obtain ⟨i1, i2, i3⟩ := ih fs2 hi2 hss
      have hread : fs2.read = fun q => if q = p then some c else fs.read q := by
        funext q
        by_cases hqp : q = p
        · simp [hqp, hr]
        · simp [hqp, hq q hqp]
      have hst : specStep fs.read (p, ow, c) = (none, fun q => if q = p then some c else fs.read q) := by
        have : ((fs.read p).isSome && !ow) = false := by
          rcases hcond with h | h
          · simp [hfile, h]
          · simp [h]
        simp [specStep, this]
      simp only [outputsRec, h2, specRun, hst]
      rw [← hread]
      exact ⟨by rw [i1], i2, i3⟩

end Fits
end Model
