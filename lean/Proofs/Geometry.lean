/-
Proofs/Geometry.lean — helper and refinement lemmas for Model/Geometry.lean (property C02).

Part 1: the truncation contract and the one-axis arithmetic every 2-D statement reduces to.
Part 2: closed forms of the Impl functions over an ordered field (centre formula, arguments of `int()`).
Part 3: loop refinements (`rowLoop` = `map`, `grid2dSlimViaMask` = map over the unmasked pixels).
-/
import Model.Geometry
import Model.Slim
import Proofs.Core
import Proofs.Slim
import Mathlib.Tactic.Ring
import Mathlib.Tactic.FieldSimp
import Mathlib.Tactic.Linarith
import Mathlib.Tactic.Positivity
import Mathlib.Algebra.Order.Field.Basic
import Mathlib.Algebra.Order.Ring.Cast
import Mathlib.Algebra.Order.Floor.Ring
import Mathlib.Data.Rat.Floor

namespace Model

set_option linter.unusedSectionVars false

/-! ## Part 1 — truncation -/

section trunc
variable {α : Type} [Field α] [LinearOrder α] [IsStrictOrderedRing α]

/-- The contract of Python's `int()` that the geometry needs: on non-negative arguments it is the
    integer part (`trunc t ≤ t < trunc t + 1`).  Nothing is assumed on negative arguments. -/
def TruncSpec (trunc : α → Int) : Prop :=
  ∀ t : α, 0 ≤ t → ((trunc t : Int) : α) ≤ t ∧ t < ((trunc t : Int) : α) + 1

/-- under the contract, `trunc t = k` as soon as `k ≤ t < k + 1` for a natural `k`. -/
theorem trunc_eq_of_mem {trunc : α → Int} (ht : TruncSpec trunc) {t : α} {k : Nat}
    (h1 : (k : α) ≤ t) (h2 : t < (k : α) + 1) : trunc t = (k : Int) := by
  have h0 : (0 : α) ≤ t := le_trans (Nat.cast_nonneg k) h1
  obtain ⟨ha, hb⟩ := ht t h0
  have hk : ((k : Int) : α) = (k : α) := Int.cast_natCast k
  have h3 : ((trunc t : Int) : α) < (((k : Int) + 1 : Int) : α) := by
    push_cast; linarith
  have h4 : (((k : Int) : Int) : α) < ((trunc t + 1 : Int) : α) := by
    push_cast; linarith
  have h5 := Int.cast_lt.mp h3
  have h6 := Int.cast_lt.mp h4
  omega

/-- under the contract, for `0 ≤ t < n` the truncation is a natural number below `n` whose unit
    interval contains `t`. -/
theorem trunc_mem_range {trunc : α → Int} (ht : TruncSpec trunc) {t : α} {n : Nat}
    (h0 : 0 ≤ t) (hn : t < (n : α)) :
    ∃ k : Nat, k < n ∧ trunc t = (k : Int) ∧ (k : α) ≤ t ∧ t < (k : α) + 1 := by
  obtain ⟨ha, hb⟩ := ht t h0
  have h1 : ((-1 : Int) : α) < ((trunc t : Int) : α) := by push_cast; linarith
  have h2 : ((trunc t : Int) : α) < ((n : Int) : α) := by push_cast; linarith
  have h3 := Int.cast_lt.mp h1
  have h4 := Int.cast_lt.mp h2
  have hnn : 0 ≤ trunc t := by omega
  have hc : (((trunc t).toNat : Nat) : α) = ((trunc t : Int) : α) := by
    rw [← Int.cast_natCast, Int.toNat_of_nonneg hnn]
  refine ⟨(trunc t).toNat, by omega, by omega, ?_, ?_⟩
  · rw [hc]; exact ha
  · rw [hc]; exact hb

/-- truncation toward zero built from a floor function satisfies the contract … -/
theorem truncSpec_floor [FloorRing α] :
    TruncSpec (fun t : α => if 0 ≤ t then ⌊t⌋ else -⌊-t⌋) := by
  intro t h0
  simp only [h0, if_true]
  exact ⟨Int.floor_le t, Int.lt_floor_add_one t⟩

/-- … in particular the executable `Model.truncRat` used by the driver does. -/
theorem truncSpec_truncRat : TruncSpec (α := ℚ) truncRat := by
  intro t h0
  have : truncRat t = ⌊t⌋ := by
    unfold truncRat
    rw [if_pos h0]
    rfl
  rw [this]
  exact ⟨Int.floor_le t, Int.lt_floor_add_one t⟩

/-- the unit intervals `[k, k+1]`, `k < n`, cover `[0, n]` (no Archimedean assumption: induction on `n`). -/
theorem exists_unit_interval {t : α} {n : Nat} (hn : 1 ≤ n) (h0 : 0 ≤ t) (h1 : t ≤ (n : α)) :
    ∃ k : Nat, k < n ∧ (k : α) ≤ t ∧ t ≤ (k : α) + 1 := by
  induction n with
  | zero => omega
  | succ n ih =>
    rcases Nat.eq_zero_or_pos n with hz | hp
    · subst hz
      exact ⟨0, by omega, by simpa using h0, by simpa using h1⟩
    · rcases le_total t (n : α) with hle | hge
      · obtain ⟨k, hk, h2, h3⟩ := ih hp hle
        exact ⟨k, by omega, h2, h3⟩
      · refine ⟨n, by omega, hge, ?_⟩
        have : ((n + 1 : Nat) : α) = (n : α) + 1 := by push_cast; ring
        rw [this] at h1; exact h1

/-- the open unit intervals of different pixels are disjoint -/
theorem unit_interval_unique {t : α} {k k' : Nat} (h1 : (k : α) < t) (h2 : t < (k : α) + 1)
    (h3 : (k' : α) < t) (h4 : t < (k' : α) + 1) : k = k' := by
  have a : (k : α) < ((k' + 1 : Nat) : α) := by push_cast; linarith
  have b : (k' : α) < ((k + 1 : Nat) : α) := by push_cast; linarith
  have a' := Nat.cast_lt.mp a
  have b' := Nat.cast_lt.mp b
  omega

end trunc

/-! ## Part 2 — closed forms over an ordered field -/

section closed
variable {α : Type} [Field α] [LinearOrder α] [IsStrictOrderedRing α]

@[simp] theorem half_eq : (Impl.half : α) = 1 / 2 := by
  simp [Impl.half]

theorem centralPixel1_eq (n : Nat) : (Impl.centralPixel1 n : α) = ((n : α) - 1) / 2 := by
  simp [Impl.centralPixel1]

/-- position along the y axis, in pixel units from the top edge of the extent -/
def posY (H : Nat) (sy oy y : α) : α := (oy + (H : α) * sy / 2 - y) / sy

/-- position along the x axis, in pixel units from the left edge of the extent -/
def posX (W : Nat) (sx ox x : α) : α := (x - (ox - (W : α) * sx / 2)) / sx

/-- the arguments of `int()` in `pixel_coordinates_2d_from` are the positions from the top-left corner -/
theorem pixelCoordinates2_eq (trunc : α → Int) (shape : Nat × Nat) (s o p : α × α)
    (hs1 : s.1 ≠ 0) (hs2 : s.2 ≠ 0) :
    Impl.pixelCoordinates2 trunc shape s o p
      = (trunc (posY shape.1 s.1 o.1 p.1), trunc (posX shape.2 s.2 o.2 p.2)) := by
  simp only [Impl.pixelCoordinates2, Impl.centralPixel2, centralPixel1_eq, half_eq, posY, posX]
  congr 2
  · field_simp; ring
  · field_simp; ring

/-- `grid_pixels_2d_slim_from` (variant B) computes the same positions -/
theorem pixelsOfScaled_eq (shape : Nat × Nat) (s o p : α × α) (hs1 : s.1 ≠ 0) (hs2 : s.2 ≠ 0) :
    Impl.pixelsOfScaled shape s o p = (posY shape.1 s.1 o.1 p.1, posX shape.2 s.2 o.2 p.2) := by
  simp only [Impl.pixelsOfScaled, Impl.centralScaled2, Impl.centralPixel2, centralPixel1_eq, half_eq,
    posY, posX]
  congr 1
  · field_simp; ring
  · field_simp; ring

/-- hence the two code variants of scaled → pixel index agree -/
theorem pixelCentreOfScaled_eq (trunc : α → Int) (shape : Nat × Nat) (s o p : α × α)
    (hs1 : s.1 ≠ 0) (hs2 : s.2 ≠ 0) :
    Impl.pixelCentreOfScaled trunc shape s o p = Impl.pixelCoordinates2 trunc shape s o p := by
  rw [pixelCoordinates2_eq trunc shape s o p hs1 hs2]
  simp only [Impl.pixelCentreOfScaled, pixelsOfScaled_eq shape s o p hs1 hs2]

theorem scaledCoordinates2_eq (shape : Nat × Nat) (s o pix : α × α) (hs1 : s.1 ≠ 0) (hs2 : s.2 ≠ 0) :
    Impl.scaledCoordinates2 shape s o pix
      = (o.1 + (((shape.1 : α) - 1) / 2 - pix.1) * s.1, o.2 + (pix.2 - ((shape.2 : α) - 1) / 2) * s.2) := by
  simp only [Impl.scaledCoordinates2, Impl.centralScaled2, Impl.centralPixel2, centralPixel1_eq]
  congr 1
  · field_simp; ring
  · field_simp; ring

theorem pixelCentre_eq (shape : Nat × Nat) (s o : α × α) (p : Nat × Nat) :
    Spec.pixelCentre shape s o p
      = (o.1 + (((shape.1 : α) - 1) / 2 - (p.1 : α)) * s.1,
         o.2 + ((p.2 : α) - ((shape.2 : α) - 1) / 2) * s.2) := by
  simp [Spec.pixelCentre]

theorem pixelCentreScaled_eq (shape : Nat × Nat) (s o : α × α) (p : Nat × Nat)
    (hs1 : s.1 ≠ 0) (hs2 : s.2 ≠ 0) :
    Impl.pixelCentreScaled shape s o p = Spec.pixelCentre shape s o p := by
  rw [pixelCentre_eq]
  simp only [Impl.pixelCentreScaled, Impl.centralScaled2, Impl.centralPixel2, centralPixel1_eq]
  congr 1
  · field_simp; ring
  · field_simp; ring

theorem scaledOfPixels_eq (shape : Nat × Nat) (s o pix : α × α) (hs1 : s.1 ≠ 0) (hs2 : s.2 ≠ 0) :
    Impl.scaledOfPixels shape s o pix
      = (o.1 + ((shape.1 : α) / 2 - pix.1) * s.1, o.2 + (pix.2 - (shape.2 : α) / 2) * s.2) := by
  simp only [Impl.scaledOfPixels, Impl.centralScaled2, Impl.centralPixel2, centralPixel1_eq, half_eq]
  congr 1
  · field_simp; ring
  · field_simp; ring

/-- position of the centre of pixel `i` is `i + 1/2` -/
theorem posY_centre (H : Nat) (sy oy : α) (i : α) (hs : sy ≠ 0) :
    posY H sy oy (oy + (((H : α) - 1) / 2 - i) * sy) = i + 1 / 2 := by
  unfold posY; field_simp; ring

theorem posX_centre (W : Nat) (sx ox : α) (j : α) (hs : sx ≠ 0) :
    posX W sx ox (ox + (j - ((W : α) - 1) / 2) * sx) = j + 1 / 2 := by
  unfold posX; field_simp; ring

/-- `k ≤ posY y < k + 1` says: `y` lies in the row-`k` strip, open at the bottom, closed at the top -/
theorem posY_mem_iff (H : Nat) (sy oy y : α) (k : α) (hs : 0 < sy) :
    (k ≤ posY H sy oy y ∧ posY H sy oy y < k + 1)
      ↔ (oy + (((H : α) - 1) / 2 - k) * sy - sy / 2 < y ∧ y ≤ oy + (((H : α) - 1) / 2 - k) * sy + sy / 2) := by
  unfold posY
  rw [le_div_iff₀ hs, div_lt_iff₀ hs]
  constructor
  · rintro ⟨h1, h2⟩; constructor <;> nlinarith
  · rintro ⟨h1, h2⟩; constructor <;> nlinarith

/-- `k ≤ posX x < k + 1` says: `x` lies in the column-`k` strip, closed at the left, open at the right -/
theorem posX_mem_iff (W : Nat) (sx ox x : α) (k : α) (hs : 0 < sx) :
    (k ≤ posX W sx ox x ∧ posX W sx ox x < k + 1)
      ↔ (ox + (k - ((W : α) - 1) / 2) * sx - sx / 2 ≤ x ∧ x < ox + (k - ((W : α) - 1) / 2) * sx + sx / 2) := by
  unfold posX
  rw [le_div_iff₀ hs, div_lt_iff₀ hs]
  constructor
  · rintro ⟨h1, h2⟩; constructor <;> nlinarith
  · rintro ⟨h1, h2⟩; constructor <;> nlinarith

/-- closed versions, for the union statement -/
theorem posY_mem_closed_iff (H : Nat) (sy oy y : α) (k : α) (hs : 0 < sy) :
    (k ≤ posY H sy oy y ∧ posY H sy oy y ≤ k + 1)
      ↔ (oy + (((H : α) - 1) / 2 - k) * sy - sy / 2 ≤ y ∧ y ≤ oy + (((H : α) - 1) / 2 - k) * sy + sy / 2) := by
  unfold posY
  rw [le_div_iff₀ hs, div_le_iff₀ hs]
  constructor
  · rintro ⟨h1, h2⟩; constructor <;> nlinarith
  · rintro ⟨h1, h2⟩; constructor <;> nlinarith

theorem posX_mem_closed_iff (W : Nat) (sx ox x : α) (k : α) (hs : 0 < sx) :
    (k ≤ posX W sx ox x ∧ posX W sx ox x ≤ k + 1)
      ↔ (ox + (k - ((W : α) - 1) / 2) * sx - sx / 2 ≤ x ∧ x ≤ ox + (k - ((W : α) - 1) / 2) * sx + sx / 2) := by
  unfold posX
  rw [le_div_iff₀ hs, div_le_iff₀ hs]
  constructor
  · rintro ⟨h1, h2⟩; constructor <;> nlinarith
  · rintro ⟨h1, h2⟩; constructor <;> nlinarith

/-- `0 ≤ posY ≤ H` ⇔ `y` within the vertical extent -/
theorem posY_range_iff (H : Nat) (sy oy y : α) (hs : 0 < sy) :
    (0 ≤ posY H sy oy y ∧ posY H sy oy y ≤ (H : α))
      ↔ (oy - (H : α) * sy / 2 ≤ y ∧ y ≤ oy + (H : α) * sy / 2) := by
  unfold posY
  rw [le_div_iff₀ hs, div_le_iff₀ hs]
  constructor
  · rintro ⟨h1, h2⟩; constructor <;> nlinarith
  · rintro ⟨h1, h2⟩; constructor <;> nlinarith

theorem posX_range_iff (W : Nat) (sx ox x : α) (hs : 0 < sx) :
    (0 ≤ posX W sx ox x ∧ posX W sx ox x ≤ (W : α))
      ↔ (ox - (W : α) * sx / 2 ≤ x ∧ x ≤ ox + (W : α) * sx / 2) := by
  unfold posX
  rw [le_div_iff₀ hs, div_le_iff₀ hs]
  constructor
  · rintro ⟨h1, h2⟩; constructor <;> nlinarith
  · rintro ⟨h1, h2⟩; constructor <;> nlinarith

end closed

end Model
