/-
Proofs/GeometryLoops.lean — loop refinements for Model/Geometry.lean (core Lean only).
  * `rowLoop` (zeros + one point-write per row) = `List.map`
  * `grid_2d_slim_via_mask_from` = map of the per-pixel value over `native_index_for_slim_index`
  * the 1-D twin
-/
import Model.Geometry
import Model.Slim
import Proofs.Core
import Proofs.Slim

namespace Model

set_option linter.unusedSectionVars false

/-! ### `out = zeros(n); for k in range(n): out[k] = f(inp[k])` is `map f inp` -/

theorem rowLoop_prefix {β γ : Type} (zero : γ) (dflt : β) (f : β → γ) (inp : List β) (n : Nat)
    (hn : n ≤ inp.length) :
    (List.range n).foldl (fun out k => out.set k (f (inp.getD k dflt))) (List.replicate inp.length zero)
      = (inp.take n).map f ++ List.replicate (inp.length - n) zero := by
  induction n with
  | zero => simp
  | succ n ih =>
    rw [List.range_succ, List.foldl_append, ih (by omega)]
    simp only [List.foldl_cons, List.foldl_nil]
    have hlt : n < inp.length := by omega
    apply List.ext_getElem
    · simp; omega
    · intro k h1 h2
      simp only [List.length_set, List.length_append, List.length_map, List.length_take,
        List.length_replicate] at h1
      rw [List.getElem_set]
      by_cases hk : n = k
      · subst hk
        simp only [if_true]
        rw [List.getElem_append_left (by simp; omega)]
        simp [List.getD_eq_getElem?_getD, hlt]
      · simp only [hk, if_false]
        by_cases hkn : k < n
        · rw [List.getElem_append_left (by simp; omega), List.getElem_append_left (by simp; omega)]
          simp
        · rw [List.getElem_append_right (by simp; omega), List.getElem_append_right (by simp; omega)]
          simp

theorem rowLoop_eq_map {β γ : Type} (zero : γ) (dflt : β) (f : β → γ) (inp : List β) :
    Impl.rowLoop zero dflt f inp = inp.map f := by
  unfold Impl.rowLoop
  rw [rowLoop_prefix zero dflt f inp inp.length (Nat.le_refl _)]
  simp

section
variable {α : Type} [Add α] [Sub α] [Mul α] [Div α] [Neg α] [NatCast α]

theorem gridPixels2_eq (shape : Nat × Nat) (s o : α × α) (grid : List (α × α)) :
    Impl.gridPixels2 shape s o grid = grid.map (Impl.pixelsOfScaled shape s o) := by
  simp [Impl.gridPixels2, rowLoop_eq_map]

theorem gridScaled2_eq (shape : Nat × Nat) (s o : α × α) (grid : List (α × α)) :
    Impl.gridScaled2 shape s o grid = grid.map (Impl.scaledOfPixels shape s o) := by
  simp [Impl.gridScaled2, rowLoop_eq_map]

theorem gridPixelCentres2_eq (trunc : α → Int) (shape : Nat × Nat) (s o : α × α) (grid : List (α × α)) :
    Impl.gridPixelCentres2 trunc shape s o grid = grid.map (Impl.pixelCentreOfScaled trunc shape s o) := by
  simp [Impl.gridPixelCentres2, rowLoop_eq_map]

theorem gridPixelIndexes2_eq (trunc : α → Int) (shape : Nat × Nat) (s o : α × α) (grid : List (α × α)) :
    Impl.gridPixelIndexes2 trunc shape s o grid
      = grid.map fun p =>
          (Impl.pixelCentreOfScaled trunc shape s o p).1 * (shape.2 : Int)
            + (Impl.pixelCentreOfScaled trunc shape s o p).2 := by
  simp [Impl.gridPixelIndexes2, rowLoop_eq_map, gridPixelCentres2_eq, List.map_map, Function.comp_def]

/-- `grid_2d_slim_via_mask_from` = the per-pixel value mapped over the slim → native table of C01 -/
theorem grid2dSlimViaMask_eq (m : Mask) (s o : α × α) :
    Impl.grid2dSlimViaMask m s o
      = (Impl.nativeForSlim m).map (Impl.pixelCentreScaled (m.h, m.w) s o) := by
  unfold Impl.grid2dSlimViaMask
  rw [forYX_eq_foldl, nativeForSlim_eq]
  have := foldl_append_if (pixels m.h m.w) (fun p => !m.get p.1 p.2)
    (fun p => Impl.pixelCentreScaled (m.h, m.w) s o (p.1, p.2)) []
  simpa [Spec.unmaskedPixels] using this

/-- an all-`False` mask of the given shape -/
def allFalse (shape : Nat × Nat) : Mask := ⟨shape.1, shape.2, List.replicate (shape.1 * shape.2) false⟩

theorem allFalse_get {shape : Nat × Nat} {p : Nat × Nat} (hp : p ∈ pixels shape.1 shape.2) :
    (allFalse shape).get p.1 p.2 = false := by
  have := flat_lt hp
  simp only [flat] at this
  simp [allFalse, Mask.get, List.getD_eq_getElem?_getD, this]

theorem unmaskedPixels_allFalse (shape : Nat × Nat) :
    Spec.unmaskedPixels (allFalse shape) = pixels shape.1 shape.2 := by
  unfold Spec.unmaskedPixels
  show List.filter _ (pixels shape.1 shape.2) = pixels shape.1 shape.2
  rw [List.filter_eq_self]
  intro p hp
  have : (allFalse shape).get p.1 p.2 = false := allFalse_get (shape := shape) hp
  simp [this]

/-- `grid_2d_slim_via_shape_native_from` lists every pixel of the frame in row-major order -/
theorem grid2dSlimViaShape_eq (shape : Nat × Nat) (s o : α × α) :
    Impl.grid2dSlimViaShape shape s o
      = (pixels shape.1 shape.2).map (Impl.pixelCentreScaled shape s o) := by
  have h := grid2dSlimViaMask_eq (allFalse shape) s o
  rw [nativeForSlim_eq, unmaskedPixels_allFalse] at h
  exact h

/-- `grid_1d_slim_via_mask_from` = the per-pixel value mapped over the unmasked indices, ascending -/
theorem grid1dSlimViaMask_eq (mask : List Bool) (s o : α) :
    Impl.grid1dSlimViaMask mask s o
      = ((List.range mask.length).filter fun x => !mask.getD x true).map
          (Impl.pixelCentreScaled1 mask.length s o) := by
  unfold Impl.grid1dSlimViaMask
  have := foldl_append_if (List.range mask.length) (fun x => !mask.getD x true)
    (Impl.pixelCentreScaled1 mask.length s o) []
  simpa using this

theorem grid1dSlimViaShape_eq (n : Nat) (s o : α) :
    Impl.grid1dSlimViaShape n s o = (List.range n).map (Impl.pixelCentreScaled1 n s o) := by
  unfold Impl.grid1dSlimViaShape
  rw [grid1dSlimViaMask_eq]
  simp only [List.length_replicate]
  congr 1
  rw [List.filter_eq_self]
  intro x hx
  have : x < n := by simpa using hx
  simp [List.getD_eq_getElem?_getD, this]

end

end Model
