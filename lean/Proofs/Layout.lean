/-
Proofs/Layout.lean — helper lemmas for Model/Layout.lean (core Lean only).
-/
import Model.Layout

namespace Model

open Impl

/-! ### windows of lists -/

/-- a window of the reversed list is the reversed reflected window -/
theorem rev_window (l : List α) (a b : Nat) (_hab : a ≤ b) (hb : b ≤ l.length) :
    (l.reverse.take (l.length - a)).drop (l.length - b) = ((l.take b).drop a).reverse := by
  rw [List.take_reverse, List.drop_reverse, List.drop_take]
  have h1 : l.length - (l.length - a) = a := by omega
  have h2 : (List.drop (l.length - (l.length - a)) l).length - (l.length - b) = b - a := by
    simp; omega
  rw [h2, h1]

/-- a window of a window is a window -/
theorem window_window (l : List α) (a b c d : Nat) :
    (((l.take b).drop a).take d).drop c = (l.take (min b (a + d))).drop (a + c) := by
  apply List.ext_getElem?
  intro i
  simp only [List.getElem?_drop, List.getElem?_take]
  by_cases h1 : c + i < d <;> by_cases h2 : a + (c + i) < b <;> simp [h1, h2] <;> grind

/-- `array[y0:y1, x0:x1]` with natural-number bounds -/
def sliceN (y0 y1 x0 x1 : Nat) (a : List (List α)) : List (List α) :=
  ((a.take y1).drop y0).map fun row => (row.take x1).drop x0

theorem slice2d_eq_sliceN (r : R2) (a : List (List α)) :
    slice2d r a = sliceN r.y0.toNat r.y1.toNat r.x0.toNat r.x1.toNat a := rfl

theorem sliceN_reverse_rows (a : List (List α)) (y0 y1 x0 x1 : Nat) (h1 : y0 ≤ y1)
    (h2 : y1 ≤ a.length) :
    sliceN (a.length - y1) (a.length - y0) x0 x1 a.reverse = (sliceN y0 y1 x0 x1 a).reverse := by
  unfold sliceN
  rw [rev_window a y0 y1 h1 h2, List.map_reverse]

theorem mem_of_mem_window {l : List α} {a b : Nat} {x : α} (h : x ∈ (l.take b).drop a) : x ∈ l :=
  List.mem_of_mem_take (List.mem_of_mem_drop h)

theorem sliceN_reverse_cols (a : List (List α)) (w y0 y1 x0 x1 : Nat)
    (hrows : ∀ row ∈ a, row.length = w) (h1 : x0 ≤ x1) (h2 : x1 ≤ w) :
    sliceN y0 y1 (w - x1) (w - x0) (a.map List.reverse) = (sliceN y0 y1 x0 x1 a).map List.reverse := by
  unfold sliceN
  rw [← List.map_take, ← List.map_drop, List.map_map, List.map_map]
  apply List.map_congr_left
  intro row hrow
  have hw : row.length = w := hrows row (mem_of_mem_window hrow)
  simp only [Function.comp]
  rw [← hw]
  exact rev_window row x0 x1 h1 (by omega)

theorem sliceN_length_rows (a : List (List α)) (w y0 y1 x0 x1 : Nat)
    (hrows : ∀ row ∈ a, row.length = w) :
    ∀ row ∈ sliceN y0 y1 x0 x1 a, row.length = min x1 w - x0 := by
  intro row hrow
  unfold sliceN at hrow
  obtain ⟨r0, hr0, rfl⟩ := List.mem_map.mp hrow
  have := hrows r0 (mem_of_mem_window hr0)
  simp [this]

/-- a window of a window of a 2-D array -/
theorem sliceN_sliceN (a : List (List α)) (y0 y1 x0 x1 a0 a1 b0 b1 : Nat) :
    sliceN a0 a1 b0 b1 (sliceN y0 y1 x0 x1 a)
      = sliceN (y0 + a0) (min y1 (y0 + a1)) (x0 + b0) (min x1 (x0 + b1)) a := by
  unfold sliceN
  rw [← List.map_take, ← List.map_drop, List.map_map, window_window]
  apply List.map_congr_left
  intro row _
  simp only [Function.comp]
  exact window_window row x0 x1 b0 b1

/-! ### rotations -/

theorem rotateArray_twice (c : Corner) (a : List (List α)) :
    rotateArray c (rotateArray c a) = a := by
  cases c <;> simp [rotateArray, List.map_reverse, Function.comp_def]

theorem region2dNew_eq_some {r : R2} (h : 0 ≤ r.y0 ∧ r.y0 < r.y1 ∧ 0 ≤ r.x0 ∧ r.x0 < r.x1) :
    region2dNew r = some r := by
  unfold region2dNew
  have h1 : ¬(r.y0 < 0 ∨ r.y1 < 0 ∨ r.x0 < 0 ∨ r.x1 < 0) := by omega
  have h2 : ¬(r.y0 ≥ r.y1) := by omega
  have h3 : ¬(r.x0 ≥ r.x1) := by omega
  simp [h1, h2, h3]

theorem region2dNew_eq_none {r : R2} (h : ¬(0 ≤ r.y0 ∧ r.y0 < r.y1 ∧ 0 ≤ r.x0 ∧ r.x0 < r.x1)) :
    region2dNew r = none := by
  unfold region2dNew
  split
  · rfl
  · split
    · rfl
    · split
      · rfl
      · exfalso; apply h; omega

theorem region1dNew_eq_some {r : R1} (h : 0 ≤ r.x0 ∧ r.x0 < r.x1) : region1dNew r = some r := by
  unfold region1dNew
  have h1 : ¬(r.x0 < 0 ∨ r.x1 < 0) := by omega
  have h2 : ¬(r.x0 ≥ r.x1) := by omega
  simp [h1, h2]

theorem region1dNew_eq_none {r : R1} (h : ¬(0 ≤ r.x0 ∧ r.x0 < r.x1)) : region1dNew r = none := by
  unfold region1dNew
  split
  · rfl
  · split
    · rfl
    · exfalso; apply h; omega

/-- the reflected region (the arithmetic of `rotate_region_via_roe_corner_from`) -/
def reflect (r : R2) (h w : Nat) : Corner → R2
  | .c10 => r
  | .c00 => ⟨(h : Int) - r.y1, (h : Int) - r.y0, r.x0, r.x1⟩
  | .c11 => ⟨r.y0, r.y1, (w : Int) - r.x1, (w : Int) - r.x0⟩
  | .c01 => ⟨(h : Int) - r.y1, (h : Int) - r.y0, (w : Int) - r.x1, (w : Int) - r.x0⟩

theorem reflect_inside {r : R2} {h w : Nat} (hr : Spec.R2.Inside r h w) (c : Corner) :
    Spec.R2.Inside (reflect r h w c) h w := by
  unfold Spec.R2.Inside at *
  cases c <;> simp only [reflect] <;> omega

theorem rotateRegion_of_inside {r : R2} {h w : Nat} (hr : Spec.R2.Inside r h w) (c : Corner) :
    rotateRegion r h w c = some (reflect r h w c) := by
  unfold Spec.R2.Inside at hr
  cases c <;> simp only [rotateRegion, reflect] <;> apply region2dNew_eq_some <;> (try dsimp only) <;> omega

theorem reflect_reflect (r : R2) (h w : Nat) (c : Corner) : reflect (reflect r h w c) h w c = r := by
  obtain ⟨y0, y1, x0, x1⟩ := r
  cases c <;> simp only [reflect, R2.mk.injEq, and_self, true_and, and_true] <;> omega

/-! ### interval clipping -/

theorem x0x1_eq_overlap (x0o x1o x0e x1e : Int) (ho : x0o < x1o) (he : x0e < x1e) :
    x0x1AfterExtraction x0o x1o x0e x1e = Spec.overlap1d x0o x1o x0e x1e := by
  unfold x0x1AfterExtraction Spec.overlap1d
  simp only [ge_iff_le, gt_iff_lt]
  by_cases a1 : x0o ≤ x0e <;> by_cases a2 : x0e ≤ x1o <;> by_cases a3 : x0e ≤ x0o <;>
  by_cases a4 : x0o ≤ x1e <;> by_cases a5 : x1e ≤ x1o <;> by_cases a6 : x1o < x1e <;>
  simp only [a1, a2, a3, a4, a5, a6, and_self, and_true, and_false, if_true, if_false] <;>
  (try (exfalso; omega)) <;>
  (repeat' split) <;>
  (simp only [Option.some.injEq, Prod.mk.injEq, reduceCtorEq] at *) <;>
  (try omega)

/-! ### the three core facts (used by Props/C19 and by the Layout2D lemmas) -/

theorem rotate_commutes (c : Corner) (a : List (List α)) (h w : Nat) (r : R2)
    (ha : a.length = h) (hrows : ∀ row ∈ a, row.length = w) (hr : Spec.R2.Inside r h w) :
    ∃ r', Impl.rotateRegion r h w c = some r' ∧ Spec.R2.Inside r' h w
      ∧ Impl.slice2d r' (Impl.rotateArray c a) = Impl.rotateArray c (Impl.slice2d r a) := by
  refine ⟨reflect r h w c, rotateRegion_of_inside hr c, reflect_inside hr c, ?_⟩
  unfold Spec.R2.Inside at hr
  obtain ⟨h0, h1, h2, h3, h4, h5⟩ := hr
  simp only [slice2d_eq_sliceN]
  have ey0 : ((h : Int) - r.y1).toNat = a.length - r.y1.toNat := by omega
  have ey1 : ((h : Int) - r.y0).toNat = a.length - r.y0.toNat := by omega
  have ex0 : ((w : Int) - r.x1).toNat = w - r.x1.toNat := by omega
  have ex1 : ((w : Int) - r.x0).toNat = w - r.x0.toNat := by omega
  have hy : r.y0.toNat ≤ r.y1.toNat := by omega
  have hy' : r.y1.toNat ≤ a.length := by omega
  have hx : r.x0.toNat ≤ r.x1.toNat := by omega
  have hx' : r.x1.toNat ≤ w := by omega
  cases c
  · rfl
  · simp only [reflect, Impl.rotateArray, ey0, ey1]
    exact sliceN_reverse_rows a _ _ _ _ hy hy'
  · simp only [reflect, Impl.rotateArray, ex0, ex1]
    exact sliceN_reverse_cols a w _ _ _ _ hrows hx hx'
  · simp only [reflect, Impl.rotateArray, ey0, ey1, ex0, ex1]
    have hrows' : ∀ row ∈ a.reverse, row.length = w := fun row hrow =>
      hrows row (List.mem_reverse.mp hrow)
    rw [sliceN_reverse_cols a.reverse w _ _ _ _ hrows' hx hx']
    have := sliceN_reverse_rows a r.y0.toNat r.y1.toNat r.x0.toNat r.x1.toNat hy hy'
    rw [this]

theorem regionAfterExtraction_eq (o e : R2) (ho : Spec.R2.Valid o) (he : Spec.R2.Valid e) :
    Impl.regionAfterExtraction o e =
      if max o.y0 e.y0 < min o.y1 e.y1 ∧ max o.x0 e.x0 < min o.x1 e.x1 then
        .value ⟨max o.y0 e.y0 - e.y0, min o.y1 e.y1 - e.y0, max o.x0 e.x0 - e.x0, min o.x1 e.x1 - e.x0⟩
      else .absent := by
  unfold Spec.R2.Valid at ho he
  unfold Impl.regionAfterExtraction
  rw [x0x1_eq_overlap _ _ _ _ ho.2.1 he.2.1, x0x1_eq_overlap _ _ _ _ ho.2.2.2 he.2.2.2]
  unfold Spec.overlap1d
  simp only
  by_cases hy : max o.y0 e.y0 < min o.y1 e.y1 <;> by_cases hx : max o.x0 e.x0 < min o.x1 e.x1 <;>
    simp only [hy, hx, if_true, if_false, and_self, and_false, false_and]
  rw [region2dNew_eq_some (by dsimp only; omega)]

theorem extraction_addresses (a : List (List α)) (o e r : R2)
    (ho : Spec.R2.Valid o) (he : Spec.R2.Valid e)
    (hres : Impl.regionAfterExtraction o e = .value r) :
    Impl.slice2d r (Impl.slice2d e a) = Impl.slice2d (Spec.overlapRegion o e) a := by
  rw [regionAfterExtraction_eq o e ho he] at hres
  unfold Spec.R2.Valid at ho he
  split at hres
  · rename_i hov
    injection hres with hres
    subst hres
    simp only [slice2d_eq_sliceN, Spec.overlapRegion, sliceN_sliceN]
    congr 1 <;> omega
  · exact absurd hres (by simp)

end Model
