/-
Proofs/LayoutGlue.lean — per-region lemmas for the Layout2D compositions (core Lean only).
-/
import Model.Layout
import Proofs.Layout

namespace Model

open Impl

/-- rotating a possibly-absent region that lies inside the frame -/
theorem optRegion_rotate (c : Corner) (a : List (List α)) (h w : Nat) (o : Option R2)
    (ha : a.length = h) (hrows : ∀ row ∈ a, row.length = w) (ho : Spec.OptInside h w o) :
    optRegion (fun r => rotateRegion r h w c) o = some (o.map fun r => reflect r h w c)
      ∧ Spec.RegionRotated c h w a o (o.map fun r => reflect r h w c)
      ∧ Spec.OptInside h w (o.map fun r => reflect r h w c) := by
  cases o with
  | none => exact ⟨rfl, trivial, trivial⟩
  | some r =>
    obtain ⟨r', h1, h2, h3⟩ := rotate_commutes c a h w r ha hrows ho
    have hr' : r' = reflect r h w c := by
      rw [rotateRegion_of_inside ho c] at h1
      exact (Option.some.inj h1).symm
    subst hr'
    refine ⟨?_, ⟨h2, h3⟩, h2⟩
    simp only [optRegion, h1, Option.map_some]

/-- the rotation of regions does not depend on an array: version without one -/
theorem optRegion_rotate' (c : Corner) (h w : Nat) (o : Option R2) (ho : Spec.OptInside h w o) :
    optRegion (fun r => rotateRegion r h w c) o = some (o.map fun r => reflect r h w c)
      ∧ Spec.OptInside h w (o.map fun r => reflect r h w c) := by
  cases o with
  | none => exact ⟨rfl, trivial⟩
  | some r =>
    refine ⟨?_, reflect_inside ho c⟩
    simp only [optRegion, rotateRegion_of_inside ho c, Option.map_some]

theorem map_reflect_reflect (c : Corner) (h w : Nat) (o : Option R2) :
    (o.map fun r => reflect r h w c).map (fun r => reflect r h w c) = o := by
  cases o with
  | none => rfl
  | some r => simp [reflect_reflect]

/-- extraction of a possibly-absent valid region by a valid window -/
theorem optAfterExtraction_spec (e : R2) (o : Option R2) (he : Spec.R2.Valid e) (ho : Spec.OptValid o) :
    ∃ o', optAfterExtraction e o = some o' ∧ Spec.RegionExtracted e o o' := by
  cases o with
  | none => exact ⟨none, rfl, trivial⟩
  | some r =>
    have hr : Spec.R2.Valid r := ho
    have heq := regionAfterExtraction_eq r e hr he
    by_cases hov : max r.y0 e.y0 < min r.y1 e.y1 ∧ max r.x0 e.x0 < min r.x1 e.x1
    · rw [if_pos hov] at heq
      refine ⟨some _, ?_, hov, rfl, ?_⟩
      · simp only [optAfterExtraction, heq]
      · intro β a
        exact extraction_addresses a r e _ hr he heq
    · rw [if_neg hov] at heq
      refine ⟨none, ?_, hov⟩
      simp only [optAfterExtraction, heq]

end Model
