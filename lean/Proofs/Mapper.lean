/-
Proofs/Mapper.lean — dense accumulation (`mapping_matrix_from`): scatter–accumulate lemmas, the entry
formula, row sums.  (Property C06, clauses a and b.)
-/
import Model.Mapper
import Proofs.Core
import Proofs.Slim
import Mathlib.Algebra.BigOperators.Group.List.Basic
import Mathlib.Algebra.BigOperators.Group.List.Lemmas
import Mathlib.Algebra.BigOperators.Ring.List
import Mathlib.Algebra.Order.BigOperators.Group.List
import Mathlib.Algebra.Order.Field.Basic
import Mathlib.Tactic.Ring
import Mathlib.Tactic.Linarith
import Mathlib.Tactic.FieldSimp

namespace Model

open Impl

section sums
variable {α : Type} [Field α]

theorem sumList_eq_sum (l : List α) : sumList l = l.sum := by
  induction l with
  | nil => simp [sumList]
  | cons a l ih => simp [sumList] at ih ⊢; rw [ih]

/-! ### `arr[i] += v` -/

@[simp] theorem length_addAt (l : List α) (i : Nat) (v : α) : (addAt l i v).length = l.length := by
  simp [addAt]

theorem getD_addAt (l : List α) (i j : Nat) (v : α) :
    (addAt l i v).getD j 0 = if j = i ∧ i < l.length then l.getD i 0 + v else l.getD j 0 := by
  unfold addAt
  by_cases hji : j = i
  · subst hji
    by_cases hj : j < l.length
    · simp [hj, List.getD_eq_getElem?_getD]
    · have : l.length ≤ j := by omega
      simp [hj, List.getD_eq_getElem?_getD]
  · have hne : i ≠ j := fun h => hji h.symm
    simp [hji, List.getD_eq_getElem?_getD, List.getElem?_set_ne hne]

theorem sum_addAt (l : List α) (i : Nat) (v : α) (hi : i < l.length) :
    (addAt l i v).sum = l.sum + v := by
  unfold addAt
  induction l generalizing i with
  | nil => simp at hi
  | cons a l ih =>
    cases i with
    | zero => simp [List.getD_eq_getElem?_getD]; ring
    | succ i =>
      have hi' : i < l.length := by simpa using hi
      have := ih i hi'
      simp only [List.getD_eq_getElem?_getD, List.set_cons_succ, List.sum_cons,
        List.getElem?_cons_succ] at this ⊢
      rw [this]; ring

theorem addAt_nonneg [LinearOrder α] [IsStrictOrderedRing α] (l : List α) (i : Nat) (v : α)
    (hl : ∀ x ∈ l, 0 ≤ x) (hv : 0 ≤ v) : ∀ x ∈ addAt l i v, 0 ≤ x := by
  intro x hx
  unfold addAt at hx
  rcases List.mem_or_eq_of_mem_set hx with h | h
  · exact hl x h
  · subst h
    have : 0 ≤ l.getD i 0 := by
      rw [List.getD_eq_getElem?_getD]
      cases hq : l[i]? with
      | none => simp
      | some y => simpa using hl y (List.mem_of_getElem? hq)
    linarith

/-! ### matrices as lists of rows -/

/-- `M[i][p]` with out-of-range reads as 0 -/
def entry (M : List (List α)) (i p : Nat) : α := (M.getD i []).getD p 0

/-- shape predicate: `n` rows of `P` columns -/
def IsMat (M : List (List α)) (n P : Nat) : Prop := M.length = n ∧ ∀ r ∈ M, r.length = P

theorem isMat_zeros (n P : Nat) : IsMat (List.replicate n (List.replicate P (0 : α))) n P := by
  refine ⟨by simp, ?_⟩
  intro r hr
  rw [List.mem_replicate] at hr
  simp [hr.2]

theorem entry_zeros (n P i p : Nat) :
    entry (List.replicate n (List.replicate P (0 : α))) i p = 0 := by
  unfold entry
  simp only [List.getD_eq_getElem?_getD]
  by_cases hi : i < n
  · by_cases hp : p < P
    · simp [hi, hp]
    · simp [hi, hp]
  · simp [hi]

theorem IsMat.row_length {M : List (List α)} {n P : Nat} (h : IsMat M n P) {i : Nat} (hi : i < n) :
    (M.getD i []).length = P := by
  have hi' : i < M.length := by rw [h.1]; exact hi
  rw [List.getD_eq_getElem?_getD, List.getElem?_eq_getElem hi']
  exact h.2 _ (List.getElem_mem hi')

theorem isMat_addAt2 {M : List (List α)} {n P : Nat} (h : IsMat M n P) (i p : Nat) (v : α) :
    IsMat (addAt2 M i p v) n P := by
  unfold addAt2
  by_cases hi : i < n
  · refine ⟨by simp [h.1], ?_⟩
    intro r hr
    rcases List.mem_or_eq_of_mem_set hr with h1 | h1
    · exact h.2 r h1
    · subst h1
      rw [length_addAt]
      exact h.row_length hi
  · have hlen : M.length ≤ i := by rw [h.1]; omega
    rw [List.set_eq_of_length_le hlen]
    exact h

theorem entry_addAt2 {M : List (List α)} {n P : Nat} (h : IsMat M n P) (i p i' p' : Nat) (v : α)
    (hi : i < n) (hp : p < P) :
    entry (addAt2 M i p v) i' p' = if i' = i ∧ p' = p then entry M i p + v else entry M i' p' := by
  unfold entry addAt2
  have hiM : i < M.length := by rw [h.1]; exact hi
  by_cases hii : i' = i
  · subst hii
    have hrow : (M.getD i' []).length = P := h.row_length hi
    simp only [List.getD_eq_getElem?_getD, List.getElem?_set_self hiM, Option.getD_some]
    have := getD_addAt (M[i']?.getD []) p p' v
    simp only [List.getD_eq_getElem?_getD] at this hrow
    rw [this]
    by_cases hpp : p' = p
    · simp [hpp, hrow, hp]
    · simp [hpp]
  · have hne : i ≠ i' := fun h => hii h.symm
    simp [List.getD_eq_getElem?_getD, List.getElem?_set_ne hne, hii]

theorem rowSum_addAt2 {M : List (List α)} {n P : Nat} (h : IsMat M n P) (i p i' : Nat) (v : α)
    (hi : i < n) (hp : p < P) :
    ((addAt2 M i p v).getD i' []).sum = if i' = i then (M.getD i []).sum + v else (M.getD i' []).sum := by
  unfold addAt2
  have hiM : i < M.length := by rw [h.1]; exact hi
  by_cases hii : i' = i
  · subst hii
    have hrow : (M.getD i' []).length = P := h.row_length hi
    simp only [List.getD_eq_getElem?_getD, List.getElem?_set_self hiM, Option.getD_some, if_true]
    simp only [List.getD_eq_getElem?_getD] at hrow
    exact sum_addAt _ p v (by rw [hrow]; exact hp)
  · have hne : i ≠ i' := fun h => hii h.symm
    simp [List.getD_eq_getElem?_getD, List.getElem?_set_ne hne, hii]

/-! ### scatter–accumulate -/

/-- the loop `for (i,p,v) in ts: M[i][p] += v` -/
def scatter (ts : List (Nat × Nat × α)) (M : List (List α)) : List (List α) :=
  ts.foldl (fun M t => addAt2 M t.1 t.2.1 t.2.2) M

theorem isMat_scatter (ts : List (Nat × Nat × α)) {M : List (List α)} {n P : Nat} (h : IsMat M n P) :
    IsMat (scatter ts M) n P := by
  unfold scatter
  induction ts generalizing M with
  | nil => exact h
  | cons t ts ih => exact ih (isMat_addAt2 h _ _ _)

theorem entry_scatter (ts : List (Nat × Nat × α)) {M : List (List α)} {n P : Nat} (h : IsMat M n P)
    (hts : ∀ t ∈ ts, t.1 < n ∧ t.2.1 < P) (i p : Nat) :
    entry (scatter ts M) i p
      = entry M i p + ((ts.filter fun t => t.1 == i && t.2.1 == p).map (·.2.2)).sum := by
  unfold scatter
  induction ts generalizing M with
  | nil => simp
  | cons t ts ih =>
    have ht := hts t (List.mem_cons_self)
    have hts' : ∀ t' ∈ ts, t'.1 < n ∧ t'.2.1 < P := fun t' h' => hts t' (List.mem_cons_of_mem _ h')
    simp only [List.foldl_cons]
    rw [ih (isMat_addAt2 h _ _ _) hts', entry_addAt2 h _ _ _ _ _ ht.1 ht.2, List.filter_cons]
    by_cases hc : i = t.1 ∧ p = t.2.1
    · obtain ⟨h1, h2⟩ := hc
      subst h1; subst h2
      simp; ring
    · have : (t.1 == i && t.2.1 == p) = false := by
        rcases not_and_or.mp hc with h1 | h1
        · have : (t.1 == i) = false := by simp; exact fun h => h1 h.symm
          simp [this]
        · have : (t.2.1 == p) = false := by simp; exact fun h => h1 h.symm
          simp [this]
      simp [this, hc]

theorem rowSum_scatter (ts : List (Nat × Nat × α)) {M : List (List α)} {n P : Nat} (h : IsMat M n P)
    (hts : ∀ t ∈ ts, t.1 < n ∧ t.2.1 < P) (i : Nat) :
    ((scatter ts M).getD i []).sum
      = (M.getD i []).sum + ((ts.filter fun t => t.1 == i).map (·.2.2)).sum := by
  unfold scatter
  induction ts generalizing M with
  | nil => simp
  | cons t ts ih =>
    have ht := hts t (List.mem_cons_self)
    have hts' : ∀ t' ∈ ts, t'.1 < n ∧ t'.2.1 < P := fun t' h' => hts t' (List.mem_cons_of_mem _ h')
    simp only [List.foldl_cons]
    rw [ih (isMat_addAt2 h _ _ _) hts', rowSum_addAt2 h _ _ _ _ ht.1 ht.2, List.filter_cons]
    by_cases hc : i = t.1
    · subst hc; simp; ring
    · have : (t.1 == i) = false := by simp; exact fun h => hc h.symm
      simp [this, hc]

/-! ### `mapping_matrix_from` is the scatter of its contributions -/

theorem mappingMatrix_eq_scatter (idx : List (List Int)) (sizes : List Nat) (wts : List (List α))
    (pixels total : Nat) (slimFor : List Nat) (frac : List α) :
    Impl.mappingMatrix idx sizes wts pixels total slimFor frac
      = scatter (Spec.triples idx sizes wts slimFor frac)
          (List.replicate total (List.replicate pixels 0)) := by
  unfold Impl.mappingMatrix scatter Spec.triples
  rw [List.foldl_flatMap]
  congr 1
  funext M sub
  rw [List.foldl_map]

/-! ### the entry formula as nested sums -/

theorem sum_map_ite {β : Type} (l : List β) (c : β → Bool) (g : β → α) :
    (l.map fun a => if c a then g a else 0).sum = ((l.filter c).map g).sum := by
  induction l with
  | nil => simp
  | cons a l ih =>
    simp only [List.map_cons, List.sum_cons, List.filter_cons, ih]
    split <;> simp

theorem sum_filter_flatMap {β γ : Type} (l : List β) (f : β → List γ) (c : γ → Bool) (g : γ → α) :
    (((l.flatMap f).filter c).map g).sum = (l.map fun a => (((f a).filter c).map g).sum).sum := by
  induction l with
  | nil => simp
  | cons a l ih => simp [List.flatMap_cons, List.filter_append, ih]

/-- the contributions selected by (i,p), summed: image pixel `i`'s sub-pixels, each giving
    `frac[i] *` (sum of the weights of its mappings to source pixel `p`). -/
theorem entryOf_triples (idx : List (List Int)) (sizes : List Nat) (wts : List (List α))
    (slimFor : List Nat) (frac : List α) (i p : Nat) :
    (((Spec.triples idx sizes wts slimFor frac).filter fun t => t.1 == i && t.2.1 == p).map (·.2.2)).sum
      = (((List.range slimFor.length).filter fun sub => slimFor.getD sub 0 == i).map fun sub =>
          frac.getD i 0 *
            (((List.range (sizes.getD sub 0)).filter fun c =>
                ((idx.getD sub []).getD c 0).toNat == p).map fun c => (wts.getD sub []).getD c 0).sum).sum := by
  unfold Spec.triples
  rw [sum_filter_flatMap, ← sum_map_ite]
  congr 1
  apply List.map_congr_left
  intro sub _
  rw [List.filter_map, List.map_map]
  by_cases hs : slimFor.getD sub 0 = i
  · subst hs
    simp only [beq_self_eq_true, if_true]
    rw [← List.sum_map_mul_left]
    congr 1
    simp [Function.comp_def]
  · have hs' : ¬ slimFor[sub]?.getD 0 = i := by simpa [List.getD_eq_getElem?_getD] using hs
    have hb : (slimFor[sub]?.getD 0 == i) = false := by simpa using hs'
    simp [Function.comp_def, hs', hb]

/-- the same for a whole row (all columns) -/
theorem rowOf_triples (idx : List (List Int)) (sizes : List Nat) (wts : List (List α))
    (slimFor : List Nat) (frac : List α) (i : Nat) :
    (((Spec.triples idx sizes wts slimFor frac).filter fun t => t.1 == i).map (·.2.2)).sum
      = (((List.range slimFor.length).filter fun sub => slimFor.getD sub 0 == i).map fun sub =>
          frac.getD i 0 *
            ((List.range (sizes.getD sub 0)).map fun c => (wts.getD sub []).getD c 0).sum).sum := by
  unfold Spec.triples
  rw [sum_filter_flatMap, ← sum_map_ite]
  congr 1
  apply List.map_congr_left
  intro sub _
  rw [List.filter_map, List.map_map]
  by_cases hs : slimFor.getD sub 0 = i
  · subst hs
    simp only [beq_self_eq_true, if_true]
    rw [← List.sum_map_mul_left]
    congr 1
    simp [Function.comp_def]
  · have hs' : ¬ slimFor[sub]?.getD 0 = i := by simpa [List.getD_eq_getElem?_getD] using hs
    have hb : (slimFor[sub]?.getD 0 == i) = false := by simpa using hs'
    simp [Function.comp_def, hs', hb]

theorem triples_bounds (idx : List (List Int)) (sizes : List Nat) (wts : List (List α))
    (slimFor : List Nat) (frac : List α) (total pixels : Nat)
    (hslim : ∀ s ∈ slimFor, s < total)
    (hidx : ∀ sub < slimFor.length, ∀ c < sizes.getD sub 0,
      ((idx.getD sub []).getD c 0).toNat < pixels) :
    ∀ t ∈ Spec.triples idx sizes wts slimFor frac, t.1 < total ∧ t.2.1 < pixels := by
  intro t ht
  unfold Spec.triples at ht
  simp only [List.mem_flatMap, List.mem_map, List.mem_range] at ht
  obtain ⟨sub, hsub, c, hc, rfl⟩ := ht
  refine ⟨hslim _ ?_, hidx sub hsub c hc⟩
  rw [List.getD_eq_getElem?_getD, List.getElem?_eq_getElem hsub]
  exact List.getElem_mem hsub

end sums

/-! ### contiguous blocks: the slim index of every sub-pixel -/

/-- index `i` repeated `c i` times, for `i = 0 … n-1` -/
def blocksOf (c : Nat → Nat) (n : Nat) : List Nat :=
  (List.range n).flatMap fun i => List.replicate (c i) i

theorem blocksOf_succ (c : Nat → Nat) (n : Nat) :
    blocksOf c (n + 1) = blocksOf c n ++ List.replicate (c n) n := by
  simp [blocksOf, List.range_succ, List.flatMap_append]

theorem blocksOf_length (c : Nat → Nat) (n : Nat) :
    (blocksOf c n).length = ((List.range n).map c).sum := by
  induction n with
  | zero => simp [blocksOf]
  | succ n ih => rw [blocksOf_succ]; simp [List.range_succ, ih]

theorem blocksOf_mem_lt (c : Nat → Nat) (n : Nat) : ∀ x ∈ blocksOf c n, x < n := by
  intro x hx
  simp only [blocksOf, List.mem_flatMap, List.mem_range, List.mem_replicate] at hx
  obtain ⟨i, hi, _, rfl⟩ := hx
  exact hi

/-- the sub-pixels whose slim index is `i` form the contiguous block
    `[c 0 + … + c (i-1), … + c i)` -/
theorem blocksOf_filter (c : Nat → Nat) (n i : Nat) (hi : i < n) :
    (List.range (blocksOf c n).length).filter (fun k => (blocksOf c n).getD k 0 == i)
      = List.range' (((List.range i).map c).sum) (c i) := by
  induction n with
  | zero => omega
  | succ n ih =>
    rw [blocksOf_succ]
    set L := blocksOf c n with hL
    have hlen : (L ++ List.replicate (c n) n).length = L.length + c n := by simp
    rw [hlen, List.range_eq_range', ← List.range'_append_1 (s := 0) (m := L.length) (n := c n),
      List.filter_append, Nat.zero_add]
    have h1 : (List.range' 0 L.length).filter (fun k => (L ++ List.replicate (c n) n).getD k 0 == i)
        = (List.range' 0 L.length).filter (fun k => L.getD k 0 == i) := by
      apply List.filter_congr
      intro k hk
      have hk' : k < L.length := by simpa using (List.mem_range'_1.mp hk).2
      simp [List.getD_eq_getElem?_getD, List.getElem?_append_left hk']
    have h2 : ∀ k ∈ List.range' L.length (c n), (L ++ List.replicate (c n) n).getD k 0 = n := by
      intro k hk
      have hk' := List.mem_range'_1.mp hk
      have hge : L.length ≤ k := hk'.1
      rw [List.getD_eq_getElem?_getD, List.getElem?_append_right hge]
      have : k - L.length < c n := by omega
      simp [this]
    rw [h1]
    by_cases hin : i < n
    · have h3 : (List.range' L.length (c n)).filter
          (fun k => (L ++ List.replicate (c n) n).getD k 0 == i) = [] := by
        rw [List.filter_eq_nil_iff]
        intro k hk
        rw [h2 k hk]
        simp; omega
      rw [h3, List.append_nil, ← List.range_eq_range', ih hin]
    · have hin' : i = n := by omega
      subst hin'
      have h3 : (List.range' 0 L.length).filter (fun k => L.getD k 0 == i) = [] := by
        rw [List.filter_eq_nil_iff]
        intro k hk
        have hk' : k < L.length := by simpa using (List.mem_range'_1.mp hk).2
        have := blocksOf_mem_lt c i (L.getD k 0) (by
          rw [List.getD_eq_getElem?_getD, List.getElem?_eq_getElem hk']
          exact List.getElem_mem hk')
        rw [List.getD_eq_getElem?_getD] at this
        simp; omega
      have h4 : (List.range' L.length (c i)).filter
          (fun k => (L ++ List.replicate (c i) i).getD k 0 == i) = List.range' L.length (c i) := by
        rw [List.filter_eq_self]
        intro k hk
        rw [h2 k hk]
        simp
      rw [h3, h4, List.nil_append, hL, blocksOf_length]

theorem slimForSubSlim_spec_eq_blocksOf (sub : List Nat) :
    Spec.slimForSubSlim sub = blocksOf (fun i => sub.getD i 0 * sub.getD i 0) sub.length := rfl

/-! ### `slim_index_for_sub_slim_index_via_mask_2d_from`: Impl = Spec -/

theorem foldl_append_const {β γ : Type} (l : List β) (k : γ) (acc : List γ) :
    l.foldl (fun a _ => a ++ [k]) acc = acc ++ List.replicate l.length k := by
  induction l generalizing acc with
  | nil => simp
  | cons a l ih =>
    simp only [List.foldl_cons, ih, List.length_cons, List.replicate_succ]
    simp

theorem forYX_append_const {γ : Type} (h w : Nat) (k : γ) (acc : List γ) :
    forYX h w (fun a _ _ => a ++ [k]) acc = acc ++ List.replicate (h * w) k := by
  rw [forYX_eq_foldl, foldl_append_const, pixels_length]

theorem slimLoop (sub : List Nat) (l : List (Nat × Nat)) (c : Nat × Nat → Bool) (acc : List Nat)
    (j : Nat) :
    l.foldl (fun (st : List Nat × Nat) p =>
        if c p then (st.1 ++ List.replicate (sub.getD st.2 0 * sub.getD st.2 0) st.2, st.2 + 1)
        else st) (acc, j)
      = (acc ++ (List.range (l.filter c).length).flatMap
            (fun t => List.replicate (sub.getD (j + t) 0 * sub.getD (j + t) 0) (j + t)),
         j + (l.filter c).length) := by
  induction l generalizing acc j with
  | nil => simp
  | cons a l ih =>
    simp only [List.foldl_cons, List.filter_cons]
    by_cases hc : c a
    · simp only [hc, if_true, List.length_cons]
      rw [ih, List.range_succ_eq_map, List.flatMap_cons, List.flatMap_map]
      simp only [Nat.add_zero, List.append_assoc, Prod.mk.injEq, List.append_cancel_left_eq]
      refine ⟨?_, by omega⟩
      congr 1
      funext t
      have : j + 1 + t = j + (t + 1) := by omega
      simp [this, Function.comp_def]
    · simp only [hc, Bool.false_eq_true, if_false]
      exact ih acc j

theorem slimForSubSlim_eq (m : Mask) (sub : List Nat) (h : sub.length = Impl.totalPixels m) :
    Impl.slimForSubSlim m sub = Spec.slimForSubSlim sub := by
  unfold Impl.slimForSubSlim
  rw [forYX_eq_foldl]
  have hcongr : (fun (st : List Nat × Nat) (p : Nat × Nat) =>
        if (!m.get p.1 p.2) = true then
          (forYX (sub.getD st.2 0) (sub.getD st.2 0) (fun a _ _ => a ++ [st.2]) st.1, st.2 + 1)
        else st)
      = fun st p => if (fun p : Nat × Nat => !m.get p.1 p.2) p then
          (st.1 ++ List.replicate (sub.getD st.2 0 * sub.getD st.2 0) st.2, st.2 + 1) else st := by
    funext st p
    simp only [forYX_append_const]
  simp only [hcongr]
  rw [slimLoop]
  rw [totalPixels_eq] at h
  simp only [List.nil_append, Nat.zero_add]
  unfold Spec.unmaskedPixels at h
  rw [← h]
  rfl

section sums2
variable {α : Type} [Field α]

/-! ### the composite statements used by Props/C06 -/

theorem mappingMatrix_isMat (idx : List (List Int)) (sizes : List Nat) (wts : List (List α))
    (pixels total : Nat) (slimFor : List Nat) (frac : List α) :
    IsMat (Impl.mappingMatrix idx sizes wts pixels total slimFor frac) total pixels := by
  rw [mappingMatrix_eq_scatter]
  exact isMat_scatter _ (isMat_zeros total pixels)

theorem mappingMatrix_entry (idx : List (List Int)) (sizes : List Nat) (wts : List (List α))
    (pixels total : Nat) (slimFor : List Nat) (frac : List α)
    (hslim : ∀ s ∈ slimFor, s < total)
    (hidx : ∀ sub < slimFor.length, ∀ c < sizes.getD sub 0,
      ((idx.getD sub []).getD c 0).toNat < pixels) (i p : Nat) :
    entry (Impl.mappingMatrix idx sizes wts pixels total slimFor frac) i p
      = (((List.range slimFor.length).filter fun sub => slimFor.getD sub 0 == i).map fun sub =>
          frac.getD i 0 *
            (((List.range (sizes.getD sub 0)).filter fun c =>
                ((idx.getD sub []).getD c 0).toNat == p).map fun c => (wts.getD sub []).getD c 0).sum).sum := by
  rw [mappingMatrix_eq_scatter,
    entry_scatter _ (isMat_zeros total pixels)
      (triples_bounds idx sizes wts slimFor frac total pixels hslim hidx),
    entry_zeros, zero_add, entryOf_triples]

theorem mem_isMat_entry {M : List (List α)} {n P : Nat} (h : IsMat M n P) :
    ∀ r ∈ M, ∀ x ∈ r, ∃ i p, i < n ∧ p < P ∧ x = entry M i p := by
  intro r hr x hx
  obtain ⟨i, hi, rfl⟩ := List.getElem_of_mem hr
  obtain ⟨p, hp, rfl⟩ := List.getElem_of_mem hx
  refine ⟨i, p, by rw [← h.1]; exact hi, ?_, ?_⟩
  · rw [← h.2 _ (List.getElem_mem hi)]; exact hp
  · simp [entry, List.getD_eq_getElem?_getD, hi, hp]

section ordered
variable [LinearOrder α] [IsStrictOrderedRing α]

theorem mappingMatrix_entry_nonneg (idx : List (List Int)) (sizes : List Nat) (wts : List (List α))
    (pixels total : Nat) (slimFor : List Nat) (frac : List α)
    (hslim : ∀ s ∈ slimFor, s < total)
    (hidx : ∀ sub < slimFor.length, ∀ c < sizes.getD sub 0,
      ((idx.getD sub []).getD c 0).toNat < pixels)
    (hfrac : ∀ f ∈ frac, 0 ≤ f)
    (hw : ∀ sub < slimFor.length, ∀ c < sizes.getD sub 0, 0 ≤ (wts.getD sub []).getD c 0) (i p : Nat) :
    0 ≤ entry (Impl.mappingMatrix idx sizes wts pixels total slimFor frac) i p := by
  rw [mappingMatrix_entry idx sizes wts pixels total slimFor frac hslim hidx]
  apply List.sum_nonneg
  intro x hx
  simp only [List.mem_map, List.mem_filter, List.mem_range] at hx
  obtain ⟨sub, ⟨hsub, _⟩, rfl⟩ := hx
  apply mul_nonneg
  · rw [List.getD_eq_getElem?_getD]
    cases hq : frac[i]? with
    | none => simp
    | some y => simpa using hfrac y (List.mem_of_getElem? hq)
  · apply List.sum_nonneg
    intro y hy
    simp only [List.mem_map, List.mem_filter, List.mem_range] at hy
    obtain ⟨c, ⟨hc, _⟩, rfl⟩ := hy
    exact hw sub hsub c hc

theorem subFraction_nonneg (s : Nat) : (0 : α) ≤ Impl.subFraction s := by
  unfold Impl.subFraction
  positivity

theorem subFraction_mul (s : Nat) (hs : 1 ≤ s) : ((s * s : Nat) : α) * Impl.subFraction s = 1 := by
  unfold Impl.subFraction
  have : ((s * s : Nat) : α) ≠ 0 := by
    have : 0 < s * s := Nat.mul_pos hs hs
    exact_mod_cast Nat.pos_iff_ne_zero.mp this
  field_simp

/-- clause (b): rows sum to one -/
theorem mappingMatrix_row_sum_one (subs : List Nat) (hpos : ∀ s ∈ subs, 1 ≤ s)
    (idx : List (List Int)) (sizes : List Nat) (wts : List (List α)) (pixels : Nat)
    (hidx : ∀ sub < (Spec.slimForSubSlim subs).length, ∀ c < sizes.getD sub 0,
      ((idx.getD sub []).getD c 0).toNat < pixels)
    (hw : ∀ sub < (Spec.slimForSubSlim subs).length,
      ((List.range (sizes.getD sub 0)).map fun c => (wts.getD sub []).getD c 0).sum = 1)
    (i : Nat) (hi : i < subs.length) :
    ((Impl.mappingMatrix idx sizes wts pixels subs.length (Spec.slimForSubSlim subs)
        (subs.map Impl.subFraction)).getD i []).sum = 1 := by
  have hslim : ∀ s ∈ Spec.slimForSubSlim subs, s < subs.length := by
    rw [slimForSubSlim_spec_eq_blocksOf]; exact blocksOf_mem_lt _ _
  rw [mappingMatrix_eq_scatter,
    rowSum_scatter _ (isMat_zeros subs.length pixels)
      (triples_bounds idx sizes wts _ _ subs.length pixels hslim hidx), rowOf_triples]
  have hz : ((List.replicate subs.length (List.replicate pixels (0 : α))).getD i []).sum = 0 := by
    simp [List.getD_eq_getElem?_getD, hi]
  rw [hz, zero_add]
  have hterm : ∀ sub ∈ (List.range (Spec.slimForSubSlim subs).length).filter
        (fun sub => (Spec.slimForSubSlim subs).getD sub 0 == i),
      (subs.map Impl.subFraction).getD i 0 *
          ((List.range (sizes.getD sub 0)).map fun c => (wts.getD sub []).getD c 0).sum
        = (Impl.subFraction (subs.getD i 0) : α) := by
    intro sub hsub
    have hlt : sub < (Spec.slimForSubSlim subs).length := by
      simpa using (List.mem_filter.mp hsub).1
    rw [hw sub hlt, mul_one]
    simp [List.getD_eq_getElem?_getD, hi]
  rw [List.map_congr_left hterm, slimForSubSlim_spec_eq_blocksOf, blocksOf_filter _ _ _ hi]
  simp only [List.map_const', List.length_range', List.sum_replicate, nsmul_eq_mul]
  have hs : 1 ≤ subs.getD i 0 := by
    apply hpos
    rw [List.getD_eq_getElem?_getD, List.getElem?_eq_getElem hi]
    exact List.getElem_mem hi
  exact subFraction_mul _ hs

end ordered

end sums2

end Model
