/-
Proofs/Mapper2.lean — refinement lemma for Model/Mapper2.lean (property C06, part 2):
`Impl.mappedToSource = Spec.mappedToSource` for every shape and every number type (no algebraic
assumption: the per-column left-to-right accumulation order of the code is kept by the Spec), and
`Impl.voronoiNeighbors = Spec.voronoiNeighbors` for every number of pixels and every ridge list whose ends
are pixels and which has no self-ridge (the count pass bounds the fill pass: a running index never reaches
the table width).  Core Lean only.
-/
import Model.Mapper2
import Proofs.TieCore

set_option linter.unusedSectionVars false

open Model

namespace Mapper2

/-- writing back what was read leaves the list unchanged (in range or not) -/
theorem set_getD_self {β : Type} (a : List β) (j : Nat) (d : β) : a.set j (a.getD j d) = a := by
  by_cases h : j < a.length
  · simp [List.getD_eq_getElem?_getD, h]
  · exact List.set_eq_of_length_le (by omega)

theorem getD_map_range {β : Type} (g : Nat → β) (p j : Nat) (d : β) (hj : j < p) :
    ((List.range p).map g).getD j d = g j := by
  simp [List.getD_eq_getElem?_getD, hj]

theorem map_getD_range {β : Type} (a : List β) (d : β) :
    (List.range a.length).map (fun j => a.getD j d) = a := by
  apply List.ext_getElem
  · simp
  · intro i h1 h2
    simp [List.getD_eq_getElem?_getD, h2]

/-- a loop `for j in range(k): a[j] = f(j, a[j])` updates the first `k` entries pointwise -/
theorem foldl_set_prefix {β : Type} (d : β) (f : Nat → β → β) (a : List β) (k : Nat)
    (hk : k ≤ a.length) :
    (List.range k).foldl (fun acc j => acc.set j (f j (acc.getD j d))) a
      = (List.range a.length).map (fun j => if j < k then f j (a.getD j d) else a.getD j d) := by
  induction k with
  | zero =>
    simp only [List.range_zero, List.foldl_nil, Nat.not_lt_zero, if_false]
    exact (map_getD_range a d).symm
  | succ k ih =>
    rw [List.range_succ, List.foldl_append, ih (by omega)]
    simp only [List.foldl_cons, List.foldl_nil]
    rw [getD_map_range _ _ _ _ (by omega)]
    simp only [Nat.lt_irrefl, if_false]
    apply List.ext_getElem
    · simp
    · intro i h1 h2
      rw [List.getElem_set]
      by_cases hik : k = i
      · subst hik; simp
      · simp only [hik, if_false, List.getElem_map, List.getElem_range]
        by_cases h3 : i < k
        · simp [h3, Nat.lt_succ_of_lt h3]
        · have : ¬ i < k + 1 := by omega
          simp [h3, this]

/-- the full loop `for j in range(len(a)): a[j] = f(j, a[j])` -/
theorem foldl_set_range {β : Type} (d : β) (f : Nat → β → β) (a : List β) (p : Nat)
    (hp : a.length = p) :
    (List.range p).foldl (fun acc j => acc.set j (f j (acc.getD j d))) a
      = (List.range p).map (fun j => f j (a.getD j d)) := by
  subst hp
  rw [foldl_set_prefix d f a a.length (Nat.le_refl _)]
  apply List.map_congr_left
  intro j hj
  simp [List.mem_range.1 hj]

/-- a loop over a pair of independent accumulators is the pair of the loops -/
theorem foldl_pair {ι β γ : Type} (l : List ι) (f : β → ι → β) (g : γ → ι → γ) (a : β) (b : γ) :
    l.foldl (fun (st : β × γ) i => (f st.1 i, g st.2 i)) (a, b) = (l.foldl f a, l.foldl g b) := by
  induction l generalizing a b with
  | nil => rfl
  | cons x l ih => simp only [List.foldl_cons]; exact ih _ _

section
variable {α : Type} [Add α] [Mul α] [Div α] [OfNat α 0] [OfNat α 1] [LT α] [DecidableLT α]

/-- one row `i` of the accumulation nest, on accumulators of length `p` -/
theorem row_step (p : Nat) (M v : List α) (i : Nat) (S C : List α) (hS : S.length = p)
    (hC : C.length = p) :
    (List.range p).foldl (fun (st : List α × List α) j =>
        if M.getD (i * p + j) 0 > 0 then
          (st.1.set j (st.1.getD j 0 + v.getD i 0 * M.getD (i * p + j) 0),
           st.2.set j (st.2.getD j 0 + 1))
        else st) (S, C)
      = ((List.range p).map (fun j => if M.getD (i * p + j) 0 > 0
            then S.getD j 0 + v.getD i 0 * M.getD (i * p + j) 0 else S.getD j 0),
         (List.range p).map (fun j => if M.getD (i * p + j) 0 > 0
            then C.getD j 0 + 1 else C.getD j 0)) := by
  have hstep : (fun (st : List α × List α) j =>
        if M.getD (i * p + j) 0 > 0 then
          (st.1.set j (st.1.getD j 0 + v.getD i 0 * M.getD (i * p + j) 0),
           st.2.set j (st.2.getD j 0 + 1))
        else st)
      = (fun (st : List α × List α) j =>
          (st.1.set j (if M.getD (i * p + j) 0 > 0
              then st.1.getD j 0 + v.getD i 0 * M.getD (i * p + j) 0 else st.1.getD j 0),
           st.2.set j (if M.getD (i * p + j) 0 > 0 then st.2.getD j 0 + 1 else st.2.getD j 0))) := by
    funext st j
    by_cases hc : M.getD (i * p + j) 0 > 0
    · simp only [hc, if_true]
    · simp only [hc, if_false, set_getD_self]
  have h1 := foldl_set_range (0 : α) (fun j x => if M.getD (i * p + j) 0 > 0
              then x + v.getD i 0 * M.getD (i * p + j) 0 else x) S p hS
  have h2 := foldl_set_range (0 : α) (fun j x => if M.getD (i * p + j) 0 > 0 then x + 1 else x) C p hC
  rw [hstep, foldl_pair (List.range p)
      (fun (acc : List α) j => acc.set j (if M.getD (i * p + j) 0 > 0
              then acc.getD j 0 + v.getD i 0 * M.getD (i * p + j) 0 else acc.getD j 0))
      (fun (acc : List α) j => acc.set j (if M.getD (i * p + j) 0 > 0
              then acc.getD j 0 + 1 else acc.getD j 0)), h1, h2]

/-- the accumulation nest computes, per source pixel, the column sum and the column count -/
theorem accumulate_eq (n p : Nat) (M v : List α) :
    forYX n p (fun (st : List α × List α) i j =>
        if M.getD (i * p + j) 0 > 0 then
          (st.1.set j (st.1.getD j 0 + v.getD i 0 * M.getD (i * p + j) 0),
           st.2.set j (st.2.getD j 0 + 1))
        else st) (List.replicate p (0 : α), List.replicate p (0 : α))
      = ((List.range p).map (Spec.colSum n p M v), (List.range p).map (Spec.colCount n p M)) := by
  unfold forYX
  induction n with
  | zero =>
    simp only [List.range_zero, List.foldl_nil]
    congr 1
    · apply List.ext_getElem <;> simp [Spec.colSum]
    · apply List.ext_getElem <;> simp [Spec.colCount]
  | succ n ih =>
    rw [List.range_succ, List.foldl_append, ih]
    simp only [List.foldl_cons, List.foldl_nil]
    rw [row_step p M v n _ _ (by simp) (by simp)]
    congr 1
    · apply List.map_congr_left
      intro j hj
      rw [getD_map_range _ _ _ _ (List.mem_range.1 hj)]
      simp only [Spec.colSum, List.range_succ, List.foldl_append, List.foldl_cons, List.foldl_nil]
    · apply List.map_congr_left
      intro j hj
      rw [getD_map_range _ _ _ _ (List.mem_range.1 hj)]
      simp only [Spec.colCount, List.range_succ, List.foldl_append, List.foldl_cons, List.foldl_nil]

/-- REFINEMENT: the transliterated loops compute the per-source-pixel normalised column sums,
    for every shape `n × p`, every data list and every number type. -/
theorem mappedToSource_eq (n p : Nat) (M v : List α) :
    Impl.mappedToSource n p M v = Spec.mappedToSource n p M v := by
  unfold Impl.mappedToSource Spec.mappedToSource
  rw [accumulate_eq]
  dsimp only
  have hstep : (fun (acc : List α) j =>
        if ((List.range p).map (Spec.colCount n p M)).getD j 0 > 0 then
          acc.set j (acc.getD j 0 / ((List.range p).map (Spec.colCount n p M)).getD j 0)
        else acc)
      = (fun (acc : List α) j => acc.set j (
          if ((List.range p).map (Spec.colCount n p M)).getD j 0 > 0 then
            acc.getD j 0 / ((List.range p).map (Spec.colCount n p M)).getD j 0 else acc.getD j 0)) := by
    funext acc j
    by_cases hc : ((List.range p).map (Spec.colCount n p M)).getD j 0 > 0
    · simp only [hc, if_true]
    · simp only [hc, if_false, set_getD_self]
  have h1 := foldl_set_range (0 : α) (fun j x =>
          if ((List.range p).map (Spec.colCount n p M)).getD j 0 > 0 then
            x / ((List.range p).map (Spec.colCount n p M)).getD j 0 else x)
      ((List.range p).map (Spec.colSum n p M v)) p (by simp)
  rw [hstep, h1]
  apply List.map_congr_left
  intro j hj
  have hj' := List.mem_range.1 hj
  simp only [getD_map_range _ _ _ _ hj']

end

/-! ### `voronoi_neighbors_from` -/

theorem le_foldl_max' (l : List Nat) (a : Nat) : a ≤ l.foldl max a := by
  induction l generalizing a with
  | nil => simp
  | cons x l ih => simp only [List.foldl_cons]; exact Nat.le_trans (Nat.le_max_left a x) (ih _)

theorem le_maxNat' (l : List Nat) (x : Nat) (hx : x ∈ l) : x ≤ maxNat l := by
  unfold maxNat
  generalize (0 : Nat) = a
  induction l generalizing a with
  | nil => simp at hx
  | cons y l ih =>
    simp only [List.foldl_cons]
    rcases List.mem_cons.mp hx with rfl | h
    · exact Nat.le_trans (Nat.le_max_right a x) (le_foldl_max' l _)
    · exact ih h _

theorem set_map_range {β : Type} (f : Nat → β) (P a : Nat) (x : β) (_ha : a < P) :
    ((List.range P).map f).set a x = (List.range P).map (fun p => if p = a then x else f p) := by
  apply List.ext_getElem
  · simp
  · intro i h1 h2
    rw [List.getElem_set]
    by_cases h : a = i
    · subst h; simp
    · have h' : ¬ i = a := fun e => h e.symm
      simp [h, h']

theorem adj_append (l l' : List (Nat × Nat)) (p : Nat) :
    Spec.voronoiAdj (l ++ l') p = Spec.voronoiAdj l p ++ Spec.voronoiAdj l' p := by
  simp [Spec.voronoiAdj]

theorem adj_single (r : Nat × Nat) (p : Nat) :
    Spec.voronoiAdj [r] p
      = (if r.1 = p then [r.2] else []) ++ (if r.2 = p then [r.1] else []) := by
  simp [Spec.voronoiAdj]

theorem adj_cons (r : Nat × Nat) (l : List (Nat × Nat)) (p : Nat) :
    Spec.voronoiAdj (r :: l) p = Spec.voronoiAdj [r] p ++ Spec.voronoiAdj l p :=
  adj_append [r] l p

theorem adj_single_length (r : Nat × Nat) (p : Nat) :
    (Spec.voronoiAdj [r] p).length = (if r.1 = p then 1 else 0) + (if r.2 = p then 1 else 0) := by
  rw [adj_single]
  by_cases h1 : r.1 = p <;> by_cases h2 : r.2 = p <;> simp [h1, h2]

/-- one step of a counter pass: both ends of the ridge are incremented -/
theorem counter_step (P : Nat) (f : Nat → Nat) (r : Nat × Nat) (h1 : r.1 < P) (h2 : r.2 < P) :
    (((List.range P).map f).set r.1 (((List.range P).map f).getD r.1 0 + 1)).set r.2
        ((((List.range P).map f).set r.1 (((List.range P).map f).getD r.1 0 + 1)).getD r.2 0 + 1)
      = (List.range P).map (fun p => f p + (Spec.voronoiAdj [r] p).length) := by
  rw [getD_map_range f P r.1 0 h1, set_map_range f P r.1 _ h1,
    getD_map_range _ P r.2 0 h2, set_map_range _ P r.2 _ h2]
  apply List.map_congr_left
  intro p _
  rw [adj_single_length]
  obtain ⟨a, b⟩ := r
  simp only
  by_cases ha : p = a <;> by_cases hb : p = b
  · subst ha; subst hb; simp <;> omega
  · subst ha
    have hb' : ¬ b = p := fun e => hb e.symm
    simp [hb, hb']
  · subst hb
    have ha' : ¬ a = p := fun e => ha e.symm
    simp [ha, ha']
  · have ha' : ¬ a = p := fun e => ha e.symm
    have hb' : ¬ b = p := fun e => hb e.symm
    simp [ha, hb, ha', hb']

/-- the counting pass from any starting counters -/
theorem sizes_from (P : Nat) (ridges : List (Nat × Nat))
    (hr : ∀ r ∈ ridges, r.1 < P ∧ r.2 < P) (f : Nat → Nat) :
    ridges.foldl (fun s r =>
        let s := s.set r.1 (s.getD r.1 0 + 1)
        s.set r.2 (s.getD r.2 0 + 1)) ((List.range P).map f)
      = (List.range P).map (fun p => f p + (Spec.voronoiAdj ridges p).length) := by
  induction ridges generalizing f with
  | nil => simp [Spec.voronoiAdj]
  | cons r rs ih =>
    obtain ⟨h1, h2⟩ := hr r (by simp)
    simp only [List.foldl_cons]
    rw [counter_step P f r h1 h2, ih (fun r' h => hr r' (by simp [h]))]
    apply List.map_congr_left
    intro p _
    rw [adj_cons r rs p, List.length_append]
    omega

/-- REFINEMENT (sizes): `neighbors_sizes[p]` is the number of ridge ends equal to `p` -/
theorem voronoiSizes_eq (P : Nat) (ridges : List (Nat × Nat))
    (hr : ∀ r ∈ ridges, r.1 < P ∧ r.2 < P) :
    Impl.voronoiSizes P ridges = (List.range P).map fun p => (Spec.voronoiAdj ridges p).length := by
  unfold Impl.voronoiSizes
  have h0 : List.replicate P 0 = (List.range P).map (fun _ => 0) := by
    apply List.ext_getElem <;> simp
  rw [h0, sizes_from P ridges hr]
  apply List.map_congr_left
  intro p _
  omega

/-- row `p` of the table after the ridges `pre`: the neighbours so far, then the `-1` fill -/
def rowOf (W : Nat) (pre : List (Nat × Nat)) (p : Nat) : List Int :=
  (Spec.voronoiAdj pre p).map (fun (k : Nat) => (k : Int))
    ++ List.replicate (W - (Spec.voronoiAdj pre p).length) (-1 : Int)

/-- writing the next neighbour of `a` at its running index -/
theorem row_write (W : Nat) (pre : List (Nat × Nat)) (r : Nat × Nat) (a b : Nat)
    (hadj : Spec.voronoiAdj [r] a = [b]) (hlt : (Spec.voronoiAdj pre a).length < W) :
    (rowOf W pre a).set (Spec.voronoiAdj pre a).length (b : Int) = rowOf W (pre ++ [r]) a := by
  unfold rowOf
  rw [adj_append, hadj]
  have hk : W - (Spec.voronoiAdj pre a).length
      = (W - (Spec.voronoiAdj pre a ++ [b]).length) + 1 := by
    rw [List.length_append]; simp; omega
  rw [hk]
  have := TieCore.set_pack ((Spec.voronoiAdj pre a).map (fun (k : Nat) => (k : Int)))
    (W - (Spec.voronoiAdj pre a ++ [b]).length) (-1 : Int) (b : Int)
  simp only [List.length_map] at this
  rw [this]
  simp

theorem rowOf_other (W : Nat) (pre : List (Nat × Nat)) (r : Nat × Nat) (p : Nat)
    (hadj : Spec.voronoiAdj [r] p = []) : rowOf W (pre ++ [r]) p = rowOf W pre p := by
  unfold rowOf
  rw [adj_append, hadj, List.append_nil]

/-- one step of the fill pass on the state described by the prefix `pre` -/
theorem fill_step (P W : Nat) (pre : List (Nat × Nat)) (r : Nat × Nat) (h1 : r.1 < P) (h2 : r.2 < P)
    (hne : r.1 ≠ r.2) (hlt1 : (Spec.voronoiAdj pre r.1).length < W)
    (hlt2 : (Spec.voronoiAdj pre r.2).length < W) :
    Impl.setAt2 (Impl.setAt2 ((List.range P).map (rowOf W pre)) r.1
        (((List.range P).map fun p => (Spec.voronoiAdj pre p).length).getD r.1 0) (r.2 : Int)) r.2
        (((List.range P).map fun p => (Spec.voronoiAdj pre p).length).getD r.2 0) (r.1 : Int)
      = (List.range P).map (rowOf W (pre ++ [r])) := by
  have hne' : ¬ r.2 = r.1 := fun e => hne e.symm
  have ha : Spec.voronoiAdj [r] r.1 = [r.2] := by
    rw [adj_single]; simp [hne']
  have hb : Spec.voronoiAdj [r] r.2 = [r.1] := by
    rw [adj_single]; simp [hne]
  unfold Impl.setAt2
  rw [getD_map_range _ P r.1 0 h1, getD_map_range _ P r.2 0 h2,
    getD_map_range (rowOf W pre) P r.1 [] h1, row_write W pre r r.1 r.2 ha hlt1,
    set_map_range _ P r.1 _ h1, getD_map_range _ P r.2 [] h2]
  simp only [hne', if_false]
  rw [row_write W pre r r.2 r.1 hb hlt2, set_map_range _ P r.2 _ h2]
  apply List.map_congr_left
  intro p _
  by_cases hpb : p = r.2
  · simp [hpb]
  · by_cases hpa : p = r.1
    · simp [hpa, hne]
    · simp only [hpb, hpa, if_false]
      refine (rowOf_other W pre r p ?_).symm
      have hpa' : ¬ r.1 = p := fun e => hpa e.symm
      have hpb' : ¬ r.2 = p := fun e => hpb e.symm
      rw [adj_single]
      simp [hpa', hpb']

/-- the neighbour count of a prefix is below the final count when a ridge at `p` follows -/
theorem adj_prefix_lt (ridges pre post : List (Nat × Nat)) (r : Nat × Nat) (p : Nat)
    (hl : ridges = pre ++ r :: post) (hp : r.1 = p ∨ r.2 = p) :
    (Spec.voronoiAdj pre p).length < (Spec.voronoiAdj ridges p).length := by
  subst hl
  rw [adj_append, adj_cons, List.length_append, List.length_append, adj_single_length]
  rcases hp with h | h <;> simp [h] <;> omega

/-- REFINEMENT: the two-pass loops build, for every pixel, the list of its neighbours in ridge order
    padded with `-1` to the largest neighbour count, and the neighbour counts — for every number of pixels
    and every ridge list whose ends are pixels and that has no self-ridge (a ridge `(p, p)` would be
    counted twice but stored once). -/
theorem voronoiNeighbors_eq (P : Nat) (ridges : List (Nat × Nat))
    (hr : ∀ r ∈ ridges, r.1 < P ∧ r.2 < P ∧ r.1 ≠ r.2) :
    Impl.voronoiNeighbors P ridges = Spec.voronoiNeighbors P ridges := by
  have hr' : ∀ r ∈ ridges, r.1 < P ∧ r.2 < P := fun r h => ⟨(hr r h).1, (hr r h).2.1⟩
  unfold Impl.voronoiNeighbors Spec.voronoiNeighbors
  rw [voronoiSizes_eq P ridges hr']
  dsimp only
  generalize hW : maxNat ((List.range P).map fun p => (Spec.voronoiAdj ridges p).length) = W
  have hWle : ∀ p < P, (Spec.voronoiAdj ridges p).length ≤ W := by
    intro p hp
    rw [← hW]
    exact le_maxNat' _ _ (List.mem_map.2 ⟨p, List.mem_range.2 hp, rfl⟩)
  have key := TieCore.foldl_inv_pre
    (fun (pre : List (Nat × Nat)) (st : List Nat × List (List Int)) =>
      st = ((List.range P).map (fun p => (Spec.voronoiAdj pre p).length),
            (List.range P).map (rowOf W pre)))
    ridges (fun (st : List Nat × List (List Int)) r =>
      let nb := Impl.setAt2 st.2 r.1 (st.1.getD r.1 0) (r.2 : Int)
      let nb := Impl.setAt2 nb r.2 (st.1.getD r.2 0) (r.1 : Int)
      let idx := st.1.set r.1 (st.1.getD r.1 0 + 1)
      let idx := idx.set r.2 (idx.getD r.2 0 + 1)
      (idx, nb))
    (s := (List.replicate P 0, List.replicate P (List.replicate W (-1 : Int))))
    (by
      congr 1
      · apply List.ext_getElem <;> simp [Spec.voronoiAdj]
      · apply List.ext_getElem <;> simp [rowOf, Spec.voronoiAdj])
    (by
      intro pre r post st hl hst
      have hmem : r ∈ ridges := by rw [hl]; simp
      obtain ⟨h1, h2, hne⟩ := hr r hmem
      subst hst
      dsimp only
      rw [fill_step P W pre r h1 h2 hne
          (Nat.lt_of_lt_of_le (adj_prefix_lt ridges pre post r r.1 hl (Or.inl rfl)) (hWle _ h1))
          (Nat.lt_of_lt_of_le (adj_prefix_lt ridges pre post r r.2 hl (Or.inr rfl)) (hWle _ h2)),
        counter_step P _ r h1 h2]
      congr 1
      apply List.map_congr_left
      intro p _
      rw [adj_append, List.length_append])
  rw [key]
  rfl

end Mapper2
