/-
Proofs/MapperDelaunay.lean — Delaunay interpolation: area-ratio weights are the barycentric
coordinates; nearest vertex = first arg-min; simplex-derived adjacency; CSR neighbour table.
(Property C06, clauses c and f-Delaunay.)
-/
import Model.Mapper
import Proofs.Mapper
import Mathlib.Algebra.Order.AbsoluteValue.Basic
import Mathlib.Algebra.Order.Ring.Abs
import Mathlib.Tactic.LinearCombination

namespace Model

open Impl

section bary
variable {α : Type} [Field α] [LinearOrder α] [IsStrictOrderedRing α]

theorem absG_eq_abs (x : α) : absG x = |x| := by
  unfold absG
  split
  · next h => rw [abs_of_neg h]
  · next h => rw [abs_of_nonneg (not_lt.mp h)]

/-- the determinant inside `delaunay_triangle_area_from` (twice the signed area) -/
def det3 (c0 c1 c2 : α × α) : α :=
  c0.1 * c1.2 + c1.1 * c2.2 + c2.1 * c0.2 - c1.1 * c0.2 - c2.1 * c1.2 - c0.1 * c2.2

theorem triangleArea_eq (c0 c1 c2 : α × α) :
    Impl.triangleArea c0 c1 c2 = (1 / 2) * |det3 c0 c1 c2| := by
  unfold Impl.triangleArea det3
  simp only [absG_eq_abs]

/-- a point given as a convex (indeed any affine) combination of the vertices -/
def combo (v0 v1 v2 : α × α) (l0 l1 l2 : α) : α × α :=
  (l0 * v0.1 + l1 * v1.1 + l2 * v2.1, l0 * v0.2 + l1 * v1.2 + l2 * v2.2)

theorem det3_combo_0 (v0 v1 v2 : α × α) (l0 l1 l2 : α) (hs : l0 + l1 + l2 = 1) :
    det3 v1 v2 (combo v0 v1 v2 l0 l1 l2) = l0 * det3 v0 v1 v2 := by
  have hl : l2 = 1 - l0 - l1 := by linear_combination hs
  subst hl
  unfold det3 combo
  ring

theorem det3_combo_1 (v0 v1 v2 : α × α) (l0 l1 l2 : α) (hs : l0 + l1 + l2 = 1) :
    det3 v0 v2 (combo v0 v1 v2 l0 l1 l2) = -(l1 * det3 v0 v1 v2) := by
  have hl : l2 = 1 - l0 - l1 := by linear_combination hs
  subst hl
  unfold det3 combo
  ring

theorem det3_combo_2 (v0 v1 v2 : α × α) (l0 l1 l2 : α) (hs : l0 + l1 + l2 = 1) :
    det3 v0 v1 (combo v0 v1 v2 l0 l1 l2) = l2 * det3 v0 v1 v2 := by
  have hl : l2 = 1 - l0 - l1 := by linear_combination hs
  subst hl
  unfold det3 combo
  ring

/-- clause (c): for a non-degenerate triangle and a point of the closed triangle (a convex
    combination `l0 v0 + l1 v1 + l2 v2`), the three area-ratio weights are exactly `l0, l1, l2`, in
    vertex order. -/
theorem baryWeights_combo (v0 v1 v2 : α × α) (l0 l1 l2 : α)
    (h0 : 0 ≤ l0) (h1 : 0 ≤ l1) (h2 : 0 ≤ l2) (hs : l0 + l1 + l2 = 1)
    (hD : det3 v0 v1 v2 ≠ 0) :
    Impl.baryWeights v0 v1 v2 (combo v0 v1 v2 l0 l1 l2) = [l0, l1, l2] := by
  have hDa : 0 < |det3 v0 v1 v2| := abs_pos.mpr hD
  have a0 : Impl.triangleArea v1 v2 (combo v0 v1 v2 l0 l1 l2) = (1 / 2) * (l0 * |det3 v0 v1 v2|) := by
    rw [triangleArea_eq, det3_combo_0 v0 v1 v2 l0 l1 l2 hs, abs_mul, abs_of_nonneg h0]
  have a1 : Impl.triangleArea v0 v2 (combo v0 v1 v2 l0 l1 l2) = (1 / 2) * (l1 * |det3 v0 v1 v2|) := by
    rw [triangleArea_eq, det3_combo_1 v0 v1 v2 l0 l1 l2 hs, abs_neg, abs_mul, abs_of_nonneg h1]
  have a2 : Impl.triangleArea v0 v1 (combo v0 v1 v2 l0 l1 l2) = (1 / 2) * (l2 * |det3 v0 v1 v2|) := by
    rw [triangleArea_eq, det3_combo_2 v0 v1 v2 l0 l1 l2 hs, abs_mul, abs_of_nonneg h2]
  unfold Impl.baryWeights
  simp only [a0, a1, a2]
  have hn : (1 / 2) * (l0 * |det3 v0 v1 v2|) + (1 / 2) * (l1 * |det3 v0 v1 v2|)
      + (1 / 2) * (l2 * |det3 v0 v1 v2|) = (1 / 2) * |det3 v0 v1 v2| := by
    linear_combination ((1 / 2) * |det3 v0 v1 v2|) * hs
  rw [hn]
  have hne : |det3 v0 v1 v2| ≠ 0 := ne_of_gt hDa
  simp only [List.cons.injEq, and_true]
  refine ⟨?_, ?_, ?_⟩ <;> field_simp

/-- the weights interpolate the point: `Σ w_k v_k = p` -/
theorem combo_of_weights (v0 v1 v2 : α × α) (l0 l1 l2 : α) :
    combo v0 v1 v2 l0 l1 l2
      = (l0 * v0.1 + l1 * v1.1 + l2 * v2.1, l0 * v0.2 + l1 * v1.2 + l2 * v2.2) := rfl

/-- every point is the affine combination of a non-degenerate triangle's vertices with coefficients
    the signed-area ratios; it lies in the closed triangle iff all three are ≥ 0. -/
theorem combo_signed_ratios (v0 v1 v2 p : α × α) (hD : det3 v0 v1 v2 ≠ 0) :
    let D := det3 v0 v1 v2
    p = combo v0 v1 v2 (det3 v1 v2 p / D) (-(det3 v0 v2 p) / D) (det3 v0 v1 p / D)
    ∧ det3 v1 v2 p / D + -(det3 v0 v2 p) / D + det3 v0 v1 p / D = 1 := by
  intro D
  have hD' : D ≠ 0 := hD
  constructor
  · unfold combo
    ext
    · simp only; field_simp; simp only [D, det3]; ring
    · simp only; field_simp; simp only [D, det3]; ring
  · field_simp; simp only [D, det3]; ring

/-! ### rows of `MapperDelaunay.pix_sub_weights` -/

/-- a sub-pixel Qhull located in simplex `s = [a,b,c]`, lying in that closed triangle: it maps to
    `a,b,c` (size 3) with the barycentric coordinates as weights, attached in the same order. -/
theorem delaunayPixSubWeights_located (grid mesh : List (α × α)) (simplexFor : List Int)
    (simplices : List (List Int)) (i : Nat) (hi : i < grid.length)
    (s : Nat) (hs : simplexFor.getD i (-1) = (s : Int)) (a b c : Nat)
    (hrow : simplices.getD s [-1, -1, -1] = [(a : Int), (b : Int), (c : Int)])
    (l0 l1 l2 : α) (h0 : 0 ≤ l0) (h1 : 0 ≤ l1) (h2 : 0 ≤ l2) (hsum : l0 + l1 + l2 = 1)
    (hD : det3 (mesh.getD a (0, 0)) (mesh.getD b (0, 0)) (mesh.getD c (0, 0)) ≠ 0)
    (hp : grid.getD i (0, 0)
      = combo (mesh.getD a (0, 0)) (mesh.getD b (0, 0)) (mesh.getD c (0, 0)) l0 l1 l2) :
    (Impl.delaunayPixSubWeights grid mesh simplexFor simplices).mappings.getD i []
        = [(a : Int), (b : Int), (c : Int)] ∧
    (Impl.delaunayPixSubWeights grid mesh simplexFor simplices).sizes.getD i 0 = 3 ∧
    (Impl.delaunayPixSubWeights grid mesh simplexFor simplices).weights.getD i [] = [l0, l1, l2] := by
  have hne : ((s : Int) != -1) = true := by simp
  have hmap : (Impl.pixIndexesDelaunay grid simplexFor simplices mesh).1.getD i []
      = [(a : Int), (b : Int), (c : Int)] := by
    unfold Impl.pixIndexesDelaunay
    simp only [List.getD_eq_getElem?_getD, List.getElem?_map, List.getElem?_range hi,
      Option.map_some, Option.getD_some]
    simp only [List.getD_eq_getElem?_getD] at hs hrow
    rw [hs]
    simp only [hne, if_true, Int.toNat_natCast]
    exact hrow
  refine ⟨hmap, ?_, ?_⟩
  · unfold Impl.delaunayPixSubWeights
    simp only
    have : (Impl.pixIndexesDelaunay grid simplexFor simplices mesh).2
        = (Impl.pixIndexesDelaunay grid simplexFor simplices mesh).1.map
            fun r => (r.filter (0 ≤ ·)).length := rfl
    rw [this]
    have hlen : i < (Impl.pixIndexesDelaunay grid simplexFor simplices mesh).1.length := by
      unfold Impl.pixIndexesDelaunay; simpa using hi
    rw [List.getD_eq_getElem?_getD, List.getElem?_map, List.getElem?_eq_getElem hlen]
    have h2 : (Impl.pixIndexesDelaunay grid simplexFor simplices mesh).1[i]
        = [(a : Int), (b : Int), (c : Int)] := by
      rw [List.getD_eq_getElem?_getD, List.getElem?_eq_getElem hlen] at hmap
      simpa using hmap
    simp [h2]
  · unfold Impl.delaunayPixSubWeights Impl.pixelWeightsDelaunay
    simp only [List.getD_eq_getElem?_getD, List.getElem?_map, List.getElem?_range hi,
      Option.map_some, Option.getD_some]
    simp only [List.getD_eq_getElem?_getD] at hmap hp
    rw [hmap]
    have hb : (((b : Int)) != -1) = true := by simp
    simp only [List.getElem?_cons_succ, List.getElem?_cons_zero, Option.getD_some, hb, if_true,
      Int.toNat_natCast, hp]
    exact baryWeights_combo _ _ _ l0 l1 l2 h0 h1 h2 hsum
      (by simpa [List.getD_eq_getElem?_getD] using hD)

/-- a sub-pixel Qhull could not locate (outside the hull): one mapping, to the first nearest vertex,
    with weight 1. -/
theorem delaunayPixSubWeights_outside (grid mesh : List (α × α)) (simplexFor : List Int)
    (simplices : List (List Int)) (i : Nat) (hi : i < grid.length)
    (hs : simplexFor.getD i (-1) = -1) :
    (Impl.delaunayPixSubWeights grid mesh simplexFor simplices).mappings.getD i []
        = [Int.ofNat (Impl.argminFirst (mesh.map (Impl.sqDist (grid.getD i (0, 0))))), -1, -1] ∧
    (Impl.delaunayPixSubWeights grid mesh simplexFor simplices).sizes.getD i 0 = 1 ∧
    (Impl.delaunayPixSubWeights grid mesh simplexFor simplices).weights.getD i [] = [1, 0, 0] := by
  have hmap : (Impl.pixIndexesDelaunay grid simplexFor simplices mesh).1.getD i []
      = [Int.ofNat (Impl.argminFirst (mesh.map (Impl.sqDist (grid.getD i (0, 0))))), -1, -1] := by
    unfold Impl.pixIndexesDelaunay
    simp only [List.getD_eq_getElem?_getD, List.getElem?_map, List.getElem?_range hi,
      Option.map_some, Option.getD_some]
    simp only [List.getD_eq_getElem?_getD] at hs
    rw [hs]
    simp
  refine ⟨hmap, ?_, ?_⟩
  · unfold Impl.delaunayPixSubWeights
    simp only
    have : (Impl.pixIndexesDelaunay grid simplexFor simplices mesh).2
        = (Impl.pixIndexesDelaunay grid simplexFor simplices mesh).1.map
            fun r => (r.filter (0 ≤ ·)).length := rfl
    rw [this]
    have hlen : i < (Impl.pixIndexesDelaunay grid simplexFor simplices mesh).1.length := by
      unfold Impl.pixIndexesDelaunay; simpa using hi
    rw [List.getD_eq_getElem?_getD, List.getElem?_map, List.getElem?_eq_getElem hlen]
    have h2 : (Impl.pixIndexesDelaunay grid simplexFor simplices mesh).1[i]
        = [Int.ofNat (Impl.argminFirst (mesh.map (Impl.sqDist (grid.getD i (0, 0))))), -1, -1] := by
      rw [List.getD_eq_getElem?_getD, List.getElem?_eq_getElem hlen] at hmap
      simpa using hmap
    simp [h2]
  · unfold Impl.delaunayPixSubWeights Impl.pixelWeightsDelaunay
    simp only [List.getD_eq_getElem?_getD, List.getElem?_map, List.getElem?_range hi,
      Option.map_some, Option.getD_some]
    simp only [List.getD_eq_getElem?_getD] at hmap
    rw [hmap]
    simp

end bary

/-! ### `np.argmin`: first minimum -/
section argmin
variable {α : Type} [LinearOrder α]

/-- invariant of the scan: `st = (best index, best value, next index)` over the prefix `pre` -/
def ArgInv (pre : List α) (st : Nat × α × Nat) : Prop :=
  st.2.2 = pre.length ∧ pre[st.1]? = some st.2.1 ∧
    (∀ (j : Nat) x, pre[j]? = some x → st.2.1 ≤ x) ∧
    (∀ (j : Nat) x, j < st.1 → pre[j]? = some x → st.2.1 < x)

theorem argInv_fold (t pre : List α) (st : Nat × α × Nat) (h : ArgInv pre st) :
    ArgInv (pre ++ t)
      (t.foldl (fun (st : Nat × α × Nat) v =>
        if v < st.2.1 then (st.2.2, v, st.2.2 + 1) else (st.1, st.2.1, st.2.2 + 1)) st) := by
  induction t generalizing pre st with
  | nil => simpa using h
  | cons v t ih =>
    simp only [List.foldl_cons]
    have : pre ++ v :: t = (pre ++ [v]) ++ t := by simp
    rw [this]
    apply ih
    obtain ⟨b, m, n⟩ := st
    obtain ⟨hn, hb, hall, hlt⟩ := h
    simp only at hn hb hall hlt
    subst hn
    have hblt : b < pre.length := by
      by_contra hc
      rw [List.getElem?_eq_none (by omega)] at hb
      exact absurd hb (by simp)
    by_cases hv : v < m
    · simp only [hv, if_true]
      refine ⟨by simp, by simp, ?_, ?_⟩
      · intro j x hj
        by_cases hjl : j < pre.length
        · rw [List.getElem?_append_left hjl] at hj
          exact le_of_lt (lt_of_lt_of_le hv (hall j x hj))
        · by_cases hje : j = pre.length
          · subst hje; simp at hj; exact le_of_eq hj
          · rw [List.getElem?_eq_none (by simp; omega)] at hj
            exact absurd hj (by simp)
      · intro j x hjl hj
        simp only at hjl
        rw [List.getElem?_append_left hjl] at hj
        exact lt_of_lt_of_le hv (hall j x hj)
    · simp only [hv, if_false]
      refine ⟨by simp, by simp [List.getElem?_append_left hblt, hb], ?_, ?_⟩
      · intro j x hj
        by_cases hjl : j < pre.length
        · rw [List.getElem?_append_left hjl] at hj
          exact hall j x hj
        · by_cases hje : j = pre.length
          · subst hje; simp at hj; subst hj; exact not_lt.mp hv
          · rw [List.getElem?_eq_none (by simp; omega)] at hj
            exact absurd hj (by simp)
      · intro j x hjl hj
        simp only at hjl
        rw [List.getElem?_append_left (by omega)] at hj
        exact hlt j x hjl hj

/-- `argminFirst` returns the first index of the minimum of a non-empty list -/
theorem argminFirst_spec (l : List α) (hl : l ≠ []) :
    ∃ m, l[Impl.argminFirst l]? = some m ∧ (∀ (j : Nat) x, l[j]? = some x → m ≤ x) ∧
      (∀ (j : Nat) x, j < Impl.argminFirst l → l[j]? = some x → m < x) := by
  cases l with
  | nil => exact absurd rfl hl
  | cons a t =>
    have h0 : ArgInv [a] (0, a, 1) := by
      refine ⟨rfl, rfl, ?_, ?_⟩
      · intro j x hj
        cases j with
        | zero => simp at hj; exact le_of_eq hj
        | succ j => simp at hj
      · intro j x hj; simp only at hj; omega
    have := argInv_fold t [a] (0, a, 1) h0
    obtain ⟨_, h2, h3, h4⟩ := this
    exact ⟨_, h2, h3, h4⟩

theorem argminFirst_lt (l : List α) (hl : l ≠ []) : Impl.argminFirst l < l.length := by
  obtain ⟨m, h, _⟩ := argminFirst_spec l hl
  by_contra hc
  rw [List.getElem?_eq_none (by omega)] at h
  exact absurd h (by simp)

end argmin

/-! ### adjacency derived from simplices; the CSR table -/

theorem mem_neighborsFromSimplices (n : Nat) (simplices : List (List Nat)) (k j : Nat) (hk : k < n) :
    j ∈ (Spec.neighborsFromSimplices n simplices).getD k []
      ↔ j < n ∧ j ≠ k ∧ ∃ s ∈ simplices, k ∈ s ∧ j ∈ s := by
  unfold Spec.neighborsFromSimplices
  simp [List.getD_eq_getElem?_getD, hk]

theorem neighborsFromSimplices_symm (n : Nat) (simplices : List (List Nat)) (k j : Nat)
    (hk : k < n) (hj : j < n) :
    j ∈ (Spec.neighborsFromSimplices n simplices).getD k []
      ↔ k ∈ (Spec.neighborsFromSimplices n simplices).getD j [] := by
  rw [mem_neighborsFromSimplices n simplices k j hk, mem_neighborsFromSimplices n simplices j k hj]
  constructor
  · rintro ⟨_, hne, s, hs, h1, h2⟩; exact ⟨hk, fun h => hne h.symm, s, hs, h2, h1⟩
  · rintro ⟨_, hne, s, hs, h1, h2⟩; exact ⟨hj, fun h => hne h.symm, s, hs, h2, h1⟩

theorem neighborsFromSimplices_sorted (n : Nat) (simplices : List (List Nat)) (k : Nat) :
    ((Spec.neighborsFromSimplices n simplices).getD k []).Pairwise (· < ·) := by
  unfold Spec.neighborsFromSimplices
  rw [List.getD_eq_getElem?_getD]
  by_cases hk : k < n
  · simp only [List.getElem?_map, List.getElem?_range hk, Option.map_some, Option.getD_some]
    exact List.Pairwise.filter _ List.pairwise_lt_range
  · simp [hk]

/-- the slice `indices[indptr[k]:indptr[k+1]]` -/
def csrSlice (indptr indices : List Nat) (k : Nat) : List Nat :=
  (indices.drop (indptr.getD k 0)).take (indptr.getD (k + 1) 0 - indptr.getD k 0)

/-- `Mesh2DDelaunay.neighbors`: row k starts with the CSR slice of vertex k, then only -1;
    `sizes[k]` is the slice bounds' difference. -/
theorem delaunayNeighbors_row (indptr indices : List Nat) (n k : Nat) (hk : k < n) :
    (Impl.delaunayNeighbors indptr indices n).2.getD k 0
        = indptr.getD (k + 1) 0 - indptr.getD k 0 ∧
    ∃ pad : Nat, (Impl.delaunayNeighbors indptr indices n).1.getD k []
        = (csrSlice indptr indices k).map Int.ofNat ++ List.replicate pad (-1) := by
  unfold Impl.delaunayNeighbors csrSlice
  simp only [List.getD_eq_getElem?_getD, List.getElem?_map, List.getElem?_range hk, Option.map_some,
    Option.getD_some, true_and]
  exact ⟨_, rfl⟩

/-- under Qhull's contract — the CSR slice of vertex k lists exactly the vertices sharing a simplex
    with k, and the slices are complete — the used part of row k of `Mesh2DDelaunay.neighbors`
    contains j iff j and k share a simplex; the relation is symmetric. -/
theorem delaunayNeighbors_adjacency (indptr indices : List Nat) (n : Nat) (simplices : List (List Nat))
    (hfull : ∀ k < n, (csrSlice indptr indices k).length = indptr.getD (k + 1) 0 - indptr.getD k 0)
    (hcontract : ∀ k < n, ∀ j, j ∈ csrSlice indptr indices k ↔
      (j < n ∧ j ≠ k ∧ ∃ s ∈ simplices, k ∈ s ∧ j ∈ s))
    (k j : Nat) (hk : k < n) (hj : j < n) :
    let used := fun k => ((Impl.delaunayNeighbors indptr indices n).1.getD k []).take
      ((Impl.delaunayNeighbors indptr indices n).2.getD k 0)
    (Int.ofNat j ∈ used k ↔ (j ≠ k ∧ ∃ s ∈ simplices, k ∈ s ∧ j ∈ s)) ∧
    (Int.ofNat j ∈ used k ↔ Int.ofNat k ∈ used j) := by
  intro used
  have hused : ∀ k < n, used k = (csrSlice indptr indices k).map Int.ofNat := by
    intro k hk
    obtain ⟨h1, pad, h2⟩ := delaunayNeighbors_row indptr indices n k hk
    simp only [used]
    rw [h1, h2, ← hfull k hk]
    rw [List.take_left' (by simp)]
  have hmem : ∀ k < n, ∀ j < n, (Int.ofNat j ∈ used k ↔ (j ≠ k ∧ ∃ s ∈ simplices, k ∈ s ∧ j ∈ s)) := by
    intro k hk j hj
    rw [hused k hk]
    constructor
    · intro h
      obtain ⟨j', hj', he⟩ := List.mem_map.mp h
      have : j' = j := by simpa using he
      subst this
      exact ((hcontract k hk j').mp hj').2
    · intro h
      exact List.mem_map.mpr ⟨j, (hcontract k hk j).mpr ⟨hj, h⟩, rfl⟩
  refine ⟨hmem k hk j hj, ?_⟩
  rw [hmem k hk j hj, hmem j hj k hk]
  constructor
  · rintro ⟨hne, s, hs, h1, h2⟩; exact ⟨fun h => hne h.symm, s, hs, h2, h1⟩
  · rintro ⟨hne, s, hs, h1, h2⟩; exact ⟨fun h => hne h.symm, s, hs, h2, h1⟩

end Model
