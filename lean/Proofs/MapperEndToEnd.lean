/-
Proofs/MapperEndToEnd.lean — the hypotheses of the row-sum theorem (clause b) are met by the tables the
two mappers actually build (clauses c, d): flux conservation end to end.
-/
import Model.Mapper
import Proofs.Mapper
import Proofs.MapperDelaunay
import Proofs.MapperRect

namespace Model

open Impl

section e2e
variable {α : Type} [Field α] [LinearOrder α] [IsStrictOrderedRing α]

/-- rows ≥ 0 and sum to one, from per-sub-pixel facts (repackaging of the lemmas of Proofs/Mapper) -/
theorem rows_of_tables (subs : List Nat) (hpos : ∀ s ∈ subs, 1 ≤ s)
    (idx : List (List Int)) (sizes : List Nat) (wts : List (List α)) (pixels : Nat)
    (hidx : ∀ sub < (Spec.slimForSubSlim subs).length, ∀ c < sizes.getD sub 0,
      ((idx.getD sub []).getD c 0).toNat < pixels)
    (hw0 : ∀ sub < (Spec.slimForSubSlim subs).length, ∀ c < sizes.getD sub 0,
      0 ≤ (wts.getD sub []).getD c 0)
    (hw1 : ∀ sub < (Spec.slimForSubSlim subs).length,
      ((List.range (sizes.getD sub 0)).map fun c => (wts.getD sub []).getD c 0).sum = 1) :
    (∀ r ∈ Impl.mappingMatrix idx sizes wts pixels subs.length (Spec.slimForSubSlim subs)
        (subs.map Impl.subFraction), ∀ x ∈ r, 0 ≤ x) ∧
    (∀ i < subs.length, ((Impl.mappingMatrix idx sizes wts pixels subs.length
        (Spec.slimForSubSlim subs) (subs.map Impl.subFraction)).getD i []).sum = 1) := by
  have hslim : ∀ s ∈ Spec.slimForSubSlim subs, s < subs.length := by
    rw [slimForSubSlim_spec_eq_blocksOf]; exact blocksOf_mem_lt _ _
  constructor
  · intro r hr x hx
    obtain ⟨i, p, _, _, rfl⟩ :=
      mem_isMat_entry (mappingMatrix_isMat idx sizes wts pixels subs.length _ _) r hr x hx
    apply mappingMatrix_entry_nonneg idx sizes wts pixels subs.length _ _ hslim hidx _ hw0
    intro f hf
    obtain ⟨s, _, rfl⟩ := List.mem_map.mp hf
    exact subFraction_nonneg s
  · intro i hi
    exact mappingMatrix_row_sum_one subs hpos idx sizes wts pixels hidx hw1 i hi

/-! ### rectangular -/

theorem gridPixelIndexes_getD (trunc : α → Int) (g : RectGeom α) (grid : List (α × α)) (i : Nat)
    (hi : i < grid.length) :
    [(Impl.gridPixelIndexes trunc g grid).getD i 0]
      = Impl.gridPixelIndexes trunc g [grid.getD i (0, 0)] := by
  unfold Impl.gridPixelIndexes Impl.gridPixelCentres
  simp [List.getD_eq_getElem?_getD, hi]

/-- rectangular mapper on the mesh `overlay_grid` lays over its own grid: every row of the mapping
    matrix is ≥ 0 and sums to one, for every mesh shape, grid and sub-size map. -/
theorem rect_mapper_rows (trunc : α → Int) (ht : IsTrunc trunc) (h w : Nat) (hh : 1 ≤ h) (hw : 1 ≤ w)
    (grid : List (α × α)) (b : α) (hb : 0 < b) (subs : List Nat) (hpos : ∀ s ∈ subs, 1 ≤ s)
    (hlen : grid.length = (Spec.slimForSubSlim subs).length) :
    let psw := Impl.rectPixSubWeights trunc (Impl.overlayGrid h w grid b) grid
    let M := Impl.mappingMatrix psw.mappings psw.sizes psw.weights (h * w) subs.length
      (Spec.slimForSubSlim subs) (subs.map Impl.subFraction)
    (∀ r ∈ M, ∀ x ∈ r, 0 ≤ x) ∧ (∀ i < subs.length, (M.getD i []).sum = 1) := by
  intro psw M
  have hsizes : ∀ sub < grid.length, psw.sizes.getD sub 0 = 1 := by
    intro sub hsub
    simp [psw, Impl.rectPixSubWeights, List.getD_eq_getElem?_getD, hsub]
  have hwts : ∀ sub < grid.length, psw.weights.getD sub [] = [1] := by
    intro sub hsub
    simp [psw, Impl.rectPixSubWeights, List.getD_eq_getElem?_getD, hsub]
  apply rows_of_tables subs hpos
  · intro sub hsub c hc
    rw [← hlen] at hsub
    rw [hsizes sub hsub] at hc
    have hc0 : c = 0 := by omega
    subst hc0
    set g := Impl.overlayGrid h w grid b with hg
    have hp : grid.getD sub (0, 0) ∈ grid := by
      rw [List.getD_eq_getElem?_getD, List.getElem?_eq_getElem hsub]
      exact List.getElem_mem hsub
    obtain ⟨s1, s2, c1, c2, c3, c4⟩ := overlay_contains h w hh hw grid b hb _ hp
    obtain ⟨yp, xp, hyp, hxp, hidx, _⟩ := rect_cell_contains trunc ht g (grid.getD sub (0, 0))
      hh hw s1 s2 (le_of_lt c1) c2 (le_of_lt c3) c4
    have hrow : psw.mappings.getD sub [] = [(Impl.gridPixelIndexes trunc g grid).getD sub 0] := by
      have hl : sub < (Impl.gridPixelIndexes trunc g grid).length := by
        simp [Impl.gridPixelIndexes, Impl.gridPixelCentres]; exact hsub
      show ((Impl.gridPixelIndexes trunc g grid).map fun k => [k]).getD sub [] = _
      rw [List.getD_eq_getElem?_getD, List.getD_eq_getElem?_getD, List.getElem?_map,
        List.getElem?_eq_getElem hl]
      rfl
    rw [hrow, gridPixelIndexes_getD trunc g grid sub hsub, hidx]
    simp only [List.getD_cons_zero, Int.toNat_natCast]
    have hgh : g.h = h := rfl
    have hgw : g.w = w := rfl
    rw [hgh] at hyp; rw [hgw] at hxp ⊢
    calc yp * w + xp < yp * w + w := by omega
      _ = (yp + 1) * w := by rw [Nat.succ_mul]
      _ ≤ h * w := Nat.mul_le_mul_right w hyp
  · intro sub hsub c hc
    rw [← hlen] at hsub
    rw [hsizes sub hsub] at hc
    have hc0 : c = 0 := by omega
    subst hc0
    rw [hwts sub hsub]
    simp
  · intro sub hsub
    rw [← hlen] at hsub
    rw [hsizes sub hsub, hwts sub hsub]
    simp

/-! ### Delaunay -/

/-- what Qhull's answer for sub-pixel `i` must satisfy: unlocated, or located in a non-degenerate
    simplex of mesh vertices whose closed triangle contains the point -/
def QhullLocates (grid mesh : List (α × α)) (simplexFor : List Int) (simplices : List (List Int))
    (i : Nat) : Prop :=
  simplexFor.getD i (-1) = -1 ∨
  ∃ (s a b c : Nat) (l0 l1 l2 : α),
    simplexFor.getD i (-1) = (s : Int) ∧
    simplices.getD s [-1, -1, -1] = [(a : Int), (b : Int), (c : Int)] ∧
    a < mesh.length ∧ b < mesh.length ∧ c < mesh.length ∧
    0 ≤ l0 ∧ 0 ≤ l1 ∧ 0 ≤ l2 ∧ l0 + l1 + l2 = 1 ∧
    det3 (mesh.getD a (0, 0)) (mesh.getD b (0, 0)) (mesh.getD c (0, 0)) ≠ 0 ∧
    grid.getD i (0, 0)
      = combo (mesh.getD a (0, 0)) (mesh.getD b (0, 0)) (mesh.getD c (0, 0)) l0 l1 l2

/-- Delaunay mapper: under Qhull's contract every row of the mapping matrix is ≥ 0 and sums to one,
    for every vertex set, grid and sub-size map (points outside the hull included). -/
theorem delaunay_mapper_rows (grid mesh : List (α × α)) (hmesh : mesh ≠ []) (simplexFor : List Int)
    (simplices : List (List Int)) (subs : List Nat) (hpos : ∀ s ∈ subs, 1 ≤ s)
    (hlen : grid.length = (Spec.slimForSubSlim subs).length)
    (hq : ∀ i < grid.length, QhullLocates grid mesh simplexFor simplices i) :
    let psw := Impl.delaunayPixSubWeights grid mesh simplexFor simplices
    let M := Impl.mappingMatrix psw.mappings psw.sizes psw.weights mesh.length subs.length
      (Spec.slimForSubSlim subs) (subs.map Impl.subFraction)
    (∀ r ∈ M, ∀ x ∈ r, 0 ≤ x) ∧ (∀ i < subs.length, (M.getD i []).sum = 1) := by
  intro psw M
  apply rows_of_tables subs hpos
  · intro sub hsub c hc
    rw [← hlen] at hsub
    rcases hq sub hsub with ho | ⟨s, a, b, c', l0, l1, l2, h1, h2, ha, hb, hc', p0, p1, p2, ps, hD, hp⟩
    · obtain ⟨m1, m2, _⟩ := delaunayPixSubWeights_outside grid mesh simplexFor simplices sub hsub ho
      rw [m2] at hc
      have hc0 : c = 0 := by omega
      subst hc0
      rw [m1]
      simp only [List.getD_cons_zero, Int.ofNat_eq_natCast, Int.toNat_natCast]
      have := argminFirst_lt (mesh.map (Impl.sqDist (grid.getD sub (0, 0)))) (by simpa using hmesh)
      simpa using this
    · obtain ⟨m1, m2, _⟩ := delaunayPixSubWeights_located grid mesh simplexFor simplices sub hsub
        s h1 a b c' h2 l0 l1 l2 p0 p1 p2 ps hD hp
      rw [m2] at hc
      rw [m1]
      have : c = 0 ∨ c = 1 ∨ c = 2 := by omega
      rcases this with rfl | rfl | rfl <;> simp <;> assumption
  · intro sub hsub c hc
    rw [← hlen] at hsub
    rcases hq sub hsub with ho | ⟨s, a, b, c', l0, l1, l2, h1, h2, ha, hb, hc', p0, p1, p2, ps, hD, hp⟩
    · obtain ⟨_, m2, m3⟩ := delaunayPixSubWeights_outside grid mesh simplexFor simplices sub hsub ho
      rw [m2] at hc
      have hc0 : c = 0 := by omega
      subst hc0
      rw [m3]
      simp
    · obtain ⟨_, m2, m3⟩ := delaunayPixSubWeights_located grid mesh simplexFor simplices sub hsub
        s h1 a b c' h2 l0 l1 l2 p0 p1 p2 ps hD hp
      rw [m2] at hc
      rw [m3]
      have : c = 0 ∨ c = 1 ∨ c = 2 := by omega
      rcases this with rfl | rfl | rfl <;> simp <;> assumption
  · intro sub hsub
    rw [← hlen] at hsub
    rcases hq sub hsub with ho | ⟨s, a, b, c', l0, l1, l2, h1, h2, ha, hb, hc', p0, p1, p2, ps, hD, hp⟩
    · obtain ⟨_, m2, m3⟩ := delaunayPixSubWeights_outside grid mesh simplexFor simplices sub hsub ho
      rw [m2, m3]
      simp
    · obtain ⟨_, m2, m3⟩ := delaunayPixSubWeights_located grid mesh simplexFor simplices sub hsub
        s h1 a b c' h2 l0 l1 l2 p0 p1 p2 ps hD hp
      rw [m2, m3]
      simp [List.range_succ]
      linarith

end e2e
end Model
