/-
Proofs/MapperRect.lean — rectangular mesh: the cell index of a point is the cell that contains it;
the mesh laid by `overlay_grid` strictly contains the grid.  (Property C06, clause d.)
-/
import Model.Mapper
import Proofs.Mapper
import Mathlib.Algebra.Order.Field.Basic
import Mathlib.Tactic.Ring
import Mathlib.Tactic.Linarith
import Mathlib.Tactic.FieldSimp
import Mathlib.Tactic.Positivity
import Mathlib.Data.Rat.Floor

namespace Model

open Impl

section rect
variable {α : Type} [Field α] [LinearOrder α] [IsStrictOrderedRing α]

/-! ### `np.min` / `np.max` -/

theorem foldl_min_le (t : List α) (a : α) :
    t.foldl (fun m v => if v < m then v else m) a ≤ a ∧
      ∀ x ∈ t, t.foldl (fun m v => if v < m then v else m) a ≤ x := by
  induction t generalizing a with
  | nil => simp
  | cons v t ih =>
    simp only [List.foldl_cons, List.mem_cons, forall_eq_or_imp]
    by_cases hv : v < a
    · simp only [hv, if_true]
      obtain ⟨h1, h2⟩ := ih v
      exact ⟨le_trans h1 (le_of_lt hv), h1, h2⟩
    · simp only [hv, if_false]
      obtain ⟨h1, h2⟩ := ih a
      exact ⟨h1, le_trans h1 (not_lt.mp hv), h2⟩

theorem listMin_le (l : List α) (x : α) (hx : x ∈ l) : Impl.listMin l ≤ x := by
  cases l with
  | nil => simp at hx
  | cons a t =>
    unfold Impl.listMin
    rcases List.mem_cons.mp hx with rfl | h
    · exact (foldl_min_le t x).1
    · exact (foldl_min_le t a).2 x h

theorem le_foldl_max' (t : List α) (a : α) :
    a ≤ t.foldl (fun m v => if m < v then v else m) a ∧
      ∀ x ∈ t, x ≤ t.foldl (fun m v => if m < v then v else m) a := by
  induction t generalizing a with
  | nil => simp
  | cons v t ih =>
    simp only [List.foldl_cons, List.mem_cons, forall_eq_or_imp]
    by_cases hv : a < v
    · simp only [hv, if_true]
      obtain ⟨h1, h2⟩ := ih v
      exact ⟨le_trans (le_of_lt hv) h1, h1, h2⟩
    · simp only [hv, if_false]
      obtain ⟨h1, h2⟩ := ih a
      exact ⟨h1, le_trans (not_lt.mp hv) h1, h2⟩

theorem le_listMax (l : List α) (x : α) (hx : x ∈ l) : x ≤ Impl.listMax l := by
  cases l with
  | nil => simp at hx
  | cons a t =>
    unfold Impl.listMax
    rcases List.mem_cons.mp hx with rfl | h
    · exact (le_foldl_max' t x).1
    · exact (le_foldl_max' t a).2 x h

/-! ### pixel coordinate of a point -/

/-- top edge (largest y) and left edge (smallest x) of the mesh -/
def yTop (g : RectGeom α) : α := g.oy + (g.h : α) * g.sy / 2
def xLeft (g : RectGeom α) : α := g.ox - (g.w : α) * g.sx / 2

theorem pixelCoord_eq (g : RectGeom α) (p : α × α) (hh : 1 ≤ g.h) (hw : 1 ≤ g.w)
    (hsy : g.sy ≠ 0) (hsx : g.sx ≠ 0) :
    Impl.pixelCoord g p = ((yTop g - p.1) / g.sy, (p.2 - xLeft g) / g.sx) := by
  unfold Impl.pixelCoord Impl.centralScaled yTop xLeft
  have h1 : ((g.h - 1 : Nat) : α) = (g.h : α) - 1 := by
    rw [Nat.cast_sub hh]; simp
  have h2 : ((g.w - 1 : Nat) : α) = (g.w : α) - 1 := by
    rw [Nat.cast_sub hw]; simp
  simp only [h1, h2]
  ext
  · simp only; field_simp; ring
  · simp only; field_simp; ring

/-- contract of Python's `int()` on non-negative reals: floor -/
def IsTrunc (trunc : α → Int) : Prop :=
  ∀ t : α, 0 ≤ t → ((trunc t : Int) : α) ≤ t ∧ t < ((trunc t : Int) : α) + 1

/-- clause (d): a point whose pixel coordinates are in `[0,H) × [0,W)` gets the flattened index of the
    cell that contains it: rows count downward from the top edge, columns rightward from the left
    edge; cells are half-open (top/left boundary belongs to the cell). -/
theorem rect_cell_contains (trunc : α → Int) (ht : IsTrunc trunc) (g : RectGeom α) (p : α × α)
    (hh : 1 ≤ g.h) (hw : 1 ≤ g.w) (hsy : 0 < g.sy) (hsx : 0 < g.sx)
    (hy0 : 0 ≤ (Impl.pixelCoord g p).1) (hy1 : (Impl.pixelCoord g p).1 < (g.h : α))
    (hx0 : 0 ≤ (Impl.pixelCoord g p).2) (hx1 : (Impl.pixelCoord g p).2 < (g.w : α)) :
    ∃ yp xp : Nat, yp < g.h ∧ xp < g.w ∧
      Impl.gridPixelIndexes trunc g [p] = [((yp * g.w + xp : Nat) : Int)] ∧
      yTop g - ((yp : α) + 1) * g.sy < p.1 ∧ p.1 ≤ yTop g - (yp : α) * g.sy ∧
      xLeft g + (xp : α) * g.sx ≤ p.2 ∧ p.2 < xLeft g + ((xp : α) + 1) * g.sx := by
  obtain ⟨hty0, hty1⟩ := ht _ hy0
  obtain ⟨htx0, htx1⟩ := ht _ hx0
  set cy := (Impl.pixelCoord g p).1 with hcy
  set cx := (Impl.pixelCoord g p).2 with hcx
  have hyp0 : 0 ≤ trunc cy := by
    by_contra hc
    have : trunc cy ≤ -1 := by omega
    have h2 : ((trunc cy : Int) : α) ≤ -1 := by exact_mod_cast this
    linarith
  have hxp0 : 0 ≤ trunc cx := by
    by_contra hc
    have : trunc cx ≤ -1 := by omega
    have h2 : ((trunc cx : Int) : α) ≤ -1 := by exact_mod_cast this
    linarith
  have hypH : trunc cy < (g.h : Int) := by
    have : ((trunc cy : Int) : α) < ((g.h : Int) : α) := by
      push_cast; linarith
    exact_mod_cast this
  have hxpW : trunc cx < (g.w : Int) := by
    have : ((trunc cx : Int) : α) < ((g.w : Int) : α) := by
      push_cast; linarith
    exact_mod_cast this
  obtain ⟨yp, hyp⟩ : ∃ yp : Nat, trunc cy = (yp : Int) := ⟨(trunc cy).toNat, by omega⟩
  obtain ⟨xp, hxp⟩ : ∃ xp : Nat, trunc cx = (xp : Int) := ⟨(trunc cx).toNat, by omega⟩
  have hpc := pixelCoord_eq g p hh hw (ne_of_gt hsy) (ne_of_gt hsx)
  have hcy' : cy = (yTop g - p.1) / g.sy := by rw [hcy, hpc]
  have hcx' : cx = (p.2 - xLeft g) / g.sx := by rw [hcx, hpc]
  rw [hyp] at hty0 hty1 hypH
  rw [hxp] at htx0 htx1 hxpW
  simp only [Int.cast_natCast] at hty0 hty1 htx0 htx1
  refine ⟨yp, xp, by exact_mod_cast hypH, by exact_mod_cast hxpW, ?_, ?_, ?_, ?_, ?_⟩
  · unfold Impl.gridPixelIndexes Impl.gridPixelCentres
    simp only [List.map_cons, List.map_nil, ← hcy, ← hcx, hyp, hxp]
    push_cast
    rfl
  · rw [hcy', div_lt_iff₀ hsy] at hty1
    linarith
  · rw [hcy', le_div_iff₀ hsy] at hty0
    linarith
  · rw [hcx', le_div_iff₀ hsx] at htx0
    linarith
  · rw [hcx', div_lt_iff₀ hsx] at htx1
    linarith

/-! ### the overlaid mesh strictly contains the grid -/

theorem overlay_contains (h w : Nat) (hh : 1 ≤ h) (hw : 1 ≤ w) (grid : List (α × α)) (b : α)
    (hb : 0 < b) (p : α × α) (hp : p ∈ grid) :
    0 < (Impl.overlayGrid h w grid b).sy ∧ 0 < (Impl.overlayGrid h w grid b).sx ∧
    0 < (Impl.pixelCoord (Impl.overlayGrid h w grid b) p).1 ∧
    (Impl.pixelCoord (Impl.overlayGrid h w grid b) p).1 < (h : α) ∧
    0 < (Impl.pixelCoord (Impl.overlayGrid h w grid b) p).2 ∧
    (Impl.pixelCoord (Impl.overlayGrid h w grid b) p).2 < (w : α) := by
  have hy1 : Impl.listMin (grid.map (·.1)) ≤ p.1 := listMin_le _ _ (List.mem_map_of_mem hp)
  have hy2 : p.1 ≤ Impl.listMax (grid.map (·.1)) := le_listMax _ _ (List.mem_map_of_mem hp)
  have hx1 : Impl.listMin (grid.map (·.2)) ≤ p.2 := listMin_le _ _ (List.mem_map_of_mem hp)
  have hx2 : p.2 ≤ Impl.listMax (grid.map (·.2)) := le_listMax _ _ (List.mem_map_of_mem hp)
  set mny := Impl.listMin (grid.map (·.1))
  set mxy := Impl.listMax (grid.map (·.1))
  set mnx := Impl.listMin (grid.map (·.2))
  set mxx := Impl.listMax (grid.map (·.2))
  have hH : (0 : α) < (h : α) := by exact_mod_cast hh
  have hW : (0 : α) < (w : α) := by exact_mod_cast hw
  set g := Impl.overlayGrid h w grid b with hg
  have hsy : g.sy = (mxy + b - (mny - b)) / (h : α) := rfl
  have hsx : g.sx = (mxx + b - (mnx - b)) / (w : α) := rfl
  have hoy : g.oy = (mxy + b + (mny - b)) / 2 := rfl
  have hox : g.ox = (mxx + b + (mnx - b)) / 2 := rfl
  have hgh : g.h = h := rfl
  have hgw : g.w = w := rfl
  have hsy0 : 0 < g.sy := by rw [hsy]; apply div_pos _ hH; linarith
  have hsx0 : 0 < g.sx := by rw [hsx]; apply div_pos _ hW; linarith
  have hpc := pixelCoord_eq g p (by rw [hgh]; exact hh) (by rw [hgw]; exact hw)
    (ne_of_gt hsy0) (ne_of_gt hsx0)
  have hHsy : (h : α) * g.sy = mxy + b - (mny - b) := by rw [hsy]; field_simp
  have hWsx : (w : α) * g.sx = mxx + b - (mnx - b) := by rw [hsx]; field_simp
  have htop : yTop g = mxy + b := by
    unfold yTop; rw [hgh, hHsy, hoy]; ring
  have hleft : xLeft g = mnx - b := by
    unfold xLeft; rw [hgw, hWsx, hox]; ring
  rw [hpc]
  simp only
  rw [htop, hleft]
  refine ⟨hsy0, hsx0, ?_, ?_, ?_, ?_⟩
  · apply div_pos _ hsy0; linarith
  · rw [div_lt_iff₀ hsy0, hHsy]; linarith
  · apply div_pos _ hsx0; linarith
  · rw [div_lt_iff₀ hsx0, hWsx]; linarith

end rect

/-! ### the driver's `int()` on exact rationals meets the contract -/

theorem isTrunc_truncRat : IsTrunc (α := ℚ) Model.truncRat := by
  intro t ht
  unfold Model.truncRat
  simp only [ht, if_true]
  constructor
  · exact (Rat.le_floor_iff).mp (le_refl _)
  · by_contra hc
    have h1 : ((t.floor + 1 : Int) : ℚ) ≤ t := by push_cast; exact not_lt.mp hc
    have := (Rat.le_floor_iff).mpr h1
    omega

section rect2
variable {α : Type} [Field α] [LinearOrder α] [IsStrictOrderedRing α]
end rect2

end Model
