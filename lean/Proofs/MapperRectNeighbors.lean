/-
Proofs/MapperRectNeighbors.lean — `rectangular_neighbors_from`, phase by phase, produces exactly the
4-connectivity table (H, W ≥ 2).  (Property C06, clause f-rectangular.)

Method: the six phases are one left fold of `setRow` over a list of (pixel, neighbour-list) writes;
every write is already the final value of its pixel, and every pixel is written at least once.
-/
import Model.Mapper
import Proofs.Core

namespace Model

open Impl

/-! ### a fold of row writes -/

/-- the final row for neighbour list `t`: the list, padded with -1 to 4 columns -/
def padRow (t : List Int) : List Int := t ++ List.replicate (4 - t.length) (-1)

def initRow : List Int := [-1, -1, -1, -1]

/-- table invariant: every row is still initial or already final -/
def NbInv (n : Nat) (T : Nat → List Int) (nb : NbTable) : Prop :=
  nb.1.length = n ∧ nb.2.length = n ∧
  ∀ k < n, (nb.1.getD k [] = initRow ∧ nb.2.getD k 0 = 0) ∨
    (nb.1.getD k [] = padRow (T k) ∧ nb.2.getD k 0 = (T k).length)

theorem drop_padRow (t : List Int) (ht : t.length ≤ 4) :
    (padRow t).drop t.length = List.replicate (4 - t.length) (-1) := by
  unfold padRow
  rw [List.drop_left' rfl]

theorem drop_initRow (t : List Int) (ht : t.length ≤ 4) :
    initRow.drop t.length = List.replicate (4 - t.length) (-1) := by
  unfold initRow
  have : t.length = 0 ∨ t.length = 1 ∨ t.length = 2 ∨ t.length = 3 ∨ t.length = 4 := by omega
  rcases this with h | h | h | h | h <;> rw [h] <;> rfl

theorem setRow_inv (n : Nat) (T : Nat → List Int) (hT : ∀ k, (T k).length ≤ 4) (nb : NbTable)
    (h : NbInv n T nb) (k : Nat) (vals : List Int) (hv : k < n → vals = T k) :
    NbInv n T (setRow nb k vals) ∧
      (k < n → (setRow nb k vals).1.getD k [] = padRow (T k) ∧
        (setRow nb k vals).2.getD k 0 = (T k).length) ∧
      (∀ j, j ≠ k → (setRow nb k vals).1.getD j [] = nb.1.getD j [] ∧
        (setRow nb k vals).2.getD j 0 = nb.2.getD j 0) := by
  obtain ⟨h1, h2, h3⟩ := h
  have hother : ∀ j, j ≠ k → (setRow nb k vals).1.getD j [] = nb.1.getD j [] ∧
      (setRow nb k vals).2.getD j 0 = nb.2.getD j 0 := by
    intro j hj
    have hne : k ≠ j := fun hh => hj hh.symm
    simp [setRow, List.getD_eq_getElem?_getD, List.getElem?_set_ne hne]
  have hself : k < n → (setRow nb k vals).1.getD k [] = padRow (T k) ∧
      (setRow nb k vals).2.getD k 0 = (T k).length := by
    intro hk
    have hvals := hv hk
    subst hvals
    have hk1 : k < nb.1.length := by rw [h1]; exact hk
    have hk2 : k < nb.2.length := by rw [h2]; exact hk
    constructor
    · simp only [setRow, List.getD_eq_getElem?_getD, List.getElem?_set_self hk1, Option.getD_some]
      rcases h3 k hk with ⟨hr, _⟩ | ⟨hr, _⟩
      · simp only [List.getD_eq_getElem?_getD] at hr
        rw [hr, drop_initRow _ (hT k)]; rfl
      · simp only [List.getD_eq_getElem?_getD] at hr
        rw [hr, drop_padRow _ (hT k)]; rfl
    · simp [setRow, List.getD_eq_getElem?_getD, List.getElem?_set_self hk2]
  refine ⟨⟨by simp [setRow, h1], by simp [setRow, h2], ?_⟩, hself, hother⟩
  intro j hj
  by_cases hjk : j = k
  · subst hjk
    right
    exact hself hj
  · rw [(hother j hjk).1, (hother j hjk).2]
    exact h3 j hj

theorem fold_setRow (n : Nat) (T : Nat → List Int) (hT : ∀ k, (T k).length ≤ 4)
    (ops : List (Nat × List Int)) (hops : ∀ o ∈ ops, o.1 < n → o.2 = T o.1) (nb : NbTable)
    (h : NbInv n T nb) :
    NbInv n T (ops.foldl (fun nb o => setRow nb o.1 o.2) nb) ∧
    ∀ k < n, ((nb.1.getD k [] = padRow (T k) ∧ nb.2.getD k 0 = (T k).length) ∨ ∃ o ∈ ops, o.1 = k) →
      (ops.foldl (fun nb o => setRow nb o.1 o.2) nb).1.getD k [] = padRow (T k) ∧
      (ops.foldl (fun nb o => setRow nb o.1 o.2) nb).2.getD k 0 = (T k).length := by
  induction ops generalizing nb with
  | nil =>
    refine ⟨h, ?_⟩
    intro k _ hk
    rcases hk with hk | ⟨o, ho, _⟩
    · exact hk
    · simp at ho
  | cons o ops ih =>
    simp only [List.foldl_cons]
    obtain ⟨hinv, hself, hother⟩ :=
      setRow_inv n T hT nb h o.1 o.2 (hops o List.mem_cons_self)
    obtain ⟨i1, i2⟩ := ih (fun o' ho' => hops o' (List.mem_cons_of_mem _ ho')) (setRow nb o.1 o.2) hinv
    refine ⟨i1, ?_⟩
    intro k hk hcase
    apply i2 k hk
    by_cases hko : k = o.1
    · subst hko
      left; exact hself hk
    · rcases hcase with hc | ⟨o', ho', hk'⟩
      · left
        rw [(hother k hko).1, (hother k hko).2]; exact hc
      · rcases List.mem_cons.mp ho' with rfl | hmem
        · exact absurd hk'.symm hko
        · right; exact ⟨o', hmem, hk'⟩

/-! ### the six phases as one list of writes -/

def cornerOps (H W : Nat) : List (Nat × List Int) :=
  let w : Int := W
  let px : Int := (H * W : Nat)
  [(0, [1, w]), (W - 1, [w - 2, w + w - 1]), (H * W - W, [px - w * 2, px - w + 1]),
   (H * W - 1, [px - w - 1, px - 2])]

def topOps (W : Nat) : List (Nat × List Int) :=
  (List.range' 1 (W - 2)).map fun pix => (pix, [(pix : Int) - 1, (pix : Int) + 1, (pix : Int) + W])

def leftOps (H W : Nat) : List (Nat × List Int) :=
  (List.range' 1 (H - 2)).map fun pix =>
    (pix * W, [((pix * W : Nat) : Int) - W, ((pix * W : Nat) : Int) + 1, ((pix * W : Nat) : Int) + W])

def rightOps (H W : Nat) : List (Nat × List Int) :=
  (List.range' 1 (H - 2)).map fun pix =>
    (pix * W + W - 1, [((pix * W + W - 1 : Nat) : Int) - W, ((pix * W + W - 1 : Nat) : Int) - 1,
      ((pix * W + W - 1 : Nat) : Int) + W])

def bottomOps (H W : Nat) : List (Nat × List Int) :=
  (List.range' 1 (W - 2)).map fun pix =>
    (H * W - pix - 1, [((H * W - pix - 1 : Nat) : Int) - W, ((H * W - pix - 1 : Nat) : Int) - 1,
      ((H * W - pix - 1 : Nat) : Int) + 1])

def centralOps (H W : Nat) : List (Nat × List Int) :=
  (List.range' 1 (H - 2)).flatMap fun x => (List.range' 1 (W - 2)).map fun y =>
    (x * W + y, [((x * W + y : Nat) : Int) - W, ((x * W + y : Nat) : Int) - 1,
      ((x * W + y : Nat) : Int) + 1, ((x * W + y : Nat) : Int) + W])

def allOps (H W : Nat) : List (Nat × List Int) :=
  cornerOps H W ++ topOps W ++ leftOps H W ++ rightOps H W ++ bottomOps H W ++ centralOps H W

theorem rectNeighbors_eq_fold (H W : Nat) :
    Impl.rectNeighbors H W
      = (allOps H W).foldl (fun nb o => setRow nb o.1 o.2)
          (List.replicate (H * W) initRow, List.replicate (H * W) 0) := by
  unfold Impl.rectNeighbors allOps
  simp only [List.foldl_append]
  unfold Impl.rectCentral Impl.rectBottom Impl.rectRight Impl.rectLeft Impl.rectTop Impl.rectCorner
    centralOps bottomOps rightOps leftOps topOps cornerOps
  simp only [List.foldl_flatMap, List.foldl_map, List.foldl_cons, List.foldl_nil]
  rfl

/-! ### arithmetic of flattened indices -/

theorem mapper_flat_div_mod (W q r : Nat) (hr : r < W) : (q * W + r) / W = q ∧ (q * W + r) % W = r := by
  have hW : 0 < W := by omega
  constructor
  · rw [Nat.mul_comm, Nat.mul_add_div hW, Nat.div_eq_of_lt hr]; simp
  · rw [Nat.mul_comm, Nat.mul_add_mod, Nat.mod_eq_of_lt hr]

/-- `fourNeighbors` at `k = y*W + x`, by the position of (y,x) -/
theorem fourNeighbors_at (H W y x : Nat) (hx : x < W) :
    Spec.fourNeighbors H W (y * W + x)
      = (if 0 < y then [((y * W + x : Nat) : Int) - W] else [])
        ++ (if 0 < x then [((y * W + x : Nat) : Int) - 1] else [])
        ++ (if x + 1 < W then [((y * W + x : Nat) : Int) + 1] else [])
        ++ (if y + 1 < H then [((y * W + x : Nat) : Int) + W] else []) := by
  unfold Spec.fourNeighbors
  obtain ⟨h1, h2⟩ := mapper_flat_div_mod W y x hx
  simp only [h1, h2]

theorem fourNeighbors_length_le (H W k : Nat) : (Spec.fourNeighbors H W k).length ≤ 4 := by
  unfold Spec.fourNeighbors
  simp only [List.length_append]
  split <;> split <;> split <;> split <;> simp

/-! ### every write is final -/

theorem allOps_correct (H W : Nat) (hH : 2 ≤ H) (hW : 2 ≤ W) :
    ∀ o ∈ allOps H W, o.1 < H * W → o.2 = Spec.fourNeighbors H W o.1 := by
  intro o ho _
  have hHW2 : W ≤ H * W := Nat.le_mul_of_pos_left W (by omega)
  have hHW : (H - 1) * W + W = H * W := by rw [Nat.sub_mul, Nat.one_mul]; omega
  simp only [allOps, List.mem_append] at ho
  rcases ho with ((((ho | ho) | ho) | ho) | ho) | ho
  · -- corners
    simp only [cornerOps, List.mem_cons, List.not_mem_nil, or_false] at ho
    rcases ho with rfl | rfl | rfl | rfl
    · have := fourNeighbors_at H W 0 0 (by omega)
      simp only [Nat.zero_mul, Nat.add_zero] at this
      simp only [this]
      have h1 : (0 : Nat) + 1 < W := by omega
      have h2 : (0 : Nat) + 1 < H := by omega
      simp [h1, h2]
    · have := fourNeighbors_at H W 0 (W - 1) (by omega)
      simp only [Nat.zero_mul, Nat.zero_add] at this
      simp only [this]
      have h1 : 0 < W - 1 := by omega
      have h2 : ¬ (W - 1 + 1 < W) := by omega
      have h3 : (0 : Nat) + 1 < H := by omega
      simp only [Nat.lt_irrefl, if_false, h1, if_true, h2, h3, List.nil_append, List.cons_append,
        List.cons.injEq, and_true]
      constructor <;> omega
    · have hk : H * W - W = (H - 1) * W + 0 := by omega
      have := fourNeighbors_at H W (H - 1) 0 (by omega)
      simp only [hk]
      simp only [this]
      have h1 : 0 < H - 1 := by omega
      have h2 : (0 : Nat) + 1 < W := by omega
      have h3 : ¬ (H - 1 + 1 < H) := by omega
      simp only [h1, if_true, Nat.lt_irrefl, if_false, h2, h3, List.append_nil, List.cons_append,
        List.nil_append, List.cons.injEq, and_true]
      constructor <;> omega
    · have hk : H * W - 1 = (H - 1) * W + (W - 1) := by omega
      have := fourNeighbors_at H W (H - 1) (W - 1) (by omega)
      simp only [hk]
      simp only [this]
      have h1 : 0 < H - 1 := by omega
      have h2 : 0 < W - 1 := by omega
      have h3 : ¬ (W - 1 + 1 < W) := by omega
      have h4 : ¬ (H - 1 + 1 < H) := by omega
      simp only [h1, if_true, h2, h3, if_false, h4, List.append_nil, List.cons_append,
        List.nil_append, List.cons.injEq, and_true]
      constructor <;> omega
  · -- top edge
    simp only [topOps, List.mem_map, List.mem_range'_1] at ho
    obtain ⟨pix, ⟨hp1, hp2⟩, rfl⟩ := ho
    have := fourNeighbors_at H W 0 pix (by omega)
    simp only [Nat.zero_mul, Nat.zero_add] at this
    simp only [this]
    have h1 : 0 < pix := by omega
    have h2 : pix + 1 < W := by omega
    have h3 : (0 : Nat) + 1 < H := by omega
    simp [h1, h2, h3]
  · -- left edge
    simp only [leftOps, List.mem_map, List.mem_range'_1] at ho
    obtain ⟨pix, ⟨hp1, hp2⟩, rfl⟩ := ho
    have := fourNeighbors_at H W pix 0 (by omega)
    simp only [Nat.add_zero] at this
    simp only [this]
    have h1 : 0 < pix := by omega
    have h2 : (0 : Nat) + 1 < W := by omega
    have h3 : pix + 1 < H := by omega
    simp [h1, h2, h3]
  · -- right edge
    simp only [rightOps, List.mem_map, List.mem_range'_1] at ho
    obtain ⟨pix, ⟨hp1, hp2⟩, rfl⟩ := ho
    have hk : pix * W + W - 1 = pix * W + (W - 1) := by omega
    have := fourNeighbors_at H W pix (W - 1) (by omega)
    simp only [hk]
    simp only [this]
    have h1 : 0 < pix := by omega
    have h2 : 0 < W - 1 := by omega
    have h3 : ¬ (W - 1 + 1 < W) := by omega
    have h4 : pix + 1 < H := by omega
    simp [h1, h2, h3, h4]
  · -- bottom edge
    simp only [bottomOps, List.mem_map, List.mem_range'_1] at ho
    obtain ⟨pix, ⟨hp1, hp2⟩, rfl⟩ := ho
    have hk : H * W - pix - 1 = (H - 1) * W + (W - 1 - pix) := by omega
    have := fourNeighbors_at H W (H - 1) (W - 1 - pix) (by omega)
    simp only [hk]
    simp only [this]
    have h1 : 0 < H - 1 := by omega
    have h2 : 0 < W - 1 - pix := by omega
    have h3 : W - 1 - pix + 1 < W := by omega
    have h4 : ¬ (H - 1 + 1 < H) := by omega
    simp [h1, h2, h3, h4]
  · -- centre
    simp only [centralOps, List.mem_flatMap, List.mem_map, List.mem_range'_1] at ho
    obtain ⟨x, ⟨hx1, hx2⟩, y, ⟨hy1, hy2⟩, rfl⟩ := ho
    have := fourNeighbors_at H W x y (by omega)
    simp only [this]
    have h1 : 0 < x := by omega
    have h2 : 0 < y := by omega
    have h3 : y + 1 < W := by omega
    have h4 : x + 1 < H := by omega
    simp [h1, h2, h3, h4]

/-! ### every pixel is written -/

theorem cover_of_mem {ops : List (Nat × List Int)} {k : Nat} (h : k ∈ ops.map (·.1)) :
    ∃ o ∈ ops, o.1 = k := by
  obtain ⟨o, ho, hk⟩ := List.mem_map.mp h
  exact ⟨o, ho, hk⟩

theorem allOps_cover (H W : Nat) (hH : 2 ≤ H) (hW : 2 ≤ W) (k : Nat) (hk : k < H * W) :
    ∃ o ∈ allOps H W, o.1 = k := by
  have hHW2 : W ≤ H * W := Nat.le_mul_of_pos_left W (by omega)
  have hHW : (H - 1) * W + W = H * W := by rw [Nat.sub_mul, Nat.one_mul]; omega
  have hW0 : 0 < W := by omega
  have hkd : k = (k / W) * W + k % W := by
    have := Nat.div_add_mod k W
    rw [Nat.mul_comm] at this; omega
  have hx : k % W < W := Nat.mod_lt _ hW0
  have hy : k / W < H := by
    rw [Nat.div_lt_iff_lt_mul hW0]; exact hk
  generalize k / W = y at hkd hy
  generalize k % W = x at hkd hx
  subst hkd
  have inC : ∀ o, o ∈ cornerOps H W → o ∈ allOps H W := by intro o h; simp [allOps, h]
  have inT : ∀ o, o ∈ topOps W → o ∈ allOps H W := by intro o h; simp [allOps, h]
  have inL : ∀ o, o ∈ leftOps H W → o ∈ allOps H W := by intro o h; simp [allOps, h]
  have inR : ∀ o, o ∈ rightOps H W → o ∈ allOps H W := by intro o h; simp [allOps, h]
  have inB : ∀ o, o ∈ bottomOps H W → o ∈ allOps H W := by intro o h; simp [allOps, h]
  have inM : ∀ o, o ∈ centralOps H W → o ∈ allOps H W := by intro o h; simp [allOps, h]
  have corner : (y * W + x = 0 ∨ y * W + x = W - 1 ∨ y * W + x = H * W - W ∨ y * W + x = H * W - 1) →
      ∃ o ∈ allOps H W, o.1 = y * W + x := by
    intro h
    obtain ⟨o, ho, hk⟩ := cover_of_mem (ops := cornerOps H W) (k := y * W + x) (by
      simp only [cornerOps, List.map_cons, List.map_nil, List.mem_cons, List.not_mem_nil, or_false]
      exact h)
    exact ⟨o, inC o ho, hk⟩
  by_cases hy0 : y = 0
  · subst hy0
    by_cases hx0 : x = 0
    · exact corner (Or.inl (by omega))
    · by_cases hxW : x = W - 1
      · exact corner (Or.inr (Or.inl (by omega)))
      · obtain ⟨o, ho, hk⟩ := cover_of_mem (ops := topOps W) (k := 0 * W + x) (by
          simp only [topOps, List.map_map, List.mem_map, List.mem_range'_1, Function.comp]
          exact ⟨x, ⟨by omega, by omega⟩, by omega⟩)
        exact ⟨o, inT o ho, hk⟩
  · by_cases hyH : y = H - 1
    · subst hyH
      by_cases hx0 : x = 0
      · exact corner (Or.inr (Or.inr (Or.inl (by omega))))
      · by_cases hxW : x = W - 1
        · exact corner (Or.inr (Or.inr (Or.inr (by omega))))
        · obtain ⟨o, ho, hk⟩ := cover_of_mem (ops := bottomOps H W) (k := (H - 1) * W + x) (by
            simp only [bottomOps, List.map_map, List.mem_map, List.mem_range'_1, Function.comp]
            exact ⟨W - 1 - x, ⟨by omega, by omega⟩, by omega⟩)
          exact ⟨o, inB o ho, hk⟩
    · by_cases hx0 : x = 0
      · obtain ⟨o, ho, hk⟩ := cover_of_mem (ops := leftOps H W) (k := y * W + x) (by
          simp only [leftOps, List.map_map, List.mem_map, List.mem_range'_1, Function.comp]
          exact ⟨y, ⟨by omega, by omega⟩, by omega⟩)
        exact ⟨o, inL o ho, hk⟩
      · by_cases hxW : x = W - 1
        · obtain ⟨o, ho, hk⟩ := cover_of_mem (ops := rightOps H W) (k := y * W + x) (by
            simp only [rightOps, List.map_map, List.mem_map, List.mem_range'_1, Function.comp]
            exact ⟨y, ⟨by omega, by omega⟩, by omega⟩)
          exact ⟨o, inR o ho, hk⟩
        · obtain ⟨o, ho, hk⟩ := cover_of_mem (ops := centralOps H W) (k := y * W + x) (by
            simp only [centralOps, List.map_flatMap, List.map_map, List.mem_flatMap, List.mem_map,
              List.mem_range'_1, Function.comp]
            exact ⟨y, ⟨by omega, by omega⟩, x, ⟨by omega, by omega⟩, rfl⟩)
          exact ⟨o, inM o ho, hk⟩

/-! ### the table -/

/-- clause (f), rectangular: Impl = Spec for every shape with H, W ≥ 2 -/
theorem rectNeighbors_eq_spec (H W : Nat) (hH : 2 ≤ H) (hW : 2 ≤ W) :
    Impl.rectNeighbors H W = Spec.rectNeighbors H W := by
  rw [rectNeighbors_eq_fold]
  have hinit : NbInv (H * W) (Spec.fourNeighbors H W)
      (List.replicate (H * W) initRow, List.replicate (H * W) 0) := by
    refine ⟨by simp, by simp, ?_⟩
    intro k hk
    left
    simp [List.getD_eq_getElem?_getD, hk]
  obtain ⟨⟨l1, l2, _⟩, hfin⟩ := fold_setRow (H * W) (Spec.fourNeighbors H W)
    (fourNeighbors_length_le H W) (allOps H W) (allOps_correct H W hH hW) _ hinit
  generalize (allOps H W).foldl (fun nb o => setRow nb o.1 o.2)
    (List.replicate (H * W) initRow, List.replicate (H * W) 0) = nb at l1 l2 hfin ⊢
  have hrows : nb.1 = (Spec.rectNeighbors H W).1 := by
    apply List.ext_getElem
    · simp [Spec.rectNeighbors, l1]
    · intro k h1 h2
      have hk : k < H * W := by rw [← l1]; exact h1
      have := (hfin k hk (Or.inr (allOps_cover H W hH hW k hk))).1
      rw [List.getD_eq_getElem?_getD, List.getElem?_eq_getElem h1] at this
      simp only [Option.getD_some] at this
      rw [this]
      simp [Spec.rectNeighbors, padRow]
  have hsizes : nb.2 = (Spec.rectNeighbors H W).2 := by
    apply List.ext_getElem
    · simp [Spec.rectNeighbors, l2]
    · intro k h1 h2
      have hk : k < H * W := by rw [← l2]; exact h1
      have := (hfin k hk (Or.inr (allOps_cover H W hH hW k hk))).2
      rw [List.getD_eq_getElem?_getD, List.getElem?_eq_getElem h1] at this
      simp only [Option.getD_some] at this
      rw [this]
      simp [Spec.rectNeighbors]
  exact Prod.ext hrows hsizes

/-! ### what the specification table says: 4-connectivity, symmetric -/

theorem flat_eq (W a b c d : Nat) (hb : b < W) (hd : d < W) (h : a * W + b = c * W + d) :
    a = c ∧ b = d := by
  have := flat_injOn (w := W) (p := (a, b)) (q := (c, d)) hb hd (by simpa [flat] using h)
  simpa using this

/-- pixel (y',x') is listed as a neighbour of pixel (y,x) iff the two differ by one step along
    exactly one axis -/
theorem mem_fourNeighbors_flat (H W y x y' x' : Nat) (hx : x < W) (hx' : x' < W) (hy : y < H)
    (hy' : y' < H) :
    ((y' * W + x' : Nat) : Int) ∈ Spec.fourNeighbors H W (y * W + x)
      ↔ (y' = y ∧ (x' + 1 = x ∨ x + 1 = x')) ∨ (x' = x ∧ (y' + 1 = y ∨ y + 1 = y')) := by
  rw [fourNeighbors_at H W y x hx]
  simp only [List.mem_append]
  constructor
  · rintro (((h | h) | h) | h)
    · split at h
      · simp only [List.mem_singleton] at h
        have h' : (y' + 1) * W + x' = y * W + x := by rw [Nat.succ_mul]; omega
        obtain ⟨h1, h2⟩ := flat_eq W _ _ _ _ hx' hx h'
        right; exact ⟨h2, Or.inl h1⟩
      · simp at h
    · split at h
      · simp only [List.mem_singleton] at h
        have h' : y' * W + (x' + 1) = y * W + x := by omega
        by_cases hxx : x' + 1 < W
        · obtain ⟨h1, h2⟩ := flat_eq W _ _ _ _ hxx hx h'
          left; exact ⟨h1, Or.inl h2⟩
        · have hx1 : x' + 1 = W := by omega
          have h'' : (y' + 1) * W + 0 = y * W + x := by rw [Nat.succ_mul]; omega
          obtain ⟨_, h2⟩ := flat_eq W _ _ _ _ (by omega) hx h''
          omega
      · simp at h
    · split at h
      · next hc =>
        simp only [List.mem_singleton] at h
        have h' : y' * W + x' = y * W + (x + 1) := by omega
        obtain ⟨h1, h2⟩ := flat_eq W _ _ _ _ hx' hc h'
        left; exact ⟨h1, Or.inr h2.symm⟩
      · simp at h
    · split at h
      · simp only [List.mem_singleton] at h
        have h' : y' * W + x' = (y + 1) * W + x := by rw [Nat.succ_mul]; omega
        obtain ⟨h1, h2⟩ := flat_eq W _ _ _ _ hx' hx h'
        right; exact ⟨h2, Or.inr h1.symm⟩
      · simp at h
  · rintro (⟨rfl, h | h⟩ | ⟨rfl, h | h⟩)
    · left; left; right
      have : 0 < x := by omega
      simp only [this, if_true, List.mem_singleton]
      omega
    · left; right
      have : x + 1 < W := by omega
      simp only [this, if_true, List.mem_singleton]
      omega
    · left; left; left
      have : 0 < y := by omega
      simp only [this, if_true, List.mem_singleton]
      subst h
      rw [Nat.succ_mul]
      omega
    · right
      have : y + 1 < H := by omega
      simp only [this, if_true, List.mem_singleton]
      subst h
      rw [Nat.succ_mul]
      omega

/-- the adjacency is symmetric -/
theorem fourNeighbors_symm (H W k j : Nat) (hW : 0 < W) (hk : k < H * W) (hj : j < H * W) :
    (j : Int) ∈ Spec.fourNeighbors H W k ↔ (k : Int) ∈ Spec.fourNeighbors H W j := by
  have hkd : k = (k / W) * W + k % W := by
    have := Nat.div_add_mod k W
    rw [Nat.mul_comm] at this; omega
  have hjd : j = (j / W) * W + j % W := by
    have := Nat.div_add_mod j W
    rw [Nat.mul_comm] at this; omega
  have hkx : k % W < W := Nat.mod_lt _ hW
  have hjx : j % W < W := Nat.mod_lt _ hW
  have hky : k / W < H := by rw [Nat.div_lt_iff_lt_mul hW]; exact hk
  have hjy : j / W < H := by rw [Nat.div_lt_iff_lt_mul hW]; exact hj
  rw [hkd, hjd]
  generalize k / W = y at *
  generalize k % W = x at *
  generalize j / W = y' at *
  generalize j % W = x' at *
  rw [mem_fourNeighbors_flat H W y x y' x' hkx hjx hky hjy,
    mem_fourNeighbors_flat H W y' x' y x hjx hkx hjy hky]
  constructor
  · rintro (⟨rfl, h | h⟩ | ⟨rfl, h | h⟩)
    · left; exact ⟨rfl, Or.inr h⟩
    · left; exact ⟨rfl, Or.inl h⟩
    · right; exact ⟨rfl, Or.inr h⟩
    · right; exact ⟨rfl, Or.inl h⟩
  · rintro (⟨rfl, h | h⟩ | ⟨rfl, h | h⟩)
    · left; exact ⟨rfl, Or.inr h⟩
    · left; exact ⟨rfl, Or.inl h⟩
    · right; exact ⟨rfl, Or.inr h⟩
    · right; exact ⟨rfl, Or.inl h⟩

end Model
