/-
Proofs/MapperTotals.lean — refinement for `mapper_util.data_weight_total_for_pix_from` (property C06):
the scatter-accumulate loop (`Model.Impl.dataWeightTotal`, tied to the regenerated source in
Proofs/TieDelaunay.lean) leaves in entry `q` the sum of all weights mapped to source pixel `q`
(`Model.Spec.dataWeightTotal`), over any commutative additive monoid, for all sizes.
-/
import Model.MapperTotals
import Mathlib.Algebra.BigOperators.Group.List.Basic

open Model

namespace MapperTotals

variable {α : Type}

theorem fold_set_length [Add α] [Zero α] (l : List (Nat × α)) (t : List α) :
    (l.foldl (fun t p => t.set p.1 (t.getD p.1 0 + p.2)) t).length = t.length := by
  induction l generalizing t with
  | nil => rfl
  | cons p l ih => simp only [List.foldl_cons]; rw [ih]; simp

/-- a scatter-accumulate pass adds to entry `q` the values of the pairs addressed to `q` -/
theorem fold_set_getD [AddCommMonoid α] (l : List (Nat × α)) (t : List α) (q : Nat) (hq : q < t.length) :
    (l.foldl (fun t p => t.set p.1 (t.getD p.1 0 + p.2)) t).getD q 0
      = t.getD q 0 + (l.map fun p => if p.1 = q then p.2 else 0).sum := by
  induction l generalizing t with
  | nil => simp
  | cons p l ih =>
    simp only [List.foldl_cons, List.map_cons, List.sum_cons]
    rw [ih _ (by simpa using hq)]
    by_cases hp : p.1 = q
    · subst hp
      simp only [if_true, List.getD_eq_getElem?_getD, List.getElem?_set_self hq, Option.getD_some]
      rw [add_assoc]
    · simp only [if_neg hp, zero_add, List.getD_eq_getElem?_getD, List.getElem?_set_ne hp]

theorem addRowWeights_length [Add α] [Zero α] (pixels : Nat) (tot : List α) (row : List Int) (ws : List α) :
    (Impl.addRowWeights pixels tot row ws).length = tot.length :=
  fold_set_length _ _

theorem dataWeightTotal_length [Add α] [Zero α] (pixels : Nat) (idx : List (List Int)) (wts : List (List α)) :
    (Impl.dataWeightTotal pixels idx wts).length = pixels := by
  unfold Impl.dataWeightTotal
  generalize List.range idx.length = l
  have : ∀ (t : List α), t.length = pixels →
      (l.foldl (fun tot sub => Impl.addRowWeights pixels tot (idx.getD sub []) (wts.getD sub [])) t).length
        = pixels := by
    induction l with
    | nil => intro t ht; exact ht
    | cons a l ih => intro t ht; exact ih _ (by rw [addRowWeights_length]; exact ht)
  exact this _ (by simp)

/-- `data_weight_total_for_pix_from` computes, for every source pixel, the sum of the weights mapped to it -/
theorem dataWeightTotal_eq_spec [AddCommMonoid α] (pixels : Nat) (idx : List (List Int)) (wts : List (List α))
    (q : Nat) (hq : q < pixels) :
    (Impl.dataWeightTotal pixels idx wts).getD q 0 = Spec.dataWeightTotal pixels idx wts q := by
  unfold Impl.dataWeightTotal Spec.dataWeightTotal
  generalize List.range idx.length = l
  have : ∀ (t : List α), t.length = pixels →
      (l.foldl (fun tot sub => Impl.addRowWeights pixels tot (idx.getD sub []) (wts.getD sub [])) t).getD q 0
        = t.getD q 0
          + (l.map fun sub => Spec.rowWeightOf pixels (idx.getD sub []) (wts.getD sub []) q).sum := by
    induction l with
    | nil => intro t _; simp
    | cons a l ih =>
      intro t ht
      simp only [List.foldl_cons, List.map_cons, List.sum_cons]
      rw [ih _ (by rw [addRowWeights_length]; exact ht)]
      unfold Impl.addRowWeights Spec.rowWeightOf
      rw [fold_set_getD _ _ _ (by omega), add_assoc]
  rw [this _ (by simp)]
  simp [List.getD_eq_getElem?_getD, hq]

end MapperTotals
