/-
Proofs/MapperUnique.lean — `data_slim_to_pixelization_unique_from`: the array-based loop refines an
association-list algorithm (insert a new source pixel at the end, or add to its existing slot), whose
rows denote the same dense row as `mapping_matrix_from`.  (Property C06, clause e.)
-/
import Model.Mapper
import Proofs.Mapper

namespace Model

open Impl

section unique
variable {α : Type} [Field α]

/-! ### association-list semantics -/

/-- add `v` to the slot of key `p`, or append a new slot -/
def insertAdd : List (Nat × α) → Nat → α → List (Nat × α)
  | [], p, v => [(p, v)]
  | (k, x) :: t, p, v => if k = p then (k, x + v) :: t else (k, x) :: insertAdd t p v

/-- position of key `p` (counted from `off`), or -1: what `pix_check[p]` holds -/
def posOf : List (Nat × α) → Nat → Nat → Int
  | [], _, _ => -1
  | (k, _) :: t, p, off => if k = p then (off : Int) else posOf t p (off + 1)

/-- sum of the values stored under key `p` -/
def lookupSum (al : List (Nat × α)) (p : Nat) : α :=
  ((al.filter fun e => e.1 == p).map (·.2)).sum

theorem posOf_range (al : List (Nat × α)) (p off : Nat) :
    posOf al p off = -1 ∨ ((off : Int) ≤ posOf al p off ∧ posOf al p off < off + al.length) := by
  induction al generalizing off with
  | nil => left; rfl
  | cons a t ih =>
    obtain ⟨k, x⟩ := a
    unfold posOf
    by_cases hk : k = p
    · right; simp [hk]
    · simp only [hk, if_false]
      rcases ih (off + 1) with h | h
      · left; exact h
      · right
        simp only [List.length_cons]
        push_cast at h ⊢
        omega

theorem posOf_shift (al : List (Nat × α)) (p off : Nat) :
    posOf al p off = if posOf al p 0 = -1 then -1 else posOf al p 0 + off := by
  induction al generalizing off with
  | nil => simp [posOf]
  | cons a t ih =>
    obtain ⟨k, x⟩ := a
    unfold posOf
    by_cases hk : k = p
    · simp [hk]
    · simp only [hk, if_false]
      rw [ih (off + 1), ih (0 + 1)]
      by_cases h1 : posOf t p 0 = -1
      · simp [h1]
      · have hr := posOf_range t p 0
        rcases hr with h | h
        · exact absurd h h1
        · have h2 : ¬ (posOf t p 0 + ((0 + 1 : Nat) : Int) = -1) := by push_cast; omega
          simp only [h1, if_false, h2]
          push_cast
          omega

theorem posOf_miss_iff (al : List (Nat × α)) (p off : Nat) :
    posOf al p off = -1 ↔ ∀ e ∈ al, e.1 ≠ p := by
  induction al generalizing off with
  | nil => simp [posOf]
  | cons a t ih =>
    obtain ⟨k, x⟩ := a
    unfold posOf
    by_cases hk : k = p
    · simp [hk]
    · simp [hk, ih (off + 1)]

/-- on a miss the new slot goes to the end -/
theorem insertAdd_miss (al : List (Nat × α)) (p : Nat) (v : α) (h : ∀ e ∈ al, e.1 ≠ p) :
    insertAdd al p v = al ++ [(p, v)] := by
  induction al with
  | nil => rfl
  | cons a t ih =>
    obtain ⟨k, x⟩ := a
    have hk : k ≠ p := h (k, x) List.mem_cons_self
    have ht : ∀ e ∈ t, e.1 ≠ p := fun e he => h e (List.mem_cons_of_mem _ he)
    simp [insertAdd, hk, ih ht]

/-- on a hit at position `j` only the value at `j` changes -/
theorem insertAdd_hit (al : List (Nat × α)) (p : Nat) (v : α) (j : Nat)
    (h : posOf al p 0 = (j : Int)) :
    j < al.length ∧ (al.getD j (0, 0)).1 = p ∧
      insertAdd al p v = al.set j (p, (al.getD j (0, 0)).2 + v) := by
  induction al generalizing j with
  | nil => simp [posOf] at h
  | cons a t ih =>
    obtain ⟨k, x⟩ := a
    unfold posOf at h
    by_cases hk : k = p
    · simp only [hk, if_true] at h
      have : j = 0 := by omega
      subst this
      subst hk
      simp [insertAdd]
    · simp only [hk, if_false] at h
      rw [posOf_shift] at h
      by_cases h1 : posOf t p 0 = -1
      · simp [h1] at h
      · simp only [h1, if_false] at h
        have hr := posOf_range t p 0
        rcases hr with h2 | h2
        · exact absurd h2 h1
        · obtain ⟨j', hj'⟩ : ∃ j' : Nat, posOf t p 0 = (j' : Int) := ⟨(posOf t p 0).toNat, by omega⟩
          have hj : j = j' + 1 := by
            rw [hj'] at h; push_cast at h; omega
          subst hj
          obtain ⟨a1, a2, a3⟩ := ih j' hj'
          refine ⟨by simpa using a1, by simpa using a2, ?_⟩
          simp only [insertAdd, hk, if_false, List.set_cons_succ, a3]
          simp

theorem keys_insertAdd_hit (al : List (Nat × α)) (p : Nat) (v : α) (h : ¬ ∀ e ∈ al, e.1 ≠ p) :
    (insertAdd al p v).map (·.1) = al.map (·.1) := by
  induction al with
  | nil => simp at h
  | cons a t ih =>
    obtain ⟨k, x⟩ := a
    by_cases hk : k = p
    · simp [insertAdd, hk]
    · have : ¬ ∀ e ∈ t, e.1 ≠ p := by
        intro ht
        apply h
        intro e he
        rcases List.mem_cons.mp he with rfl | he
        · exact hk
        · exact ht e he
      simp [insertAdd, hk, ih this]

theorem mem_keys_insertAdd (al : List (Nat × α)) (p : Nat) (v : α) (q : Nat) :
    q ∈ (insertAdd al p v).map (·.1) ↔ q ∈ al.map (·.1) ∨ q = p := by
  by_cases h : ∀ e ∈ al, e.1 ≠ p
  · rw [insertAdd_miss al p v h]; simp
  · rw [keys_insertAdd_hit al p v h]
    constructor
    · exact Or.inl
    · rintro (h1 | h1)
      · exact h1
      · subst h1
        push Not at h
        obtain ⟨e, he, rfl⟩ := h
        exact List.mem_map_of_mem he

theorem nodup_keys_insertAdd (al : List (Nat × α)) (p : Nat) (v : α) (hn : (al.map (·.1)).Nodup) :
    ((insertAdd al p v).map (·.1)).Nodup := by
  by_cases h : ∀ e ∈ al, e.1 ≠ p
  · rw [insertAdd_miss al p v h, List.map_append, List.nodup_append]
    refine ⟨hn, by simp, ?_⟩
    intro a ha b hb
    simp only [List.map_cons, List.map_nil, List.mem_singleton] at hb
    subst hb
    obtain ⟨e, he, rfl⟩ := List.mem_map.mp ha
    exact h e he
  · rw [keys_insertAdd_hit al p v h]; exact hn

theorem lookupSum_insertAdd (al : List (Nat × α)) (p : Nat) (v : α) (q : Nat) :
    lookupSum (insertAdd al p v) q = lookupSum al q + if q = p then v else 0 := by
  unfold lookupSum
  induction al with
  | nil =>
    by_cases hq : q = p
    · subst hq; simp [insertAdd]
    · have : (p == q) = false := by simp; exact fun h => hq h.symm
      simp [insertAdd, hq, this]
  | cons a t ih =>
    obtain ⟨k, x⟩ := a
    by_cases hk : k = p
    · subst hk
      by_cases hq : q = k
      · subst hq; simp [insertAdd]; ring
      · have : (k == q) = false := by simp; exact fun h => hq h.symm
        simp [insertAdd, hq, this]
    · by_cases hq : k = q
      · subst hq
        simp only [insertAdd, hk, if_false, List.filter_cons, beq_self_eq_true, if_true,
          List.map_cons, List.sum_cons, ih]
        ring
      · have : (k == q) = false := by simpa using hq
        simp only [insertAdd, hk, if_false, List.filter_cons, this, Bool.false_eq_true, ih]

/-- the association list built from a list of (source pixel, weight) mappings -/
def assocOf (frac : α) (es : List (Nat × α)) (al : List (Nat × α)) : List (Nat × α) :=
  es.foldl (fun al e => insertAdd al e.1 (frac * e.2)) al

theorem assocOf_length_le (frac : α) (es al : List (Nat × α)) :
    (assocOf frac es al).length ≤ al.length + es.length := by
  unfold assocOf
  induction es generalizing al with
  | nil => simp
  | cons e es ih =>
    simp only [List.foldl_cons, List.length_cons]
    have h1 := ih (insertAdd al e.1 (frac * e.2))
    have h2 : (insertAdd al e.1 (frac * e.2)).length ≤ al.length + 1 := by
      by_cases h : ∀ x ∈ al, x.1 ≠ e.1
      · rw [insertAdd_miss al _ _ h]; simp
      · have := congrArg List.length (keys_insertAdd_hit al e.1 (frac * e.2) h)
        simp at this; omega
    omega

theorem assocOf_nodup (frac : α) (es al : List (Nat × α)) (hn : (al.map (·.1)).Nodup) :
    ((assocOf frac es al).map (·.1)).Nodup := by
  unfold assocOf
  induction es generalizing al with
  | nil => exact hn
  | cons e es ih => exact ih _ (nodup_keys_insertAdd al _ _ hn)

theorem assocOf_mem_keys (frac : α) (es al : List (Nat × α)) (q : Nat) :
    q ∈ (assocOf frac es al).map (·.1) ↔ q ∈ al.map (·.1) ∨ q ∈ es.map (·.1) := by
  unfold assocOf
  induction es generalizing al with
  | nil => simp
  | cons e es ih =>
    simp only [List.foldl_cons, ih, mem_keys_insertAdd, List.map_cons, List.mem_cons]
    tauto

theorem assocOf_lookupSum (frac : α) (es al : List (Nat × α)) (q : Nat) :
    lookupSum (assocOf frac es al) q
      = lookupSum al q + ((es.filter fun e => e.1 == q).map fun e => frac * e.2).sum := by
  unfold assocOf
  induction es generalizing al with
  | nil => simp
  | cons e es ih =>
    simp only [List.foldl_cons, ih, lookupSum_insertAdd, List.filter_cons]
    by_cases hq : q = e.1
    · subst hq; simp; ring
    · have : (e.1 == q) = false := by simp; exact fun h => hq h.symm
      simp [hq, this]

end unique
end Model
