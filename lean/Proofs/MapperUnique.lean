/-
Proofs/MapperUnique.lean — `data_slim_to_pixelization_unique_from`: the array-based loop refines an
association-list algorithm (insert a new source pixel at the end, or add to its existing slot), whose
rows denote the same dense row as `mapping_matrix_from`.  (Property C06, clause e.)
-/
import Model.Mapper
import Proofs.Mapper

namespace Model

open Impl

section unique
variable {α : Type} [Field α]

/-! ### association-list semantics -/

/-- add `v` to the slot of key `p`, or append a new slot -/
def insertAdd : List (Nat × α) → Nat → α → List (Nat × α)
  | [], p, v => [(p, v)]
  | (k, x) :: t, p, v => if k = p then (k, x + v) :: t else (k, x) :: insertAdd t p v

/-- position of key `p` in a key list (counted from `off`), or -1: what `pix_check[p]` holds -/
def posOf : List Nat → Nat → Nat → Int
  | [], _, _ => -1
  | k :: t, p, off => if k = p then (off : Int) else posOf t p (off + 1)

/-- sum of the values stored under key `p` -/
def lookupSum (al : List (Nat × α)) (p : Nat) : α :=
  ((al.filter fun e => e.1 == p).map (·.2)).sum

theorem posOf_range (ks : List Nat) (p off : Nat) :
    posOf ks p off = -1 ∨ ((off : Int) ≤ posOf ks p off ∧ posOf ks p off < off + ks.length) := by
  induction ks generalizing off with
  | nil => left; rfl
  | cons k t ih =>
    unfold posOf
    by_cases hk : k = p
    · right; simp [hk]
    · simp only [hk, if_false]
      rcases ih (off + 1) with h | h
      · left; exact h
      · right
        simp only [List.length_cons]
        push_cast at h ⊢
        omega

theorem posOf_shift (ks : List Nat) (p off : Nat) :
    posOf ks p off = if posOf ks p 0 = -1 then -1 else posOf ks p 0 + off := by
  induction ks generalizing off with
  | nil => simp [posOf]
  | cons k t ih =>
    unfold posOf
    by_cases hk : k = p
    · simp [hk]
    · simp only [hk, if_false]
      rw [ih (off + 1), ih (0 + 1)]
      by_cases h1 : posOf t p 0 = -1
      · simp [h1]
      · have hr := posOf_range t p 0
        rcases hr with h | h
        · exact absurd h h1
        · have h2 : ¬ (posOf t p 0 + ((0 + 1 : Nat) : Int) = -1) := by push_cast; omega
          simp only [h1, if_false, h2]
          push_cast
          omega

theorem posOf_miss_iff (ks : List Nat) (p off : Nat) :
    posOf ks p off = -1 ↔ ∀ k ∈ ks, k ≠ p := by
  induction ks generalizing off with
  | nil => simp [posOf]
  | cons k t ih =>
    unfold posOf
    by_cases hk : k = p
    · simp [hk]
    · simp [hk, ih (off + 1)]

theorem posOf_append_singleton (ks : List Nat) (p q off : Nat) :
    posOf (ks ++ [p]) q off
      = if posOf ks q off = -1 then (if p = q then ((off + ks.length : Nat) : Int) else -1)
        else posOf ks q off := by
  induction ks generalizing off with
  | nil => simp [posOf]
  | cons k t ih =>
    simp only [List.cons_append, posOf]
    by_cases hk : k = q
    · simp [hk]
    · simp only [hk, if_false, ih (off + 1), List.length_cons]
      have : off + 1 + t.length = off + (t.length + 1) := by omega
      rw [this]

/-- on a miss the new slot goes to the end -/
theorem insertAdd_miss (al : List (Nat × α)) (p : Nat) (v : α) (h : ∀ e ∈ al, e.1 ≠ p) :
    insertAdd al p v = al ++ [(p, v)] := by
  induction al with
  | nil => rfl
  | cons a t ih =>
    obtain ⟨k, x⟩ := a
    have hk : k ≠ p := h (k, x) List.mem_cons_self
    have ht : ∀ e ∈ t, e.1 ≠ p := fun e he => h e (List.mem_cons_of_mem _ he)
    simp [insertAdd, hk, ih ht]

/-- on a hit at position `j` only the value at `j` changes -/
theorem insertAdd_hit (al : List (Nat × α)) (p : Nat) (v : α) (j : Nat)
    (h : posOf (al.map (·.1)) p 0 = (j : Int)) :
    j < al.length ∧ (al.getD j (0, 0)).1 = p ∧
      insertAdd al p v = al.set j (p, (al.getD j (0, 0)).2 + v) := by
  induction al generalizing j with
  | nil => simp [posOf] at h
  | cons a t ih =>
    obtain ⟨k, x⟩ := a
    simp only [List.map_cons, posOf] at h
    by_cases hk : k = p
    · simp only [hk, if_true] at h
      have : j = 0 := by omega
      subst this
      subst hk
      simp [insertAdd]
    · simp only [hk, if_false] at h
      rw [posOf_shift] at h
      by_cases h1 : posOf (t.map (·.1)) p 0 = -1
      · simp [h1] at h
      · simp only [h1, if_false] at h
        have hr := posOf_range (t.map (·.1)) p 0
        rcases hr with h2 | h2
        · exact absurd h2 h1
        · obtain ⟨j', hj'⟩ : ∃ j' : Nat, posOf (t.map (·.1)) p 0 = (j' : Int) :=
            ⟨(posOf (t.map (·.1)) p 0).toNat, by omega⟩
          have hj : j = j' + 1 := by
            rw [hj'] at h; push_cast at h; omega
          subst hj
          obtain ⟨a1, a2, a3⟩ := ih j' hj'
          refine ⟨by simpa using a1, by simpa using a2, ?_⟩
          simp only [insertAdd, hk, if_false, List.set_cons_succ, a3]
          simp

theorem keys_insertAdd_hit (al : List (Nat × α)) (p : Nat) (v : α) (h : ¬ ∀ e ∈ al, e.1 ≠ p) :
    (insertAdd al p v).map (·.1) = al.map (·.1) := by
  induction al with
  | nil => simp at h
  | cons a t ih =>
    obtain ⟨k, x⟩ := a
    by_cases hk : k = p
    · simp [insertAdd, hk]
    · have : ¬ ∀ e ∈ t, e.1 ≠ p := by
        intro ht
        apply h
        intro e he
        rcases List.mem_cons.mp he with rfl | he
        · exact hk
        · exact ht e he
      simp [insertAdd, hk, ih this]

theorem mem_keys_insertAdd (al : List (Nat × α)) (p : Nat) (v : α) (q : Nat) :
    q ∈ (insertAdd al p v).map (·.1) ↔ q ∈ al.map (·.1) ∨ q = p := by
  by_cases h : ∀ e ∈ al, e.1 ≠ p
  · rw [insertAdd_miss al p v h]; simp
  · rw [keys_insertAdd_hit al p v h]
    constructor
    · exact Or.inl
    · rintro (h1 | h1)
      · exact h1
      · subst h1
        push Not at h
        obtain ⟨e, he, rfl⟩ := h
        exact List.mem_map_of_mem he

theorem nodup_keys_insertAdd (al : List (Nat × α)) (p : Nat) (v : α) (hn : (al.map (·.1)).Nodup) :
    ((insertAdd al p v).map (·.1)).Nodup := by
  by_cases h : ∀ e ∈ al, e.1 ≠ p
  · rw [insertAdd_miss al p v h, List.map_append, List.nodup_append]
    refine ⟨hn, by simp, ?_⟩
    intro a ha b hb
    simp only [List.map_cons, List.map_nil, List.mem_singleton] at hb
    subst hb
    obtain ⟨e, he, rfl⟩ := List.mem_map.mp ha
    exact h e he
  · rw [keys_insertAdd_hit al p v h]; exact hn

theorem lookupSum_insertAdd (al : List (Nat × α)) (p : Nat) (v : α) (q : Nat) :
    lookupSum (insertAdd al p v) q = lookupSum al q + if q = p then v else 0 := by
  unfold lookupSum
  induction al with
  | nil =>
    by_cases hq : q = p
    · subst hq; simp [insertAdd]
    · have : (p == q) = false := by simp; exact fun h => hq h.symm
      simp [insertAdd, hq, this]
  | cons a t ih =>
    obtain ⟨k, x⟩ := a
    by_cases hk : k = p
    · subst hk
      by_cases hq : q = k
      · subst hq; simp [insertAdd]; ring
      · have : (k == q) = false := by simp; exact fun h => hq h.symm
        simp [insertAdd, hq, this]
    · by_cases hq : k = q
      · subst hq
        simp only [insertAdd, hk, if_false, List.filter_cons, beq_self_eq_true, if_true,
          List.map_cons, List.sum_cons, ih]
        ring
      · have : (k == q) = false := by simpa using hq
        simp only [insertAdd, hk, if_false, List.filter_cons, this, Bool.false_eq_true, ih]

/-- the association list built from a list of (source pixel, weight) mappings -/
def assocOf (frac : α) (es : List (Nat × α)) (al : List (Nat × α)) : List (Nat × α) :=
  es.foldl (fun al e => insertAdd al e.1 (frac * e.2)) al

theorem assocOf_length_le (frac : α) (es al : List (Nat × α)) :
    (assocOf frac es al).length ≤ al.length + es.length := by
  unfold assocOf
  induction es generalizing al with
  | nil => simp
  | cons e es ih =>
    simp only [List.foldl_cons, List.length_cons]
    have h1 := ih (insertAdd al e.1 (frac * e.2))
    have h2 : (insertAdd al e.1 (frac * e.2)).length ≤ al.length + 1 := by
      by_cases h : ∀ x ∈ al, x.1 ≠ e.1
      · rw [insertAdd_miss al _ _ h]; simp
      · have := congrArg List.length (keys_insertAdd_hit al e.1 (frac * e.2) h)
        simp at this; omega
    omega

theorem assocOf_nodup (frac : α) (es al : List (Nat × α)) (hn : (al.map (·.1)).Nodup) :
    ((assocOf frac es al).map (·.1)).Nodup := by
  unfold assocOf
  induction es generalizing al with
  | nil => exact hn
  | cons e es ih => exact ih _ (nodup_keys_insertAdd al _ _ hn)

theorem assocOf_mem_keys (frac : α) (es al : List (Nat × α)) (q : Nat) :
    q ∈ (assocOf frac es al).map (·.1) ↔ q ∈ al.map (·.1) ∨ q ∈ es.map (·.1) := by
  unfold assocOf
  induction es generalizing al with
  | nil => simp
  | cons e es ih =>
    simp only [List.foldl_cons, ih, mem_keys_insertAdd, List.map_cons, List.mem_cons]
    tauto

theorem assocOf_lookupSum (frac : α) (es al : List (Nat × α)) (q : Nat) :
    lookupSum (assocOf frac es al) q
      = lookupSum al q + ((es.filter fun e => e.1 == q).map fun e => frac * e.2).sum := by
  unfold assocOf
  induction es generalizing al with
  | nil => simp
  | cons e es ih =>
    simp only [List.foldl_cons, ih, lookupSum_insertAdd, List.filter_cons]
    by_cases hq : q = e.1
    · subst hq; simp; ring
    · have : (e.1 == q) = false := by simp; exact fun h => hq h.symm
      simp [hq, this]

/-! ### the array state represents the association list -/

/-- `st` (arrays of the Python loop) represents `al`: keys/values in the first `len` slots, padding
    after, `pix_check[p]` = slot of `p` or -1. -/
structure Rep (P width : Nat) (st : UniqueState α) (al : List (Nat × α)) : Prop where
  size : st.pixSize = al.length
  le : al.length ≤ width
  d2p : st.d2p = (al.map (·.1)).map Int.ofNat ++ List.replicate (width - al.length) (-1)
  dw : st.dw = al.map (·.2) ++ List.replicate (width - al.length) 0
  chkLen : st.pixCheck.length = P
  chk : ∀ p < P, st.pixCheck.getD p (-1) = posOf (al.map (·.1)) p 0

theorem rep_init (P width : Nat) :
    Rep (α := α) P width
      { pixCheck := List.replicate P (-1), pixSize := 0,
        d2p := List.replicate width (-1), dw := List.replicate width 0 } [] := by
  refine ⟨rfl, by simp, by simp, by simp, by simp, ?_⟩
  intro p hp
  simp [posOf, List.getD_eq_getElem?_getD, hp]

theorem rep_step {P width : Nat} {st : UniqueState α} {al : List (Nat × α)} (frac : α)
    (h : Rep P width st al) (p : Nat) (w : α) (hp : p < P) (hroom : al.length < width) :
    Rep P width (uniqueStep frac st p w) (insertAdd al p (frac * w)) := by
  have hchk := h.chk p hp
  unfold uniqueStep
  simp only [hchk]
  rcases posOf_range (al.map (·.1)) p 0 with hm | ⟨h0, h1⟩
  · -- miss: new slot at the end
    have hneg : ¬ (0 : Int) ≤ posOf (al.map (·.1)) p 0 := by rw [hm]; omega
    simp only [hneg, if_false]
    have hmiss : ∀ e ∈ al, e.1 ≠ p := by
      have := (posOf_miss_iff (al.map (·.1)) p 0).mp hm
      intro e he
      exact this e.1 (List.mem_map_of_mem he)
    rw [insertAdd_miss al p _ hmiss]
    obtain ⟨k, hk⟩ : ∃ k, width - al.length = k + 1 := ⟨width - al.length - 1, by omega⟩
    have hk' : width - (al.length + 1) = k := by omega
    have hlen1 : ((al.map (·.1)).map Int.ofNat).length = al.length := by simp
    have hlen2 : (al.map (·.2)).length = al.length := by simp
    refine ⟨by simp [h.size], by simp; omega, ?_, ?_, by simp [h.chkLen], ?_⟩
    · rw [h.size, h.d2p, hk, List.set_append_right _ _ (by rw [hlen1]), hlen1, Nat.sub_self]
      simp [hk', List.replicate_succ]
    · unfold addAt
      rw [h.size, h.dw, hk, List.set_append_right _ _ (by rw [hlen2]), hlen2, Nat.sub_self]
      have : (al.map (·.2) ++ List.replicate (k + 1) (0 : α)).getD al.length 0 = 0 := by
        rw [List.getD_eq_getElem?_getD, List.getElem?_append_right (by rw [hlen2])]
        simp [hlen2]
      rw [this]
      simp [hk', List.replicate_succ]
    · intro q hq
      rw [List.map_append]
      simp only [List.map_cons, List.map_nil]
      rw [posOf_append_singleton]
      show (st.pixCheck.set p (Int.ofNat st.pixSize)).getD q (-1) = _
      by_cases hqp : q = p
      · subst hqp
        simp only [hm, if_true]
        rw [List.getD_eq_getElem?_getD, List.getElem?_set_self (by rw [h.chkLen]; exact hq)]
        simp [h.size]
      · have hne : p ≠ q := fun hh => hqp hh.symm
        rw [List.getD_eq_getElem?_getD, List.getElem?_set_ne hne, ← List.getD_eq_getElem?_getD,
          h.chk q hq]
        simp only [hne, if_false]
        split
        · next hh => exact hh
        · rfl
  · -- hit: add to the existing slot
    have hpos : (0 : Int) ≤ posOf (al.map (·.1)) p 0 := by simpa using h0
    simp only [hpos, if_true]
    obtain ⟨j, hj⟩ : ∃ j : Nat, posOf (al.map (·.1)) p 0 = (j : Int) :=
      ⟨(posOf (al.map (·.1)) p 0).toNat, by omega⟩
    obtain ⟨hjl, hjk, hins⟩ := insertAdd_hit al p (frac * w) j hj
    have hnm : ¬ ∀ e ∈ al, e.1 ≠ p := by
      intro hall
      have := (posOf_miss_iff (al.map (·.1)) p 0).mpr (by
        intro k hk
        obtain ⟨e, he, rfl⟩ := List.mem_map.mp hk
        exact hall e he)
      omega
    have hkeys := keys_insertAdd_hit al p (frac * w) hnm
    have hlen : (insertAdd al p (frac * w)).length = al.length := by
      have := congrArg List.length hkeys
      simpa using this
    have hlen2 : (al.map (·.2)).length = al.length := by simp
    refine ⟨by rw [hlen]; exact h.size, by rw [hlen]; exact h.le, ?_, ?_, h.chkLen, ?_⟩
    · rw [hkeys, hlen]; exact h.d2p
    · show addAt st.dw (posOf (al.map (·.1)) p 0).toNat (frac * w) = _
      rw [hj, Int.toNat_natCast, hlen, hins, List.map_set]
      unfold addAt
      rw [h.dw, List.set_append_left _ _ (by rw [hlen2]; exact hjl)]
      congr 2
      rw [List.getD_eq_getElem?_getD, List.getElem?_append_left (by rw [hlen2]; exact hjl)]
      simp [List.getD_eq_getElem?_getD, hjl]
    · intro q hq
      rw [hkeys]; exact h.chk q hq

/-- the inner loops of one data pixel, on a flat list of mappings -/
theorem rep_fold {P width : Nat} (frac : α) (es : List (Nat × α)) {st : UniqueState α}
    {al : List (Nat × α)} (h : Rep P width st al) (hes : ∀ e ∈ es, e.1 < P)
    (hroom : al.length + es.length ≤ width) :
    Rep P width (es.foldl (fun st e => uniqueStep frac st e.1 e.2) st) (assocOf frac es al) := by
  unfold assocOf
  induction es generalizing st al with
  | nil => exact h
  | cons e es ih =>
    simp only [List.foldl_cons]
    have hstep := rep_step frac h e.1 e.2 (hes e List.mem_cons_self)
      (by simp only [List.length_cons] at hroom; omega)
    apply ih hstep (fun e' he' => hes e' (List.mem_cons_of_mem _ he'))
    have : (insertAdd al e.1 (frac * e.2)).length ≤ al.length + 1 := by
      have := assocOf_length_le frac [e] al
      simpa [assocOf] using this
    simp only [List.length_cons] at hroom
    omega

theorem uniqueRow_eq_fold (idx : List (List Int)) (sizes : List Nat) (wts : List (List α))
    (P width : Nat) (frac : α) (start count : Nat) :
    Impl.uniqueRow idx sizes wts P width frac start count
      = (Spec.entries idx sizes wts start count).foldl (fun st e => uniqueStep frac st e.1 e.2)
          { pixCheck := List.replicate P (-1), pixSize := 0,
            d2p := List.replicate width (-1), dw := List.replicate width 0 } := by
  unfold Impl.uniqueRow Spec.entries
  rw [List.foldl_flatMap]
  congr 1
  funext st sub
  rw [List.foldl_map]

/-! ### outer loop over data pixels -/

/-- first sub-pixel of data pixel `ip` -/
def blockStart (subs : List Nat) (ip : Nat) : Nat :=
  ((List.range ip).map fun i => subs.getD i 0 * subs.getD i 0).sum

theorem blockStart_succ (subs : List Nat) (ip : Nat) :
    blockStart subs (ip + 1) = blockStart subs ip + subs.getD ip 0 * subs.getD ip 0 := by
  simp [blockStart, List.range_succ]

/-- row `ip` of the three outputs -/
def rowState (idx : List (List Int)) (sizes : List Nat) (wts : List (List α)) (P : Nat)
    (subs : List Nat) (ip : Nat) : UniqueState α :=
  Impl.uniqueRow idx sizes wts P (maxNat sizes * (maxNat subs * maxNat subs))
    (Impl.subFraction (subs.getD ip 0)) (blockStart subs ip) (subs.getD ip 0 * subs.getD ip 0)

theorem uniqueFrom_rows (n : Nat) (idx : List (List Int)) (sizes : List Nat) (wts : List (List α))
    (P : Nat) (subs : List Nat) :
    Impl.uniqueFrom n idx sizes wts P subs
      = ((List.range n).map fun ip => (rowState idx sizes wts P subs ip).d2p,
         (List.range n).map fun ip => (rowState idx sizes wts P subs ip).dw,
         (List.range n).map fun ip => (rowState idx sizes wts P subs ip).pixSize) := by
  unfold Impl.uniqueFrom
  simp only
  suffices hs : ∀ n, (List.range n).foldl
      (fun (acc : (List (List Int) × List (List α) × List Nat) × Nat) ip =>
        ((acc.1.1 ++ [(Impl.uniqueRow idx sizes wts P (maxNat sizes * (maxNat subs * maxNat subs))
              (Impl.subFraction (subs.getD ip 0)) acc.2 (subs.getD ip 0 * subs.getD ip 0)).d2p],
          acc.1.2.1 ++ [(Impl.uniqueRow idx sizes wts P (maxNat sizes * (maxNat subs * maxNat subs))
              (Impl.subFraction (subs.getD ip 0)) acc.2 (subs.getD ip 0 * subs.getD ip 0)).dw],
          acc.1.2.2 ++ [(Impl.uniqueRow idx sizes wts P (maxNat sizes * (maxNat subs * maxNat subs))
              (Impl.subFraction (subs.getD ip 0)) acc.2 (subs.getD ip 0 * subs.getD ip 0)).pixSize]),
         acc.2 + subs.getD ip 0 * subs.getD ip 0)) (([], [], []), 0)
      = (((List.range n).map fun ip => (rowState idx sizes wts P subs ip).d2p,
          (List.range n).map fun ip => (rowState idx sizes wts P subs ip).dw,
          (List.range n).map fun ip => (rowState idx sizes wts P subs ip).pixSize),
         blockStart subs n) by
    rw [hs n]
  intro n
  induction n with
  | zero => simp [blockStart]
  | succ n ih =>
    rw [List.range_succ, List.foldl_append, ih]
    simp [rowState, blockStart_succ]

/-! ### size of the arrays suffices -/

theorem le_foldl_max (l : List Nat) (a : Nat) : a ≤ l.foldl max a := by
  induction l generalizing a with
  | nil => simp
  | cons x l ih => simp only [List.foldl_cons]; exact le_trans (le_max_left a x) (ih _)

theorem le_maxNat (l : List Nat) (x : Nat) (hx : x ∈ l) : x ≤ maxNat l := by
  unfold maxNat
  generalize (0 : Nat) = a
  induction l generalizing a with
  | nil => simp at hx
  | cons y l ih =>
    simp only [List.foldl_cons]
    rcases List.mem_cons.mp hx with rfl | h
    · exact le_trans (le_max_right a x) (le_foldl_max l _)
    · exact ih h _

theorem getD_le_maxNat (l : List Nat) (i : Nat) : l.getD i 0 ≤ maxNat l := by
  rw [List.getD_eq_getElem?_getD]
  cases h : l[i]? with
  | none => simp
  | some y => simpa using le_maxNat l y (List.mem_of_getElem? h)

theorem entries_length_le (idx : List (List Int)) (sizes : List Nat) (wts : List (List α))
    (start count : Nat) :
    (Spec.entries idx sizes wts start count).length ≤ count * maxNat sizes := by
  unfold Spec.entries
  rw [List.length_flatMap]
  have : ∀ x ∈ (List.range' start count).map
      (fun sub => ((List.range (sizes.getD sub 0)).map fun c =>
        (((idx.getD sub []).getD c 0).toNat, (wts.getD sub []).getD c 0)).length), x ≤ maxNat sizes := by
    intro x hx
    obtain ⟨sub, _, rfl⟩ := List.mem_map.mp hx
    simpa using getD_le_maxNat sizes sub
  have := List.sum_le_card_nsmul _ _ this
  simpa using this

theorem mem_entries (idx : List (List Int)) (sizes : List Nat) (wts : List (List α))
    (start count : Nat) (e : Nat × α) (he : e ∈ Spec.entries idx sizes wts start count) :
    ∃ sub c, start ≤ sub ∧ sub < start + count ∧ c < sizes.getD sub 0 ∧
      e = (((idx.getD sub []).getD c 0).toNat, (wts.getD sub []).getD c 0) := by
  unfold Spec.entries at he
  simp only [List.mem_flatMap, List.mem_map, List.mem_range, List.mem_range'_1] at he
  obtain ⟨sub, ⟨h1, h2⟩, c, hc, rfl⟩ := he
  exact ⟨sub, c, h1, h2, hc, rfl⟩

/-! ### reading the tables back -/

theorem map_getD_range {β : Type} (l : List β) (d : β) :
    (List.range l.length).map (fun k => l.getD k d) = l := by
  apply List.ext_getElem
  · simp
  · intro k h1 h2
    simp [List.getD_eq_getElem?_getD, h2]

theorem denseRow_of_rep {P width : Nat} {st : UniqueState α} {al : List (Nat × α)}
    (h : Rep P width st al) (p : Nat) :
    Spec.denseRowOfUnique st.d2p st.dw st.pixSize p = lookupSum al p := by
  unfold Spec.denseRowOfUnique lookupSum
  rw [sumList_eq_sum, h.size]
  have hread : ∀ k ∈ List.range al.length,
      st.d2p.getD k (-1) = Int.ofNat (al.getD k (0, 0)).1 ∧ st.dw.getD k 0 = (al.getD k (0, 0)).2 := by
    intro k hk
    have hk' : k < al.length := List.mem_range.mp hk
    rw [h.d2p, h.dw]
    constructor
    · rw [List.getD_eq_getElem?_getD, List.getElem?_append_left (by simpa using hk')]
      simp [List.getD_eq_getElem?_getD, hk']
    · rw [List.getD_eq_getElem?_getD, List.getElem?_append_left (by simpa using hk')]
      simp [List.getD_eq_getElem?_getD, hk']
  have h1 : (List.range al.length).filter (fun k => st.d2p.getD k (-1) == Int.ofNat p)
      = (List.range al.length).filter (fun k => (al.getD k (0, 0)).1 == p) := by
    apply List.filter_congr
    intro k hk
    rw [(hread k hk).1]
    simp
  rw [h1]
  have h2 : ((List.range al.length).filter (fun k => (al.getD k (0, 0)).1 == p)).map
        (fun k => st.dw.getD k 0)
      = ((List.range al.length).filter (fun k => (al.getD k (0, 0)).1 == p)).map
        (fun k => (al.getD k (0, 0)).2) := by
    apply List.map_congr_left
    intro k hk
    exact (hread k (List.mem_filter.mp hk).1).2
  rw [h2]
  conv_rhs => rw [← map_getD_range al (0, 0)]
  rw [List.filter_map, List.map_map]
  rfl

theorem keys_of_rep {P width : Nat} {st : UniqueState α} {al : List (Nat × α)}
    (h : Rep P width st al) :
    st.d2p.take st.pixSize = (al.map (·.1)).map Int.ofNat ∧
    st.d2p.drop st.pixSize = List.replicate (width - st.pixSize) (-1) ∧
    st.dw.drop st.pixSize = List.replicate (width - st.pixSize) 0 := by
  rw [h.size, h.d2p, h.dw]
  refine ⟨?_, ?_, ?_⟩
  · rw [List.take_left' (by simp)]
  · rw [List.drop_left' (by simp)]
  · rw [List.drop_left' (by simp)]

/-! ### composite statements used by Props/C06 -/

theorem blockStart_mono (subs : List Nat) {a b : Nat} (h : a ≤ b) :
    blockStart subs a ≤ blockStart subs b := by
  induction b, h using Nat.le_induction with
  | base => exact le_refl _
  | succ b _ ih => rw [blockStart_succ]; omega

theorem slimForSubSlim_length (subs : List Nat) :
    (Spec.slimForSubSlim subs).length = blockStart subs subs.length := by
  rw [slimForSubSlim_spec_eq_blocksOf, blocksOf_length]; rfl

theorem getD_map_range {β : Type} (n : Nat) (f : Nat → β) (d : β) (i : Nat) (hi : i < n) :
    ((List.range n).map f).getD i d = f i := by
  simp [List.getD_eq_getElem?_getD, hi]

/-- the mappings of data pixel `ip`, in loop order -/
def blockEntries (idx : List (List Int)) (sizes : List Nat) (wts : List (List α)) (subs : List Nat)
    (ip : Nat) : List (Nat × α) :=
  Spec.entries idx sizes wts (blockStart subs ip) (subs.getD ip 0 * subs.getD ip 0)

theorem rowState_rep (subs : List Nat) (idx : List (List Int)) (sizes : List Nat)
    (wts : List (List α)) (P : Nat)
    (hidx : ∀ sub < (Spec.slimForSubSlim subs).length, ∀ c < sizes.getD sub 0,
      ((idx.getD sub []).getD c 0).toNat < P)
    (ip : Nat) (hip : ip < subs.length) :
    Rep P (maxNat sizes * (maxNat subs * maxNat subs)) (rowState idx sizes wts P subs ip)
      (assocOf (Impl.subFraction (subs.getD ip 0)) (blockEntries idx sizes wts subs ip) []) := by
  unfold rowState
  rw [uniqueRow_eq_fold]
  apply rep_fold _ _ (rep_init P _)
  · intro e he
    obtain ⟨sub, c, h1, h2, hc, rfl⟩ := mem_entries idx sizes wts _ _ e he
    apply hidx sub _ c hc
    rw [slimForSubSlim_length]
    have := blockStart_mono subs (Nat.succ_le_of_lt hip)
    rw [blockStart_succ] at this
    omega
  · simp only [List.length_nil, Nat.zero_add]
    refine le_trans (entries_length_le idx sizes wts _ _) ?_
    rw [Nat.mul_comm]
    exact Nat.mul_le_mul_left _ (Nat.mul_le_mul (getD_le_maxNat subs ip) (getD_le_maxNat subs ip))

/-- the block of sub-pixels of data pixel `ip` is where the slim table says `ip` -/
theorem filter_slim_eq_block (subs : List Nat) (ip : Nat) (hip : ip < subs.length) :
    (List.range (Spec.slimForSubSlim subs).length).filter
        (fun sub => (Spec.slimForSubSlim subs).getD sub 0 == ip)
      = List.range' (blockStart subs ip) (subs.getD ip 0 * subs.getD ip 0) := by
  rw [slimForSubSlim_spec_eq_blocksOf, blocksOf_filter _ _ _ hip]
  rfl

/-- clause (e), dense part: reading row `ip` of the unique tables the way the w-tilde routines do
    gives exactly row `ip` of `mapping_matrix_from`. -/
theorem unique_dense_eq (subs : List Nat) (idx : List (List Int)) (sizes : List Nat)
    (wts : List (List α)) (P : Nat)
    (hidx : ∀ sub < (Spec.slimForSubSlim subs).length, ∀ c < sizes.getD sub 0,
      ((idx.getD sub []).getD c 0).toNat < P)
    (ip : Nat) (hip : ip < subs.length) (p : Nat) :
    Spec.denseRowOfUnique
        ((Impl.uniqueFrom subs.length idx sizes wts P subs).1.getD ip [])
        ((Impl.uniqueFrom subs.length idx sizes wts P subs).2.1.getD ip [])
        ((Impl.uniqueFrom subs.length idx sizes wts P subs).2.2.getD ip 0) p
      = entry (Impl.mappingMatrix idx sizes wts P subs.length (Spec.slimForSubSlim subs)
          (subs.map Impl.subFraction)) ip p := by
  rw [uniqueFrom_rows]
  simp only [getD_map_range _ _ _ _ hip]
  rw [denseRow_of_rep (rowState_rep subs idx sizes wts P hidx ip hip), assocOf_lookupSum]
  have hslim : ∀ s ∈ Spec.slimForSubSlim subs, s < subs.length := by
    rw [slimForSubSlim_spec_eq_blocksOf]; exact blocksOf_mem_lt _ _
  rw [mappingMatrix_entry idx sizes wts P subs.length _ _ hslim hidx, filter_slim_eq_block subs ip hip]
  simp only [lookupSum, List.filter_nil, List.map_nil, List.sum_nil, zero_add]
  unfold blockEntries Spec.entries
  rw [sum_filter_flatMap]
  congr 1
  apply List.map_congr_left
  intro sub _
  rw [List.filter_map, List.map_map, ← List.sum_map_mul_left]
  have hf : (subs.map Impl.subFraction).getD ip (0 : α) = Impl.subFraction (subs.getD ip 0) := by
    simp [List.getD_eq_getElem?_getD, hip]
  rw [hf]
  rfl

/-- clause (e), key part: the first `pix_lengths[ip]` entries of row `ip` are pairwise distinct,
    are exactly the source pixels data pixel `ip` maps to, and the rest of both rows is padding. -/
theorem unique_keys (subs : List Nat) (idx : List (List Int)) (sizes : List Nat)
    (wts : List (List α)) (P : Nat)
    (hidx : ∀ sub < (Spec.slimForSubSlim subs).length, ∀ c < sizes.getD sub 0,
      ((idx.getD sub []).getD c 0).toNat < P)
    (ip : Nat) (hip : ip < subs.length) :
    ∃ keys : List Nat,
      keys.Nodup ∧
      (∀ q, q ∈ keys ↔ q ∈ (blockEntries idx sizes wts subs ip).map (·.1)) ∧
      (Impl.uniqueFrom subs.length idx sizes wts P subs).2.2.getD ip 0 = keys.length ∧
      ((Impl.uniqueFrom subs.length idx sizes wts P subs).1.getD ip []).take keys.length
        = keys.map Int.ofNat ∧
      (∀ x ∈ ((Impl.uniqueFrom subs.length idx sizes wts P subs).1.getD ip []).drop keys.length,
        x = -1) ∧
      (∀ x ∈ ((Impl.uniqueFrom subs.length idx sizes wts P subs).2.1.getD ip []).drop keys.length,
        x = 0) := by
  rw [uniqueFrom_rows]
  simp only [getD_map_range _ _ _ _ hip]
  have hrep := rowState_rep subs idx sizes wts P hidx ip hip
  set al := assocOf (Impl.subFraction (subs.getD ip 0) : α) (blockEntries idx sizes wts subs ip) []
  obtain ⟨h1, h2, h3⟩ := keys_of_rep hrep
  refine ⟨al.map (·.1), assocOf_nodup _ _ [] (by simp), ?_, by simp [hrep.size], ?_, ?_, ?_⟩
  · intro q
    have := assocOf_mem_keys (Impl.subFraction (subs.getD ip 0) : α)
      (blockEntries idx sizes wts subs ip) [] q
    rw [this]
    simp
  · rw [hrep.size] at h1; simpa using h1
  · intro x hx
    rw [hrep.size] at h2
    simp only [List.length_map] at hx
    rw [h2] at hx
    exact (List.mem_replicate.mp hx).2
  · intro x hx
    rw [hrep.size] at h3
    simp only [List.length_map] at hx
    rw [h3] at hx
    exact (List.mem_replicate.mp hx).2

end unique
end Model
