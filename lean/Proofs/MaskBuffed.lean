/-
Proofs/MaskBuffed.lean — refinement `Impl.buffedBits = Spec.buffedBits` for the buffed mask
(`mask_2d_util.buffed_mask_2d_from`, Model/MaskBuffed.lean), all masks, all sizes, every `buffer : Int`.
Core Lean only.
-/
import Model.MaskBuffed
import Proofs.Core

namespace Model

open Impl

theorem buff_mem_intRange {lo hi z : Int} : z ∈ intRange lo hi ↔ lo ≤ z ∧ z < hi := by
  unfold intRange
  simp only [List.mem_map, List.mem_range]
  constructor
  · rintro ⟨i, hi', rfl⟩; omega
  · intro ⟨h1, h2⟩; exact ⟨(z - lo).toNat, by omega, by omega⟩

theorem buffStep_length (m : Mask) (y0 x0 : Int) (b : List Bool) :
    (buffStep m y0 x0 b).length = b.length := by
  unfold buffStep; split <;> simp

/-- one store of the innermost loop, read back at a pixel of the frame -/
theorem buffStep_getD (m : Mask) (y0 x0 : Int) (b : List Bool) (hb : b.length = m.h * m.w)
    (q : Nat × Nat) (hq : q.1 < m.h ∧ q.2 < m.w) :
    (buffStep m y0 x0 b).getD (q.1 * m.w + q.2) true = true
      ↔ b.getD (q.1 * m.w + q.2) true = true ∧ ¬ (y0 = (q.1 : Int) ∧ x0 = (q.2 : Int)) := by
  obtain ⟨hq1, hq2⟩ := hq
  have hlt : q.1 * m.w + q.2 < b.length := by
    rw [hb]; exact flat_lt (p := q) (mem_pixels.mpr ⟨hq1, hq2⟩)
  unfold buffStep
  split
  · rename_i hc
    obtain ⟨c1, c2, c3, c4⟩ := hc
    have hx : x0.toNat < m.w := by omega
    by_cases he : y0.toNat * m.w + x0.toNat = q.1 * m.w + q.2
    · have hpq : (y0.toNat, x0.toNat) = q := flat_injOn (p := (y0.toNat, x0.toNat)) hx hq2 he
      have h1 : y0.toNat = q.1 := congrArg Prod.fst hpq
      have h2 : x0.toNat = q.2 := congrArg Prod.snd hpq
      have e1 : y0 = (q.1 : Int) := by omega
      have e2 : x0 = (q.2 : Int) := by omega
      rw [he]
      simp [List.getD_eq_getElem?_getD, hlt, e1, e2]
    · have hne : ¬ (y0 = (q.1 : Int) ∧ x0 = (q.2 : Int)) := by
        rintro ⟨e1, e2⟩
        apply he
        rw [e1, e2]; simp
      simp [List.getD_eq_getElem?_getD, he, hne]
  · rename_i hc
    constructor
    · intro h; exact ⟨h, by omega⟩
    · intro h; exact h.1

/-- GENERIC: a loop whose every step only clears, at the pixels `q` of the frame, the entries with `H i q`,
    clears exactly the entries with `∃ i ∈ l, H i q`. -/
theorem buff_fold {ι : Type} (n : Nat) (idx : Nat × Nat → Nat) (F : Nat × Nat → Prop)
    (G : ι → List Bool → List Bool) (H : ι → Nat × Nat → Prop)
    (hG : ∀ i b, b.length = n → (G i b).length = n ∧ ∀ q, F q →
      ((G i b).getD (idx q) true = true ↔ b.getD (idx q) true = true ∧ ¬ H i q))
    (l : List ι) (b : List Bool) (hb : b.length = n) :
    (l.foldl (fun acc i => G i acc) b).length = n ∧ ∀ q, F q →
      ((l.foldl (fun acc i => G i acc) b).getD (idx q) true = true
        ↔ b.getD (idx q) true = true ∧ ¬ ∃ i, i ∈ l ∧ H i q) := by
  induction l generalizing b with
  | nil => simp [hb]
  | cons a l ih =>
    simp only [List.foldl_cons]
    obtain ⟨h1, h2⟩ := hG a b hb
    obtain ⟨h3, h4⟩ := ih (G a b) h1
    refine ⟨h3, fun q hq => ?_⟩
    rw [h4 q hq, h2 q hq]
    constructor
    · rintro ⟨⟨ha, hna⟩, hnl⟩
      refine ⟨ha, ?_⟩
      rintro ⟨i, hi, hH⟩
      rcases List.mem_cons.mp hi with rfl | hi
      · exact hna hH
      · exact hnl ⟨i, hi, hH⟩
    · rintro ⟨ha, hn⟩
      exact ⟨⟨ha, fun hH => hn ⟨a, by simp, hH⟩⟩, fun ⟨i, hi, hH⟩ => hn ⟨i, by simp [hi], hH⟩⟩

/-- the window scan of one unmasked pixel `p`: clears exactly the frame pixels of the window -/
theorem buffWindow_spec (m : Mask) (buffer : Int) (p : Nat × Nat) (b : List Bool)
    (hb : b.length = m.h * m.w) :
    let b' := (intRange ((p.1 : Int) - buffer) ((p.1 : Int) + 1 + buffer)).foldl
      (fun acc y0 => (intRange ((p.2 : Int) - buffer) ((p.2 : Int) + 1 + buffer)).foldl
        (fun acc x0 => buffStep m y0 x0 acc) acc) b
    b'.length = m.h * m.w ∧ ∀ q : Nat × Nat, q.1 < m.h ∧ q.2 < m.w →
      (b'.getD (q.1 * m.w + q.2) true = true
        ↔ b.getD (q.1 * m.w + q.2) true = true ∧ ¬ (Spec.inWindow buffer p q = true)) := by
  intro b'
  have hrow : ∀ (y0 : Int) (b : List Bool), b.length = m.h * m.w →
      ((intRange ((p.2 : Int) - buffer) ((p.2 : Int) + 1 + buffer)).foldl
          (fun acc x0 => buffStep m y0 x0 acc) b).length = m.h * m.w ∧
      ∀ q : Nat × Nat, q.1 < m.h ∧ q.2 < m.w →
        (((intRange ((p.2 : Int) - buffer) ((p.2 : Int) + 1 + buffer)).foldl
          (fun acc x0 => buffStep m y0 x0 acc) b).getD (q.1 * m.w + q.2) true = true
          ↔ b.getD (q.1 * m.w + q.2) true = true ∧
            ¬ ∃ x0, x0 ∈ intRange ((p.2 : Int) - buffer) ((p.2 : Int) + 1 + buffer)
                ∧ (y0 = (q.1 : Int) ∧ x0 = (q.2 : Int))) := by
    intro y0 b hb
    exact buff_fold (m.h * m.w) (fun q => q.1 * m.w + q.2) (fun q => q.1 < m.h ∧ q.2 < m.w)
      (fun x0 acc => buffStep m y0 x0 acc) (fun x0 q => y0 = (q.1 : Int) ∧ x0 = (q.2 : Int))
      (fun x0 b hb => ⟨by rw [buffStep_length, hb], fun q hq => buffStep_getD m y0 x0 b hb q hq⟩)
      _ b hb
  have hall := buff_fold (m.h * m.w) (fun q => q.1 * m.w + q.2) (fun q => q.1 < m.h ∧ q.2 < m.w)
      (fun y0 acc => (intRange ((p.2 : Int) - buffer) ((p.2 : Int) + 1 + buffer)).foldl
        (fun acc x0 => buffStep m y0 x0 acc) acc)
      (fun y0 q => ∃ x0, x0 ∈ intRange ((p.2 : Int) - buffer) ((p.2 : Int) + 1 + buffer)
                ∧ (y0 = (q.1 : Int) ∧ x0 = (q.2 : Int)))
      (fun y0 b hb => hrow y0 b hb)
      (intRange ((p.1 : Int) - buffer) ((p.1 : Int) + 1 + buffer)) b hb
  refine ⟨hall.1, fun q hq => ?_⟩
  rw [show b' = _ from rfl, hall.2 q hq]
  have hw : (∃ y0, y0 ∈ intRange ((p.1 : Int) - buffer) ((p.1 : Int) + 1 + buffer) ∧
      ∃ x0, x0 ∈ intRange ((p.2 : Int) - buffer) ((p.2 : Int) + 1 + buffer)
        ∧ (y0 = (q.1 : Int) ∧ x0 = (q.2 : Int))) ↔ Spec.inWindow buffer p q = true := by
    simp only [Spec.inWindow, Bool.and_eq_true, decide_eq_true_eq, buff_mem_intRange]
    constructor
    · rintro ⟨y0, ⟨a1, a2⟩, x0, ⟨a3, a4⟩, rfl, rfl⟩
      exact ⟨⟨⟨a1, a2⟩, a3⟩, a4⟩
    · rintro ⟨⟨⟨a1, a2⟩, a3⟩, a4⟩
      exact ⟨(q.1 : Int), ⟨a1, a2⟩, (q.2 : Int), ⟨a3, a4⟩, rfl, rfl⟩
  rw [hw]

/-- REFINEMENT: the loops of `buffed_mask_2d_from` compute the set characterisation -/
theorem buffedBits_eq (m : Mask) (wf : m.WF) (buffer : Int) :
    Impl.buffedBits m buffer = Spec.buffedBits m buffer := by
  unfold Impl.buffedBits
  rw [forYX_eq_foldl]
  have hall := buff_fold (m.h * m.w) (fun q => q.1 * m.w + q.2) (fun q => q.1 < m.h ∧ q.2 < m.w)
      (fun (p : Nat × Nat) acc =>
        if !m.get p.1 p.2 then
          (intRange ((p.1 : Int) - buffer) ((p.1 : Int) + 1 + buffer)).foldl
            (fun acc y0 => (intRange ((p.2 : Int) - buffer) ((p.2 : Int) + 1 + buffer)).foldl
              (fun acc x0 => buffStep m y0 x0 acc) acc) acc
        else acc)
      (fun p q => (!m.get p.1 p.2 && Spec.inWindow buffer p q) = true)
      (by
        intro p b hb
        cases hc : m.get p.1 p.2
        · simp only [Bool.not_false, if_true, Bool.true_and]
          exact buffWindow_spec m buffer p b hb
        · simp [hb])
      (pixels m.h m.w) m.bits wf
  obtain ⟨hlen, hget⟩ := hall
  apply List.ext_getElem
  · rw [hlen]; simp [Spec.buffedBits, pixels_length]
  · intro k h1 h2
    have hk : k < (pixels m.h m.w).length := by simpa [Spec.buffedBits] using h2
    have hq := mem_pixels.mp (List.getElem_mem hk)
    have hflat : ((pixels m.h m.w)[k]).1 * m.w + ((pixels m.h m.w)[k]).2 = k := pixels_getElem m.h m.w k hk
    have := hget ((pixels m.h m.w)[k]) hq
    simp only [hflat] at this
    have e1 : ∀ (l : List Bool) (h : k < l.length), l[k] = l.getD k true := by
      intro l h; simp [List.getD_eq_getElem?_getD, h]
    rw [e1]
    simp only [Spec.buffedBits, List.getElem_map]
    rw [Bool.eq_iff_iff, this]
    simp only [Bool.and_eq_true, Bool.not_eq_true', Spec.nearUnmasked, Mask.get, hflat]
    rw [← Bool.not_eq_true, List.any_eq_true]
    simp only [Bool.and_eq_true, Bool.not_eq_true']

/-- for a non-negative buffer: a frame pixel is UNMASKED in the buffed mask iff some unmasked pixel of the
    input lies within the buffer window around it -/
theorem buffed_unmasked_iff (m : Mask) (buffer : Int) (hbuf : 0 ≤ buffer) (q : Nat × Nat)
    (hq : q ∈ pixels m.h m.w) :
    (m.get q.1 q.2 && !Spec.nearUnmasked m buffer q) = false ↔ Spec.nearUnmasked m buffer q = true := by
  cases hn : Spec.nearUnmasked m buffer q
  · cases hg : m.get q.1 q.2
    · exfalso
      have : Spec.nearUnmasked m buffer q = true := by
        unfold Spec.nearUnmasked
        rw [List.any_eq_true]
        refine ⟨q, hq, ?_⟩
        simp only [hg, Bool.not_false, Bool.true_and, Spec.inWindow, Bool.and_eq_true, decide_eq_true_eq]
        omega
      rw [hn] at this
      exact Bool.false_ne_true this
    · simp
  · simp

end Model
