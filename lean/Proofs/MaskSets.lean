/-
Proofs/MaskSets.lean — refinement lemmas for Model/MaskSets.lean (property C10; part (a) is reused by
C03.e).  Core Lean only.
-/
import Model.MaskSets
import Proofs.Core
import Proofs.Slim

namespace Model

open Impl

/-! ### integer ranges -/

theorem mem_intRange {lo hi z : Int} : z ∈ intRange lo hi ↔ lo ≤ z ∧ z < hi := by
  unfold intRange
  simp only [List.mem_map, List.mem_range]
  constructor
  · rintro ⟨i, hi', rfl⟩; omega
  · rintro ⟨h1, h2⟩
    exact ⟨(z - lo).toNat, by omega, by omega⟩

/-! ### the abort-or-clear fold of `blurring_mask_2d_from` -/

section BlurFold
variable {ε : Type} (valid : ε → Bool) (cond : ε → Bool) (tgt : ε → Nat)

/-- abstract form of `blurStep` -/
def clearStep (acc : Option (List Bool)) (e : ε) : Option (List Bool) :=
  match acc with
  | none => none
  | some b => if valid e then (if cond e then some (b.set (tgt e) false) else some b) else none

theorem clearStep_none (l : List ε) : l.foldl (clearStep valid cond tgt) none = none := by
  induction l with
  | nil => rfl
  | cons a l ih => simpa [clearStep] using ih

theorem clearFold_invalid (l : List ε) (b : List Bool) (h : ∃ e ∈ l, valid e = false) :
    l.foldl (clearStep valid cond tgt) (some b) = none := by
  induction l generalizing b with
  | nil => simp at h
  | cons a l ih =>
    simp only [List.foldl_cons]
    by_cases ha : valid a = true
    · have hl : ∃ e ∈ l, valid e = false := by
        obtain ⟨e, he, hv⟩ := h
        rcases List.mem_cons.mp he with rfl | he'
        · rw [ha] at hv; exact Bool.noConfusion hv
        · exact ⟨e, he', hv⟩
      simp only [clearStep, ha, if_true]
      split
      · exact ih _ hl
      · exact ih _ hl
    · simp only [clearStep, ha]
      exact clearStep_none valid cond tgt l

theorem clearFold_valid (l : List ε) (b : List Bool) (h : ∀ e ∈ l, valid e = true) :
    ∃ b', l.foldl (clearStep valid cond tgt) (some b) = some b' ∧ b'.length = b.length
      ∧ ∀ j, j < b.length →
          b'.getD j true = (b.getD j true && !(l.any fun e => cond e && tgt e == j)) := by
  induction l generalizing b with
  | nil => exact ⟨b, rfl, rfl, by simp⟩
  | cons a l ih =>
    have ha : valid a = true := h a (List.mem_cons_self ..)
    have hl : ∀ e ∈ l, valid e = true := fun e he => h e (List.mem_cons_of_mem _ he)
    simp only [List.foldl_cons, clearStep, ha, if_true]
    by_cases hc : cond a = true
    · simp only [hc, if_true]
      obtain ⟨b', h1, h2, h3⟩ := ih (b.set (tgt a) false) hl
      refine ⟨b', h1, by simpa using h2, ?_⟩
      intro j hj
      rw [h3 j (by simpa using hj)]
      simp only [List.any_cons, hc, Bool.true_and]
      by_cases hj' : tgt a = j
      · subst hj'
        simp [List.getD_eq_getElem?_getD, List.getElem?_set_self hj]
      · have : (tgt a == j) = false := by simpa using hj'
        simp [List.getD_eq_getElem?_getD, List.getElem?_set_ne hj', this]
    · have hc' : cond a = false := by simpa using hc
      simp only [hc', Bool.false_eq_true, if_false]
      obtain ⟨b', h1, h2, h3⟩ := ih b hl
      refine ⟨b', h1, h2, ?_⟩
      intro j hj
      rw [h3 j hj]
      simp [List.any_cons, hc']

end BlurFold

/-! ### `blurring_mask_2d_from` as a fold over (source pixel, offset) events -/

abbrev BlurEvent := (Nat × Nat) × Int × Int

def bvalid (m : Mask) (e : BlurEvent) : Bool :=
  decide (0 ≤ (e.1.2 : Int) + e.2.2 ∧ (e.1.2 : Int) + e.2.2 ≤ (m.w : Int) - 1
    ∧ 0 ≤ (e.1.1 : Int) + e.2.1 ∧ (e.1.1 : Int) + e.2.1 ≤ (m.h : Int) - 1)

def bcond (m : Mask) (e : BlurEvent) : Bool :=
  m.get ((e.1.1 : Int) + e.2.1).toNat ((e.1.2 : Int) + e.2.2).toNat

def btgt (m : Mask) (e : BlurEvent) : Nat :=
  ((e.1.1 : Int) + e.2.1).toNat * m.w + ((e.1.2 : Int) + e.2.2).toNat

theorem blurStep_eq (m : Mask) (y x : Nat) (y1 x1 : Int) (acc : Option (List Bool)) :
    blurStep m y x y1 x1 acc = clearStep (bvalid m) (bcond m) (btgt m) acc ((y, x), y1, x1) := by
  cases acc with
  | none => rfl
  | some b =>
    by_cases hv : (0 ≤ (x : Int) + x1 ∧ (x : Int) + x1 ≤ (m.w : Int) - 1
        ∧ 0 ≤ (y : Int) + y1 ∧ (y : Int) + y1 ≤ (m.h : Int) - 1)
    · cases hc : m.get ((y : Int) + y1).toNat ((x : Int) + x1).toNat <;>
        simp [blurStep, clearStep, bvalid, bcond, btgt, hv, hc]
    · simp [blurStep, clearStep, bvalid, hv]

/-- offsets visited for an odd or even side `k`: `range((-k+1)//2, (k+1)//2)` -/
def offsRange (k : Nat) : List Int := intRange ((-(k : Int) + 1) / 2) (((k : Int) + 1) / 2)

def blurEvents (m : Mask) (kh kw : Nat) : List BlurEvent :=
  (pixels m.h m.w).flatMap fun p =>
    if !m.get p.1 p.2 then
      (offsRange kh).flatMap fun y1 => (offsRange kw).map fun x1 => (p, y1, x1)
    else []

theorem blurringBits_eq_fold (m : Mask) (kh kw : Nat) :
    blurringBits m kh kw
      = (blurEvents m kh kw).foldl (clearStep (bvalid m) (bcond m) (btgt m))
          (some (List.replicate (m.h * m.w) true)) := by
  unfold blurringBits blurEvents
  rw [forYX_eq_foldl, List.foldl_flatMap]
  congr 1
  funext acc p
  split
  · rw [List.foldl_flatMap]
    unfold offsRange
    congr 1
    funext acc y1
    rw [List.foldl_map]
    congr 1
    funext acc x1
    exact blurStep_eq m p.1 p.2 y1 x1 acc
  · rfl

theorem mem_blurEvents {m : Mask} {kh kw : Nat} {e : BlurEvent} :
    e ∈ blurEvents m kh kw ↔
      e.1.1 < m.h ∧ e.1.2 < m.w ∧ m.get e.1.1 e.1.2 = false ∧ e.2.1 ∈ offsRange kh
        ∧ e.2.2 ∈ offsRange kw := by
  obtain ⟨⟨y, x⟩, y1, x1⟩ := e
  simp only [blurEvents, List.mem_flatMap, mem_pixels]
  constructor
  · rintro ⟨p, ⟨hp1, hp2⟩, he⟩
    split at he
    · rename_i hm
      simp only [List.mem_flatMap, List.mem_map] at he
      obtain ⟨a, ha, b, hb, heq⟩ := he
      simp only [Prod.mk.injEq] at heq
      obtain ⟨rfl, rfl, rfl⟩ := heq
      exact ⟨hp1, hp2, by simpa using hm, ha, hb⟩
    · simp at he
  · rintro ⟨h1, h2, h3, h4, h5⟩
    refine ⟨(y, x), ⟨h1, h2⟩, ?_⟩
    simp only [h3, Bool.not_false, if_true, List.mem_flatMap, List.mem_map]
    exact ⟨y1, h4, x1, h5, rfl⟩

theorem mem_offsRange_odd {k : Nat} (hk : k % 2 = 1) {z : Int} :
    z ∈ offsRange k ↔ -((k / 2 : Nat) : Int) ≤ z ∧ z ≤ ((k / 2 : Nat) : Int) := by
  unfold offsRange
  rw [mem_intRange]
  omega

/-- every event is in the frame  ⇔  every unmasked pixel's footprint is inside the frame -/
theorem blurEvents_allValid_iff (m : Mask) {kh kw : Nat} (hkh : kh % 2 = 1) (hkw : kw % 2 = 1) :
    (∀ e ∈ blurEvents m kh kw, bvalid m e = true) ↔
      ∀ p : Nat × Nat, p.1 < m.h → p.2 < m.w → m.get p.1 p.2 = false →
        Spec.footprintInside m.h m.w kh kw p := by
  constructor
  · intro h p hp1 hp2 hm
    have e1 := h (p, -((kh / 2 : Nat) : Int), -((kw / 2 : Nat) : Int))
      (mem_blurEvents.mpr ⟨hp1, hp2, hm, (mem_offsRange_odd hkh).mpr (by simp only; omega),
        (mem_offsRange_odd hkw).mpr (by simp only; omega)⟩)
    have e2 := h (p, ((kh / 2 : Nat) : Int), ((kw / 2 : Nat) : Int))
      (mem_blurEvents.mpr ⟨hp1, hp2, hm, (mem_offsRange_odd hkh).mpr (by simp only; omega),
        (mem_offsRange_odd hkw).mpr (by simp only; omega)⟩)
    simp only [bvalid, decide_eq_true_eq] at e1 e2
    unfold Spec.footprintInside Spec.half
    omega
  · intro h e he
    obtain ⟨h1, h2, h3, h4, h5⟩ := mem_blurEvents.mp he
    have hf := h e.1 h1 h2 h3
    rw [mem_offsRange_odd hkh] at h4
    rw [mem_offsRange_odd hkw] at h5
    unfold Spec.footprintInside Spec.half at hf
    simp only [bvalid, decide_eq_true_eq]
    omega

theorem blurringBits_isSome_iff (m : Mask) {kh kw : Nat} (hkh : kh % 2 = 1) (hkw : kw % 2 = 1) :
    (blurringBits m kh kw).isSome = true ↔
      ∀ p : Nat × Nat, p.1 < m.h → p.2 < m.w → m.get p.1 p.2 = false →
        Spec.footprintInside m.h m.w kh kw p := by
  rw [← blurEvents_allValid_iff m hkh hkw, blurringBits_eq_fold]
  constructor
  · intro hs e he
    cases hv' : bvalid m e with
    | true => rfl
    | false =>
      rw [clearFold_invalid _ _ _ _ _ ⟨e, he, hv'⟩] at hs
      exact Bool.noConfusion hs
  · intro hall
    obtain ⟨b', hb, _, _⟩ := clearFold_valid (bvalid m) (bcond m) (btgt m) (blurEvents m kh kw)
      (List.replicate (m.h * m.w) true) hall
    rw [hb]; rfl

/-- the bits of a defined blurring mask -/
theorem blurringBits_spec (m : Mask) {kh kw : Nat} (hkh : kh % 2 = 1) (hkw : kw % 2 = 1)
    {b : List Bool} (hb : blurringBits m kh kw = some b) :
    b.length = m.h * m.w ∧
    ∀ qy qx, qy < m.h → qx < m.w →
      (b.getD (qy * m.w + qx) true = false ↔
        m.get qy qx = true ∧ ∃ p : Nat × Nat, p.1 < m.h ∧ p.2 < m.w ∧ m.get p.1 p.2 = false
          ∧ Spec.inFootprint kh kw p (qy, qx)) := by
  have hall : ∀ e ∈ blurEvents m kh kw, bvalid m e = true := by
    rw [blurEvents_allValid_iff m hkh hkw, ← blurringBits_isSome_iff m hkh hkw, hb]; rfl
  rw [blurringBits_eq_fold] at hb
  obtain ⟨b', hb', hlen, hget⟩ := clearFold_valid (bvalid m) (bcond m) (btgt m) (blurEvents m kh kw)
    (List.replicate (m.h * m.w) true) hall
  rw [hb'] at hb
  cases hb
  refine ⟨by simpa using hlen, ?_⟩
  intro qy qx hqy hqx
  have hj0 : qy * m.w + qx < m.h * m.w := flat_lt (p := (qy, qx)) (mem_pixels.mpr ⟨hqy, hqx⟩)
  have hj : qy * m.w + qx < (List.replicate (m.h * m.w) true).length := by
    simpa using hj0
  rw [hget _ hj]
  have hrep : (List.replicate (m.h * m.w) true).getD (qy * m.w + qx) true = true := by
    simp [List.getD_eq_getElem?_getD, hj0]
  rw [hrep]
  simp only [Bool.true_and, Bool.not_eq_false', List.any_eq_true, Bool.and_eq_true, beq_iff_eq]
  constructor
  · rintro ⟨e, he, hc, ht⟩
    obtain ⟨h1, h2, h3, h4, h5⟩ := mem_blurEvents.mp he
    have hv := hall e he
    simp only [bvalid, decide_eq_true_eq] at hv
    rw [mem_offsRange_odd hkh] at h4
    rw [mem_offsRange_odd hkw] at h5
    have hq : ((((e.1.1 : Int) + e.2.1).toNat, ((e.1.2 : Int) + e.2.2).toNat) : Nat × Nat) = (qy, qx) := by
      apply flat_injOn (w := m.w)
      · show ((e.1.2 : Int) + e.2.2).toNat < m.w
        omega
      · exact hqx
      · exact ht
    simp only [Prod.mk.injEq] at hq
    refine ⟨?_, e.1, h1, h2, h3, ?_⟩
    · rw [← hq.1, ← hq.2]; exact hc
    · unfold Spec.inFootprint Spec.half
      simp only
      omega
  · rintro ⟨hmq, p, hp1, hp2, hp3, hfp⟩
    unfold Spec.inFootprint Spec.half at hfp
    simp only at hfp
    refine ⟨(p, (qy : Int) - p.1, (qx : Int) - p.2), ?_, ?_, ?_⟩
    · exact mem_blurEvents.mpr ⟨hp1, hp2, hp3, (mem_offsRange_odd hkh).mpr (by simp only; omega),
        (mem_offsRange_odd hkw).mpr (by simp only; omega)⟩
    · have e1 : ((p.1 : Int) + ((qy : Int) - p.1)).toNat = qy := by omega
      have e2 : ((p.2 : Int) + ((qx : Int) - p.2)).toNat = qx := by omega
      simp only [bcond, e1, e2]
      exact hmq
    · have e1 : ((p.1 : Int) + ((qy : Int) - p.1)).toNat = qy := by omega
      have e2 : ((p.2 : Int) + ((qx : Int) - p.2)).toNat = qx := by omega
      simp only [btgt, e1, e2]

/-! ### edge pixels: the conditional-counter loop -/

/-- the loop of `edge_1d_indexes_from`: the counter advances on every `c`-pixel, the index is
    recorded where additionally `e` holds. -/
theorem cond_counter_loop {γ : Type} (l : List γ) (c e : γ → Bool) (acc : List Nat) (n : Nat) :
    l.foldl (fun (st : List Nat × Nat) p =>
        if c p then (if e p then st.1 ++ [st.2] else st.1, st.2 + 1) else st) (acc, n)
      = (acc ++ (((l.filter c).zipIdx n).filter fun q => e q.1).map (·.2), n + (l.filter c).length) := by
  induction l generalizing acc n with
  | nil => simp
  | cons a l ih =>
    simp only [List.foldl_cons, List.filter_cons]
    by_cases hc : c a = true
    · simp only [hc, if_true, List.zipIdx_cons, List.filter_cons, List.length_cons]
      rw [ih]
      by_cases he : e a = true
      · simp [he]; omega
      · simp [he]; omega
    · simp only [hc, Bool.false_eq_true, if_false]
      exact ih acc n

/-- `edge_slim` = the slim indices (positions in the row-major list of unmasked pixels) of the
    pixels satisfying `check_if_edge_pixel`. -/
theorem edgeSlim_eq (m : Mask) :
    Impl.edgeSlim m
      = (((Spec.unmaskedPixels m).zipIdx 0).filter fun q => checkIfEdgePixel m q.1.1 q.1.2).map (·.2) := by
  unfold Impl.edgeSlim Spec.unmaskedPixels
  rw [forYX_eq_foldl]
  have := cond_counter_loop (pixels m.h m.w) (fun p => !m.get p.1 p.2)
    (fun p => checkIfEdgePixel m p.1 p.2) [] 0
  simp only [List.nil_append] at this
  rw [this]

theorem totalEdgePixels_eq (m : Mask) : Impl.totalEdgePixels m = (Impl.edgeSlim m).length := by
  rw [edgeSlim_eq]
  unfold Impl.totalEdgePixels Spec.unmaskedPixels
  rw [forYX_eq_foldl]
  generalize pixels m.h m.w = l
  suffices ∀ n k, l.foldl (fun acc p => if !m.get p.1 p.2 then
        (if checkIfEdgePixel m p.1 p.2 then acc + 1 else acc) else acc) n
      = n + ((((l.filter fun p => !m.get p.1 p.2).zipIdx k).filter
          fun q => checkIfEdgePixel m q.1.1 q.1.2).map (·.2)).length by simpa using this 0 0
  induction l with
  | nil => simp
  | cons a l ih =>
    intro n k
    simp only [List.foldl_cons, List.filter_cons]
    by_cases hc : (!m.get a.1 a.2) = true
    · simp only [hc, if_true, List.zipIdx_cons, List.filter_cons]
      rw [ih _ (k + 1)]
      by_cases he : checkIfEdgePixel m a.1 a.2 = true
      · simp [he]; omega
      · simp [he]
    · simp only [hc, Bool.false_eq_true, if_false]
      exact ih n k

theorem mem_edgeSlim {m : Mask} {k : Nat} :
    k ∈ Impl.edgeSlim m ↔ ∃ hk : k < (Spec.unmaskedPixels m).length,
      checkIfEdgePixel m ((Spec.unmaskedPixels m)[k]).1 ((Spec.unmaskedPixels m)[k]).2 = true := by
  rw [edgeSlim_eq]
  simp only [List.mem_map, List.mem_filter, List.mem_zipIdx_iff_getElem?]
  constructor
  · rintro ⟨⟨p, i⟩, ⟨hget, hedge⟩, rfl⟩
    simp only at hget hedge ⊢
    obtain ⟨hi, hpi⟩ := List.getElem?_eq_some_iff.mp hget
    exact ⟨hi, by rw [hpi]; exact hedge⟩
  · rintro ⟨hk, hedge⟩
    exact ⟨((Spec.unmaskedPixels m)[k], k), ⟨by simp [hk], hedge⟩, rfl⟩

theorem edgeSlim_pairwise (m : Mask) : (Impl.edgeSlim m).Pairwise (· < ·) := by
  rw [edgeSlim_eq]
  have h1 : (((Spec.unmaskedPixels m).zipIdx 0).map (·.2)).Pairwise (· < ·) := by
    rw [List.zipIdx_map_snd]
    exact List.pairwise_lt_range' ..
  have h2 := List.pairwise_map.mp h1
  exact List.pairwise_map.mpr (h2.filter _)

/-! ### `check_if_edge_pixel` = "one of the eight neighbour positions counts as masked" -/

theorem checkIfEdgePixel_iff (m : Mask) {y x : Nat} (hy : y < m.h) (hx : x < m.w) :
    checkIfEdgePixel m y x = true ↔ Spec.isEdge m (y, x) := by
  unfold checkIfEdgePixel Spec.isEdge Spec.maskedZ
  by_cases hring : (y == 0 || x == 0 || y + 1 == m.h || x + 1 == m.w) = true
  · simp only [hring, if_true, true_iff]
    simp only [Bool.or_eq_true, beq_iff_eq] at hring
    rcases hring with ((h | h) | h) | h
    · exact ⟨-1, 0, by omega, by omega, by omega, by omega, by omega, Or.inl (by omega)⟩
    · exact ⟨0, -1, by omega, by omega, by omega, by omega, by omega, Or.inl (by omega)⟩
    · exact ⟨1, 0, by omega, by omega, by omega, by omega, by omega, Or.inl (by omega)⟩
    · exact ⟨0, 1, by omega, by omega, by omega, by omega, by omega, Or.inl (by omega)⟩
  · simp only [hring, Bool.false_eq_true, if_false]
    simp only [Bool.or_eq_true, beq_iff_eq, not_or] at hring
    obtain ⟨⟨⟨h1, h2⟩, h3⟩, h4⟩ := hring
    have ey1 : ((y : Int) + 1).toNat = y + 1 := by omega
    have ey0 : ((y : Int) + 0).toNat = y := by omega
    have eym : ((y : Int) + -1).toNat = y - 1 := by omega
    have ex1 : ((x : Int) + 1).toNat = x + 1 := by omega
    have ex0 : ((x : Int) + 0).toNat = x := by omega
    have exm : ((x : Int) + -1).toNat = x - 1 := by omega
    constructor
    · intro h
      simp only [anyNeighbourMasked, Bool.or_eq_true] at h
      rcases h with ((((((h | h) | h) | h) | h) | h) | h) | h
      · exact ⟨1, 0, by omega, by omega, by omega, by omega, by omega, Or.inr (by rw [ey1, ex0]; exact h)⟩
      · exact ⟨-1, 0, by omega, by omega, by omega, by omega, by omega, Or.inr (by rw [eym, ex0]; exact h)⟩
      · exact ⟨0, 1, by omega, by omega, by omega, by omega, by omega, Or.inr (by rw [ey0, ex1]; exact h)⟩
      · exact ⟨0, -1, by omega, by omega, by omega, by omega, by omega, Or.inr (by rw [ey0, exm]; exact h)⟩
      · exact ⟨1, 1, by omega, by omega, by omega, by omega, by omega, Or.inr (by rw [ey1, ex1]; exact h)⟩
      · exact ⟨1, -1, by omega, by omega, by omega, by omega, by omega, Or.inr (by rw [ey1, exm]; exact h)⟩
      · exact ⟨-1, 1, by omega, by omega, by omega, by omega, by omega, Or.inr (by rw [eym, ex1]; exact h)⟩
      · exact ⟨-1, -1, by omega, by omega, by omega, by omega, by omega, Or.inr (by rw [eym, exm]; exact h)⟩
    · rintro ⟨dy, dx, hd1, hd2, hd3, hd4, hne, hm⟩
      rcases hm with hm | hm
      · exact absurd (by omega) hm
      · have hdy : dy = -1 ∨ dy = 0 ∨ dy = 1 := by omega
        have hdx : dx = -1 ∨ dx = 0 ∨ dx = 1 := by omega
        rcases hdy with rfl | rfl | rfl <;> rcases hdx with rfl | rfl | rfl <;>
          simp only [ey1, ey0, eym, ex1, ex0, exm] at hm <;>
          simp [anyNeighbourMasked, hm] <;> omega

/-! ### border pixels -/

theorem countTrue_eq (l : List Bool) : countTrue l = l.count true := by
  unfold countTrue
  suffices ∀ n, l.foldl (fun n b => if b then n + 1 else n) n = n + l.count true by simpa using this 0
  induction l with
  | nil => simp
  | cons a l ih =>
    intro n
    cases a <;> simp [ih] <;> omega

theorem countTrue_map_range_eq_iff (n : Nat) (f : Nat → Bool) :
    countTrue ((List.range n).map f) = n ↔ ∀ i, i < n → f i = true := by
  rw [countTrue_eq]
  have hlen : ((List.range n).map f).length = n := by simp
  constructor
  · intro h i hi
    have h' : ((List.range n).map f).count true = ((List.range n).map f).length := by rw [hlen]; exact h
    rw [List.count_eq_length] at h'
    exact (h' (f i) (List.mem_map.mpr ⟨i, List.mem_range.mpr hi, rfl⟩)).symm
  · intro h
    have : ((List.range n).map f).count true = ((List.range n).map f).length := by
      rw [List.count_eq_length]
      intro b hb
      obtain ⟨i, hi, rfl⟩ := List.mem_map.mp hb
      exact (h i (List.mem_range.mp hi)).symm
    rw [this, hlen]

/-- slices that start AT the (unmasked) pixel: `sum(mask[y, x:W]) == W - x - 1` -/
theorem countTrue_from_self (n : Nat) (f : Nat → Bool) (h0 : f 0 = false) :
    countTrue ((List.range (n + 1)).map f) = n ↔ ∀ i, 0 < i → i < n + 1 → f i = true := by
  rw [List.range_succ_eq_map, List.map_cons, List.map_map]
  have : countTrue (f 0 :: (List.range n).map (f ∘ Nat.succ)) = countTrue ((List.range n).map (f ∘ Nat.succ)) := by
    rw [countTrue_eq, countTrue_eq, h0]; simp
  rw [this, countTrue_map_range_eq_iff]
  constructor
  · intro h i hi0 hi
    have := h (i - 1) (by omega)
    simp only [Function.comp] at this
    rwa [show (i - 1).succ = i by omega] at this
  · intro h i hi
    exact h (i + 1) (by omega) (by omega)

theorem checkIfBorderPixelAt_iff (m : Mask) {y x : Nat} (hy : y < m.h) (hx : x < m.w)
    (hm : m.get y x = false) :
    checkIfBorderPixelAt m y x = true ↔ Spec.clearWalk m (y, x) := by
  unfold checkIfBorderPixelAt Spec.clearWalk
  simp only [Bool.or_eq_true, beq_iff_eq]
  have hw : m.w - x = (m.w - x - 1) + 1 := by omega
  have hh : m.h - y = (m.h - y - 1) + 1 := by omega
  have a1 := countTrue_map_range_eq_iff y (fun r => m.get r x)
  have a4 := countTrue_map_range_eq_iff x (fun c => m.get y c)
  have a2 := countTrue_from_self (m.w - x - 1) (fun c => m.get y (x + c)) (by simpa using hm)
  have a3 := countTrue_from_self (m.h - y - 1) (fun r => m.get (y + r) x) (by simpa using hm)
  rw [← hw] at a2
  rw [← hh] at a3
  have b2 : ((countTrue ((List.range (m.w - x)).map fun c => m.get y (x + c)) : Nat) : Int)
      = (m.w : Int) - x - 1 ↔ ∀ c, x < c → c < m.w → m.get y c = true := by
    rw [show ((m.w : Int) - x - 1) = ((m.w - x - 1 : Nat) : Int) by omega, Int.natCast_inj, a2]
    constructor
    · intro h c hc1 hc2
      have := h (c - x) (by omega) (by omega)
      rwa [show x + (c - x) = c by omega] at this
    · intro h i hi0 hi
      exact h (x + i) (by omega) (by omega)
  have b3 : ((countTrue ((List.range (m.h - y)).map fun r => m.get (y + r) x) : Nat) : Int)
      = (m.h : Int) - y - 1 ↔ ∀ r, y < r → r < m.h → m.get r x = true := by
    rw [show ((m.h : Int) - y - 1) = ((m.h - y - 1 : Nat) : Int) by omega, Int.natCast_inj, a3]
    constructor
    · intro h r hr1 hr2
      have := h (r - y) (by omega) (by omega)
      rwa [show y + (r - y) = r by omega] at this
    · intro h i hi0 hi
      exact h (y + i) (by omega) (by omega)
  rw [a1, a4, b2, b3]
  simp only [or_assoc]

theorem foldl_range_getD_filter {γ : Type} (l : List γ) (c : γ → Bool) (d : γ) :
    (List.range l.length).foldl
        (fun acc i => if c (l.getD i d) then acc ++ [l.getD i d] else acc) []
      = l.filter c := by
  have h := foldl_append_if (List.range l.length) (fun i => c (l.getD i d)) (fun i => l.getD i d) []
  simp only [List.nil_append] at h
  rw [h]
  have hmap : (List.range l.length).map (fun i => l.getD i d) = l := by
    apply List.ext_getElem
    · simp
    · intro i h1 h2
      simp [List.getD_eq_getElem?_getD, h2]
  have : (List.range l.length).filter (fun i => c (l.getD i d))
      = (List.range l.length).filter (c ∘ fun i => l.getD i d) := rfl
  rw [this, ← List.filter_map, hmap]

theorem borderSlim_eq (m : Mask) :
    Impl.borderSlim m
      = (Impl.edgeSlim m).filter fun e => checkIfBorderPixel m (Impl.nativeForSlim m) e := by
  unfold Impl.borderSlim
  exact foldl_range_getD_filter (Impl.edgeSlim m) _ 0

theorem borderSlim_pairwise (m : Mask) : (Impl.borderSlim m).Pairwise (· < ·) := by
  rw [borderSlim_eq]; exact (edgeSlim_pairwise m).filter _

/-! ### membership in the index lists, and the native views -/

theorem nfs_getD (m : Mask) {k : Nat} (hk : k < (Spec.unmaskedPixels m).length) :
    (Impl.nativeForSlim m).getD k (0, 0) = (Spec.unmaskedPixels m)[k] := by
  rw [nativeForSlim_eq]
  simp [List.getD_eq_getElem?_getD, hk]

theorem mem_borderSlim {m : Mask} {k : Nat} :
    k ∈ Impl.borderSlim m ↔ k ∈ Impl.edgeSlim m ∧ ∃ hk : k < (Spec.unmaskedPixels m).length,
      checkIfBorderPixelAt m ((Spec.unmaskedPixels m)[k]).1 ((Spec.unmaskedPixels m)[k]).2 = true := by
  rw [borderSlim_eq, List.mem_filter]
  constructor
  · rintro ⟨he, hb⟩
    obtain ⟨hk, _⟩ := mem_edgeSlim.mp he
    refine ⟨he, hk, ?_⟩
    simp only [checkIfBorderPixel] at hb
    rw [nfs_getD m hk] at hb
    exact hb
  · rintro ⟨he, hk, hb⟩
    refine ⟨he, ?_⟩
    simp only [checkIfBorderPixel]
    rw [nfs_getD m hk]
    exact hb

theorem mem_nativeOfSlim_of_subset (m : Mask) (idx : List Nat)
    (hidx : ∀ k ∈ idx, k < (Spec.unmaskedPixels m).length) (p : Nat × Nat) :
    p ∈ Impl.nativeOfSlim m idx ↔ ∃ k ∈ idx, ∃ hk : k < (Spec.unmaskedPixels m).length,
      (Spec.unmaskedPixels m)[k] = p := by
  unfold Impl.nativeOfSlim
  simp only [List.mem_map]
  constructor
  · rintro ⟨k, hk, rfl⟩
    exact ⟨k, hk, hidx k hk, (nfs_getD m (hidx k hk)).symm⟩
  · rintro ⟨k, hk, hk', rfl⟩
    exact ⟨k, hk, nfs_getD m hk'⟩

/-- the native view of the edge set: exactly the unmasked in-frame pixels passing the edge test -/
theorem mem_edgeNative {m : Mask} {p : Nat × Nat} :
    p ∈ Impl.edgeNative m ↔
      p.1 < m.h ∧ p.2 < m.w ∧ m.get p.1 p.2 = false ∧ checkIfEdgePixel m p.1 p.2 = true := by
  unfold Impl.edgeNative
  rw [mem_nativeOfSlim_of_subset m _ (fun k hk => (mem_edgeSlim.mp hk).1)]
  constructor
  · rintro ⟨k, hk, hk', rfl⟩
    obtain ⟨_, he⟩ := mem_edgeSlim.mp hk
    have hmem := mem_unmaskedPixels.mp (List.getElem_mem hk')
    exact ⟨hmem.1, hmem.2.1, hmem.2.2, he⟩
  · rintro ⟨h1, h2, h3, h4⟩
    obtain ⟨k, hk, hkeq⟩ := List.getElem_of_mem (mem_unmaskedPixels.mpr ⟨h1, h2, h3⟩)
    exact ⟨k, mem_edgeSlim.mpr ⟨hk, by rw [hkeq]; exact h4⟩, hk, hkeq⟩

theorem mem_borderNative {m : Mask} {p : Nat × Nat} :
    p ∈ Impl.borderNative m ↔
      p ∈ Impl.edgeNative m ∧ checkIfBorderPixelAt m p.1 p.2 = true := by
  unfold Impl.borderNative
  rw [mem_nativeOfSlim_of_subset m _ (fun k hk => (mem_edgeSlim.mp (mem_borderSlim.mp hk).1).1)]
  constructor
  · rintro ⟨k, hk, hk', rfl⟩
    obtain ⟨he, _, hb⟩ := mem_borderSlim.mp hk
    refine ⟨?_, hb⟩
    unfold Impl.edgeNative
    rw [mem_nativeOfSlim_of_subset m _ (fun k hk => (mem_edgeSlim.mp hk).1)]
    exact ⟨k, he, hk', rfl⟩
  · rintro ⟨he, hb⟩
    unfold Impl.edgeNative at he
    rw [mem_nativeOfSlim_of_subset m _ (fun k hk => (mem_edgeSlim.mp hk).1)] at he
    obtain ⟨k, hk, hk', rfl⟩ := he
    exact ⟨k, mem_borderSlim.mpr ⟨hk, hk', hb⟩, hk', rfl⟩

/-- gathering `native_for_slim` at an ascending index list gives pixels in ascending row-major order -/
theorem nativeOfSlim_pairwise (m : Mask) (idx : List Nat) (hsorted : idx.Pairwise (· < ·))
    (hidx : ∀ k ∈ idx, k < (Spec.unmaskedPixels m).length) :
    (Impl.nativeOfSlim m idx).Pairwise fun p q => flat m.w p < flat m.w q := by
  unfold Impl.nativeOfSlim
  rw [List.pairwise_map]
  have hp := unmaskedPixels_pairwise m
  rw [List.pairwise_iff_getElem] at hp
  refine (List.Pairwise.and_mem.mp hsorted).imp ?_
  rintro a b ⟨ha, hb, hab⟩
  rw [nfs_getD m (hidx a ha), nfs_getD m (hidx b hb)]
  exact hp a b _ _ hab

/-! ### the mask views -/

theorem clearAll_getD (w : Nat) (native : List (Nat × Nat)) (init : List Bool) (j : Nat)
    (hj : j < init.length) :
    (native.foldl (fun b p => b.set (p.1 * w + p.2) false) init).getD j true
      = (init.getD j true && !(native.any fun p => p.1 * w + p.2 == j)) := by
  induction native generalizing init with
  | nil => simp
  | cons a l ih =>
    simp only [List.foldl_cons, List.any_cons]
    rw [ih _ (by simpa using hj)]
    by_cases ha : a.1 * w + a.2 = j
    · subst ha
      simp [List.getD_eq_getElem?_getD, List.getElem?_set_self hj]
    · have : (a.1 * w + a.2 == j) = false := by simpa using ha
      simp [List.getD_eq_getElem?_getD, List.getElem?_set_ne ha, this]

theorem clearAll_length (w : Nat) (native : List (Nat × Nat)) (init : List Bool) :
    (native.foldl (fun b p => b.set (p.1 * w + p.2) false) init).length = init.length := by
  induction native generalizing init with
  | nil => rfl
  | cons a l ih => simp [ih]

/-- `mask[native[:,0], native[:,1]] = False` on an all-`True` array: unmasked exactly on the listed
    (in-frame) pixels -/
theorem maskFromNative_get (h w : Nat) (native : List (Nat × Nat))
    (hin : ∀ p ∈ native, p.2 < w) {y x : Nat} (hy : y < h) (hx : x < w) :
    (Impl.maskFromNative h w native).get y x = false ↔ (y, x) ∈ native := by
  unfold Impl.maskFromNative Mask.get
  simp only
  have hj : y * w + x < (List.replicate (h * w) true).length := by
    have := flat_lt (p := (y, x)) (mem_pixels.mpr ⟨hy, hx⟩)
    simpa [flat] using this
  rw [clearAll_getD w native _ _ hj]
  have hrep : (List.replicate (h * w) true).getD (y * w + x) true = true := by
    have hj' : y * w + x < h * w := by simpa using hj
    simp [List.getD_eq_getElem?_getD, hj']
  rw [hrep]
  simp only [Bool.true_and, Bool.not_eq_false', List.any_eq_true, beq_iff_eq]
  constructor
  · rintro ⟨p, hp, hflat⟩
    have : p = (y, x) := flat_injOn (w := w) (hin p hp) hx hflat
    rw [← this]; exact hp
  · intro hp
    exact ⟨(y, x), hp, rfl⟩

theorem maskFromNative_wf (h w : Nat) (native : List (Nat × Nat)) :
    (Impl.maskFromNative h w native).WF := by
  unfold Impl.maskFromNative Mask.WF
  simp [clearAll_length]

/-! ### the grid views -/

theorem gridSlimViaMask_eq [Add α] [Sub α] [Mul α] [Div α] [Neg α] [NatCast α] [OfNat α 2]
    (m : Mask) (g : Geom α) :
    Impl.gridSlimViaMask m g = (Spec.unmaskedPixels m).map (Impl.pixelCentre m.h m.w g) := by
  unfold Impl.gridSlimViaMask Spec.unmaskedPixels
  rw [forYX_eq_foldl]
  have := foldl_append_if (pixels m.h m.w) (fun p => !m.get p.1 p.2)
    (fun p => Impl.pixelCentre m.h m.w g (p.1, p.2)) []
  simpa using this

theorem gridAt_eq [Add α] [Sub α] [Mul α] [Div α] [Neg α] [NatCast α] [OfNat α 2] [OfNat α 0]
    (m : Mask) (g : Geom α) (idx : List Nat)
    (hidx : ∀ k ∈ idx, k < (Spec.unmaskedPixels m).length) :
    Impl.gridAt m g idx = (Impl.nativeOfSlim m idx).map (Impl.pixelCentre m.h m.w g) := by
  unfold Impl.gridAt Impl.nativeOfSlim
  rw [List.map_map]
  apply List.map_congr_left
  intro k hk
  have hk' := hidx k hk
  simp only [Function.comp, gridSlimViaMask_eq, nfs_getD m hk']
  simp [List.getD_eq_getElem?_getD, hk']

/-! ### the public `blurring_from` (used by C03 as well) -/

theorem C10_blurring_spec (m : Mask) {kh kw : Nat} (hkh : kh % 2 = 1) (hkw : kw % 2 = 1)
    {bm : Mask} (hbm : Impl.blurringFrom m kh kw = .ok bm) :
    bm.h = m.h ∧ bm.w = m.w ∧ bm.WF ∧
    ∀ qy qx, qy < m.h → qx < m.w →
      (bm.get qy qx = false ↔
        m.get qy qx = true ∧ ∃ p : Nat × Nat, p.1 < m.h ∧ p.2 < m.w ∧ m.get p.1 p.2 = false
          ∧ Spec.inFootprint kh kw p (qy, qx)) := by
  have hodd : (kh % 2 == 0 || kw % 2 == 0) = false := by simp [hkh, hkw]
  unfold Impl.blurringFrom at hbm
  simp only [hodd, Bool.false_eq_true, if_false] at hbm
  cases hb : Impl.blurringBits m kh kw with
  | none => rw [hb] at hbm; cases hbm
  | some b =>
    rw [hb] at hbm
    cases hbm
    obtain ⟨hlen, hget⟩ := blurringBits_spec m hkh hkw hb
    exact ⟨rfl, rfl, hlen, fun qy qx hqy hqx => hget qy qx hqy hqx⟩

/-- a successfully built blurring mask implies every footprint is inside the frame -/
theorem blurringFrom_ok_inside (m : Mask) {kh kw : Nat} (hkh : kh % 2 = 1) (hkw : kw % 2 = 1)
    {bm : Mask} (hbm : Impl.blurringFrom m kh kw = .ok bm) :
    ∀ p : Nat × Nat, p.1 < m.h → p.2 < m.w → m.get p.1 p.2 = false →
      Spec.footprintInside m.h m.w kh kw p := by
  have hodd : (kh % 2 == 0 || kw % 2 == 0) = false := by simp [hkh, hkw]
  unfold Impl.blurringFrom at hbm
  simp only [hodd, Bool.false_eq_true, if_false] at hbm
  cases hb : Impl.blurringBits m kh kw with
  | none => rw [hb] at hbm; cases hbm
  | some b =>
    have := blurringBits_isSome_iff m hkh hkw
    rw [hb] at this
    exact this.mp rfl

end Model
