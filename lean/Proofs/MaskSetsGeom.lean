/-
Proofs/MaskSetsGeom.lean — the coordinate `grid_2d_slim_via_mask_from` assigns to a pixel, in closed
form over any field (ties the grid views of C10 to the centre formula of C02.a).
-/
import Model.MaskSets
import Mathlib.Algebra.Field.Defs
import Mathlib.Tactic.FieldSimp
import Mathlib.Tactic.Ring

namespace Model

variable {α : Type} [Field α]

/-- `(-(y - (c_y + o_y/s_y))·s_y, (x - (c_x - o_x/s_x))·s_x)
      = (o_y + ((H-1)/2 - y)·s_y, o_x + (x - (W-1)/2)·s_x)` for non-zero pixel scales. -/
theorem pixelCentre_closed_form (h w : Nat) (g : Impl.Geom α) (hsy : g.sy ≠ 0) (hsx : g.sx ≠ 0)
    (p : Nat × Nat) :
    Impl.pixelCentre h w g p
      = (g.oy + (((h - 1 : Nat) : α) / 2 - (p.1 : α)) * g.sy,
         g.ox + ((p.2 : α) - ((w - 1 : Nat) : α) / 2) * g.sx) := by
  unfold Impl.pixelCentre Impl.centralScaled
  simp only
  refine Prod.ext ?_ ?_
  · simp only; field_simp; ring
  · simp only; field_simp; ring

end Model
