/-
Proofs/MaskShapes.lean — refinement lemmas for Model/MaskShapes.lean (property C02, clause g).

Part 1 (core Lean): the constructor loop `mask = full(True); for y, x: if test: mask[y,x] = False`
        is the per-pixel map `p ↦ !test p`.
Part 2 (ordered field): the loop's `(y_scaled, x_scaled)` are `(−dy, dx)` for the documented offset
        `(dy, dx)` of the pixel centre from the requested centre; meaning of the polynomial tests.
-/
import Model.MaskShapes
import Proofs.Core
import Proofs.Slim
import Proofs.Geometry

namespace Model

set_option linter.unusedSectionVars false

/-! ## Part 1 — the loop -/

/-- pointwise description of a conditional point-write loop -/
theorem foldl_set_false_getElem? (w : Nat) (c : Nat × Nat → Bool) (l : List (Nat × Nat))
    (init : List Bool) (k : Nat) :
    (l.foldl (fun bits p => if c p then bits.set (flat w p) false else bits) init)[k]?
      = bif l.any (fun p => flat w p == k && c p) then init[k]?.map (fun _ => false) else init[k]? := by
  induction l generalizing init with
  | nil => simp
  | cons a l ih =>
    rw [List.foldl_cons, ih, List.any_cons]
    cases hc : c a
    · simp
    · simp only [if_true, Bool.and_true]
      by_cases hk : flat w a = k
      · subst hk
        simp only [beq_self_eq_true, Bool.true_or, cond_true]
        by_cases hlen : flat w a < init.length
        · simp [List.getElem?_set_self hlen, List.getElem?_eq_getElem hlen]
        · have h1 : init.length ≤ flat w a := by omega
          have h2 : (init.set (flat w a) false).length ≤ flat w a := by simpa using h1
          simp [List.getElem?_eq_none h1, List.getElem?_eq_none h2]
      · have hb : (flat w a == k) = false := by simpa using hk
        simp only [hb, Bool.false_or]
        rw [List.getElem?_set_ne hk]

theorem pixels_getElem?_flat {h w : Nat} {i j : Nat} (hi : i < h) (hj : j < w) :
    (pixels h w)[i * w + j]? = some (i, j) := by
  have hmem : (i, j) ∈ pixels h w := mem_pixels.mpr ⟨hi, hj⟩
  have hlt : i * w + j < (pixels h w).length := by
    rw [pixels_length]; exact flat_lt hmem
  rw [List.getElem?_eq_getElem hlt]
  congr 1
  have h1 := pixels_getElem h w (i * w + j) hlt
  have h2 : ((pixels h w)[i * w + j]).2 < w := (mem_pixels.mp (List.getElem_mem hlt)).2
  exact flat_injOn h2 hj (by simpa [flat] using h1)

section
variable {α : Type} [Add α] [Sub α] [Mul α] [Div α] [Neg α] [NatCast α]

/-- the constructor loop = one decision per pixel, row-major -/
theorem shapeMask_bits (shape : Nat × Nat) (s centre : α × α) (test : α → α → Bool) :
    (Impl.shapeMask shape s centre test).bits
      = (pixels shape.1 shape.2).map fun p =>
          !test (Impl.shapeOffsets shape s centre p).1 (Impl.shapeOffsets shape s centre p).2 := by
  unfold Impl.shapeMask
  simp only
  rw [forYX_eq_foldl]
  apply List.ext_getElem?
  intro k
  have := foldl_set_false_getElem? shape.2
    (fun p => test (Impl.shapeOffsets shape s centre p).1 (Impl.shapeOffsets shape s centre p).2)
    (pixels shape.1 shape.2) (List.replicate (shape.1 * shape.2) true) k
  refine Eq.trans this ?_
  by_cases hk : k < shape.1 * shape.2
  · have hw : 0 < shape.2 := by
      rcases Nat.eq_zero_or_pos shape.2 with h0 | h0
      · rw [h0] at hk; simp at hk
      · exact h0
    have hi : k / shape.2 < shape.1 := (Nat.div_lt_iff_lt_mul hw).mpr hk
    have hj : k % shape.2 < shape.2 := Nat.mod_lt _ hw
    have hkk : k / shape.2 * shape.2 + k % shape.2 = k := Nat.div_add_mod' k shape.2
    have hget : (pixels shape.1 shape.2)[k]? = some (k / shape.2, k % shape.2) := by
      have := pixels_getElem?_flat (h := shape.1) (w := shape.2) hi hj
      rwa [hkk] at this
    have hany : (pixels shape.1 shape.2).any (fun p => flat shape.2 p == k &&
          test (Impl.shapeOffsets shape s centre p).1 (Impl.shapeOffsets shape s centre p).2)
        = test (Impl.shapeOffsets shape s centre (k / shape.2, k % shape.2)).1
            (Impl.shapeOffsets shape s centre (k / shape.2, k % shape.2)).2 := by
      rw [Bool.eq_iff_iff]
      simp only [List.any_eq_true, Bool.and_eq_true, beq_iff_eq]
      constructor
      · rintro ⟨p, hp, hflat, ht⟩
        have : p = (k / shape.2, k % shape.2) :=
          flat_injOn (w := shape.2) (mem_pixels.mp hp).2 hj (by rw [hflat]; simp only [flat]; omega)
        rw [this] at ht; exact ht
      · intro ht
        exact ⟨(k / shape.2, k % shape.2), mem_pixels.mpr ⟨hi, hj⟩, hkk, ht⟩
    rw [hany]
    simp only [List.getElem?_map, hget, Option.map_some, List.getElem?_replicate, hk, if_true]
    cases test (Impl.shapeOffsets shape s centre (k / shape.2, k % shape.2)).1
      (Impl.shapeOffsets shape s centre (k / shape.2, k % shape.2)).2 <;> simp
  · have h1 : (List.replicate (shape.1 * shape.2) true)[k]? = none := by
      simp [hk]
    have h2 : ((pixels shape.1 shape.2).map fun p =>
        !test (Impl.shapeOffsets shape s centre p).1 (Impl.shapeOffsets shape s centre p).2)[k]? = none := by
      rw [List.getElem?_eq_none]; simp [pixels_length]; omega
    rw [h1, h2]; simp

theorem shapeMask_wf (shape : Nat × Nat) (s centre : α × α) (test : α → α → Bool) :
    (Impl.shapeMask shape s centre test).WF := by
  unfold Mask.WF
  rw [shapeMask_bits]
  simp [pixels_length, Impl.shapeMask]

/-- `mask[i, j]` after the loop -/
theorem shapeMask_get (shape : Nat × Nat) (s centre : α × α) (test : α → α → Bool) {i j : Nat}
    (hi : i < shape.1) (hj : j < shape.2) :
    (Impl.shapeMask shape s centre test).get i j
      = !test (Impl.shapeOffsets shape s centre (i, j)).1 (Impl.shapeOffsets shape s centre (i, j)).2 := by
  unfold Mask.get
  rw [shapeMask_bits]
  have hw : (Impl.shapeMask shape s centre test).w = shape.2 := rfl
  rw [hw, List.getD_eq_getElem?_getD, List.getElem?_map, pixels_getElem?_flat hi hj]
  simp

/-- the mask as a whole is the per-pixel predicate mask -/
theorem shapeMask_eq_maskOf (shape : Nat × Nat) (s centre : α × α) (test : α → α → Bool) :
    Impl.shapeMask shape s centre test
      = Spec.maskOf shape fun p =>
          test (Impl.shapeOffsets shape s centre p).1 (Impl.shapeOffsets shape s centre p).2 := by
  have hb := shapeMask_bits shape s centre test
  unfold Spec.maskOf
  unfold Impl.shapeMask at hb ⊢
  simp only at hb ⊢
  rw [hb]

end

/-! ## Part 2 — offsets and polynomial tests over an ordered field -/

section field
variable {α : Type} [Field α] [LinearOrder α] [IsStrictOrderedRing α]

theorem centreOffset_eq (shape : Nat × Nat) (s centre : α × α) (p : Nat × Nat) :
    Spec.centreOffset shape s centre p
      = ((((shape.1 : α) - 1) / 2 - (p.1 : α)) * s.1 - centre.1,
         ((p.2 : α) - ((shape.2 : α) - 1) / 2) * s.2 - centre.2) := by
  simp [Spec.centreOffset]

/-- the loop's `(y_scaled, x_scaled)` is `(−dy, dx)`: the code measures y downward -/
theorem shapeOffsets_eq (shape : Nat × Nat) (s centre : α × α) (p : Nat × Nat)
    (hs1 : s.1 ≠ 0) (hs2 : s.2 ≠ 0) :
    Impl.shapeOffsets shape s centre p
      = (-(Spec.centreOffset shape s centre p).1, (Spec.centreOffset shape s centre p).2) := by
  rw [centreOffset_eq]
  simp only [Impl.shapeOffsets, Impl.maskCentres, centralPixel1_eq]
  congr 1
  · field_simp; ring
  · field_simp; ring

/-- pixel `(i, j)` is unmasked iff the constructor's test holds at `(−dy, dx)` -/
theorem shapeMask_unmasked_iff (shape : Nat × Nat) (s centre : α × α) (test : α → α → Bool)
    (hs1 : s.1 ≠ 0) (hs2 : s.2 ≠ 0) {i j : Nat} (hi : i < shape.1) (hj : j < shape.2) {dy dx : α}
    (hd : Spec.centreOffset shape s centre (i, j) = (dy, dx)) :
    (Impl.shapeMask shape s centre test).get i j = false ↔ test (-dy) dx = true := by
  rw [shapeMask_get shape s centre test hi hj, shapeOffsets_eq shape s centre (i, j) hs1 hs2, hd]
  simp

theorem sqrtLe_iff (d a : α) : Impl.sqrtLe d a = true ↔ (0 ≤ a ∧ d ≤ a * a) := by
  simp [Impl.sqrtLe]

theorem leSqrt_iff (a d : α) : Impl.leSqrt a d = true ↔ (a ≤ 0 ∨ a * a ≤ d) := by
  simp [Impl.leSqrt]

theorem r2_neg (dy dx : α) : Impl.r2 (-dy) dx = dx * dx + dy * dy := by
  simp only [Impl.r2]; ring

/-- in terms of the true offset `(dy, dx)` the squared elliptical radius is
    `(dx·c + dy·s)² + ((−dx·s + dy·c)/q)²` -/
theorem ellR2_neg (cs : α × α) (q dy dx : α) :
    Impl.ellR2 cs q (-dy) dx
      = (dx * cs.1 + dy * cs.2) * (dx * cs.1 + dy * cs.2)
        + ((-dx * cs.2 + dy * cs.1) / q) * ((-dx * cs.2 + dy * cs.1) / q) := by
  simp only [Impl.ellR2]
  by_cases hq : q = 0
  · subst hq; simp
  · field_simp; ring

end field

end Model
