/-
Proofs/MaskShapesAbstract.lean — the code form of the radial tests equals the polynomial form over ANY
linearly ordered field, for ANY `sqrt / arctan2 / sin / cos` meeting the stated contract `LibmSpec`
(no property of `radians` is needed).  Proofs/MaskShapesReal.lean discharges the contract for
`Real.sqrt`, `Complex.arg`, `Real.sin`, `Real.cos`.
-/
import Model.MaskShapes
import Proofs.MaskShapes

namespace Model

set_option linter.unusedSectionVars false

section
variable {α : Type} [Field α] [LinearOrder α] [IsStrictOrderedRing α]

/-- what the shape constructors need from libm / numpy -/
structure LibmSpec (sqrt : α → α) (arctan2 : α → α → α) (sin cos : α → α) : Prop where
  sqrt_nonneg : ∀ x, 0 ≤ x → 0 ≤ sqrt x
  sqrt_mul_self : ∀ x, 0 ≤ x → sqrt x * sqrt x = x
  polar_cos : ∀ y x, sqrt (x * x + y * y) * cos (arctan2 y x) = x
  polar_sin : ∀ y x, sqrt (x * x + y * y) * sin (arctan2 y x) = y
  cos_add : ∀ a b, cos (a + b) = cos a * cos b - sin a * sin b
  sin_add : ∀ a b, sin (a + b) = sin a * cos b + cos a * sin b

variable {sqrt : α → α} {arctan2 : α → α → α} {sin cos : α → α}

theorem LibmSpec.sqrt_le_iff (L : LibmSpec sqrt arctan2 sin cos) {d : α} (hd : 0 ≤ d) (a : α) :
    sqrt d ≤ a ↔ (0 ≤ a ∧ d ≤ a * a) := by
  have h0 := L.sqrt_nonneg d hd
  have h1 := L.sqrt_mul_self d hd
  constructor
  · intro h
    refine ⟨le_trans h0 h, ?_⟩
    rw [← h1]
    exact mul_le_mul h h h0 (le_trans h0 h)
  · rintro ⟨ha, hda⟩
    by_contra hlt
    have hlt' : a < sqrt d := not_le.mp hlt
    have : a * a < sqrt d * sqrt d := mul_lt_mul'' hlt' hlt' ha ha
    rw [h1] at this
    exact absurd hda (not_le.mpr this)

theorem LibmSpec.le_sqrt_iff (L : LibmSpec sqrt arctan2 sin cos) {d : α} (hd : 0 ≤ d) (a : α) :
    a ≤ sqrt d ↔ (a ≤ 0 ∨ a * a ≤ d) := by
  have h0 := L.sqrt_nonneg d hd
  have h1 := L.sqrt_mul_self d hd
  constructor
  · intro h
    rcases le_or_gt a 0 with ha | ha
    · exact Or.inl ha
    · right
      rw [← h1]
      exact mul_le_mul h h (le_of_lt ha) h0
  · rintro (ha | ha)
    · exact le_trans ha h0
    · by_contra hlt
      have hlt' : sqrt d < a := not_le.mp hlt
      have : sqrt d * sqrt d < a * a := mul_lt_mul'' hlt' hlt' h0 h0
      rw [h1] at this
      exact absurd ha (not_le.mpr this)

theorem r2_nonneg (ys xs : α) : 0 ≤ Impl.r2 ys xs := by
  simp only [Impl.r2]; nlinarith [mul_self_nonneg xs, mul_self_nonneg ys]

theorem ellR2_nonneg (cs : α × α) (q ys xs : α) : 0 ≤ Impl.ellR2 cs q ys xs := by
  simp only [Impl.ellR2]
  nlinarith [mul_self_nonneg (xs * cs.1 - ys * cs.2), mul_self_nonneg ((ys * cs.1 + xs * cs.2) / q)]

theorem LibmSpec.sqrtLe (L : LibmSpec sqrt arctan2 sin cos) {d : α} (hd : 0 ≤ d) (a : α) :
    Impl.sqrtLe d a = decide (sqrt d ≤ a) := by
  rw [Bool.eq_iff_iff, sqrtLe_iff, decide_eq_true_iff, L.sqrt_le_iff hd]

theorem LibmSpec.leSqrt (L : LibmSpec sqrt arctan2 sin cos) {d : α} (hd : 0 ≤ d) (a : α) :
    Impl.leSqrt a d = decide (a ≤ sqrt d) := by
  rw [Bool.eq_iff_iff, leSqrt_iff, decide_eq_true_iff, L.le_sqrt_iff hd]

omit [LinearOrder α] [IsStrictOrderedRing α] in
theorem rCode_eq (sqrt : α → α) (ys xs : α) : Impl.rCode sqrt ys xs = sqrt (Impl.r2 ys xs) := rfl

theorem LibmSpec.circular (L : LibmSpec sqrt arctan2 sin cos) (r ys xs : α) :
    Impl.circularCode sqrt r ys xs = Impl.circularPoly r ys xs := by
  simp only [Impl.circularCode, Impl.circularPoly, rCode_eq, L.sqrtLe (r2_nonneg ys xs)]
  congr

theorem LibmSpec.annular (L : LibmSpec sqrt arctan2 sin cos) (inner outer ys xs : α) :
    Impl.annularCode sqrt inner outer ys xs = Impl.annularPoly inner outer ys xs := by
  simp only [Impl.annularCode, Impl.annularPoly, rCode_eq, L.sqrtLe (r2_nonneg ys xs),
    L.leSqrt (r2_nonneg ys xs)]
  congr

theorem LibmSpec.antiAnnular (L : LibmSpec sqrt arctan2 sin cos) (inner outer outer2 ys xs : α) :
    Impl.antiAnnularCode sqrt inner outer outer2 ys xs = Impl.antiAnnularPoly inner outer outer2 ys xs := by
  simp only [Impl.antiAnnularCode, Impl.antiAnnularPoly, rCode_eq, L.sqrtLe (r2_nonneg ys xs),
    L.leSqrt (r2_nonneg ys xs)]
  congr

/-- `elliptical_radius_from` = `sqrt` of the polynomial at `(cos φ, sin φ)`, `φ = radians angle` -/
theorem LibmSpec.ellRadius (L : LibmSpec sqrt arctan2 sin cos) (radians : α → α) (ys xs angle q : α) :
    Impl.ellRadiusCode sqrt arctan2 sin cos radians ys xs angle q
      = sqrt (Impl.ellR2 (cos (radians angle), sin (radians angle)) q ys xs) := by
  have hc := L.polar_cos ys xs
  have hs := L.polar_sin ys xs
  simp only [Impl.ellRadiusCode, Impl.ellR2]
  congr 1
  have hx : sqrt (xs * xs + ys * ys) * cos (arctan2 ys xs + radians angle)
      = xs * cos (radians angle) - ys * sin (radians angle) := by
    rw [L.cos_add]
    calc sqrt (xs * xs + ys * ys)
          * (cos (arctan2 ys xs) * cos (radians angle) - sin (arctan2 ys xs) * sin (radians angle))
        = (sqrt (xs * xs + ys * ys) * cos (arctan2 ys xs)) * cos (radians angle)
          - (sqrt (xs * xs + ys * ys) * sin (arctan2 ys xs)) * sin (radians angle) := by ring
      _ = _ := by rw [hc, hs]
  have hy : sqrt (xs * xs + ys * ys) * sin (arctan2 ys xs + radians angle)
      = ys * cos (radians angle) + xs * sin (radians angle) := by
    rw [L.sin_add]
    calc sqrt (xs * xs + ys * ys)
          * (sin (arctan2 ys xs) * cos (radians angle) + cos (arctan2 ys xs) * sin (radians angle))
        = (sqrt (xs * xs + ys * ys) * sin (arctan2 ys xs)) * cos (radians angle)
          + (sqrt (xs * xs + ys * ys) * cos (arctan2 ys xs)) * sin (radians angle) := by ring
      _ = _ := by rw [hc, hs]
  rw [hx, hy]

theorem LibmSpec.elliptical (L : LibmSpec sqrt arctan2 sin cos) (radians : α → α)
    (major q angle ys xs : α) :
    Impl.ellipticalCode sqrt arctan2 sin cos radians major q angle ys xs
      = Impl.ellipticalPoly major q (cos (radians angle), sin (radians angle)) ys xs := by
  simp only [Impl.ellipticalCode, Impl.ellipticalPoly, L.ellRadius, L.sqrtLe (ellR2_nonneg _ _ _ _)]

theorem LibmSpec.ellipticalAnnular (L : LibmSpec sqrt arctan2 sin cos) (radians : α → α)
    (ri qi ai ro qo ao ys xs : α) :
    Impl.ellipticalAnnularCode sqrt arctan2 sin cos radians ri qi ai ro qo ao ys xs
      = Impl.ellipticalAnnularPoly ri qi (cos (radians ai), sin (radians ai))
          ro qo (cos (radians ao), sin (radians ao)) ys xs := by
  simp only [Impl.ellipticalAnnularCode, Impl.ellipticalAnnularPoly, L.ellRadius,
    L.sqrtLe (ellR2_nonneg _ _ _ _), L.leSqrt (ellR2_nonneg _ _ _ _)]

end

end Model
