/-
Proofs/MaskShapesReal.lean — over ℝ, the code's `sqrt / arctan2 / sin / cos / radians` form of every radial
test (Model/MaskShapes.lean, `Impl.*Code`) equals the polynomial form (`Impl.*Poly`) that the driver
executes, when the libm parameters are instantiated with
  sqrt := Real.sqrt,  arctan2 y x := Complex.arg ⟨x, y⟩,  sin/cos := Real.sin/Real.cos,
  radians a := a·π/180
and the polynomial form is given `(cos φ, sin φ)` of the same angle.
-/
import Model.MaskShapes
import Proofs.MaskShapes
import Proofs.MaskShapesAbstract
import Mathlib.Analysis.Real.Sqrt
import Mathlib.Analysis.Complex.Norm
import Mathlib.Analysis.Complex.Trigonometric
import Mathlib.Analysis.SpecialFunctions.Complex.Arg

namespace Model

/-- `np.arctan2(y, x)` over ℝ: the argument of `x + iy` (in `(-π, π]`, `0` at the origin, as numpy). -/
noncomputable def realArctan2 (y x : ℝ) : ℝ := Complex.arg ⟨x, y⟩

/-- `np.radians` -/
noncomputable def realRadians (a : ℝ) : ℝ := a * Real.pi / 180

/-- `(cos φ, sin φ)` of an angle in degrees: what the harness supplies (in double) to the polynomial form -/
noncomputable def realCS (angle : ℝ) : ℝ × ℝ :=
  (Real.cos (realRadians angle), Real.sin (realRadians angle))

theorem sqrt_le_iff_poly (d a : ℝ) : (Real.sqrt d ≤ a) ↔ (0 ≤ a ∧ d ≤ a * a) := by
  rw [Real.sqrt_le_iff, sq]

theorem le_sqrt_iff_poly (a d : ℝ) : (a ≤ Real.sqrt d) ↔ (a ≤ 0 ∨ a * a ≤ d) := by
  rcases le_or_gt a 0 with h | h
  · exact ⟨fun _ => Or.inl h, fun _ => le_trans h (Real.sqrt_nonneg d)⟩
  · rw [Real.le_sqrt' h, sq]
    exact ⟨Or.inr, fun h' => h'.resolve_left (not_le.mpr h)⟩

theorem sqrtLe_real (d a : ℝ) : Impl.sqrtLe d a = decide (Real.sqrt d ≤ a) := by
  rw [Bool.eq_iff_iff, sqrtLe_iff, decide_eq_true_iff, sqrt_le_iff_poly]

theorem leSqrt_real (a d : ℝ) : Impl.leSqrt a d = decide (a ≤ Real.sqrt d) := by
  rw [Bool.eq_iff_iff, leSqrt_iff, decide_eq_true_iff, le_sqrt_iff_poly]

theorem circularCode_eq_poly (r ys xs : ℝ) :
    Impl.circularCode Real.sqrt r ys xs = Impl.circularPoly r ys xs := by
  simp only [Impl.circularCode, Impl.circularPoly, Impl.rCode, Impl.r2, sqrtLe_real]
  congr

theorem annularCode_eq_poly (inner outer ys xs : ℝ) :
    Impl.annularCode Real.sqrt inner outer ys xs = Impl.annularPoly inner outer ys xs := by
  simp only [Impl.annularCode, Impl.annularPoly, Impl.rCode, Impl.r2, sqrtLe_real, leSqrt_real]
  congr

theorem antiAnnularCode_eq_poly (inner outer outer2 ys xs : ℝ) :
    Impl.antiAnnularCode Real.sqrt inner outer outer2 ys xs
      = Impl.antiAnnularPoly inner outer outer2 ys xs := by
  simp only [Impl.antiAnnularCode, Impl.antiAnnularPoly, Impl.rCode, Impl.r2, sqrtLe_real, leSqrt_real]
  congr

/-- polar decomposition used by `elliptical_radius_from`: `r·cos(arctan2(y,x)) = x`, `r·sin(…) = y` -/
theorem polar_decomposition (ys xs : ℝ) :
    Real.sqrt (xs * xs + ys * ys) * Real.cos (realArctan2 ys xs) = xs
    ∧ Real.sqrt (xs * xs + ys * ys) * Real.sin (realArctan2 ys xs) = ys := by
  have hn : ‖(⟨xs, ys⟩ : ℂ)‖ = Real.sqrt (xs * xs + ys * ys) := by
    rw [Complex.norm_def, Complex.normSq_mk]
  constructor
  · have := Complex.norm_mul_cos_arg (⟨xs, ys⟩ : ℂ)
    rw [hn] at this; exact this
  · have := Complex.norm_mul_sin_arg (⟨xs, ys⟩ : ℂ)
    rw [hn] at this; exact this

/-- the code's elliptical radius is the square root of the polynomial `ellR2` at `(cos φ, sin φ)` -/
theorem ellRadiusCode_eq (ys xs angle q : ℝ) :
    Impl.ellRadiusCode Real.sqrt realArctan2 Real.sin Real.cos realRadians ys xs angle q
      = Real.sqrt (Impl.ellR2 (realCS angle) q ys xs) := by
  obtain ⟨hc, hs⟩ := polar_decomposition ys xs
  simp only [Impl.ellRadiusCode, Impl.ellR2, realCS]
  congr 1
  have hx : Real.sqrt (xs * xs + ys * ys) * Real.cos (realArctan2 ys xs + realRadians angle)
      = xs * Real.cos (realRadians angle) - ys * Real.sin (realRadians angle) := by
    rw [Real.cos_add]
    calc Real.sqrt (xs * xs + ys * ys)
          * (Real.cos (realArctan2 ys xs) * Real.cos (realRadians angle)
            - Real.sin (realArctan2 ys xs) * Real.sin (realRadians angle))
        = (Real.sqrt (xs * xs + ys * ys) * Real.cos (realArctan2 ys xs)) * Real.cos (realRadians angle)
          - (Real.sqrt (xs * xs + ys * ys) * Real.sin (realArctan2 ys xs)) * Real.sin (realRadians angle) := by
            ring
      _ = _ := by rw [hc, hs]
  have hy : Real.sqrt (xs * xs + ys * ys) * Real.sin (realArctan2 ys xs + realRadians angle)
      = ys * Real.cos (realRadians angle) + xs * Real.sin (realRadians angle) := by
    rw [Real.sin_add]
    calc Real.sqrt (xs * xs + ys * ys)
          * (Real.sin (realArctan2 ys xs) * Real.cos (realRadians angle)
            + Real.cos (realArctan2 ys xs) * Real.sin (realRadians angle))
        = (Real.sqrt (xs * xs + ys * ys) * Real.sin (realArctan2 ys xs)) * Real.cos (realRadians angle)
          + (Real.sqrt (xs * xs + ys * ys) * Real.cos (realArctan2 ys xs)) * Real.sin (realRadians angle) := by
            ring
      _ = _ := by rw [hc, hs]
  rw [hx, hy]

theorem ellipticalCode_eq_poly (major q angle ys xs : ℝ) :
    Impl.ellipticalCode Real.sqrt realArctan2 Real.sin Real.cos realRadians major q angle ys xs
      = Impl.ellipticalPoly major q (realCS angle) ys xs := by
  simp only [Impl.ellipticalCode, Impl.ellipticalPoly, ellRadiusCode_eq, sqrtLe_real]

theorem ellipticalAnnularCode_eq_poly (innerMajor innerQ innerPhi outerMajor outerQ outerPhi ys xs : ℝ) :
    Impl.ellipticalAnnularCode Real.sqrt realArctan2 Real.sin Real.cos realRadians
        innerMajor innerQ innerPhi outerMajor outerQ outerPhi ys xs
      = Impl.ellipticalAnnularPoly innerMajor innerQ (realCS innerPhi) outerMajor outerQ (realCS outerPhi)
          ys xs := by
  simp only [Impl.ellipticalAnnularCode, Impl.ellipticalAnnularPoly, ellRadiusCode_eq, sqrtLe_real,
    leSqrt_real]

/-- the libm contract of Proofs/MaskShapesAbstract.lean holds for the real functions -/
theorem libmSpec_real : LibmSpec Real.sqrt realArctan2 Real.sin Real.cos where
  sqrt_nonneg := fun x _ => Real.sqrt_nonneg x
  sqrt_mul_self := fun _ hx => Real.mul_self_sqrt hx
  polar_cos := fun y x => (polar_decomposition y x).1
  polar_sin := fun y x => (polar_decomposition y x).2
  cos_add := Real.cos_add
  sin_add := Real.sin_add

end Model
