/-
Proofs/NNLS.lean — helper lemmas for Model/NNLS.lean (property C05), part 1:
  * the driver's solver instance meets the solve contract (`checkedSolve_sound`);
  * list algebra ↔ finite sums (`dot_eq_sum`, `vget_matVec`, …);
  * the quadratic-form identity  q(x) − q(s) = (x−s)·g + ½ (x−s)ᵀA(x−s)  and the
    complementary-slackness inequality, on finite sums over `Finset.range n`.
-/
import Model.NNLS
import Mathlib.Tactic.Ring
import Mathlib.Tactic.Linarith
import Mathlib.Algebra.BigOperators.Group.Finset.Basic
import Mathlib.Algebra.BigOperators.Ring.Finset
import Mathlib.Algebra.Order.BigOperators.Group.Finset
import Mathlib.Algebra.Order.Field.Basic
import Mathlib.Tactic.FieldSimp

set_option linter.unusedSectionVars false

namespace Model

/-! ### the solver instance -/

section
variable {α : Type} [Add α] [Sub α] [Mul α] [Div α] [OfNat α 0] [DecidableEq α]

/-- The solver instance used by the driver satisfies the solve contract by construction: its result is
    checked against the system before it is returned. -/
theorem checkedSolve_sound (A : List (List α)) (b x : List α) (h : checkedSolve A b = some x) :
    x.length = b.length ∧ matVec A x = b := by
  unfold checkedSolve at h
  split at h
  · exact absurd h (by simp)
  · split at h
    · rename_i hc
      cases h
      exact ⟨hc.1, hc.2.2⟩
    · exact absurd h (by simp)

theorem checkedSolve_contract : Spec.SolveContract (checkedSolve (α := α)) :=
  fun M r x h => checkedSolve_sound M r x h

end

/-! ### lists ↔ finite sums -/

section Ring
variable {α : Type} [CommRing α]

theorem vget_cons_succ (a : α) (as : List α) (i : ℕ) : vget (a :: as) (i + 1) = vget as i := by
  simp [vget]

theorem vget_cons_zero (a : α) (as : List α) : vget (a :: as) 0 = a := by
  simp [vget]

theorem vget_of_le (v : List α) (i : ℕ) (h : v.length ≤ i) : vget v i = 0 := by
  simp [vget, List.getD_eq_getElem?_getD, List.getElem?_eq_none h]

theorem vget_eq_getElem (v : List α) (i : ℕ) (h : i < v.length) : vget v i = v[i] := by
  simp [vget, List.getD_eq_getElem?_getD, List.getElem?_eq_getElem h]

theorem dot_eq_sum (n : ℕ) : ∀ (x y : List α), x.length = n → y.length = n →
    dot x y = ∑ i ∈ Finset.range n, vget x i * vget y i := by
  induction n with
  | zero =>
    intro x y hx hy
    cases x <;> cases y <;> simp_all [dot]
  | succ n ih =>
    intro x y hx hy
    match x, y, hx, hy with
    | a :: as, b :: bs, hx, hy =>
      simp only [List.length_cons, Nat.add_right_cancel_iff] at hx hy
      rw [Finset.sum_range_succ', dot, ih as bs hx hy]
      simp [vget, add_comm]

theorem matVec_length (A : List (List α)) (x : List α) : (matVec A x).length = A.length := by
  simp [matVec]

theorem mget_eq (A : List (List α)) (i j : ℕ) (hi : i < A.length) : mget A i j = vget A[i] j := by
  simp [mget, vget, List.getD_eq_getElem?_getD, List.getElem?_eq_getElem hi]

/-- `(A x)_i = Σ_j A_ij x_j` -/
theorem vget_matVec (n : ℕ) (A : List (List α)) (x : List α) (hA : A.length = n)
    (hrow : ∀ r, r ∈ A → r.length = n) (hx : x.length = n) (i : ℕ) (hi : i < n) :
    vget (matVec A x) i = ∑ j ∈ Finset.range n, mget A i j * vget x j := by
  have hi' : i < A.length := hA ▸ hi
  have h1 : vget (matVec A x) i = dot A[i] x := by
    rw [vget_eq_getElem _ _ (by simpa [matVec] using hi')]
    simp [matVec]
  rw [h1, dot_eq_sum n A[i] x (hrow _ (List.getElem_mem hi')) hx]
  exact Finset.sum_congr rfl fun j _ => by rw [mget_eq A i j hi']

theorem vsub_length (x y : List α) : (vsub x y).length = min x.length y.length := by
  simp [vsub]

theorem vget_vsub (x y : List α) (i : ℕ) (hx : i < x.length) (hy : i < y.length) :
    vget (vsub x y) i = vget x i - vget y i := by
  rw [vget_eq_getElem _ _ (by simp [vsub]; omega), vget_eq_getElem _ _ hx, vget_eq_getElem _ _ hy]
  simp [vsub]

/-! ### the bilinear form on index functions -/

/-- `uᵀ M v` over indices `< n` -/
def bil (n : ℕ) (M : ℕ → ℕ → α) (u v : ℕ → α) : α :=
  ∑ i ∈ Finset.range n, u i * ∑ j ∈ Finset.range n, M i j * v j

theorem bil_sub_left (n : ℕ) (M : ℕ → ℕ → α) (u u' v : ℕ → α) :
    bil n M (fun i => u i - u' i) v = bil n M u v - bil n M u' v := by
  simp only [bil, sub_mul, Finset.sum_sub_distrib]

theorem bil_sub_right (n : ℕ) (M : ℕ → ℕ → α) (u v v' : ℕ → α) :
    bil n M u (fun j => v j - v' j) = bil n M u v - bil n M u v' := by
  simp only [bil, mul_sub, Finset.sum_sub_distrib]

theorem bil_symm (n : ℕ) (M : ℕ → ℕ → α) (hM : ∀ i j, i < n → j < n → M i j = M j i) (u v : ℕ → α) :
    bil n M u v = bil n M v u := by
  simp only [bil, Finset.mul_sum]
  rw [Finset.sum_comm]
  refine Finset.sum_congr rfl fun i hi => Finset.sum_congr rfl fun j hj => ?_
  rw [hM j i (Finset.mem_range.mp hj) (Finset.mem_range.mp hi)]
  ring

end Ring

section Field
variable {α : Type} [Field α]

/-- index-function form of the objective -/
def qfun (n : ℕ) (M : ℕ → ℕ → α) (b x : ℕ → α) : α :=
  bil n M x x / 2 - ∑ i ∈ Finset.range n, b i * x i

/-- q(x) − q(s) = (x − s)·(M s − b) + ½ (x−s)ᵀ M (x−s) for symmetric M -/
theorem qfun_sub (h2 : (2 : α) ≠ 0) (n : ℕ) (M : ℕ → ℕ → α)
    (hM : ∀ i j, i < n → j < n → M i j = M j i) (b x s : ℕ → α) :
    qfun n M b x - qfun n M b s
      = (∑ i ∈ Finset.range n, (x i - s i) * ((∑ j ∈ Finset.range n, M i j * s j) - b i))
        + bil n M (fun i => x i - s i) (fun i => x i - s i) / 2 := by
  have h1 : (∑ i ∈ Finset.range n, (x i - s i) * ((∑ j ∈ Finset.range n, M i j * s j) - b i))
      = bil n M x s - bil n M s s - (∑ i ∈ Finset.range n, b i * x i)
          + ∑ i ∈ Finset.range n, b i * s i := by
    simp only [bil, ← Finset.sum_sub_distrib, ← Finset.sum_add_distrib]
    exact Finset.sum_congr rfl fun i _ => by ring
  rw [h1, bil_sub_left, bil_sub_right, bil_sub_right, bil_symm n M hM s x]
  simp only [qfun]
  field_simp
  ring

end Field

section Ordered
variable {α : Type} [Field α] [LinearOrder α] [IsStrictOrderedRing α]

/-- complementary slackness: if `s ≥ 0`, the gradient `g` vanishes where `s > 0` and is `≥ −tol` where
    `s = 0`, then `(x − s)·g ≥ −tol·Σx` for every `x ≥ 0`. -/
theorem slackness (n : ℕ) (s g x : ℕ → α) (tol : α) (htol : 0 ≤ tol)
    (hs : ∀ i, i < n → 0 ≤ s i) (hpos : ∀ i, i < n → 0 < s i → g i = 0)
    (hzero : ∀ i, i < n → s i = 0 → -tol ≤ g i) (hx : ∀ i, i < n → 0 ≤ x i) :
    -(tol * ∑ i ∈ Finset.range n, x i) ≤ ∑ i ∈ Finset.range n, (x i - s i) * g i := by
  rw [Finset.mul_sum, ← Finset.sum_neg_distrib]
  refine Finset.sum_le_sum fun i hi => ?_
  have hi' := Finset.mem_range.mp hi
  rcases (hs i hi').lt_or_eq with h | h
  · rw [hpos i hi' h]; nlinarith [hx i hi', mul_nonneg htol (hx i hi')]
  · have hz := hzero i hi' h.symm
    rw [← h]; nlinarith [hx i hi']

/-! ### the list-level objective in index-function form -/

theorem qform_eq_qfun (n : ℕ) (A : List (List α)) (b s : List α) (hA : A.length = n)
    (hrow : ∀ r, r ∈ A → r.length = n) (hb : b.length = n) (hs : s.length = n) :
    Spec.qform A b s = qfun n (mget A) (vget b) (vget s) := by
  unfold Spec.qform qfun bil
  rw [dot_eq_sum n s (matVec A s) hs (by rw [matVec_length, hA]), dot_eq_sum n b s hb hs]
  congr 2
  exact Finset.sum_congr rfl fun i hi => by
    rw [vget_matVec n A s hA hrow hs i (Finset.mem_range.mp hi)]

/-- `vᵀ A v` of a list in index-function form -/
theorem dot_matVec_eq_bil (n : ℕ) (A : List (List α)) (v : List α) (hA : A.length = n)
    (hrow : ∀ r, r ∈ A → r.length = n) (hv : v.length = n) :
    dot v (matVec A v) = bil n (mget A) (vget v) (vget v) := by
  unfold bil
  rw [dot_eq_sum n v (matVec A v) hv (by rw [matVec_length, hA])]
  exact Finset.sum_congr rfl fun i hi => by
    rw [vget_matVec n A v hA hrow hv i (Finset.mem_range.mp hi)]

theorem bil_congr (n : ℕ) (M : ℕ → ℕ → α) (u u' v v' : ℕ → α) (hu : ∀ i, i < n → u i = u' i)
    (hv : ∀ i, i < n → v i = v' i) : bil n M u v = bil n M u' v' := by
  unfold bil
  refine Finset.sum_congr rfl fun i hi => ?_
  rw [hu i (Finset.mem_range.mp hi)]
  congr 1
  exact Finset.sum_congr rfl fun j hj => by rw [hv j (Finset.mem_range.mp hj)]

/-- The optimality gap of a KKT point (slack `tol ≥ 0` on the dual inequality):
    for symmetric `A` and every `x ≥ 0`,
    `q(x) − q(s) ≥ ½ (x−s)ᵀA(x−s) − tol·Σx`. -/
theorem kkt_gap (n : ℕ) (A : List (List α)) (b s x : List α) (tol : α) (htol : 0 ≤ tol)
    (hsym : Spec.IsSymm n A) (hb : b.length = n) (hs : s.length = n) (hx : x.length = n)
    (hk : Spec.IsKKT A b s tol) (hxn : Spec.Nonneg x) :
    dot (vsub x s) (matVec A (vsub x s)) / 2 - tol * ∑ i ∈ Finset.range n, vget x i
      ≤ Spec.qform A b x - Spec.qform A b s := by
  obtain ⟨hA, hrow, hM⟩ := hsym
  have hv : (vsub x s).length = n := by rw [vsub_length, hx, hs, Nat.min_self]
  rw [qform_eq_qfun n A b x hA hrow hb hx, qform_eq_qfun n A b s hA hrow hb hs,
    qfun_sub two_ne_zero n (mget A) hM, dot_matVec_eq_bil n A _ hA hrow hv,
    bil_congr n (mget A) (vget (vsub x s)) (fun i => vget x i - vget s i) (vget (vsub x s))
      (fun i => vget x i - vget s i)
      (fun i hi => vget_vsub x s i (hx ▸ hi) (hs ▸ hi)) (fun i hi => vget_vsub x s i (hx ▸ hi) (hs ▸ hi))]
  have hsl := slackness n (vget s) (fun i => (∑ j ∈ Finset.range n, mget A i j * vget s j) - vget b i)
    (vget x) tol htol
    (fun i hi => (hk i (hb ▸ hi)).1)
    (fun i hi hp => by
      have := (hk i (hb ▸ hi)).2.1 hp
      rw [vget_matVec n A s hA hrow hs i hi] at this
      simp [this])
    (fun i hi hz => by
      have := (hk i (hb ▸ hi)).2.2 hz
      rw [vget_matVec n A s hA hrow hs i hi] at this
      linarith)
    (fun i _ => hxn i)
  linarith

/-- the executable check the driver evaluates on the model's result implies the KKT predicate -/
theorem isKKTb_sound (A : List (List α)) (b s : List α) (tol : α)
    (h : Spec.isKKTb A b s tol = true) : Spec.IsKKT A b s tol := by
  unfold Spec.isKKTb at h
  simp only [List.all_eq_true, List.mem_range, Bool.and_eq_true, decide_eq_true_eq] at h
  intro i hi
  obtain ⟨⟨h1, h2⟩, h3⟩ := h i hi
  refine ⟨h1, fun hp => ?_, fun hz => ?_⟩
  · simpa [hp] using h2
  · simpa [hz] using h3

end Ordered

end Model
