/-
Proofs/NNLSCount.lean — property C05, part 6: the counting step of the finite-termination argument in exact
arithmetic (`tol = 0`, symmetric positive definite `A`, solver contract).
  * `masks_nodup_length_le`: a duplicate-free list of masks of length n has ≤ 2^n entries;
  * `faceMin_unique`: the stationary point of a face is unique, so a passive set seen at a loop head cannot
    be seen again after a strict decrease of the objective;
  * `innerLoop_outcome`: with `loop_count2 + |P| ≤ maxIter` the inner loop returns or a solve fails;
  * `outerLoop_exact` / `fnnls_exact`: with `2^n + n ≤ maxIter` (the code's two iteration guards and the
    `no_update` break cannot fire) the solver leaves through its main exit, or a linear solve failed.
-/
import Model.NNLS
import Proofs.NNLS
import Proofs.NNLSLoop
import Proofs.NNLSTerm
import Proofs.NNLSDescent

set_option linter.unusedSectionVars false

namespace Model
open Impl

/-! ### counting passive sets -/

/-- all boolean masks of length `n` -/
def allMasks : ℕ → List (List Bool)
  | 0 => [[]]
  | n + 1 => (allMasks n).flatMap fun m => [false :: m, true :: m]

theorem allMasks_length (n : ℕ) : (allMasks n).length = 2 ^ n := by
  induction n with
  | zero => rfl
  | succ n ih =>
    simp only [allMasks, List.length_flatMap, List.length_cons, List.length_nil]
    rw [List.map_const', List.sum_replicate, ih]
    simp [pow_succ]

theorem mem_allMasks (n : ℕ) : ∀ m : List Bool, m.length = n → m ∈ allMasks n := by
  induction n with
  | zero => intro m hm; simp [allMasks, List.length_eq_zero_iff.mp hm]
  | succ n ih =>
    intro m hm
    cases m with
    | nil => simp at hm
    | cons p ps =>
      simp only [allMasks, List.mem_flatMap]
      refine ⟨ps, ih ps (by simpa using hm), ?_⟩
      cases p <;> simp

/-- a duplicate-free list of masks of length `n` has at most `2^n` entries -/
theorem masks_nodup_length_le (n : ℕ) (visited : List (List Bool)) (hnd : visited.Nodup)
    (hl : ∀ V, V ∈ visited → V.length = n) : visited.length ≤ 2 ^ n := by
  rw [← allMasks_length n]
  exact hnd.length_le_of_subset fun V hV => mem_allMasks n V (hl V hV)

section Ordered
variable {α : Type} [Field α] [LinearOrder α] [IsStrictOrderedRing α]

/-! ### bookkeeping of the counters -/

theorem count_set_true (P : List Bool) (i : ℕ) (hi : i < P.length) (hp : pget P i = false) :
    (P.set i true).count true = P.count true + 1 := by
  rw [List.count_set hi]
  have : P[i] = false := by rw [← pget_eq_getElem P i hi]; exact hp
  simp [this]

theorem fixConstraint_counters (solve : List (List α) → List α → Option (List α))
    (A : List (List α)) (b : List α) (tol : α) (st st1 : St α)
    (h : fixConstraint solve A b tol st = some st1) :
    st1.loopCount = st.loopCount ∧ st1.loopCount2 = st.loopCount2 := by
  unfold fixConstraint at h
  simp only at h
  split at h
  · cases h; exact ⟨rfl, rfl⟩
  · split at h
    · simp at h
    · cases h; exact ⟨rfl, rfl⟩

theorem fixConstraint_none (solve : List (List α) → List α → Option (List α))
    (A : List (List α)) (b : List α) (tol : α) (st : St α)
    (h : fixConstraint solve A b tol st = none) : ∃ idx, solveOn solve A b idx = none := by
  unfold fixConstraint at h
  simp only at h
  split at h
  · simp at h
  · split at h
    · rename_i hx; exact ⟨_, hx⟩
    · simp at h

/-- when the budget of inner passes cannot be exhausted (`loop_count2 + |P| ≤ maxIter`) the inner loop
    returns a state or fails in a linear solve; it keeps `loop_count` -/
theorem innerLoop_outcome (solve : List (List α) → List α → Option (List α))
    (A : List (List α)) (b : List α) (n : ℕ) (tol : α) (htol : 0 ≤ tol) (maxIter : ℕ) :
    ∀ (fuel : ℕ) (st : St α), st.P.length = n → st.s.length = n → st.d.length = n →
      st.P.count true < fuel → st.loopCount2 + st.P.count true ≤ maxIter →
      (∃ st2, innerLoop solve A b tol maxIter fuel st = .ok st2 ∧ st2.loopCount = st.loopCount)
      ∨ (innerLoop solve A b tol maxIter fuel st = .error .singular
          ∧ ∃ idx, solveOn solve A b idx = none) := by
  intro fuel
  induction fuel with
  | zero => intro st _ _ _ hf; omega
  | succ fuel ih =>
    intro st hP hs hd hf hb
    rw [innerLoop]
    split
    · rename_i hg
      split
      · rename_i hnone
        exact Or.inr ⟨rfl, fixConstraint_none solve A b tol st hnone⟩
      · rename_i st1 hfix
        obtain ⟨hlt, hP1, hs1, hd1, hlc⟩ :=
          fixConstraint_shrinks solve A b n tol htol st st1 hP hs hd hg hfix
        have hcnt := (fixConstraint_counters solve A b tol st st1 hfix).1
        simp only
        split
        · rename_i hgt; omega
        · rcases ih { st1 with loopCount2 := st1.loopCount2 + 1 } hP1 hs1 hd1
            (by show st1.P.count true < fuel; omega)
            (by show st1.loopCount2 + 1 + st1.P.count true ≤ maxIter; omega) with ⟨st2, h1, h2⟩ | h1
          · exact Or.inl ⟨st2, h1, by rw [h2]; exact hcnt⟩
          · exact Or.inr h1
    · exact Or.inl ⟨st, rfl, rfl⟩

/-! ### face minimisers -/

/-- `x` is stationary on the face `{x : x_i = 0 for i ∉ P}` -/
def FaceMin (n : ℕ) (A : List (List α)) (b : List α) (P : List Bool) (x : List α) : Prop :=
  x.length = n ∧ (∀ i, i < n → pget P i = false → vget x i = 0)
    ∧ (∀ i, i < n → pget P i = true → vget (matVec A x) i = vget b i)

/-- for symmetric positive definite `A` the stationary point of a face is unique -/
theorem faceMin_unique (n : ℕ) (A : List (List α)) (b : List α) (hsym : Spec.IsSymm n A)
    (hpd : Spec.IsPD n A) (hb : b.length = n) (P : List Bool) (x y : List α)
    (hx : FaceMin n A b P x) (hy : FaceMin n A b P y) : x = y := by
  have hface : ∀ (u v : List α), FaceMin n A b P u → FaceMin n A b P v →
      ∀ i, i < n → vget u i = vget v i ∨ vget (matVec A v) i = vget b i := by
    intro u v hu hv i hi
    cases hp : pget P i with
    | false => left; rw [hu.2.1 i hi hp, hv.2.1 i hi hp]
    | true => right; exact hv.2.2 i hi hp
  have g1 := face_gap n A b x y hsym hb hx.1 hy.1 (hface x y hx hy)
  have g2 := face_gap n A b y x hsym hb hy.1 hx.1 (hface y x hy hx)
  rw [gapE_comm n A y x] at g2
  have hE : gapE n A x y = 0 := by linarith
  apply List.ext_getElem (by rw [hx.1, hy.1])
  intro i h1 h2
  by_contra hne
  have := gapE_pos n A x y hsym.1 hsym.2.1 hpd hx.1 hy.1 i (hx.1 ▸ h1)
    (by rwa [vget_eq_getElem _ _ h1, vget_eq_getElem _ _ h2])
  rw [hE] at this
  exact lt_irrefl _ this

omit [IsStrictOrderedRing α] in
theorem isPSD_of_isPD (n : ℕ) (A : List (List α)) (hA : A.length = n) (hpd : Spec.IsPD n A) :
    Spec.IsPSD n A := by
  intro v hv
  by_cases h : ∃ i, vget v i ≠ 0
  · exact (hpd v hv h).le
  · push Not at h
    have : dot v (matVec A v) = 0 := by
      rw [dot_eq_sum n v (matVec A v) hv (by rw [matVec_length, hA])]
      exact Finset.sum_eq_zero fun i _ => by rw [h i, zero_mul]
    rw [this]

theorem IInv.faceMin (n : ℕ) (A : List (List α)) (b : List α) (st : St α) (h : IInv n A b st) :
    FaceMin n A b st.P st.s :=
  ⟨h.hs, h.off, fun i hi hp => h.solves i ((h.sync i hi).mp hp)⟩

theorem initState_counters (solve : List (List α) → List α → Option (List α))
    (A : List (List α)) (b : List α) (tol : α) (pInit : Option (List ℕ)) (st : St α)
    (h : initState solve A b tol pInit = some st) : st.loopCount = 0 ∧ st.loopCount2 = 0 := by
  unfold initState at h
  cases pInit with
  | none => simp only at h; cases h; exact ⟨rfl, rfl⟩
  | some idx =>
    simp only at h
    split at h
    · simp at h
    · split at h <;> (cases h; exact ⟨rfl, rfl⟩)

variable (solve : List (List α) → List α → Option (List α)) (hc : Spec.SolveContract solve)
variable (n : ℕ) (A : List (List α)) (b : List α) (hsym : Spec.IsSymm n A) (hpd : Spec.IsPD n A)
  (hb : b.length = n)

include hc hsym hpd hb in
/-- Exact arithmetic, symmetric PD: the passive sets seen at the head of the outer loop never repeat, so
    with more than `2^n − (number already seen)` iterations of budget, and the code's guards out of
    reach (`2^n + n ≤ maxIter`), the loop ends through its main exit (or in a failed solve). -/
theorem outerLoop_exact (maxIter : ℕ) (hmax : 2 ^ n + n ≤ maxIter) :
    ∀ (fuel : ℕ) (st : St α) (visited : List (List Bool)),
      OInv n A b 0 st → visited.Nodup → (∀ V, V ∈ visited → V.length = n) →
      (∀ V, V ∈ visited → ∀ x, FaceMin n A b V x → Spec.qform A b st.d < Spec.qform A b x) →
      st.loopCount ≤ visited.length →
      st.loopCount2 + st.P.count true ≤ st.loopCount + n →
      2 ^ n < fuel + visited.length →
      (∃ d lc lc2, outerLoop solve A b 0 maxIter fuel st = .ok d .main lc lc2)
        ∨ (outerLoop solve A b 0 maxIter fuel st = .err .singular
            ∧ ∃ idx, solveOn solve A b idx = none) := by
  have hA := hsym.1
  have hrow := hsym.2.1
  intro fuel
  induction fuel with
  | zero =>
    intro st visited _ hnd hl _ _ _ hf
    have := masks_nodup_length_le n visited hnd hl
    omega
  | succ fuel ih =>
    intro st visited ho hnd hl hdesc hlc hlc2 hf
    have hinv := ho.inv
    have hwl : st.w.length = n := by rw [ho.hw, vsub_length, matVec_length, hA, hb, Nat.min_self]
    have hfd : FaceMin n A b st.P st.d := by rw [ho.hds]; exact hinv.faceMin
    have hPnew : st.P ∉ visited := fun hm => lt_irrefl _ (hdesc st.P hm st.d hfd)
    have hnd' : (st.P :: visited).Nodup := List.nodup_cons.mpr ⟨hPnew, hnd⟩
    have hl' : ∀ V, V ∈ st.P :: visited → V.length = n := by
      intro V hV
      rcases List.mem_cons.mp hV with rfl | hV
      · exact hinv.hP
      · exact hl V hV
    have hvis' := masks_nodup_length_le n (st.P :: visited) hnd' hl'
    simp only [List.length_cons] at hvis'
    rw [outerLoop]
    split
    · rename_i hg
      obtain ⟨hid, hpid⟩ := idmax_spec n st.w st.P 0 le_rfl hwl hinv.hP hg
      simp only
      split
      · rename_i hnone
        exact Or.inr ⟨rfl, _, hnone⟩
      · rename_i x hx
        have hI := outer_step_inv solve hc n A b hA hrow 0 st hinv _ hid hpid x hx
        have hcnt : (st.P.set (argmax (maskActive st.w st.P)) true).count true = st.P.count true + 1 :=
          count_set_true st.P _ (hinv.hP ▸ hid) hpid
        have hout := innerLoop_outcome solve A b n 0 le_rfl maxIter (maxIter + 2) _ hI.hP hI.hs hI.hd
          (by show (st.P.set (argmax (maskActive st.w st.P)) true).count true < maxIter + 2; omega)
          (by show st.loopCount2 + (st.P.set (argmax (maskActive st.w st.P)) true).count true ≤ maxIter
              omega)
        split
        · rename_i e heq
          rcases hout with ⟨st2, h1, _⟩ | ⟨h1, hw⟩
          · rw [heq] at h1; cases h1
          · rw [heq] at h1; cases h1; exact Or.inr ⟨rfl, hw⟩
        · rename_i st2 heq
          have hlc' : st2.loopCount = st.loopCount := by
            rcases hout with ⟨st2', h1, h2⟩ | ⟨h1, _⟩
            · rw [heq] at h1; cases h1; exact h2
            · rw [heq] at h1; cases h1
          have hdec := outer_step_decreases solve hc n A b hsym hpd hb maxIter st ho hg x hx _ st2 heq
          obtain ⟨hinv2, hpos2⟩ := innerLoop_inv solve hc n A b hA hrow 0 maxIter _ _ st2 hI heq
          have hterm := (innerLoop_terminates solve A b n 0 le_rfl maxIter (maxIter + 2) _ hI.hP hI.hs hI.hd
            (by show (st.P.set (argmax (maskActive st.w st.P)) true).count true < maxIter + 2; omega)).2
            st2 heq
          have hterm' : st2.loopCount2 + st2.P.count true ≤ st.loopCount2 + (st.P.count true + 1) := by
            rw [← hcnt]; exact hterm
          have hne : (st.P == st2.P) = false := by
            cases hbeq : (st.P == st2.P) with
            | false => rfl
            | true =>
              exfalso
              have hPP : st.P = st2.P := eq_of_beq hbeq
              have hf2 : FaceMin n A b st.P st2.s := by rw [hPP]; exact hinv2.faceMin
              have := faceMin_unique n A b hsym hpd hb st.P st2.s st.d hf2 hfd
              rw [this] at hdec
              exact lt_irrefl _ hdec
          generalize hnu : (if (st.P == st2.P) = true then st2.noUpdate + 1 else 0) = nu
          have hnu0 : nu = 0 := by rw [← hnu, hne]; simp
          subst hnu0
          split
          · rename_i hgt; omega
          · split
            · rename_i h3; omega
            · refine ih _ (st.P :: visited) ?_ hnd' hl' ?_ ?_ ?_ ?_
              · exact ⟨⟨hinv2.hP, hinv2.hs, hinv2.hs, hinv2.sync, hinv2.nodup, hinv2.range, hinv2.off,
                  hinv2.solves⟩, hpos2, rfl, rfl⟩
              · intro V hV y hy
                show Spec.qform A b st2.s < Spec.qform A b y
                rcases List.mem_cons.mp hV with rfl | hV
                · rw [faceMin_unique n A b hsym hpd hb _ y st.d hy hfd]; exact hdec
                · exact lt_trans hdec (hdesc V hV y hy)
              · show st2.loopCount + 1 ≤ (st.P :: visited).length
                simp only [List.length_cons]; omega
              · show st2.loopCount2 + st2.P.count true ≤ st2.loopCount + 1 + n
                omega
              · simp only [List.length_cons]; omega
    · exact Or.inl ⟨st.d, _, _, rfl⟩

include hc hsym hpd hb in
/-- `fnnls_cholesky` in exact arithmetic terminates through its main exit (or in a failed solve) -/
theorem fnnls_exact (maxIter : ℕ) (hmax : 2 ^ n + n ≤ maxIter) (pInit : Option (List ℕ))
    (hp : ∀ idx, pInit = some idx → idx.Nodup ∧ ∀ i, i ∈ idx → i < n) :
    (∃ d lc lc2, fnnls solve A b 0 maxIter pInit = .ok d .main lc lc2)
      ∨ (fnnls solve A b 0 maxIter pInit = .err .singular ∧ ∃ idx, solveOn solve A b idx = none) := by
  unfold fnnls
  split
  · rename_i hnone
    refine Or.inr ⟨rfl, ?_⟩
    unfold initState at hnone
    cases pInit with
    | none => simp at hnone
    | some idx =>
      simp only at hnone
      split at hnone
      · rename_i hx; exact ⟨_, hx⟩
      · split at hnone <;> simp at hnone
  · rename_i st0 h0
    have ho := initState_inv solve hc n A b hsym.1 hsym.2.1 0 pInit hp st0 h0
    obtain ⟨h1, h2⟩ := initState_counters solve A b 0 pInit st0 h0
    have hcnt : st0.P.count true ≤ n := by rw [← ho.inv.hP]; exact List.count_le_length
    exact outerLoop_exact solve hc n A b hsym hpd hb maxIter hmax (maxIter + 2) st0 []
      ho List.nodup_nil (by simp) (by simp) (by simp [h1]) (by omega) (by simp; omega)

end Ordered
end Model
