/-
Proofs/NNLSDescent.lean — property C05, part 5: the descent argument for the outer loop in exact arithmetic
(`tol = 0`, symmetric positive definite `A`, linear solves meeting the contract).
  * `face_gap`: if `y` is stationary wherever `x` and `y` differ, `q(x) − q(y) = ½ (x−y)ᵀA(x−y)`;
  * `fix_step_energy` / `innerLoop_nonincreasing`: `d` stays feasible and supported on the passive set, the
    step length lies in [0,1], and the objective never increases inside the inner loop;
  * `outer_step_decreases`: the entering variable is solved to a positive value and one outer iteration
    strictly decreases the objective; `outerLoop_objective`: monotone along the whole loop.
-/
import Model.NNLS
import Proofs.NNLS
import Proofs.NNLSLoop
import Proofs.NNLSTerm

set_option linter.unusedSectionVars false

namespace Model
open Impl

section Ordered
variable {α : Type} [Field α] [LinearOrder α] [IsStrictOrderedRing α]

/-! ### the energy distance `(x−y)ᵀA(x−y)` -/

/-- `(x − y)ᵀ A (x − y)` over indices `< n` -/
def gapE (n : ℕ) (A : List (List α)) (x y : List α) : α :=
  bil n (mget A) (fun i => vget x i - vget y i) (fun i => vget x i - vget y i)

theorem bil_smul (n : ℕ) (M : ℕ → ℕ → α) (c : α) (u v : ℕ → α) :
    bil n M (fun i => c * u i) (fun i => c * v i) = c * c * bil n M u v := by
  simp only [bil, Finset.mul_sum]
  refine Finset.sum_congr rfl fun i _ => Finset.sum_congr rfl fun j _ => ?_
  ring

theorem gapE_eq_dot (n : ℕ) (A : List (List α)) (x y : List α) (hA : A.length = n)
    (hrow : ∀ r, r ∈ A → r.length = n) (hx : x.length = n) (hy : y.length = n) :
    gapE n A x y = dot (vsub x y) (matVec A (vsub x y)) := by
  have hv : (vsub x y).length = n := by rw [vsub_length, hx, hy, Nat.min_self]
  rw [dot_matVec_eq_bil n A _ hA hrow hv]
  exact (bil_congr n (mget A) _ _ _ _ (fun i hi => vget_vsub x y i (hx ▸ hi) (hy ▸ hi))
    (fun i hi => vget_vsub x y i (hx ▸ hi) (hy ▸ hi))).symm

theorem gapE_pos (n : ℕ) (A : List (List α)) (x y : List α) (hA : A.length = n)
    (hrow : ∀ r, r ∈ A → r.length = n) (hpd : Spec.IsPD n A) (hx : x.length = n) (hy : y.length = n)
    (i : ℕ) (hi : i < n) (hne : vget x i ≠ vget y i) : 0 < gapE n A x y := by
  rw [gapE_eq_dot n A x y hA hrow hx hy]
  have hv : (vsub x y).length = n := by rw [vsub_length, hx, hy, Nat.min_self]
  refine hpd _ hv ⟨i, ?_⟩
  rw [vget_vsub x y i (hx ▸ hi) (hy ▸ hi)]
  exact sub_ne_zero.mpr hne

theorem gapE_nonneg (n : ℕ) (A : List (List α)) (x y : List α) (hA : A.length = n)
    (hrow : ∀ r, r ∈ A → r.length = n) (hpd : Spec.IsPD n A) (hx : x.length = n) (hy : y.length = n) :
    0 ≤ gapE n A x y := by
  by_cases h : ∃ i, i < n ∧ vget x i ≠ vget y i
  · obtain ⟨i, hi, hne⟩ := h
    exact (gapE_pos n A x y hA hrow hpd hx hy i hi hne).le
  · push Not at h
    have : gapE n A x y = 0 := by
      unfold gapE bil
      exact Finset.sum_eq_zero fun i hi => by
        show (vget x i - vget y i) * _ = 0
        rw [h i (Finset.mem_range.mp hi), sub_self, zero_mul]
    rw [this]

/-- `y` solves the stationarity equations wherever `x` and `y` differ ⇒ `q(x) − q(y) = ½ (x−y)ᵀA(x−y)`:
    `y` is the minimiser of `q` on the face containing `x`. -/
theorem face_gap (n : ℕ) (A : List (List α)) (b x y : List α) (hsym : Spec.IsSymm n A)
    (hb : b.length = n) (hx : x.length = n) (hy : y.length = n)
    (h : ∀ i, i < n → vget x i = vget y i ∨ vget (matVec A y) i = vget b i) :
    Spec.qform A b x - Spec.qform A b y = gapE n A x y / 2 := by
  obtain ⟨hA, hrow, hM⟩ := hsym
  rw [qform_eq_qfun n A b x hA hrow hb hx, qform_eq_qfun n A b y hA hrow hb hy,
    qfun_sub two_ne_zero n (mget A) hM]
  have hz : (∑ i ∈ Finset.range n, (vget x i - vget y i)
      * ((∑ j ∈ Finset.range n, mget A i j * vget y j) - vget b i)) = 0 := by
    refine Finset.sum_eq_zero fun i hi => ?_
    have hi' := Finset.mem_range.mp hi
    rcases h i hi' with h1 | h1
    · rw [h1, sub_self, zero_mul]
    · rw [vget_matVec n A y hA hrow hy i hi'] at h1
      rw [h1, sub_self, mul_zero]
  rw [hz, zero_add]; rfl

/-- moving from `d` towards `s` by the fraction `a` scales the energy distance to `s` by `(1−a)²` -/
theorem gapE_segment (n : ℕ) (A : List (List α)) (d d' s : List α) (a : α)
    (h : ∀ i, i < n → vget d' i = vget d i + a * (vget s i - vget d i)) :
    gapE n A d' s = (1 - a) * (1 - a) * gapE n A d s := by
  unfold gapE
  rw [← bil_smul]
  exact bil_congr n (mget A) _ _ _ _ (fun i hi => by rw [h i hi]; ring) (fun i hi => by rw [h i hi]; ring)

theorem gapE_comm (n : ℕ) (A : List (List α)) (x y : List α) : gapE n A x y = gapE n A y x := by
  unfold gapE
  have := bil_smul n (mget A) (-1 : α) (fun i => vget y i - vget x i) (fun i => vget y i - vget x i)
  rw [show ((-1 : α) * -1) = 1 by ring, one_mul] at this
  rw [← this]
  exact bil_congr n (mget A) _ _ _ _ (fun i _ => by ring) (fun i _ => by ring)

/-- the general gap formula on lists: `q(x) − q(y) = (x−y)·(A y − b) + ½ (x−y)ᵀA(x−y)` -/
theorem gap_general (n : ℕ) (A : List (List α)) (b x y : List α) (hsym : Spec.IsSymm n A)
    (hb : b.length = n) (hx : x.length = n) (hy : y.length = n) :
    Spec.qform A b x - Spec.qform A b y
      = (∑ i ∈ Finset.range n, (vget x i - vget y i) * (vget (matVec A y) i - vget b i))
        + gapE n A x y / 2 := by
  obtain ⟨hA, hrow, hM⟩ := hsym
  rw [qform_eq_qfun n A b x hA hrow hb hx, qform_eq_qfun n A b y hA hrow hb hy,
    qfun_sub two_ne_zero n (mget A) hM]
  congr 1
  exact Finset.sum_congr rfl fun i hi => by
    rw [vget_matVec n A y hA hrow hy i (Finset.mem_range.mp hi)]

/-! ### exact arithmetic (`tol = 0`): feasibility of `d` and monotonicity of the objective -/

/-- `d` is feasible and supported on the passive set -/
structure DInv (n : ℕ) (st : St α) : Prop where
  supp : ∀ i, i < n → pget st.P i = false → vget st.d i = 0
  nonneg : ∀ i, i < n → 0 ≤ vget st.d i

theorem ratioAt_bounds (d s : α) (hd : 0 ≤ d) (hs : s ≤ 0) : 0 ≤ ratioAt d s ∧ ratioAt d s ≤ 1 := by
  unfold ratioAt
  split
  · exact ⟨le_rfl, zero_le_one⟩
  · rename_i hne
    have hpos : 0 < d - s := lt_of_le_of_ne (by linarith) (Ne.symm hne)
    exact ⟨div_nonneg hd hpos.le, (div_le_one hpos).mpr (by linarith)⟩

theorem ratioAt_pos (d s : α) (hd : 0 < d) (hs : s ≤ 0) : 0 < ratioAt d s := by
  unfold ratioAt
  have hpos : 0 < d - s := by linarith
  rw [if_neg (ne_of_gt hpos)]
  exact div_pos hd hpos

theorem fixConstraint_fields (solve : List (List α) → List α → Option (List α))
    (A : List (List α)) (b : List α) (tol : α) (st st1 : St α)
    (h : fixConstraint solve A b tol st = some st1) :
    st1.d = fcD tol st ∧ st1.P = fcP tol st.P (fcD tol st) := by
  unfold fixConstraint at h
  simp only at h
  split at h
  · cases h; exact ⟨rfl, rfl⟩
  · split at h
    · simp at h
    · cases h; exact ⟨rfl, rfl⟩

variable (solve : List (List α) → List α → Option (List α)) (hc : Spec.SolveContract solve)
variable (n : ℕ) (A : List (List α)) (b : List α) (hsym : Spec.IsSymm n A) (hpd : Spec.IsPD n A)
  (hb : b.length = n)

theorem alpha_bounds (st : St α) (hinv : IInv n A b st) (hd : DInv n st)
    (hg : anyPassiveBelow st.s st.P 0 = true) : 0 ≤ fcAlpha 0 st ∧ fcAlpha 0 st ≤ 1 := by
  obtain ⟨j, hj, _, hsj, hα⟩ := fcAlpha_attained n 0 st hinv.hd hinv.hs hinv.hP hg
  rw [hα]
  exact ratioAt_bounds _ _ (hd.nonneg j hj) hsj

theorem fcD_nonneg (st : St α) (hinv : IInv n A b st) (hd : DInv n st)
    (hg : anyPassiveBelow st.s st.P 0 = true) : ∀ i, i < n → 0 ≤ vget (fcD 0 st) i := by
  obtain ⟨ha0, ha1⟩ := alpha_bounds n A b st hinv hd hg
  intro i hi
  rw [vget_fcD n 0 st hinv.hd hinv.hs i hi]
  cases hp : pget st.P i with
  | false => rw [hd.supp i hi hp, hinv.off i hi hp]; simp
  | true =>
    have hdi := hd.nonneg i hi
    by_cases hs : vget st.s i ≤ 0
    · have hle := fcAlpha_le n 0 st hinv.hd hinv.hs hinv.hP i hi hp hs
      unfold ratioAt at hle
      split at hle
      · rename_i h0
        have : vget st.s i - vget st.d i = 0 := by linarith
        rw [this, mul_zero, add_zero]; exact hdi
      · rename_i hne
        have hpos : 0 < vget st.d i - vget st.s i := lt_of_le_of_ne (by linarith) (Ne.symm hne)
        have := (le_div_iff₀ hpos).mp hle
        nlinarith
    · have hs' : 0 < vget st.s i := lt_of_not_ge hs
      nlinarith [mul_nonneg ha0 hs'.le, mul_nonneg (sub_nonneg.mpr ha1) hdi]

include hc hsym hpd hb in
/-- one pass of `fix_constraint` in exact arithmetic keeps all invariants and does not increase the
    objective; it decreases it strictly when the step is non-trivial -/
theorem fix_step_energy (st st1 : St α) (hinv : IInv n A b st) (hd : DInv n st)
    (hg : anyPassiveBelow st.s st.P 0 = true) (h : fixConstraint solve A b 0 st = some st1) :
    IInv n A b st1 ∧ DInv n st1 ∧ Spec.qform A b st1.d ≤ Spec.qform A b st.d
      ∧ (0 < fcAlpha 0 st → 0 < gapE n A st.d st.s → Spec.qform A b st1.d < Spec.qform A b st.d) := by
  have hA := hsym.1
  have hrow := hsym.2.1
  have hinv1 := fixConstraint_inv solve hc n A b hA hrow 0 st st1 hinv h
  obtain ⟨hd1, hP1⟩ := fixConstraint_fields solve A b 0 st st1 h
  obtain ⟨ha0, ha1⟩ := alpha_bounds n A b st hinv hd hg
  have hnn := fcD_nonneg n A b st hinv hd hg
  have hdl := fcD_length n 0 st hinv.hd hinv.hs
  have hseg : ∀ i, i < n → vget (fcD 0 st) i = vget st.d i + fcAlpha 0 st * (vget st.s i - vget st.d i) :=
    fun i hi => vget_fcD n 0 st hinv.hd hinv.hs i hi
  have hface : ∀ i, i < n → vget st.d i = vget st.s i ∨ vget (matVec A st.s) i = vget b i := by
    intro i hi
    cases hp : pget st.P i with
    | false => left; rw [hd.supp i hi hp, hinv.off i hi hp]
    | true => right; exact hinv.solves i ((hinv.sync i hi).mp hp)
  have hface' : ∀ i, i < n → vget (fcD 0 st) i = vget st.s i ∨ vget (matVec A st.s) i = vget b i := by
    intro i hi
    cases hp : pget st.P i with
    | false => left; rw [hseg i hi, hd.supp i hi hp, hinv.off i hi hp]; simp
    | true => right; exact hinv.solves i ((hinv.sync i hi).mp hp)
  have g1 := face_gap n A b st.d st.s hsym hb hinv.hd hinv.hs hface
  have g2 := face_gap n A b (fcD 0 st) st.s hsym hb hdl hinv.hs hface'
  rw [gapE_segment n A st.d (fcD 0 st) st.s (fcAlpha 0 st) hseg] at g2
  have hE := gapE_nonneg n A st.d st.s hA hrow hpd hinv.hd hinv.hs
  refine ⟨hinv1, ⟨?_, ?_⟩, ?_, ?_⟩
  · intro i hi hp
    rw [hd1]
    rw [hP1, pget_fcP n 0 st.P _ hinv.hP hdl i hi] at hp
    by_cases hle : vget (fcD 0 st) i ≤ 0
    · exact le_antisymm hle (hnn i hi)
    · simp only [hle, if_false] at hp
      rw [hseg i hi, hd.supp i hi hp, hinv.off i hi hp]; simp
  · intro i hi; rw [hd1]; exact hnn i hi
  · rw [hd1]; nlinarith [mul_nonneg (mul_nonneg ha0 (by linarith : (0:α) ≤ 2 - fcAlpha 0 st)) hE]
  · intro hapos hEpos
    rw [hd1]
    nlinarith [mul_pos (mul_pos hapos (by linarith : (0:α) < 2 - fcAlpha 0 st)) hEpos]

include hc hsym hpd hb in
/-- the inner loop in exact arithmetic never increases the objective: `q(s_chol at exit) ≤ q(d at entry)` -/
theorem innerLoop_nonincreasing (maxIter : ℕ) : ∀ (fuel : ℕ) (st st2 : St α), IInv n A b st → DInv n st →
    innerLoop solve A b 0 maxIter fuel st = .ok st2 →
    Spec.qform A b st2.s ≤ Spec.qform A b st.d := by
  have hA := hsym.1
  have hrow := hsym.2.1
  intro fuel
  induction fuel with
  | zero => intro st st2 _ _ h; simp [innerLoop] at h
  | succ fuel ih =>
    intro st st2 hinv hd h
    rw [innerLoop] at h
    split at h
    · rename_i hg
      split at h
      · simp at h
      · rename_i st1 hfix
        obtain ⟨hinv1, hd1, hle, _⟩ := fix_step_energy solve hc n A b hsym hpd hb st st1 hinv hd hg hfix
        simp only at h
        split at h
        · simp at h
        · have := ih { st1 with loopCount2 := st1.loopCount2 + 1 } st2
            ⟨hinv1.hP, hinv1.hs, hinv1.hd, hinv1.sync, hinv1.nodup, hinv1.range, hinv1.off, hinv1.solves⟩
            ⟨hd1.supp, hd1.nonneg⟩ h
          exact le_trans this hle
    · cases h
      have hface : ∀ i, i < n → vget st.d i = vget st.s i ∨ vget (matVec A st.s) i = vget b i := by
        intro i hi
        cases hp : pget st.P i with
        | false => left; rw [hd.supp i hi hp, hinv.off i hi hp]
        | true => right; exact hinv.solves i ((hinv.sync i hi).mp hp)
      have g1 := face_gap n A b st.d st.s hsym hb hinv.hd hinv.hs hface
      have hE := gapE_nonneg n A st.d st.s hA hrow hpd hinv.hd hinv.hs
      linarith

/-! ### one outer iteration -/

omit solve hc n A b hsym hpd hb in
/-- the entering index has `w > tol` -/
theorem idmax_gt (n : ℕ) (w : List α) (P : List Bool) (tol : α) (htol : 0 ≤ tol) (hw : w.length = n)
    (hP : P.length = n) (h : anyActiveAbove w P tol = true) :
    tol < vget w (argmax (maskActive w P)) := by
  obtain ⟨i, hi, hpi, hwi⟩ := anyActiveAbove_true n w P tol hw hP h
  obtain ⟨hid, hpid⟩ := idmax_spec n w P tol htol hw hP h
  have hlen : (maskActive w P).length = n := by simp [maskActive, hw, hP]
  have h2 := (argmax_spec (maskActive w P) (by omega)).2 i (by omega)
  rw [vget_maskActive n w P hw hP i hi, vget_maskActive n w P hw hP _ hid, hpi, hpid] at h2
  simp only [Bool.false_eq_true, if_false] at h2
  exact lt_of_lt_of_le hwi h2

include hc in
/-- the state handed to the inner loop by one outer iteration -/
theorem outer_step_inv (hA : A.length = n) (hrow : ∀ r, r ∈ A → r.length = n) (tol : α) (st : St α)
    (hinv : IInv n A b st) (im : ℕ) (hid : im < n) (hpid : pget st.P im = false) (x : List α)
    (hx : solveOn solve A b (st.Pin ++ [im]) = some x) :
    IInv n A b { st with P := st.P.set im true, Pin := st.Pin ++ [im], s := scatter st.s (st.Pin ++ [im]) x } := by
  have hP' : (st.P.set im true).length = n := by rw [List.length_set]; exact hinv.hP
  have hnotmem : im ∉ st.Pin := fun hm => by
    have := (hinv.sync _ hid).mpr hm
    rw [hpid] at this; exact absurd this (by simp)
  have hnd : (st.Pin ++ [im]).Nodup := by
    rw [List.nodup_append]
    refine ⟨hinv.nodup, by simp, ?_⟩
    intro a ha c hc'
    have : c = im := by simpa using hc'
    subst this
    intro hac; subst hac; exact hnotmem ha
  have hr : ∀ i, i ∈ st.Pin ++ [im] → i < n := by
    intro i hi
    rcases List.mem_append.mp hi with h1 | h1
    · exact hinv.range i h1
    · have : i = im := by simpa using h1
      rw [this]; exact hid
  have hsync : ∀ i, i < n → (pget (st.P.set im true) i = true ↔ i ∈ st.Pin ++ [im]) := by
    intro i hi
    rw [pget_set_true _ _ _ (hinv.hP ▸ hid), List.mem_append]
    by_cases he : i = im
    · simp [he]
    · simp [he, hinv.sync i hi]
  have hxl : x.length = (st.Pin ++ [im]).length := by
    have := (hc _ _ _ hx).1
    rwa [gather_length] at this
  have hsl : (scatter st.s (st.Pin ++ [im]) x).length = n := by rw [scatter_length, hinv.hs]
  have hoff : ∀ j, j < n → pget (st.P.set im true) j = false →
      vget (scatter st.s (st.Pin ++ [im]) x) j = 0 := by
    intro j hj hp
    have hnm : j ∉ st.Pin ++ [im] := fun hm => by
      have := (hsync j hj).mpr hm
      rw [hp] at this; exact absurd this (by simp)
    rw [vget_scatter_not_mem _ _ _ _ hnm]
    rw [pget_set_true _ _ _ (hinv.hP ▸ hid)] at hp
    by_cases he : j = im
    · simp [he] at hp
    · simp only [he, if_false] at hp
      exact hinv.off j hj hp
  refine ⟨hP', hsl, hinv.hd, hsync, hnd, hr, hoff, ?_⟩
  exact (solves_on solve hc n A b hA hrow _ hnd hr x hx _ hsl
    (fun k hk => vget_scatter_mem st.s _ x hnd (fun i hi => hinv.hs ▸ hr i hi) hxl k hk)
    (fun j hj hnm => hoff j hj (by
      cases hp : pget (st.P.set im true) j with
      | false => rfl
      | true => exact absurd ((hsync j hj).mp hp) hnm))).2

include hc hsym hpd hb in
/-- Exact arithmetic (`tol = 0`), symmetric positive definite `A`: one iteration of the outer loop — enter
    the index `argmax (w * ~P)`, solve, run the inner loop — strictly decreases the objective:
    `q(s_chol after the inner loop) < q(d before)`. -/
theorem outer_step_decreases (maxIter : ℕ) (st : St α) (ho : OInv n A b 0 st)
    (hg : anyActiveAbove st.w st.P 0 = true) (x : List α)
    (hx : solveOn solve A b (st.Pin ++ [argmax (maskActive st.w st.P)]) = some x)
    (fuel : ℕ) (st2 : St α)
    (hin : innerLoop solve A b 0 maxIter fuel
      { st with P := st.P.set (argmax (maskActive st.w st.P)) true,
                Pin := st.Pin ++ [argmax (maskActive st.w st.P)],
                s := scatter st.s (st.Pin ++ [argmax (maskActive st.w st.P)]) x } = .ok st2) :
    Spec.qform A b st2.s < Spec.qform A b st.d := by
  have hA := hsym.1
  have hrow := hsym.2.1
  have hinv := ho.inv
  have hwl : st.w.length = n := by rw [ho.hw, vsub_length, matVec_length, hA, hb, Nat.min_self]
  obtain ⟨hid, hpid⟩ := idmax_spec n st.w st.P 0 le_rfl hwl hinv.hP hg
  have hwt := idmax_gt n st.w st.P 0 le_rfl hwl hinv.hP hg
  generalize argmax (maskActive st.w st.P) = t at hx hin hid hpid hwt
  have hI := outer_step_inv solve hc n A b hA hrow 0 st hinv t hid hpid x hx
  generalize hsn : scatter st.s (st.Pin ++ [t]) x = sn at hin hI
  -- d is feasible and supported on the enlarged passive set
  have hdpos : ∀ i, i < n → pget st.P i = true → 0 < vget st.d i := fun i hi hp => by
    rw [ho.hds]; exact ho.pos i hi hp
  have hdzero : ∀ i, i < n → pget st.P i = false → vget st.d i = 0 := fun i hi hp => by
    rw [ho.hds]; exact hinv.off i hi hp
  have hD : DInv n ({ st with P := st.P.set t true, Pin := st.Pin ++ [t], s := sn } : St α) := by
    refine ⟨fun i hi hp => ?_, fun i hi => ?_⟩
    · have hp' : pget (st.P.set t true) i = false := hp
      rw [pget_set_true _ _ _ (hinv.hP ▸ hid)] at hp'
      by_cases he : i = t
      · simp [he] at hp'
      · simp only [he, if_false] at hp'
        exact hdzero i hi hp'
    · cases hp : pget st.P i with
      | true => exact (hdpos i hi hp).le
      | false => exact (hdzero i hi hp).ge
  have hsnl : sn.length = n := hI.hs
  -- w_t = b_t − (A d)_t
  have hwt' : vget st.w t = vget b t - vget (matVec A st.d) t := by
    rw [ho.hw, ho.hds, vget_vsub b _ t (hb ▸ hid) (by rw [matVec_length, hA]; exact hid)]
  have hsolv : ∀ i, i < n → pget (st.P.set t true) i = true → vget (matVec A sn) i = vget b i :=
    fun i hi hp => hI.solves i ((hI.sync i hi).mp hp)
  have hface : ∀ i, i < n → vget st.d i = vget sn i ∨ vget (matVec A sn) i = vget b i := by
    intro i hi
    cases hp : pget (st.P.set t true) i with
    | false => left; rw [hD.supp i hi hp, hI.off i hi hp]
    | true => right; exact hsolv i hi hp
  have g1 := face_gap n A b st.d sn hsym hb hinv.hd hsnl hface
  -- d ≠ s_new, so the energy is positive
  have hEpos : 0 < gapE n A st.d sn := by
    by_contra hnot
    have hall : ∀ i, i < n → vget st.d i = vget sn i := by
      intro i hi
      by_contra hne
      exact hnot (gapE_pos n A st.d sn hA hrow hpd hinv.hd hsnl i hi hne)
    have heq : st.d = sn := by
      apply List.ext_getElem (by rw [hinv.hd, hsnl])
      intro i h1 h2
      have := hall i (hinv.hd ▸ h1)
      rwa [vget_eq_getElem _ _ h1, vget_eq_getElem _ _ h2] at this
    have hpt : pget (st.P.set t true) t = true := by
      rw [pget_set_true _ _ _ (hinv.hP ▸ hid)]; simp
    have := hsolv t hid hpt
    rw [← heq] at this
    rw [hwt', this, sub_self] at hwt
    exact lt_irrefl _ hwt
  -- the entering variable is solved to a positive value
  have hst : 0 < vget sn t := by
    have g2 := gap_general n A b sn st.d hsym hb hsnl hinv.hd
    have hsum : (∑ i ∈ Finset.range n, (vget sn i - vget st.d i) * (vget (matVec A st.d) i - vget b i))
        = (vget sn t - vget st.d t) * (vget (matVec A st.d) t - vget b t) := by
      apply Finset.sum_eq_single t
      · intro i hi hne
        have hi' := Finset.mem_range.mp hi
        cases hp : pget st.P i with
        | true =>
          have : vget (matVec A st.d) i = vget b i := by
            rw [ho.hds]; exact hinv.solves i ((hinv.sync i hi').mp hp)
          rw [this, sub_self, mul_zero]
        | false =>
          have hp' : pget (st.P.set t true) i = false := by
            rw [pget_set_true _ _ _ (hinv.hP ▸ hid)]; simp [hne, hp]
          rw [hI.off i hi' hp', hdzero i hi' hp, sub_self, zero_mul]
      · intro hnot; exact absurd (Finset.mem_range.mpr hid) hnot
    rw [hsum, hdzero t hid hpid, gapE_comm n A sn st.d] at g2
    have hprod : vget sn t * vget st.w t = gapE n A st.d sn := by
      rw [hwt']; linarith
    by_contra hle
    have : vget sn t * vget st.w t ≤ 0 := mul_nonpos_of_nonpos_of_nonneg (le_of_not_gt hle) hwt.le
    linarith
  -- now run the inner loop
  cases fuel with
  | zero => simp [innerLoop] at hin
  | succ fuel =>
    rw [innerLoop] at hin
    split at hin
    · rename_i hgi
      split at hin
      · simp at hin
      · rename_i st1 hfix
        obtain ⟨hinv1, hd1, _, hstrict⟩ := fix_step_energy solve hc n A b hsym hpd hb _ st1 hI hD hgi hfix
        have hapos : 0 < fcAlpha 0 ({ st with P := st.P.set t true, Pin := st.Pin ++ [t], s := sn } : St α) := by
          obtain ⟨j, hj, hpj, hsj, hα⟩ := fcAlpha_attained n 0 _ hI.hd hI.hs hI.hP hgi
          rw [hα]
          have hpj' : pget (st.P.set t true) j = true := hpj
          have hsj' : vget sn j ≤ 0 := hsj
          have hjt : j ≠ t := fun h => by rw [h] at hsj'; exact absurd hst (not_lt.mpr hsj')
          rw [pget_set_true _ _ _ (hinv.hP ▸ hid)] at hpj'
          simp only [hjt, if_false] at hpj'
          exact ratioAt_pos _ _ (hdpos j hj hpj') hsj'
        have hlt := hstrict hapos hEpos
        simp only at hin
        split at hin
        · simp at hin
        · have := innerLoop_nonincreasing solve hc n A b hsym hpd hb maxIter fuel
            { st1 with loopCount2 := st1.loopCount2 + 1 } st2
            ⟨hinv1.hP, hinv1.hs, hinv1.hd, hinv1.sync, hinv1.nodup, hinv1.range, hinv1.off, hinv1.solves⟩
            ⟨hd1.supp, hd1.nonneg⟩ hin
          exact lt_of_le_of_lt this hlt
    · cases hin
      show Spec.qform A b sn < Spec.qform A b st.d
      linarith

include hc hsym hpd hb in
/-- Exact arithmetic, symmetric PD: along the whole outer loop the objective never increases, and it
    decreases strictly as soon as one iteration runs. -/
theorem outerLoop_objective (maxIter : ℕ) : ∀ (fuel : ℕ) (st : St α) (d : List α) (ex : Exit) (lc lc2 : ℕ),
    OInv n A b 0 st → outerLoop solve A b 0 maxIter fuel st = .ok d ex lc lc2 →
    Spec.qform A b d ≤ Spec.qform A b st.d
      ∧ (anyActiveAbove st.w st.P 0 = true → Spec.qform A b d < Spec.qform A b st.d) := by
  have hA := hsym.1
  have hrow := hsym.2.1
  intro fuel
  induction fuel with
  | zero => intro st d ex lc lc2 _ h; simp [outerLoop] at h
  | succ fuel ih =>
    intro st d ex lc lc2 ho h
    have hinv := ho.inv
    have hwl : st.w.length = n := by rw [ho.hw, vsub_length, matVec_length, hA, hb, Nat.min_self]
    rw [outerLoop] at h
    split at h
    · rename_i hg
      obtain ⟨hid, hpid⟩ := idmax_spec n st.w st.P 0 le_rfl hwl hinv.hP hg
      simp only at h
      split at h
      · simp at h
      · rename_i x hx
        split at h
        · simp at h
        · rename_i st2 hinner
          have hdec := outer_step_decreases solve hc n A b hsym hpd hb maxIter st ho hg x hx _ st2 hinner
          have hI := outer_step_inv solve hc n A b hA hrow 0 st hinv _ hid hpid x hx
          obtain ⟨hinv2, hpos2⟩ := innerLoop_inv solve hc n A b hA hrow 0 maxIter _ _ st2 hI hinner
          generalize (if (st.P == st2.P) = true then st2.noUpdate + 1 else 0) = nu at h
          split at h
          · simp at h
          · split at h
            · cases h
              exact ⟨hdec.le, fun _ => hdec⟩
            · suffices hs : Spec.qform A b d ≤ Spec.qform A b st2.s by
                have hlt := lt_of_le_of_lt hs hdec
                exact ⟨hlt.le, fun _ => hlt⟩
              refine (ih _ d ex lc lc2 ?_ h).1
              exact ⟨⟨hinv2.hP, hinv2.hs, hinv2.hs, hinv2.sync, hinv2.nodup, hinv2.range, hinv2.off,
                hinv2.solves⟩, hpos2, rfl, rfl⟩
    · rename_i hg
      cases h
      exact ⟨le_rfl, fun hg' => absurd hg' hg⟩

end Ordered
end Model
