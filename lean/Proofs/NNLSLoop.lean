/-
Proofs/NNLSLoop.lean — helper lemmas for Model/NNLS.lean (property C05), part 2: the active-set state
machine.  Bookkeeping of `scatter` / masks / `P_inorder`, the contract of the passive-set solve turned
into "`A s = b` on the passive set", `argmax`, and the loop invariants of `innerLoop` / `outerLoop`.
-/
import Model.NNLS
import Proofs.NNLS

set_option linter.unusedSectionVars false

namespace Model

open Impl

/-- `P[i]` of a boolean mask (False outside) -/
def pget (P : List Bool) (i : ℕ) : Bool := P.getD i false

section Basic
variable {α : Type} [CommRing α]

/-! ### `scatter` -/

theorem scatter_length (v : List α) (idx : List ℕ) (x : List α) :
    (scatter v idx x).length = v.length := by
  induction idx generalizing v x with
  | nil => simp [scatter]
  | cons i is ih =>
    cases x with
    | nil => simp [scatter]
    | cons a as => simp [scatter, ih]

theorem vget_set_self (v : List α) (i : ℕ) (a : α) (h : i < v.length) : vget (v.set i a) i = a := by
  simp [vget, List.getD_eq_getElem?_getD, List.getElem?_set_self h]

theorem vget_set_ne (v : List α) (i j : ℕ) (a : α) (h : i ≠ j) : vget (v.set i a) j = vget v j := by
  simp [vget, List.getD_eq_getElem?_getD, List.getElem?_set_ne h]

theorem vget_scatter_not_mem (v : List α) (idx : List ℕ) (x : List α) (i : ℕ) (h : i ∉ idx) :
    vget (scatter v idx x) i = vget v i := by
  induction idx generalizing v x with
  | nil => simp [scatter]
  | cons j js ih =>
    cases x with
    | nil => simp [scatter]
    | cons a as =>
      simp only [List.mem_cons, not_or] at h
      rw [scatter, ih _ _ h.2, vget_set_ne _ _ _ _ (Ne.symm h.1)]

theorem vget_scatter_mem (v : List α) (idx : List ℕ) (x : List α) (hnd : idx.Nodup)
    (hr : ∀ i ∈ idx, i < v.length) (hl : x.length = idx.length) (k : ℕ) (hk : k < idx.length) :
    vget (scatter v idx x) idx[k] = vget x k := by
  induction idx generalizing v x k with
  | nil => simp at hk
  | cons j js ih =>
    cases x with
    | nil => simp at hl
    | cons a as =>
      rw [scatter]
      have hnd' := List.nodup_cons.mp hnd
      cases k with
      | zero =>
        simp only [List.getElem_cons_zero]
        rw [vget_scatter_not_mem _ _ _ _ hnd'.1, vget_set_self _ _ _ (hr j (by simp)), vget_cons_zero]
      | succ k =>
        simp only [List.getElem_cons_succ]
        rw [vget_cons_succ]
        exact ih (v.set j a) as hnd'.2 (fun i hi => by simpa using hr i (by simp [hi]))
          (by simpa using hl) k (by simpa using hk)

theorem vget_zeros (n i : ℕ) : vget (zeros n : List α) i = 0 := by
  unfold vget zeros
  rw [List.getD_eq_getElem?_getD]
  by_cases h : i < n
  · simp [h]
  · simp [h]

theorem zeros_length (n : ℕ) : (zeros n : List α).length = n := by simp [zeros]

/-! ### gathers -/

theorem gather_length (v : List α) (idx : List ℕ) : (gather v idx).length = idx.length := by
  simp [gather]

theorem vget_gather (v : List α) (idx : List ℕ) (k : ℕ) (hk : k < idx.length) :
    vget (gather v idx) k = vget v idx[k] := by
  rw [vget_eq_getElem _ _ (by simpa [gather] using hk)]
  simp [gather]

/-- dotting a gathered row with `x` = summing over the support -/
theorem dot_map_eq_sum_map (row s : ℕ → α) : ∀ (idx : List ℕ) (x : List α), x.length = idx.length →
    (∀ k (hk : k < idx.length), s idx[k] = vget x k) →
    dot (idx.map row) x = (idx.map fun j => row j * s j).sum := by
  intro idx
  induction idx with
  | nil => intro x _ _; simp [dot]
  | cons i is ih =>
    intro x hl hs
    cases x with
    | nil => simp at hl
    | cons a as =>
      simp only [List.map_cons, dot, List.sum_cons]
      rw [ih as (by simpa using hl) (fun k hk => by
        have := hs (k + 1) (by simpa using hk)
        simpa [vget_cons_succ] using this)]
      have h0 := hs 0 (by simp)
      simp only [List.getElem_cons_zero, vget_cons_zero] at h0
      rw [h0]

theorem sum_range_eq_dot_of_support (n : ℕ) (idx : List ℕ) (hnd : idx.Nodup) (hr : ∀ i ∈ idx, i < n)
    (row s : ℕ → α) (x : List α) (hl : x.length = idx.length)
    (hs : ∀ k (hk : k < idx.length), s idx[k] = vget x k)
    (hz : ∀ j, j < n → j ∉ idx → s j = 0) :
    ∑ j ∈ Finset.range n, row j * s j = dot (idx.map row) x := by
  rw [dot_map_eq_sum_map row s idx x hl hs, ← List.sum_toFinset _ hnd]
  symm
  apply Finset.sum_subset
  · intro j hj
    exact Finset.mem_range.mpr (hr j (List.mem_toFinset.mp hj))
  · intro j hj hnj
    rw [hz j (Finset.mem_range.mp hj) (fun h => hnj (List.mem_toFinset.mpr h)), mul_zero]

/-- The passive-set solve, through the solver contract: if `s` carries the solver's answer on `idx` and
    vanishes elsewhere, then `(A s)_i = b_i` for every `i ∈ idx`. -/
theorem solves_on (solve : List (List α) → List α → Option (List α)) (hc : Spec.SolveContract solve)
    (n : ℕ) (A : List (List α)) (b : List α) (hA : A.length = n) (hrow : ∀ r, r ∈ A → r.length = n)
    (idx : List ℕ) (hnd : idx.Nodup) (hr : ∀ i ∈ idx, i < n)
    (x : List α) (hx : solveOn solve A b idx = some x)
    (s : List α) (hs : s.length = n)
    (hon : ∀ k (hk : k < idx.length), vget s idx[k] = vget x k)
    (hoff : ∀ j, j < n → j ∉ idx → vget s j = 0) :
    x.length = idx.length ∧ ∀ i, i ∈ idx → vget (matVec A s) i = vget b i := by
  obtain ⟨hxl, hmv⟩ := hc _ _ _ hx
  rw [gather_length] at hxl
  refine ⟨hxl, ?_⟩
  intro i hi
  obtain ⟨k, hk, rfl⟩ := List.mem_iff_getElem.mp hi
  rw [vget_matVec n A s hA hrow hs _ (hr _ hi),
    sum_range_eq_dot_of_support n idx hnd hr (mget A idx[k]) (vget s) x hxl hon hoff]
  have h1 : vget (matVec (subMat A idx) x) k = vget (gather b idx) k := by rw [hmv]
  rw [vget_gather b idx k hk] at h1
  rw [← h1, vget_eq_getElem _ _ (by simpa [matVec, subMat] using hk)]
  simp [matVec, subMat]

end Basic

section Ordered
variable {α : Type} [Field α] [LinearOrder α] [IsStrictOrderedRing α]

/-! ### the loop conditions -/

theorem pget_eq_getElem (P : List Bool) (i : ℕ) (h : i < P.length) : pget P i = P[i] := by
  simp [pget, List.getD_eq_getElem?_getD, List.getElem?_eq_getElem h]

theorem zip_any_iff (n : ℕ) (v : List α) (P : List Bool) (hv : v.length = n) (hP : P.length = n)
    (f : α × Bool → Bool) :
    (List.zip v P).any f = true ↔ ∃ i, i < n ∧ f (vget v i, pget P i) = true := by
  rw [List.any_eq_true]
  constructor
  · rintro ⟨⟨a, p⟩, hmem, hf⟩
    obtain ⟨i, hi, heq⟩ := List.mem_iff_getElem.mp hmem
    have hi' : i < n := by simp [hv, hP] at hi; exact hi
    refine ⟨i, hi', ?_⟩
    rw [List.getElem_zip] at heq
    rw [vget_eq_getElem v i (hv ▸ hi'), pget_eq_getElem P i (hP ▸ hi')]
    have h1 : v[i] = a := congrArg Prod.fst heq
    have h2 : P[i] = p := congrArg Prod.snd heq
    rw [h1, h2]; exact hf
  · rintro ⟨i, hi, hf⟩
    refine ⟨(v[i]'(hv ▸ hi), P[i]'(hP ▸ hi)), ?_, ?_⟩
    · apply List.mem_iff_getElem.mpr
      exact ⟨i, by simp [hv, hP, hi], by simp⟩
    · rw [vget_eq_getElem v i (hv ▸ hi), pget_eq_getElem P i (hP ▸ hi)] at hf
      exact hf

theorem anyActiveAbove_true (n : ℕ) (w : List α) (P : List Bool) (tol : α) (hw : w.length = n)
    (hP : P.length = n) (h : anyActiveAbove w P tol = true) :
    ∃ i, i < n ∧ pget P i = false ∧ tol < vget w i := by
  unfold anyActiveAbove at h
  obtain ⟨i, hi, hf⟩ := (zip_any_iff n w P hw hP _).mp h
  refine ⟨i, hi, ?_⟩
  simpa using hf

theorem anyActiveAbove_false (n : ℕ) (w : List α) (P : List Bool) (tol : α) (hw : w.length = n)
    (hP : P.length = n) (h : anyActiveAbove w P tol = false) :
    ∀ i, i < n → pget P i = false → vget w i ≤ tol := by
  intro i hi hp
  by_contra hlt
  have : anyActiveAbove w P tol = true := by
    unfold anyActiveAbove
    exact (zip_any_iff n w P hw hP _).mpr ⟨i, hi, by simpa [hp] using lt_of_not_ge hlt⟩
  rw [h] at this
  exact absurd this (by simp)

theorem anyPassiveBelow_false (n : ℕ) (s : List α) (P : List Bool) (tol : α) (hs : s.length = n)
    (hP : P.length = n) (h : anyPassiveBelow s P tol = false) :
    ∀ i, i < n → pget P i = true → tol < vget s i := by
  intro i hi hp
  by_contra hle
  have : anyPassiveBelow s P tol = true := by
    unfold anyPassiveBelow
    exact (zip_any_iff n s P hs hP _).mpr ⟨i, hi, by simpa [hp] using le_of_not_gt hle⟩
  rw [h] at this
  exact absurd this (by simp)

/-! ### `argmax` -/

theorem argmax_fold (xs : List α) : ∀ (pre : List α) (bi : ℕ) (bv : α), bi < pre.length →
    vget pre bi = bv → (∀ j, j < pre.length → vget pre j ≤ bv) →
    let r := xs.foldl (fun (st : ℕ × α × ℕ) y =>
        if st.2.1 < y then (st.2.2, y, st.2.2 + 1) else (st.1, st.2.1, st.2.2 + 1)) (bi, bv, pre.length)
    r.1 < (pre ++ xs).length ∧ vget (pre ++ xs) r.1 = r.2.1
      ∧ ∀ j, j < (pre ++ xs).length → vget (pre ++ xs) j ≤ r.2.1 := by
  induction xs with
  | nil =>
    intro pre bi bv hbi hbv hmax
    simpa using ⟨hbi, hbv, hmax⟩
  | cons y ys ih =>
    intro pre bi bv hbi hbv hmax
    simp only [List.foldl_cons]
    have hlen : (pre ++ [y]).length = pre.length + 1 := by simp
    have hget : ∀ j, j < pre.length → vget (pre ++ [y]) j = vget pre j := by
      intro j hj
      rw [vget_eq_getElem _ _ (by omega), vget_eq_getElem _ _ hj, List.getElem_append_left hj]
    have hlast : vget (pre ++ [y]) pre.length = y := by
      rw [vget_eq_getElem _ _ (by omega)]; simp
    have happ : pre ++ y :: ys = (pre ++ [y]) ++ ys := by simp
    split
    · rename_i hlt
      have := ih (pre ++ [y]) pre.length y (by omega) hlast (fun j hj => by
        rcases Nat.lt_succ_iff_lt_or_eq.mp (hlen ▸ hj) with h | h
        · rw [hget j h]; exact le_trans (hmax j h) hlt.le
        · rw [h, hlast])
      rw [hlen] at this
      rw [happ]; exact this
    · rename_i hnlt
      have := ih (pre ++ [y]) bi bv (by omega) (by rw [hget bi hbi]; exact hbv) (fun j hj => by
        rcases Nat.lt_succ_iff_lt_or_eq.mp (hlen ▸ hj) with h | h
        · rw [hget j h]; exact hmax j h
        · rw [h, hlast]; exact le_of_not_gt hnlt)
      rw [hlen] at this
      rw [happ]; exact this

theorem argmax_spec (v : List α) (hne : 0 < v.length) :
    argmax v < v.length ∧ ∀ j, j < v.length → vget v j ≤ vget v (argmax v) := by
  cases v with
  | nil => simp at hne
  | cons x xs =>
    have := argmax_fold xs [x] 0 x (by simp) (by simp [vget]) (fun j hj => by
      have : j = 0 := by simpa using hj
      subst this; simp [vget])
    simp only [List.length_singleton, List.singleton_append] at this
    unfold argmax
    obtain ⟨h1, h2, h3⟩ := this
    refine ⟨h1, fun j hj => ?_⟩
    rw [h2]; exact h3 j hj

theorem vget_maskActive (n : ℕ) (w : List α) (P : List Bool) (hw : w.length = n) (hP : P.length = n)
    (i : ℕ) (hi : i < n) : vget (maskActive w P) i = if pget P i then 0 else vget w i := by
  rw [vget_eq_getElem _ _ (by simp [maskActive, hw, hP, hi]), vget_eq_getElem w i (hw ▸ hi),
    pget_eq_getElem P i (hP ▸ hi)]
  simp [maskActive]

/-- the entering index chosen by `np.argmax(w * ~P)` is in range and active -/
theorem idmax_spec (n : ℕ) (w : List α) (P : List Bool) (tol : α) (htol : 0 ≤ tol) (hw : w.length = n)
    (hP : P.length = n) (h : anyActiveAbove w P tol = true) :
    argmax (maskActive w P) < n ∧ pget P (argmax (maskActive w P)) = false := by
  obtain ⟨i, hi, hpi, hwi⟩ := anyActiveAbove_true n w P tol hw hP h
  have hlen : (maskActive w P).length = n := by simp [maskActive, hw, hP]
  obtain ⟨h1, h2⟩ := argmax_spec (maskActive w P) (by omega)
  rw [hlen] at h1 h2
  refine ⟨h1, ?_⟩
  by_contra hp
  have hp' : pget P (argmax (maskActive w P)) = true := by simpa using hp
  have := h2 i hi
  rw [vget_maskActive n w P hw hP i hi, vget_maskActive n w P hw hP _ h1, hpi, hp'] at this
  simp at this
  linarith

/-! ### masks after `fix_constraint` -/

theorem fcP_length (n : ℕ) (tol : α) (P : List Bool) (d : List α) (hP : P.length = n) (hd : d.length = n) :
    (fcP tol P d).length = n := by simp [fcP, hP, hd]

theorem pget_fcP (n : ℕ) (tol : α) (P : List Bool) (d : List α) (hP : P.length = n) (hd : d.length = n)
    (i : ℕ) (hi : i < n) : pget (fcP tol P d) i = if vget d i ≤ tol then false else pget P i := by
  rw [pget_eq_getElem _ _ (by rw [fcP_length n tol P d hP hd]; exact hi), pget_eq_getElem P i (hP ▸ hi),
    vget_eq_getElem d i (hd ▸ hi)]
  simp [fcP]

theorem fcS_length (n : ℕ) (s : List α) (P : List Bool) (hs : s.length = n) (hP : P.length = n) :
    (fcS s P).length = n := by simp [fcS, hs, hP]

theorem vget_fcS (n : ℕ) (s : List α) (P : List Bool) (hs : s.length = n) (hP : P.length = n)
    (i : ℕ) (hi : i < n) : vget (fcS s P) i = if pget P i then vget s i else 0 := by
  rw [vget_eq_getElem _ _ (by rw [fcS_length n s P hs hP]; exact hi), pget_eq_getElem P i (hP ▸ hi),
    vget_eq_getElem s i (hs ▸ hi)]
  simp [fcS]

theorem fcD_length (n : ℕ) (tol : α) (st : St α) (hd : st.d.length = n) (hs : st.s.length = n) :
    (fcD tol st).length = n := by simp [fcD, hd, hs]

/-! ### the invariant of the passive-set bookkeeping -/

/-- What every state of the solver satisfies (between statements that touch `s_chol`): `P` and
    `P_inorder` describe the same set, `s_chol` vanishes off the passive set and solves the passive-set
    system `(A s)_i = b_i, i ∈ P`. -/
structure IInv (n : ℕ) (A : List (List α)) (b : List α) (st : St α) : Prop where
  hP : st.P.length = n
  hs : st.s.length = n
  hd : st.d.length = n
  sync : ∀ i, i < n → (pget st.P i = true ↔ i ∈ st.Pin)
  nodup : st.Pin.Nodup
  range : ∀ i, i ∈ st.Pin → i < n
  off : ∀ i, i < n → pget st.P i = false → vget st.s i = 0
  solves : ∀ i, i ∈ st.Pin → vget (matVec A st.s) i = vget b i

variable (solve : List (List α) → List α → Option (List α)) (hc : Spec.SolveContract solve)
variable (n : ℕ) (A : List (List α)) (b : List α) (hA : A.length = n)
  (hrow : ∀ r, r ∈ A → r.length = n)

include hc hA hrow in
/-- installing the solver's answer for a passive list `Pin'` (mask `P'`) re-establishes the invariant -/
theorem IInv_of_solve (tol : α) (st : St α) (P' : List Bool) (Pin' : List ℕ) (d' s0 : List α)
    (hP' : P'.length = n) (hs0 : s0.length = n) (hd' : d'.length = n)
    (hsync : ∀ i, i < n → (pget P' i = true ↔ i ∈ Pin')) (hnd : Pin'.Nodup)
    (hr : ∀ i, i ∈ Pin' → i < n) (x : List α) (hx : solveOn solve A b Pin' = some x) :
    IInv n A b { st with P := P', Pin := Pin', s := fcS (scatter s0 Pin' x) P', d := d' } := by
  have hxl : x.length = Pin'.length := by
    have := (hc _ _ _ hx).1
    rwa [gather_length] at this
  have hsc : (scatter s0 Pin' x).length = n := by rw [scatter_length, hs0]
  have hon : ∀ k (hk : k < Pin'.length), vget (fcS (scatter s0 Pin' x) P') Pin'[k] = vget x k := by
    intro k hk
    have hmem : Pin'[k] ∈ Pin' := List.getElem_mem hk
    rw [vget_fcS n _ P' hsc hP' _ (hr _ hmem), (hsync _ (hr _ hmem)).mpr hmem]
    simp only [if_true]
    exact vget_scatter_mem s0 Pin' x hnd (fun i hi => hs0 ▸ hr i hi) hxl k hk
  have hoff : ∀ j, j < n → pget P' j = false → vget (fcS (scatter s0 Pin' x) P') j = 0 := by
    intro j hj hp
    rw [vget_fcS n _ P' hsc hP' j hj, hp]; simp
  refine ⟨hP', fcS_length n _ P' hsc hP', hd', hsync, hnd, hr, hoff, ?_⟩
  exact (solves_on solve hc n A b hA hrow Pin' hnd hr x hx _ (fcS_length n _ P' hsc hP') hon
    (fun j hj hnm => hoff j hj (by
      cases hp : pget P' j with
      | false => rfl
      | true => exact absurd ((hsync j hj).mp hp) hnm))).2

include hc hA hrow in
theorem fixConstraint_inv (tol : α) (st st' : St α) (hinv : IInv n A b st)
    (h : fixConstraint solve A b tol st = some st') : IInv n A b st' := by
  unfold fixConstraint at h
  have hdl := fcD_length n tol st hinv.hd hinv.hs
  have hPl := fcP_length n tol st.P (fcD tol st) hinv.hP hdl
  have hsync : ∀ i, i < n → (pget (fcP tol st.P (fcD tol st)) i = true ↔ i ∈ fcPin tol st.Pin (fcD tol st)) := by
    intro i hi
    rw [pget_fcP n tol st.P _ hinv.hP hdl i hi]
    unfold fcPin
    rw [List.mem_filter]
    by_cases hle : vget (fcD tol st) i ≤ tol
    · simp [hle]
    · simp [hle, hinv.sync i hi]
  have hnd : (fcPin tol st.Pin (fcD tol st)).Nodup := hinv.nodup.filter _
  have hr : ∀ i, i ∈ fcPin tol st.Pin (fcD tol st) → i < n :=
    fun i hi => hinv.range i (List.mem_filter.mp hi).1
  simp only at h
  split at h
  · rename_i hempty
    cases h
    have hnil : fcPin tol st.Pin (fcD tol st) = [] := by simpa using hempty
    refine ⟨hPl, fcS_length n _ _ hinv.hs hPl, hdl, hsync, hnd, hr, ?_, ?_⟩
    · intro j hj hp
      show vget (fcS st.s (fcP tol st.P (fcD tol st))) j = 0
      rw [vget_fcS n _ _ hinv.hs hPl j hj, hp]; simp
    · intro i hi
      have hi' : i ∈ fcPin tol st.Pin (fcD tol st) := hi
      rw [hnil] at hi'
      simp at hi'
  · split at h
    · exact absurd h (by simp)
    · rename_i x hx
      cases h
      exact IInv_of_solve solve hc n A b hA hrow tol st _ _ _ st.s hPl hinv.hs hdl hsync hnd hr x hx

include hc hA hrow in
/-- the inner loop keeps the invariant and leaves with every passive entry above the tolerance -/
theorem innerLoop_inv (tol : α) (maxIter : ℕ) : ∀ (fuel : ℕ) (st st' : St α), IInv n A b st →
    innerLoop solve A b tol maxIter fuel st = .ok st' →
    IInv n A b st' ∧ (∀ i, i < n → pget st'.P i = true → tol < vget st'.s i) := by
  intro fuel
  induction fuel with
  | zero => intro st st' _ h; simp [innerLoop] at h
  | succ fuel ih =>
    intro st st' hinv h
    rw [innerLoop] at h
    split at h
    · split at h
      · simp at h
      · rename_i st1 hfix
        have hinv1 := fixConstraint_inv solve hc n A b hA hrow tol st st1 hinv hfix
        simp only at h
        split at h
        · simp at h
        · refine ih _ st' ?_ h
          exact ⟨hinv1.hP, hinv1.hs, hinv1.hd, hinv1.sync, hinv1.nodup, hinv1.range, hinv1.off, hinv1.solves⟩
    · rename_i hcond
      cases h
      exact ⟨hinv, anyPassiveBelow_false n st.s st.P tol hinv.hs hinv.hP (by simpa using hcond)⟩

/-! ### the outer loop -/

theorem pget_set_true (P : List Bool) (k j : ℕ) (hk : k < P.length) :
    pget (P.set k true) j = if j = k then true else pget P j := by
  unfold pget
  rw [List.getD_eq_getElem?_getD, List.getD_eq_getElem?_getD]
  by_cases h : j = k
  · subst h; simp [List.getElem?_set_self hk]
  · rw [List.getElem?_set_ne (Ne.symm h)]; simp [h]

/-- the certificate a returned vector carries: a passive mask `P` with `d > tol` and zero gradient on
    it, `d = 0` off it, and — when the loop was left through its main exit — dual slack `≤ tol` off it -/
def CertifiedEx (n : ℕ) (A : List (List α)) (b d : List α) (tol : α) (ex : Exit) : Prop :=
  d.length = n ∧ ∃ P : List Bool, P.length = n
    ∧ (∀ i, i < n → pget P i = true → tol < vget d i ∧ vget (matVec A d) i = vget b i)
    ∧ (∀ i, i < n → pget P i = false →
        vget d i = 0 ∧ (ex = .main → vget b i - vget (matVec A d) i ≤ tol))

/-- the main-exit certificate -/
def Certified (n : ℕ) (A : List (List α)) (b d : List α) (tol : α) : Prop :=
  d.length = n ∧ ∃ P : List Bool, P.length = n
    ∧ (∀ i, i < n → pget P i = true → tol < vget d i ∧ vget (matVec A d) i = vget b i)
    ∧ (∀ i, i < n → pget P i = false → vget d i = 0 ∧ vget b i - vget (matVec A d) i ≤ tol)

omit [IsStrictOrderedRing α] in
theorem CertifiedEx.main (n : ℕ) (A : List (List α)) (b d : List α) (tol : α)
    (h : CertifiedEx n A b d tol .main) : Certified n A b d tol := by
  obtain ⟨h1, P, h2, h3, h4⟩ := h
  exact ⟨h1, P, h2, h3, fun i hi hp => ⟨(h4 i hi hp).1, (h4 i hi hp).2 rfl⟩⟩

/-- invariant at the head of the outer `while` -/
structure OInv (n : ℕ) (A : List (List α)) (b : List α) (tol : α) (st : St α) : Prop where
  inv : IInv n A b st
  pos : ∀ i, i < n → pget st.P i = true → tol < vget st.s i
  hds : st.d = st.s
  hw : st.w = vsub b (matVec A st.s)

include hc hA hrow in
theorem outerLoop_cert (tol : α) (htol : 0 ≤ tol) (maxIter : ℕ) (hb : b.length = n) :
    ∀ (fuel : ℕ) (st : St α) (d : List α) (ex : Exit) (lc lc2 : ℕ), OInv n A b tol st →
      outerLoop solve A b tol maxIter fuel st = .ok d ex lc lc2 → CertifiedEx n A b d tol ex := by
  intro fuel
  induction fuel with
  | zero => intro st d ex lc lc2 _ h; simp [outerLoop] at h
  | succ fuel ih =>
    intro st d ex lc lc2 ho h
    have hinv := ho.inv
    have hwl : st.w.length = n := by
      rw [ho.hw, vsub_length, matVec_length, hA, hb, Nat.min_self]
    rw [outerLoop] at h
    split at h
    · rename_i hcond
      obtain ⟨hid, hpid⟩ := idmax_spec n st.w st.P tol htol hwl hinv.hP hcond
      generalize argmax (maskActive st.w st.P) = im at h hid hpid
      simp only at h
      split at h
      · simp at h
      · rename_i x hx
        -- the state handed to the inner loop satisfies the invariant
        have hP' : (st.P.set (im) true).length = n := by
          rw [List.length_set]; exact hinv.hP
        have hnotmem : im ∉ st.Pin := fun hm => by
          have := (hinv.sync _ hid).mpr hm
          rw [hpid] at this; exact absurd this (by simp)
        have hnd : (st.Pin ++ [im]).Nodup := by
          rw [List.nodup_append]
          refine ⟨hinv.nodup, by simp, ?_⟩
          intro a ha c hc'
          have : c = im := by simpa using hc'
          subst this
          intro hac; subst hac; exact hnotmem ha
        have hr : ∀ i, i ∈ st.Pin ++ [im] → i < n := by
          intro i hi
          rcases List.mem_append.mp hi with h1 | h1
          · exact hinv.range i h1
          · have : i = im := by simpa using h1
            rw [this]; exact hid
        have hsync : ∀ i, i < n → (pget (st.P.set (im) true) i = true
            ↔ i ∈ st.Pin ++ [im]) := by
          intro i hi
          rw [pget_set_true _ _ _ (hinv.hP ▸ hid), List.mem_append]
          by_cases he : i = im
          · simp [he]
          · simp [he, hinv.sync i hi]
        have hxl : x.length = (st.Pin ++ [im]).length := by
          have := (hc _ _ _ hx).1
          rwa [gather_length] at this
        have hsl : (scatter st.s (st.Pin ++ [im]) x).length = n := by
          rw [scatter_length, hinv.hs]
        have hoff : ∀ j, j < n → pget (st.P.set (im) true) j = false →
            vget (scatter st.s (st.Pin ++ [im]) x) j = 0 := by
          intro j hj hp
          have hnm : j ∉ st.Pin ++ [im] := fun hm => by
            have := (hsync j hj).mpr hm
            rw [hp] at this; exact absurd this (by simp)
          rw [vget_scatter_not_mem _ _ _ _ hnm]
          rw [pget_set_true _ _ _ (hinv.hP ▸ hid)] at hp
          by_cases he : j = im
          · simp [he] at hp
          · simp only [he, if_false] at hp
            exact hinv.off j hj hp
        have hin : IInv n A b { st with P := st.P.set im true, Pin := st.Pin ++ [im], s := scatter st.s (st.Pin ++ [im]) x } := by
          refine ⟨hP', hsl, hinv.hd, hsync, hnd, hr, hoff, ?_⟩
          exact (solves_on solve hc n A b hA hrow _ hnd hr x hx _ hsl
            (fun k hk => vget_scatter_mem st.s _ x hnd (fun i hi => hinv.hs ▸ hr i hi) hxl k hk)
            (fun j hj hnm => hoff j hj (by
              cases hp : pget (st.P.set (im) true) j with
              | false => rfl
              | true => exact absurd ((hsync j hj).mp hp) hnm))).2
        split at h
        · simp at h
        · rename_i st2 hinner
          obtain ⟨hinv2, hpos2⟩ := innerLoop_inv solve hc n A b hA hrow tol maxIter _ _ st2 hin hinner
          generalize (if (st.P == st2.P) = true then st2.noUpdate + 1 else 0) = nu at h
          split at h
          · simp at h
          · split at h
            · cases h
              refine ⟨hinv2.hs, st2.P, hinv2.hP, fun i hi hp => ?_, fun i hi hp => ?_⟩
              · exact ⟨hpos2 i hi hp, hinv2.solves i ((hinv2.sync i hi).mp hp)⟩
              · exact ⟨hinv2.off i hi hp, fun hne => by cases hne⟩
            · refine ih _ d ex lc lc2 ?_ h
              exact ⟨⟨hinv2.hP, hinv2.hs, hinv2.hs, hinv2.sync, hinv2.nodup, hinv2.range, hinv2.off,
                hinv2.solves⟩, hpos2, rfl, rfl⟩
    · rename_i hcond
      cases h
      refine ⟨hinv.hd, st.P, hinv.hP, ?_, ?_⟩
      · intro i hi hp
        rw [ho.hds]
        exact ⟨ho.pos i hi hp, hinv.solves i ((hinv.sync i hi).mp hp)⟩
      · intro i hi hp
        rw [ho.hds]
        refine ⟨hinv.off i hi hp, fun _ => ?_⟩
        have := anyActiveAbove_false n st.w st.P tol hwl hinv.hP (by simpa using hcond) i hi hp
        rw [ho.hw, vget_vsub b _ i (hb ▸ hi) (by rw [matVec_length, hA]; exact hi)] at this
        exact this

/-! ### the prologue -/

theorem pget_replicate_false (n i : ℕ) : pget (List.replicate n false) i = false := by
  unfold pget
  rw [List.getD_eq_getElem?_getD]
  by_cases h : i < n <;> simp [h]

theorem pget_maskOfIndices (n : ℕ) (idx : List ℕ) (i : ℕ) (hi : i < n) :
    pget (maskOfIndices n idx) i = idx.contains i := by
  rw [pget_eq_getElem _ _ (by simp [maskOfIndices, hi])]
  simp [maskOfIndices]

theorem mem_maskIndices (P : List Bool) (i : ℕ) : i ∈ maskIndices P ↔ i < P.length ∧ pget P i = true := by
  simp [maskIndices, pget]

include hc hA hrow in
theorem initState_inv (tol : α) (pInit : Option (List ℕ))
    (hp : ∀ idx, pInit = some idx → idx.Nodup ∧ ∀ i, i ∈ idx → i < n) (st : St α)
    (h : initState solve A b tol pInit = some st) : OInv n A b tol st := by
  have hcold : OInv n A b tol ({ P := List.replicate n false, Pin := [], s := zeros n, d := zeros n, w := vsub b (matVec A (zeros n)), noUpdate := 0, loopCount := 0, loopCount2 := 0 } : St α) := by
    refine ⟨⟨by simp, zeros_length n, zeros_length n, ?_, List.nodup_nil, by simp, ?_, by simp⟩, ?_, rfl, rfl⟩
    · intro i _; simp [pget_replicate_false]
    · intro i _ _; exact vget_zeros n i
    · intro i _ hpi; rw [pget_replicate_false] at hpi; exact absurd hpi (by simp)
  unfold initState at h
  rw [hA] at h
  cases pInit with
  | none =>
    simp only at h
    cases h; exact hcold
  | some idx =>
    obtain ⟨hnd, hr⟩ := hp idx rfl
    simp only at h
    split at h
    · simp at h
    · rename_i x hx
      split at h
      · rename_i hacc
        cases h
        have hPl : (maskOfIndices n idx).length = n := by simp [maskOfIndices]
        have hsync : ∀ i, i < n → (pget (maskOfIndices n idx) i = true ↔ i ∈ idx) := by
          intro i hi; rw [pget_maskOfIndices n idx i hi]; simp
        have hand : ∀ i, i ∈ maskIndices (maskOfIndices n idx) ↔ i < n ∧ i ∈ idx := by
          intro i
          rw [mem_maskIndices, hPl]
          constructor
          · rintro ⟨h1, h2⟩; exact ⟨h1, (hsync i h1).mp h2⟩
          · rintro ⟨h1, h2⟩; exact ⟨h1, (hsync i h1).mpr h2⟩
        have hnd' : (maskIndices (maskOfIndices n idx)).Nodup := by
          unfold maskIndices; exact List.nodup_range.filter _
        have hr' : ∀ i, i ∈ maskIndices (maskOfIndices n idx) → i < n := fun i hi => ((hand i).mp hi).1
        have hxl : x.length = (maskIndices (maskOfIndices n idx)).length := by
          have := (hc _ _ _ hx).1
          rwa [gather_length] at this
        have hsl : (scatter (zeros n) (maskIndices (maskOfIndices n idx)) x).length = n := by
          rw [scatter_length, zeros_length]
        have hoffidx : ∀ j, j < n → j ∉ maskIndices (maskOfIndices n idx) →
            vget (scatter (zeros n) (maskIndices (maskOfIndices n idx)) x) j = 0 := by
          intro j _ hnm
          rw [vget_scatter_not_mem _ _ _ _ hnm, vget_zeros]
        have hsol := (solves_on solve hc n A b hA hrow _ hnd' hr' x hx _ hsl
          (fun k hk => vget_scatter_mem (zeros n) _ x hnd' (fun i hi => by rw [zeros_length]; exact hr' i hi)
            hxl k hk) hoffidx).2
        have hcondb : anyPassiveBelow (scatter (zeros n) (maskIndices (maskOfIndices n idx)) x)
            (maskOfIndices n idx) tol = false := by
          have : (!anyPassiveBelow (scatter (zeros n) (maskIndices (maskOfIndices n idx)) x)
            (maskOfIndices n idx) tol) = true := by
            have := hacc
            simp only [Bool.and_eq_true] at this
            exact this.2
          simpa using this
        refine ⟨⟨hPl, hsl, hsl, hsync, hnd, hr, ?_, ?_⟩, ?_, rfl, rfl⟩
        · intro j hj hpj
          apply hoffidx j hj
          intro hm
          have := (hsync j hj).mpr ((hand j).mp hm).2
          rw [hpj] at this; exact absurd this (by simp)
        · intro i hi
          exact hsol i ((hand i).mpr ⟨hr i hi, hi⟩)
        · exact anyPassiveBelow_false n _ _ tol hsl hPl hcondb
      · cases h; exact hcold

include hc hA hrow in
/-- `fnnls_cholesky` (cold or warm start): every returned vector is certified (primal part for any exit,
    dual part for the main exit). -/
theorem fnnls_certified (tol : α) (htol : 0 ≤ tol) (maxIter : ℕ) (hb : b.length = n)
    (pInit : Option (List ℕ)) (hp : ∀ idx, pInit = some idx → idx.Nodup ∧ ∀ i, i ∈ idx → i < n)
    (d : List α) (ex : Exit) (lc lc2 : ℕ) (h : fnnls solve A b tol maxIter pInit = .ok d ex lc lc2) :
    CertifiedEx n A b d tol ex := by
  unfold fnnls at h
  split at h
  · simp at h
  · rename_i st hst
    exact outerLoop_cert solve hc n A b hA hrow tol htol maxIter hb _ st d ex lc lc2
      (initState_inv solve hc n A b hA hrow tol pInit hp st hst) h

include hc hA hrow in
theorem fnnls_main_certified (tol : α) (htol : 0 ≤ tol) (maxIter : ℕ) (hb : b.length = n)
    (pInit : Option (List ℕ)) (hp : ∀ idx, pInit = some idx → idx.Nodup ∧ ∀ i, i ∈ idx → i < n)
    (d : List α) (lc lc2 : ℕ) (h : fnnls solve A b tol maxIter pInit = .ok d .main lc lc2) :
    Certified n A b d tol :=
  CertifiedEx.main n A b d tol
    (fnnls_certified solve hc n A b hA hrow tol htol maxIter hb pInit hp d .main lc lc2 h)

omit [IsStrictOrderedRing α] in
/-- a certified result satisfies the KKT conditions with slack `tol` -/
theorem Certified.isKKT (tol : α) (htol : 0 ≤ tol) (hb : b.length = n) (d : List α)
    (h : Certified n A b d tol) : Spec.IsKKT A b d tol := by
  obtain ⟨_, P, _, hon, hoff⟩ := h
  intro i hi
  rw [hb] at hi
  cases hp : pget P i with
  | true =>
    obtain ⟨h1, h2⟩ := hon i hi hp
    exact ⟨(lt_of_le_of_lt htol h1).le, fun _ => h2, fun h0 => by
      rw [h0] at h1; exact absurd h1 (not_lt.mpr htol)⟩
  | false =>
    obtain ⟨h1, h2⟩ := hoff i hi hp
    exact ⟨h1.ge, fun hpos => by rw [h1] at hpos; exact absurd hpos (lt_irrefl _), fun _ => h2⟩

end Ordered

end Model
