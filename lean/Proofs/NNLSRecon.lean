/-
Proofs/NNLSRecon.lean — helper lemmas for Model/NNLS.lean (property C05), part 3: the reconstruction entry
points (`reconPosOnly`, forced zeros) and the mapped reconstructed data.
-/
import Model.NNLS
import Proofs.NNLS
import Proofs.NNLSLoop

set_option linter.unusedSectionVars false

namespace Model

open Impl

section Ordered
variable {α : Type} [Field α] [LinearOrder α] [IsStrictOrderedRing α]

/-! ### `reconstruction_positive_only_from` -/

theorem subMat_length (A : List (List α)) (idx : List ℕ) : (subMat A idx).length = idx.length := by
  simp [subMat]

theorem subMat_row_length (A : List (List α)) (idx : List ℕ) :
    ∀ r, r ∈ subMat A idx → r.length = idx.length := by
  intro r hr
  simp only [subMat, List.mem_map] at hr
  obtain ⟨i, _, rfl⟩ := hr
  simp

theorem maskIndices_nodup (P : List Bool) : (maskIndices P).Nodup := by
  unfold maskIndices; exact List.nodup_range.filter _

/-- `reconstruction_positive_only_from`: every returned vector is certified for the system it was given,
    with the code's tolerance `eps·n`, whether or not the warm start is used (dual part: main exit). -/
theorem reconPosOnly_certified (solve : List (List α) → List α → Option (List α))
    (hc : Spec.SolveContract solve) (n : ℕ) (A : List (List α)) (b : List α) (hA : A.length = n)
    (hrow : ∀ r, r ∈ A → r.length = n) (hb : b.length = n) (eps : α) (heps : 0 ≤ eps) (maxIter : ℕ)
    (usePInit : Bool) (d : List α) (ex : Exit) (lc lc2 : ℕ)
    (h : reconPosOnly solve eps maxIter usePInit A b = .ok d ex lc lc2) :
    CertifiedEx n A b d (eps * (n : α)) ex := by
  have htol : 0 ≤ eps * (n : α) := mul_nonneg heps (Nat.cast_nonneg n)
  unfold reconPosOnly at h
  split at h
  · simp at h
  · simp only [hA] at h
    split at h
    · split at h
      · simp at h
      · rename_i u hu
        have hul : u.length = n := by rw [(hc _ _ _ hu).1, hb]
        refine fnnls_certified solve hc n A b hA hrow _ htol maxIter hb _ ?_ d ex lc lc2 h
        intro idx hidx
        cases hidx
        refine ⟨maskIndices_nodup _, fun i hi => ?_⟩
        have := ((mem_maskIndices _ i).mp hi).1
        simpa [hul] using this
    · exact fnnls_certified solve hc n A b hA hrow _ htol maxIter hb none (by simp) d ex lc lc2 h

theorem reconPosOnly_main_certified (solve : List (List α) → List α → Option (List α))
    (hc : Spec.SolveContract solve) (n : ℕ) (A : List (List α)) (b : List α) (hA : A.length = n)
    (hrow : ∀ r, r ∈ A → r.length = n) (hb : b.length = n) (eps : α) (heps : 0 ≤ eps) (maxIter : ℕ)
    (usePInit : Bool) (d : List α) (lc lc2 : ℕ)
    (h : reconPosOnly solve eps maxIter usePInit A b = .ok d .main lc lc2) :
    Certified n A b d (eps * (n : α)) :=
  CertifiedEx.main n A b d _
    (reconPosOnly_certified solve hc n A b hA hrow hb eps heps maxIter usePInit d .main lc lc2 h)

/-! ### mapped reconstructed data -/

theorem foldl_add_eq_sum (f : ℕ → α) (p : ℕ) (init : α) :
    (List.range p).foldl (fun acc j => acc + f j) init = init + ∑ j ∈ Finset.range p, f j := by
  induction p with
  | zero => simp
  | succ p ih => rw [List.range_succ, List.foldl_append, ih, Finset.sum_range_succ]; simp [add_assoc]

/-- the double loop of `mapped_reconstructed_data_via_mapping_matrix_from` is the matrix–vector product -/
theorem mappedViaMatrix_eq (B : List (List α)) (s : List α) (hrow : ∀ r, r ∈ B → r.length = s.length) :
    mappedViaMatrix B s = matVec B s := by
  apply List.ext_getElem
  · simp [mappedViaMatrix, matVec]
  · intro i h1 h2
    have hi : i < B.length := by simpa [mappedViaMatrix] using h1
    simp only [mappedViaMatrix, matVec, List.getElem_map, List.getElem_range]
    rw [foldl_add_eq_sum, zero_add, dot_eq_sum s.length B[i] s (hrow _ (List.getElem_mem hi)) rfl]
    refine Finset.sum_congr rfl fun j _ => ?_
    have : (B.getD i []) = B[i] := by simp [List.getD_eq_getElem?_getD, List.getElem?_eq_getElem hi]
    rw [this]
    simp only [vget]
    ring

theorem dot_append (r1 r2 s1 s2 : List α) (h : r1.length = s1.length) :
    dot (r1 ++ r2) (s1 ++ s2) = dot r1 s1 + dot r2 s2 := by
  induction r1 generalizing s1 with
  | nil =>
    cases s1 with
    | nil => simp [dot]
    | cons a as => simp at h
  | cons x xs ih =>
    cases s1 with
    | nil => simp at h
    | cons a as =>
      simp only [List.cons_append, dot]
      rw [ih as (by simpa using h)]
      ring

theorem sliceDict_flatten (ss : List (List α)) (rest : List α) :
    sliceDict (ss.map List.length) (ss.flatten ++ rest) = ss := by
  induction ss with
  | nil => simp [sliceDict]
  | cons s ss ih =>
    simp only [List.map_cons, List.flatten_cons, sliceDict, List.append_assoc]
    rw [List.take_left' rfl, List.drop_left' rfl, ih]

theorem vget_zipWith_add (x y : List α) (i : ℕ) (hx : i < x.length) (hy : i < y.length) :
    vget (List.zipWith (· + ·) x y) i = vget x i + vget y i := by
  rw [vget_eq_getElem _ _ (by simp; omega), vget_eq_getElem _ _ hx, vget_eq_getElem _ _ hy]
  simp

/-- `sum(dict.values())`: the running total after folding in the images -/
theorem mappedData_fold (m : ℕ) : ∀ (imgs : List (List α)) (acc : List α), acc.length = m →
    (∀ v, v ∈ imgs → v.length = m) →
    (imgs.foldl (fun acc v => List.zipWith (· + ·) acc v) acc).length = m
    ∧ ∀ i, i < m → vget (imgs.foldl (fun acc v => List.zipWith (· + ·) acc v) acc) i
        = vget acc i + (imgs.map fun v => vget v i).sum := by
  intro imgs
  induction imgs with
  | nil => intro acc hacc _; simp [hacc]
  | cons v vs ih =>
    intro acc hacc hv
    have hvl : v.length = m := hv v (by simp)
    have hacc' : (List.zipWith (· + ·) acc v).length = m := by simp [hacc, hvl]
    obtain ⟨h1, h2⟩ := ih (List.zipWith (· + ·) acc v) hacc' (fun u hu => hv u (by simp [hu]))
    refine ⟨by simpa using h1, fun i hi => ?_⟩
    simp only [List.foldl_cons, List.map_cons, List.sum_cons]
    rw [h2 i hi, vget_zipWith_add acc v i (hacc ▸ hi) (hvl ▸ hi)]
    ring

theorem dot_flatten (rs ss : List (List α)) (h : List.Forall₂ (fun r sk => r.length = sk.length) rs ss) :
    dot rs.flatten ss.flatten = (List.zipWith dot rs ss).sum := by
  induction h with
  | nil => simp [dot]
  | cons hd _ ih =>
    simp only [List.flatten_cons, List.zipWith_cons_cons, List.sum_cons]
    rw [dot_append _ _ _ _ hd, ih]

/-- shapes of the per-object blurred mapping matrices against the slices of the reconstruction -/
def ShapesOK (m : ℕ) (Bs : List (List (List α))) (ss : List (List α)) : Prop :=
  List.Forall₂ (fun B sk => B.length = m ∧ ∀ r, r ∈ B → r.length = sk.length) Bs ss

theorem shapes_params (m : ℕ) (hm : 0 < m) (Bs : List (List (List α))) (ss : List (List α))
    (hsh : ShapesOK m Bs ss) : (Bs.map fun B => (B.headD []).length) = ss.map List.length := by
  induction hsh with
  | nil => simp
  | @cons B sk Bs' ss' hd _ ih =>
    simp only [List.map_cons, ih, List.cons.injEq, and_true]
    obtain ⟨hl, hr⟩ := hd
    cases B with
    | nil => simp at hl; omega
    | cons r rs => simpa using hr r (by simp)

theorem zipWith_mapped_eq (m : ℕ) (Bs : List (List (List α))) (ss : List (List α))
    (hsh : ShapesOK m Bs ss) : List.zipWith mappedViaMatrix Bs ss = List.zipWith matVec Bs ss := by
  induction hsh with
  | nil => simp
  | @cons B sk Bs' ss' hd _ ih =>
    simp only [List.zipWith_cons_cons, List.cons.injEq]
    exact ⟨mappedViaMatrix_eq _ _ hd.2, ih⟩

theorem mappedDataDict_eq (m : ℕ) (hm : 0 < m) (Bs : List (List (List α))) (ss : List (List α))
    (hsh : ShapesOK m Bs ss) :
    mappedDataDict Bs ss.flatten = List.zipWith matVec Bs ss := by
  unfold mappedDataDict
  rw [shapes_params m hm Bs ss hsh]
  have := sliceDict_flatten ss ([] : List α)
  rw [List.append_nil] at this
  rw [this]
  exact zipWith_mapped_eq m Bs ss hsh

theorem vget_matVec_row (B : List (List α)) (x : List α) (i : ℕ) (hi : i < B.length) :
    vget (matVec B x) i = dot (B.getD i []) x := by
  rw [vget_eq_getElem _ _ (by simpa [matVec] using hi)]
  simp [matVec, List.getD_eq_getElem?_getD, List.getElem?_eq_getElem hi]

theorem zipWith_dot_rows (m : ℕ) (Bs : List (List (List α))) (ss : List (List α)) (hsh : ShapesOK m Bs ss)
    (i : ℕ) (hi : i < m) :
    (List.zipWith dot (Bs.map fun B => B.getD i []) ss).sum
      = (List.zipWith (fun B sk => vget (matVec B sk) i) Bs ss).sum := by
  induction hsh with
  | nil => simp
  | @cons B sk Bs' ss' hd _ ih =>
    simp only [List.map_cons, List.zipWith_cons_cons, List.sum_cons, ih]
    rw [vget_matVec_row _ _ i (by rw [hd.1]; exact hi)]

theorem rows_forall2 (m : ℕ) (Bs : List (List (List α))) (ss : List (List α)) (hsh : ShapesOK m Bs ss)
    (i : ℕ) (hi : i < m) :
    List.Forall₂ (fun r sk => r.length = sk.length) (Bs.map fun B => B.getD i []) ss := by
  induction hsh with
  | nil => simp
  | @cons B sk Bs' ss' hd _ ih =>
    simp only [List.map_cons]
    refine List.Forall₂.cons ?_ ih
    have hi' : i < B.length := by rw [hd.1]; exact hi
    have : B.getD i [] = B[i] := by
      rw [List.getD_eq_getElem?_getD, List.getElem?_eq_getElem hi']; rfl
    rw [this]
    exact hd.2 _ (List.getElem_mem hi')

theorem hstack_row_dot (m : ℕ) (Bs : List (List (List α))) (ss : List (List α)) (hsh : ShapesOK m Bs ss)
    (i : ℕ) (hi : i < m) :
    vget (matVec (hstack m Bs) ss.flatten) i = (List.zipWith (fun B sk => vget (matVec B sk) i) Bs ss).sum := by
  rw [vget_matVec_row _ _ i (by simpa [hstack] using hi)]
  have hrow : (hstack m Bs).getD i [] = (Bs.map fun B => B.getD i []).flatten := by
    simp [hstack, List.getD_eq_getElem?_getD, hi]
  rw [hrow, dot_flatten _ _ (rows_forall2 m Bs ss hsh i hi), zipWith_dot_rows m Bs ss hsh i hi]

end Ordered

end Model
