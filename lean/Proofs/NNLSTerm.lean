/-
Proofs/NNLSTerm.lean — property C05, part 4: progress of the active-set iteration.
  * one pass of `fix_constraint_cholesky` under the inner-loop guard strictly shrinks the passive set, so
    the inner `while` loop makes at most |P| passes (no solver contract, no invariant needed);
  * (exact arithmetic, tol = 0, symmetric PD) one outer iteration strictly decreases the objective.
-/
import Model.NNLS
import Proofs.NNLS
import Proofs.NNLSLoop

set_option linter.unusedSectionVars false

namespace Model
open Impl

section Ordered
variable {α : Type} [Field α] [LinearOrder α] [IsStrictOrderedRing α]

/-! ### `np.min` -/

theorem minimum_fold (xs : List α) : ∀ (x : α),
    (xs.foldl (fun m y => if y < m then y else m) x) ∈ x :: xs
    ∧ ∀ y, y ∈ x :: xs → xs.foldl (fun m y => if y < m then y else m) x ≤ y := by
  induction xs with
  | nil => intro x; simp
  | cons a as ih =>
    intro x
    simp only [List.foldl_cons]
    split
    · rename_i hlt
      obtain ⟨h1, h2⟩ := ih a
      refine ⟨by simp only [List.mem_cons] at h1 ⊢; tauto, fun y hy => ?_⟩
      simp only [List.mem_cons] at hy
      rcases hy with rfl | rfl | hy
      · exact le_trans (h2 a (by simp)) hlt.le
      · exact h2 _ (by simp)
      · exact h2 y (by simp [hy])
    · rename_i hnlt
      obtain ⟨h1, h2⟩ := ih x
      refine ⟨by simp only [List.mem_cons] at h1 ⊢; tauto, fun y hy => ?_⟩
      simp only [List.mem_cons] at hy
      rcases hy with rfl | rfl | hy
      · exact h2 _ (by simp)
      · exact le_trans (h2 x (by simp)) (le_of_not_gt hnlt)
      · exact h2 y (by simp [hy])

theorem minimum_mem (v : List α) (hne : v ≠ []) : minimum v ∈ v := by
  cases v with
  | nil => exact absurd rfl hne
  | cons x xs => exact (minimum_fold xs x).1

theorem minimum_le (v : List α) (y : α) (hy : y ∈ v) : minimum v ≤ y := by
  cases v with
  | nil => simp at hy
  | cons x xs => exact (minimum_fold xs x).2 y hy

/-! ### the step ratios of `fix_constraint` by index -/

/-- `d[i] / (d[i] - s[i])` with the 0/0 guard -/
def ratioAt (d s : α) : α := if d - s = 0 then 0 else d / (d - s)

theorem mem_zip3_iff (n : ℕ) (d s : List α) (P : List Bool) (hd : d.length = n) (hs : s.length = n)
    (hP : P.length = n) (a : (α × α) × Bool) :
    a ∈ List.zip (List.zip d s) P ↔ ∃ i, i < n ∧ a = ((vget d i, vget s i), pget P i) := by
  constructor
  · intro hmem
    obtain ⟨i, hi, heq⟩ := List.mem_iff_getElem.mp hmem
    have hi' : i < n := by simp [hd, hs, hP] at hi; exact hi
    refine ⟨i, hi', ?_⟩
    rw [← heq, List.getElem_zip, List.getElem_zip, vget_eq_getElem d i (hd ▸ hi'),
      vget_eq_getElem s i (hs ▸ hi'), pget_eq_getElem P i (hP ▸ hi')]
  · rintro ⟨i, hi, rfl⟩
    apply List.mem_iff_getElem.mpr
    refine ⟨i, by simp [hd, hs, hP, hi], ?_⟩
    rw [List.getElem_zip, List.getElem_zip, vget_eq_getElem d i (hd ▸ hi),
      vget_eq_getElem s i (hs ▸ hi), pget_eq_getElem P i (hP ▸ hi)]

/-- the ratios `fcAlpha` minimises over are exactly `ratioAt d_i s_i` for `i ∈ q = P ∧ s ≤ tol` -/
theorem mem_ratios_iff (n : ℕ) (tol : α) (st : St α) (hd : st.d.length = n) (hs : st.s.length = n)
    (hP : st.P.length = n) (r : α) :
    r ∈ ((List.zip (List.zip st.d st.s) st.P).filterMap fun x =>
        if x.2 && decide (x.1.2 ≤ tol) then
          some (if x.1.1 - x.1.2 = 0 then 0 else x.1.1 / (x.1.1 - x.1.2))
        else none)
      ↔ ∃ i, i < n ∧ pget st.P i = true ∧ vget st.s i ≤ tol ∧ r = ratioAt (vget st.d i) (vget st.s i) := by
  rw [List.mem_filterMap]
  constructor
  · rintro ⟨a, hmem, hf⟩
    obtain ⟨i, hi, rfl⟩ := (mem_zip3_iff n st.d st.s st.P hd hs hP a).mp hmem
    simp only at hf
    split at hf
    · rename_i hc
      simp only [Bool.and_eq_true, decide_eq_true_eq] at hc
      refine ⟨i, hi, hc.1, hc.2, ?_⟩
      injection hf with hf
      rw [← hf]; rfl
    · simp at hf
  · rintro ⟨i, hi, hp, hle, rfl⟩
    refine ⟨((vget st.d i, vget st.s i), pget st.P i),
      (mem_zip3_iff n st.d st.s st.P hd hs hP _).mpr ⟨i, hi, rfl⟩, ?_⟩
    simp [hp, hle, ratioAt]

theorem anyPassiveBelow_true (n : ℕ) (s : List α) (P : List Bool) (tol : α) (hs : s.length = n)
    (hP : P.length = n) (h : anyPassiveBelow s P tol = true) :
    ∃ i, i < n ∧ pget P i = true ∧ vget s i ≤ tol := by
  unfold anyPassiveBelow at h
  obtain ⟨i, hi, hf⟩ := (zip_any_iff n s P hs hP _).mp h
  exact ⟨i, hi, by simpa using hf⟩

/-- when the inner-loop guard holds, `alpha` is attained at some index of `q` -/
theorem fcAlpha_attained (n : ℕ) (tol : α) (st : St α) (hd : st.d.length = n) (hs : st.s.length = n)
    (hP : st.P.length = n) (hg : anyPassiveBelow st.s st.P tol = true) :
    ∃ i, i < n ∧ pget st.P i = true ∧ vget st.s i ≤ tol
      ∧ fcAlpha tol st = ratioAt (vget st.d i) (vget st.s i) := by
  obtain ⟨j, hj, hpj, hsj⟩ := anyPassiveBelow_true n st.s st.P tol hs hP hg
  have hne : ((List.zip (List.zip st.d st.s) st.P).filterMap fun x =>
        if x.2 && decide (x.1.2 ≤ tol) then
          some (if x.1.1 - x.1.2 = 0 then 0 else x.1.1 / (x.1.1 - x.1.2))
        else none) ≠ [] := by
    intro hnil
    have := (mem_ratios_iff n tol st hd hs hP _).mpr ⟨j, hj, hpj, hsj, rfl⟩
    rw [hnil] at this; simp at this
  have hmem := minimum_mem _ hne
  exact (mem_ratios_iff n tol st hd hs hP _).mp hmem

theorem fcAlpha_le (n : ℕ) (tol : α) (st : St α) (hd : st.d.length = n) (hs : st.s.length = n)
    (hP : st.P.length = n) (i : ℕ) (hi : i < n) (hp : pget st.P i = true) (hle : vget st.s i ≤ tol) :
    fcAlpha tol st ≤ ratioAt (vget st.d i) (vget st.s i) :=
  minimum_le _ _ ((mem_ratios_iff n tol st hd hs hP _).mpr ⟨i, hi, hp, hle, rfl⟩)

theorem vget_fcD (n : ℕ) (tol : α) (st : St α) (hd : st.d.length = n) (hs : st.s.length = n)
    (i : ℕ) (hi : i < n) :
    vget (fcD tol st) i = vget st.d i + fcAlpha tol st * (vget st.s i - vget st.d i) := by
  rw [vget_eq_getElem _ _ (by rw [fcD_length n tol st hd hs]; exact hi), vget_eq_getElem st.d i (hd ▸ hi),
    vget_eq_getElem st.s i (hs ▸ hi)]
  simp [fcD]

/-- the index attaining `alpha` lands on `≤ tol` -/
theorem fcD_at_min (d s : α) (tol : α) (htol : 0 ≤ tol) (hs : s ≤ tol) :
    d + ratioAt d s * (s - d) ≤ tol := by
  unfold ratioAt
  split
  · rename_i h0
    have : d = s := sub_eq_zero.mp h0
    simp [this, hs]
  · rename_i hne
    have : d + d / (d - s) * (s - d) = 0 := by
      field_simp
      ring
    rw [this]; exact htol

/-! ### the passive set shrinks -/

theorem fcP_cons (tol : α) (p : Bool) (ps : List Bool) (x : α) (xs : List α) :
    fcP tol (p :: ps) (x :: xs) = (if x ≤ tol then false else p) :: fcP tol ps xs := rfl

theorem count_fcP_le (tol : α) : ∀ (P : List Bool) (d : List α),
    (fcP tol P d).count true ≤ P.count true := by
  intro P
  induction P with
  | nil => intro d; simp [fcP]
  | cons p ps ih =>
    intro d
    cases d with
    | nil => simp [fcP]
    | cons x xs =>
      have := ih xs
      rw [fcP_cons, List.count_cons, List.count_cons]
      generalize (fcP tol ps xs).count true = c at this ⊢
      by_cases hx : x ≤ tol <;> cases p <;> simp [hx] <;> omega

theorem count_fcP_lt (tol : α) : ∀ (P : List Bool) (d : List α) (i : ℕ), i < P.length → i < d.length →
    pget P i = true → vget d i ≤ tol → (fcP tol P d).count true < P.count true := by
  intro P
  induction P with
  | nil => intro d i hi; simp at hi
  | cons p ps ih =>
    intro d i hi hid hp hle
    cases d with
    | nil => simp at hid
    | cons x xs =>
      rw [fcP_cons, List.count_cons, List.count_cons]
      cases i with
      | zero =>
        have hp' : p = true := by simpa [pget] using hp
        have hx : x ≤ tol := by simpa [vget] using hle
        have := count_fcP_le tol ps xs
        generalize (fcP tol ps xs).count true = c at this ⊢
        subst hp'
        simp [hx]; omega
      | succ k =>
        have := ih xs k (by simpa using hi) (by simpa using hid) (by simpa [pget] using hp)
          (by simpa [vget] using hle)
        generalize (fcP tol ps xs).count true = c at this ⊢
        by_cases hx : x ≤ tol <;> cases p <;> simp [hx] <;> omega

/-- one pass of `fix_constraint_cholesky` under the inner-loop guard removes at least one index from the
    passive set (whatever the linear solver returns) and keeps the array lengths -/
theorem fixConstraint_shrinks (solve : List (List α) → List α → Option (List α))
    (A : List (List α)) (b : List α) (n : ℕ) (tol : α) (htol : 0 ≤ tol) (st st' : St α)
    (hP : st.P.length = n) (hs : st.s.length = n) (hd : st.d.length = n)
    (hg : anyPassiveBelow st.s st.P tol = true)
    (h : fixConstraint solve A b tol st = some st') :
    st'.P.count true < st.P.count true ∧ st'.P.length = n ∧ st'.s.length = n ∧ st'.d.length = n
      ∧ st'.loopCount2 = st.loopCount2 := by
  obtain ⟨i, hi, hpi, hsi, hα⟩ := fcAlpha_attained n tol st hd hs hP hg
  have hdl := fcD_length n tol st hd hs
  have hPl := fcP_length n tol st.P (fcD tol st) hP hdl
  have hdi : vget (fcD tol st) i ≤ tol := by
    rw [vget_fcD n tol st hd hs i hi, hα]
    exact fcD_at_min _ _ tol htol hsi
  have hlt := count_fcP_lt tol st.P (fcD tol st) i (hP ▸ hi) (hdl ▸ hi) hpi hdi
  unfold fixConstraint at h
  simp only at h
  split at h
  · cases h
    exact ⟨hlt, hPl, fcS_length n _ _ hs hPl, hdl, rfl⟩
  · split at h
    · simp at h
    · cases h
      exact ⟨hlt, hPl, fcS_length n _ _ (by rw [scatter_length, hs]) hPl, hdl, rfl⟩

/-- the inner loop never runs out of a budget larger than `|P|`, and makes at most `|P|` passes -/
theorem innerLoop_terminates (solve : List (List α) → List α → Option (List α))
    (A : List (List α)) (b : List α) (n : ℕ) (tol : α) (htol : 0 ≤ tol) (maxIter : ℕ) :
    ∀ (fuel : ℕ) (st : St α), st.P.length = n → st.s.length = n → st.d.length = n →
      st.P.count true < fuel →
      innerLoop solve A b tol maxIter fuel st ≠ .error .fuel
      ∧ ∀ st', innerLoop solve A b tol maxIter fuel st = .ok st' →
          st'.loopCount2 + st'.P.count true ≤ st.loopCount2 + st.P.count true := by
  intro fuel
  induction fuel with
  | zero => intro st _ _ _ hf; omega
  | succ fuel ih =>
    intro st hP hs hd hf
    rw [innerLoop]
    split
    · rename_i hg
      split
      · exact ⟨by simp, by simp⟩
      · rename_i st1 hfix
        obtain ⟨hlt, hP1, hs1, hd1, hlc⟩ :=
          fixConstraint_shrinks solve A b n tol htol st st1 hP hs hd hg hfix
        simp only
        split
        · exact ⟨by simp, by simp⟩
        · obtain ⟨h1, h2⟩ := ih { st1 with loopCount2 := st1.loopCount2 + 1 } hP1 hs1 hd1
            (by show st1.P.count true < fuel; omega)
          refine ⟨h1, fun st' hst' => ?_⟩
          have := h2 st' hst'
          simp only at this
          omega
    · exact ⟨by simp, fun st' hst' => by cases hst'; exact le_rfl⟩

end Ordered
end Model
