/-
Proofs/NNLSWTildeMapped.lean — C05 clause e for the W-TILDE formalism:
`InversionImagingWTilde.mapped_reconstructed_data_dict` (per mapper:
`mapped_reconstructed_data_via_image_to_pix_unique_from` on the unique mappings, then
`convolver.convolve_image_no_blurring`; per function list: `np.sum(s * operated_mapping_matrix, axis=1)`)
returns, for each linear object, its blurred mapping matrix times its slice of the reconstruction — the value
the mapping formalism's code returns — and the images sum to `hstack(B_obj) · s`.

Composition:
  * Proofs/WTildeMappedUnique.lean  `mappedViaUnique_row`: on unique tables that encode `M` (the conclusion of
    C06.e, predicate `Encodes`) the un-blurred image is `M · s`;
  * C03 (Proofs/Convolution*.lean)  `scatterFrames_getD` (scatter–accumulate: `convolve_image_no_blurring` is
    the linear map with weights `convWeight`), `convolveMatrixWith_col` (C03.c: column `p` of
    `convolve_mapping_matrix(M)` is that operator applied to column `p` of `M`), `col_source_loop` (shape);
  * C05 (Proofs/NNLSRecon.lean)     `mappedViaMatrix_eq`, `mappedData_fold`, `hstack_row_dot`, `ShapesOK`.
The model of the convolver is C03's (`Impl.convolveNoBlurring cv`, `Impl.convolveMatrix cv`), for EVERY table
`cv : Impl.Convolver α` — in particular the one `Impl.convolver m K` builds for any mask and any odd kernel.
-/
import Proofs.WTildeMappedUnique
import Proofs.NNLSRecon
import Proofs.ConvolutionLinear

namespace Model
namespace WTildeMapped

open Spec

/-! ### C03's operators as explicit finite sums -/

section Ring
variable {α : Type} [CommRing α]

theorem lsum_eq_sum (l : List α) : lsum l = l.sum := by
  induction l with
  | nil => rfl
  | cons a l ih => simp [ih]

/-- weight with which slim pixel `a` is blurred into slim pixel `t` by the convolver's image frames:
    `Σ {w | (t, w) ∈ image_frame[a]}` -/
def convWeight (cv : Impl.Convolver α) (t a : Nat) : α :=
  (((cv.imageFrames.getD a []).filter fun e => e.1 == t).map (·.2)).sum

/-- `convolve_image_no_blurring` entry by entry (from C03's scatter–accumulate lemma) -/
theorem convolveNoBlurring_getD (cv : Impl.Convolver α) (img : List α) (t : Nat) (ht : t < img.length) :
    (Impl.convolveNoBlurring cv img).getD t 0
      = ((List.range img.length).map fun a => img.getD a 0 * convWeight cv t a).sum := by
  unfold Impl.convolveNoBlurring
  rw [scatterFrames_getD _ _ _ _ (by simpa using ht), getD_replicate_zero, zero_add, lsum_eq_sum]
  apply sum_map_congr
  intro a _
  rw [lsum_eq_sum, convWeight, List.sum_map_mul_left]

theorem convolveNoBlurring_length (cv : Impl.Convolver α) (img : List α) :
    (Impl.convolveNoBlurring cv img).length = img.length := by
  unfold Impl.convolveNoBlurring
  rw [scatterFrames_length, List.length_replicate]

/-- the blurred mapping matrix has the shape of its zero initialisation -/
theorem convolveMatrixWith_shape (keep : α → Bool) (cv : Impl.Convolver α) (nrows ncols : Nat)
    (M : List (List α)) : Shape nrows ncols (Impl.convolveMatrixWith keep cv nrows ncols M) := by
  unfold Impl.convolveMatrixWith
  have hinit : Shape nrows ncols (List.replicate nrows (List.replicate ncols (0 : α))) :=
    ⟨by simp, fun r hr => by rw [List.eq_of_mem_replicate hr]; simp⟩
  suffices H : ∀ (cs : List Nat) (out : List (List α)), (∀ c ∈ cs, c < ncols) → Shape nrows ncols out →
      Shape nrows ncols (cs.foldl (fun out c => (List.range nrows).foldl
        (fun out s =>
          let value := (M.getD s []).getD c 0
          if keep value then
            let fr := cv.imageFrames.getD s []
            (List.range fr.length).foldl
              (fun out k => let e := fr.getD k (0, 0); Impl.matAdd out e.1 c (value * e.2)) out
          else out) out) out) from
    H _ _ (fun c hc => List.mem_range.mp hc) hinit
  intro cs
  induction cs with
  | nil => intro out _ h; exact h
  | cons c cs ih =>
    intro out hcs hout
    simp only [List.foldl_cons]
    exact ih _ (fun c' h => hcs c' (List.mem_cons_of_mem _ h))
      (col_source_loop keep cv M (List.range nrows) out hout 0 c (hcs c (List.mem_cons_self ..))).1

theorem getD_col (c : Nat) (B : List (List α)) (t : Nat) :
    (col c B).getD t 0 = (B.getD t []).getD c 0 := by
  unfold col
  by_cases ht : t < B.length
  · simp [List.getD_eq_getElem?_getD, ht]
  · simp [List.getD_eq_getElem?_getD, List.getElem?_eq_none (Nat.le_of_not_lt ht)]

/-- entry `(t, p)` of `convolve_mapping_matrix(M)` (repaired code, `value != 0`): `Σ_a M[a,p]·W[t,a]`
    (C03.c, `convolveMatrixWith_col`) -/
theorem convolveMatrix_entry [DecidableEq α] (cv : Impl.Convolver α) (n P : Nat) (M : List (List α))
    (t p : Nat) (ht : t < n) (hp : p < P) :
    ((Impl.convolveMatrix cv n P M).getD t []).getD p 0
      = ((List.range n).map fun a => (M.getD a []).getD p 0 * convWeight cv t a).sum := by
  have hcol := convolveMatrixWith_col (fun v : α => v != 0) cv n P M p hp (fun s _ h => by simpa using h)
  have hlen : (colVec n M p).length = n := by simp [colVec]
  rw [← getD_col, Impl.convolveMatrix, hcol, convolveNoBlurring_getD cv _ t (by rw [hlen]; exact ht), hlen]
  apply sum_map_congr
  intro a ha
  rw [colVec_getD n M p a (List.mem_range.mp ha)]

/-- `x @ y` as a finite sum (no length hypothesis: `dot` stops at the shorter list, `getD` pads with 0) -/
theorem dot_eq_sum_getD (r s : List α) :
    dot r s = ((List.range s.length).map fun j => r.getD j 0 * s.getD j 0).sum := by
  induction s generalizing r with
  | nil => cases r <;> simp [dot]
  | cons b bs ih =>
    cases r with
    | nil =>
      simp only [dot, List.getD_nil, zero_mul]
      exact (sum_map_zero' _).symm
    | cons a as =>
      rw [dot, ih as, List.length_cons, List.range_succ_eq_map, List.map_cons, List.sum_cons, List.map_map]
      rfl

/-- **blurring commutes with the matrix–vector product**: if `img = M·s` (entry by entry over the `n × P`
    window of `M`) then `convolve_image_no_blurring(img) = convolve_mapping_matrix(M)·s`. -/
theorem convolve_matVec [DecidableEq α] (cv : Impl.Convolver α) (n P : Nat) (M : List (List α))
    (s img : List α) (hs : s.length = P) (himg : img.length = n)
    (hrow : ∀ a, a < n → img.getD a 0 = ((List.range P).map fun p => (M.getD a []).getD p 0 * s.getD p 0).sum) :
    Impl.convolveNoBlurring cv img = matVec (Impl.convolveMatrix cv n P M) s := by
  have hB : Shape n P (Impl.convolveMatrix cv n P M) := convolveMatrixWith_shape _ cv n P M
  apply List.ext_getElem
  · rw [convolveNoBlurring_length, himg, matVec_length, hB.1]
  · intro t h1 h2
    have ht : t < n := by rw [convolveNoBlurring_length, himg] at h1; exact h1
    have hL : (Impl.convolveNoBlurring cv img)[t] = (Impl.convolveNoBlurring cv img).getD t 0 := by
      simp [List.getD_eq_getElem?_getD, h1]
    have hR : (matVec (Impl.convolveMatrix cv n P M) s)[t]
        = dot ((Impl.convolveMatrix cv n P M).getD t []) s := by
      have : t < (Impl.convolveMatrix cv n P M).length := by rw [hB.1]; exact ht
      simp [matVec, List.getD_eq_getElem?_getD, this]
    rw [hL, hR, convolveNoBlurring_getD cv img t (by rw [himg]; exact ht), himg, dot_eq_sum_getD, hs]
    -- Σ_a (Σ_p M[a,p] s_p) W[t,a] = Σ_p (Σ_a M[a,p] W[t,a]) s_p
    have h1 : ((List.range n).map fun a => img.getD a 0 * convWeight cv t a).sum
        = ((List.range n).map fun a =>
            ((List.range P).map fun p => (M.getD a []).getD p 0 * convWeight cv t a * s.getD p 0).sum).sum := by
      apply sum_map_congr
      intro a ha
      rw [hrow a (List.mem_range.mp ha), ← List.sum_map_mul_right]
      apply sum_map_congr
      intro p _
      ring
    rw [h1, sum_comm']
    apply sum_map_congr
    intro p hp
    rw [convolveMatrix_entry cv n P M t p ht (List.mem_range.mp hp), ← List.sum_map_mul_right]

/-- **one mapper**: the w-tilde route (`mapped_reconstructed_data_via_image_to_pix_unique_from`, then
    `convolve_image_no_blurring`) on unique tables encoding the mapping matrix `M` equals `B · s` with
    `B = convolve_mapping_matrix(M)` — which is also what the mapping formalism's double loop
    `mapped_reconstructed_data_via_mapping_matrix_from(B, s)` returns. -/
theorem mapper_route_eq [DecidableEq α] (cv : Impl.Convolver α) (n P : Nat)
    (d2p : List (List Int)) (dw : List (List α)) (len : List Nat) (M : List (List α))
    (hU : Encodes d2p dw len n P M) (s : List α) (hs : s.length = P) :
    Impl.convolveNoBlurring cv (mappedViaUnique d2p dw len s) = matVec (Impl.convolveMatrix cv n P M) s :=
  convolve_matVec cv n P M s _ hs (by rw [mappedViaUnique_length, hU.rows])
    (fun a ha => mappedViaUnique_row d2p dw len n P M hU s a ha)

/-- the function-list branch `np.sum(s * B, axis=1)` is `B · s` -/
theorem rowSums_eq (B : List (List α)) (s : List α) : rowSums B s = matVec B s := by
  unfold rowSums matVec
  apply List.map_congr_left
  intro row _
  suffices H : ∀ (s row : List α) (acc : α),
      (List.zipWith (· * ·) s row).foldl (· + ·) acc = acc + dot row s by
    rw [H, zero_add]
  intro s
  induction s with
  | nil => intro row acc; cases row <;> simp [dot]
  | cons b bs ih =>
    intro row acc
    cases row with
    | nil => simp [dot]
    | cons a as =>
      simp only [List.zipWith_cons_cons, List.foldl_cons, dot]
      rw [ih]; ring

omit [CommRing α] in
theorem sliceDict_eq (params : List Nat) (s : List α) : sliceDict params s = Impl.sliceDict params s := by
  induction params generalizing s with
  | nil => rfl
  | cons p ps ih => simp [sliceDict, Impl.sliceDict, ih]

end Ring

/-! ### the dictionary and its sum -/

section Ordered
variable {α : Type} [Field α] [LinearOrder α] [IsStrictOrderedRing α]

/-- `B` is the blurred mapping matrix (over `m` data pixels) of the linear object `o`: for a mapper whose
    unique mappings encode the mapping matrix `M` (C06.e) it is `convolve_mapping_matrix(M)` — the entry of
    `operated_mapping_matrix_list` the mapping formalism uses —, for a function list it is its operated
    mapping matrix. -/
inductive IsBlurredOf (cv : Impl.Convolver α) (m : ℕ) : LinObj α → List (List α) → Prop
  | mapper (P : ℕ) (d2p : List (List Int)) (dw : List (List α)) (len : List ℕ) (M : List (List α))
      (hU : Encodes d2p dw len m P M) :
      IsBlurredOf cv m (.mapper P d2p dw len) (Impl.convolveMatrix cv m P M)
  | funcList (B : List (List α)) : IsBlurredOf cv m (.funcList B) B

omit [IsStrictOrderedRing α] in
theorem params_eq (cv : Impl.Convolver α) (m : ℕ) (hm : 0 < m) (o : LinObj α) (B : List (List α))
    (sk : List α) (hB : IsBlurredOf cv m o B) (hlen : B.length = m) (hrow : ∀ r, r ∈ B → r.length = sk.length) :
    o.params = sk.length := by
  cases hB with
  | mapper P d2p dw len M hU =>
    have hsh : Shape m P (Impl.convolveMatrix cv m P M) := convolveMatrixWith_shape _ cv m P M
    have h0 : 0 < (Impl.convolveMatrix cv m P M).length := by rw [hsh.1]; exact hm
    have hmem := List.getElem_mem h0
    simp only [LinObj.params]
    rw [← hsh.2 _ hmem, hrow _ hmem]
  | funcList B =>
    simp only [LinObj.params]
    cases B with
    | nil => simp at hlen; omega
    | cons r rs => simpa using hrow r (by simp)

omit [IsStrictOrderedRing α] in
theorem params_map (cv : Impl.Convolver α) (m : ℕ) (hm : 0 < m) (objs : List (LinObj α))
    (Bs : List (List (List α))) (ss : List (List α))
    (hB : List.Forall₂ (IsBlurredOf cv m) objs Bs) (hsh : ShapesOK m Bs ss) :
    objs.map LinObj.params = ss.map List.length := by
  induction hB generalizing ss with
  | nil => cases hsh; rfl
  | @cons o B objs' Bs' ho _ ih =>
    cases hsh with
    | @cons _ sk _ ss' hd htl =>
      simp only [List.map_cons, List.cons.injEq]
      exact ⟨params_eq cv m hm o B sk ho hd.1 hd.2, ih ss' htl⟩

omit [IsStrictOrderedRing α] in
theorem zipWith_mappedOne (cv : Impl.Convolver α) (m : ℕ) (hm : 0 < m) (objs : List (LinObj α))
    (Bs : List (List (List α))) (ss : List (List α))
    (hB : List.Forall₂ (IsBlurredOf cv m) objs Bs) (hsh : ShapesOK m Bs ss) :
    List.zipWith (mappedOne (Impl.convolveNoBlurring cv)) objs ss = List.zipWith matVec Bs ss := by
  induction hB generalizing ss with
  | nil => cases hsh; rfl
  | @cons o B objs' Bs' ho _ ih =>
    cases hsh with
    | @cons _ sk _ ss' hd htl =>
      simp only [List.zipWith_cons_cons, List.cons.injEq]
      refine ⟨?_, ih ss' htl⟩
      have hp := params_eq cv m hm o B sk ho hd.1 hd.2
      cases ho with
      | mapper P d2p dw len M hU =>
        exact mapper_route_eq cv m P d2p dw len M hU sk hp.symm
      | funcList B => exact rowSums_eq B sk

/-- **C05.e, w-tilde formalism (each).**  For any convolver tables `cv`, any number `m > 0` of data pixels and
    any list of linear objects — mappers given by unique-mapping tables that encode their mapping matrices
    (C06.e), function lists given by their operated mapping matrices —, with `Bs` the objects' blurred mapping
    matrices and `ss` the slices of the reconstruction (`ShapesOK`: `m` rows, as many columns as the slice is
    long): `InversionImagingWTilde.mapped_reconstructed_data_dict` returns for each object `B_obj · s_obj`,
    i.e. exactly what the mapping formalism's `mapped_reconstructed_data_dict` returns on `Bs`. -/
theorem e_w_tilde_mapped_data_each (cv : Impl.Convolver α) (m : ℕ) (hm : 0 < m)
    (objs : List (WTildeMapped.LinObj α)) (Bs : List (List (List α))) (ss : List (List α))
    (hB : List.Forall₂ (WTildeMapped.IsBlurredOf cv m) objs Bs) (hsh : ShapesOK m Bs ss) :
    WTildeMapped.mappedDataDict (Impl.convolveNoBlurring cv) objs ss.flatten = List.zipWith matVec Bs ss
    ∧ WTildeMapped.mappedDataDict (Impl.convolveNoBlurring cv) objs ss.flatten
        = Impl.mappedDataDict Bs ss.flatten := by
  have h1 : WTildeMapped.mappedDataDict (Impl.convolveNoBlurring cv) objs ss.flatten
      = List.zipWith matVec Bs ss := by
    unfold WTildeMapped.mappedDataDict
    rw [params_map cv m hm objs Bs ss hB hsh, sliceDict_eq]
    have := sliceDict_flatten ss ([] : List α)
    rw [List.append_nil] at this
    rw [this]
    exact zipWith_mappedOne cv m hm objs Bs ss hB hsh
  exact ⟨h1, by rw [h1, mappedDataDict_eq m hm Bs ss hsh]⟩

/-- **C05.e, w-tilde formalism (sum).**  `mapped_reconstructed_data = sum(dict.values())` of the w-tilde
    dictionary: `m` entries; entry `i` is the sum over the objects of entry `i` of `B_obj · s_obj`, which is
    entry `i` of `B · s` for `B = hstack(B_obj)` and `s = concat(s_obj)`. -/
theorem e_w_tilde_mapped_data_sum (cv : Impl.Convolver α) (m : ℕ) (hm : 0 < m)
    (objs : List (WTildeMapped.LinObj α)) (Bs : List (List (List α))) (ss : List (List α))
    (hB : List.Forall₂ (WTildeMapped.IsBlurredOf cv m) objs Bs) (hsh : ShapesOK m Bs ss) :
    (Impl.mappedData m
        (WTildeMapped.mappedDataDict (Impl.convolveNoBlurring cv) objs ss.flatten)).length = m
    ∧ ∀ i, i < m →
        vget (Impl.mappedData m
            (WTildeMapped.mappedDataDict (Impl.convolveNoBlurring cv) objs ss.flatten)) i
          = (List.zipWith (fun B sk => vget (matVec B sk) i) Bs ss).sum
        ∧ vget (Impl.mappedData m
            (WTildeMapped.mappedDataDict (Impl.convolveNoBlurring cv) objs ss.flatten)) i
          = vget (matVec (Impl.hstack m Bs) ss.flatten) i := by
  rw [(e_w_tilde_mapped_data_each cv m hm objs Bs ss hB hsh).1]
  have himgs : ∀ v, v ∈ List.zipWith matVec Bs ss → v.length = m := by
    clear hB
    intro v hv
    induction hsh with
    | nil => simp at hv
    | @cons B sk Bs' ss' hd _ ih =>
      simp only [List.zipWith_cons_cons, List.mem_cons] at hv
      rcases hv with rfl | hv
      · rw [matVec_length, hd.1]
      · exact ih hv
  obtain ⟨h1, h2⟩ := mappedData_fold m (List.zipWith matVec Bs ss) (List.replicate m 0) (by simp) himgs
  refine ⟨h1, fun i hi => ?_⟩
  have hsum : (List.map (fun v => vget v i) (List.zipWith matVec Bs ss)).sum
      = (List.zipWith (fun B sk => vget (matVec B sk) i) Bs ss).sum := by
    rw [List.map_zipWith]
  have hzero : vget (List.replicate m (0 : α)) i = 0 := by
    simp [vget, List.getD_eq_getElem?_getD, hi]
  have htot : vget (Impl.mappedData m (List.zipWith matVec Bs ss)) i
      = (List.zipWith (fun B sk => vget (matVec B sk) i) Bs ss).sum := by
    unfold Impl.mappedData
    rw [h2 i hi, hzero, zero_add, hsum]
  exact ⟨htot, by rw [htot, hstack_row_dot m Bs ss hsh i hi]⟩

end Ordered

/-! ### non-vacuity: a concrete instance (replayed on the real code, see design note)

4×4 frame with the central 2×2 unmasked, asymmetric 3×3 kernel `1…9`; a mapper with 3 source pixels whose
unique tables are what `data_slim_to_pixelization_unique_from` returns for the sub-pixel rows
`[0,1] [1] [2,0,2] [2]` with weights `[½,½] [1] [¼,½,¼] [1]` (the repeated pixel 2 is merged), followed by a
one-column function list; reconstruction `(1, −2, 3 | 5)`.  Real code: un-blurred image `(−½, −2, 2, 3)`,
w-tilde route `(−7/2, −1, 4, 13/2)` = `B·s`, function list `(25, 35, 55, 65)`. -/
example :
    let mask : Mask := ⟨4, 4, [true, true, true, true, true, false, false, true,
                               true, false, false, true, true, true, true, true]⟩
    let K : Kernel ℚ := ⟨3, 3, [1, 2, 3, 4, 5, 6, 7, 8, 9]⟩
    let d2p : List (List Int) := [[0, 1, -1], [1, -1, -1], [2, 0, -1], [2, -1, -1]]
    let dw : List (List ℚ) := [[1/2, 1/2, 0], [1, 0, 0], [1/2, 1/2, 0], [1, 0, 0]]
    let len : List ℕ := [2, 1, 2, 1]
    let M : List (List ℚ) := [[1/2, 1/2, 0], [0, 1, 0], [1/2, 0, 1/2], [0, 0, 1]]
    let BF : List (List ℚ) := [[5], [7], [11], [13]]
    let objs : List (LinObj ℚ) := [.mapper 3 d2p dw len, .funcList BF]
    let ss : List (List ℚ) := [[1, -2, 3], [5]]
    ∃ cv, Impl.convolver mask K = .ok cv
      ∧ Encodes d2p dw len 4 3 M
      ∧ List.Forall₂ (IsBlurredOf cv 4) objs [Impl.convolveMatrix cv 4 3 M, BF]
      ∧ ShapesOK 4 [Impl.convolveMatrix cv 4 3 M, BF] ss
      ∧ Impl.convolveMatrix cv 4 3 M
          = [[7/2, 13/2, 2], [9/2, 8, 7/2], [13/2, 11, 13/2], [15/2, 25/2, 8]]
      ∧ mappedViaUnique d2p dw len [1, -2, 3] = [-1/2, -2, 2, 3]
      ∧ WTildeMapped.mappedDataDict (Impl.convolveNoBlurring cv) objs ss.flatten
          = [[-7/2, -1, 4, 13/2], [25, 35, 55, 65]]
      ∧ Impl.mappedData 4 (WTildeMapped.mappedDataDict (Impl.convolveNoBlurring cv) objs ss.flatten)
          = [43/2, 34, 59, 143/2] := by
  refine ⟨_, rfl, ⟨by decide, by decide, by decide +kernel⟩, ?_, ?_, ?_, ?_, ?_, ?_⟩
  · exact .cons (.mapper 3 _ _ _ _ ⟨by decide, by decide, by decide +kernel⟩)
      (.cons (.funcList _) .nil)
  · exact .cons ⟨(convolveMatrixWith_shape _ _ 4 3 _).1, (convolveMatrixWith_shape _ _ 4 3 _).2⟩
      (.cons ⟨rfl, by decide⟩ .nil)
  · decide +kernel
  · decide +kernel
  · decide +kernel
  · decide +kernel

end WTildeMapped
end Model
