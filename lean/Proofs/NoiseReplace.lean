/-
Proofs/NoiseReplace.lean — refinement `Impl.replaceNoise = Spec.replaceNoise` (Model/NoiseReplace.lean,
`array_2d_util.replace_noise_map_2d_values_where_image_2d_values_are_negative`): the in-place scan computes
the pointwise map, for every size.  Core Lean only.
-/
import Model.NoiseReplace
import Proofs.Core

namespace Model

open Impl

variable {α : Type} [Div α] [Neg α] [OfNat α 0] [LT α] [DecidableLT α] [LE α] [DecidableLE α] [Inhabited α]

/-- one step of the scan: only entry `k` changes, to `replacedValue` of the current entries -/
theorem replaceNoiseAt_spec (image : List α) (target : α) (noise : List α) (k : Nat)
    (hk : k < noise.length) :
    (replaceNoiseAt image target noise k).length = noise.length ∧
    ∀ j, (replaceNoiseAt image target noise k).getD j default
      = if j = k then Spec.replacedValue target (image.getD k default) (noise.getD k default)
        else noise.getD j default := by
  unfold replaceNoiseAt Spec.replacedValue
  by_cases h1 : image.getD k default < 0
  · by_cases h2 : absR (image.getD k default) / noise.getD k default ≥ target
    · simp only [h1, h2, if_true, and_self, List.length_set, true_and]
      intro j
      by_cases hj : j = k
      · subst hj
        simp [List.getD_eq_getElem?_getD, hk]
      · have hj' : ¬ k = j := fun h => hj h.symm
        simp [List.getD_eq_getElem?_getD, hj, hj']
    · simp only [h1, h2, if_true, if_false, and_false, true_and]
      intro j
      by_cases hj : j = k
      · subst hj; simp
      · simp [hj]
  · simp only [h1, if_false, false_and, true_and]
    intro j
    by_cases hj : j = k
    · subst hj; simp
    · simp [hj]

/-- the scan over the first `m` flattened indices -/
theorem replaceNoise_prefix (image : List α) (target : α) (noise : List α) (m : Nat)
    (hm : m ≤ noise.length) :
    ((List.range m).foldl (fun acc k => replaceNoiseAt image target acc k) noise).length = noise.length ∧
    ∀ j, ((List.range m).foldl (fun acc k => replaceNoiseAt image target acc k) noise).getD j default
      = if j < m then Spec.replacedValue target (image.getD j default) (noise.getD j default)
        else noise.getD j default := by
  induction m with
  | zero => simp
  | succ m ih =>
    obtain ⟨hl, hg⟩ := ih (by omega)
    rw [List.range_succ, List.foldl_append]
    simp only [List.foldl_cons, List.foldl_nil]
    obtain ⟨sl, sg⟩ := replaceNoiseAt_spec image target
      ((List.range m).foldl (fun acc k => replaceNoiseAt image target acc k) noise) m (by omega)
    refine ⟨by rw [sl, hl], fun j => ?_⟩
    rw [sg j]
    by_cases hj : j = m
    · subst hj
      rw [hg j]
      simp
    · rw [if_neg hj, hg j]
      by_cases hlt : j < m
      · have : j < m + 1 := by omega
        simp [hlt, this]
      · have : ¬ j < m + 1 := by omega
        simp [hlt, this]

/-- REFINEMENT: the in-place row-major scan is the pointwise map (the noise map has `h*w` entries) -/
theorem replaceNoise_eq (h w : Nat) (image noise : List α) (target : α) (hn : noise.length = h * w) :
    Impl.replaceNoise h w image noise target = Spec.replaceNoise h w image noise target := by
  unfold Impl.replaceNoise
  rw [forYX_eq_foldl]
  have hfold : (pixels h w).foldl (fun acc p => replaceNoiseAt image target acc (p.1 * w + p.2)) noise
      = (List.range (h * w)).foldl (fun acc k => replaceNoiseAt image target acc k) noise := by
    rw [← pixels_map_flat, List.foldl_map]
    rfl
  rw [hfold]
  obtain ⟨hl, hg⟩ := replaceNoise_prefix image target noise (h * w) (by omega)
  apply List.ext_getElem
  · rw [hl, hn]; simp [Spec.replaceNoise]
  · intro k h1 h2
    have hk : k < h * w := by rw [hl, hn] at h1; exact h1
    have e1 : ∀ (l : List α) (h : k < l.length), l[k] = l.getD k default := by
      intro l h; simp [List.getD_eq_getElem?_getD, h]
    rw [e1, hg k]
    simp [Spec.replaceNoise, hk]

end Model
