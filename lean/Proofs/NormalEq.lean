/-
Proofs/NormalEq.lean — foundations for property C04: finite sums, the array accumulators of
Model/NormalEq.lean, and the generic "additive loop" lemma (every `out[t] += v` loop nest of the inversion
code adds, to each entry, the sum of the contributions aimed at it).
-/
import Model.NormalEq
import Proofs.Core
import Proofs.Slim
import Mathlib.Tactic.Ring
import Mathlib.Tactic.Linarith
import Mathlib.Algebra.BigOperators.Group.List.Basic
import Mathlib.Algebra.Order.Field.Basic

namespace Model

variable {α : Type}

/-! ## sums -/
section Sums
variable [Field α]

theorem sum_eq (l : List α) : Model.sum l = l.sum := by
  induction l with
  | nil => rfl
  | cons a l ih =>
    have : Model.sum (a :: l) = a + Model.sum l := rfl
    rw [this, ih, List.sum_cons]

theorem sum_nil : Model.sum ([] : List α) = 0 := rfl

theorem sum_cons (a : α) (l : List α) : Model.sum (a :: l) = a + Model.sum l := rfl

theorem sum_append (l₁ l₂ : List α) : Model.sum (l₁ ++ l₂) = Model.sum l₁ + Model.sum l₂ := by
  simp [sum_eq]

variable {ι : Type}

theorem sum_map_zero (l : List ι) : Model.sum (l.map fun _ => (0 : α)) = 0 := by
  induction l with
  | nil => rfl
  | cons a l ih => simp only [List.map_cons, sum_cons, ih, add_zero]

theorem sum_map_add (l : List ι) (f g : ι → α) :
    Model.sum (l.map fun i => f i + g i) = Model.sum (l.map f) + Model.sum (l.map g) := by
  induction l with
  | nil => simp [sum_nil]
  | cons a l ih => simp only [List.map_cons, sum_cons, ih]; ring

theorem sum_map_mul_left (l : List ι) (c : α) (f : ι → α) :
    Model.sum (l.map fun i => c * f i) = c * Model.sum (l.map f) := by
  induction l with
  | nil => simp [sum_nil]
  | cons a l ih => simp only [List.map_cons, sum_cons, ih]; ring

theorem sum_map_mul_right (l : List ι) (c : α) (f : ι → α) :
    Model.sum (l.map fun i => f i * c) = Model.sum (l.map f) * c := by
  induction l with
  | nil => simp [sum_nil]
  | cons a l ih => simp only [List.map_cons, sum_cons, ih]; ring

theorem sum_map_congr (l : List ι) (f g : ι → α) (h : ∀ i ∈ l, f i = g i) :
    Model.sum (l.map f) = Model.sum (l.map g) := by
  induction l with
  | nil => rfl
  | cons a l ih =>
    simp only [List.map_cons, sum_cons]
    rw [h a (by simp), ih (fun i hi => h i (by simp [hi]))]

theorem sum_map_eq_zero (l : List ι) (f : ι → α) (h : ∀ i ∈ l, f i = 0) :
    Model.sum (l.map f) = 0 := by
  rw [sum_map_congr l f (fun _ => 0) h, sum_map_zero]

/-- Fubini for two lists -/
theorem sum_map_comm {κ : Type} (l₁ : List ι) (l₂ : List κ) (f : ι → κ → α) :
    Model.sum (l₁.map fun i => Model.sum (l₂.map fun j => f i j))
      = Model.sum (l₂.map fun j => Model.sum (l₁.map fun i => f i j)) := by
  induction l₁ with
  | nil => simp only [List.map_nil, sum_nil]; exact (sum_map_zero l₂).symm
  | cons a l ih =>
    simp only [List.map_cons, sum_cons, ih]
    rw [← sum_map_add]

/-- sum over a filtered list = sum of the guarded terms -/
theorem sum_map_filter (l : List ι) (p : ι → Bool) (f : ι → α) :
    Model.sum ((l.filter p).map f) = Model.sum (l.map fun i => if p i then f i else 0) := by
  induction l with
  | nil => rfl
  | cons a l ih =>
    by_cases h : p a
    · simp [List.filter_cons, h, sum_cons, ih]
    · simp [List.filter_cons, h, sum_cons, ih]

theorem sum_flatMap {κ : Type} (l : List ι) (g : ι → List κ) (f : κ → α) :
    Model.sum ((l.flatMap g).map f) = Model.sum (l.map fun i => Model.sum ((g i).map f)) := by
  induction l with
  | nil => rfl
  | cons a l ih => simp [List.flatMap_cons, sum_append, sum_cons, ih]

theorem sum_map_map {κ : Type} (l : List ι) (g : ι → κ) (f : κ → α) :
    Model.sum ((l.map g).map f) = Model.sum (l.map fun i => f (g i)) := by
  simp [List.map_map, Function.comp_def]

/-- a sum with at most one non-zero term, over a duplicate-free list -/
theorem sum_map_single [DecidableEq ι] (l : List ι) (hl : l.Nodup) (k : ι) (f : ι → α) :
    Model.sum (l.map fun i => if i = k then f i else 0) = if k ∈ l then f k else 0 := by
  induction l with
  | nil => simp [sum_nil]
  | cons a l ih =>
    have hnd := List.nodup_cons.mp hl
    simp only [List.map_cons, sum_cons, ih hnd.2]
    by_cases hak : a = k
    · subst hak
      simp [hnd.1]
    · have : ¬ k = a := fun h => hak h.symm
      simp [hak, this]

/-! ### sums over `range n` -/

theorem sumRange_def (n : Nat) (f : Nat → α) : sumRange n f = Model.sum ((List.range n).map f) := rfl

theorem sumRange_zero (f : Nat → α) : sumRange 0 f = 0 := rfl

theorem sumRange_succ (n : Nat) (f : Nat → α) : sumRange (n + 1) f = sumRange n f + f n := by
  simp [sumRange_def, List.range_succ, sum_append, sum_cons, sum_nil]

theorem sumRange_congr (n : Nat) (f g : Nat → α) (h : ∀ i, i < n → f i = g i) :
    sumRange n f = sumRange n g :=
  sum_map_congr _ f g fun i hi => h i (List.mem_range.mp hi)

theorem sumRange_eq_zero (n : Nat) (f : Nat → α) (h : ∀ i, i < n → f i = 0) : sumRange n f = 0 :=
  sum_map_eq_zero _ f fun i hi => h i (List.mem_range.mp hi)

theorem sumRange_add (n : Nat) (f g : Nat → α) :
    sumRange n (fun i => f i + g i) = sumRange n f + sumRange n g := sum_map_add _ f g

theorem sumRange_mul_left (n : Nat) (c : α) (f : Nat → α) :
    sumRange n (fun i => c * f i) = c * sumRange n f := sum_map_mul_left _ c f

theorem sumRange_mul_right (n : Nat) (c : α) (f : Nat → α) :
    sumRange n (fun i => f i * c) = sumRange n f * c := sum_map_mul_right _ c f

theorem sumRange_comm (n m : Nat) (f : Nat → Nat → α) :
    sumRange n (fun i => sumRange m fun j => f i j) = sumRange m fun j => sumRange n fun i => f i j :=
  sum_map_comm _ _ f

theorem sumRange_single (n k : Nat) (f : Nat → α) :
    sumRange n (fun i => if i = k then f i else 0) = if k < n then f k else 0 := by
  rw [sumRange_def, sum_map_single _ List.nodup_range]
  simp

theorem sumRange_single' (n k : Nat) (f : Nat → α) :
    sumRange n (fun i => if k = i then f i else 0) = if k < n then f k else 0 := by
  rw [← sumRange_single n k f]
  apply sumRange_congr
  intro i _
  by_cases h : i = k
  · simp [h]
  · have : ¬ k = i := fun h' => h h'.symm
    simp [h, this]

theorem sumRange_succ' (n : Nat) (f : Nat → α) :
    sumRange (n + 1) f = f 0 + sumRange n fun i => f (i + 1) := by
  induction n with
  | zero => simp [sumRange_succ, sumRange_zero]
  | succ n ih => rw [sumRange_succ, ih, sumRange_succ]; ring

/-- sum over a list read through its indices -/
theorem sum_map_getD {β : Type} (l : List β) (d : β) (f : β → α) :
    Model.sum (l.map f) = sumRange l.length fun k => f (l.getD k d) := by
  induction l with
  | nil => rfl
  | cons a l ih =>
    rw [List.map_cons, sum_cons, List.length_cons, sumRange_succ', ih]
    simp

/-- sum over `range' s n` -/
theorem sum_range' (s n : Nat) (f : Nat → α) :
    Model.sum ((List.range' s n).map f) = sumRange n fun i => f (s + i) := by
  rw [List.range'_eq_map_range, sum_map_map]; rfl

end Sums

/-! ## accumulators -/
section Acc
variable [Field α]

namespace Vec

theorem size_zeros (n : Nat) : (Vec.zeros n : Vec α).size = n := by simp [Vec.zeros]

theorem get_zeros (n k : Nat) : (Vec.zeros n : Vec α).get k = 0 := by
  simp only [Vec.zeros, Vec.get, Array.getD_eq_getD_getElem?]
  by_cases h : k < n
  · simp [h]
  · simp [h]

theorem size_add (v : Vec α) (i : Nat) (x : α) : (v.add i x).size = v.size := by
  simp [Vec.add]

theorem get_add (v : Vec α) (i : Nat) (x : α) (k : Nat) (hk : k < v.size) :
    (v.add i x).get k = v.get k + if k = i then x else 0 := by
  simp only [Vec.add, Vec.get, Array.getD_eq_getD_getElem?, Array.getElem?_setIfInBounds]
  by_cases h : i = k
  · subst h
    simp [hk]
  · have : ¬ k = i := fun h' => h h'.symm
    simp [h, this]

theorem get_of_size_le (v : Vec α) (k : Nat) (hk : v.size ≤ k) : v.get k = 0 := by
  simp [Vec.get, Array.getD_eq_getD_getElem?, hk]

theorem toList_getD (v : Vec α) (k : Nat) : v.toList.getD k 0 = v.get k := by
  simp [Vec.toList, Vec.get, Array.getD_eq_getD_getElem?, List.getD_eq_getElem?_getD]

end Vec

namespace Mat

@[simp] theorem zeros_r (r c : Nat) : (Mat.zeros r c : Mat α).r = r := rfl
@[simp] theorem zeros_c (r c : Nat) : (Mat.zeros r c : Mat α).c = c := rfl
@[simp] theorem ofFn_r (r c : Nat) (f : Nat → Nat → α) : (Mat.ofFn r c f).r = r := rfl
@[simp] theorem ofFn_c (r c : Nat) (f : Nat → Nat → α) : (Mat.ofFn r c f).c = c := rfl

theorem flat_lt {r c i j : Nat} (hi : i < r) (hj : j < c) : i * c + j < r * c := by
  have : (i + 1) * c ≤ r * c := Nat.mul_le_mul_right c hi
  rw [Nat.succ_mul] at this
  omega

theorem get_zeros (r c i j : Nat) : (Mat.zeros r c : Mat α).get i j = 0 := by
  simp only [Mat.get, Mat.zeros]
  by_cases h : i < r ∧ j < c
  · simp [h, Array.getD_eq_getD_getElem?, flat_lt h.1 h.2]
  · simp [h]

theorem get_of_not_lt (M : Mat α) (i j : Nat) (h : ¬ (i < M.r ∧ j < M.c)) : M.get i j = 0 := by
  simp [Mat.get, h]

theorem get_ofFn (r c : Nat) (f : Nat → Nat → α) (i j : Nat) :
    (Mat.ofFn r c f).get i j = if i < r ∧ j < c then f i j else 0 := by
  simp only [Mat.get, Mat.ofFn]
  by_cases h : i < r ∧ j < c
  · have hlt := flat_lt h.1 h.2
    have hc : 0 < c := by omega
    simp only [h, and_self, ↓reduceIte, Array.getD_eq_getD_getElem?]
    rw [Array.getElem?_eq_getElem (by simpa using hlt)]
    simp only [Array.getElem_ofFn, Option.getD_some]
    have h1 : (i * c + j) / c = i := by
      rw [Nat.mul_comm, Nat.mul_add_div hc, Nat.div_eq_of_lt h.2]; simp
    have h2 : (i * c + j) % c = j := by
      rw [Nat.mul_comm, Nat.mul_add_mod, Nat.mod_eq_of_lt h.2]
    rw [h1, h2]
  · simp [h]

@[simp] theorem put_r (M : Mat α) (i j : Nat) (x : α) : (M.put i j x).r = M.r := by
  unfold Mat.put; split <;> rfl
@[simp] theorem put_c (M : Mat α) (i j : Nat) (x : α) : (M.put i j x).c = M.c := by
  unfold Mat.put; split <;> rfl
@[simp] theorem add_r (M : Mat α) (i j : Nat) (x : α) : (M.add i j x).r = M.r := by simp [Mat.add]
@[simp] theorem add_c (M : Mat α) (i j : Nat) (x : α) : (M.add i j x).c = M.c := by simp [Mat.add]

theorem flat_inj {c i j a b : Nat} (hj : j < c) (hb : b < c) (h : i * c + j = a * c + b) :
    i = a ∧ j = b := by
  have := flat_injOn (w := c) (p := (i, j)) (q := (a, b)) hj hb (by simpa [flat] using h)
  simpa using this

theorem get_put (M : Mat α) (i j : Nat) (x : α) (a b : Nat) :
    (M.put i j x).get a b = if a = i ∧ b = j ∧ i < M.r ∧ j < M.c then x else M.get a b := by
  unfold Mat.put
  by_cases hij : i < M.r ∧ j < M.c
  · simp only [hij, and_self, ↓reduceIte, and_true]
    simp only [Mat.get]
    by_cases hab : a < M.r ∧ b < M.c
    · simp only [hab, and_self, ↓reduceIte, Array.getD_eq_getD_getElem?,
        Array.getElem?_setIfInBounds]
      by_cases he : i * M.c + j = a * M.c + b
      · obtain ⟨h1, h2⟩ := flat_inj hij.2 hab.2 he
        subst h1; subst h2
        have : i * M.c + j < M.data.size := by rw [M.h]; exact flat_lt hij.1 hij.2
        simp [this]
      · have : ¬ (a = i ∧ b = j) := by
          rintro ⟨h1, h2⟩; subst h1; subst h2; exact he rfl
        simp [he, this]
    · have : ¬ (a = i ∧ b = j) := by
        rintro ⟨h1, h2⟩; subst h1; subst h2; exact hab hij
      simp [hab, this]
  · have : ¬ (a = i ∧ b = j ∧ i < M.r ∧ j < M.c) := fun h => hij ⟨h.2.2.1, h.2.2.2⟩
    simp [hij, this]

theorem get_add (M : Mat α) (i j : Nat) (x : α) (a b : Nat) :
    (M.add i j x).get a b
      = M.get a b + if a = i ∧ b = j ∧ i < M.r ∧ j < M.c then x else 0 := by
  unfold Mat.add
  rw [get_put]
  split
  · rename_i h
    rw [h.1, h.2.1]
  · simp

/-- inside the shape the bounds test of `add` is redundant -/
theorem get_add_of_lt (M : Mat α) (i j : Nat) (x : α) (a b : Nat) (ha : a < M.r) (hb : b < M.c) :
    (M.add i j x).get a b = M.get a b + if a = i ∧ b = j then x else 0 := by
  rw [get_add]
  congr 1
  by_cases h : a = i ∧ b = j
  · obtain ⟨h1, h2⟩ := h
    subst h1; subst h2
    simp [ha, hb]
  · have : ¬ (a = i ∧ b = j ∧ i < M.r ∧ j < M.c) := fun h' => h ⟨h'.1, h'.2.1⟩
    simp [h, this]

theorem get_put_of_lt (M : Mat α) (i j : Nat) (x : α) (a b : Nat) (ha : a < M.r) (hb : b < M.c) :
    (M.put i j x).get a b = if a = i ∧ b = j then x else M.get a b := by
  rw [get_put]
  by_cases h : a = i ∧ b = j
  · obtain ⟨h1, h2⟩ := h
    subst h1; subst h2
    simp [ha, hb]
  · have : ¬ (a = i ∧ b = j ∧ i < M.r ∧ j < M.c) := fun h' => h ⟨h'.1, h'.2.1⟩
    simp [h, this]

theorem toLists_get (M : Mat α) (i j : Nat) :
    ((M.toLists).getD i []).getD j 0 = M.get i j := by
  simp only [Mat.toLists, List.getD_eq_getElem?_getD]
  by_cases hi : i < M.r
  · by_cases hj : j < M.c
    · simp [hi, hj]
    · simp [hi, hj, Mat.get]
  · simp [hi, Mat.get]

end Mat
end Acc

/-! ## additive loops -/
section Additive
variable [Field α] {S ι κ : Type}

/-- `step` adds the contribution `c x k` to every observed entry `k` (inside the region `P`) and keeps
    the shape invariant `I`. -/
def Additive (obs : S → κ → α) (I : S → Prop) (P : κ → Prop) (step : S → ι → S) (c : ι → κ → α) : Prop :=
  ∀ s x, I s → I (step s x) ∧ ∀ k, P k → obs (step s x) k = obs s k + c x k

/-- a `for x in l:` loop whose body is additive adds the sum of the contributions -/
theorem Additive.foldl {obs : S → κ → α} {I : S → Prop} {P : κ → Prop} {step : S → ι → S}
    {c : ι → κ → α} (h : Additive obs I P step c) (l : List ι) (s : S) (hs : I s) :
    I (l.foldl step s) ∧
      ∀ k, P k → obs (l.foldl step s) k = obs s k + Model.sum (l.map fun x => c x k) := by
  induction l generalizing s with
  | nil => exact ⟨hs, fun k _ => by simp [sum_nil]⟩
  | cons a l ih =>
    obtain ⟨h1, h2⟩ := h s a hs
    obtain ⟨h3, h4⟩ := ih (step s a) h1
    refine ⟨h3, fun k hk => ?_⟩
    rw [List.foldl_cons, h4 k hk, h2 k hk, List.map_cons, sum_cons]
    ring

/-- nesting: if for every outer `x` the inner body is additive, the inner loop is an additive step of
    the outer loop. -/
theorem Additive.nest {ι₂ : Type} {obs : S → κ → α} {I : S → Prop} {P : κ → Prop}
    {stepIn : ι → S → ι₂ → S} {cIn : ι → ι₂ → κ → α} (lst : ι → List ι₂)
    (h : ∀ x, Additive obs I P (stepIn x) (cIn x)) :
    Additive obs I P (fun s x => (lst x).foldl (stepIn x) s)
      (fun x k => Model.sum ((lst x).map fun y => cIn x y k)) :=
  fun s x hs => (h x).foldl (lst x) s hs

/-- a guarded body -/
theorem Additive.guard {obs : S → κ → α} {I : S → Prop} {P : κ → Prop} {step : S → ι → S}
    {c : ι → κ → α} (g : ι → Prop) [DecidablePred g] (h : Additive obs I P step c) :
    Additive obs I P (fun s x => if g x then step s x else s)
      (fun x k => if g x then c x k else 0) := by
  intro s x hs
  by_cases hg : g x
  · simpa [hg] using h s x hs
  · simp [hg, hs]

/-- contributions may be rewritten pointwise -/
theorem Additive.congr {obs : S → κ → α} {I : S → Prop} {P : κ → Prop} {step : S → ι → S}
    {c c' : ι → κ → α} (h : Additive obs I P step c) (hc : ∀ x k, P k → c x k = c' x k) :
    Additive obs I P step c' := by
  intro s x hs
  obtain ⟨h1, h2⟩ := h s x hs
  exact ⟨h1, fun k hk => by rw [h2 k hk, hc x k hk]⟩

/-- the elementary steps: `v[t x] += w x` … -/
theorem Vec.additive_add (n : Nat) (t : ι → Nat) (w : ι → α) :
    Additive (fun (v : Vec α) k => v.get k) (fun v => v.size = n) (fun k => k < n)
      (fun v x => v.add (t x) (w x)) (fun x k => if k = t x then w x else 0) := by
  intro v x hv
  refine ⟨by simpa [Vec.size_add] using hv, fun k hk => ?_⟩
  exact Vec.get_add v (t x) (w x) k (by omega)

/-- … and `M[t x, u x] += w x` -/
theorem Mat.additive_add (r c : Nat) (t u : ι → Nat) (w : ι → α) :
    Additive (fun (M : Mat α) (k : Nat × Nat) => M.get k.1 k.2) (fun M => M.r = r ∧ M.c = c)
      (fun k => k.1 < r ∧ k.2 < c)
      (fun M x => M.add (t x) (u x) (w x)) (fun x k => if k.1 = t x ∧ k.2 = u x then w x else 0) := by
  intro M x hM
  refine ⟨by simpa using hM, fun k hk => ?_⟩
  exact Mat.get_add_of_lt M (t x) (u x) (w x) k.1 k.2 (by omega) (by omega)

end Additive

end Model
