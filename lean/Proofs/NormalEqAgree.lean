/-
Proofs/NormalEqAgree.lean — clause C04.e block by block: with the preload built by
`w_tilde_curvature_preload_imaging_from` and a unique-mapping table that encodes the mapping matrix, every
block of the w-tilde curvature matrix and data vector equals the corresponding block of the mapping
formalism (`Bᵀ N⁻¹ B`, `Bᵀ N⁻¹ d` with `B = P·M`).
-/
import Proofs.NormalEqWTilde
import Proofs.NormalEqSym
import Proofs.NormalEqMapping

namespace Model

variable {α : Type} [Field α] [LinearOrder α] [IsStrictOrderedRing α]

open Spec

/-! ### the preload rows -/

theorem wTildePreload_length (w : Nat) (nn : List α) (K : Kernel α) (idx : List (Nat × Nat)) :
    (Impl.wTildePreload w nn K idx).length = idx.length := by
  simp [Impl.wTildePreload]

/-- C04.c (second half): the preload stores the upper triangle of the overlap matrix, diagonal halved,
    zero entries omitted. -/
theorem wTildePreload_rowsMat (w : Nat) (nn : List α) (K : Kernel α) (idx : List (Nat × Nat))
    (a b : Nat) (ha : a < idx.length) :
    rowsMat (Impl.wTildePreload w nn K idx) a b
      = if a ≤ b ∧ b < idx.length then
          (if a = b then
            Impl.wTildeCurvatureValue w nn K (idx.getD a (0, 0)) (idx.getD b (0, 0)) / (1 + 1)
          else Impl.wTildeCurvatureValue w nn K (idx.getD a (0, 0)) (idx.getD b (0, 0)))
        else 0 := by
  set v : Nat → α := fun ip1 =>
    if a = ip1 then Impl.wTildeCurvatureValue w nn K (idx.getD a (0, 0)) (idx.getD ip1 (0, 0)) / (1 + 1)
    else Impl.wTildeCurvatureValue w nn K (idx.getD a (0, 0)) (idx.getD ip1 (0, 0)) with hv
  have hrow : (Impl.wTildePreload w nn K idx).getD a []
      = ((List.range' a (idx.length - a)).filter fun ip1 => decide (v ip1 ≠ 0)).map
          fun ip1 => (ip1, v ip1) := by
    unfold Impl.wTildePreload
    have hra : (List.range idx.length).getD a 0 = a := by
      simp [List.getD_eq_getElem?_getD, List.getElem?_range ha]
    rw [map_getD_lt _ _ a (by simpa using ha) 0 [], hra]
    have := foldl_append_if (List.range' a (idx.length - a)) (fun ip1 => decide (v ip1 ≠ 0))
      (fun ip1 => (ip1, v ip1)) []
    rw [List.nil_append] at this
    rw [← this]
    congr 1
    funext row ip1
    simp only [hv, decide_eq_true_eq]
  simp only [rowsMat]
  rw [hrow, sum_map_map, sum_map_filter]
  have h1 : (fun ip1 => if decide (v ip1 ≠ 0) = true then (if ip1 = b then v ip1 else 0) else 0)
      = fun ip1 => if ip1 = b then v ip1 else 0 := by
    funext ip1
    by_cases hz : v ip1 = 0
    · simp [hz]
    · simp [hz]
  rw [h1, sum_map_single _ (List.nodup_range' (s := a) (n := idx.length - a))]
  have hmem : b ∈ List.range' a (idx.length - a) ↔ a ≤ b ∧ b < idx.length := by
    rw [List.mem_range'_1]; omega
  by_cases hb : a ≤ b ∧ b < idx.length
  · rw [if_pos (hmem.mpr hb), if_pos hb]
  · rw [if_neg (fun h => hb (hmem.mp h)), if_neg hb]

/-- the preload of a dataset encodes `Ũ` with `Ũ + Ũᵀ = W = Pᵀ N⁻¹ P` -/
theorem wTildePreload_represents (m : Mask) (K : Kernel α) (noise : List α) (hf : Footprint m K)
    (hpos : ∀ k, k < (Spec.unmaskedPixels m).length → 0 < vget noise k)
    (a b : Nat) (ha : a < (Spec.unmaskedPixels m).length) (hb : b < (Spec.unmaskedPixels m).length) :
    rowsMat (Impl.wTildePreload m.w (Impl.nativeFrom m noise 0) K (Spec.unmaskedPixels m)) a b
      + rowsMat (Impl.wTildePreload m.w (Impl.nativeFrom m noise 0) K (Spec.unmaskedPixels m)) b a
      = wTilde K (Spec.unmaskedPixels m) noise a b := by
  rw [wTildePreload_rowsMat _ _ _ _ a b ha, wTildePreload_rowsMat _ _ _ _ b a hb,
    wTildeCurvatureValue_spec m K noise hf hpos a b ha hb,
    wTildeCurvatureValue_spec m K noise hf hpos b a hb ha, wTilde_symm K _ noise b a]
  have h2 : (1 + 1 : α) ≠ 0 := by
    have : (0 : α) < 1 + 1 := by positivity
    exact ne_of_gt this
  rcases Nat.lt_trichotomy a b with hlt | heq | hgt
  · have h1 : a ≤ b ∧ b < (Spec.unmaskedPixels m).length := ⟨by omega, hb⟩
    have h3 : ¬ (b ≤ a ∧ a < (Spec.unmaskedPixels m).length) := by omega
    have h4 : ¬ a = b := by omega
    rw [if_pos h1, if_neg h4, if_neg h3, add_zero]
  · subst heq
    rw [if_pos ⟨le_refl _, ha⟩, if_pos rfl]
    rw [← add_div, eq_comm, eq_div_iff h2]
    ring
  · have h1 : ¬ (a ≤ b ∧ b < (Spec.unmaskedPixels m).length) := by omega
    have h3 : b ≤ a ∧ a < (Spec.unmaskedPixels m).length := ⟨by omega, ha⟩
    have h4 : ¬ b = a := by omega
    rw [if_neg h1, if_pos h3, if_neg h4, zero_add]

/-! ### bilinear re-association -/

theorem sumRange_mul_sumRange (n k : Nat) (f g : Nat → α) :
    sumRange n f * sumRange k g = sumRange n fun i => sumRange k fun j => f i * g j := by
  rw [← sumRange_mul_right]
  apply sumRange_congr
  intro i _
  rw [← sumRange_mul_left]

/-- `Σ_d (P X)_d (P Y)_d s_d = Σ_a Σ_b X_a (Σ_d P_da P_db s_d) Y_b` -/
theorem bilinear_reassoc (n : Nat) (P : Nat → Nat → α) (X Y s : Nat → α) :
    (sumRange n fun d => (sumRange n fun a => P d a * X a) * (sumRange n fun b => P d b * Y b) * s d)
      = sumRange n fun a => sumRange n fun b => X a * (sumRange n fun d => P d a * P d b * s d) * Y b := by
  have h1 : (sumRange n fun d =>
        (sumRange n fun a => P d a * X a) * (sumRange n fun b => P d b * Y b) * s d)
      = sumRange n fun d => sumRange n fun a => sumRange n fun b =>
          X a * (P d a * P d b * s d) * Y b := by
    apply sumRange_congr
    intro d _
    rw [sumRange_mul_sumRange, ← sumRange_mul_right]
    apply sumRange_congr
    intro a _
    rw [← sumRange_mul_right]
    apply sumRange_congr
    intro b _
    ring
  rw [h1, sumRange_comm]
  apply sumRange_congr
  intro a _
  rw [sumRange_comm]
  apply sumRange_congr
  intro b _
  rw [← sumRange_mul_left, ← sumRange_mul_right]

/-! ### a unique-mapping table that encodes a mapping matrix -/

/-- `U` (ragged `data_to_pix_unique / data_weights`) encodes the mapping matrix `M` (C06.e) -/
def Encodes (U : Rows α) (M : Mat α) : Prop :=
  U.length = M.r ∧ ∀ d p, d < M.r → p < M.c → rowsMat U d p = M.get d p

end Model

namespace Model

variable {α : Type} [Field α] [LinearOrder α] [IsStrictOrderedRing α]

open Spec

/-- the (o, o') block of `Bᵀ N⁻¹ B`: `Σ_d B₀[d,p₀]/σ_d · B₁[d,p₁]/σ_d` -/
def normalBlock (B0 B1 : Mat α) (noise : List α) (n : Nat) (p0 p1 : Nat) : α :=
  sumRange n fun d => B0.get d p0 / vget noise d * (B1.get d p1 / vget noise d)

/-- C04.a (what `B` is): the convolver's blurred mapping matrix is `P · M` -/
theorem operated_eq_blurred (m : Mask) (K : Kernel α) (M : Mat α)
    (hr : M.r = (Spec.unmaskedPixels m).length) (t p : Nat) (ht : t < M.r) (hp : p < M.c) :
    (Impl.convolveMatrix (Impl.frames m K) M).get t p
      = sumRange (Spec.unmaskedPixels m).length fun a =>
          pMat K (Spec.unmaskedPixels m) t a * M.get a p := by
  rw [(convolveMatrix_spec (Impl.frames m K) M).2.2 t p ht hp, hr]
  apply sumRange_congr
  intro a ha
  rw [frameMat_frames m K t a (by omega) ha]

theorem wTildeData_length (w : Nat) (im nn : List α) (K : Kernel α) (idx : List (Nat × Nat)) :
    (Impl.wTildeData w im nn K idx).length = idx.length := by
  simp [Impl.wTildeData]

section Blocks
variable (m : Mask) (K : Kernel α) (data noise : List α) (hf : Footprint m K)
  (hpos : ∀ k, k < (Spec.unmaskedPixels m).length → 0 < vget noise k)
include hf hpos

/-- C04.e, data vector of one mapper: `Mᵀ w̃_d = Bᵀ N⁻¹ d` -/
theorem dataVector_agree (U : Rows α) (M : Mat α) (hU : Encodes U M)
    (hr : M.r = (Spec.unmaskedPixels m).length) (p : Nat) (hp : p < M.c) :
    (Impl.dataVectorWTilde
        (Impl.wTildeData m.w (Impl.nativeFrom m data 0) (Impl.nativeFrom m noise 0) K
          (Spec.unmaskedPixels m)) U M.c).get p
      = (Impl.dataVectorMapping (Impl.convolveMatrix (Impl.frames m K) M) data noise).get p := by
  have hB := convolveMatrix_spec (Impl.frames m K) M
  rw [(dataVectorWTilde_spec _ U M.c).2 p hp, wTildeData_length,
    (dataVectorMapping_spec _ data noise).2 p (by rw [hB.2.1]; exact hp), hB.1, hr]
  -- Σ_a M a p · Σ_d P d a w_d  =  Σ_d d_d (Σ_a P d a M a p) / σ_d²
  have h1 : (sumRange (Spec.unmaskedPixels m).length fun a =>
        rowsMat U a p * vget (Impl.wTildeData m.w (Impl.nativeFrom m data 0)
          (Impl.nativeFrom m noise 0) K (Spec.unmaskedPixels m)) a)
      = sumRange (Spec.unmaskedPixels m).length fun a =>
          sumRange (Spec.unmaskedPixels m).length fun d =>
            M.get a p * (pMat K (Spec.unmaskedPixels m) d a
              * (vget data d / (vget noise d * vget noise d))) := by
    apply sumRange_congr
    intro a ha
    rw [wTildeData_spec m K data noise hf a ha, hU.2 a p (by omega) hp, ← sumRange_mul_left]
  rw [h1, sumRange_comm]
  apply sumRange_congr
  intro d hd
  rw [operated_eq_blurred m K M hr d p (by omega) hp]
  have h2 : vget data d * (sumRange (Spec.unmaskedPixels m).length fun a =>
        pMat K (Spec.unmaskedPixels m) d a * M.get a p) / (vget noise d * vget noise d)
      = (sumRange (Spec.unmaskedPixels m).length fun a =>
        pMat K (Spec.unmaskedPixels m) d a * M.get a p) * (vget data d / (vget noise d * vget noise d)) := by
    ring
  rw [h2, ← sumRange_mul_right]
  apply sumRange_congr
  intro a _
  ring

/-- C04.e, mapper–mapper blocks (diagonal `o = o'` through `curvatureFromPreload`, off-diagonal through
    `off₀ + off₁ᵀ`): both equal `Σ_a Σ_b M₀[a,p₀] W[a,b] M₁[b,p₁] = (B₀ᵀ N⁻¹ B₁)[p₀,p₁]`. -/
theorem mapperBlock_eq_normalBlock (U0 U1 : Rows α) (M0 M1 : Mat α) (hU0 : Encodes U0 M0)
    (hU1 : Encodes U1 M1) (hr0 : M0.r = (Spec.unmaskedPixels m).length)
    (hr1 : M1.r = (Spec.unmaskedPixels m).length) (p0 p1 : Nat) (hp0 : p0 < M0.c) (hp1 : p1 < M1.c) :
    (sumRange (Spec.unmaskedPixels m).length fun a => sumRange (Spec.unmaskedPixels m).length fun b =>
        rowsMat U0 a p0 * wTilde K (Spec.unmaskedPixels m) noise a b * rowsMat U1 b p1)
      = normalBlock (Impl.convolveMatrix (Impl.frames m K) M0)
          (Impl.convolveMatrix (Impl.frames m K) M1) noise (Spec.unmaskedPixels m).length p0 p1 := by
  unfold normalBlock
  have h1 : (sumRange (Spec.unmaskedPixels m).length fun d =>
        (Impl.convolveMatrix (Impl.frames m K) M0).get d p0 / vget noise d
          * ((Impl.convolveMatrix (Impl.frames m K) M1).get d p1 / vget noise d))
      = sumRange (Spec.unmaskedPixels m).length fun d =>
          (sumRange (Spec.unmaskedPixels m).length fun a =>
            pMat K (Spec.unmaskedPixels m) d a * M0.get a p0)
          * (sumRange (Spec.unmaskedPixels m).length fun b =>
            pMat K (Spec.unmaskedPixels m) d b * M1.get b p1)
          * (1 / vget noise d * (1 / vget noise d)) := by
    apply sumRange_congr
    intro d hd
    rw [operated_eq_blurred m K M0 hr0 d p0 (by omega) hp0,
      operated_eq_blurred m K M1 hr1 d p1 (by omega) hp1]
    ring
  rw [h1, bilinear_reassoc]
  apply sumRange_congr
  intro a ha
  apply sumRange_congr
  intro b hb
  rw [hU0.2 a p0 (by omega) hp0, hU1.2 b p1 (by omega) hp1]
  rfl

/-- diagonal mapper block: `curvature_matrix_via_w_tilde_curvature_preload_imaging_from` on the dataset's
    preload = `Bᵀ N⁻¹ B` -/
theorem curvatureFromPreload_agree (U : Rows α) (M : Mat α) (hU : Encodes U M)
    (hr : M.r = (Spec.unmaskedPixels m).length) (p0 p1 : Nat) (hp0 : p0 < M.c) (hp1 : p1 < M.c) :
    (Impl.curvatureFromPreload
        (Impl.wTildePreload m.w (Impl.nativeFrom m noise 0) K (Spec.unmaskedPixels m)) U M.c).get p0 p1
      = normalBlock (Impl.convolveMatrix (Impl.frames m K) M)
          (Impl.convolveMatrix (Impl.frames m K) M) noise (Spec.unmaskedPixels m).length p0 p1 := by
  have hlen : (Impl.wTildePreload m.w (Impl.nativeFrom m noise 0) K (Spec.unmaskedPixels m)).length
      = U.length := by rw [wTildePreload_length, hU.1, hr]
  have hUl : U.length = (Spec.unmaskedPixels m).length := by rw [hU.1, hr]
  rw [(curvatureFromPreload_spec _ U M.c (wTilde K (Spec.unmaskedPixels m) noise) hlen
    (fun a b ha hb => wTildePreload_represents m K noise hf hpos a b (by omega) (by omega))).2.2
      p0 p1 hp0 hp1, hUl]
  exact mapperBlock_eq_normalBlock m K noise hf hpos U U M M hU hU hr hr p0 p1 hp0 hp1

/-- off-diagonal mapper–mapper block: `off_diag_0 + off_diag_1.T = B₀ᵀ N⁻¹ B₁` -/
theorem offDiagBlock_agree (U0 U1 : Rows α) (M0 M1 : Mat α) (hU0 : Encodes U0 M0)
    (hU1 : Encodes U1 M1) (hr0 : M0.r = (Spec.unmaskedPixels m).length)
    (hr1 : M1.r = (Spec.unmaskedPixels m).length) (p0 p1 : Nat) (hp0 : p0 < M0.c) (hp1 : p1 < M1.c) :
    (Mat.plus
        (Impl.offDiagPreload
          (Impl.wTildePreload m.w (Impl.nativeFrom m noise 0) K (Spec.unmaskedPixels m))
          U0 M0.c U1 M1.c)
        (Mat.transpose (Impl.offDiagPreload
          (Impl.wTildePreload m.w (Impl.nativeFrom m noise 0) K (Spec.unmaskedPixels m))
          U1 M1.c U0 M0.c))).get p0 p1
      = normalBlock (Impl.convolveMatrix (Impl.frames m K) M0)
          (Impl.convolveMatrix (Impl.frames m K) M1) noise (Spec.unmaskedPixels m).length p0 p1 := by
  have hl := wTildePreload_length m.w (Impl.nativeFrom m noise 0) K (Spec.unmaskedPixels m)
  rw [offDiagBlock_spec _ U0 U1 M0.c M1.c (wTilde K (Spec.unmaskedPixels m) noise)
    (by rw [hl, hU0.1, hr0]) (by rw [hl, hU1.1, hr1])
    (fun a b ha hb => wTildePreload_represents m K noise hf hpos a b (by omega) (by omega))
    p0 p1 hp0 hp1, hl]
  exact mapperBlock_eq_normalBlock m K noise hf hpos U0 U1 M0 M1 hU0 hU1 hr0 hr1 p0 p1 hp0 hp1

end Blocks

/-- mapper–function-list block: the frame loop over `curvature_weights = B_f / σ²` gives `B_mᵀ N⁻¹ B_f` -/
theorem mapperFuncBlock_agree (m : Mask) (K : Kernel α) (noise : List α) (U : Rows α) (M Bf : Mat α)
    (hU : Encodes U M) (hr : M.r = (Spec.unmaskedPixels m).length)
    (hrf : Bf.r = (Spec.unmaskedPixels m).length) (p l : Nat) (hp : p < M.c) (hl : l < Bf.c) :
    (Impl.offDiagMapperFunc U M.c
        (Mat.ofFn Bf.r Bf.c fun d l => Bf.get d l / (vget noise d * vget noise d))
        (Impl.frames m K)).get p l
      = normalBlock (Impl.convolveMatrix (Impl.frames m K) M) Bf noise
          (Spec.unmaskedPixels m).length p l := by
  rw [(offDiagMapperFunc_spec U M.c _ (Impl.frames m K)).2.2 p l hp (by simpa using hl)]
  simp only [Mat.ofFn_r, normalBlock, hrf]
  apply sumRange_congr
  intro t ht
  rw [Mat.get_ofFn, if_pos ⟨by omega, hl⟩,
    (convolveMatrix_spec (Impl.frames m K) M).2.2 t p (by omega) hp, hU.1]
  have : (sumRange M.r fun d0 => frameMat (Impl.frames m K) t d0 * rowsMat U d0 p)
      = sumRange M.r fun a => frameMat (Impl.frames m K) t a * M.get a p := by
    apply sumRange_congr
    intro a ha
    rw [hU.2 a p ha hp]
  rw [this]
  rw [div_mul_div_comm, mul_div_assoc]

end Model
