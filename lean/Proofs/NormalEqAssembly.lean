/-
Proofs/NormalEqAssembly.lean — object order (clause C04.a "blocks follow the order of the linear objects"):
parameter ranges, `np.hstack`, slice assignment.  An object list is decomposed as `pre ++ o :: post`;
the parameters of `o` then sit at `totalParams pre + li`, `li < o.params`.
-/
import Proofs.NormalEqAgree

namespace Model

variable {α : Type} [Field α]

/-! ### widths and parameter ranges -/

theorem foldl_add_init (l : List Nat) (s : Nat) : l.foldl (· + ·) s = s + l.foldl (· + ·) 0 := by
  induction l generalizing s with
  | nil => simp
  | cons a l ih => rw [List.foldl_cons, ih, List.foldl_cons, ih (0 + a)]; omega

theorem totalParams_nil : Impl.totalParams ([] : List (LinObj α)) = 0 := rfl

theorem totalParams_cons (o : LinObj α) (l : List (LinObj α)) :
    Impl.totalParams (o :: l) = o.params + Impl.totalParams l := by
  simp only [Impl.totalParams, List.map_cons, List.foldl_cons]
  rw [foldl_add_init]; omega

theorem totalParams_append (l₁ l₂ : List (LinObj α)) :
    Impl.totalParams (l₁ ++ l₂) = Impl.totalParams l₁ + Impl.totalParams l₂ := by
  induction l₁ with
  | nil => simp [totalParams_nil]
  | cons o l ih => rw [List.cons_append, totalParams_cons, totalParams_cons, ih]; omega

/-- every object paired with its `[start, end)` range, starting the count at `s` -/
def ranged : List (LinObj α) → Nat → List (LinObj α × (Nat × Nat))
  | [], _ => []
  | o :: os, s => (o, (s, s + o.params)) :: ranged os (s + o.params)

theorem paramRanges_loop (objs : List (LinObj α)) (acc : List (Nat × Nat)) (s : Nat) :
    (objs.foldl (fun (st : List (Nat × Nat) × Nat) o =>
      (st.1 ++ [(st.2, st.2 + o.params)], st.2 + o.params)) (acc, s)).1
      = acc ++ (ranged objs s).map Prod.snd := by
  induction objs generalizing acc s with
  | nil => simp [ranged]
  | cons o os ih =>
    rw [List.foldl_cons, ih]
    simp [ranged]

theorem zip_ranged (objs : List (LinObj α)) (s : Nat) :
    objs.zip ((ranged objs s).map Prod.snd) = ranged objs s := by
  induction objs generalizing s with
  | nil => simp [ranged]
  | cons o os ih => simp [ranged, ih]

theorem zip_paramRanges (objs : List (LinObj α)) :
    objs.zip (Impl.paramRanges objs) = ranged objs 0 := by
  have h : Impl.paramRanges objs = (ranged objs 0).map Prod.snd := by
    unfold Impl.paramRanges
    rw [paramRanges_loop]; simp
  rw [h, zip_ranged]

theorem ranged_append (l₁ l₂ : List (LinObj α)) (s : Nat) :
    ranged (l₁ ++ l₂) s = ranged l₁ s ++ ranged l₂ (s + Impl.totalParams l₁) := by
  induction l₁ generalizing s with
  | nil => simp [ranged, totalParams_nil]
  | cons o l ih =>
    rw [List.cons_append]
    simp only [ranged, List.cons_append, ih, totalParams_cons]
    rw [Nat.add_assoc]

/-! ### slice assignment -/

theorem setBlock_loop (r0 c0 : Nat) (B : Mat α) (l : List (Nat × Nat)) (C : Mat α) :
    let R := l.foldl (fun M p => M.put (r0 + p.1) (c0 + p.2) (B.get p.1 p.2)) C
    R.r = C.r ∧ R.c = C.c ∧ ∀ a b, a < C.r → b < C.c →
      R.get a b = if r0 ≤ a ∧ c0 ≤ b ∧ (a - r0, b - c0) ∈ l then B.get (a - r0) (b - c0)
        else C.get a b := by
  induction l generalizing C with
  | nil => simp
  | cons p l ih =>
    have := ih (C.put (r0 + p.1) (c0 + p.2) (B.get p.1 p.2))
    simp only [List.foldl_cons, Mat.put_r, Mat.put_c] at this ⊢
    refine ⟨this.1, this.2.1, fun a b ha hb => ?_⟩
    rw [this.2.2 a b ha hb]
    by_cases hl : r0 ≤ a ∧ c0 ≤ b ∧ (a - r0, b - c0) ∈ l
    · rw [if_pos hl, if_pos ⟨hl.1, hl.2.1, List.mem_cons_of_mem _ hl.2.2⟩]
    · rw [if_neg hl, Mat.get_put_of_lt _ _ _ _ a b ha hb]
      by_cases hp : a = r0 + p.1 ∧ b = c0 + p.2
      · have h1 : r0 ≤ a ∧ c0 ≤ b ∧ (a - r0, b - c0) ∈ p :: l := by
          refine ⟨by omega, by omega, ?_⟩
          have : (a - r0, b - c0) = p := by
            obtain ⟨p1, p2⟩ := p
            simp only [Prod.mk.injEq]; omega
          rw [this]; exact List.mem_cons_self
        have h2 : a - r0 = p.1 ∧ b - c0 = p.2 := by omega
        rw [if_pos hp, if_pos h1, h2.1, h2.2]
      · have h1 : ¬ (r0 ≤ a ∧ c0 ≤ b ∧ (a - r0, b - c0) ∈ p :: l) := by
          rintro ⟨h1, h2, h3⟩
          rcases List.mem_cons.mp h3 with h | h
          · apply hp
            have e1 := congrArg Prod.fst h
            have e2 := congrArg Prod.snd h
            simp only at e1 e2
            omega
          · exact hl ⟨h1, h2, h⟩
        rw [if_neg hp, if_neg h1]

/-- `C[r0:r0+B.r, c0:c0+B.c] = B` -/
theorem setBlock_spec (C : Mat α) (r0 c0 : Nat) (B : Mat α) :
    (Mat.setBlock C r0 c0 B).r = C.r ∧ (Mat.setBlock C r0 c0 B).c = C.c ∧
    ∀ a b, a < C.r → b < C.c → (Mat.setBlock C r0 c0 B).get a b
      = if r0 ≤ a ∧ a < r0 + B.r ∧ c0 ≤ b ∧ b < c0 + B.c then B.get (a - r0) (b - c0)
        else C.get a b := by
  unfold Mat.setBlock
  rw [forYX_eq_foldl]
  have := setBlock_loop r0 c0 B (pixels B.r B.c) C
  simp only at this
  refine ⟨this.1, this.2.1, fun a b ha hb => ?_⟩
  rw [this.2.2 a b ha hb]
  have : (r0 ≤ a ∧ c0 ≤ b ∧ (a - r0, b - c0) ∈ pixels B.r B.c)
      ↔ (r0 ≤ a ∧ a < r0 + B.r ∧ c0 ≤ b ∧ b < c0 + B.c) := by
    rw [mem_pixels]; simp only; omega
  by_cases h : r0 ≤ a ∧ a < r0 + B.r ∧ c0 ≤ b ∧ b < c0 + B.c
  · rw [if_pos h, if_pos (this.mpr h)]
  · rw [if_neg h, if_neg (fun h' => h (this.mp h'))]

/-! ### `np.hstack` -/

theorem flatten_getD_mid {β : Type} (L₁ : List (List β)) (row : List β) (L₂ : List (List β))
    (li : Nat) (hli : li < row.length) (d : β) :
    (L₁ ++ row :: L₂).flatten.getD (L₁.flatten.length + li) d = row.getD li d := by
  rw [List.flatten_append, List.flatten_cons]
  simp only [List.getD_eq_getElem?_getD]
  rw [List.getElem?_append_right (by omega)]
  simp only [Nat.add_sub_cancel_left]
  rw [List.getElem?_append_left hli]

theorem flatten_rows_length (Bs : List (Mat α)) (d : Nat) :
    ((Bs.map fun B => (List.range B.c).map fun j => B.get d j).flatten).length
      = (Bs.map Mat.c).foldl (· + ·) 0 := by
  induction Bs with
  | nil => simp
  | cons B Bs ih =>
    simp only [List.map_cons, List.flatten_cons, List.length_append, List.length_map,
      List.length_range, List.foldl_cons, ih]
    rw [foldl_add_init (Bs.map Mat.c) (0 + B.c)]
    omega

theorem hstack_spec (n : Nat) (Bpre : List (Mat α)) (B : Mat α) (Bpost : List (Mat α)) :
    (Impl.hstack n (Bpre ++ B :: Bpost)).r = n ∧
    (Impl.hstack n (Bpre ++ B :: Bpost)).c = ((Bpre ++ B :: Bpost).map Mat.c).foldl (· + ·) 0 ∧
    ∀ d li, d < n → li < B.c →
      (Impl.hstack n (Bpre ++ B :: Bpost)).get d ((Bpre.map Mat.c).foldl (· + ·) 0 + li)
        = B.get d li := by
  refine ⟨rfl, rfl, fun d li hd hli => ?_⟩
  unfold Impl.hstack Mat.ofLists
  have hw : (Bpre.map Mat.c).foldl (· + ·) 0 + li
      < ((Bpre ++ B :: Bpost).map Mat.c).foldl (· + ·) 0 := by
    rw [List.map_append, List.foldl_append, List.map_cons, List.foldl_cons,
      foldl_add_init (Bpost.map Mat.c)]
    omega
  rw [Mat.get_ofFn, if_pos ⟨hd, hw⟩, map_getD_lt _ _ d (by simpa using hd) 0 [],
    List.map_append, List.map_cons]
  have hra : (List.range n).getD d 0 = d := by
    simp [List.getD_eq_getElem?_getD, List.getElem?_range hd]
  rw [hra, ← flatten_rows_length Bpre d]
  rw [flatten_getD_mid _ _ _ li (by simpa using hli)]
  simp [List.getD_eq_getElem?_getD, List.getElem?_map, List.getElem?_range hli]

end Model

namespace Model

variable {α : Type} [Field α] [DecidableEq α]

/-! ### shapes of the per-object matrices -/

theorem mappingMatrixFrom_shape (t : MapperTables α) (n : Nat) :
    (Impl.mappingMatrixFrom t n).r = n ∧ (Impl.mappingMatrixFrom t n).c = t.pixels := by
  have h1 : ∀ sub : Nat,
      Additive (fun (M : Mat α) (k : Nat × Nat) => M.get k.1 k.2) (fun M => M.r = n ∧ M.c = t.pixels)
        (fun k => k.1 < n ∧ k.2 < t.pixels)
        (fun M (e : Nat × α) => M.add (t.slimForSub.getD sub 0) e.1
          (vget t.subFraction (t.slimForSub.getD sub 0) * e.2))
        (fun e k => if k.1 = t.slimForSub.getD sub 0 ∧ k.2 = e.1 then
          vget t.subFraction (t.slimForSub.getD sub 0) * e.2 else 0) :=
    fun sub => Mat.additive_add n t.pixels (fun _ => t.slimForSub.getD sub 0)
      (fun e : Nat × α => e.1) _
  exact ((Additive.nest (fun sub : Nat => t.subRows.getD sub []) h1).foldl
    (List.range t.slimForSub.length) (Mat.zeros n t.pixels) ⟨rfl, rfl⟩).1

theorem mappingMatrixOf_shape (n : Nat) (o : LinObj α) :
    (Impl.mappingMatrixOf n o).r = n ∧ (Impl.mappingMatrixOf n o).c = o.params := by
  cases o with
  | mapper t b => exact mappingMatrixFrom_shape t n
  | funcList p M b => exact ⟨rfl, rfl⟩

/-- the blurred mapping matrix of one object -/
def opOf (ds : Dataset α) (o : LinObj α) : Mat α :=
  Impl.convolveMatrix (Impl.frames ds.mask ds.kernel)
    (Impl.mappingMatrixOf (Impl.nativeForSlim ds.mask).length o)

theorem opOf_shape (ds : Dataset α) (o : LinObj α) :
    (opOf ds o).r = (Impl.nativeForSlim ds.mask).length ∧ (opOf ds o).c = o.params := by
  unfold opOf
  rw [(convolveMatrix_spec _ _).1, (convolveMatrix_spec _ _).2.1]
  exact mappingMatrixOf_shape _ o

theorem operatedList_eq (ds : Dataset α) (objs : List (LinObj α)) :
    Impl.operatedList ds objs = objs.map (opOf ds) := rfl

theorem operatedList_width (ds : Dataset α) (objs : List (LinObj α)) :
    ((Impl.operatedList ds objs).map Mat.c).foldl (· + ·) 0 = Impl.totalParams objs := by
  rw [operatedList_eq]
  induction objs with
  | nil => rfl
  | cons o os ih =>
    rw [List.map_cons, List.map_cons, List.foldl_cons, foldl_add_init, ih, totalParams_cons,
      (opOf_shape ds o).2]
    omega

/-- C04.a (object order, mapping formalism): the columns of `operated_mapping_matrix` belonging to the
    object `o` of `pre ++ o :: post` start at `totalParams pre` and are the columns of `o`'s own blurred
    mapping matrix. -/
theorem operatedMappingMatrix_block (ds : Dataset α) (pre : List (LinObj α)) (o : LinObj α)
    (post : List (LinObj α)) :
    (Impl.operatedMappingMatrix ds (pre ++ o :: post)).r = (Impl.nativeForSlim ds.mask).length ∧
    (Impl.operatedMappingMatrix ds (pre ++ o :: post)).c = Impl.totalParams (pre ++ o :: post) ∧
    ∀ d li, d < (Impl.nativeForSlim ds.mask).length → li < o.params →
      (Impl.operatedMappingMatrix ds (pre ++ o :: post)).get d (Impl.totalParams pre + li)
        = (opOf ds o).get d li := by
  unfold Impl.operatedMappingMatrix
  have hl : Impl.operatedList ds (pre ++ o :: post)
      = Impl.operatedList ds pre ++ opOf ds o :: Impl.operatedList ds post := by
    simp [operatedList_eq]
  rw [hl]
  obtain ⟨h1, h2, h3⟩ := hstack_spec (Impl.nativeForSlim ds.mask).length
    (Impl.operatedList ds pre) (opOf ds o) (Impl.operatedList ds post)
  refine ⟨h1, ?_, fun d li hd hli => ?_⟩
  · rw [h2, ← hl, operatedList_width]
  · rw [← operatedList_width ds pre]
    exact h3 d li hd (by rw [(opOf_shape ds o).2]; exact hli)

end Model
