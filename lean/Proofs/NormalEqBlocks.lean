/-
Proofs/NormalEqBlocks.lean — the convolver's matrix blurring and the mapper–function-list block, as matrix
algebra over the frame table:  with `P[t, a] = rowsMat frames a t`,
  Convolver.convolve_matrix_jit M                                             = P · M
  curvature_matrix_off_diags_via_mapper_and_linear_func_curvature_vector_from = (P · rowsMat U)ᵀ · cw
and the image-plane maps of a reconstruction.
-/
import Proofs.NormalEqRows

namespace Model

variable {α : Type} [Field α] [DecidableEq α]

open Spec

/-- the blurring matrix stored in a frame table: `P[t, a]` = total kernel weight with which source `a`
    lands on target `t` -/
def frameMat (fr : Rows α) (t a : Nat) : α := rowsMat fr a t

theorem convolveMatrix_spec (fr : Rows α) (M : Mat α) :
    (Impl.convolveMatrix fr M).r = M.r ∧ (Impl.convolveMatrix fr M).c = M.c ∧
    ∀ t p, t < M.r → p < M.c → (Impl.convolveMatrix fr M).get t p
      = sumRange M.r fun a => frameMat fr t a * M.get a p := by
  have h1 : ∀ (p a : Nat),
      Additive (fun (B : Mat α) (k : Nat × Nat) => B.get k.1 k.2) (fun B => B.r = M.r ∧ B.c = M.c)
        (fun k => k.1 < M.r ∧ k.2 < M.c)
        (fun B (fe : Nat × α) => B.add fe.1 p (M.get a p * fe.2))
        (fun fe k => if k.1 = fe.1 ∧ k.2 = p then M.get a p * fe.2 else 0) :=
    fun p a => Mat.additive_add M.r M.c (fun fe : Nat × α => fe.1) (fun _ => p) _
  have h2 := fun (p : Nat) =>
    Additive.guard (fun a : Nat => M.get a p ≠ 0)
      (Additive.nest (fun a : Nat => fr.getD a []) (h1 p))
  have h3 := (Additive.nest (fun _ : Nat => List.range M.r) h2).foldl (List.range M.c)
    (Mat.zeros M.r M.c) ⟨rfl, rfl⟩
  refine ⟨h3.1.1, h3.1.2, fun t p ht hp => ?_⟩
  simp only [Impl.convolveMatrix]
  rw [h3.2 (t, p) ⟨ht, hp⟩, Mat.get_zeros, zero_add]
  -- Σ_{p'} Σ_a [M a p' ≠ 0] Σ_fe [t = fe.1 ∧ p = p'] M a p' fe.2
  have hcol : ∀ p' : Nat, p' < M.c →
      Model.sum ((List.range M.r).map fun a => if M.get a p' ≠ 0 then
        Model.sum ((fr.getD a []).map fun fe => if t = fe.1 ∧ p = p' then M.get a p' * fe.2 else 0)
        else 0)
      = if p = p' then sumRange M.r fun a => frameMat fr t a * M.get a p else 0 := by
    intro p' _
    by_cases hpp : p = p'
    · subst hpp
      rw [if_pos rfl, sumRange_def]
      apply sum_map_congr
      intro a _
      simp only [frameMat, rowsMat]
      by_cases hz : M.get a p = 0
      · simp [hz]
      · rw [if_pos hz, ← sum_map_mul_right]
        apply sum_map_congr
        intro fe _
        by_cases h : fe.1 = t
        · simp [h]; ring
        · have : ¬ t = fe.1 := fun h' => h h'.symm
          simp [h, this]
    · rw [if_neg hpp]
      apply sum_map_eq_zero
      intro a _
      split
      · apply sum_map_eq_zero
        intro fe _
        simp [hpp]
      · rfl
  have := sumRange_single' M.c p (fun _ => sumRange M.r fun a => frameMat fr t a * M.get a p)
  rw [if_pos hp] at this
  rw [← this, sumRange_def]
  apply sum_map_congr
  intro p' hp'
  exact hcol p' (List.mem_range.mp hp')

theorem offDiagMapperFunc_spec (U : Rows α) (n : Nat) (cw : Mat α) (fr : Rows α) :
    (Impl.offDiagMapperFunc U n cw fr).r = n ∧ (Impl.offDiagMapperFunc U n cw fr).c = cw.c ∧
    ∀ p l, p < n → l < cw.c → (Impl.offDiagMapperFunc U n cw fr).get p l
      = sumRange cw.r fun t =>
          (sumRange U.length fun d0 => frameMat fr t d0 * rowsMat U d0 p) * cw.get t l := by
  have h1 : ∀ (d0 : Nat) (e0 fe : Nat × α),
      Additive (fun (F : Mat α) (k : Nat × Nat) => F.get k.1 k.2) (fun F => F.r = n ∧ F.c = cw.c)
        (fun k => k.1 < n ∧ k.2 < cw.c)
        (fun F (l : Nat) => F.add e0.1 l (e0.2 * cw.get fe.1 l * fe.2))
        (fun l k => if k.1 = e0.1 ∧ k.2 = l then e0.2 * cw.get fe.1 l * fe.2 else 0) :=
    fun _ e0 fe => Mat.additive_add n cw.c (fun _ => e0.1) (fun l : Nat => l) _
  have h2 := fun (d0 : Nat) (e0 : Nat × α) =>
    Additive.nest (fun _ : Nat × α => List.range cw.c) (h1 d0 e0)
  have h3 := fun (d0 : Nat) => Additive.nest (fun _ : Nat × α => fr.getD d0 []) (h2 d0)
  have h4 := (Additive.nest (fun d0 : Nat => U.getD d0 []) h3).foldl (List.range U.length)
    (Mat.zeros n cw.c) ⟨rfl, rfl⟩
  refine ⟨h4.1.1, h4.1.2, fun p l hp hl => ?_⟩
  simp only [Impl.offDiagMapperFunc]
  rw [h4.2 (p, l) ⟨hp, hl⟩, Mat.get_zeros, zero_add]
  -- per data pixel d0 : M d0 p * Σ_fe fe.2 * cw fe.1 l
  have hd0 : ∀ d0 : Nat,
      Model.sum ((U.getD d0 []).map fun e0 => Model.sum ((fr.getD d0 []).map fun fe =>
        Model.sum ((List.range cw.c).map fun l' =>
          if p = e0.1 ∧ l = l' then e0.2 * cw.get fe.1 l' * fe.2 else 0)))
      = sumRange cw.r fun t => frameMat fr t d0 * rowsMat U d0 p * cw.get t l := by
    intro d0
    have hfe : ∀ e0 fe : Nat × α,
        Model.sum ((List.range cw.c).map fun l' =>
          if p = e0.1 ∧ l = l' then e0.2 * cw.get fe.1 l' * fe.2 else 0)
        = (if e0.1 = p then e0.2 else 0) * (fe.2 * cw.get fe.1 l) := by
      intro e0 fe
      by_cases hpe : e0.1 = p
      · have := sumRange_single' cw.c l (fun l' => e0.2 * cw.get fe.1 l' * fe.2)
        rw [if_pos hl, sumRange_def] at this
        rw [if_pos hpe, show e0.2 * (fe.2 * cw.get fe.1 l) = e0.2 * cw.get fe.1 l * fe.2 by ring,
          ← this]
        apply sum_map_congr
        intro l' _
        by_cases h : l = l'
        · simp [h, hpe]
        · simp [h]
      · rw [if_neg hpe, zero_mul]
        apply sum_map_eq_zero
        intro l' _
        have : ¬ p = e0.1 := fun h => hpe h.symm
        simp [this]
    have hrow : ∀ e0 : Nat × α,
        Model.sum ((fr.getD d0 []).map fun fe => Model.sum ((List.range cw.c).map fun l' =>
          if p = e0.1 ∧ l = l' then e0.2 * cw.get fe.1 l' * fe.2 else 0))
        = (if e0.1 = p then e0.2 else 0)
            * Model.sum ((fr.getD d0 []).map fun fe => fe.2 * cw.get fe.1 l) := by
      intro e0
      rw [sum_map_congr _ _ _ (fun fe _ => hfe e0 fe), sum_map_mul_left]
    rw [sum_map_congr _ _ _ (fun e0 _ => hrow e0), sum_map_mul_right]
    rw [sum_row_reindex (fr.getD d0 []) cw.r (fun t => cw.get t l)
      (fun t ht => Mat.get_of_not_lt cw t l (by omega))]
    rw [← sumRange_mul_left]
    apply sumRange_congr
    intro t _
    simp only [frameMat, rowsMat]
    ring
  rw [sum_map_congr _ _ _ (fun d0 _ => hd0 d0), ← sumRange_def, sumRange_comm]
  apply sumRange_congr
  intro t _
  rw [← sumRange_mul_right]

/-! ### image-plane maps of a reconstruction -/

theorem mappedViaMatrix_spec (B : Mat α) (recon : List α) :
    (Impl.mappedViaMatrix B recon).size = B.r ∧
    ∀ i, i < B.r → (Impl.mappedViaMatrix B recon).get i
      = sumRange recon.length fun j => vget recon j * B.get i j := by
  have hin : ∀ i : Nat, Additive (fun (v : Vec α) k => v.get k) (fun v => v.size = B.r)
      (fun k => k < B.r) (fun v (j : Nat) => v.add i (vget recon j * B.get i j))
      (fun j k => if k = i then vget recon j * B.get i j else 0) :=
    fun i => Vec.additive_add B.r (fun _ => i) _
  have hout := (Additive.nest (fun _ : Nat => List.range recon.length) hin).foldl (List.range B.r)
    (Vec.zeros B.r) (Vec.size_zeros B.r)
  refine ⟨hout.1, fun i hi => ?_⟩
  simp only [Impl.mappedViaMatrix]
  rw [hout.2 i hi, Vec.get_zeros, zero_add]
  have := sumRange_single' B.r i (fun i' => sumRange recon.length fun j => vget recon j * B.get i' j)
  rw [if_pos hi] at this
  rw [← this, sumRange_def]
  apply sum_map_congr
  intro i' _
  by_cases h : i = i'
  · subst h; simp [sumRange_def]
  · simp only [h, ↓reduceIte]; exact sum_map_zero _

theorem mappedViaUnique_spec (U : Rows α) (recon : List α) :
    (Impl.mappedViaUnique U recon).size = U.length ∧
    ∀ d, d < U.length → (Impl.mappedViaUnique U recon).get d
      = Model.sum ((U.getD d []).map fun e => e.2 * vget recon e.1) := by
  have hin : ∀ d0 : Nat, Additive (fun (v : Vec α) k => v.get k) (fun v => v.size = U.length)
      (fun k => k < U.length) (fun v (e : Nat × α) => v.add d0 (e.2 * vget recon e.1))
      (fun e k => if k = d0 then e.2 * vget recon e.1 else 0) :=
    fun d0 => Vec.additive_add U.length (fun _ => d0) _
  have hout := (Additive.nest (fun d0 : Nat => U.getD d0 []) hin).foldl (List.range U.length)
    (Vec.zeros U.length) (Vec.size_zeros U.length)
  refine ⟨hout.1, fun d hd => ?_⟩
  simp only [Impl.mappedViaUnique]
  rw [hout.2 d hd, Vec.get_zeros, zero_add]
  have := sumRange_single' U.length d
    (fun d0 => Model.sum ((U.getD d0 []).map fun e => e.2 * vget recon e.1))
  rw [if_pos hd] at this
  rw [← this, sumRange_def]
  apply sum_map_congr
  intro d0 _
  by_cases h : d = d0
  · subst h; simp
  · simp only [h, ↓reduceIte]; exact sum_map_zero _

theorem convolveNoBlurring_spec (fr : Rows α) (image : List α) :
    (Impl.convolveNoBlurring fr image).size = image.length ∧
    ∀ t, t < image.length → (Impl.convolveNoBlurring fr image).get t
      = sumRange image.length fun a => frameMat fr t a * vget image a := by
  have hin : ∀ a : Nat, Additive (fun (v : Vec α) k => v.get k) (fun v => v.size = image.length)
      (fun k => k < image.length) (fun v (fe : Nat × α) => v.add fe.1 (vget image a * fe.2))
      (fun fe k => if k = fe.1 then vget image a * fe.2 else 0) :=
    fun a => Vec.additive_add image.length (fun fe : Nat × α => fe.1) _
  have hout := (Additive.nest (fun a : Nat => fr.getD a []) hin).foldl (List.range image.length)
    (Vec.zeros image.length) (Vec.size_zeros image.length)
  refine ⟨hout.1, fun t ht => ?_⟩
  simp only [Impl.convolveNoBlurring]
  rw [hout.2 t ht, Vec.get_zeros, zero_add]
  apply sumRange_congr
  intro a _
  simp only [frameMat, rowsMat]
  rw [← sum_map_mul_right]
  apply sum_map_congr
  intro fe _
  by_cases h : fe.1 = t
  · simp [h]; ring
  · have : ¬ t = fe.1 := fun h' => h h'.symm
    simp [h, this]

end Model
