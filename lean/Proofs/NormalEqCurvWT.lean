/-
Proofs/NormalEqCurvWT.lean — `InversionImagingWTilde.curvature_matrix` in object order: the double loop of
block writes puts, at the rows of object `o` and the columns of object `o'`, the block computed for the
ordered pair `(o, o')` (or leaves zeros where the code writes nothing), independently of all other pairs.
-/
import Proofs.NormalEqInversion

namespace Model

variable {α : Type} [Field α] [LinearOrder α] [IsStrictOrderedRing α]

/-- an object with its parameter range and its position in the list -/
abbrev PosObj (α : Type) := (LinObj α × (Nat × Nat)) × Nat

/-- `k` lies in the parameter range of `p` -/
def inRange (p : PosObj α) (k : Nat) : Prop := p.1.2.1 ≤ k ∧ k < p.1.2.1 + p.1.1.params

instance (p : PosObj α) (k : Nat) : Decidable (inRange p k) := by unfold inRange; infer_instance

/-- one (conditional) block write of the w-tilde curvature assembly -/
def wrBlock (ds : Dataset α) (pre fr : Rows α) (n : Nat) (pi pj : PosObj α) (C : Mat α) : Mat α :=
  match Impl.blockWT ds pre fr n pi.2 pj.2 pi.1.1 pj.1.1 with
  | some blk => Mat.setBlock C pi.1.2.1 pj.1.2.1 blk
  | none => C

theorem curvatureFromPreload_shape (pre U : Rows α) (n : Nat) :
    (Impl.curvatureFromPreload pre U n).r = n ∧ (Impl.curvatureFromPreload pre U n).c = n := by
  obtain ⟨h1, h2, _⟩ := offDiagPreload_spec pre U U n n
  obtain ⟨s1, s2, _⟩ := symmetrize_spec (Impl.offDiagPreload pre U n U n) n h1 h2
  exact ⟨s1, s2⟩

theorem blockWT_shape (ds : Dataset α) (pre fr : Rows α) (n i j : Nat) (oi oj : LinObj α)
    (blk : Mat α) (h : Impl.blockWT ds pre fr n i j oi oj = some blk) (hsame : i = j → oi = oj) :
    blk.r = oi.params ∧ blk.c = oj.params := by
  cases oi with
  | mapper ti bi =>
    cases oj with
    | mapper tj bj =>
      simp only [Impl.blockWT] at h
      by_cases hij : i = j
      · rw [if_pos hij] at h
        cases h
        have := hsame hij
        rw [← this]
        exact curvatureFromPreload_shape pre _ ti.pixels
      · rw [if_neg hij] at h
        by_cases hlt : i < j
        · rw [if_pos hlt] at h
          cases h
          exact ⟨(offDiagPreload_spec pre _ _ ti.pixels tj.pixels).1,
            (offDiagPreload_spec pre _ _ ti.pixels tj.pixels).2.1⟩
        · rw [if_neg hlt] at h
          cases h
    | funcList pj Mj bj =>
      simp only [Impl.blockWT] at h
      cases h
      refine ⟨(offDiagMapperFunc_spec _ _ _ _).1, ?_⟩
      rw [(offDiagMapperFunc_spec _ _ _ _).2.1]
      simp only [Mat.ofFn_c]
      rw [(convolveMatrix_spec _ _).2.1]
      rfl
  | funcList pi Mi bi =>
    cases oj with
    | mapper tj bj => simp [Impl.blockWT] at h
    | funcList pj Mj bj =>
      simp only [Impl.blockWT] at h
      cases h
      refine ⟨?_, ?_⟩
      · simp only [Mat.ofFn_r]
        rw [(convolveMatrix_spec _ _).2.1]; rfl
      · simp only [Mat.ofFn_c]
        rw [(convolveMatrix_spec _ _).2.1]; rfl

/-- what one block write does to an entry inside the matrix -/
theorem wrBlock_spec (ds : Dataset α) (pre fr : Rows α) (n : Nat) (pi pj : PosObj α) (C : Mat α)
    (hsame : pi.2 = pj.2 → pi.1.1 = pj.1.1) :
    (wrBlock ds pre fr n pi pj C).r = C.r ∧ (wrBlock ds pre fr n pi pj C).c = C.c ∧
    ∀ a b, a < C.r → b < C.c → (wrBlock ds pre fr n pi pj C).get a b
      = if inRange pi a ∧ inRange pj b then
          (match Impl.blockWT ds pre fr n pi.2 pj.2 pi.1.1 pj.1.1 with
            | some blk => blk.get (a - pi.1.2.1) (b - pj.1.2.1)
            | none => C.get a b)
        else C.get a b := by
  unfold wrBlock
  cases hb : Impl.blockWT ds pre fr n pi.2 pj.2 pi.1.1 pj.1.1 with
  | none =>
    refine ⟨rfl, rfl, fun a b _ _ => ?_⟩
    simp
  | some blk =>
    obtain ⟨s1, s2, s3⟩ := setBlock_spec C pi.1.2.1 pj.1.2.1 blk
    obtain ⟨d1, d2⟩ := blockWT_shape ds pre fr n pi.2 pj.2 pi.1.1 pj.1.1 blk hb hsame
    refine ⟨s1, s2, fun a b ha hb' => ?_⟩
    simp only
    rw [s3 a b ha hb', d1, d2]
    by_cases h : inRange pi a ∧ inRange pj b
    · have : pi.1.2.1 ≤ a ∧ a < pi.1.2.1 + pi.1.1.params ∧ pj.1.2.1 ≤ b ∧
          b < pj.1.2.1 + pj.1.1.params := ⟨h.1.1, h.1.2, h.2.1, h.2.2⟩
      rw [if_pos this, if_pos h]
    · have : ¬ (pi.1.2.1 ≤ a ∧ a < pi.1.2.1 + pi.1.1.params ∧ pj.1.2.1 ≤ b ∧
          b < pj.1.2.1 + pj.1.1.params) := fun h' => h ⟨⟨h'.1, h'.2.1⟩, ⟨h'.2.2.1, h'.2.2.2⟩⟩
      rw [if_neg this, if_neg h]

/-- the inner loop over the column objects, for a fixed row object `pi` -/
def innerWT (ds : Dataset α) (pre fr : Rows α) (n : Nat) (pi : PosObj α) (ps : List (PosObj α))
    (C : Mat α) : Mat α :=
  ps.foldl (fun C pj => wrBlock ds pre fr n pi pj C) C

theorem innerWT_untouched (ds : Dataset α) (pre fr : Rows α) (n : Nat) (pi : PosObj α)
    (ps : List (PosObj α)) (C : Mat α)
    (hsame : ∀ pj ∈ ps, pi.2 = pj.2 → pi.1.1 = pj.1.1) :
    (innerWT ds pre fr n pi ps C).r = C.r ∧ (innerWT ds pre fr n pi ps C).c = C.c ∧
    ∀ a b, a < C.r → b < C.c → (¬ inRange pi a ∨ ∀ pj ∈ ps, ¬ inRange pj b) →
      (innerWT ds pre fr n pi ps C).get a b = C.get a b := by
  induction ps generalizing C with
  | nil => exact ⟨rfl, rfl, fun _ _ _ _ _ => rfl⟩
  | cons pj ps ih =>
    obtain ⟨w1, w2, w3⟩ := wrBlock_spec ds pre fr n pi pj C (hsame pj (by simp))
    obtain ⟨i1, i2, i3⟩ := ih (wrBlock ds pre fr n pi pj C)
      (fun q hq => hsame q (by simp [hq]))
    simp only [innerWT, List.foldl_cons] at i1 i2 i3 ⊢
    refine ⟨by rw [i1, w1], by rw [i2, w2], fun a b ha hb hno => ?_⟩
    rw [i3 a b (by rw [w1]; exact ha) (by rw [w2]; exact hb)
      (hno.imp id (fun h q hq => h q (by simp [hq]))), w3 a b ha hb]
    have : ¬ (inRange pi a ∧ inRange pj b) := by
      rintro ⟨h1, h2⟩
      rcases hno with h | h
      · exact h h1
      · exact h pj (by simp) h2
    rw [if_neg this]

theorem innerWT_hit (ds : Dataset α) (pre fr : Rows α) (n : Nat) (pi : PosObj α)
    (A : List (PosObj α)) (x : PosObj α) (B : List (PosObj α)) (C : Mat α)
    (hsame : ∀ pj ∈ A ++ x :: B, pi.2 = pj.2 → pi.1.1 = pj.1.1)
    (a b : Nat) (ha : a < C.r) (hb : b < C.c) (hia : inRange pi a) (hxb : inRange x b)
    (hA : ∀ pj ∈ A, ¬ inRange pj b) (hB : ∀ pj ∈ B, ¬ inRange pj b) :
    (innerWT ds pre fr n pi (A ++ x :: B) C).get a b
      = match Impl.blockWT ds pre fr n pi.2 x.2 pi.1.1 x.1.1 with
        | some blk => blk.get (a - pi.1.2.1) (b - x.1.2.1)
        | none => C.get a b := by
  have e : innerWT ds pre fr n pi (A ++ x :: B) C
      = innerWT ds pre fr n pi B (wrBlock ds pre fr n pi x (innerWT ds pre fr n pi A C)) := by
    simp [innerWT, List.foldl_append]
  obtain ⟨a1, a2, a3⟩ := innerWT_untouched ds pre fr n pi A C
    (fun q hq => hsame q (by simp [hq]))
  obtain ⟨w1, w2, w3⟩ := wrBlock_spec ds pre fr n pi x (innerWT ds pre fr n pi A C)
    (hsame x (by simp))
  obtain ⟨b1, b2, b3⟩ := innerWT_untouched ds pre fr n pi B
    (wrBlock ds pre fr n pi x (innerWT ds pre fr n pi A C)) (fun q hq => hsame q (by simp [hq]))
  rw [e, b3 a b (by rw [w1, a1]; exact ha) (by rw [w2, a2]; exact hb) (Or.inr hB),
    w3 a b (by rw [a1]; exact ha) (by rw [a2]; exact hb), if_pos ⟨hia, hxb⟩]
  cases Impl.blockWT ds pre fr n pi.2 x.2 pi.1.1 x.1.1 with
  | none => exact a3 a b ha hb (Or.inr hA)
  | some blk => rfl

/-- the whole double loop -/
def outerWT (ds : Dataset α) (pre fr : Rows α) (n : Nat) (rows cols : List (PosObj α)) (C : Mat α) :
    Mat α :=
  rows.foldl (fun C pi => innerWT ds pre fr n pi cols C) C

theorem outerWT_untouched (ds : Dataset α) (pre fr : Rows α) (n : Nat) (rows cols : List (PosObj α))
    (C : Mat α) (hsame : ∀ pi ∈ rows, ∀ pj ∈ cols, pi.2 = pj.2 → pi.1.1 = pj.1.1) :
    (outerWT ds pre fr n rows cols C).r = C.r ∧ (outerWT ds pre fr n rows cols C).c = C.c ∧
    ∀ a b, a < C.r → b < C.c → (∀ pi ∈ rows, ¬ inRange pi a) →
      (outerWT ds pre fr n rows cols C).get a b = C.get a b := by
  induction rows generalizing C with
  | nil => exact ⟨rfl, rfl, fun _ _ _ _ _ => rfl⟩
  | cons pi rows ih =>
    obtain ⟨w1, w2, w3⟩ := innerWT_untouched ds pre fr n pi cols C (hsame pi (by simp))
    obtain ⟨i1, i2, i3⟩ := ih (innerWT ds pre fr n pi cols C)
      (fun q hq => hsame q (by simp [hq]))
    simp only [outerWT, List.foldl_cons] at i1 i2 i3 ⊢
    refine ⟨by rw [i1, w1], by rw [i2, w2], fun a b ha hb hno => ?_⟩
    rw [i3 a b (by rw [w1]; exact ha) (by rw [w2]; exact hb) (fun q hq => hno q (by simp [hq])),
      w3 a b ha hb (Or.inl (hno pi (by simp)))]

theorem outerWT_hit (ds : Dataset α) (pre fr : Rows α) (n : Nat)
    (A : List (PosObj α)) (x : PosObj α) (B : List (PosObj α))
    (A' : List (PosObj α)) (x' : PosObj α) (B' : List (PosObj α)) (C : Mat α)
    (hsame : ∀ pi ∈ A ++ x :: B, ∀ pj ∈ A' ++ x' :: B', pi.2 = pj.2 → pi.1.1 = pj.1.1)
    (a b : Nat) (ha : a < C.r) (hb : b < C.c) (hxa : inRange x a) (hxb : inRange x' b)
    (hA : ∀ pi ∈ A, ¬ inRange pi a) (hB : ∀ pi ∈ B, ¬ inRange pi a)
    (hA' : ∀ pj ∈ A', ¬ inRange pj b) (hB' : ∀ pj ∈ B', ¬ inRange pj b) :
    (outerWT ds pre fr n (A ++ x :: B) (A' ++ x' :: B') C).get a b
      = match Impl.blockWT ds pre fr n x.2 x'.2 x.1.1 x'.1.1 with
        | some blk => blk.get (a - x.1.2.1) (b - x'.1.2.1)
        | none => C.get a b := by
  have e : outerWT ds pre fr n (A ++ x :: B) (A' ++ x' :: B') C
      = outerWT ds pre fr n B (A' ++ x' :: B')
          (innerWT ds pre fr n x (A' ++ x' :: B') (outerWT ds pre fr n A (A' ++ x' :: B') C)) := by
    simp [outerWT, List.foldl_append]
  obtain ⟨a1, a2, a3⟩ := outerWT_untouched ds pre fr n A (A' ++ x' :: B') C
    (fun q hq => hsame q (by simp [hq]))
  obtain ⟨w1, w2, _⟩ := innerWT_untouched ds pre fr n x (A' ++ x' :: B')
    (outerWT ds pre fr n A (A' ++ x' :: B') C) (hsame x (by simp))
  obtain ⟨b1, b2, b3⟩ := outerWT_untouched ds pre fr n B (A' ++ x' :: B')
    (innerWT ds pre fr n x (A' ++ x' :: B') (outerWT ds pre fr n A (A' ++ x' :: B') C))
    (fun q hq => hsame q (by simp [hq]))
  rw [e, b3 a b (by rw [w1, a1]; exact ha) (by rw [w2, a2]; exact hb) hB,
    innerWT_hit ds pre fr n x A' x' B' _ (hsame x (by simp)) a b (by rw [a1]; exact ha)
      (by rw [a2]; exact hb) hxa hxb hA' hB']
  cases Impl.blockWT ds pre fr n x.2 x'.2 x.1.1 x'.1.1 with
  | none => exact a3 a b ha hb hA
  | some blk => rfl

/-! ### the object list as positioned objects -/

theorem ranged_length (l : List (LinObj α)) (s : Nat) : (ranged l s).length = l.length := by
  induction l generalizing s with
  | nil => rfl
  | cons o l ih => simp [ranged, ih]

theorem ranged_mem_bounds (l : List (LinObj α)) (s : Nat) (x : LinObj α × (Nat × Nat))
    (hx : x ∈ ranged l s) : s ≤ x.2.1 ∧ x.2.1 + x.1.params ≤ s + Impl.totalParams l := by
  induction l generalizing s with
  | nil => simp [ranged] at hx
  | cons o l ih =>
    simp only [ranged, List.mem_cons] at hx
    rw [totalParams_cons]
    rcases hx with rfl | hx
    · simp only; omega
    · have := ih (s + o.params) hx
      omega

/-- positions determine elements in `zipIdx` -/
theorem zipIdx_pos_inj {β : Type} (l : List β) (k : Nat) (p q : β × Nat) (hp : p ∈ l.zipIdx k)
    (hq : q ∈ l.zipIdx k) (h : p.2 = q.2) : p.1 = q.1 := by
  rw [List.mem_zipIdx_iff_le_and_getElem?_sub] at hp hq
  rw [h] at hp
  have := hp.2.symm.trans hq.2
  exact Option.some.inj this

theorem os_decomp (P : List (LinObj α)) (o : LinObj α) (Q : List (LinObj α)) :
    (ranged (P ++ o :: Q) 0).zipIdx
      = (ranged P 0).zipIdx
        ++ ((o, (Impl.totalParams P, Impl.totalParams P + o.params)), P.length)
        :: (ranged Q (Impl.totalParams P + o.params)).zipIdx (P.length + 1) := by
  rw [ranged_append, List.zipIdx_append]
  simp only [ranged, Nat.zero_add, List.zipIdx_cons, ranged_length]

/-- the matrix assembled by the double loop of `InversionImagingWTilde.curvature_matrix`, before
    mirroring -/
def assembledWT (ds : Dataset α) (objs : List (LinObj α)) : Mat α :=
  outerWT ds (Impl.wTildePreloadOf ds) (Impl.frames ds.mask ds.kernel)
    (Impl.nativeForSlim ds.mask).length (ranged objs 0).zipIdx (ranged objs 0).zipIdx
    (Mat.zeros (Impl.totalParams objs) (Impl.totalParams objs))

theorem curvatureWT_eq (ds : Dataset α) (objs : List (LinObj α)) (value : α) :
    Impl.curvatureWT ds objs value
      = if (Impl.noRegIndexList objs).length > 0 then
          Impl.addToDiag (Impl.mirrored (assembledWT ds objs)) value (Impl.noRegIndexList objs)
        else Impl.mirrored (assembledWT ds objs) := by
  unfold Impl.curvatureWT assembledWT
  dsimp only
  rw [zip_paramRanges]
  rfl

/-- C04 "blocks follow the order of the linear objects", w-tilde formalism: rows of `o`, columns of `o'`
    hold exactly the block computed for the ordered pair `(o, o')` (zeros where none is written). -/
theorem assembledWT_block (ds : Dataset α) (objs P : List (LinObj α)) (o : LinObj α)
    (Q P' : List (LinObj α)) (o' : LinObj α) (Q' : List (LinObj α))
    (h : objs = P ++ o :: Q) (h' : objs = P' ++ o' :: Q')
    (li lj : Nat) (hli : li < o.params) (hlj : lj < o'.params) :
    (assembledWT ds objs).r = Impl.totalParams objs ∧
    (assembledWT ds objs).c = Impl.totalParams objs ∧
    (assembledWT ds objs).get (Impl.totalParams P + li) (Impl.totalParams P' + lj)
      = match Impl.blockWT ds (Impl.wTildePreloadOf ds) (Impl.frames ds.mask ds.kernel)
          (Impl.nativeForSlim ds.mask).length P.length P'.length o o' with
        | some blk => blk.get li lj
        | none => 0 := by
  have hcoh : ∀ pi ∈ (ranged objs 0).zipIdx, ∀ pj ∈ (ranged objs 0).zipIdx,
      pi.2 = pj.2 → pi.1.1 = pj.1.1 := by
    intro pi hpi pj hpj hpos
    rw [zipIdx_pos_inj _ 0 pi pj hpi hpj hpos]
  have hshape := outerWT_untouched ds (Impl.wTildePreloadOf ds) (Impl.frames ds.mask ds.kernel)
    (Impl.nativeForSlim ds.mask).length (ranged objs 0).zipIdx (ranged objs 0).zipIdx
    (Mat.zeros (Impl.totalParams objs) (Impl.totalParams objs)) hcoh
  refine ⟨hshape.1, hshape.2.1, ?_⟩
  have hd := os_decomp P o Q
  have hd' := os_decomp P' o' Q'
  rw [← h] at hd
  rw [← h'] at hd'
  have htot : Impl.totalParams objs = Impl.totalParams P + o.params + Impl.totalParams Q := by
    rw [h, totalParams_append, totalParams_cons]; omega
  have htot' : Impl.totalParams objs = Impl.totalParams P' + o'.params + Impl.totalParams Q' := by
    rw [h', totalParams_append, totalParams_cons]; omega
  unfold assembledWT
  have key := outerWT_hit ds (Impl.wTildePreloadOf ds) (Impl.frames ds.mask ds.kernel)
    (Impl.nativeForSlim ds.mask).length
    (ranged P 0).zipIdx ((o, (Impl.totalParams P, Impl.totalParams P + o.params)), P.length)
    ((ranged Q (Impl.totalParams P + o.params)).zipIdx (P.length + 1))
    (ranged P' 0).zipIdx ((o', (Impl.totalParams P', Impl.totalParams P' + o'.params)), P'.length)
    ((ranged Q' (Impl.totalParams P' + o'.params)).zipIdx (P'.length + 1))
    (Mat.zeros (Impl.totalParams objs) (Impl.totalParams objs))
    (by rw [← hd, ← hd']; exact hcoh)
    (Impl.totalParams P + li) (Impl.totalParams P' + lj)
    (by simp only [Mat.zeros_r]; omega) (by simp only [Mat.zeros_c]; omega)
    (by simp only [inRange]; omega) (by simp only [inRange]; omega)
    (by
      intro q hq
      have := ranged_mem_bounds P 0 q.1 (List.fst_mem_of_mem_zipIdx hq)
      simp only [inRange]; omega)
    (by
      intro q hq
      have := ranged_mem_bounds Q _ q.1 (List.fst_mem_of_mem_zipIdx hq)
      simp only [inRange]; omega)
    (by
      intro q hq
      have := ranged_mem_bounds P' 0 q.1 (List.fst_mem_of_mem_zipIdx hq)
      simp only [inRange]; omega)
    (by
      intro q hq
      have := ranged_mem_bounds Q' _ q.1 (List.fst_mem_of_mem_zipIdx hq)
      simp only [inRange]; omega)
  rw [← hd, ← hd'] at key
  rw [key]
  simp only [Nat.add_sub_cancel_left, Mat.get_zeros]

end Model
