/-
Proofs/NormalEqDispatch.lean — the branch structure of `InversionImagingWTilde.data_vector` /
`curvature_matrix` (`Impl.dataVectorWTDispatch`, `Impl.curvatureWTDispatch`: dispatch on
`has(AbstractLinearObjFuncList)` and on the number of mappers, separate passes for mapper diagonal blocks,
mapper pairs, mapper × function-list and function-list × function-list blocks) computes exactly the general
object-pair assembly `Impl.dataVectorWT` / `Impl.curvatureWT`, hence (C04.e) the mapping-formalism result.
-/
import Proofs.NormalEqExtra

namespace Model

variable {α : Type} [Field α] [LinearOrder α] [IsStrictOrderedRing α]

/-! ### class lists with their parameter ranges -/

theorem paramRangesCls_loop (sel : LinObj α → Bool) (objs : List (LinObj α)) (acc : List (Nat × Nat))
    (s : Nat) :
    (objs.foldl (fun (st : List (Nat × Nat) × Nat) o =>
      (if sel o then st.1 ++ [(st.2, st.2 + o.params)] else st.1, st.2 + o.params)) (acc, s)).1
      = acc ++ ((ranged objs s).filter fun p => sel p.1).map Prod.snd := by
  induction objs generalizing acc s with
  | nil => simp [ranged]
  | cons o os ih =>
    rw [List.foldl_cons, ih]
    by_cases h : sel o = true
    · simp [ranged, h]
    · simp [ranged, h]

theorem zip_filter_ranged (sel : LinObj α → Bool) (objs : List (LinObj α)) (s : Nat) :
    (objs.filter sel).zip (((ranged objs s).filter fun p => sel p.1).map Prod.snd)
      = (ranged objs s).filter fun p => sel p.1 := by
  induction objs generalizing s with
  | nil => simp [ranged]
  | cons o os ih =>
    by_cases h : sel o = true
    · simp [ranged, h, ih]
    · simp [ranged, h, ih]

/-- `zip(cls_list, param_range_list)` = the objects of the class with their true ranges -/
theorem clsWithRanges_eq (sel : LinObj α → Bool) (objs : List (LinObj α)) :
    Impl.clsWithRanges sel objs = (ranged objs 0).filter fun p => sel p.1 := by
  unfold Impl.clsWithRanges Impl.paramRangesCls
  rw [paramRangesCls_loop, List.nil_append, zip_filter_ranged]

/-! ### folds of (conditional) slice assignments -/

/-- the slice `[w.1, w.1 + size)` of a vector write contains `k` -/
def vIn (w : Nat × Vec α) (k : Nat) : Prop := w.1 ≤ k ∧ k < w.1 + w.2.size

theorem foldl_congr_fun {β ι : Type} {f g : β → ι → β} (h : ∀ a x, f a x = g a x) (z : β) (l : List ι) :
    l.foldl f z = l.foldl g z := by
  have : f = g := funext fun a => funext fun x => h a x
  rw [this]

theorem foldl_foldl_congr {β ι κ : Type} {f1 g1 : β → ι → β} {f2 g2 : β → κ → β}
    (h1 : ∀ a x, f1 a x = g1 a x) (h2 : ∀ a x, f2 a x = g2 a x) {z : β} {l1 : List ι} {l2 : List κ} :
    l2.foldl f2 (l1.foldl f1 z) = l2.foldl g2 (l1.foldl g1 z) := by
  rw [foldl_congr_fun h1, foldl_congr_fun h2]

/-- one conditional slice write of a vector -/
def vstep {ι : Type} (wr : ι → Option (Nat × Vec α)) (v : Vec α) (i : ι) : Vec α :=
  match wr i with
  | some w => Impl.Vec.setBlock v w.1 w.2
  | none => v

open Classical in
theorem vfold_spec {ι : Type} (wr : ι → Option (Nat × Vec α)) (l : List ι) (v : Vec α) :
    (l.foldl (vstep wr) v).size = v.size ∧
    ∀ (k : Nat) (x : α), k < v.size →
      (∀ i ∈ l, ∀ w, wr i = some w → vIn w k → w.2.get (k - w.1) = x) →
      (l.foldl (vstep wr) v).get k
        = if ∃ i ∈ l, ∃ w, wr i = some w ∧ vIn w k then x else v.get k := by
  induction l generalizing v with
  | nil => exact ⟨rfl, fun k x _ _ => by simp⟩
  | cons i l ih =>
    rw [List.foldl_cons]
    cases hw : wr i with
    | none =>
      have hstep : vstep wr v i = v := by simp [vstep, hw]
      rw [hstep]
      obtain ⟨i1, i2⟩ := ih v
      refine ⟨i1, fun k x hk hval => ?_⟩
      rw [i2 k x hk (fun j hj => hval j (by simp [hj]))]
      have : (∃ j ∈ i :: l, ∃ w, wr j = some w ∧ vIn w k) ↔ (∃ j ∈ l, ∃ w, wr j = some w ∧ vIn w k) := by
        constructor
        · rintro ⟨j, hj, w, h1, h2⟩
          rcases List.mem_cons.mp hj with rfl | hj
          · rw [hw] at h1; cases h1
          · exact ⟨j, hj, w, h1, h2⟩
        · rintro ⟨j, hj, w, h1, h2⟩
          exact ⟨j, by simp [hj], w, h1, h2⟩
      simp only [this]
    | some w =>
      have hstep : vstep wr v i = Impl.Vec.setBlock v w.1 w.2 := by simp [vstep, hw]
      rw [hstep]
      obtain ⟨b1, b2⟩ := vec_setBlock_spec v w.1 w.2
      obtain ⟨i1, i2⟩ := ih (Impl.Vec.setBlock v w.1 w.2)
      refine ⟨by rw [i1, b1], fun k x hk hval => ?_⟩
      rw [i2 k x (by rw [b1]; exact hk) (fun j hj => hval j (by simp [hj]))]
      by_cases hl : ∃ j ∈ l, ∃ w', wr j = some w' ∧ vIn w' k
      · have : ∃ j ∈ i :: l, ∃ w', wr j = some w' ∧ vIn w' k := by
          obtain ⟨j, hj, w', h1, h2⟩ := hl
          exact ⟨j, by simp [hj], w', h1, h2⟩
        rw [if_pos hl, if_pos this]
      · rw [if_neg hl, b2 k hk]
        by_cases hin : vIn w k
        · have : ∃ j ∈ i :: l, ∃ w', wr j = some w' ∧ vIn w' k := ⟨i, by simp, w, hw, hin⟩
          have hin' : w.1 ≤ k ∧ k < w.1 + w.2.size := hin
          rw [if_pos hin', if_pos this]
          exact hval i (by simp) w hw hin
        · have : ¬ ∃ j ∈ i :: l, ∃ w', wr j = some w' ∧ vIn w' k := by
            rintro ⟨j, hj, w', h1, h2⟩
            rcases List.mem_cons.mp hj with rfl | hj
            · rw [hw] at h1; cases h1; exact hin h2
            · exact hl ⟨j, hj, w', h1, h2⟩
          have hin' : ¬ (w.1 ≤ k ∧ k < w.1 + w.2.size) := hin
          rw [if_neg hin', if_neg this]

/-- the block `[w.1, w.1 + rows) × [w.2.1, w.2.1 + cols)` of a matrix write contains `(a, b)` -/
def mIn (w : Nat × Nat × Mat α) (a b : Nat) : Prop :=
  w.1 ≤ a ∧ a < w.1 + w.2.2.r ∧ w.2.1 ≤ b ∧ b < w.2.1 + w.2.2.c

/-- one conditional block write of a matrix -/
def mstep {ι : Type} (wr : ι → Option (Nat × Nat × Mat α)) (C : Mat α) (i : ι) : Mat α :=
  match wr i with
  | some w => Mat.setBlock C w.1 w.2.1 w.2.2
  | none => C

open Classical in
theorem mfold_spec {ι : Type} (wr : ι → Option (Nat × Nat × Mat α)) (l : List ι) (C : Mat α) :
    (l.foldl (mstep wr) C).r = C.r ∧
    (l.foldl (mstep wr) C).c = C.c ∧
    ∀ (a b : Nat) (x : α), a < C.r → b < C.c →
      (∀ i ∈ l, ∀ w, wr i = some w → mIn w a b → w.2.2.get (a - w.1) (b - w.2.1) = x) →
      (l.foldl (mstep wr) C).get a b
        = if ∃ i ∈ l, ∃ w, wr i = some w ∧ mIn w a b then x else C.get a b := by
  induction l generalizing C with
  | nil => exact ⟨rfl, rfl, fun a b x _ _ _ => by simp⟩
  | cons i l ih =>
    rw [List.foldl_cons]
    cases hw : wr i with
    | none =>
      have hstep : mstep wr C i = C := by simp [mstep, hw]
      rw [hstep]
      obtain ⟨i1, i2, i3⟩ := ih C
      refine ⟨i1, i2, fun a b x ha hb hval => ?_⟩
      rw [i3 a b x ha hb (fun j hj => hval j (by simp [hj]))]
      have : (∃ j ∈ i :: l, ∃ w, wr j = some w ∧ mIn w a b) ↔ (∃ j ∈ l, ∃ w, wr j = some w ∧ mIn w a b) := by
        constructor
        · rintro ⟨j, hj, w, h1, h2⟩
          rcases List.mem_cons.mp hj with rfl | hj
          · rw [hw] at h1; cases h1
          · exact ⟨j, hj, w, h1, h2⟩
        · rintro ⟨j, hj, w, h1, h2⟩
          exact ⟨j, by simp [hj], w, h1, h2⟩
      simp only [this]
    | some w =>
      have hstep : mstep wr C i = Mat.setBlock C w.1 w.2.1 w.2.2 := by simp [mstep, hw]
      rw [hstep]
      obtain ⟨b1, b2, b3⟩ := setBlock_spec C w.1 w.2.1 w.2.2
      obtain ⟨i1, i2, i3⟩ := ih (Mat.setBlock C w.1 w.2.1 w.2.2)
      refine ⟨by rw [i1, b1], by rw [i2, b2], fun a b x ha hb hval => ?_⟩
      rw [i3 a b x (by rw [b1]; exact ha) (by rw [b2]; exact hb) (fun j hj => hval j (by simp [hj]))]
      by_cases hl : ∃ j ∈ l, ∃ w', wr j = some w' ∧ mIn w' a b
      · have : ∃ j ∈ i :: l, ∃ w', wr j = some w' ∧ mIn w' a b := by
          obtain ⟨j, hj, w', h1, h2⟩ := hl
          exact ⟨j, by simp [hj], w', h1, h2⟩
        rw [if_pos hl, if_pos this]
      · rw [if_neg hl, b3 a b ha hb]
        by_cases hin : mIn w a b
        · have : ∃ j ∈ i :: l, ∃ w', wr j = some w' ∧ mIn w' a b := ⟨i, by simp, w, hw, hin⟩
          have hin' : w.1 ≤ a ∧ a < w.1 + w.2.2.r ∧ w.2.1 ≤ b ∧ b < w.2.1 + w.2.2.c := hin
          rw [if_pos hin', if_pos this]
          exact hval i (by simp) w hw hin
        · have : ¬ ∃ j ∈ i :: l, ∃ w', wr j = some w' ∧ mIn w' a b := by
            rintro ⟨j, hj, w', h1, h2⟩
            rcases List.mem_cons.mp hj with rfl | hj
            · rw [hw] at h1; cases h1; exact hin h2
            · exact hl ⟨j, hj, w', h1, h2⟩
          have hin' : ¬ (w.1 ≤ a ∧ a < w.1 + w.2.2.r ∧ w.2.1 ≤ b ∧ b < w.2.1 + w.2.2.c) := hin
          rw [if_neg hin', if_neg this]

/-! ### which ranged object owns a parameter index -/

theorem ranged_owner (P : List (LinObj α)) (o : LinObj α) (Q : List (LinObj α)) (li : Nat)
    (hli : li < o.params) (p : LinObj α × (Nat × Nat)) (hp : p ∈ ranged (P ++ o :: Q) 0)
    (hin : p.2.1 ≤ Impl.totalParams P + li ∧ Impl.totalParams P + li < p.2.1 + p.1.params) :
    p = (o, (Impl.totalParams P, Impl.totalParams P + o.params)) := by
  rw [ranged_append] at hp
  simp only [ranged, Nat.zero_add, List.mem_append, List.mem_cons] at hp
  rcases hp with h | h | h
  · have := ranged_mem_bounds P 0 p h; omega
  · exact h
  · have := ranged_mem_bounds Q _ p h; omega

theorem mem_ranged_decomp (P : List (LinObj α)) (o : LinObj α) (Q : List (LinObj α)) :
    (o, (Impl.totalParams P, Impl.totalParams P + o.params)) ∈ ranged (P ++ o :: Q) 0 := by
  rw [ranged_append]
  simp [ranged]

theorem dvBlockWT_mapper (ds : Dataset α) (t : MapperTables α) (b : Bool) :
    dvBlockWT ds (.mapper t b) = Impl.dvMapper ds t := rfl

theorem dvBlockWT_func (ds : Dataset α) (p : Nat) (M : List (List α)) (b : Bool) :
    dvBlockWT ds (.funcList p M b) = Impl.dvFunc ds (.funcList p M b) := rfl

/-! ### `_data_vector_func_list_and_mapper` -/

/-- the slice write of the mapper pass for one ranged object -/
def wrM (ds : Dataset α) (p : LinObj α × (Nat × Nat)) : Option (Nat × Vec α) :=
  match p.1 with
  | .mapper t _ => some (p.2.1, Impl.dvMapper ds t)
  | .funcList _ _ _ => none

/-- the slice write of the function-list pass -/
def wrF (ds : Dataset α) (p : LinObj α × (Nat × Nat)) : Option (Nat × Vec α) :=
  some (p.2.1, Impl.dvFunc ds p.1)

theorem dvFuncListAndMapper_eq (ds : Dataset α) (objs : List (LinObj α))
    (hm : objs.any LinObj.isMapper = true) :
    Impl.dataVectorFuncListAndMapperWT ds objs = some (Impl.dataVectorWT ds objs) := by
  unfold Impl.dataVectorFuncListAndMapperWT Impl.dataVectorMapperWT
  simp only [hm, Bool.not_true, Bool.false_eq_true, ↓reduceIte, Option.map_some, Option.some.injEq]
  rw [clsWithRanges_eq, clsWithRanges_eq]
  -- both passes as conditional slice writes
  refine Eq.trans (foldl_foldl_congr (g1 := vstep (wrM ds)) (g2 := vstep (wrF ds)) ?_ ?_) ?_
  · intro dv p
    obtain ⟨o, r⟩ := p
    cases o <;> rfl
  · intro dv p; rfl
  obtain ⟨s1, g1⟩ := vfold_spec (wrM ds)
    ((ranged objs 0).filter fun p => LinObj.isMapper p.1) (Vec.zeros (Impl.totalParams objs))
  obtain ⟨s2, g2⟩ := vfold_spec (wrF ds)
    ((ranged objs 0).filter fun p => Impl.LinObj.isFunc p.1)
    (((ranged objs 0).filter fun p => LinObj.isMapper p.1).foldl (vstep (wrM ds))
      (Vec.zeros (Impl.totalParams objs)))
  apply Vec.ext_get
  · rw [s2, s1, Vec.size_zeros, dataVectorWT_size]
  · intro k hk
    rw [s2, s1, Vec.size_zeros] at hk
    obtain ⟨P, o, Q, li, h, rfl, hli⟩ := exists_decomp objs k hk
    subst h
    rw [dataVectorWT_block ds P o Q li hli]
    -- every write that covers the index is the block of `o`
    have hv1 : ∀ p ∈ (ranged (P ++ o :: Q) 0).filter (fun p => LinObj.isMapper p.1),
        ∀ w, wrM ds p = some w →
        vIn w (Impl.totalParams P + li) →
        w.2.get (Impl.totalParams P + li - w.1) = (dvBlockWT ds o).get li := by
      intro p hp w hw hin
      obtain ⟨q, r⟩ := p
      have hpm := (List.mem_filter.mp hp).1
      cases q with
      | funcList _ _ _ => simp [wrM] at hw
      | mapper t b =>
        simp only [wrM, Option.some.injEq] at hw
        subst hw
        have hsz : (Impl.dvMapper ds t).size = t.pixels := (dataVectorWTilde_spec _ _ _).1
        have := ranged_owner P o Q li hli _ hpm (by
          simp only [vIn, hsz] at hin
          simpa [LinObj.params] using hin)
        cases this
        simp only [Nat.add_sub_cancel_left]
        rfl
    have hv2 : ∀ p ∈ (ranged (P ++ o :: Q) 0).filter (fun p => Impl.LinObj.isFunc p.1),
        ∀ w, wrF ds p = some w →
        vIn w (Impl.totalParams P + li) →
        w.2.get (Impl.totalParams P + li - w.1) = (dvBlockWT ds o).get li := by
      intro p hp w hw hin
      obtain ⟨q, r⟩ := p
      have hpm := (List.mem_filter.mp hp).1
      have hf := (List.mem_filter.mp hp).2
      simp only [wrF, Option.some.injEq] at hw
      subst hw
      cases q with
      | mapper t b => simp [Impl.LinObj.isFunc, LinObj.isMapper] at hf
      | funcList pp M b =>
        have hsz : (Impl.dvFunc ds (.funcList pp M b)).size = pp := by
          unfold Impl.dvFunc
          rw [(dataVectorMapping_spec _ _ _).1, (convolveMatrix_spec _ _).2.1]
          rfl
        have := ranged_owner P o Q li hli _ hpm (by
          simp only [vIn, hsz] at hin
          simpa [LinObj.params] using hin)
        cases this
        simp only [Nat.add_sub_cancel_left]
        rfl
    have hk1 : Impl.totalParams P + li < (Vec.zeros (Impl.totalParams (P ++ o :: Q)) : Vec α).size := by
      rw [Vec.size_zeros]; exact hk
    rw [g2 _ _ (by rw [s1]; exact hk1) hv2]
    have hmem := mem_ranged_decomp P o Q
    have hsizeo : (dvBlockWT ds o).size = o.params := dvBlockWT_size ds o
    cases ho : o with
    | mapper t b =>
      subst ho
      have hno : ¬ ∃ p ∈ (ranged (P ++ LinObj.mapper t b :: Q) 0).filter (fun p => Impl.LinObj.isFunc p.1),
          ∃ w, wrF ds p = some w ∧
            vIn w (Impl.totalParams P + li) := by
        rintro ⟨p, hp, w, hw, hin⟩
        obtain ⟨q, r⟩ := p
        have hpm := (List.mem_filter.mp hp).1
        have hf := (List.mem_filter.mp hp).2
        simp only [wrF, Option.some.injEq] at hw
        subst hw
        cases q with
        | mapper t' b' => simp [Impl.LinObj.isFunc, LinObj.isMapper] at hf
        | funcList pp M b' =>
          have hsz : (Impl.dvFunc ds (.funcList pp M b')).size = pp := by
            unfold Impl.dvFunc
            rw [(dataVectorMapping_spec _ _ _).1, (convolveMatrix_spec _ _).2.1]
            rfl
          have := ranged_owner P _ Q li hli _ hpm (by
            simp only [vIn, hsz] at hin
            simpa [LinObj.params] using hin)
          cases this
      rw [if_neg hno, g1 _ _ hk1 hv1]
      have hyes : ∃ p ∈ (ranged (P ++ LinObj.mapper t b :: Q) 0).filter (fun p => LinObj.isMapper p.1),
          ∃ w, wrM ds p = some w ∧
            vIn w (Impl.totalParams P + li) := by
        refine ⟨_, List.mem_filter.mpr ⟨hmem, rfl⟩, _, rfl, ?_⟩
        have hsz : (Impl.dvMapper ds t).size = t.pixels := (dataVectorWTilde_spec _ _ _).1
        simp only [vIn, hsz]
        simp only [LinObj.params] at hli
        omega
      rw [if_pos hyes]
    | funcList pp M b =>
      subst ho
      have hyes : ∃ p ∈ (ranged (P ++ LinObj.funcList pp M b :: Q) 0).filter
            (fun p => Impl.LinObj.isFunc p.1),
          ∃ w, wrF ds p = some w ∧
            vIn w (Impl.totalParams P + li) := by
        refine ⟨_, List.mem_filter.mpr ⟨hmem, rfl⟩, _, rfl, ?_⟩
        have hsz : (Impl.dvFunc ds (.funcList pp M b)).size = pp := by
          unfold Impl.dvFunc
          rw [(dataVectorMapping_spec _ _ _).1, (convolveMatrix_spec _ _).2.1]
          rfl
        simp only [vIn, hsz]
        simp only [LinObj.params] at hli
        omega
      rw [if_pos hyes]

/-! ### `_data_vector_x1_mapper`, `_data_vector_multi_mapper` and the dispatch -/

theorem all_mapper_of_no_func (objs : List (LinObj α)) (h : objs.any Impl.LinObj.isFunc = false) :
    ∀ o ∈ objs, o.isMapper = true := by
  intro o ho
  have := List.any_eq_false.mp h o ho
  simpa [Impl.LinObj.isFunc] using this

theorem filter_mapper_of_no_func (objs : List (LinObj α)) (h : objs.any Impl.LinObj.isFunc = false) :
    objs.filter LinObj.isMapper = objs :=
  List.filter_eq_self.mpr (all_mapper_of_no_func objs h)

theorem vec_get_append (u v : Vec α) (k : Nat) :
    Vec.get (u ++ v) k = if k < u.size then Vec.get u k else Vec.get v (k - u.size) := by
  simp only [Vec.get, Array.getD_eq_getD_getElem?, Array.getElem?_append]
  split <;> rfl

theorem dvX1_eq (ds : Dataset α) (objs : List (LinObj α)) (hf : objs.any Impl.LinObj.isFunc = false)
    (h1 : (objs.filter LinObj.isMapper).length = 1) :
    Impl.dataVectorX1WT ds objs = some (Impl.dataVectorWT ds objs) := by
  rw [filter_mapper_of_no_func objs hf] at h1
  obtain ⟨o, rfl⟩ := List.length_eq_one_iff.mp h1
  have hm := all_mapper_of_no_func [o] hf o (by simp)
  cases o with
  | funcList p M b => simp [LinObj.isMapper] at hm
  | mapper t b =>
    simp only [Impl.dataVectorX1WT, List.head?_cons, Option.some.injEq]
    apply Vec.ext_get
    · rw [dataVectorWT_size, totalParams_cons, totalParams_nil]
      exact (dataVectorWTilde_spec _ _ _).1
    · intro k hk
      have hsz : (Impl.dvMapper ds t).size = t.pixels := (dataVectorWTilde_spec _ _ _).1
      have hk' : k < t.pixels := by rw [hsz] at hk; exact hk
      have := dataVectorWT_block ds [] (.mapper t b) [] k hk'
      rw [totalParams_nil, Nat.zero_add] at this
      rw [List.nil_append] at this
      rw [this]
      rfl

/-- one step of the `np.concatenate` -/
def multiStep (ds : Dataset α) (acc : Vec α) (o : LinObj α) : Vec α :=
  match o with
  | .mapper t _ => acc ++ Impl.dvMapper ds t
  | .funcList _ _ _ => acc

theorem dvMulti_fold (ds : Dataset α) (l : List (LinObj α)) (acc : Vec α)
    (hm : ∀ o ∈ l, o.isMapper = true) :
    let R := l.foldl (multiStep ds) acc
    R.size = acc.size + Impl.totalParams l ∧ (∀ k, k < acc.size → Vec.get R k = Vec.get acc k) ∧
    ∀ P o Q li, l = P ++ o :: Q → li < o.params →
      Vec.get R (acc.size + Impl.totalParams P + li) = (dvBlockWT ds o).get li := by
  induction l generalizing acc with
  | nil =>
    refine ⟨by simp [totalParams_nil], fun _ _ => rfl, ?_⟩
    intro P o Q li h
    exact absurd h (by simp)
  | cons o' l' ih =>
    have hm' := hm o' (by simp)
    cases o' with
    | funcList p M b => simp [LinObj.isMapper] at hm'
    | mapper t b =>
      have hsz : (Impl.dvMapper ds t).size = t.pixels := (dataVectorWTilde_spec _ _ _).1
      have := ih (acc ++ Impl.dvMapper ds t) (fun o ho => hm o (by simp [ho]))
      simp only at this
      obtain ⟨i1, i2, i3⟩ := this
      simp only [List.foldl_cons, multiStep]
      rw [Array.size_append, hsz] at i1 i2 i3
      refine ⟨by rw [i1, totalParams_cons]; simp only [LinObj.params]; omega, fun k hk => ?_, ?_⟩
      · rw [i2 k (by omega), vec_get_append, if_pos hk]
      · intro P o Q li h hli
        cases P with
        | nil =>
          simp only [List.nil_append, List.cons.injEq] at h
          obtain ⟨rfl, rfl⟩ := h
          simp only [LinObj.params] at hli
          rw [totalParams_nil, Nat.add_zero, i2 _ (by omega), vec_get_append, if_neg (by omega),
            Nat.add_sub_cancel_left]
          rfl
        | cons q P'' =>
          simp only [List.cons_append, List.cons.injEq] at h
          obtain ⟨rfl, rfl⟩ := h
          have := i3 P'' o Q li rfl hli
          rw [totalParams_cons]
          simp only [LinObj.params]
          rw [show acc.size + (t.pixels + Impl.totalParams P'') + li
            = acc.size + t.pixels + Impl.totalParams P'' + li by omega]
          exact this

theorem dvMulti_eq (ds : Dataset α) (objs : List (LinObj α)) (hf : objs.any Impl.LinObj.isFunc = false) :
    Impl.dataVectorMultiWT ds objs = some (Impl.dataVectorWT ds objs) := by
  unfold Impl.dataVectorMultiWT
  simp only [Option.some.injEq]
  rw [foldl_congr_fun (g := multiStep ds) (by intro a o; cases o <;> rfl)]
  have := dvMulti_fold ds objs #[] (all_mapper_of_no_func objs hf)
  simp only [Array.size_empty, Nat.zero_add] at this
  obtain ⟨h1, _, h3⟩ := this
  apply Vec.ext_get
  · rw [h1, dataVectorWT_size]
  · intro k hk
    rw [h1] at hk
    obtain ⟨P, o, Q, li, h, rfl, hli⟩ := exists_decomp objs k hk
    rw [h3 P o Q li h hli]
    subst h
    rw [dataVectorWT_block ds P o Q li hli]

/-- **the dispatcher of `InversionImagingWTilde.data_vector` computes the general assembly** (whenever
    the list contains a mapper, which is when the factory selects the w-tilde inversion) -/
theorem dataVectorWTDispatch_eq (ds : Dataset α) (objs : List (LinObj α))
    (hm : objs.any LinObj.isMapper = true) :
    Impl.dataVectorWTDispatch ds objs = some (Impl.dataVectorWT ds objs) := by
  unfold Impl.dataVectorWTDispatch
  by_cases hf : objs.any Impl.LinObj.isFunc = true
  · rw [if_pos hf]; exact dvFuncListAndMapper_eq ds objs hm
  · have hf' : objs.any Impl.LinObj.isFunc = false := by simpa using hf
    rw [if_neg hf]
    by_cases h1 : (objs.filter LinObj.isMapper).length = 1
    · rw [if_pos h1]; exact dvX1_eq ds objs hf' h1
    · rw [if_neg h1]; exact dvMulti_eq ds objs hf'

end Model
