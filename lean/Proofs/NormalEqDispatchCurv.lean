/-
Proofs/NormalEqDispatchCurv.lean — the passes of `_curvature_matrix_mapper_diag`,
`_curvature_matrix_multi_mapper`, `_curvature_matrix_func_list_and_mapper` as conditional block writes; every
write that covers an entry in the rows of object `o` and the columns of object `o'` is the block the general
assembly (`Impl.blockWT`) computes for the ordered pair `(o, o')`, and that block is written whenever it
exists.
-/
import Proofs.NormalEqDispatch

namespace Model

variable {α : Type} [Field α] [LinearOrder α] [IsStrictOrderedRing α]

abbrev RObj (α : Type) := LinObj α × (Nat × Nat)

/-! ### ordered pairs of a list -/

theorem pairsAfter_rel {β : Type} (R : β → β → Prop) (l : List β) (hl : l.Pairwise R) (x y : β)
    (h : (x, y) ∈ Impl.pairsAfter l) : R x y := by
  induction l with
  | nil => simp [Impl.pairsAfter] at h
  | cons z l ih =>
    simp only [Impl.pairsAfter, List.mem_append, List.mem_map, Prod.mk.injEq] at h
    have hp := List.pairwise_cons.mp hl
    rcases h with ⟨y', hy', rfl, rfl⟩ | h
    · exact hp.1 _ hy'
    · exact ih hp.2 h

theorem pairsAfter_mem_members {β : Type} (l : List β) (x y : β) (h : (x, y) ∈ Impl.pairsAfter l) :
    x ∈ l ∧ y ∈ l := by
  induction l with
  | nil => simp [Impl.pairsAfter] at h
  | cons z l ih =>
    simp only [Impl.pairsAfter, List.mem_append, List.mem_map, Prod.mk.injEq] at h
    rcases h with ⟨y', hy', rfl, rfl⟩ | h
    · exact ⟨by simp, by simp [hy']⟩
    · have := ih h
      exact ⟨by simp [this.1], by simp [this.2]⟩

theorem pairsAfter_mem {β : Type} (L1 : List β) (x : β) (L2 : List β) (y : β) (L3 : List β) :
    (x, y) ∈ Impl.pairsAfter (L1 ++ x :: (L2 ++ y :: L3)) := by
  induction L1 with
  | nil => simp [Impl.pairsAfter]
  | cons z L1 ih =>
    simp only [List.cons_append, Impl.pairsAfter, List.mem_append]
    exact Or.inr ih

/-! ### order of the ranged objects -/

theorem ranged_pairwise (l : List (LinObj α)) (s : Nat) :
    (ranged l s).Pairwise fun p q => p.2.1 + p.1.params ≤ q.2.1 := by
  induction l generalizing s with
  | nil => simp [ranged]
  | cons o l ih =>
    simp only [ranged, List.pairwise_cons]
    refine ⟨fun q hq => ?_, ih _⟩
    have := ranged_mem_bounds l _ q hq
    omega

/-- with non-empty ranges, the order of the offsets is the order of the list positions -/
theorem decomp_len_lt (objs P : List (LinObj α)) (o : LinObj α) (Q P' : List (LinObj α))
    (o' : LinObj α) (Q' : List (LinObj α)) (h : objs = P ++ o :: Q) (h' : objs = P' ++ o' :: Q')
    (hlt : Impl.totalParams P + o.params ≤ Impl.totalParams P') (ho : 0 < o.params) :
    P.length < P'.length ∧ ∃ R, objs = P ++ o :: (R ++ o' :: Q') := by
  rw [h] at h'
  rcases List.append_eq_append_iff.mp h' with ⟨a', h1, h2⟩ | ⟨c', h1, h2⟩
  · cases a' with
    | nil =>
      simp only [List.append_nil] at h1
      subst h1
      omega
    | cons z a'' =>
      simp only [List.cons_append, List.cons.injEq] at h2
      obtain ⟨rfl, h3⟩ := h2
      subst h1
      refine ⟨by simp, a'', ?_⟩
      rw [h, h3]
  · cases c' with
    | nil =>
      simp only [List.append_nil] at h1
      subst h1
      omega
    | cons z c'' =>
      subst h1
      rw [totalParams_append, totalParams_cons] at hlt
      omega

theorem decomp_len_eq (objs P : List (LinObj α)) (o : LinObj α) (Q P' : List (LinObj α))
    (o' : LinObj α) (Q' : List (LinObj α)) (h : objs = P ++ o :: Q) (h' : objs = P' ++ o' :: Q')
    (heq : Impl.totalParams P = Impl.totalParams P') (ho : 0 < o.params) (ho' : 0 < o'.params) :
    P.length = P'.length := by
  rw [h] at h'
  rcases List.append_eq_append_iff.mp h' with ⟨a', h1, h2⟩ | ⟨c', h1, h2⟩
  · cases a' with
    | nil => simp only [List.append_nil] at h1; rw [h1]
    | cons z a'' =>
      simp only [List.cons_append, List.cons.injEq] at h2
      obtain ⟨rfl, _⟩ := h2
      subst h1
      rw [totalParams_append, totalParams_cons] at heq
      omega
  · cases c' with
    | nil => simp only [List.append_nil] at h1; rw [h1]
    | cons z c'' =>
      simp only [List.cons_append, List.cons.injEq] at h2
      obtain ⟨rfl, _⟩ := h2
      subst h1
      rw [totalParams_append, totalParams_cons] at heq
      omega

/-! ### the four passes as conditional block writes -/

/-- `_curvature_matrix_mapper_diag` -/
def wrDiag (ds : Dataset α) (p : RObj α) : Option (Nat × Nat × Mat α) :=
  match p.1 with
  | .mapper t _ =>
    some (p.2.1, p.2.1, Impl.blkDiag (Impl.wTildePreloadOf ds) (Impl.nativeForSlim ds.mask).length t)
  | .funcList _ _ _ => none

/-- `_curvature_matrix_multi_mapper` (pairs `i < j` of mappers) -/
def wrOff (ds : Dataset α) (pq : RObj α × RObj α) : Option (Nat × Nat × Mat α) :=
  match pq.1.1, pq.2.1 with
  | .mapper ti _, .mapper tj _ =>
    some (pq.1.2.1, pq.2.2.1,
      Impl.blkOff (Impl.wTildePreloadOf ds) (Impl.nativeForSlim ds.mask).length ti tj)
  | _, _ => none

/-- mapper × function-list blocks -/
def wrMF (ds : Dataset α) (mf : RObj α × RObj α) : Option (Nat × Nat × Mat α) :=
  match mf.1.1 with
  | .mapper t _ =>
    some (mf.1.2.1, mf.2.2.1, Impl.blkMF ds (Impl.frames ds.mask ds.kernel)
      (Impl.nativeForSlim ds.mask).length t mf.2.1)
  | .funcList _ _ _ => none

/-- function-list × function-list blocks -/
def wrFF (ds : Dataset α) (ff : RObj α × RObj α) : Option (Nat × Nat × Mat α) :=
  some (ff.1.2.1, ff.2.2.1, Impl.blkFF ds (Impl.frames ds.mask ds.kernel)
    (Impl.nativeForSlim ds.mask).length ff.1.1 ff.2.1)

theorem blkDiag_shape (pre : Rows α) (n : Nat) (t : MapperTables α) :
    (Impl.blkDiag pre n t).r = t.pixels ∧ (Impl.blkDiag pre n t).c = t.pixels :=
  curvatureFromPreload_shape pre _ t.pixels

theorem blkOff_shape (pre : Rows α) (n : Nat) (ti tj : MapperTables α) :
    (Impl.blkOff pre n ti tj).r = ti.pixels ∧ (Impl.blkOff pre n ti tj).c = tj.pixels := by
  unfold Impl.blkOff Mat.plus
  simp only [Mat.ofFn_r, Mat.ofFn_c]
  exact ⟨(offDiagPreload_spec pre _ _ ti.pixels tj.pixels).1,
    (offDiagPreload_spec pre _ _ ti.pixels tj.pixels).2.1⟩

theorem blkMF_shape (ds : Dataset α) (fr : Rows α) (n : Nat) (t : MapperTables α) (oj : LinObj α) :
    (Impl.blkMF ds fr n t oj).r = t.pixels ∧ (Impl.blkMF ds fr n t oj).c = oj.params := by
  unfold Impl.blkMF
  refine ⟨(offDiagMapperFunc_spec _ _ _ _).1, ?_⟩
  rw [(offDiagMapperFunc_spec _ _ _ _).2.1]
  simp only [Mat.ofFn_c]
  rw [(convolveMatrix_spec _ _).2.1]
  exact (mappingMatrixOf_shape n oj).2

theorem blkFF_shape (ds : Dataset α) (fr : Rows α) (n : Nat) (oi oj : LinObj α) :
    (Impl.blkFF ds fr n oi oj).r = oi.params ∧ (Impl.blkFF ds fr n oi oj).c = oj.params := by
  unfold Impl.blkFF
  simp only [Mat.ofFn_r, Mat.ofFn_c]
  rw [(convolveMatrix_spec _ _).2.1, (convolveMatrix_spec _ _).2.1]
  exact ⟨(mappingMatrixOf_shape n oi).2, (mappingMatrixOf_shape n oj).2⟩

theorem blockWT_diag (ds : Dataset α) (pre fr : Rows α) (n i : Nat) (t : MapperTables α) (b b' : Bool) :
    Impl.blockWT ds pre fr n i i (.mapper t b) (.mapper t b') = some (Impl.blkDiag pre n t) := by
  simp [Impl.blockWT, Impl.blkDiag]

theorem blockWT_off (ds : Dataset α) (pre fr : Rows α) (n i j : Nat) (hij : i < j)
    (ti tj : MapperTables α) (b b' : Bool) :
    Impl.blockWT ds pre fr n i j (.mapper ti b) (.mapper tj b') = some (Impl.blkOff pre n ti tj) := by
  have : ¬ i = j := by omega
  simp [Impl.blockWT, Impl.blkOff, this, hij]

theorem blockWT_mf (ds : Dataset α) (pre fr : Rows α) (n i j : Nat) (t : MapperTables α) (b : Bool)
    (p : Nat) (M : List (List α)) (b' : Bool) :
    Impl.blockWT ds pre fr n i j (.mapper t b) (.funcList p M b')
      = some (Impl.blkMF ds fr n t (.funcList p M b')) := rfl

theorem blockWT_ff (ds : Dataset α) (pre fr : Rows α) (n i j : Nat) (p : Nat) (M : List (List α))
    (b : Bool) (p' : Nat) (M' : List (List α)) (b' : Bool) :
    Impl.blockWT ds pre fr n i j (.funcList p M b) (.funcList p' M' b')
      = some (Impl.blkFF ds fr n (.funcList p M b) (.funcList p' M' b')) := rfl

/-! ### who writes an entry

Throughout: `objs = P ++ o :: Q = P' ++ o' :: Q'`, the entry is `(totalParams P + li, totalParams P' + lj)`. -/

section Owner
variable (ds : Dataset α) (objs P : List (LinObj α)) (o : LinObj α) (Q P' : List (LinObj α))
  (o' : LinObj α) (Q' : List (LinObj α)) (h : objs = P ++ o :: Q) (h' : objs = P' ++ o' :: Q')
  (li lj : Nat) (hli : li < o.params) (hlj : lj < o'.params)
include h h' hli hlj

/-- the conclusion shared by the four passes: a covering write is the block of the pair `(o, o')` -/
def IsBlockOf (w : Nat × Nat × Mat α) : Prop :=
  w.1 = Impl.totalParams P ∧ w.2.1 = Impl.totalParams P' ∧
    Impl.blockWT ds (Impl.wTildePreloadOf ds) (Impl.frames ds.mask ds.kernel)
      (Impl.nativeForSlim ds.mask).length P.length P'.length o o' = some w.2.2

omit h h' hli hlj in
theorem isBlockOf_def (w : Nat × Nat × Mat α) :
    IsBlockOf ds P o P' o' w ↔ (w.1 = Impl.totalParams P ∧ w.2.1 = Impl.totalParams P' ∧
      Impl.blockWT ds (Impl.wTildePreloadOf ds) (Impl.frames ds.mask ds.kernel)
        (Impl.nativeForSlim ds.mask).length P.length P'.length o o' = some w.2.2) := Iff.rfl

theorem diag_owner (p : RObj α) (hp : p ∈ ranged objs 0) (w : Nat × Nat × Mat α)
    (hw : wrDiag ds p = some w) (hin : mIn w (Impl.totalParams P + li) (Impl.totalParams P' + lj)) :
    IsBlockOf ds P o P' o' w := by
  obtain ⟨q, r⟩ := p
  cases q with
  | funcList _ _ _ => simp [wrDiag] at hw
  | mapper t b =>
    simp only [wrDiag, Option.some.injEq] at hw
    subst hw
    obtain ⟨s1, s2⟩ := blkDiag_shape (Impl.wTildePreloadOf ds) (Impl.nativeForSlim ds.mask).length t
    simp only [mIn, s1, s2] at hin
    have e1 := ranged_owner P o Q li hli (LinObj.mapper t b, r) (h ▸ hp) ⟨hin.1, hin.2.1⟩
    have e2 := ranged_owner P' o' Q' lj hlj (LinObj.mapper t b, r) (h' ▸ hp) ⟨hin.2.2.1, hin.2.2.2⟩
    have eo : o = LinObj.mapper t b := (congrArg Prod.fst e1).symm
    have eo' : o' = LinObj.mapper t b := (congrArg Prod.fst e2).symm
    have er : r.1 = Impl.totalParams P := congrArg (fun x => x.2.1) e1
    have er' : r.1 = Impl.totalParams P' := congrArg (fun x => x.2.1) e2
    have hlen := decomp_len_eq objs P o Q P' o' Q' h h' (er.symm.trans er') (by omega) (by omega)
    refine ⟨er, er', ?_⟩
    rw [eo, eo', hlen]
    exact blockWT_diag _ _ _ _ _ _ _ _

theorem off_owner (pq : RObj α × RObj α)
    (hpq : pq ∈ Impl.pairsAfter ((ranged objs 0).filter fun p => LinObj.isMapper p.1))
    (w : Nat × Nat × Mat α) (hw : wrOff ds pq = some w)
    (hin : mIn w (Impl.totalParams P + li) (Impl.totalParams P' + lj)) :
    IsBlockOf ds P o P' o' w := by
  obtain ⟨⟨q1, r1⟩, ⟨q2, r2⟩⟩ := pq
  have hmem := pairsAfter_mem_members _ _ _ hpq
  have hord := pairsAfter_rel (fun p q : RObj α => p.2.1 + p.1.params ≤ q.2.1) _
    ((ranged_pairwise objs 0).filter _) _ _ hpq
  have hp1 := (List.mem_filter.mp hmem.1).1
  have hp2 := (List.mem_filter.mp hmem.2).1
  cases q1 with
  | funcList _ _ _ => simp [wrOff] at hw
  | mapper ti b1 =>
    cases q2 with
    | funcList _ _ _ => simp [wrOff] at hw
    | mapper tj b2 =>
      simp only [wrOff, Option.some.injEq] at hw
      subst hw
      obtain ⟨s1, s2⟩ := blkOff_shape (Impl.wTildePreloadOf ds) (Impl.nativeForSlim ds.mask).length ti tj
      simp only [mIn, s1, s2] at hin
      have e1 := ranged_owner P o Q li hli (LinObj.mapper ti b1, r1) (h ▸ hp1) ⟨hin.1, hin.2.1⟩
      have e2 := ranged_owner P' o' Q' lj hlj (LinObj.mapper tj b2, r2) (h' ▸ hp2) ⟨hin.2.2.1, hin.2.2.2⟩
      have eo : o = LinObj.mapper ti b1 := (congrArg Prod.fst e1).symm
      have eo' : o' = LinObj.mapper tj b2 := (congrArg Prod.fst e2).symm
      have er : r1.1 = Impl.totalParams P := congrArg (fun x => x.2.1) e1
      have er' : r2.1 = Impl.totalParams P' := congrArg (fun x => x.2.1) e2
      simp only [er, er'] at hord
      have hlen := (decomp_len_lt objs P o Q P' o' Q' h h' (by rw [eo]; exact hord) (by omega)).1
      refine ⟨er, er', ?_⟩
      rw [eo, eo']
      exact blockWT_off _ _ _ _ _ _ hlen _ _ _ _

theorem mf_owner (mf : RObj α × RObj α) (hm : mf.1 ∈ ranged objs 0)
    (hf : mf.2 ∈ (ranged objs 0).filter fun p => Impl.LinObj.isFunc p.1)
    (w : Nat × Nat × Mat α) (hw : wrMF ds mf = some w)
    (hin : mIn w (Impl.totalParams P + li) (Impl.totalParams P' + lj)) :
    IsBlockOf ds P o P' o' w := by
  obtain ⟨⟨q1, r1⟩, ⟨q2, r2⟩⟩ := mf
  have hp2 := (List.mem_filter.mp hf).1
  have hfun := (List.mem_filter.mp hf).2
  cases q1 with
  | funcList _ _ _ => simp [wrMF] at hw
  | mapper t b =>
    cases q2 with
    | mapper t' b' => simp [Impl.LinObj.isFunc, LinObj.isMapper] at hfun
    | funcList pp M b' =>
      simp only [wrMF, Option.some.injEq] at hw
      subst hw
      obtain ⟨s1, s2⟩ := blkMF_shape ds (Impl.frames ds.mask ds.kernel)
        (Impl.nativeForSlim ds.mask).length t (LinObj.funcList pp M b')
      simp only [mIn, s1, s2] at hin
      have e1 := ranged_owner P o Q li hli (LinObj.mapper t b, r1) (h ▸ hm) ⟨hin.1, hin.2.1⟩
      have e2 := ranged_owner P' o' Q' lj hlj (LinObj.funcList pp M b', r2) (h' ▸ hp2)
        ⟨hin.2.2.1, hin.2.2.2⟩
      have eo : o = LinObj.mapper t b := (congrArg Prod.fst e1).symm
      have eo' : o' = LinObj.funcList pp M b' := (congrArg Prod.fst e2).symm
      have er : r1.1 = Impl.totalParams P := congrArg (fun x => x.2.1) e1
      have er' : r2.1 = Impl.totalParams P' := congrArg (fun x => x.2.1) e2
      refine ⟨er, er', ?_⟩
      rw [eo, eo']
      exact blockWT_mf _ _ _ _ _ _ _ _ _ _ _

theorem ff_owner (ff : RObj α × RObj α)
    (hf1 : ff.1 ∈ (ranged objs 0).filter fun p => Impl.LinObj.isFunc p.1)
    (hf2 : ff.2 ∈ (ranged objs 0).filter fun p => Impl.LinObj.isFunc p.1)
    (w : Nat × Nat × Mat α) (hw : wrFF ds ff = some w)
    (hin : mIn w (Impl.totalParams P + li) (Impl.totalParams P' + lj)) :
    IsBlockOf ds P o P' o' w := by
  obtain ⟨⟨q1, r1⟩, ⟨q2, r2⟩⟩ := ff
  have hp1 := (List.mem_filter.mp hf1).1
  have hp2 := (List.mem_filter.mp hf2).1
  have hfun1 := (List.mem_filter.mp hf1).2
  have hfun2 := (List.mem_filter.mp hf2).2
  cases q1 with
  | mapper t b => simp [Impl.LinObj.isFunc, LinObj.isMapper] at hfun1
  | funcList p1 M1 b1 =>
    cases q2 with
    | mapper t' b' => simp [Impl.LinObj.isFunc, LinObj.isMapper] at hfun2
    | funcList p2 M2 b2 =>
      simp only [wrFF, Option.some.injEq] at hw
      subst hw
      obtain ⟨s1, s2⟩ := blkFF_shape ds (Impl.frames ds.mask ds.kernel)
        (Impl.nativeForSlim ds.mask).length (LinObj.funcList p1 M1 b1) (LinObj.funcList p2 M2 b2)
      simp only [mIn, s1, s2] at hin
      have e1 := ranged_owner P o Q li hli (LinObj.funcList p1 M1 b1, r1) (h ▸ hp1) ⟨hin.1, hin.2.1⟩
      have e2 := ranged_owner P' o' Q' lj hlj (LinObj.funcList p2 M2 b2, r2) (h' ▸ hp2)
        ⟨hin.2.2.1, hin.2.2.2⟩
      have eo : o = LinObj.funcList p1 M1 b1 := (congrArg Prod.fst e1).symm
      have eo' : o' = LinObj.funcList p2 M2 b2 := (congrArg Prod.fst e2).symm
      have er : r1.1 = Impl.totalParams P := congrArg (fun x => x.2.1) e1
      have er' : r2.1 = Impl.totalParams P' := congrArg (fun x => x.2.1) e2
      refine ⟨er, er', ?_⟩
      rw [eo, eo']
      exact blockWT_ff _ _ _ _ _ _ _ _ _ _ _ _

end Owner

/-! ### the matrix filled by the four passes -/

def msOf (objs : List (LinObj α)) : List (RObj α) := (ranged objs 0).filter fun p => LinObj.isMapper p.1
def fsOf (objs : List (LinObj α)) : List (RObj α) := (ranged objs 0).filter fun p => Impl.LinObj.isFunc p.1

def passDiag (ds : Dataset α) (objs : List (LinObj α)) : Mat α :=
  (msOf objs).foldl (mstep (wrDiag ds)) (Mat.zeros (Impl.totalParams objs) (Impl.totalParams objs))
def passOff (ds : Dataset α) (objs : List (LinObj α)) : Mat α :=
  (Impl.pairsAfter (msOf objs)).foldl (mstep (wrOff ds)) (passDiag ds objs)
def passMF (ds : Dataset α) (objs : List (LinObj α)) : Mat α :=
  ((msOf objs).flatMap fun m => (fsOf objs).map fun f => (m, f)).foldl (mstep (wrMF ds)) (passOff ds objs)
def passFF (ds : Dataset α) (objs : List (LinObj α)) : Mat α :=
  ((fsOf objs).flatMap fun f0 => (fsOf objs).map fun f1 => (f0, f1)).foldl (mstep (wrFF ds))
    (passMF ds objs)

theorem ranged_split (P : List (LinObj α)) (o : LinObj α) (R : List (LinObj α)) (o' : LinObj α)
    (Q' : List (LinObj α)) :
    ranged (P ++ o :: (R ++ o' :: Q')) 0
      = ranged P 0 ++ (o, (Impl.totalParams P, Impl.totalParams P + o.params))
        :: (ranged R (Impl.totalParams P + o.params)
          ++ (o', (Impl.totalParams (P ++ o :: R), Impl.totalParams (P ++ o :: R) + o'.params))
          :: ranged Q' (Impl.totalParams (P ++ o :: R) + o'.params)) := by
  have e : Impl.totalParams (P ++ o :: R) = Impl.totalParams P + o.params + Impl.totalParams R := by
    rw [totalParams_append, totalParams_cons]; omega
  rw [e, ranged_append]
  simp only [ranged, Nat.zero_add]
  rw [ranged_append]
  simp only [ranged]

open Classical in
theorem passes_entry (ds : Dataset α) (objs P : List (LinObj α)) (o : LinObj α)
    (Q P' : List (LinObj α)) (o' : LinObj α) (Q' : List (LinObj α))
    (h : objs = P ++ o :: Q) (h' : objs = P' ++ o' :: Q')
    (li lj : Nat) (hli : li < o.params) (hlj : lj < o'.params) :
    (passFF ds objs).r = Impl.totalParams objs ∧ (passFF ds objs).c = Impl.totalParams objs ∧
    (passFF ds objs).get (Impl.totalParams P + li) (Impl.totalParams P' + lj)
      = match Impl.blockWT ds (Impl.wTildePreloadOf ds) (Impl.frames ds.mask ds.kernel)
          (Impl.nativeForSlim ds.mask).length P.length P'.length o o' with
        | some blk => blk.get li lj
        | none => 0 := by
  set x : α := match Impl.blockWT ds (Impl.wTildePreloadOf ds) (Impl.frames ds.mask ds.kernel)
          (Impl.nativeForSlim ds.mask).length P.length P'.length o o' with
        | some blk => blk.get li lj
        | none => 0 with hx
  have hval : ∀ w : Nat × Nat × Mat α, IsBlockOf ds P o P' o' w →
      w.2.2.get (Impl.totalParams P + li - w.1) (Impl.totalParams P' + lj - w.2.1) = x := by
    rintro w ⟨h1, h2, h3⟩
    rw [hx, h3, h1, h2, Nat.add_sub_cancel_left, Nat.add_sub_cancel_left]
  have ha : Impl.totalParams P + li < Impl.totalParams objs := by
    rw [h, totalParams_append, totalParams_cons]; omega
  have hb : Impl.totalParams P' + lj < Impl.totalParams objs := by
    rw [h', totalParams_append, totalParams_cons]; omega
  obtain ⟨d1, d2, d3⟩ := mfold_spec (wrDiag ds) (msOf objs)
    (Mat.zeros (Impl.totalParams objs) (Impl.totalParams objs))
  obtain ⟨o1, o2, o3⟩ := mfold_spec (wrOff ds) (Impl.pairsAfter (msOf objs)) (passDiag ds objs)
  obtain ⟨m1, m2, m3⟩ := mfold_spec (wrMF ds)
    ((msOf objs).flatMap fun m => (fsOf objs).map fun f => (m, f)) (passOff ds objs)
  obtain ⟨f1, f2, f3⟩ := mfold_spec (wrFF ds)
    ((fsOf objs).flatMap fun f0 => (fsOf objs).map fun f1 => (f0, f1)) (passMF ds objs)
  have rD : (passDiag ds objs).r = Impl.totalParams objs := d1
  have cD : (passDiag ds objs).c = Impl.totalParams objs := d2
  have rO : (passOff ds objs).r = Impl.totalParams objs := o1.trans rD
  have cO : (passOff ds objs).c = Impl.totalParams objs := o2.trans cD
  have rM : (passMF ds objs).r = Impl.totalParams objs := m1.trans rO
  have cM : (passMF ds objs).c = Impl.totalParams objs := m2.trans cO
  refine ⟨f1.trans rM, f2.trans cM, ?_⟩
  have vD := d3 _ _ x (by simpa using ha) (by simpa using hb) (fun p hp w hw hin =>
    hval w (diag_owner ds objs P o Q P' o' Q' h h' li lj hli hlj p (List.mem_filter.mp hp).1 w hw hin))
  have vO := o3 _ _ x (by rw [rD]; exact ha) (by rw [cD]; exact hb) (fun pq hpq w hw hin =>
    hval w (off_owner ds objs P o Q P' o' Q' h h' li lj hli hlj pq hpq w hw hin))
  have vM := m3 _ _ x (by rw [rO]; exact ha) (by rw [cO]; exact hb) (fun mf hmf w hw hin => by
    obtain ⟨m, hm, hmf'⟩ := List.mem_flatMap.mp hmf
    obtain ⟨f, hf, rfl⟩ := List.mem_map.mp hmf'
    exact hval w (mf_owner ds objs P o Q P' o' Q' h h' li lj hli hlj (m, f)
      (List.mem_filter.mp hm).1 hf w hw hin))
  have vF := f3 _ _ x (by rw [rM]; exact ha) (by rw [cM]; exact hb) (fun ff hff w hw hin => by
    obtain ⟨g0, hg0, hff'⟩ := List.mem_flatMap.mp hff
    obtain ⟨g1, hg1, rfl⟩ := List.mem_map.mp hff'
    exact hval w (ff_owner ds objs P o Q P' o' Q' h h' li lj hli hlj (g0, g1) hg0 hg1 w hw hin))
  show (passFF ds objs).get _ _ = x
  unfold passFF
  rw [vF]
  unfold passMF
  rw [vM]
  unfold passOff
  rw [vO]
  unfold passDiag
  rw [vD, Mat.get_zeros]
  -- if any pass covers the entry the value is `x`; otherwise no block exists and `x = 0`
  by_cases e4 : ∃ i ∈ (fsOf objs).flatMap fun f0 => (fsOf objs).map fun f1 => (f0, f1),
      ∃ w, wrFF ds i = some w ∧ mIn w (Impl.totalParams P + li) (Impl.totalParams P' + lj)
  · rw [if_pos e4]
  rw [if_neg e4]
  by_cases e3 : ∃ i ∈ (msOf objs).flatMap fun m => (fsOf objs).map fun f => (m, f),
      ∃ w, wrMF ds i = some w ∧ mIn w (Impl.totalParams P + li) (Impl.totalParams P' + lj)
  · rw [if_pos e3]
  rw [if_neg e3]
  by_cases e2 : ∃ i ∈ Impl.pairsAfter (msOf objs),
      ∃ w, wrOff ds i = some w ∧ mIn w (Impl.totalParams P + li) (Impl.totalParams P' + lj)
  · rw [if_pos e2]
  rw [if_neg e2]
  by_cases e1 : ∃ i ∈ msOf objs,
      ∃ w, wrDiag ds i = some w ∧ mIn w (Impl.totalParams P + li) (Impl.totalParams P' + lj)
  · rw [if_pos e1]
  rw [if_neg e1]
  -- no pass covers the entry: the general assembly writes no block either
  symm
  rw [hx]
  have hmemo : (o, (Impl.totalParams P, Impl.totalParams P + o.params)) ∈ ranged objs 0 := by
    rw [h]; exact mem_ranged_decomp P o Q
  have hmemo' : (o', (Impl.totalParams P', Impl.totalParams P' + o'.params)) ∈ ranged objs 0 := by
    rw [h']; exact mem_ranged_decomp P' o' Q'
  cases o with
  | mapper t b =>
    cases o' with
    | mapper t' b' =>
      simp only [Impl.blockWT]
      by_cases hij : P.length = P'.length
      · exfalso
        apply e1
        have hoo := decomp_same objs P _ Q P' _ Q' h h' hij
        have hPP : P = P' := by
          rw [h] at h'
          exact (List.append_inj h' hij).1
        subst hPP
        cases hoo
        refine ⟨_, List.mem_filter.mpr ⟨hmemo, rfl⟩, _, rfl, ?_⟩
        obtain ⟨s1, s2⟩ := blkDiag_shape (Impl.wTildePreloadOf ds) (Impl.nativeForSlim ds.mask).length t
        simp only [mIn, s1, s2]
        simp only [LinObj.params] at hli hlj
        omega
      · rw [if_neg hij]
        by_cases hlt : P.length < P'.length
        · exfalso
          apply e2
          -- `o` stands before `o'` in the list
          have hsplit : ∃ R, objs = P ++ LinObj.mapper t b :: (R ++ LinObj.mapper t' b' :: Q') := by
            have h'' := h'
            rw [h] at h''
            rcases List.append_eq_append_iff.mp h'' with ⟨a', g1, g2⟩ | ⟨c', g1, g2⟩
            · cases a' with
              | nil => simp at g1; subst g1; omega
              | cons z a'' =>
                simp only [List.cons_append, List.cons.injEq] at g2
                obtain ⟨rfl, g3⟩ := g2
                exact ⟨a'', by rw [h, g3]⟩
            · subst g1
              simp at hlt
          obtain ⟨R, hR⟩ := hsplit
          have hP' : P' = P ++ LinObj.mapper t b :: R := by
            have := h'
            rw [hR] at this
            have e : P ++ LinObj.mapper t b :: (R ++ LinObj.mapper t' b' :: Q')
                = (P ++ LinObj.mapper t b :: R) ++ LinObj.mapper t' b' :: Q' := by simp
            rw [e] at this
            have hl : (P ++ LinObj.mapper t b :: R).length = P'.length := by
              have := congrArg List.length this
              simp only [List.length_append, List.length_cons] at this ⊢
              omega
            exact ((List.append_inj this hl).1).symm
          refine ⟨((LinObj.mapper t b, (Impl.totalParams P, Impl.totalParams P + t.pixels)),
            (LinObj.mapper t' b', (Impl.totalParams P', Impl.totalParams P' + t'.pixels))), ?_, _, rfl, ?_⟩
          · unfold msOf
            rw [hR, ranged_split, ← hP']
            simp only [List.filter_append, List.filter_cons, LinObj.isMapper, ↓reduceIte, LinObj.params]
            exact pairsAfter_mem _ _ _ _ _
          · obtain ⟨s1, s2⟩ := blkOff_shape (Impl.wTildePreloadOf ds)
              (Impl.nativeForSlim ds.mask).length t t'
            simp only [mIn, s1, s2]
            simp only [LinObj.params] at hli hlj
            omega
        · rw [if_neg hlt]
    | funcList p' M' b' =>
      exfalso
      apply e3
      refine ⟨((LinObj.mapper t b, (Impl.totalParams P, Impl.totalParams P + t.pixels)),
        (LinObj.funcList p' M' b', (Impl.totalParams P', Impl.totalParams P' + p'))), ?_, _, rfl, ?_⟩
      · apply List.mem_flatMap.mpr
        refine ⟨_, List.mem_filter.mpr ⟨hmemo, rfl⟩, ?_⟩
        apply List.mem_map.mpr
        exact ⟨_, List.mem_filter.mpr ⟨hmemo', rfl⟩, rfl⟩
      · obtain ⟨s1, s2⟩ := blkMF_shape ds (Impl.frames ds.mask ds.kernel)
          (Impl.nativeForSlim ds.mask).length t (LinObj.funcList p' M' b')
        simp only [mIn, s1, s2]
        simp only [LinObj.params] at hli hlj ⊢
        omega
  | funcList p M b =>
    cases o' with
    | mapper t' b' => rfl
    | funcList p' M' b' =>
      exfalso
      apply e4
      refine ⟨((LinObj.funcList p M b, (Impl.totalParams P, Impl.totalParams P + p)),
        (LinObj.funcList p' M' b', (Impl.totalParams P', Impl.totalParams P' + p'))), ?_, _, rfl, ?_⟩
      · apply List.mem_flatMap.mpr
        refine ⟨_, List.mem_filter.mpr ⟨hmemo, rfl⟩, ?_⟩
        apply List.mem_map.mpr
        exact ⟨_, List.mem_filter.mpr ⟨hmemo', rfl⟩, rfl⟩
      · obtain ⟨s1, s2⟩ := blkFF_shape ds (Impl.frames ds.mask ds.kernel)
          (Impl.nativeForSlim ds.mask).length (LinObj.funcList p M b) (LinObj.funcList p' M' b')
        simp only [mIn, s1, s2]
        simp only [LinObj.params] at hli hlj ⊢
        omega

/-! ### the passes are the general assembly -/

theorem passFF_eq_assembled (ds : Dataset α) (objs : List (LinObj α)) :
    passFF ds objs = assembledWT ds objs := by
  have hcoh : ∀ pi ∈ (ranged objs 0).zipIdx, ∀ pj ∈ (ranged objs 0).zipIdx,
      pi.2 = pj.2 → pi.1.1 = pj.1.1 := by
    intro pi hpi pj hpj hpos
    rw [zipIdx_pos_inj _ 0 pi pj hpi hpj hpos]
  have hA := outerWT_untouched ds (Impl.wTildePreloadOf ds) (Impl.frames ds.mask ds.kernel)
    (Impl.nativeForSlim ds.mask).length (ranged objs 0).zipIdx (ranged objs 0).zipIdx
    (Mat.zeros (Impl.totalParams objs) (Impl.totalParams objs)) hcoh
  -- shapes of the pass matrix (no decomposition needed)
  obtain ⟨d1, d2, _⟩ := mfold_spec (wrDiag ds) (msOf objs)
    (Mat.zeros (Impl.totalParams objs) (Impl.totalParams objs))
  obtain ⟨o1, o2, _⟩ := mfold_spec (wrOff ds) (Impl.pairsAfter (msOf objs)) (passDiag ds objs)
  obtain ⟨m1, m2, _⟩ := mfold_spec (wrMF ds)
    ((msOf objs).flatMap fun m => (fsOf objs).map fun f => (m, f)) (passOff ds objs)
  obtain ⟨f1, f2, _⟩ := mfold_spec (wrFF ds)
    ((fsOf objs).flatMap fun f0 => (fsOf objs).map fun f1 => (f0, f1)) (passMF ds objs)
  have hr : (passFF ds objs).r = Impl.totalParams objs :=
    f1.trans (m1.trans (o1.trans d1))
  have hc : (passFF ds objs).c = Impl.totalParams objs :=
    f2.trans (m2.trans (o2.trans d2))
  apply Mat.ext_get
  · rw [hr]; exact hA.1.symm
  · rw [hc]; exact hA.2.1.symm
  · intro a b ha hb
    rw [hr] at ha
    rw [hc] at hb
    obtain ⟨P, o, Q, li, h, rfl, hli⟩ := exists_decomp objs a ha
    obtain ⟨P', o', Q', lj, h', rfl, hlj⟩ := exists_decomp objs b hb
    rw [(passes_entry ds objs P o Q P' o' Q' h h' li lj hli hlj).2.2,
      (assembledWT_block ds objs P o Q P' o' Q' h h' li lj hli hlj).2.2]
    cases Impl.blockWT ds (Impl.wTildePreloadOf ds) (Impl.frames ds.mask ds.kernel)
      (Impl.nativeForSlim ds.mask).length P.length P'.length o o' <;> rfl

/-! ### the transliterated branches -/

theorem ranged_map_fst (l : List (LinObj α)) (s : Nat) : (ranged l s).map Prod.fst = l := by
  induction l generalizing s with
  | nil => rfl
  | cons o l ih => simp [ranged, ih]

theorem msOf_length (objs : List (LinObj α)) :
    (msOf objs).length = (objs.filter LinObj.isMapper).length := by
  have : (msOf objs).map Prod.fst = objs.filter LinObj.isMapper := by
    unfold msOf
    conv_rhs => rw [← ranged_map_fst objs 0]
    rw [List.filter_map]
    rfl
  rw [← this, List.length_map]

theorem fsOf_nil (objs : List (LinObj α)) (hf : objs.any Impl.LinObj.isFunc = false) : fsOf objs = [] := by
  unfold fsOf
  apply List.filter_eq_nil_iff.mpr
  intro p hp
  have hmem : p.1 ∈ objs := by
    have : p.1 ∈ (ranged objs 0).map Prod.fst := List.mem_map_of_mem hp
    rwa [ranged_map_fst] at this
  have := List.any_eq_false.mp hf p.1 hmem
  simpa using this

theorem curvMapperDiag_eq (ds : Dataset α) (objs : List (LinObj α))
    (hm : objs.any LinObj.isMapper = true) :
    Impl.curvMapperDiagWT ds objs = some (passDiag ds objs) := by
  unfold Impl.curvMapperDiagWT passDiag msOf
  simp only [hm, Bool.not_true, Bool.false_eq_true, ↓reduceIte, Option.some.injEq]
  rw [clsWithRanges_eq]
  apply foldl_congr_fun
  intro C p
  obtain ⟨q, r⟩ := p
  cases q <;> rfl

theorem passOff_of_one (ds : Dataset α) (objs : List (LinObj α))
    (h1 : (objs.filter LinObj.isMapper).length = 1) : passOff ds objs = passDiag ds objs := by
  unfold passOff
  rw [← msOf_length] at h1
  obtain ⟨x, hx⟩ := List.length_eq_one_iff.mp h1
  rw [hx]
  rfl

theorem curvMultiMapper_eq (ds : Dataset α) (objs : List (LinObj α))
    (hm : objs.any LinObj.isMapper = true) :
    Impl.curvMultiMapperWT ds objs = some (passOff ds objs) := by
  unfold Impl.curvMultiMapperWT
  rw [curvMapperDiag_eq ds objs hm]
  simp only [Option.map_some, Option.some.injEq]
  by_cases h1 : (objs.filter LinObj.isMapper).length = 1
  · rw [if_pos h1, passOff_of_one ds objs h1]
  · rw [if_neg h1, clsWithRanges_eq]
    unfold passOff msOf
    apply foldl_congr_fun
    intro C pq
    obtain ⟨⟨q1, r1⟩, ⟨q2, r2⟩⟩ := pq
    cases q1 <;> cases q2 <;> rfl

theorem curvFuncListAndMapper_eq (ds : Dataset α) (objs : List (LinObj α))
    (hm : objs.any LinObj.isMapper = true) :
    Impl.curvFuncListAndMapperWT ds objs = some (passFF ds objs) := by
  unfold Impl.curvFuncListAndMapperWT
  rw [curvMultiMapper_eq ds objs hm]
  simp only [Option.map_some, Option.some.injEq]
  rw [clsWithRanges_eq, clsWithRanges_eq]
  unfold passFF passMF
  rw [List.foldl_flatMap, List.foldl_flatMap]
  simp only [List.foldl_map]
  refine Eq.trans (foldl_foldl_congr
    (g1 := fun C m => (fsOf objs).foldl (fun C f => mstep (wrMF ds) C (m, f)) C)
    (g2 := fun C f0 => (fsOf objs).foldl (fun C f1 => mstep (wrFF ds) C (f0, f1)) C) ?_ ?_) rfl
  · intro C m
    apply foldl_congr_fun
    intro C f
    obtain ⟨q, r⟩ := m
    cases q <;> rfl
  · intro C f0
    apply foldl_congr_fun
    intro C f1
    rfl

/-- **the dispatcher of `InversionImagingWTilde.curvature_matrix` computes the general assembly** -/
theorem curvatureWTDispatch_eq (ds : Dataset α) (objs : List (LinObj α))
    (hm : objs.any LinObj.isMapper = true) (value : α) :
    Impl.curvatureWTDispatch ds objs value = some (Impl.curvatureWT ds objs value) := by
  have hpre : (if objs.any Impl.LinObj.isFunc = true then Impl.curvFuncListAndMapperWT ds objs
      else if (objs.filter LinObj.isMapper).length = 1 then Impl.curvMapperDiagWT ds objs
      else Impl.curvMultiMapperWT ds objs) = some (assembledWT ds objs) := by
    rw [← passFF_eq_assembled]
    by_cases hf : objs.any Impl.LinObj.isFunc = true
    · rw [if_pos hf]; exact curvFuncListAndMapper_eq ds objs hm
    · have hf' : objs.any Impl.LinObj.isFunc = false := by simpa using hf
      have hfs := fsOf_nil objs hf'
      have hFF : passFF ds objs = passOff ds objs := by
        have hnil : ∀ l : List (RObj α), l.flatMap (fun _ => ([] : List (RObj α × RObj α))) = [] := by
          intro l; induction l <;> simp_all
        unfold passFF passMF
        rw [hfs]
        simp only [List.map_nil, List.flatMap_nil, List.foldl_nil, hnil]
      rw [if_neg hf, hFF]
      by_cases h1 : (objs.filter LinObj.isMapper).length = 1
      · rw [if_pos h1, curvMapperDiag_eq ds objs hm, passOff_of_one ds objs h1]
      · rw [if_neg h1]; exact curvMultiMapper_eq ds objs hm
  unfold Impl.curvatureWTDispatch
  simp only
  rw [hpre, curvatureWT_eq]
  rfl

end Model
