/-
Proofs/NormalEqEncodes.lean — the unique-mapping table of a mapper encodes its mapping matrix (C06.e, needed by
C04.b/e): `data_slim_to_pixelization_unique_from` and `mapping_matrix_from` accumulate the same
`sub_fraction · weight` contributions, provided `slim_index_for_sub_slim_index` lists every data pixel
`sub_size²` times in order (the over-sampler's contract, C09).
-/
import Proofs.NormalEqExt

namespace Model

variable {α : Type} [Field α] [DecidableEq α]

open Spec

/-- first sub-pixel index of data pixel `k`: `Σ_{i<k} sub_size[i]²` (`ip_sub_start`) -/
def startOf (sz : List Nat) : Nat → Nat
  | 0 => 0
  | k + 1 => startOf sz k + sz.getD k 0 * sz.getD k 0

theorem startOf_mono (sz : List Nat) {a b : Nat} (h : a ≤ b) : startOf sz a ≤ startOf sz b := by
  induction b with
  | zero => have : a = 0 := by omega
            subst this; exact le_refl _
  | succ b ih =>
    by_cases hab : a = b + 1
    · subst hab; exact le_refl _
    · have := ih (by omega)
      simp only [startOf]; omega

/-- the over-sampler's contract relating `slim_index_for_sub_slim_index` and `sub_size` -/
def BlocksOK (t : MapperTables α) (n : Nat) : Prop :=
  t.slimForSub.length = startOf t.subSize n ∧
  ∀ sub, sub < t.slimForSub.length → ∀ d, d < n →
    (t.slimForSub.getD sub 0 = d ↔ startOf t.subSize d ≤ sub ∧ sub < startOf t.subSize (d + 1))

/-! ### sums -/

theorem sumRange_window (n s k : Nat) (hsk : s + k ≤ n) (g : Nat → α) :
    (sumRange n fun i => if s ≤ i ∧ i < s + k then g i else 0) = sumRange k fun j => g (s + j) := by
  induction k with
  | zero =>
    rw [sumRange_zero]
    apply sumRange_eq_zero
    intro i _
    have : ¬ (s ≤ i ∧ i < s + 0) := by omega
    rw [if_neg this]
  | succ k ih =>
    rw [sumRange_succ, ← ih (by omega)]
    have hs := sumRange_single n (s + k) g
    rw [if_pos (by omega)] at hs
    rw [← hs, ← sumRange_add]
    apply sumRange_congr
    intro i _
    by_cases h1 : s ≤ i ∧ i < s + k
    · have h2 : s ≤ i ∧ i < s + (k + 1) := by omega
      have h3 : ¬ i = s + k := by omega
      rw [if_pos h1, if_pos h2, if_neg h3, add_zero]
    · by_cases h3 : i = s + k
      · have h2 : s ≤ i ∧ i < s + (k + 1) := by omega
        rw [if_neg h1, if_pos h2, if_pos h3, zero_add]
      · have h2 : ¬ (s ≤ i ∧ i < s + (k + 1)) := by omega
        rw [if_neg h1, if_neg h2, if_neg h3, add_zero]

theorem sum_map_set {β : Type} (l : List β) (k : Nat) (hk : k < l.length) (x : β) (f : β → α) :
    Model.sum ((l.set k x).map f) = Model.sum (l.map f) + (f x - f l[k]) := by
  induction l generalizing k with
  | nil => simp at hk
  | cons a l ih =>
    cases k with
    | zero => simp only [List.set_cons_zero, List.map_cons, sum_cons, List.getElem_cons_zero]; ring
    | succ k =>
      simp only [List.set_cons_succ, List.map_cons, sum_cons, List.getElem_cons_succ]
      rw [ih k (by simpa using hk)]
      ring

/-! ### `uniqueInsert` -/

theorem uniqueInsert_obs (row : List (Nat × α)) (pix : Nat) (w : α) (p : Nat) :
    Model.sum ((Impl.uniqueInsert row pix w).map fun e => if e.1 = p then e.2 else 0)
      = Model.sum (row.map fun e => if e.1 = p then e.2 else 0) + if pix = p then w else 0 := by
  unfold Impl.uniqueInsert
  cases hf : row.findIdx? (fun e => e.1 == pix) with
  | none =>
    simp only
    rw [List.map_append, sum_append]
    simp [sum_cons, sum_nil]
  | some k =>
    simp only
    rw [List.findIdx?_eq_some_iff_getElem] at hf
    obtain ⟨hk, hk1, _⟩ := hf
    have hpix : row[k].1 = pix := by simpa using hk1
    rw [sum_map_set row k hk]
    congr 1
    have hg : (row.getD k (pix, 0)).2 = row[k].2 := by
      simp [List.getD_eq_getElem?_getD, List.getElem?_eq_getElem hk]
    rw [hg]
    by_cases hp : pix = p
    · have : row[k].1 = p := by rw [hpix, hp]
      simp [hp, this]
    · have : ¬ row[k].1 = p := by rw [hpix]; exact hp
      simp [hp, this]

/-- the row of data pixel `ip` built by the de-duplication loop -/
def uniqueRow (t : MapperTables α) (ip : Nat) : List (Nat × α) :=
  (List.range' (startOf t.subSize ip) (t.subSize.getD ip 0 * t.subSize.getD ip 0)).foldl
    (fun row ipSub =>
      (t.subRows.getD ipSub []).foldl
        (fun row e => Impl.uniqueInsert row e.1 (vget t.subFraction ip * e.2)) row) []

theorem uniqueFrom_loop (t : MapperTables α) (k : Nat) :
    (List.range k).foldl
      (fun (st : Rows α × Nat) ip =>
        let ipSubStart := st.2
        let ipSubEnd := ipSubStart + t.subSize.getD ip 0 * t.subSize.getD ip 0
        let row := (List.range' ipSubStart (ipSubEnd - ipSubStart)).foldl
          (fun row ipSub =>
            (t.subRows.getD ipSub []).foldl
              (fun row e => Impl.uniqueInsert row e.1 (vget t.subFraction ip * e.2)) row) []
        (st.1 ++ [row], ipSubEnd))
      ([], 0)
      = ((List.range k).map (uniqueRow t), startOf t.subSize k) := by
  induction k with
  | zero => rfl
  | succ k ih =>
    rw [List.range_succ, List.foldl_append, ih]
    simp only [List.foldl_cons, List.foldl_nil, List.map_append, List.map_cons, List.map_nil,
      startOf, Nat.add_sub_cancel_left, uniqueRow]

theorem uniqueFrom_eq (t : MapperTables α) (n : Nat) :
    Impl.uniqueFrom t n = (List.range n).map (uniqueRow t) := by
  unfold Impl.uniqueFrom
  rw [uniqueFrom_loop]

theorem uniqueRow_rowsMat (t : MapperTables α) (ip p : Nat) :
    Model.sum ((uniqueRow t ip).map fun e => if e.1 = p then e.2 else 0)
      = sumRange (t.subSize.getD ip 0 * t.subSize.getD ip 0) fun j =>
          Model.sum ((t.subRows.getD (startOf t.subSize ip + j) []).map fun e =>
            if e.1 = p then vget t.subFraction ip * e.2 else 0) := by
  have h1 : ∀ _ipSub : Nat,
      Additive (fun (row : List (Nat × α)) (q : Nat) =>
          Model.sum (row.map fun e => if e.1 = q then e.2 else 0))
        (fun _ => True) (fun _ => True)
        (fun row (e : Nat × α) => Impl.uniqueInsert row e.1 (vget t.subFraction ip * e.2))
        (fun e q => if e.1 = q then vget t.subFraction ip * e.2 else 0) := by
    intro _ row e _
    exact ⟨trivial, fun q _ => uniqueInsert_obs row e.1 _ q⟩
  have h2 := (Additive.nest (fun ipSub : Nat => t.subRows.getD ipSub []) h1).foldl
    (List.range' (startOf t.subSize ip) (t.subSize.getD ip 0 * t.subSize.getD ip 0)) [] trivial
  have := h2.2 p trivial
  simp only [uniqueRow]
  rw [this, List.map_nil, sum_nil, zero_add, sum_range']

/-- C06.e inside C04: the unique mappings encode the mapping matrix -/
theorem uniqueFrom_encodes (t : MapperTables α) (n : Nat) (hb : BlocksOK t n) :
    Encodes (Impl.uniqueFrom t n) (Impl.mappingMatrixFrom t n) := by
  have hsh := mappingMatrixFrom_shape t n
  refine ⟨by rw [uniqueFrom_eq, hsh.1]; simp, fun d p hd hp => ?_⟩
  rw [hsh.1] at hd
  rw [hsh.2] at hp
  -- the mapping matrix entry
  have h1 : ∀ sub : Nat,
      Additive (fun (M : Mat α) (k : Nat × Nat) => M.get k.1 k.2) (fun M => M.r = n ∧ M.c = t.pixels)
        (fun k => k.1 < n ∧ k.2 < t.pixels)
        (fun M (e : Nat × α) => M.add (t.slimForSub.getD sub 0) e.1
          (vget t.subFraction (t.slimForSub.getD sub 0) * e.2))
        (fun e k => if k.1 = t.slimForSub.getD sub 0 ∧ k.2 = e.1 then
          vget t.subFraction (t.slimForSub.getD sub 0) * e.2 else 0) :=
    fun sub => Mat.additive_add n t.pixels (fun _ => t.slimForSub.getD sub 0)
      (fun e : Nat × α => e.1) _
  have hM := ((Additive.nest (fun sub : Nat => t.subRows.getD sub []) h1).foldl
    (List.range t.slimForSub.length) (Mat.zeros n t.pixels) ⟨rfl, rfl⟩).2 (d, p) ⟨hd, hp⟩
  have hMget : (Impl.mappingMatrixFrom t n).get d p
      = sumRange t.slimForSub.length fun sub =>
          if startOf t.subSize d ≤ sub ∧ sub < startOf t.subSize d + t.subSize.getD d 0 * t.subSize.getD d 0
          then Model.sum ((t.subRows.getD sub []).map fun e =>
            if e.1 = p then vget t.subFraction d * e.2 else 0)
          else 0 := by
    unfold Impl.mappingMatrixFrom
    rw [hM, Mat.get_zeros, zero_add, ← sumRange_def]
    apply sumRange_congr
    intro sub hsub
    have hiff := hb.2 sub hsub d hd
    by_cases hs : t.slimForSub.getD sub 0 = d
    · have hw : startOf t.subSize d ≤ sub ∧
          sub < startOf t.subSize d + t.subSize.getD d 0 * t.subSize.getD d 0 := by
        have := hiff.mp hs
        simpa [startOf] using this
      rw [if_pos hw]
      apply sum_map_congr
      intro e _
      dsimp only
      by_cases he : e.1 = p
      · have hc : d = t.slimForSub.getD sub 0 ∧ p = e.1 := ⟨hs.symm, he.symm⟩
        rw [if_pos hc, if_pos he, hs]
      · have hc : ¬ (d = t.slimForSub.getD sub 0 ∧ p = e.1) := fun h => he h.2.symm
        rw [if_neg hc, if_neg he]
    · have hw : ¬ (startOf t.subSize d ≤ sub ∧
          sub < startOf t.subSize d + t.subSize.getD d 0 * t.subSize.getD d 0) := by
        intro h
        apply hs
        apply hiff.mpr
        simpa [startOf] using h
      rw [if_neg hw]
      apply sum_map_eq_zero
      intro e _
      dsimp only
      have hc : ¬ (d = t.slimForSub.getD sub 0 ∧ p = e.1) := fun h => hs h.1.symm
      rw [if_neg hc]
  rw [hMget, sumRange_window _ _ _ (by
    have := startOf_mono t.subSize (show d + 1 ≤ n by omega)
    rw [hb.1]
    simpa [startOf] using this)]
  -- the unique-mapping entry
  simp only [rowsMat]
  rw [uniqueFrom_eq, map_getD_lt _ _ d (by simpa using hd) 0 []]
  have hra : (List.range n).getD d 0 = d := by
    simp [List.getD_eq_getElem?_getD, List.getElem?_range hd]
  rw [hra, uniqueRow_rowsMat]

end Model
