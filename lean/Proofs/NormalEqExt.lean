/-
Proofs/NormalEqExt.lean — extensionality of the accumulators: entrywise agreement inside the shape is
equality of the arrays, so anything computed from the data vector and curvature matrix (reconstruction by any
deterministic solver, mapped reconstructed data) agrees between the formalisms.
-/
import Proofs.NormalEqFinal

namespace Model

variable {α : Type} [Field α] [LinearOrder α] [IsStrictOrderedRing α]

theorem Mat.ext_get (A B : Mat α) (hr : A.r = B.r) (hc : A.c = B.c)
    (h : ∀ i j, i < A.r → j < A.c → A.get i j = B.get i j) : A = B := by
  obtain ⟨ar, ac, ad, ah⟩ := A
  obtain ⟨br, bc, bd, bh⟩ := B
  simp only at hr hc
  subst hr; subst hc
  have hd : ad = bd := by
    apply Array.ext
    · rw [ah, bh]
    · intro k hk1 hk2
      have hk : k < ar * ac := by rw [← ah]; exact hk1
      have hc0 : 0 < ac := by
        rcases Nat.eq_zero_or_pos ac with h0 | h0
        · rw [h0, Nat.mul_zero] at hk; omega
        · exact h0
      have hi : k / ac < ar := by
        rw [Nat.div_lt_iff_lt_mul hc0]; exact hk
      have hj : k % ac < ac := Nat.mod_lt _ hc0
      have := h (k / ac) (k % ac) hi hj
      simp only [Mat.get, hi, hj, and_self, ↓reduceIte] at this
      have hk' : k / ac * ac + k % ac = k := by
        rw [Nat.mul_comm]; exact Nat.div_add_mod k ac
      rw [hk'] at this
      simpa [Array.getD_eq_getD_getElem?, hk1, hk2] using this
  subst hd
  rfl

theorem Vec.ext_get (u v : Vec α) (hs : u.size = v.size)
    (h : ∀ k, k < u.size → Vec.get u k = Vec.get v k) : u = v := by
  apply Array.ext hs
  intro k hk1 hk2
  have := h k hk1
  simpa [Vec.get, Array.getD_eq_getD_getElem?, hk1, hk2] using this

/-- **C04.e**: the two formalisms return the same curvature matrix and the same data vector -/
theorem formalisms_agree (ds : Dataset α) (objs : List (LinObj α)) (hadm : Admissible ds objs)
    (value : α) :
    Impl.curvatureWT ds objs value = Impl.curvatureMap ds objs value ∧
    Impl.dataVectorWT ds objs = Impl.dataVectorMap ds objs := by
  obtain ⟨c1, c2, c3⟩ := curvature_agree ds objs hadm value
  obtain ⟨d1, d2⟩ := dataVector_agree_inversion ds objs hadm
  have hr : (Impl.curvatureWT ds objs value).r = Impl.totalParams objs := by
    rw [c1]
    unfold Impl.curvatureMap
    rw [(curvatureMapping_spec _ _ _ _ _).1]
    unfold Impl.operatedMappingMatrix Impl.hstack Mat.ofLists
    simp only [Mat.ofFn_c]
    exact operatedList_width ds objs
  have hc : (Impl.curvatureWT ds objs value).c = Impl.totalParams objs := by
    rw [c2]
    unfold Impl.curvatureMap
    rw [(curvatureMapping_spec _ _ _ _ _).2.1]
    unfold Impl.operatedMappingMatrix Impl.hstack Mat.ofLists
    simp only [Mat.ofFn_c]
    exact operatedList_width ds objs
  refine ⟨Mat.ext_get _ _ c1 c2 (fun i j hi hj => c3 i j (by omega) (by omega)), ?_⟩
  exact Vec.ext_get _ _ d1 (fun k hk => d2 k (by rw [dataVectorWT_size] at hk; exact hk))

end Model
