/-
Proofs/NormalEqExtra.lean — (i) the image-plane map of a reconstruction agrees between the formalisms
(`mapped_reconstructed_data`), (ii) `no_regularization_index_list` is the duplicate-free list of the
parameter indices of the objects without regularization.
-/
import Proofs.NormalEqEncodes

namespace Model

variable {α : Type} [Field α] [DecidableEq α]

open Spec

/-- w-tilde route (`mapped_reconstructed_data_via_image_to_pix_unique_from`, then
    `convolve_image_no_blurring`) = mapping route (`mapped_reconstructed_data_via_mapping_matrix_from` on the
    blurred mapping matrix), for any reconstruction `s` of the right length -/
theorem mappedData_agree (fr U : Rows α) (M : Mat α) (hU : Encodes U M) (s : List α)
    (hs : s.length = M.c) (t : Nat) (ht : t < M.r) :
    (Impl.convolveNoBlurring fr (Impl.mappedViaUnique U s).toList).get t
      = (Impl.mappedViaMatrix (Impl.convolveMatrix fr M) s).get t := by
  obtain ⟨u1, u2⟩ := mappedViaUnique_spec U s
  have hlen : (Impl.mappedViaUnique U s).toList.length = M.r := by
    simp only [Vec.toList, Array.length_toList]
    rw [u1, hU.1]
  obtain ⟨c1, c2⟩ := convolveNoBlurring_spec fr (Impl.mappedViaUnique U s).toList
  obtain ⟨b1, b2, b3⟩ := convolveMatrix_spec fr M
  obtain ⟨m1, m2⟩ := mappedViaMatrix_spec (Impl.convolveMatrix fr M) s
  rw [c2 t (by rw [hlen]; exact ht), hlen, m2 t (by rw [b1]; exact ht), hs]
  -- Σ_a P t a (Σ_j M a j s_j) = Σ_j s_j (Σ_a P t a M a j)
  have hrow : ∀ a, a < M.r → vget (Impl.mappedViaUnique U s).toList a
      = sumRange M.c fun j => M.get a j * vget s j := by
    intro a ha
    simp only [vget]
    rw [Vec.toList_getD, u2 a (by rw [hU.1]; exact ha)]
    have := sum_row_reindex (U.getD a []) M.c (fun j => vget s j)
      (fun k hk => by simp [vget, List.getD_eq_getElem?_getD, List.getElem?_eq_none (by omega : s.length ≤ k)])
    rw [this]
    apply sumRange_congr
    intro j hj
    have := hU.2 a j ha hj
    simp only [rowsMat] at this
    rw [this]
    rfl
  have h1 : (sumRange M.r fun a => frameMat fr t a * vget (Impl.mappedViaUnique U s).toList a)
      = sumRange M.r fun a => sumRange M.c fun j => vget s j * (frameMat fr t a * M.get a j) := by
    apply sumRange_congr
    intro a ha
    rw [hrow a ha, ← sumRange_mul_left]
    apply sumRange_congr
    intro j _
    ring
  rw [h1, sumRange_comm]
  apply sumRange_congr
  intro j hj
  rw [b3 t j ht hj, ← sumRange_mul_left]

/-! ### `no_regularization_index_list` -/

/-- the index list as a `flatMap` over the ranged objects -/
def noRegOf (l : List (LinObj α × (Nat × Nat))) : List Nat :=
  l.flatMap fun p => if p.1.hasReg then [] else List.range' p.2.1 (p.2.2 - p.2.1)

theorem noRegIndexList_eq (objs : List (LinObj α)) :
    Impl.noRegIndexList objs = noRegOf (ranged objs 0) := by
  unfold Impl.noRegIndexList
  rw [zip_paramRanges]
  suffices H : ∀ (l : List (LinObj α × (Nat × Nat))) (acc : List Nat),
      l.foldl (fun acc p => if p.1.hasReg then acc else acc ++ List.range' p.2.1 (p.2.2 - p.2.1)) acc
        = acc ++ noRegOf l by
    have := H (ranged objs 0) []
    simpa using this
  intro l
  induction l with
  | nil => intro acc; simp [noRegOf]
  | cons p l ih =>
    intro acc
    rw [List.foldl_cons, ih]
    by_cases h : p.1.hasReg = true
    · simp [noRegOf, h]
    · simp [noRegOf, h]

theorem noRegOf_ranged (l : List (LinObj α)) (s : Nat) :
    (∀ x ∈ noRegOf (ranged l s), s ≤ x ∧ x < s + Impl.totalParams l) ∧
    (noRegOf (ranged l s)).Nodup ∧
    ∀ P o Q li, l = P ++ o :: Q → li < o.params →
      ((s + Impl.totalParams P + li) ∈ noRegOf (ranged l s) ↔ o.hasReg = false) := by
  induction l generalizing s with
  | nil =>
    refine ⟨by simp [noRegOf, ranged], by simp [noRegOf, ranged], ?_⟩
    intro P o Q li h
    exact absurd h (by simp)
  | cons o' l' ih =>
    obtain ⟨i1, i2, i3⟩ := ih (s + o'.params)
    have hcons : noRegOf (ranged (o' :: l') s)
        = (if o'.hasReg then [] else List.range' s o'.params) ++ noRegOf (ranged l' (s + o'.params)) := by
      simp [noRegOf, ranged]
    rw [hcons, totalParams_cons]
    have hfirst : ∀ x ∈ (if o'.hasReg then [] else List.range' s o'.params),
        s ≤ x ∧ x < s + o'.params := by
      intro x hx
      by_cases h : o'.hasReg = true
      · simp [h] at hx
      · simp only [h, Bool.false_eq_true, ↓reduceIte, List.mem_range'_1] at hx
        exact hx
    refine ⟨?_, ?_, ?_⟩
    · intro x hx
      rcases List.mem_append.mp hx with h | h
      · have := hfirst x h; omega
      · have := i1 x h; omega
    · rw [List.nodup_append]
      refine ⟨?_, i2, ?_⟩
      · by_cases h : o'.hasReg = true
        · simp [h]
        · simp only [h, Bool.false_eq_true, ↓reduceIte]
          exact List.nodup_range'
      · intro a ha b hb hab
        have h1 := hfirst a ha
        have h2 := i1 b hb
        omega
    · intro P o Q li h hli
      cases P with
      | nil =>
        simp only [List.nil_append, List.cons.injEq] at h
        obtain ⟨rfl, rfl⟩ := h
        rw [totalParams_nil, Nat.add_zero, List.mem_append]
        constructor
        · rintro (h | h)
          · by_cases hr : o'.hasReg = true
            · simp [hr] at h
            · simpa using hr
          · have := i1 _ h; omega
        · intro hr
          left
          simp only [hr, Bool.false_eq_true, ↓reduceIte, List.mem_range'_1]
          omega
      | cons q P' =>
        simp only [List.cons_append, List.cons.injEq] at h
        obtain ⟨rfl, rfl⟩ := h
        rw [totalParams_cons, List.mem_append]
        have := i3 P' o Q li rfl hli
        have e : s + (o'.params + Impl.totalParams P') + li
            = s + o'.params + Impl.totalParams P' + li := by omega
        rw [e]
        constructor
        · rintro (h | h)
          · have := hfirst _ h; omega
          · exact this.mp h
        · intro hr
          exact Or.inr (this.mpr hr)

end Model
