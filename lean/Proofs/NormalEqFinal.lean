/-
Proofs/NormalEqFinal.lean — clause C04.e at the inversion level: for every ordered list of linear objects,
`InversionImagingWTilde` and `InversionImagingMapping` return the same data vector and the same curvature
matrix, entry by entry.
-/
import Proofs.NormalEqCurvWT
import Proofs.NormalEqMirror

namespace Model

variable {α : Type} [Field α] [LinearOrder α] [IsStrictOrderedRing α]

open Spec

/-! ### `curvature_matrix_mirrored_from` -/

theorem mirrored_spec (C : Mat α) (n : Nat) (hr : C.r = n) (hc : C.c = n) :
    (Impl.mirrored C).r = n ∧ (Impl.mirrored C).c = n ∧
    ∀ i j, i < n → j < n → (Impl.mirrored C).get i j
      = if C.get (min i j) (max i j) ≠ 0 then C.get (min i j) (max i j)
        else C.get (max i j) (min i j) := by
  refine ⟨?_, ?_, fun i j hi hj => mirroredLoop_get C n hr hc i j hi hj⟩
  · unfold Impl.mirrored
    rw [forYX_eq_foldl, hr, hc]
    exact (mirFold_untouched C n (pixels n n) (Mat.zeros n n) rfl rfl).1
  · unfold Impl.mirrored
    rw [forYX_eq_foldl, hr, hc]
    exact (mirFold_untouched C n (pixels n n) (Mat.zeros n n) rfl rfl).2.1

/-- if every entry of `C` is either the target value or an unwritten zero whose transposed entry is the
    target value, mirroring yields the (symmetric) target -/
theorem mirrored_eq_target (C : Mat α) (n : Nat) (hr : C.r = n) (hc : C.c = n) (T : Nat → Nat → α)
    (hsym : ∀ a b, a < n → b < n → T a b = T b a)
    (hC : ∀ a b, a < n → b < n → C.get a b = T a b ∨ (C.get a b = 0 ∧ C.get b a = T b a))
    (a b : Nat) (ha : a < n) (hb : b < n) : (Impl.mirrored C).get a b = T a b := by
  rw [(mirrored_spec C n hr hc).2.2 a b ha hb]
  have hlo : min a b < n := by omega
  have hhi : max a b < n := by omega
  have hT : T a b = T (min a b) (max a b) := by
    rcases Nat.le_total a b with h | h
    · rw [Nat.min_eq_left h, Nat.max_eq_right h]
    · rw [Nat.min_eq_right h, Nat.max_eq_left h, hsym a b ha hb]
  rw [hT]
  rcases hC (min a b) (max a b) hlo hhi with h1 | ⟨h1, h2⟩
  · by_cases hz : C.get (min a b) (max a b) = 0
    · rw [if_neg (not_not.mpr hz)]
      rcases hC (max a b) (min a b) hhi hlo with g1 | ⟨g1, g2⟩
      · rw [g1, hsym _ _ hhi hlo]
      · rw [g1, ← h1, hz]
    · rw [if_pos hz, h1]
  · rw [if_neg (not_not.mpr h1), h2, hsym _ _ hhi hlo]

/-! ### every parameter index belongs to exactly one object -/

theorem exists_decomp (objs : List (LinObj α)) (a : Nat) (ha : a < Impl.totalParams objs) :
    ∃ P o Q li, objs = P ++ o :: Q ∧ a = Impl.totalParams P + li ∧ li < o.params := by
  induction objs generalizing a with
  | nil => simp [totalParams_nil] at ha
  | cons o' l ih =>
    rw [totalParams_cons] at ha
    by_cases h : a < o'.params
    · exact ⟨[], o', l, a, rfl, by simp [totalParams_nil], h⟩
    · obtain ⟨P, o, Q, li, h1, h2, h3⟩ := ih (a - o'.params) (by omega)
      refine ⟨o' :: P, o, Q, li, by rw [h1]; rfl, ?_, h3⟩
      rw [totalParams_cons]; omega

/-! ### the target: `Bᵀ N⁻¹ B` for the stacked blurred mapping matrix -/

theorem normalBlock_symm (B0 B1 : Mat α) (noise : List α) (n p0 p1 : Nat) :
    normalBlock B0 B1 noise n p0 p1 = normalBlock B1 B0 noise n p1 p0 := by
  unfold normalBlock
  apply sumRange_congr
  intro d _
  ring

/-- the hypotheses of the property on the dataset and on the mapper tables -/
structure Admissible (ds : Dataset α) (objs : List (LinObj α)) : Prop where
  footprint : Footprint ds.mask ds.kernel
  noise_pos : ∀ k, k < (Spec.unmaskedPixels ds.mask).length → 0 < vget ds.noise k
  encodes : ∀ t b, LinObj.mapper t b ∈ objs →
    Encodes (Impl.uniqueFrom t (Spec.unmaskedPixels ds.mask).length)
      (Impl.mappingMatrixFrom t (Spec.unmaskedPixels ds.mask).length)

theorem len_eq (ds : Dataset α) :
    (Impl.nativeForSlim ds.mask).length = (Spec.unmaskedPixels ds.mask).length := by
  rw [nativeForSlim_eq]

/-- the block written for the ordered pair `(o, o')`, when one is written, is `B_oᵀ N⁻¹ B_o'` -/
theorem blockWT_agree (ds : Dataset α) (objs : List (LinObj α)) (hadm : Admissible ds objs)
    (i j : Nat) (o o' : LinObj α) (ho : o ∈ objs) (ho' : o' ∈ objs) (hsame : i = j → o = o')
    (blk : Mat α)
    (hb : Impl.blockWT ds (Impl.wTildePreloadOf ds) (Impl.frames ds.mask ds.kernel)
      (Impl.nativeForSlim ds.mask).length i j o o' = some blk)
    (li lj : Nat) (hli : li < o.params) (hlj : lj < o'.params) :
    blk.get li lj
      = normalBlock (opOf ds o) (opOf ds o') ds.noise (Impl.nativeForSlim ds.mask).length li lj := by
  have hN := len_eq ds
  have hpre : Impl.wTildePreloadOf ds
      = Impl.wTildePreload ds.mask.w (Impl.nativeFrom ds.mask ds.noise 0) ds.kernel
          (Spec.unmaskedPixels ds.mask) := by
    unfold Impl.wTildePreloadOf; rw [nativeForSlim_eq]
  cases o with
  | mapper t b =>
    have hE := hadm.encodes t b ho
    have hsh := mappingMatrixFrom_shape t (Spec.unmaskedPixels ds.mask).length
    cases o' with
    | mapper t' b' =>
      have hE' := hadm.encodes t' b' ho'
      have hsh' := mappingMatrixFrom_shape t' (Spec.unmaskedPixels ds.mask).length
      simp only [Impl.blockWT] at hb
      by_cases hij : i = j
      · rw [if_pos hij] at hb
        cases hb
        have hoo := hsame hij
        cases hoo
        have := curvatureFromPreload_agree ds.mask ds.kernel ds.noise hadm.footprint hadm.noise_pos
          (Impl.uniqueFrom t (Spec.unmaskedPixels ds.mask).length)
          (Impl.mappingMatrixFrom t (Spec.unmaskedPixels ds.mask).length) hE hsh.1 li lj
          (by rw [hsh.2]; exact hli) (by rw [hsh.2]; exact hlj)
        rw [hsh.2] at this
        simp only [opOf, Impl.mappingMatrixOf, hN, hpre]
        exact this
      · rw [if_neg hij] at hb
        by_cases hlt : i < j
        · rw [if_pos hlt] at hb
          cases hb
          have := offDiagBlock_agree ds.mask ds.kernel ds.noise hadm.footprint hadm.noise_pos
            (Impl.uniqueFrom t (Spec.unmaskedPixels ds.mask).length)
            (Impl.uniqueFrom t' (Spec.unmaskedPixels ds.mask).length)
            (Impl.mappingMatrixFrom t (Spec.unmaskedPixels ds.mask).length)
            (Impl.mappingMatrixFrom t' (Spec.unmaskedPixels ds.mask).length) hE hE' hsh.1 hsh'.1 li lj
            (by rw [hsh.2]; exact hli) (by rw [hsh'.2]; exact hlj)
          rw [hsh.2, hsh'.2] at this
          simp only [opOf, Impl.mappingMatrixOf, hN, hpre]
          exact this
        · rw [if_neg hlt] at hb
          cases hb
    | funcList p' M' b' =>
      simp only [Impl.blockWT] at hb
      cases hb
      have hBf := convolveMatrix_spec (Impl.frames ds.mask ds.kernel)
        (Impl.mappingMatrixOf (Impl.nativeForSlim ds.mask).length (LinObj.funcList p' M' b'))
      have hsf := mappingMatrixOf_shape (α := α) (Impl.nativeForSlim ds.mask).length
        (LinObj.funcList p' M' b')
      have := mapperFuncBlock_agree ds.mask ds.kernel ds.noise
        (Impl.uniqueFrom t (Spec.unmaskedPixels ds.mask).length)
        (Impl.mappingMatrixFrom t (Spec.unmaskedPixels ds.mask).length)
        (Impl.convolveMatrix (Impl.frames ds.mask ds.kernel)
          (Impl.mappingMatrixOf (Impl.nativeForSlim ds.mask).length (LinObj.funcList p' M' b')))
        hE hsh.1 (by rw [hBf.1, hsf.1, hN]) li lj (by rw [hsh.2]; exact hli)
        (by rw [hBf.2.1, hsf.2]; exact hlj)
      rw [hsh.2] at this
      simp only [opOf, Impl.mappingMatrixOf, hN] at this ⊢
      exact this
  | funcList p M b =>
    cases o' with
    | mapper t' b' => simp [Impl.blockWT] at hb
    | funcList p' M' b' =>
      simp only [Impl.blockWT] at hb
      cases hb
      have h0 := opOf_shape ds (LinObj.funcList p M b)
      have h1 := opOf_shape ds (LinObj.funcList p' M' b')
      rw [Mat.get_ofFn, if_pos ⟨by rw [← opOf, h0.2]; exact hli, by rw [← opOf, h1.2]; exact hlj⟩]
      rfl

/-- where the code writes no block, it writes the transposed one -/
theorem blockWT_none_swap (ds : Dataset α) (pre fr : Rows α) (n i j : Nat) (o o' : LinObj α)
    (h : Impl.blockWT ds pre fr n i j o o' = none) :
    ∃ blk, Impl.blockWT ds pre fr n j i o' o = some blk := by
  cases o with
  | mapper t b =>
    cases o' with
    | mapper t' b' =>
      simp only [Impl.blockWT] at h ⊢
      by_cases hij : i = j
      · rw [if_pos hij] at h; cases h
      · rw [if_neg hij] at h
        by_cases hlt : i < j
        · rw [if_pos hlt] at h; cases h
        · have h1 : ¬ j = i := fun h' => hij h'.symm
          have h2 : j < i := by omega
          rw [if_neg h1, if_pos h2]
          exact ⟨_, rfl⟩
    | funcList p' M' b' => simp [Impl.blockWT] at h
  | funcList p M b =>
    cases o' with
    | mapper t' b' => exact ⟨_, rfl⟩
    | funcList p' M' b' => simp [Impl.blockWT] at h

theorem decomp_same (objs P : List (LinObj α)) (o : LinObj α) (Q P' : List (LinObj α))
    (o' : LinObj α) (Q' : List (LinObj α)) (h : objs = P ++ o :: Q) (h' : objs = P' ++ o' :: Q')
    (hlen : P.length = P'.length) : o = o' := by
  rw [h] at h'
  have := List.append_inj h' hlen
  exact (List.cons.inj this.2).1

/-- entries of the assembled (pre-mirroring) w-tilde matrix versus the target -/
theorem assembledWT_entry (ds : Dataset α) (objs : List (LinObj α)) (hadm : Admissible ds objs)
    (a b : Nat) (ha : a < Impl.totalParams objs) (hb : b < Impl.totalParams objs) :
    let B := Impl.operatedMappingMatrix ds objs
    let N := (Impl.nativeForSlim ds.mask).length
    (assembledWT ds objs).get a b = normalBlock B B ds.noise N a b ∨
      ((assembledWT ds objs).get a b = 0 ∧
        (assembledWT ds objs).get b a = normalBlock B B ds.noise N b a) := by
  intro B N
  obtain ⟨P, o, Q, li, h, rfl, hli⟩ := exists_decomp objs a ha
  obtain ⟨P', o', Q', lj, h', rfl, hlj⟩ := exists_decomp objs b hb
  have ho : o ∈ objs := by rw [h]; simp
  have ho' : o' ∈ objs := by rw [h']; simp
  have hBo := operatedMappingMatrix_block ds P o Q
  have hBo' := operatedMappingMatrix_block ds P' o' Q'
  rw [← h] at hBo
  rw [← h'] at hBo'
  -- the target in block coordinates
  have hT : normalBlock B B ds.noise N (Impl.totalParams P + li) (Impl.totalParams P' + lj)
      = normalBlock (opOf ds o) (opOf ds o') ds.noise N li lj := by
    unfold normalBlock
    apply sumRange_congr
    intro d hd
    rw [hBo.2.2 d li hd hli, hBo'.2.2 d lj hd hlj]
  have hT' : normalBlock B B ds.noise N (Impl.totalParams P' + lj) (Impl.totalParams P + li)
      = normalBlock (opOf ds o') (opOf ds o) ds.noise N lj li := by
    unfold normalBlock
    apply sumRange_congr
    intro d hd
    rw [hBo.2.2 d li hd hli, hBo'.2.2 d lj hd hlj]
  have e1 := (assembledWT_block ds objs P o Q P' o' Q' h h' li lj hli hlj).2.2
  have e2 := (assembledWT_block ds objs P' o' Q' P o Q h' h lj li hlj hli).2.2
  cases hb1 : Impl.blockWT ds (Impl.wTildePreloadOf ds) (Impl.frames ds.mask ds.kernel)
      (Impl.nativeForSlim ds.mask).length P.length P'.length o o' with
  | some blk =>
    left
    rw [e1, hb1, hT]
    exact blockWT_agree ds objs hadm P.length P'.length o o' ho ho'
      (fun hl => decomp_same objs P o Q P' o' Q' h h' hl) blk hb1 li lj hli hlj
  | none =>
    right
    obtain ⟨blk, hb2⟩ := blockWT_none_swap ds _ _ _ _ _ _ _ hb1
    refine ⟨by rw [e1, hb1], ?_⟩
    rw [e2, hb2, hT']
    exact blockWT_agree ds objs hadm P'.length P.length o' o ho' ho
      (fun hl => decomp_same objs P' o' Q' P o Q h' h hl) blk hb2 lj li hlj hli

/-- **C04.e, curvature matrix**: for every ordered object list the w-tilde inversion and the mapping
    inversion return the same curvature matrix. -/
theorem curvature_agree (ds : Dataset α) (objs : List (LinObj α)) (hadm : Admissible ds objs)
    (value : α) :
    (Impl.curvatureWT ds objs value).r = (Impl.curvatureMap ds objs value).r ∧
    (Impl.curvatureWT ds objs value).c = (Impl.curvatureMap ds objs value).c ∧
    ∀ a b, a < Impl.totalParams objs → b < Impl.totalParams objs →
      (Impl.curvatureWT ds objs value).get a b = (Impl.curvatureMap ds objs value).get a b := by
  have hA : (assembledWT ds objs).r = Impl.totalParams objs ∧
      (assembledWT ds objs).c = Impl.totalParams objs := by
    have hcoh : ∀ pi ∈ (ranged objs 0).zipIdx, ∀ pj ∈ (ranged objs 0).zipIdx,
        pi.2 = pj.2 → pi.1.1 = pj.1.1 := by
      intro pi hpi pj hpj hpos
      rw [zipIdx_pos_inj _ 0 pi pj hpi hpj hpos]
    have := outerWT_untouched ds (Impl.wTildePreloadOf ds) (Impl.frames ds.mask ds.kernel)
      (Impl.nativeForSlim ds.mask).length (ranged objs 0).zipIdx (ranged objs 0).zipIdx
      (Mat.zeros (Impl.totalParams objs) (Impl.totalParams objs)) hcoh
    exact ⟨this.1, this.2.1⟩
  have hBc : (Impl.operatedMappingMatrix ds objs).c = Impl.totalParams objs := by
    unfold Impl.operatedMappingMatrix Impl.hstack Mat.ofLists
    simp only [Mat.ofFn_c]
    exact operatedList_width ds objs
  have hBr : (Impl.operatedMappingMatrix ds objs).r = (Impl.nativeForSlim ds.mask).length := rfl
  have hM := mirrored_spec (assembledWT ds objs) (Impl.totalParams objs) hA.1 hA.2
  have hmir : ∀ a b, a < Impl.totalParams objs → b < Impl.totalParams objs →
      (Impl.mirrored (assembledWT ds objs)).get a b
        = normalBlock (Impl.operatedMappingMatrix ds objs) (Impl.operatedMappingMatrix ds objs)
            ds.noise (Impl.nativeForSlim ds.mask).length a b :=
    fun a b ha hb => mirrored_eq_target (assembledWT ds objs) (Impl.totalParams objs) hA.1 hA.2 _
      (fun a b _ _ => normalBlock_symm _ _ _ _ a b)
      (fun a b ha hb => assembledWT_entry ds objs hadm a b ha hb) a b ha hb
  have hmap := curvatureMapping_spec (Impl.operatedMappingMatrix ds objs) ds.noise true
    (Impl.noRegIndexList objs) value
  rw [curvatureWT_eq]
  unfold Impl.curvatureMap
  by_cases hn : (Impl.noRegIndexList objs).length > 0
  · rw [if_pos hn]
    obtain ⟨d1, d2, d3⟩ := addToDiag_spec (Impl.mirrored (assembledWT ds objs)) value
      (Impl.noRegIndexList objs)
    refine ⟨by rw [d1, hM.1, hmap.1, hBc], by rw [d2, hM.2.1, hmap.2.1, hBc],
      fun a b ha hb => ?_⟩
    rw [d3 a b (by rw [hM.1]; exact ha) (by rw [hM.2.1]; exact hb), hmir a b ha hb,
      hmap.2.2 a b (by rw [hBc]; exact ha) (by rw [hBc]; exact hb), if_pos rfl, hBr]
    rfl
  · rw [if_neg hn]
    have hnil : Impl.noRegIndexList objs = [] := by
      cases hl : Impl.noRegIndexList objs with
      | nil => rfl
      | cons x l => rw [hl] at hn; simp at hn
    refine ⟨by rw [hM.1, hmap.1, hBc], by rw [hM.2.1, hmap.2.1, hBc],
      fun a b ha hb => ?_⟩
    rw [hmir a b ha hb, hmap.2.2 a b (by rw [hBc]; exact ha) (by rw [hBc]; exact hb), if_pos rfl,
      hnil, hBr]
    simp [sum_nil, normalBlock]

/-- **C04.e, data vector** -/
theorem dataVector_agree_inversion (ds : Dataset α) (objs : List (LinObj α))
    (hadm : Admissible ds objs) :
    (Impl.dataVectorWT ds objs).size = (Impl.dataVectorMap ds objs).size ∧
    ∀ a, a < Impl.totalParams objs →
      (Impl.dataVectorWT ds objs).get a = (Impl.dataVectorMap ds objs).get a := by
  have hBc : (Impl.operatedMappingMatrix ds objs).c = Impl.totalParams objs := by
    unfold Impl.operatedMappingMatrix Impl.hstack Mat.ofLists
    simp only [Mat.ofFn_c]
    exact operatedList_width ds objs
  refine ⟨?_, fun a ha => ?_⟩
  · rw [dataVectorWT_size]
    unfold Impl.dataVectorMap
    rw [(dataVectorMapping_spec _ _ _).1, hBc]
  · obtain ⟨P, o, Q, li, h, rfl, hli⟩ := exists_decomp objs a ha
    subst h
    rw [dataVectorWT_block ds P o Q li hli, dataVectorMap_block ds P o Q li hli]
    have hN := len_eq ds
    cases o with
    | mapper t b =>
      have hE := hadm.encodes t b (by simp)
      have hsh := mappingMatrixFrom_shape t (Spec.unmaskedPixels ds.mask).length
      have := dataVector_agree ds.mask ds.kernel ds.data ds.noise hadm.footprint hadm.noise_pos
        (Impl.uniqueFrom t (Spec.unmaskedPixels ds.mask).length)
        (Impl.mappingMatrixFrom t (Spec.unmaskedPixels ds.mask).length) hE hsh.1 li
        (by rw [hsh.2]; exact hli)
      rw [hsh.2] at this
      simp only [dvBlockWT, Impl.wTildeDataOf, hN, nativeForSlim_eq, opOf, Impl.mappingMatrixOf]
      rw [this, (dataVectorMapping_spec _ _ _).2 li
        (by rw [(convolveMatrix_spec _ _).2.1, hsh.2]; exact hli),
        (convolveMatrix_spec _ _).1, hsh.1]
    | funcList p M b =>
      simp only [dvBlockWT, opOf]
      rw [(dataVectorMapping_spec _ _ _).2 li (by
        rw [(convolveMatrix_spec _ _).2.1]; exact hli), (convolveMatrix_spec _ _).1]
      rfl

end Model
