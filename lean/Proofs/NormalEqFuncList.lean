/-
Proofs/NormalEqFuncList.lean — refinement lemmas `Impl = Spec` for Model/NormalEqFuncList.lean (property C04):
  * `wTildeCurvatureDense_get / _spec`: `w_tilde_curvature_imaging_from` is the symmetric matrix whose entry
    `(a, b)` is `w_tilde_curvature_value_from(idx[min a b], idx[max a b])`, hence `W = Pᵀ N⁻¹ P` (`Spec.wTilde`);
  * `dataLinearFuncMatrix_spec`: `data_linear_func_matrix[d, l] = Σ_{(t,k) ∈ frame d} k · cw[t, l]`;
  * `offDiagViaDataLinearFunc_spec`: `off_diag = Mᵀ · D`;
  * `offDiag_preloaded_eq_direct`: the preloaded route (`data_linear_func_matrix_from` then
    `curvature_matrix_off_diags_via_data_linear_func_matrix_from`) equals the direct
    `curvature_matrix_off_diags_via_mapper_and_linear_func_curvature_vector_from` entry by entry;
  * `…P_eq`: the loops over the stored arrays = the loops over the ragged rows they encode.
-/
import Model.NormalEqFuncList
import Proofs.NormalEqPadded

namespace Model

open Spec Impl

section Field
variable {α : Type} [Field α]

/-- `data_linear_func_matrix[d, l] = Σ_{(t, k) ∈ frame d} k · cw[t, l]` -/
theorem dataLinearFuncMatrix_spec (cw : Mat α) (fr : Rows α) :
    (Impl.dataLinearFuncMatrix cw fr).r = cw.r ∧ (Impl.dataLinearFuncMatrix cw fr).c = cw.c ∧
    ∀ d l, d < cw.r → l < cw.c → (Impl.dataLinearFuncMatrix cw fr).get d l
      = Spec.dataLinearFuncMatrix (fun t l => cw.get t l) fr d l := by
  have h1 : ∀ (d0 : Nat) (fe : Nat × α),
      Additive (fun (D : Mat α) (k : Nat × Nat) => D.get k.1 k.2) (fun D => D.r = cw.r ∧ D.c = cw.c)
        (fun k => k.1 < cw.r ∧ k.2 < cw.c)
        (fun D (l : Nat) => D.add d0 l (fe.2 * cw.get fe.1 l))
        (fun l k => if k.1 = d0 ∧ k.2 = l then fe.2 * cw.get fe.1 l else 0) :=
    fun d0 fe => Mat.additive_add cw.r cw.c (fun _ => d0) (fun l : Nat => l) _
  have h2 := fun (d0 : Nat) => Additive.nest (fun _ : Nat × α => List.range cw.c) (h1 d0)
  have h3 := (Additive.nest (fun d0 : Nat => fr.getD d0 []) h2).foldl (List.range cw.r)
    (Mat.zeros cw.r cw.c) ⟨rfl, rfl⟩
  refine ⟨h3.1.1, h3.1.2, fun d l hd hl => ?_⟩
  simp only [Impl.dataLinearFuncMatrix]
  rw [h3.2 (d, l) ⟨hd, hl⟩, Mat.get_zeros, zero_add]
  -- Σ_{d0} Σ_{fe ∈ fr[d0]} Σ_{l'} [d = d0 ∧ l = l'] fe.2 * cw fe.1 l'
  have hfe : ∀ (d0 : Nat) (fe : Nat × α),
      Model.sum ((List.range cw.c).map fun l' =>
        if d = d0 ∧ l = l' then fe.2 * cw.get fe.1 l' else 0)
      = if d = d0 then fe.2 * cw.get fe.1 l else 0 := by
    intro d0 fe
    by_cases hdd : d = d0
    · have := sumRange_single' cw.c l (fun l' => fe.2 * cw.get fe.1 l')
      rw [if_pos hl, sumRange_def] at this
      rw [if_pos hdd, ← this]
      apply sum_map_congr
      intro l' _
      simp [hdd]
    · rw [if_neg hdd]
      apply sum_map_eq_zero
      intro l' _
      simp [hdd]
  have hd0 : ∀ d0 : Nat,
      Model.sum ((fr.getD d0 []).map fun fe => Model.sum ((List.range cw.c).map fun l' =>
        if d = d0 ∧ l = l' then fe.2 * cw.get fe.1 l' else 0))
      = if d = d0 then Spec.dataLinearFuncMatrix (fun t l => cw.get t l) fr d0 l else 0 := by
    intro d0
    rw [sum_map_congr _ _ _ (fun fe _ => hfe d0 fe)]
    by_cases hdd : d = d0
    · simp only [if_pos hdd, Spec.dataLinearFuncMatrix]
    · simp only [if_neg hdd]
      exact sum_map_eq_zero _ _ (fun _ _ => rfl)
  have := sumRange_single' cw.r d (fun d0 => Spec.dataLinearFuncMatrix (fun t l => cw.get t l) fr d0 l)
  rw [if_pos hd] at this
  rw [← this, sumRange_def]
  apply sum_map_congr
  intro d0 _
  exact hd0 d0

/-- `off_diag[p, l] = Σ_d M[d, p] · D[d, l]` (`M = rowsMat U`) -/
theorem offDiagViaDataLinearFunc_spec (D : Mat α) (U : Rows α) (n : Nat) :
    (Impl.offDiagViaDataLinearFunc D U n).r = n ∧ (Impl.offDiagViaDataLinearFunc D U n).c = D.c ∧
    ∀ p l, p < n → l < D.c → (Impl.offDiagViaDataLinearFunc D U n).get p l
      = Spec.offDiagViaDataLinearFunc (fun d l => D.get d l) U p l := by
  have h1 : ∀ (d0 : Nat) (e0 : Nat × α),
      Additive (fun (F : Mat α) (k : Nat × Nat) => F.get k.1 k.2) (fun F => F.r = n ∧ F.c = D.c)
        (fun k => k.1 < n ∧ k.2 < D.c)
        (fun F (l : Nat) => F.add e0.1 l (D.get d0 l * e0.2))
        (fun l k => if k.1 = e0.1 ∧ k.2 = l then D.get d0 l * e0.2 else 0) :=
    fun d0 e0 => Mat.additive_add n D.c (fun _ => e0.1) (fun l : Nat => l) _
  have h2 := fun (d0 : Nat) => Additive.nest (fun _ : Nat × α => List.range D.c) (h1 d0)
  have h3 := (Additive.nest (fun d0 : Nat => U.getD d0 []) h2).foldl (List.range U.length)
    (Mat.zeros n D.c) ⟨rfl, rfl⟩
  refine ⟨h3.1.1, h3.1.2, fun p l hp hl => ?_⟩
  simp only [Impl.offDiagViaDataLinearFunc]
  rw [h3.2 (p, l) ⟨hp, hl⟩, Mat.get_zeros, zero_add]
  unfold Spec.offDiagViaDataLinearFunc
  rw [sumRange_def]
  apply sum_map_congr
  intro d0 _
  have he : ∀ e0 : Nat × α,
      Model.sum ((List.range D.c).map fun l' =>
        if p = e0.1 ∧ l = l' then D.get d0 l' * e0.2 else 0)
      = (if e0.1 = p then e0.2 else 0) * D.get d0 l := by
    intro e0
    by_cases hpe : e0.1 = p
    · have := sumRange_single' D.c l (fun l' => D.get d0 l' * e0.2)
      rw [if_pos hl, sumRange_def] at this
      rw [if_pos hpe, mul_comm, ← this]
      apply sum_map_congr
      intro l' _
      simp [hpe]
    · rw [if_neg hpe, zero_mul]
      apply sum_map_eq_zero
      intro l' _
      have : ¬ p = e0.1 := fun h => hpe h.symm
      simp [this]
  rw [sum_map_congr _ _ _ (fun e0 _ => he e0), sum_map_mul_right]
  rfl

variable [DecidableEq α]

/-- the preloaded route equals the direct one: with `D = data_linear_func_matrix_from(cw, frames)`,
    `curvature_matrix_off_diags_via_data_linear_func_matrix_from(D, U)` and
    `curvature_matrix_off_diags_via_mapper_and_linear_func_curvature_vector_from(U, cw, frames)` have the
    same entries (one row of the curvature weights per data pixel). -/
theorem offDiag_preloaded_eq_direct (U : Rows α) (n : Nat) (cw : Mat α) (fr : Rows α)
    (hU : U.length ≤ cw.r) :
    ∀ p l, p < n → l < cw.c →
      (Impl.offDiagViaDataLinearFunc (Impl.dataLinearFuncMatrix cw fr) U n).get p l
        = (Impl.offDiagMapperFunc U n cw fr).get p l := by
  intro p l hp hl
  obtain ⟨d1, d2, d3⟩ := dataLinearFuncMatrix_spec cw fr
  obtain ⟨_, _, o3⟩ := offDiagViaDataLinearFunc_spec (Impl.dataLinearFuncMatrix cw fr) U n
  rw [o3 p l hp (by rw [d2]; exact hl), (offDiagMapperFunc_spec U n cw fr).2.2 p l hp hl]
  unfold Spec.offDiagViaDataLinearFunc
  -- D[d, l] = Σ_t frameMat fr t d * cw[t, l]
  have hD : ∀ d, d < U.length → (Impl.dataLinearFuncMatrix cw fr).get d l
      = sumRange cw.r fun t => frameMat fr t d * cw.get t l := by
    intro d hd
    rw [d3 d l (by omega) hl]
    unfold Spec.dataLinearFuncMatrix
    rw [sum_row_reindex (fr.getD d []) cw.r (fun t => cw.get t l)
      (fun t ht => Mat.get_of_not_lt cw t l (by omega))]
    rfl
  show sumRange U.length (fun d => rowsMat U d p * (Impl.dataLinearFuncMatrix cw fr).get d l) = _
  rw [sumRange_congr _ _ _ (fun d hd => by rw [hD d hd, ← sumRange_mul_left])]
  rw [sumRange_comm U.length cw.r (fun d t => rowsMat U d p * (frameMat fr t d * cw.get t l))]
  apply sumRange_congr
  intro t _
  rw [← sumRange_mul_right]
  apply sumRange_congr
  intro d _
  ring

end Field

/-! ### the dense w-tilde -/
section Ordered
variable {α : Type} [Field α] [LinearOrder α] [IsStrictOrderedRing α]

/-- entry `(a, b)` of `w_tilde_curvature_imaging_from` is the value of the ordered pair
    `(min a b, max a b)`: the first nest fills the upper triangle, the second mirrors it. -/
theorem wTildeCurvatureDense_get (w : Nat) (noiseNative : List α) (K : Kernel α)
    (idx : List (Nat × Nat)) :
    (Impl.wTildeCurvatureDense w noiseNative K idx).r = idx.length ∧
    (Impl.wTildeCurvatureDense w noiseNative K idx).c = idx.length ∧
    ∀ a b, a < idx.length → b < idx.length →
      (Impl.wTildeCurvatureDense w noiseNative K idx).get a b
        = Impl.wTildeCurvatureValue w noiseNative K (idx.getD (min a b) (0, 0))
            (idx.getD (max a b) (0, 0)) := by
  unfold Impl.wTildeCurvatureDense
  simp only
  generalize hv : (fun i j : Nat =>
    Impl.wTildeCurvatureValue w noiseNative K (idx.getD i (0, 0)) (idx.getD j (0, 0))) = v
  have hvd : ∀ i j, Impl.wTildeCurvatureValue w noiseNative K (idx.getD i (0, 0)) (idx.getD j (0, 0))
      = v i j := fun i j => by rw [← hv]
  simp only [hvd]
  generalize idx.length = n
  -- first nest: the upper triangle
  have e1 := foldl_upperPairs n (fun (W : Mat α) p => W.add p.1 p.2 (v p.1 p.2)) (Mat.zeros n n)
  simp only at e1
  rw [e1]
  have hA := (Mat.additive_add n n (fun p : Nat × Nat => p.1) (fun p => p.2)
    (fun p => v p.1 p.2)).foldl (upperPairs n) (Mat.zeros n n) ⟨rfl, rfl⟩
  have hW1 : ∀ a b, a < n → b < n →
      ((upperPairs n).foldl (fun (W : Mat α) p => W.add p.1 p.2 (v p.1 p.2)) (Mat.zeros n n)).get a b
        = if (a, b) ∈ upperPairs n then v a b else 0 := by
    intro a b ha hb
    have := hA.2 (a, b) ⟨ha, hb⟩
    simp only at this
    rw [this, Mat.get_zeros, zero_add]
    have hs := sum_map_single (upperPairs n) (nodup_upperPairs n) (a, b) (fun p => v p.1 p.2)
    simp only at hs
    rw [← hs]
    apply sum_map_congr
    intro q _
    by_cases hq : q = (a, b)
    · subst hq; simp
    · have : ¬ (a = q.1 ∧ b = q.2) := by
        rintro ⟨h1, h2⟩
        exact hq (by rw [h1, h2])
      simp [hq, this]
  -- second nest: the mirror
  have e2 := foldl_upperPairs n (fun (W : Mat α) p => W.put p.2 p.1 (W.get p.1 p.2))
    ((upperPairs n).foldl (fun (W : Mat α) p => W.add p.1 p.2 (v p.1 p.2)) (Mat.zeros n n))
  simp only at e2
  rw [e2]
  have hB := symB n (upperPairs n) (fun p hp => (mem_upperPairs.mp hp).1) (nodup_upperPairs n)
    ((upperPairs n).foldl (fun (W : Mat α) p => W.add p.1 p.2 (v p.1 p.2)) (Mat.zeros n n))
    hA.1.1 hA.1.2
  simp only at hB
  refine ⟨hB.1, hB.2.1, fun a b ha hb => ?_⟩
  rw [hB.2.2 a b ha hb]
  by_cases hba : b ≤ a
  · have hm : (b, a) ∈ upperPairs n := mem_upperPairs.mpr ⟨hba, ha⟩
    rw [if_pos hm, hW1 b a hb ha, if_pos hm, Nat.min_eq_right hba, Nat.max_eq_left hba]
  · have hm : ¬ (b, a) ∈ upperPairs n := fun h => hba (mem_upperPairs.mp h).1
    have hm' : (a, b) ∈ upperPairs n := mem_upperPairs.mpr ⟨by omega, hb⟩
    rw [if_neg hm, hW1 a b ha hb, if_pos hm', Nat.min_eq_left (by omega), Nat.max_eq_right (by omega)]

/-- `w_tilde_curvature_imaging_from(noise_native, K, idx) = W = Pᵀ N⁻¹ P` on the unmasked pixels of a mask
    whose kernel footprints stay inside the frame, for a strictly positive noise map. -/
theorem wTildeCurvatureDense_spec (m : Mask) (K : Kernel α) (noise : List α) (hf : Footprint m K)
    (hpos : ∀ k, k < (Spec.unmaskedPixels m).length → 0 < vget noise k)
    (a b : Nat) (ha : a < (Spec.unmaskedPixels m).length) (hb : b < (Spec.unmaskedPixels m).length) :
    (Impl.wTildeCurvatureDense m.w (Impl.nativeFrom m noise 0) K (Spec.unmaskedPixels m)).get a b
      = Spec.wTilde K (Spec.unmaskedPixels m) noise a b := by
  rw [(wTildeCurvatureDense_get m.w _ K _).2.2 a b ha hb]
  by_cases hba : b ≤ a
  · rw [Nat.min_eq_right hba, Nat.max_eq_left hba,
      wTildeCurvatureValue_spec m K noise hf hpos b a hb ha, wTilde_symm]
  · rw [Nat.min_eq_left (by omega), Nat.max_eq_right (by omega),
      wTildeCurvatureValue_spec m K noise hf hpos a b ha hb]

/-! ### the loops over the stored arrays -/

theorem dataLinearFuncMatrixP_eq (cw : Mat α) (f : Padded α) :
    Impl.dataLinearFuncMatrixP cw f = Impl.dataLinearFuncMatrix cw (Padded.toRows f) := by
  unfold Impl.dataLinearFuncMatrixP Impl.dataLinearFuncMatrix
  apply foldl_congr_fun
  intro D d0
  rw [Padded.toRows_getD, List.foldl_map]

theorem offDiagViaDataLinearFuncP_eq (D : Mat α) (p : Padded α) (n : Nat) :
    Impl.offDiagViaDataLinearFuncP D p n = Impl.offDiagViaDataLinearFunc D (Padded.toRows p) n := by
  unfold Impl.offDiagViaDataLinearFuncP Impl.offDiagViaDataLinearFunc
  rw [Padded.toRows_length]
  apply foldl_congr_fun
  intro F d0
  rw [Padded.toRows_getD, List.foldl_map]

end Ordered

end Model
