/-
Proofs/NormalEqInversion.lean — the inversion level: `InversionImagingMapping.data_vector / curvature_matrix`
and `InversionImagingWTilde.data_vector` block by block in object order.
-/
import Proofs.NormalEqAssembly

namespace Model

variable {α : Type} [Field α] [LinearOrder α] [IsStrictOrderedRing α]

open Spec

/-- C04.a at the inversion level, data vector: the entries of object `o` are `B_oᵀ N⁻¹ d` -/
theorem dataVectorMap_block (ds : Dataset α) (pre : List (LinObj α)) (o : LinObj α)
    (post : List (LinObj α)) (li : Nat) (hli : li < o.params) :
    (Impl.dataVectorMap ds (pre ++ o :: post)).get (Impl.totalParams pre + li)
      = sumRange (Impl.nativeForSlim ds.mask).length fun d =>
          vget ds.data d * (opOf ds o).get d li / (vget ds.noise d * vget ds.noise d) := by
  obtain ⟨h1, h2, h3⟩ := operatedMappingMatrix_block ds pre o post
  unfold Impl.dataVectorMap
  have hlt : Impl.totalParams pre + li < (Impl.operatedMappingMatrix ds (pre ++ o :: post)).c := by
    rw [h2, totalParams_append, totalParams_cons]; omega
  rw [(dataVectorMapping_spec _ ds.data ds.noise).2 _ hlt, h1]
  apply sumRange_congr
  intro d hd
  rw [h3 d li hd hli]

/-- C04.a at the inversion level, curvature matrix: the block of the ordered pair of objects `(o, o')` is
    `B_oᵀ N⁻¹ B_o'`, plus the diagonal term of `no_regularization_index_list`. -/
theorem curvatureMap_block (ds : Dataset α) (value : α) (objs pre : List (LinObj α)) (o : LinObj α)
    (post pre' : List (LinObj α)) (o' : LinObj α) (post' : List (LinObj α))
    (h : objs = pre ++ o :: post) (h' : objs = pre' ++ o' :: post')
    (li lj : Nat) (hli : li < o.params) (hlj : lj < o'.params) :
    (Impl.curvatureMap ds objs value).get (Impl.totalParams pre + li) (Impl.totalParams pre' + lj)
      = normalBlock (opOf ds o) (opOf ds o') ds.noise (Impl.nativeForSlim ds.mask).length li lj
        + Model.sum ((Impl.noRegIndexList objs).map fun x =>
            if Impl.totalParams pre + li = x ∧ Impl.totalParams pre' + lj = x then value else 0) := by
  unfold Impl.curvatureMap
  have hb := operatedMappingMatrix_block ds pre o post
  have hb' := operatedMappingMatrix_block ds pre' o' post'
  rw [← h] at hb
  rw [← h'] at hb'
  have hlt : Impl.totalParams pre + li < (Impl.operatedMappingMatrix ds objs).c := by
    rw [hb.2.1, h, totalParams_append, totalParams_cons]; omega
  have hlt' : Impl.totalParams pre' + lj < (Impl.operatedMappingMatrix ds objs).c := by
    rw [hb'.2.1, h', totalParams_append, totalParams_cons]; omega
  rw [(curvatureMapping_spec _ ds.noise true _ value).2.2 _ _ hlt hlt', if_pos rfl, hb.1]
  congr 1
  unfold normalBlock
  apply sumRange_congr
  intro d hd
  rw [hb.2.2 d li hd hli, hb'.2.2 d lj hd hlj]

/-! ### `v[r0:r0+len] = block` -/

theorem vec_get_set (v : Vec α) (i : Nat) (x : α) (k : Nat) :
    Vec.get (v.setIfInBounds i x) k = if k = i ∧ i < v.size then x else Vec.get v k := by
  simp only [Vec.get, Array.getD_eq_getD_getElem?, Array.getElem?_setIfInBounds]
  by_cases h : i = k
  · subst h
    by_cases hs : i < v.size
    · simp [hs]
    · simp [hs]
  · have : ¬ k = i := fun h' => h h'.symm
    simp [h, this]

theorem vec_setBlock_spec (v : Vec α) (r0 : Nat) (blk : Vec α) :
    (Impl.Vec.setBlock v r0 blk).size = v.size ∧
    ∀ k, k < v.size → (Impl.Vec.setBlock v r0 blk).get k
      = if r0 ≤ k ∧ k < r0 + blk.size then blk.get (k - r0) else v.get k := by
  unfold Impl.Vec.setBlock
  suffices H : ∀ n, n ≤ blk.size →
      ((List.range n).foldl (fun v i => v.setIfInBounds (r0 + i) (blk.getD i 0)) v).size = v.size ∧
      ∀ k, k < v.size →
        Vec.get ((List.range n).foldl (fun v i => v.setIfInBounds (r0 + i) (blk.getD i 0)) v) k
          = if r0 ≤ k ∧ k < r0 + n then blk.get (k - r0) else v.get k from H blk.size (le_refl _)
  intro n
  induction n with
  | zero =>
    intro _
    refine ⟨rfl, fun k _ => ?_⟩
    have : ¬ (r0 ≤ k ∧ k < r0 + 0) := by omega
    simp [this]
  | succ n ih =>
    intro hn
    obtain ⟨h1, h2⟩ := ih (by omega)
    rw [List.range_succ, List.foldl_append, List.foldl_cons, List.foldl_nil]
    refine ⟨by rw [Array.size_setIfInBounds, h1], fun k hk => ?_⟩
    rw [vec_get_set, h1, h2 k hk]
    by_cases hkn : k = r0 + n
    · have h3 : k = r0 + n ∧ r0 + n < v.size := ⟨hkn, by omega⟩
      have h4 : r0 ≤ k ∧ k < r0 + (n + 1) := by omega
      have h5 : k - r0 = n := by omega
      rw [if_pos h3, if_pos h4, h5]
      rfl
    · have h3 : ¬ (k = r0 + n ∧ r0 + n < v.size) := fun h => hkn h.1
      rw [if_neg h3]
      by_cases hr : r0 ≤ k ∧ k < r0 + n
      · have : r0 ≤ k ∧ k < r0 + (n + 1) := by omega
        rw [if_pos hr, if_pos this]
      · have : ¬ (r0 ≤ k ∧ k < r0 + (n + 1)) := by omega
        rw [if_neg hr, if_neg this]

/-! ### `InversionImagingWTilde.data_vector` in object order -/

/-- the data-vector block the w-tilde inversion computes for one object -/
def dvBlockWT (ds : Dataset α) (o : LinObj α) : Vec α :=
  match o with
  | .mapper t _ =>
    Impl.dataVectorWTilde (Impl.wTildeDataOf ds)
      (Impl.uniqueFrom t (Impl.nativeForSlim ds.mask).length) t.pixels
  | .funcList _ _ _ =>
    Impl.dataVectorMapping (Impl.convolveMatrix (Impl.frames ds.mask ds.kernel)
      (Impl.mappingMatrixOf (Impl.nativeForSlim ds.mask).length o)) ds.data ds.noise

theorem dvBlockWT_size (ds : Dataset α) (o : LinObj α) : (dvBlockWT ds o).size = o.params := by
  cases o with
  | mapper t b => exact (dataVectorWTilde_spec _ _ _).1
  | funcList p M b =>
    simp only [dvBlockWT]
    rw [(dataVectorMapping_spec _ _ _).1, (convolveMatrix_spec _ _).2.1]
    rfl

theorem dataVectorWT_eq (ds : Dataset α) (objs : List (LinObj α)) :
    Impl.dataVectorWT ds objs
      = (ranged objs 0).foldl (fun dv p => Impl.Vec.setBlock dv p.2.1 (dvBlockWT ds p.1))
          (Vec.zeros (Impl.totalParams objs)) := by
  unfold Impl.dataVectorWT
  rw [zip_paramRanges]
  dsimp only
  congr 1
  funext dv p
  obtain ⟨o, r⟩ := p
  cases o <;> rfl

theorem fold_ranged_vec (ds : Dataset α) (l : List (LinObj α)) (s : Nat) (v : Vec α)
    (hsz : s + Impl.totalParams l ≤ v.size) :
    let R := (ranged l s).foldl (fun dv p => Impl.Vec.setBlock dv p.2.1 (dvBlockWT ds p.1)) v
    R.size = v.size ∧ (∀ k, k < s → R.get k = v.get k) ∧
    ∀ pre o post li, l = pre ++ o :: post → li < o.params →
      R.get (s + Impl.totalParams pre + li) = (dvBlockWT ds o).get li := by
  induction l generalizing s v with
  | nil =>
    refine ⟨rfl, fun _ _ => rfl, ?_⟩
    intro pre o post li h
    exact absurd h (by simp)
  | cons o' l' ih =>
    rw [totalParams_cons] at hsz
    obtain ⟨b1, b2⟩ := vec_setBlock_spec v s (dvBlockWT ds o')
    have := ih (s + o'.params) (Impl.Vec.setBlock v s (dvBlockWT ds o')) (by rw [b1]; omega)
    simp only at this
    obtain ⟨i1, i2, i3⟩ := this
    simp only [ranged, List.foldl_cons]
    refine ⟨by rw [i1, b1], fun k hk => ?_, ?_⟩
    · rw [i2 k (by omega)]
      by_cases hv : k < v.size
      · rw [b2 k hv, if_neg (by omega)]
      · rw [Vec.get_of_size_le _ k (by rw [b1]; omega), Vec.get_of_size_le _ k (by omega)]
    · intro pre o post li h hli
      cases pre with
      | nil =>
        simp only [List.nil_append, List.cons.injEq] at h
        obtain ⟨rfl, rfl⟩ := h
        rw [totalParams_nil, Nat.add_zero, i2 _ (by omega), b2 _ (by omega),
          if_pos ⟨by omega, by rw [dvBlockWT_size]; omega⟩, Nat.add_sub_cancel_left]
      | cons q pre'' =>
        simp only [List.cons_append, List.cons.injEq] at h
        obtain ⟨rfl, rfl⟩ := h
        have := i3 pre'' o post li rfl hli
        rw [totalParams_cons, ← Nat.add_assoc]
        exact this

/-- object order in the w-tilde data vector: the entries of `o` are its own block -/
theorem dataVectorWT_block (ds : Dataset α) (pre : List (LinObj α)) (o : LinObj α)
    (post : List (LinObj α)) (li : Nat) (hli : li < o.params) :
    (Impl.dataVectorWT ds (pre ++ o :: post)).get (Impl.totalParams pre + li)
      = (dvBlockWT ds o).get li := by
  rw [dataVectorWT_eq]
  have := fold_ranged_vec ds (pre ++ o :: post) 0 (Vec.zeros (Impl.totalParams (pre ++ o :: post)))
    (by rw [Vec.size_zeros]; omega)
  simp only at this
  have h3 := this.2.2 pre o post li rfl hli
  rw [Nat.zero_add] at h3
  exact h3

theorem dataVectorWT_size (ds : Dataset α) (objs : List (LinObj α)) :
    (Impl.dataVectorWT ds objs).size = Impl.totalParams objs := by
  rw [dataVectorWT_eq]
  have := fold_ranged_vec ds objs 0 (Vec.zeros (Impl.totalParams objs))
    (by rw [Vec.size_zeros]; omega)
  simp only at this
  rw [this.1, Vec.size_zeros]

end Model
