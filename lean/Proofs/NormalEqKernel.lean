/-
Proofs/NormalEqKernel.lean — geometry of the PSF loops (clauses C04.b/c): every `for k0_y: for k0_x:` loop
over the kernel, centred on an unmasked pixel `c`, is a sum over the unmasked pixels `d` weighted by the PSF
matrix entry `P[d, c] = K[d − c + half]`.
-/
import Proofs.NormalEqBlocks
import Mathlib.Data.List.Nodup

namespace Model

variable {α : Type} [Field α]

open Spec

/-- the native pixel hit by kernel offset `p` when the kernel is centred on `c` -/
def tgt (K : Kernel α) (c p : Nat × Nat) : Nat × Nat := (c.1 + p.1 - K.hy, c.2 + p.2 - K.hx)

/-- the offset does not leave the frame on the low side (`c − half + p ≥ 0`) -/
def validOff (K : Kernel α) (c p : Nat × Nat) : Prop := K.hy ≤ c.1 + p.1 ∧ K.hx ≤ c.2 + p.2

instance (K : Kernel α) (c p : Nat × Nat) : Decidable (validOff K c p) := by
  unfold validOff; infer_instance

theorem pixels_nodup (h w : Nat) : (pixels h w).Nodup := by
  have := pixels_pairwise_flat h w
  exact this.imp (fun {a b} hab heq => by rw [heq] at hab; exact Nat.lt_irrefl _ hab)

theorem unmaskedPixels_nodup (m : Mask) : (Spec.unmaskedPixels m).Nodup := by
  have := unmaskedPixels_pairwise m
  exact this.imp (fun {a b} hab heq => by rw [heq] at hab; exact Nat.lt_irrefl _ hab)

/-- the PSF matrix entry as a sum over kernel offsets with exactly one candidate term -/
theorem pEntry_as_sum (K : Kernel α) (d c : Nat × Nat) :
    Model.sum ((pixels K.kh K.kw).map fun p =>
      if validOff K c p ∧ tgt K c p = d then K.get p.1 p.2 else 0) = pEntry K d c := by
  have hfun : (fun p : Nat × Nat => if validOff K c p ∧ tgt K c p = d then K.get p.1 p.2 else 0)
      = fun p => if p = (d.1 + K.hy - c.1, d.2 + K.hx - c.2) then
          (if c.1 ≤ d.1 + K.hy ∧ c.2 ≤ d.2 + K.hx then K.get p.1 p.2 else 0) else 0 := by
    funext p
    obtain ⟨p1, p2⟩ := p
    obtain ⟨d1, d2⟩ := d
    obtain ⟨c1, c2⟩ := c
    simp only [validOff, tgt, Prod.mk.injEq]
    by_cases h : (K.hy ≤ c1 + p1 ∧ K.hx ≤ c2 + p2) ∧ c1 + p1 - K.hy = d1 ∧ c2 + p2 - K.hx = d2
    · have h1 : p1 = d1 + K.hy - c1 ∧ p2 = d2 + K.hx - c2 := by omega
      have h2 : c1 ≤ d1 + K.hy ∧ c2 ≤ d2 + K.hx := by omega
      rw [if_pos h, if_pos h1, if_pos h2]
    · rw [if_neg h]
      by_cases h1 : p1 = d1 + K.hy - c1 ∧ p2 = d2 + K.hx - c2
      · rw [if_pos h1]
        have : ¬ (c1 ≤ d1 + K.hy ∧ c2 ≤ d2 + K.hx) := by
          intro h2; apply h; omega
        rw [if_neg this]
      · rw [if_neg h1]
  rw [hfun, sum_map_single _ (pixels_nodup _ _)]
  simp only [mem_pixels, pEntry]
  by_cases h : c.1 ≤ d.1 + K.hy ∧ d.1 + K.hy - c.1 < K.kh ∧ c.2 ≤ d.2 + K.hx ∧ d.2 + K.hx - c.2 < K.kw
  · rw [if_pos h, if_pos ⟨h.2.1, h.2.2.2⟩, if_pos ⟨h.1, h.2.2.1⟩]
  · rw [if_neg h]
    by_cases h1 : d.1 + K.hy - c.1 < K.kh ∧ d.2 + K.hx - c.2 < K.kw
    · rw [if_pos h1]
      have : ¬ (c.1 ≤ d.1 + K.hy ∧ c.2 ≤ d.2 + K.hx) := by
        intro h2; exact h ⟨h2.1, h1.1, h2.2, h1.2⟩
      rw [if_neg this]
    · rw [if_neg h1]

/-- re-indexing: a kernel loop that reads a function `g` of the (unmasked) target pixel is the
    `P`-weighted sum of `g` over the unmasked pixels. -/
theorem kernel_sum_reindex (K : Kernel α) (idx : List (Nat × Nat)) (hnd : idx.Nodup) (c : Nat × Nat)
    (g : Nat × Nat → α) :
    Model.sum ((pixels K.kh K.kw).map fun p =>
      if validOff K c p ∧ tgt K c p ∈ idx then K.get p.1 p.2 * g (tgt K c p) else 0)
      = Model.sum (idx.map fun d => pEntry K d c * g d) := by
  have h1 : (fun d => pEntry K d c * g d)
      = fun d => Model.sum ((pixels K.kh K.kw).map fun p =>
          (if validOff K c p ∧ tgt K c p = d then K.get p.1 p.2 else 0) * g d) := by
    funext d
    rw [sum_map_mul_right, pEntry_as_sum]
  rw [h1, sum_map_comm]
  apply sum_map_congr
  intro p _
  have h2 : (fun d => (if validOff K c p ∧ tgt K c p = d then K.get p.1 p.2 else 0) * g d)
      = fun d => if d = tgt K c p then (if validOff K c p then K.get p.1 p.2 * g d else 0) else 0 := by
    funext d
    by_cases hd : d = tgt K c p
    · subst hd
      by_cases hv : validOff K c p <;> simp [hv]
    · have : ¬ tgt K c p = d := fun h => hd h.symm
      simp [hd, this]
  rw [h2, sum_map_single _ hnd]
  by_cases hm : tgt K c p ∈ idx <;> by_cases hv : validOff K c p <;> simp [hm, hv]

/-! ### a scalar accumulator -/

theorem foldl_add_fn {ι : Type} (step : α → ι → α) (F : ι → α) (hstep : ∀ v p, step v p = v + F p)
    (l : List ι) (init : α) : l.foldl step init = init + Model.sum (l.map F) := by
  induction l generalizing init with
  | nil => simp [sum_nil]
  | cons a l ih => rw [List.foldl_cons, ih, hstep, List.map_cons, sum_cons]; ring

theorem forYX_add_fn (h w : Nat) (step : α → Nat → Nat → α) (F : Nat × Nat → α)
    (hstep : ∀ v y x, step v y x = v + F (y, x)) :
    forYX h w step 0 = Model.sum ((pixels h w).map F) := by
  rw [forYX_eq_foldl, foldl_add_fn (fun acc p => step acc p.1 p.2) F (fun v p => hstep v p.1 p.2),
    zero_add]

/-! ### reading `Array2D.native` -/

theorem idxOf_getD {idx : List (Nat × Nat)} (hnd : idx.Nodup) (k : Nat) (hk : k < idx.length) :
    idx.idxOf (idx.getD k (0, 0)) = k := by
  rw [List.getD_eq_getElem?_getD, List.getElem?_eq_getElem hk, Option.getD_some]
  exact hnd.idxOf_getElem k hk

theorem getD_idxOf {idx : List (Nat × Nat)} {t : Nat × Nat} (ht : t ∈ idx) :
    idx.getD (idx.idxOf t) (0, 0) = t := by
  have hlt : idx.idxOf t < idx.length := List.idxOf_lt_length_iff.mpr ht
  rw [List.getD_eq_getElem?_getD, List.getElem?_eq_getElem hlt, Option.getD_some]
  exact List.getElem_idxOf hlt

/-- `array.native[t]` = the slim value of `t` if `t` is unmasked, `0` if masked (C01.b) -/
theorem native_read (m : Mask) (s : List α) (t : Nat × Nat) (h1 : t.1 < m.h) (h2 : t.2 < m.w) :
    vget (Impl.nativeFrom m s 0) (t.1 * m.w + t.2)
      = if t ∈ Spec.unmaskedPixels m then vget s ((Spec.unmaskedPixels m).idxOf t) else 0 := by
  by_cases ht : t ∈ Spec.unmaskedPixels m
  · rw [if_pos ht]
    have hlt : (Spec.unmaskedPixels m).idxOf t < (Spec.unmaskedPixels m).length :=
      List.idxOf_lt_length_iff.mpr ht
    have := nativeFrom_hit m s (0 : α) _ hlt
    rw [List.getElem_idxOf hlt] at this
    simp only [vget, List.getD_eq_getElem?_getD]
    have hf : flat m.w t = t.1 * m.w + t.2 := rfl
    rw [← hf, this]
    simp
  · rw [if_neg ht]
    have hj : t.1 * m.w + t.2 < m.h * m.w := flat_lt (p := t) (mem_pixels.mpr ⟨h1, h2⟩)
    have hm : m.bits.getD (t.1 * m.w + t.2) true = true := by
      by_contra hne
      apply ht
      rw [mem_unmaskedPixels]
      refine ⟨h1, h2, ?_⟩
      simp only [Mask.get]
      cases hb : m.bits.getD (t.1 * m.w + t.2) true with
      | true => exact absurd hb hne
      | false => rfl
    have := nativeFrom_masked m s (0 : α) _ hj hm
    simp only [vget, List.getD_eq_getElem?_getD, this, Option.getD_some]

/-- kernel footprint of every unmasked pixel inside the frame (the property's precondition) -/
def Footprint (m : Mask) (K : Kernel α) : Prop :=
  ∀ c ∈ Spec.unmaskedPixels m,
    K.hy ≤ c.1 ∧ c.1 + K.kh ≤ m.h + K.hy ∧ K.hx ≤ c.2 ∧ c.2 + K.kw ≤ m.w + K.hx

theorem Footprint.tgt_lt {m : Mask} {K : Kernel α} (hf : Footprint m K) {c p : Nat × Nat}
    (hc : c ∈ Spec.unmaskedPixels m) (hp : p ∈ pixels K.kh K.kw) :
    validOff K c p ∧ (tgt K c p).1 < m.h ∧ (tgt K c p).2 < m.w := by
  obtain ⟨h1, h2, h3, h4⟩ := hf c hc
  rw [mem_pixels] at hp
  simp only [validOff, tgt]
  omega

end Model
