/-
Proofs/NormalEqMapping.lean — the mapping formalism (clause C04.a): the loops of
`data_vector_via_blurred_mapping_matrix_from`, `curvature_matrix_via_mapping_matrix_from`,
`curvature_matrix_with_added_to_diag_from` compute `Bᵀ N⁻¹ d` and `Bᵀ N⁻¹ B + ε·Σ e_i e_iᵀ`.
-/
import Proofs.NormalEq

namespace Model

variable {α : Type} [Field α]

/-! ### data vector -/

theorem dataVectorMapping_spec (B : Mat α) (image noise : List α) :
    (Impl.dataVectorMapping B image noise).size = B.c ∧
    ∀ p, p < B.c → (Impl.dataVectorMapping B image noise).get p
      = sumRange B.r fun d => vget image d * B.get d p / (vget noise d * vget noise d) := by
  have hin : ∀ d : Nat, Additive (fun (v : Vec α) k => v.get k) (fun v => v.size = B.c)
      (fun k => k < B.c)
      (fun dv p => dv.add p (vget image d * B.get d p / (vget noise d * vget noise d)))
      (fun p k => if k = p then vget image d * B.get d p / (vget noise d * vget noise d) else 0) :=
    fun d => Vec.additive_add B.c (fun p => p) _
  have hout := (Additive.nest (fun _ => List.range B.c) hin).foldl (List.range B.r)
    (Vec.zeros B.c) (Vec.size_zeros B.c)
  refine ⟨hout.1, fun p hp => ?_⟩
  have := hout.2 p hp
  simp only [Impl.dataVectorMapping]
  rw [this, Vec.get_zeros, zero_add]
  apply sumRange_congr
  intro d _
  have := sumRange_single' B.c p
    (fun q => vget image d * B.get d q / (vget noise d * vget noise d))
  simp only [sumRange_def] at this
  rw [this, if_pos hp]

/-! ### curvature matrix -/

theorem addToDiag_spec (F : Mat α) (value : α) (noReg : List Nat) :
    (Impl.addToDiag F value noReg).r = F.r ∧ (Impl.addToDiag F value noReg).c = F.c ∧
    ∀ i j, i < F.r → j < F.c → (Impl.addToDiag F value noReg).get i j
      = F.get i j + Model.sum (noReg.map fun x => if i = x ∧ j = x then value else 0) := by
  have h := (Mat.additive_add (α := α) F.r F.c (fun x : Nat => x) (fun x => x)
    (fun _ => value)).foldl noReg F ⟨rfl, rfl⟩
  refine ⟨h.1.1, h.1.2, fun i j hi hj => ?_⟩
  exact h.2 (i, j) ⟨hi, hj⟩

/-- for a duplicate-free index list the diagonal term is `value` exactly on the listed diagonal entries -/
theorem diag_term_nodup (noReg : List Nat) (hnd : noReg.Nodup) (value : α) (i j : Nat) :
    Model.sum (noReg.map fun x => if i = x ∧ j = x then value else 0)
      = if i = j ∧ i ∈ noReg then value else 0 := by
  by_cases hij : i = j
  · subst hij
    have : (fun x => if i = x ∧ i = x then value else 0) = fun x => if x = i then value else 0 := by
      funext x
      by_cases h : x = i
      · simp [h]
      · have : ¬ i = x := fun h' => h h'.symm
        simp [h, this]
    rw [this, sum_map_single noReg hnd i (fun _ => value)]
    simp
  · rw [sum_map_eq_zero]
    · simp [hij]
    · intro x _
      have : ¬ (i = x ∧ j = x) := by
        rintro ⟨h1, h2⟩; exact hij (h1.trans h2.symm)
      simp [this]

theorem curvatureMapping_spec (B : Mat α) (noise : List α) (addDiag : Bool) (noReg : List Nat)
    (value : α) :
    (Impl.curvatureMapping B noise addDiag noReg value).r = B.c ∧
    (Impl.curvatureMapping B noise addDiag noReg value).c = B.c ∧
    ∀ i j, i < B.c → j < B.c → (Impl.curvatureMapping B noise addDiag noReg value).get i j
      = (sumRange B.r fun d => B.get d i / vget noise d * (B.get d j / vget noise d))
        + if addDiag then Model.sum (noReg.map fun x => if i = x ∧ j = x then value else 0) else 0 := by
  have hF : ∀ i j, i < B.c → j < B.c →
      (Mat.ofFn B.c B.c fun i j => sumRange B.r fun d =>
        (Mat.ofFn B.r B.c fun d p => B.get d p / vget noise d).get d i
          * (Mat.ofFn B.r B.c fun d p => B.get d p / vget noise d).get d j).get i j
      = sumRange B.r fun d => B.get d i / vget noise d * (B.get d j / vget noise d) := by
    intro i j hi hj
    rw [Mat.get_ofFn, if_pos ⟨hi, hj⟩]
    apply sumRange_congr
    intro d hd
    rw [Mat.get_ofFn, Mat.get_ofFn, if_pos ⟨hd, hi⟩, if_pos ⟨hd, hj⟩]
  unfold Impl.curvatureMapping
  by_cases hc : addDiag = true ∧ noReg.length > 0
  · simp only [hc, and_self, ↓reduceIte]
    obtain ⟨h1, h2, h3⟩ := addToDiag_spec
      (Mat.ofFn B.c B.c fun i j => sumRange B.r fun d =>
        (Mat.ofFn B.r B.c fun d p => B.get d p / vget noise d).get d i
          * (Mat.ofFn B.r B.c fun d p => B.get d p / vget noise d).get d j) value noReg
    refine ⟨h1, h2, fun i j hi hj => ?_⟩
    rw [h3 i j hi hj, hF i j hi hj]
  · simp only [hc, ↓reduceIte]
    refine ⟨rfl, rfl, fun i j hi hj => ?_⟩
    rw [hF i j hi hj]
    by_cases ha : addDiag = true
    · have hnil : noReg = [] := by
        cases noReg with
        | nil => rfl
        | cons a l => exact absurd ⟨ha, by simp⟩ hc
      simp [ha, hnil, sum_nil]
    · simp [ha]

end Model
