/-
Proofs/NormalEqMirror.lean — `curvature_matrix_mirrored_from`: the double loop over all (i, j), each
iteration overwriting both entries of the pair, leaves at (i, j) and (j, i) the value `C[min,max]` if that is
non-zero and `C[max,min]` otherwise ("last write wins": the pair is visited last at (max, min), whose second
test reads `C[min,max]`).
-/
import Proofs.NormalEqKernel

namespace Model
variable {α : Type}

variable [Field α] [DecidableEq α]

theorem mirroredStep_spec (C M : Mat α) (n : Nat) (hr : M.r = n) (hc : M.c = n) (i j : Nat) :
    (Impl.mirroredStep C M i j).r = n ∧ (Impl.mirroredStep C M i j).c = n ∧
    ∀ a b, a < n → b < n → (Impl.mirroredStep C M i j).get a b
      = if ((a = i ∧ b = j) ∨ (a = j ∧ b = i)) ∧ i < n ∧ j < n ∧ (C.get i j ≠ 0 ∨ C.get j i ≠ 0) then
          (if C.get j i ≠ 0 then C.get j i else C.get i j)
        else M.get a b := by
  unfold Impl.mirroredStep
  by_cases h1 : C.get i j ≠ 0 <;> by_cases h2 : C.get j i ≠ 0
  all_goals simp only [h1, h2, ↓reduceIte, Mat.put_r, Mat.put_c, not_false_eq_true, not_true_eq_false, ne_eq]
  all_goals refine ⟨hr, hc, fun a b ha hb => ?_⟩
  all_goals
    try rw [Mat.get_put_of_lt _ _ _ _ a b (by simp [hr]; omega) (by simp [hc]; omega)]
    try rw [Mat.get_put_of_lt _ _ _ _ a b (by simp [hr]; omega) (by simp [hc]; omega)]
    try rw [Mat.get_put_of_lt _ _ _ _ a b (by simp [hr]; omega) (by simp [hc]; omega)]
    try rw [Mat.get_put_of_lt _ _ _ _ a b (by simp [hr]; omega) (by simp [hc]; omega)]
  all_goals
    by_cases hA : a = i ∧ b = j <;> by_cases hB : a = j ∧ b = i
    · have hn : i < n ∧ j < n := by omega
      simp [hA, hB, hn]
    · have hn : i < n ∧ j < n := by omega
      simp [hA, hB, hn]
    · have hn : i < n ∧ j < n := by omega
      simp [hA, hB, hn]
    · simp [hA, hB]

/-- the loop as a fold over the visited index pairs -/
def mirFold (C : Mat α) (l : List (Nat × Nat)) (M : Mat α) : Mat α :=
  l.foldl (fun M p => Impl.mirroredStep C M p.1 p.2) M

theorem mirFold_untouched (C : Mat α) (n : Nat) (l : List (Nat × Nat)) (M : Mat α) (hr : M.r = n)
    (hc : M.c = n) :
    (mirFold C l M).r = n ∧ (mirFold C l M).c = n ∧
    ∀ a b, a < n → b < n → (∀ p ∈ l, p ≠ (a, b) ∧ p ≠ (b, a)) → (mirFold C l M).get a b = M.get a b := by
  induction l generalizing M with
  | nil => exact ⟨hr, hc, fun _ _ _ _ _ => rfl⟩
  | cons p l ih =>
    obtain ⟨s1, s2, s3⟩ := mirroredStep_spec C M n hr hc p.1 p.2
    obtain ⟨i1, i2, i3⟩ := ih (Impl.mirroredStep C M p.1 p.2) s1 s2
    simp only [mirFold, List.foldl_cons] at i1 i2 i3 ⊢
    refine ⟨i1, i2, fun a b ha hb hno => ?_⟩
    rw [i3 a b ha hb (fun q hq => hno q (by simp [hq])), s3 a b ha hb]
    have hp := hno p (by simp)
    have : ¬ (((a = p.1 ∧ b = p.2) ∨ (a = p.2 ∧ b = p.1)) ∧ p.1 < n ∧ p.2 < n ∧
        (C.get p.1 p.2 ≠ 0 ∨ C.get p.2 p.1 ≠ 0)) := by
      rintro ⟨h | h, _⟩
      · exact hp.1 (by rw [h.1, h.2])
      · exact hp.2 (by rw [h.1, h.2])
    rw [if_neg this]

theorem mirFold_append (C : Mat α) (l₁ l₂ : List (Nat × Nat)) (M : Mat α) :
    mirFold C (l₁ ++ l₂) M = mirFold C l₂ (mirFold C l₁ M) := by
  simp [mirFold, List.foldl_append]

theorem mirFold_cons (C : Mat α) (p : Nat × Nat) (l : List (Nat × Nat)) (M : Mat α) :
    mirFold C (p :: l) M = mirFold C l (Impl.mirroredStep C M p.1 p.2) := rfl

/-- `curvature_matrix_mirrored_from` (the double loop) equals the closed form used by the model -/
theorem mirroredLoop_get (C : Mat α) (n : Nat) (hr : C.r = n) (hc : C.c = n) (a b : Nat) (ha : a < n)
    (hb : b < n) :
    (Impl.mirrored C).get a b
      = if C.get (min a b) (max a b) ≠ 0 then C.get (min a b) (max a b)
        else C.get (max a b) (min a b) := by
  unfold Impl.mirrored
  rw [forYX_eq_foldl, hr, hc]
  show (mirFold C (pixels n n) (Mat.zeros n n)).get a b = _
  have hnd := pixels_nodup n n
  have hsorted := pixels_pairwise_flat n n
  rcases Nat.lt_trichotomy a b with hlt | heq | hgt
  · -- a < b : (a,b) is visited before (b,a)
    rw [Nat.min_eq_left (by omega), Nat.max_eq_right (by omega)]
    have hm2 : (b, a) ∈ pixels n n := mem_pixels.mpr ⟨hb, ha⟩
    obtain ⟨L, D, hLD⟩ := List.append_of_mem hm2
    have hm1 : (a, b) ∈ L := by
      have hm : (a, b) ∈ pixels n n := mem_pixels.mpr ⟨ha, hb⟩
      rw [hLD] at hm hsorted
      rcases List.mem_append.mp hm with h | h
      · exact h
      · rcases List.mem_cons.mp h with h | h
        · exact absurd (congrArg Prod.fst h) (by simp; omega)
        · have := (List.pairwise_append.mp hsorted).2.1
          have := (List.pairwise_cons.mp this).1 (a, b) h
          simp only [flat] at this
          have h1 : a * n + b < a * n + n := by omega
          have h2 : (a + 1) * n ≤ b * n := Nat.mul_le_mul_right n (by omega)
          rw [Nat.succ_mul] at h2
          omega
    obtain ⟨A, B, hAB⟩ := List.append_of_mem hm1
    have hl : pixels n n = A ++ (a, b) :: (B ++ (b, a) :: D) := by rw [hLD, hAB]; simp
    rw [hl] at hnd
    have hndA := List.nodup_append.mp hnd
    have hnd2 := List.nodup_cons.mp hndA.2.1
    have hnd3 := List.nodup_append.mp hnd2.2
    have hnd4 := List.nodup_cons.mp hnd3.2.1
    have hne : (a, b) ≠ (b, a) := by
      intro h; exact absurd (congrArg Prod.fst h) (by simp; omega)
    have hA : ∀ p ∈ A, p ≠ (a, b) ∧ p ≠ (b, a) := by
      intro p hp
      refine ⟨fun h => hndA.2.2 p hp (a, b) (by simp) h, fun h => hndA.2.2 p hp (b, a) (by simp) h⟩
    have hB : ∀ p ∈ B, p ≠ (a, b) ∧ p ≠ (b, a) := by
      intro p hp
      refine ⟨fun h => hnd2.1 (by rw [← h]; simp [hp]), fun h => hnd3.2.2 p hp (b, a) (by simp) h⟩
    have hD : ∀ p ∈ D, p ≠ (a, b) ∧ p ≠ (b, a) := by
      intro p hp
      refine ⟨fun h => hnd2.1 (by rw [← h]; simp [hp]), fun h => hnd4.1 (by rw [← h]; exact hp)⟩
    rw [hl, mirFold_append, mirFold_cons, mirFold_append, mirFold_cons]
    obtain ⟨a1, a2, a3⟩ := mirFold_untouched C n A (Mat.zeros n n) rfl rfl
    obtain ⟨s1, s2, s3⟩ := mirroredStep_spec C (mirFold C A (Mat.zeros n n)) n a1 a2 a b
    obtain ⟨b1, b2, b3⟩ := mirFold_untouched C n B _ s1 s2
    obtain ⟨t1, t2, t3⟩ := mirroredStep_spec C _ n b1 b2 b a
    obtain ⟨d1, d2, d3⟩ := mirFold_untouched C n D _ t1 t2
    rw [d3 a b ha hb hD, t3 a b ha hb]
    by_cases hact : C.get b a ≠ 0 ∨ C.get a b ≠ 0
    · rw [if_pos ⟨Or.inr ⟨rfl, rfl⟩, hb, ha, hact⟩]
    · have h0 : C.get a b = 0 := by
        by_contra h; exact hact (Or.inr h)
      have h0' : C.get b a = 0 := by
        by_contra h; exact hact (Or.inl h)
      rw [if_neg (fun h => hact h.2.2.2), b3 a b ha hb hB, s3 a b ha hb,
        if_neg (fun h => hact (h.2.2.2.symm)), a3 a b ha hb hA, Mat.get_zeros]
      simp [h0, h0']
  · -- diagonal
    subst heq
    rw [Nat.min_self, Nat.max_self]
    have hm : (a, a) ∈ pixels n n := mem_pixels.mpr ⟨ha, ha⟩
    obtain ⟨A, D, hAD⟩ := List.append_of_mem hm
    rw [hAD] at hnd
    have hndA := List.nodup_append.mp hnd
    have hnd2 := List.nodup_cons.mp hndA.2.1
    have hA : ∀ p ∈ A, p ≠ (a, a) ∧ p ≠ (a, a) :=
      fun p hp => ⟨fun h => hndA.2.2 p hp (a, a) (by simp) h, fun h => hndA.2.2 p hp (a, a) (by simp) h⟩
    have hD : ∀ p ∈ D, p ≠ (a, a) ∧ p ≠ (a, a) :=
      fun p hp => ⟨fun h => hnd2.1 (by rw [← h]; exact hp), fun h => hnd2.1 (by rw [← h]; exact hp)⟩
    rw [hAD, mirFold_append, mirFold_cons]
    obtain ⟨a1, a2, a3⟩ := mirFold_untouched C n A (Mat.zeros n n) rfl rfl
    obtain ⟨s1, s2, s3⟩ := mirroredStep_spec C (mirFold C A (Mat.zeros n n)) n a1 a2 a a
    obtain ⟨d1, d2, d3⟩ := mirFold_untouched C n D _ s1 s2
    rw [d3 a a ha ha hD, s3 a a ha ha]
    by_cases hz : C.get a a = 0
    · simp [hz, a3 a a ha ha hA, Mat.get_zeros]
    · simp [hz, ha]
  · -- b < a : (b,a) is visited before (a,b)
    rw [Nat.min_eq_right (by omega), Nat.max_eq_left (by omega)]
    have hm2 : (a, b) ∈ pixels n n := mem_pixels.mpr ⟨ha, hb⟩
    obtain ⟨L, D, hLD⟩ := List.append_of_mem hm2
    have hm1 : (b, a) ∈ L := by
      have hm : (b, a) ∈ pixels n n := mem_pixels.mpr ⟨hb, ha⟩
      rw [hLD] at hm hsorted
      rcases List.mem_append.mp hm with h | h
      · exact h
      · rcases List.mem_cons.mp h with h | h
        · exact absurd (congrArg Prod.fst h) (by simp; omega)
        · have := (List.pairwise_append.mp hsorted).2.1
          have := (List.pairwise_cons.mp this).1 (b, a) h
          simp only [flat] at this
          have h1 : b * n + a < b * n + n := by omega
          have h2 : (b + 1) * n ≤ a * n := Nat.mul_le_mul_right n (by omega)
          rw [Nat.succ_mul] at h2
          omega
    obtain ⟨A, B, hAB⟩ := List.append_of_mem hm1
    have hl : pixels n n = A ++ (b, a) :: (B ++ (a, b) :: D) := by rw [hLD, hAB]; simp
    rw [hl] at hnd
    have hndA := List.nodup_append.mp hnd
    have hnd2 := List.nodup_cons.mp hndA.2.1
    have hnd3 := List.nodup_append.mp hnd2.2
    have hnd4 := List.nodup_cons.mp hnd3.2.1
    have hA : ∀ p ∈ A, p ≠ (a, b) ∧ p ≠ (b, a) := by
      intro p hp
      refine ⟨fun h => hndA.2.2 p hp (a, b) (by simp) h, fun h => hndA.2.2 p hp (b, a) (by simp) h⟩
    have hB : ∀ p ∈ B, p ≠ (a, b) ∧ p ≠ (b, a) := by
      intro p hp
      refine ⟨fun h => hnd3.2.2 p hp (a, b) (by simp) h, fun h => hnd2.1 (by rw [← h]; simp [hp])⟩
    have hD : ∀ p ∈ D, p ≠ (a, b) ∧ p ≠ (b, a) := by
      intro p hp
      refine ⟨fun h => hnd4.1 (by rw [← h]; exact hp), fun h => hnd2.1 (by rw [← h]; simp [hp])⟩
    rw [hl, mirFold_append, mirFold_cons, mirFold_append, mirFold_cons]
    obtain ⟨a1, a2, a3⟩ := mirFold_untouched C n A (Mat.zeros n n) rfl rfl
    obtain ⟨s1, s2, s3⟩ := mirroredStep_spec C (mirFold C A (Mat.zeros n n)) n a1 a2 b a
    obtain ⟨b1, b2, b3⟩ := mirFold_untouched C n B _ s1 s2
    obtain ⟨t1, t2, t3⟩ := mirroredStep_spec C _ n b1 b2 a b
    obtain ⟨d1, d2, d3⟩ := mirFold_untouched C n D _ t1 t2
    rw [d3 a b ha hb hD, t3 a b ha hb]
    by_cases hact : C.get a b ≠ 0 ∨ C.get b a ≠ 0
    · rw [if_pos ⟨Or.inl ⟨rfl, rfl⟩, ha, hb, hact⟩]
    · have h0 : C.get a b = 0 := by
        by_contra h; exact hact (Or.inl h)
      have h0' : C.get b a = 0 := by
        by_contra h; exact hact (Or.inr h)
      rw [if_neg (fun h => hact h.2.2.2), b3 a b ha hb hB, s3 a b ha hb,
        if_neg (fun h => hact (h.2.2.2.symm)), a3 a b ha hb hA, Mat.get_zeros]
      simp [h0, h0']

end Model
