/-
Proofs/NormalEqPadded.lean — the tables as the code stores them (padded unique-mapping arrays with the
`pix_lengths` column; flat `curvature_preload / curvature_indexes` with the `curvature_lengths` column and the
running `curvature_index`):
  * reading a stored table through its length column gives back the rows it was built from
    (`toRows (ofRows r) = r`), whatever the padding;
  * every consumer loop over the stored form (`for k in range(lengths[d])`, `curvature_index += 1`) equals the
    consumer over the ragged rows, so all C04 theorems apply to what the code stores.
-/
import Proofs.NormalEqDispatchCurv

namespace Model

variable {α : Type} [Field α] [LinearOrder α] [IsStrictOrderedRing α]

open Impl

/-! ### reading the stored tables -/

theorem Padded.toRows_getD (p : Padded α) (d : Nat) :
    (Padded.toRows p).getD d [] = (List.range (p.len.getD d 0)).map fun k => Padded.entry p d k := by
  unfold Padded.toRows
  by_cases hd : d < p.len.length
  · rw [map_getD_lt _ _ d (by simpa using hd) 0 []]
    simp [List.getD_eq_getElem?_getD, List.getElem?_range hd]
  · have h1 : ((List.range p.len.length).map fun d =>
        (List.range (p.len.getD d 0)).map fun k => Padded.entry p d k).getD d [] = [] := by
      simp [List.getD_eq_getElem?_getD, List.getElem?_eq_none (by simpa using hd : (List.range p.len.length).length ≤ d)]
    have h2 : p.len.getD d 0 = 0 := by
      simp [List.getD_eq_getElem?_getD, List.getElem?_eq_none (by omega : p.len.length ≤ d)]
    rw [h1, h2]; rfl

theorem Padded.toRows_length (p : Padded α) : (Padded.toRows p).length = p.len.length := by
  simp [Padded.toRows]

/-- the padded arrays read through `pix_lengths` are the rows they were built from (any width, any
    padding values) -/
theorem Padded.toRows_ofRows (width : Nat) (rows : Rows α) :
    Padded.toRows (Padded.ofRows width rows) = rows := by
  apply List.ext_getElem
  · simp [Padded.toRows, Padded.ofRows]
  · intro d h1 h2
    have hd : d < rows.length := h2
    simp only [Padded.toRows, List.getElem_map, List.getElem_range]
    have hlen : (Padded.ofRows width rows).len.getD d 0 = rows[d].length := by
      simp [Padded.ofRows, List.getD_eq_getElem?_getD, hd]
    rw [hlen]
    apply List.ext_getElem
    · simp
    · intro k g1 g2
      have hk : k < rows[d].length := g2
      simp only [List.getElem_map, List.getElem_range, Padded.entry, Padded.ofRows]
      have e1 : ((rows.map fun r => r.map (fun e => (e.1 : Int))
          ++ List.replicate (width - r.length) (-1)).getD d []).getD k (-1) = (rows[d][k].1 : Int) := by
        simp [List.getD_eq_getElem?_getD, hd, List.getElem?_append_left, hk]
      have e2 : ((rows.map fun r => r.map (fun e => e.2)
          ++ List.replicate (width - r.length) (0 : α)).getD d []).getD k 0 = rows[d][k].2 := by
        simp [List.getD_eq_getElem?_getD, hd, List.getElem?_append_left, hk]
      rw [e1, e2]
      simp

theorem PreloadFlat.offset_succ (q : PreloadFlat α) (d : Nat) :
    PreloadFlat.offset q (d + 1) = PreloadFlat.offset q d + q.lengths.getD d 0 := by
  unfold PreloadFlat.offset
  rw [List.take_succ, List.foldl_append]
  cases h : q.lengths[d]? with
  | none => simp [List.getD_eq_getElem?_getD, h]
  | some x => simp [List.getD_eq_getElem?_getD, h]

theorem PreloadFlat.toRows_getD (q : PreloadFlat α) (d : Nat) :
    (PreloadFlat.toRows q).getD d []
      = (List.range (q.lengths.getD d 0)).map fun k => PreloadFlat.entry q d k := by
  unfold PreloadFlat.toRows
  by_cases hd : d < q.lengths.length
  · rw [map_getD_lt _ _ d (by simpa using hd) 0 []]
    simp [List.getD_eq_getElem?_getD, List.getElem?_range hd]
  · have h1 : ((List.range q.lengths.length).map fun d =>
        (List.range (q.lengths.getD d 0)).map fun k => PreloadFlat.entry q d k).getD d [] = [] := by
      simp [List.getD_eq_getElem?_getD,
        List.getElem?_eq_none (by simpa using hd : (List.range q.lengths.length).length ≤ d)]
    have h2 : q.lengths.getD d 0 = 0 := by
      simp [List.getD_eq_getElem?_getD, List.getElem?_eq_none (by omega : q.lengths.length ≤ d)]
    rw [h1, h2]; rfl

theorem PreloadFlat.toRows_length (q : PreloadFlat α) :
    (PreloadFlat.toRows q).length = q.lengths.length := by
  simp [PreloadFlat.toRows]

theorem foldl_add_lengths (rows : Rows α) :
    (rows.map List.length).foldl (· + ·) 0 = rows.flatten.length := by
  induction rows with
  | nil => rfl
  | cons r rows ih =>
    simp only [List.map_cons, List.foldl_cons, List.flatten_cons, List.length_append]
    rw [foldl_add_init, ih]; omega

theorem flatten_getD_at {β : Type} (rows : List (List β)) (d : Nat) (hd : d < rows.length) (k : Nat)
    (hk : k < rows[d].length) (dflt : β) :
    (rows.take d).flatten.length + k < rows.flatten.length ∧
    rows.flatten.getD ((rows.take d).flatten.length + k) dflt = rows[d][k] := by
  induction rows generalizing d with
  | nil => simp at hd
  | cons r rows ih =>
    cases d with
    | zero =>
      simp only [List.getElem_cons_zero] at hk
      simp only [List.take_zero, List.flatten_nil, List.length_nil, Nat.zero_add, List.flatten_cons,
        List.length_append, List.getElem_cons_zero]
      refine ⟨by omega, ?_⟩
      simp [List.getD_eq_getElem?_getD, List.getElem?_append_left hk, List.getElem?_eq_getElem hk]
    | succ d =>
      simp only [List.getElem_cons_succ] at hk
      have := ih d (by simpa using hd) hk
      simp only [List.take_succ_cons, List.flatten_cons, List.length_append, List.getElem_cons_succ]
      refine ⟨by omega, ?_⟩
      rw [← this.2]
      simp only [List.getD_eq_getElem?_getD]
      rw [List.getElem?_append_right (by omega)]
      congr 2
      omega

/-- the flat arrays walked with the running index are the rows that were flattened -/
theorem PreloadFlat.toRows_ofRows (rows : Rows α) :
    PreloadFlat.toRows (PreloadFlat.ofRows rows) = rows := by
  apply List.ext_getElem
  · simp [PreloadFlat.toRows, PreloadFlat.ofRows]
  · intro d h1 h2
    have hd : d < rows.length := h2
    simp only [PreloadFlat.toRows, List.getElem_map, List.getElem_range]
    have hlen : (PreloadFlat.ofRows rows).lengths.getD d 0 = rows[d].length := by
      simp [PreloadFlat.ofRows, List.getD_eq_getElem?_getD, hd]
    rw [hlen]
    have hoff : PreloadFlat.offset (PreloadFlat.ofRows rows) d = (rows.take d).flatten.length := by
      unfold PreloadFlat.offset PreloadFlat.ofRows
      simp only
      rw [← List.map_take, foldl_add_lengths]
    apply List.ext_getElem
    · simp
    · intro k g1 g2
      have hk : k < rows[d].length := g2
      simp only [List.getElem_map, List.getElem_range, PreloadFlat.entry, hoff]
      have hflat : ∀ (dflt : Nat × α), rows.flatten.getD ((rows.take d).flatten.length + k) dflt
          = rows[d][k] := fun dflt => (flatten_getD_at rows d hd k hk dflt).2
      have hlt : (rows.take d).flatten.length + k < rows.flatten.length :=
        (flatten_getD_at rows d hd k hk (0, 0)).1
      have e1 : ((PreloadFlat.ofRows rows).indexes).getD ((rows.take d).flatten.length + k) 0
          = rows[d][k].1 := by
        have := hflat (0, 0)
        simp only [PreloadFlat.ofRows, List.getD_eq_getElem?_getD, List.getElem?_map] at this ⊢
        rw [List.getElem?_eq_getElem hlt] at this ⊢
        simp only [Option.map_some, Option.getD_some] at this ⊢
        rw [this]
      have e2 : ((PreloadFlat.ofRows rows).preload).getD ((rows.take d).flatten.length + k) 0
          = rows[d][k].2 := by
        have := hflat (0, 0)
        simp only [PreloadFlat.ofRows, List.getD_eq_getElem?_getD, List.getElem?_map] at this ⊢
        rw [List.getElem?_eq_getElem hlt] at this ⊢
        simp only [Option.map_some, Option.getD_some] at this ⊢
        rw [this]
      rw [e1, e2]

/-! ### consumers over the stored forms -/

theorem dataVectorWTildeP_eq (wtd : List α) (p : Padded α) (n : Nat) :
    dataVectorWTildeP wtd p n = dataVectorWTilde wtd (Padded.toRows p) n := by
  unfold dataVectorWTildeP dataVectorWTilde
  apply foldl_congr_fun
  intro dv d0
  rw [Padded.toRows_getD, List.foldl_map]

theorem mappedViaUniqueP_eq (p : Padded α) (recon : List α) :
    mappedViaUniqueP p recon = mappedViaUnique (Padded.toRows p) recon := by
  unfold mappedViaUniqueP mappedViaUnique
  rw [Padded.toRows_length]
  apply foldl_congr_fun
  intro v d0
  rw [Padded.toRows_getD, List.foldl_map]

theorem offDiagMapperFuncP_eq (p : Padded α) (n : Nat) (cw : Mat α) (fr : Rows α) :
    offDiagMapperFuncP p n cw fr = offDiagMapperFunc (Padded.toRows p) n cw fr := by
  unfold offDiagMapperFuncP offDiagMapperFunc
  rw [Padded.toRows_length]
  apply foldl_congr_fun
  intro F d0
  rw [Padded.toRows_getD, List.foldl_map]

/-- a loop that reads at a running counter and increments it = the loop over the offsets -/
theorem counter_foldl {β : Type} (n : Nat) (g : β → Nat → β) (s : β) (c0 : Nat) :
    (List.range n).foldl (fun (st : β × Nat) _ => (g st.1 st.2, st.2 + 1)) (s, c0)
      = ((List.range n).foldl (fun s k => g s (c0 + k)) s, c0 + n) := by
  induction n with
  | zero => rfl
  | succ n ih =>
    rw [List.range_succ, List.foldl_append, ih, List.foldl_append]
    simp [Nat.add_assoc]

theorem offDiagPreloadP_eq (q : PreloadFlat α) (p0 : Padded α) (n0 : Nat) (p1 : Padded α) (n1 : Nat) :
    offDiagPreloadP q p0 n0 p1 n1
      = offDiagPreload (PreloadFlat.toRows q) (Padded.toRows p0) n0 (Padded.toRows p1) n1 := by
  unfold offDiagPreloadP offDiagPreload
  rw [PreloadFlat.toRows_length]
  -- invariant of the outer loop: the counter is the offset of the row
  suffices H : ∀ m, (List.range m).foldl
      (fun (st : Mat α × Nat) d0 =>
        (List.range (q.lengths.getD d0 0)).foldl
          (fun (st : Mat α × Nat) _ =>
            ((List.range (p0.len.getD d0 0)).foldl
              (fun F k0 =>
                (List.range (p1.len.getD (q.indexes.getD st.2 0) 0)).foldl
                  (fun F k1 =>
                    F.add (Padded.entry p0 d0 k0).1 (Padded.entry p1 (q.indexes.getD st.2 0) k1).1
                      ((Padded.entry p0 d0 k0).2 * (Padded.entry p1 (q.indexes.getD st.2 0) k1).2
                        * q.preload.getD st.2 0))
                  F)
              st.1,
             st.2 + 1))
          st)
      (Mat.zeros n0 n1, 0)
      = ((List.range m).foldl
          (fun F d0 =>
            ((PreloadFlat.toRows q).getD d0 []).foldl
              (fun F pe =>
                ((Padded.toRows p0).getD d0 []).foldl
                  (fun F e0 =>
                    ((Padded.toRows p1).getD pe.1 []).foldl
                      (fun F e1 => F.add e0.1 e1.1 (e0.2 * e1.2 * pe.2)) F)
                  F)
              F)
          (Mat.zeros n0 n1), PreloadFlat.offset q m) by
    have := H q.lengths.length
    exact congrArg Prod.fst this
  intro m
  induction m with
  | zero => rfl
  | succ m ih =>
    rw [List.range_succ, List.foldl_append, ih, List.foldl_append]
    simp only [List.foldl_cons, List.foldl_nil]
    rw [counter_foldl (q.lengths.getD m 0)
      (fun (F : Mat α) (ci : Nat) => (List.range (p0.len.getD m 0)).foldl
        (fun (F : Mat α) k0 =>
          (List.range (p1.len.getD (q.indexes.getD ci 0) 0)).foldl
            (fun (F : Mat α) k1 =>
              F.add (Padded.entry p0 m k0).1 (Padded.entry p1 (q.indexes.getD ci 0) k1).1
                ((Padded.entry p0 m k0).2 * (Padded.entry p1 (q.indexes.getD ci 0) k1).2
                  * q.preload.getD ci 0))
            F)
        F)]
    rw [PreloadFlat.offset_succ]
    congr 1
    rw [PreloadFlat.toRows_getD, List.foldl_map]
    apply foldl_congr_fun
    intro F k
    rw [Padded.toRows_getD p0, List.foldl_map]
    apply foldl_congr_fun
    intro F k0
    simp only [PreloadFlat.entry]
    rw [Padded.toRows_getD p1, List.foldl_map]

theorem curvatureFromPreloadP_eq (q : PreloadFlat α) (p : Padded α) (n : Nat) :
    curvatureFromPreloadP q p n = curvatureFromPreload (PreloadFlat.toRows q) (Padded.toRows p) n := by
  unfold curvatureFromPreloadP curvatureFromPreload
  rw [offDiagPreloadP_eq]

/-! ### the producers' stored tables -/

theorem uniqueFromPadded_toRows (t : MapperTables α) (n : Nat) :
    Padded.toRows (uniqueFromPadded t n) = uniqueFrom t n := Padded.toRows_ofRows _ _

theorem wTildePreloadFlat_toRows (w : Nat) (nn : List α) (K : Kernel α) (idx : List (Nat × Nat)) :
    PreloadFlat.toRows (wTildePreloadFlat w nn K idx) = wTildePreload w nn K idx :=
  PreloadFlat.toRows_ofRows _

/-! ### the stored-table dispatchers are the ragged-row dispatchers -/

theorem wTildePreloadFlatOf_toRows (ds : Dataset α) :
    PreloadFlat.toRows (wTildePreloadFlatOf ds) = wTildePreloadOf ds :=
  PreloadFlat.toRows_ofRows _

theorem dvMapperP_eq (ds : Dataset α) (t : MapperTables α) : dvMapperP ds t = dvMapper ds t := by
  unfold dvMapperP dvMapper
  rw [dataVectorWTildeP_eq, uniqueFromPadded_toRows]

theorem blkDiagP_eq (ds : Dataset α) (n : Nat) (t : MapperTables α) :
    blkDiagP (wTildePreloadFlatOf ds) n t = blkDiag (wTildePreloadOf ds) n t := by
  unfold blkDiagP blkDiag
  rw [curvatureFromPreloadP_eq, uniqueFromPadded_toRows, wTildePreloadFlatOf_toRows]

theorem blkOffP_eq (ds : Dataset α) (n : Nat) (ti tj : MapperTables α) :
    blkOffP (wTildePreloadFlatOf ds) n ti tj = blkOff (wTildePreloadOf ds) n ti tj := by
  unfold blkOffP blkOff
  simp only [offDiagPreloadP_eq, uniqueFromPadded_toRows, wTildePreloadFlatOf_toRows]

theorem blkMFP_eq (ds : Dataset α) (fr : Rows α) (n : Nat) (t : MapperTables α) (oj : LinObj α) :
    blkMFP ds fr n t oj = blkMF ds fr n t oj := by
  unfold blkMFP blkMF
  simp only [offDiagMapperFuncP_eq, uniqueFromPadded_toRows]

theorem dataVectorMapperWTP_eq (ds : Dataset α) (objs : List (LinObj α)) :
    dataVectorMapperWTP ds objs = dataVectorMapperWT ds objs := by
  unfold dataVectorMapperWTP dataVectorMapperWT
  split
  · rfl
  · congr 1
    apply foldl_congr_fun
    intro dv p
    obtain ⟨o, r⟩ := p
    cases o with
    | mapper t b => simp only [dvMapperP_eq]
    | funcList _ _ _ => rfl

theorem dataVectorWTDispatchP_eq (ds : Dataset α) (objs : List (LinObj α)) :
    dataVectorWTDispatchP ds objs = dataVectorWTDispatch ds objs := by
  unfold dataVectorWTDispatchP dataVectorWTDispatch
  have h1 : dataVectorFuncListAndMapperWTP ds objs = dataVectorFuncListAndMapperWT ds objs := by
    unfold dataVectorFuncListAndMapperWTP dataVectorFuncListAndMapperWT
    rw [dataVectorMapperWTP_eq]
  have h2 : dataVectorX1WTP ds objs = dataVectorX1WT ds objs := by
    unfold dataVectorX1WTP dataVectorX1WT
    cases objs with
    | nil => rfl
    | cons o l =>
      cases o with
      | mapper t b => simp only [List.head?_cons, dvMapperP_eq]
      | funcList _ _ _ => rfl
  have h3 : dataVectorMultiWTP ds objs = dataVectorMultiWT ds objs := by
    unfold dataVectorMultiWTP dataVectorMultiWT
    congr 1
    apply foldl_congr_fun
    intro acc o
    cases o with
    | mapper t b => simp only [dvMapperP_eq]
    | funcList _ _ _ => rfl
  rw [h1, h2, h3]

theorem curvMapperDiagWTP_eq (ds : Dataset α) (objs : List (LinObj α)) :
    curvMapperDiagWTP ds objs = curvMapperDiagWT ds objs := by
  unfold curvMapperDiagWTP curvMapperDiagWT
  split
  · rfl
  · dsimp only
    congr 1
    apply foldl_congr_fun
    intro C p
    obtain ⟨o, r⟩ := p
    cases o with
    | mapper t b => simp only [blkDiagP_eq]
    | funcList _ _ _ => rfl

theorem opt_map_congr {β γ : Type} {f g : β → γ} (h : ∀ a, f a = g a) (x : Option β) :
    x.map f = x.map g := by
  cases x <;> simp [h]

theorem curvMultiMapperWTP_eq (ds : Dataset α) (objs : List (LinObj α)) :
    curvMultiMapperWTP ds objs = curvMultiMapperWT ds objs := by
  unfold curvMultiMapperWTP curvMultiMapperWT
  rw [curvMapperDiagWTP_eq]
  apply opt_map_congr
  intro C
  split
  · rfl
  · dsimp only
    apply foldl_congr_fun
    intro C pq
    obtain ⟨⟨q1, r1⟩, ⟨q2, r2⟩⟩ := pq
    cases q1 <;> cases q2 <;> simp only [blkOffP_eq]

theorem curvFuncListAndMapperWTP_eq (ds : Dataset α) (objs : List (LinObj α)) :
    curvFuncListAndMapperWTP ds objs = curvFuncListAndMapperWT ds objs := by
  unfold curvFuncListAndMapperWTP curvFuncListAndMapperWT
  rw [curvMultiMapperWTP_eq]
  apply opt_map_congr
  intro C
  dsimp only
  refine foldl_foldl_congr ?_ (fun _ _ => rfl)
  intro C m
  apply foldl_congr_fun
  intro C f
  obtain ⟨q, r⟩ := m
  cases q with
  | mapper t b => simp only [blkMFP_eq]
  | funcList _ _ _ => rfl

/-- the dispatchers the driver executes (stored tables) equal the ragged-row dispatchers -/
theorem curvatureWTDispatchP_eq (ds : Dataset α) (objs : List (LinObj α)) (value : α) :
    curvatureWTDispatchP ds objs value = curvatureWTDispatch ds objs value := by
  unfold curvatureWTDispatchP curvatureWTDispatch
  rw [curvFuncListAndMapperWTP_eq, curvMapperDiagWTP_eq, curvMultiMapperWTP_eq]

end Model
