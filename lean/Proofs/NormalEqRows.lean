/-
Proofs/NormalEqRows.lean — the w-tilde loop nests over ragged (index, value) tables, as matrix algebra
(clauses C04.b/d): with `M = rowsMat U` the matrix a unique-mapping table encodes and `Ũ = rowsMat pre`
the matrix the preload rows encode,
  data_vector_via_w_tilde_data_imaging_from                      = Mᵀ · w̃_d
  curvature_matrix_off_diags_via_w_tilde_curvature_preload…       = M₀ᵀ Ũ M₁
  curvature_matrix_via_w_tilde_curvature_preload_imaging_from    = Mᵀ (Ũ + Ũᵀ) M
  curvature_matrix_off_diags_via_mapper_and_linear_func_…        = (P M)ᵀ · cw
  Convolver.convolve_matrix_jit                                  = P M     (P = rowsMat frames, transposed)
-/
import Proofs.NormalEq

namespace Model

variable {α : Type} [Field α]

open Spec

/-- `Σ_{e ∈ row} e.2 · g e.1 = Σ_{k<n} (Σ_{e ∈ row, e.1 = k} e.2) · g k` when `g` vanishes beyond `n` -/
theorem sum_row_reindex (row : List (Nat × α)) (n : Nat) (g : Nat → α) (hg : ∀ k, n ≤ k → g k = 0) :
    Model.sum (row.map fun e => e.2 * g e.1)
      = sumRange n fun k => Model.sum (row.map fun e => if e.1 = k then e.2 else 0) * g k := by
  have h1 : (sumRange n fun k => Model.sum (row.map fun e => if e.1 = k then e.2 else 0) * g k)
      = sumRange n fun k => Model.sum (row.map fun e => if e.1 = k then e.2 * g k else 0) := by
    apply sumRange_congr
    intro k _
    rw [← sum_map_mul_right]
    apply sum_map_congr
    intro e _
    by_cases h : e.1 = k <;> simp [h]
  rw [h1, sumRange_def, sum_map_comm]
  apply sum_map_congr
  intro e _
  have := sumRange_single' n e.1 (fun k => e.2 * g k)
  simp only [sumRange_def] at this
  rw [this]
  by_cases h : e.1 < n
  · simp [h]
  · simp [h, hg e.1 (by omega)]

theorem rowsMat_of_length_le (U : Rows α) (d p : Nat) (h : U.length ≤ d) : rowsMat U d p = 0 := by
  simp [rowsMat, List.getD_eq_getElem?_getD, List.getElem?_eq_none h, sum_nil]

/-! ### data vector through the unique mappings -/

theorem dataVectorWTilde_spec (wtd : List α) (U : Rows α) (n : Nat) :
    (Impl.dataVectorWTilde wtd U n).size = n ∧
    ∀ p, p < n → (Impl.dataVectorWTilde wtd U n).get p
      = sumRange wtd.length fun d => rowsMat U d p * vget wtd d := by
  have hin : ∀ d0 : Nat, Additive (fun (v : Vec α) k => v.get k) (fun v => v.size = n)
      (fun k => k < n) (fun dv (e : Nat × α) => dv.add e.1 (e.2 * vget wtd d0))
      (fun e k => if k = e.1 then e.2 * vget wtd d0 else 0) :=
    fun d0 => Vec.additive_add n (fun e : Nat × α => e.1) _
  have hout := (Additive.nest (fun d0 => U.getD d0 []) hin).foldl (List.range wtd.length)
    (Vec.zeros n) (Vec.size_zeros n)
  refine ⟨hout.1, fun p hp => ?_⟩
  simp only [Impl.dataVectorWTilde]
  rw [hout.2 p hp, Vec.get_zeros, zero_add]
  apply sumRange_congr
  intro d _
  simp only [rowsMat]
  rw [← sum_map_mul_right]
  apply sum_map_congr
  intro e _
  by_cases h : e.1 = p
  · simp [h]
  · have : ¬ p = e.1 := fun h' => h h'.symm
    simp [h, this]

/-! ### the quadruple loop -/

theorem offDiagPreload_spec (pre U0 U1 : Rows α) (n0 n1 : Nat) :
    (Impl.offDiagPreload pre U0 n0 U1 n1).r = n0 ∧ (Impl.offDiagPreload pre U0 n0 U1 n1).c = n1 ∧
    ∀ p0 p1, p0 < n0 → p1 < n1 → (Impl.offDiagPreload pre U0 n0 U1 n1).get p0 p1
      = sumRange pre.length fun d0 => sumRange U1.length fun d1 =>
          rowsMat U0 d0 p0 * rowsMat pre d0 d1 * rowsMat U1 d1 p1 := by
  have h1 : ∀ (d0 : Nat) (pe e0 : Nat × α),
      Additive (fun (M : Mat α) (k : Nat × Nat) => M.get k.1 k.2) (fun M => M.r = n0 ∧ M.c = n1)
        (fun k => k.1 < n0 ∧ k.2 < n1)
        (fun F (e1 : Nat × α) => F.add e0.1 e1.1 (e0.2 * e1.2 * pe.2))
        (fun e1 k => if k.1 = e0.1 ∧ k.2 = e1.1 then e0.2 * e1.2 * pe.2 else 0) :=
    fun _ pe e0 => Mat.additive_add n0 n1 (fun _ => e0.1) (fun e1 : Nat × α => e1.1) _
  have h2 := fun (d0 : Nat) (pe : Nat × α) =>
    Additive.nest (fun _ : Nat × α => U1.getD pe.1 []) (h1 d0 pe)
  have h3 := fun (d0 : Nat) => Additive.nest (fun _ : Nat × α => U0.getD d0 []) (h2 d0)
  have h4 := (Additive.nest (fun d0 : Nat => pre.getD d0 []) h3).foldl (List.range pre.length)
    (Mat.zeros n0 n1) ⟨rfl, rfl⟩
  refine ⟨h4.1.1, h4.1.2, fun p0 p1 hp0 hp1 => ?_⟩
  simp only [Impl.offDiagPreload]
  rw [h4.2 (p0, p1) ⟨hp0, hp1⟩, Mat.get_zeros, zero_add]
  apply sumRange_congr
  intro d0 _
  -- Σ_pe Σ_e0 Σ_e1 [..] e0.2 e1.2 pe.2 = Σ_pe pe.2 * (M0 d0 p0 * M1 pe.1 p1)
  have hpe : ∀ pe : Nat × α,
      Model.sum ((U0.getD d0 []).map fun e0 => Model.sum ((U1.getD pe.1 []).map fun e1 =>
        if p0 = e0.1 ∧ p1 = e1.1 then e0.2 * e1.2 * pe.2 else 0))
      = pe.2 * (rowsMat U0 d0 p0 * rowsMat U1 pe.1 p1) := by
    intro pe
    have hin : ∀ e0 : Nat × α,
        Model.sum ((U1.getD pe.1 []).map fun e1 =>
          if p0 = e0.1 ∧ p1 = e1.1 then e0.2 * e1.2 * pe.2 else 0)
        = (if e0.1 = p0 then e0.2 else 0) * (pe.2 * rowsMat U1 pe.1 p1) := by
      intro e0
      simp only [rowsMat]
      rw [← sum_map_mul_left, ← sum_map_mul_left]
      apply sum_map_congr
      intro e1 _
      by_cases ha : e0.1 = p0 <;> by_cases hb : e1.1 = p1
      · simp [ha, hb]; ring
      · have : ¬ p1 = e1.1 := fun h => hb h.symm
        simp [ha, hb, this]
      · have : ¬ p0 = e0.1 := fun h => ha h.symm
        simp [ha, hb, this]
      · have : ¬ p0 = e0.1 := fun h => ha h.symm
        simp [ha, hb, this]
    rw [sum_map_congr _ _ _ (fun e0 _ => hin e0), sum_map_mul_right]
    simp only [rowsMat]
    ring
  have : (fun pe : Nat × α => Model.sum ((U0.getD d0 []).map fun e0 =>
        Model.sum ((U1.getD pe.1 []).map fun e1 =>
          if p0 = e0.1 ∧ p1 = e1.1 then e0.2 * e1.2 * pe.2 else 0)))
      = fun pe => pe.2 * (rowsMat U0 d0 p0 * rowsMat U1 pe.1 p1) := funext hpe
  simp only [this]
  rw [sum_row_reindex (pre.getD d0 []) U1.length (fun k => rowsMat U0 d0 p0 * rowsMat U1 k p1)
    (fun k hk => by rw [rowsMat_of_length_le U1 k p1 hk, mul_zero])]
  apply sumRange_congr
  intro d1 _
  simp only [rowsMat]
  ring

end Model
