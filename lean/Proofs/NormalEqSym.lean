/-
Proofs/NormalEqSym.lean — the closing loops of `curvature_matrix_via_w_tilde_curvature_preload_imaging_from`
(`F[i,j] += F[j,i]` then `F[j,i] = F[i,j]` over `j ≥ i`) turn `G` into `G + Gᵀ`; with the quadruple loop this
gives clause C04.d.
-/
import Proofs.NormalEqRows
import Mathlib.Data.List.Nodup

namespace Model
variable {α : Type} [Field α]

/-- the index pairs visited by `for i in range(n): for j in range(i, n):` -/
def upperPairs (n : Nat) : List (Nat × Nat) :=
  (List.range n).flatMap fun i => (List.range' i (n - i)).map fun j => (i, j)

theorem mem_upperPairs {n : Nat} {p : Nat × Nat} : p ∈ upperPairs n ↔ p.1 ≤ p.2 ∧ p.2 < n := by
  obtain ⟨a, b⟩ := p
  simp only [upperPairs, List.mem_flatMap, List.mem_range, List.mem_map, List.mem_range'_1,
    Prod.mk.injEq]
  constructor
  · rintro ⟨i, hi, j, ⟨h1, h2⟩, rfl, rfl⟩
    exact ⟨h1, by omega⟩
  · rintro ⟨h1, h2⟩
    exact ⟨a, by omega, b, ⟨h1, by omega⟩, rfl, rfl⟩

theorem nodup_upperPairs (n : Nat) : (upperPairs n).Nodup := by
  unfold upperPairs
  rw [List.nodup_flatMap]
  constructor
  · intro i _
    exact (List.nodup_range' (s := i) (n := n - i)).map (fun a b h => by simpa using h)
  · have : (List.range n).Pairwise (· ≠ ·) := List.nodup_range
    refine this.imp ?_
    intro i i' hne
    simp only [Function.onFun]
    intro p hp hp'
    simp only [List.mem_map] at hp hp'
    obtain ⟨_, _, rfl⟩ := hp
    obtain ⟨_, _, h⟩ := hp'
    exact hne (by simpa using (congrArg Prod.fst h).symm)

/-- first closing loop over an arbitrary duplicate-free list of pairs `i ≤ j` -/
theorem symA (n : Nat) (l : List (Nat × Nat)) (hle : ∀ p ∈ l, p.1 ≤ p.2) (hnd : l.Nodup)
    (F : Mat α) (hr : F.r = n) (hc : F.c = n) :
    let R := l.foldl (fun F p => F.add p.1 p.2 (F.get p.2 p.1)) F
    R.r = n ∧ R.c = n ∧ ∀ a b, a < n → b < n →
      R.get a b = if (a, b) ∈ l then F.get a b + F.get b a else F.get a b := by
  induction l generalizing F with
  | nil => simp [hr, hc]
  | cons p l ih =>
    obtain ⟨i, j⟩ := p
    have hnd' := List.nodup_cons.mp hnd
    have hij : i ≤ j := hle (i, j) (by simp)
    have := ih (fun q hq => hle q (by simp [hq])) hnd'.2 (F.add i j (F.get j i)) (by simp [hr])
      (by simp [hc])
    simp only [List.foldl_cons]
    refine ⟨this.1, this.2.1, fun a b ha hb => ?_⟩
    rw [this.2.2 a b ha hb]
    have hget : ∀ x y, x < n → y < n → (F.add i j (F.get j i)).get x y
        = F.get x y + if x = i ∧ y = j then F.get j i else 0 :=
      fun x y hx hy => Mat.get_add_of_lt F i j _ x y (by omega) (by omega)
    by_cases hm : (a, b) ∈ l
    · have hne : ¬ (a = i ∧ b = j) := by
        rintro ⟨rfl, rfl⟩; exact hnd'.1 hm
      have hab : a ≤ b := hle (a, b) (by simp [hm])
      have hne' : ¬ (b = i ∧ a = j) := by
        rintro ⟨rfl, rfl⟩
        have : a = b := by omega
        subst this
        exact hnd'.1 hm
      simp only [hm, ↓reduceIte, List.mem_cons, or_true]
      rw [hget a b ha hb, hget b a hb ha]
      simp [hne, hne']
    · rw [if_neg hm, hget a b ha hb]
      by_cases he : a = i ∧ b = j
      · obtain ⟨rfl, rfl⟩ := he
        simp
      · have : ¬ (a, b) = (i, j) := by
          intro h; exact he ⟨congrArg Prod.fst h, congrArg Prod.snd h⟩
        simp [he, hm, this]

/-- second closing loop -/
theorem symB (n : Nat) (l : List (Nat × Nat)) (hle : ∀ p ∈ l, p.1 ≤ p.2) (hnd : l.Nodup)
    (F : Mat α) (hr : F.r = n) (hc : F.c = n) :
    let R := l.foldl (fun F p => F.put p.2 p.1 (F.get p.1 p.2)) F
    R.r = n ∧ R.c = n ∧ ∀ a b, a < n → b < n →
      R.get a b = if (b, a) ∈ l then F.get b a else F.get a b := by
  induction l generalizing F with
  | nil => simp [hr, hc]
  | cons p l ih =>
    obtain ⟨i, j⟩ := p
    have hnd' := List.nodup_cons.mp hnd
    have hij : i ≤ j := hle (i, j) (by simp)
    have := ih (fun q hq => hle q (by simp [hq])) hnd'.2 (F.put j i (F.get i j)) (by simp [hr])
      (by simp [hc])
    simp only [List.foldl_cons]
    refine ⟨this.1, this.2.1, fun a b ha hb => ?_⟩
    rw [this.2.2 a b ha hb]
    have hget : ∀ x y, x < n → y < n → (F.put j i (F.get i j)).get x y
        = if x = j ∧ y = i then F.get i j else F.get x y :=
      fun x y hx hy => Mat.get_put_of_lt F j i _ x y (by omega) (by omega)
    by_cases hm : (b, a) ∈ l
    · have hba : b ≤ a := hle (b, a) (by simp [hm])
      have hne : ¬ (b = j ∧ a = i) := by
        rintro ⟨rfl, rfl⟩
        have : a = b := by omega
        subst this
        exact hnd'.1 hm
      simp only [hm, ↓reduceIte, List.mem_cons, or_true]
      rw [hget b a hb ha]
      simp [hne]
    · rw [if_neg hm, hget a b ha hb]
      by_cases he : a = j ∧ b = i
      · obtain ⟨rfl, rfl⟩ := he
        simp
      · have : ¬ (b, a) = (i, j) := by
          intro h; exact he ⟨congrArg Prod.snd h, congrArg Prod.fst h⟩
        simp [he, hm, this]

theorem foldl_upperPairs {β : Type} (n : Nat) (f : β → Nat × Nat → β) (init : β) :
    (List.range n).foldl (fun F i => (List.range' i (n - i)).foldl (fun F j => f F (i, j)) F) init
      = (upperPairs n).foldl f init := by
  simp [upperPairs, List.foldl_flatMap, List.foldl_map]

/-- `symmetrize G = G + Gᵀ` -/
theorem symmetrize_spec (F : Mat α) (n : Nat) (hr : F.r = n) (hc : F.c = n) :
    (Impl.symmetrize F n).r = n ∧ (Impl.symmetrize F n).c = n ∧
    ∀ a b, a < n → b < n → (Impl.symmetrize F n).get a b = F.get a b + F.get b a := by
  unfold Impl.symmetrize
  have e1 := foldl_upperPairs n (fun (F : Mat α) p => F.add p.1 p.2 (F.get p.2 p.1)) F
  have hA := symA n (upperPairs n) (fun p hp => (mem_upperPairs.mp hp).1) (nodup_upperPairs n) F hr hc
  simp only at e1 hA
  rw [e1]
  have e2 := foldl_upperPairs n (fun (F : Mat α) p => F.put p.2 p.1 (F.get p.1 p.2))
    ((upperPairs n).foldl (fun F p => F.add p.1 p.2 (F.get p.2 p.1)) F)
  have hB := symB n (upperPairs n) (fun p hp => (mem_upperPairs.mp hp).1) (nodup_upperPairs n)
    _ hA.1 hA.2.1
  simp only at e2 hB
  rw [e2]
  refine ⟨hB.1, hB.2.1, fun a b ha hb => ?_⟩
  rw [hB.2.2 a b ha hb]
  by_cases hab : b ≤ a
  · have hm : (b, a) ∈ upperPairs n := mem_upperPairs.mpr ⟨hab, ha⟩
    rw [if_pos hm, hA.2.2 b a hb ha, if_pos hm]
    ring
  · have hm : ¬ (b, a) ∈ upperPairs n := fun h => hab (mem_upperPairs.mp h).1
    have hm' : (a, b) ∈ upperPairs n := mem_upperPairs.mpr ⟨by omega, hb⟩
    rw [if_neg hm, hA.2.2 a b ha hb, if_pos hm']

/-- C04.d, diagonal block: `curvature_matrix_via_w_tilde_curvature_preload_imaging_from` returns
    `Mᵀ W M` whenever the preload rows encode `Ũ` with `Ũ + Ũᵀ = W` (upper triangle, diagonal halved). -/
theorem curvatureFromPreload_spec (pre U : Rows α) (n : Nat) (W : Nat → Nat → α)
    (hlen : pre.length = U.length)
    (hW : ∀ a b, a < U.length → b < U.length → Spec.rowsMat pre a b + Spec.rowsMat pre b a = W a b) :
    (Impl.curvatureFromPreload pre U n).r = n ∧ (Impl.curvatureFromPreload pre U n).c = n ∧
    ∀ p0 p1, p0 < n → p1 < n → (Impl.curvatureFromPreload pre U n).get p0 p1
      = sumRange U.length fun a => sumRange U.length fun b =>
          Spec.rowsMat U a p0 * W a b * Spec.rowsMat U b p1 := by
  obtain ⟨h1, h2, h3⟩ := offDiagPreload_spec pre U U n n
  obtain ⟨s1, s2, s3⟩ := symmetrize_spec (Impl.offDiagPreload pre U n U n) n h1 h2
  refine ⟨s1, s2, fun p0 p1 hp0 hp1 => ?_⟩
  unfold Impl.curvatureFromPreload
  rw [s3 p0 p1 hp0 hp1, h3 p0 p1 hp0 hp1, h3 p1 p0 hp1 hp0, hlen]
  -- swap the summation order of the transposed term
  rw [sumRange_comm U.length U.length
    (fun d0 d1 => Spec.rowsMat U d0 p1 * Spec.rowsMat pre d0 d1 * Spec.rowsMat U d1 p0)]
  rw [← sumRange_add]
  apply sumRange_congr
  intro a ha
  rw [← sumRange_add]
  apply sumRange_congr
  intro b hb
  rw [← hW a b ha hb]
  ring

/-- C04.d, mapper–mapper off-diagonal block: `off_diag_0 + off_diag_1.T = M₀ᵀ W M₁` -/
theorem offDiagBlock_spec (pre U0 U1 : Rows α) (n0 n1 : Nat) (W : Nat → Nat → α)
    (hlen0 : pre.length = U0.length) (hlen1 : pre.length = U1.length)
    (hW : ∀ a b, a < pre.length → b < pre.length →
      Spec.rowsMat pre a b + Spec.rowsMat pre b a = W a b) :
    ∀ p0 p1, p0 < n0 → p1 < n1 →
      (Mat.plus (Impl.offDiagPreload pre U0 n0 U1 n1)
        (Mat.transpose (Impl.offDiagPreload pre U1 n1 U0 n0))).get p0 p1
      = sumRange pre.length fun a => sumRange pre.length fun b =>
          Spec.rowsMat U0 a p0 * W a b * Spec.rowsMat U1 b p1 := by
  intro p0 p1 hp0 hp1
  obtain ⟨h1, h2, h3⟩ := offDiagPreload_spec pre U0 U1 n0 n1
  obtain ⟨g1, g2, g3⟩ := offDiagPreload_spec pre U1 U0 n1 n0
  unfold Mat.plus Mat.transpose
  rw [Mat.get_ofFn, if_pos ⟨by omega, by omega⟩, Mat.get_ofFn, if_pos ⟨by omega, by omega⟩,
    h3 p0 p1 hp0 hp1, g3 p1 p0 hp1 hp0, ← hlen0, ← hlen1]
  rw [sumRange_comm pre.length pre.length
    (fun d0 d1 => Spec.rowsMat U1 d0 p1 * Spec.rowsMat pre d0 d1 * Spec.rowsMat U0 d1 p0)]
  rw [← sumRange_add]
  apply sumRange_congr
  intro a ha
  rw [← sumRange_add]
  apply sumRange_congr
  intro b hb
  rw [← hW a b ha hb]
  ring

end Model
