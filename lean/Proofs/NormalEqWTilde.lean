/-
Proofs/NormalEqWTilde.lean — clauses C04.b/c over the concrete kernel loops:
  * the convolver's frame table stores the PSF matrix `P[t, a] = K[t − a + half]`;
  * `w_tilde_data_imaging_from`      computes `Pᵀ N⁻¹ d`;
  * `w_tilde_curvature_value_from`   computes `(Pᵀ N⁻¹ P)[a, b]`;
  * `w_tilde_curvature_preload_imaging_from` stores its upper triangle with the diagonal halved.
-/
import Proofs.NormalEqKernel

namespace Model

variable {α : Type} [Field α] [LinearOrder α] [IsStrictOrderedRing α]

open Spec

/-! ### frames -/

theorem frameAt_eq (m : Mask) (K : Kernel α) (idx : List (Nat × Nat)) (c : Nat × Nat) :
    Impl.frameAt m K idx c
      = ((pixels K.kh K.kw).filter fun p => decide (validOff K c p ∧ (tgt K c p).1 < m.h ∧
            (tgt K c p).2 < m.w ∧ m.get (tgt K c p).1 (tgt K c p).2 = false)).map
          fun p => (idx.idxOf (tgt K c p), K.get p.1 p.2) := by
  unfold Impl.frameAt
  rw [forYX_eq_foldl]
  have := foldl_append_if (pixels K.kh K.kw)
    (fun p => decide (validOff K c p ∧ (tgt K c p).1 < m.h ∧ (tgt K c p).2 < m.w ∧
      m.get (tgt K c p).1 (tgt K c p).2 = false))
    (fun p => (idx.idxOf (tgt K c p), K.get p.1 p.2)) []
  rw [List.nil_append] at this
  rw [← this]
  congr 1
  funext acc p
  simp only [validOff, tgt, decide_eq_true_eq]
  by_cases h1 : K.hy ≤ c.1 + p.1 ∧ c.1 + p.1 - K.hy < m.h ∧ K.hx ≤ c.2 + p.2 ∧ c.2 + p.2 - K.hx < m.w
  · rw [if_pos h1]
    by_cases hm : m.get (c.1 + p.1 - K.hy) (c.2 + p.2 - K.hx) = true
    · simp [hm]
    · have hm' : m.get (c.1 + p.1 - K.hy) (c.2 + p.2 - K.hx) = false := by
        cases h : m.get (c.1 + p.1 - K.hy) (c.2 + p.2 - K.hx) with
        | true => exact absurd h hm
        | false => rfl
      simp [hm', h1.1, h1.2.1, h1.2.2.1, h1.2.2.2]
  · rw [if_neg h1]
    have : ¬ ((K.hy ≤ c.1 + p.1 ∧ K.hx ≤ c.2 + p.2) ∧ c.1 + p.1 - K.hy < m.h ∧
        c.2 + p.2 - K.hx < m.w ∧ m.get (c.1 + p.1 - K.hy) (c.2 + p.2 - K.hx) = false) := by
      intro h; exact h1 ⟨h.1.1, h.2.1, h.1.2, h.2.2.1⟩
    simp [this]

/-- the frame table of the convolver is the PSF matrix (C03.a restricted to unmasked sources) -/
theorem frameMat_frames (m : Mask) (K : Kernel α) (t a : Nat)
    (ht : t < (Spec.unmaskedPixels m).length) (ha : a < (Spec.unmaskedPixels m).length) :
    frameMat (Impl.frames m K) t a = pMat K (Spec.unmaskedPixels m) t a := by
  have hnd := unmaskedPixels_nodup m
  simp only [frameMat, rowsMat, Impl.frames, nativeForSlim_eq, pMat]
  have hrow : ((Spec.unmaskedPixels m).map fun c => Impl.frameAt m K (Spec.unmaskedPixels m) c).getD a []
      = Impl.frameAt m K (Spec.unmaskedPixels m) ((Spec.unmaskedPixels m).getD a (0, 0)) := by
    simp [List.getD_eq_getElem?_getD, List.getElem?_map, List.getElem?_eq_getElem ha]
  rw [hrow, frameAt_eq, sum_map_map, sum_map_filter, ← pEntry_as_sum]
  apply sum_map_congr
  intro p _
  set c := (Spec.unmaskedPixels m).getD a (0, 0)
  set d := (Spec.unmaskedPixels m).getD t (0, 0)
  have hd : d ∈ Spec.unmaskedPixels m := by
    simp only [d, List.getD_eq_getElem?_getD, List.getElem?_eq_getElem ht, Option.getD_some]
    exact List.getElem_mem ht
  by_cases hcond : validOff K c p ∧ (tgt K c p).1 < m.h ∧ (tgt K c p).2 < m.w ∧
      m.get (tgt K c p).1 (tgt K c p).2 = false
  · have hmem : tgt K c p ∈ Spec.unmaskedPixels m := mem_unmaskedPixels.mpr hcond.2
    simp only [hcond, and_self, decide_true, ↓reduceIte, true_and]
    by_cases he : (Spec.unmaskedPixels m).idxOf (tgt K c p) = t
    · have hthis : tgt K c p = d := by
        have := getD_idxOf hmem
        rw [he] at this
        exact this.symm
      have hd' : (Spec.unmaskedPixels m).idxOf d = t := idxOf_getD hnd t ht
      rw [hthis] at he ⊢
      simp [hd']
    · have : ¬ tgt K c p = d := by
        intro h
        apply he
        rw [h]
        exact idxOf_getD hnd t ht
      simp [he, this]
  · have : ¬ (validOff K c p ∧ tgt K c p = d) := by
      rintro ⟨h1, h2⟩
      apply hcond
      rw [h2]
      exact ⟨h1, mem_unmaskedPixels.mp hd⟩
    simp [hcond, this]

/-! ### `w_tilde_data_imaging_from` -/

theorem map_getD_lt {β γ : Type} (l : List β) (f : β → γ) (k : Nat) (hk : k < l.length) (d : β)
    (d' : γ) : (l.map f).getD k d' = f (l.getD k d) := by
  simp [List.getD_eq_getElem?_getD, List.getElem?_map, List.getElem?_eq_getElem hk]

theorem forYX_cond_add (h w : Nat) (c : Nat → Nat → Prop) [∀ y x, Decidable (c y x)]
    (f : Nat → Nat → α) :
    forYX h w (fun v y x => if c y x then v else v + f y x) 0
      = Model.sum ((pixels h w).map fun p => if c p.1 p.2 then 0 else f p.1 p.2) := by
  apply forYX_add_fn
  intro v y x
  by_cases hc : c y x
  · simp [hc]
  · simp [hc]

theorem forYX_cond2_add (h w : Nat) (a b : Nat → Nat → Prop) [∀ y x, Decidable (a y x)]
    [∀ y x, Decidable (b y x)] (f : Nat → Nat → α) :
    forYX h w (fun v y x => if a y x then (if b y x then v + f y x else v) else v) 0
      = Model.sum ((pixels h w).map fun p =>
          if a p.1 p.2 then (if b p.1 p.2 then f p.1 p.2 else 0) else 0) := by
  apply forYX_add_fn
  intro v y x
  by_cases ha : a y x <;> by_cases hb : b y x <;> simp [ha, hb]

/-- a native read at kernel offset `p` from an unmasked centre `c` (footprint inside the frame) -/
theorem native_read_off (m : Mask) (K : Kernel α) (hf : Footprint m K) (s : List α) {c p : Nat × Nat}
    (hc : c ∈ Spec.unmaskedPixels m) (hp : p ∈ pixels K.kh K.kw) :
    validOff K c p ∧
    vget (Impl.nativeFrom m s 0) ((c.1 + p.1 - K.hy) * m.w + (c.2 + p.2 - K.hx))
      = if tgt K c p ∈ Spec.unmaskedPixels m then
          vget s ((Spec.unmaskedPixels m).idxOf (tgt K c p)) else 0 := by
  obtain ⟨hv, h1, h2⟩ := hf.tgt_lt hc hp
  refine ⟨hv, ?_⟩
  have := native_read m s (tgt K c p) h1 h2
  simpa only [tgt] using this

/-- C04.b (first half): `w_tilde_data[a] = Σ_d P[d, a] · d_d / σ_d²` -/
theorem wTildeData_spec (m : Mask) (K : Kernel α) (data noise : List α) (hf : Footprint m K)
    (a : Nat) (ha : a < (Spec.unmaskedPixels m).length) :
    vget (Impl.wTildeData m.w (Impl.nativeFrom m data 0) (Impl.nativeFrom m noise 0) K
        (Spec.unmaskedPixels m)) a
      = sumRange (Spec.unmaskedPixels m).length fun d =>
          pMat K (Spec.unmaskedPixels m) d a * (vget data d / (vget noise d * vget noise d)) := by
  have hnd := unmaskedPixels_nodup m
  have hcm : (Spec.unmaskedPixels m).getD a (0, 0) ∈ Spec.unmaskedPixels m := by
    simp only [List.getD_eq_getElem?_getD, List.getElem?_eq_getElem ha, Option.getD_some]
    exact List.getElem_mem ha
  generalize hcdef : (Spec.unmaskedPixels m).getD a (0, 0) = c at hcm
  have hunf : vget (Impl.wTildeData m.w (Impl.nativeFrom m data 0) (Impl.nativeFrom m noise 0) K
        (Spec.unmaskedPixels m)) a
      = forYX K.kh K.kw (fun value k0y k0x =>
          if vget (Impl.nativeFrom m data 0) ((c.1 + k0y - K.hy) * m.w + (c.2 + k0x - K.hx)) = 0 ∧
            vget (Impl.nativeFrom m noise 0) ((c.1 + k0y - K.hy) * m.w + (c.2 + k0x - K.hx))
              * vget (Impl.nativeFrom m noise 0) ((c.1 + k0y - K.hy) * m.w + (c.2 + k0x - K.hx)) = 0
          then value
          else value + K.get k0y k0x *
            (vget (Impl.nativeFrom m data 0) ((c.1 + k0y - K.hy) * m.w + (c.2 + k0x - K.hx)) /
              (vget (Impl.nativeFrom m noise 0) ((c.1 + k0y - K.hy) * m.w + (c.2 + k0x - K.hx))
                * vget (Impl.nativeFrom m noise 0) ((c.1 + k0y - K.hy) * m.w + (c.2 + k0x - K.hx))))) 0 := by
    unfold Impl.wTildeData
    show ((Spec.unmaskedPixels m).map _).getD a 0 = _
    rw [map_getD_lt _ _ a ha (0, 0) 0, hcdef]
  rw [hunf, forYX_cond_add]
  have hterm : ∀ p ∈ pixels K.kh K.kw,
      (if vget (Impl.nativeFrom m data 0) ((c.1 + p.1 - K.hy) * m.w + (c.2 + p.2 - K.hx)) = 0 ∧
            vget (Impl.nativeFrom m noise 0) ((c.1 + p.1 - K.hy) * m.w + (c.2 + p.2 - K.hx))
              * vget (Impl.nativeFrom m noise 0) ((c.1 + p.1 - K.hy) * m.w + (c.2 + p.2 - K.hx)) = 0
          then 0
          else K.get p.1 p.2 *
            (vget (Impl.nativeFrom m data 0) ((c.1 + p.1 - K.hy) * m.w + (c.2 + p.2 - K.hx)) /
              (vget (Impl.nativeFrom m noise 0) ((c.1 + p.1 - K.hy) * m.w + (c.2 + p.2 - K.hx))
                * vget (Impl.nativeFrom m noise 0) ((c.1 + p.1 - K.hy) * m.w + (c.2 + p.2 - K.hx)))))
      = if validOff K c p ∧ tgt K c p ∈ Spec.unmaskedPixels m then
          K.get p.1 p.2 * (vget data ((Spec.unmaskedPixels m).idxOf (tgt K c p)) /
            (vget noise ((Spec.unmaskedPixels m).idxOf (tgt K c p))
              * vget noise ((Spec.unmaskedPixels m).idxOf (tgt K c p))))
        else 0 := by
    intro p hp
    obtain ⟨hv, hd⟩ := native_read_off m K hf data hcm hp
    obtain ⟨_, hn⟩ := native_read_off m K hf noise hcm hp
    rw [hd, hn]
    by_cases hm : tgt K c p ∈ Spec.unmaskedPixels m
    · simp only [if_pos hm, if_pos (show validOff K c p ∧ tgt K c p ∈ Spec.unmaskedPixels m from ⟨hv, hm⟩)]
      by_cases hz : vget data ((Spec.unmaskedPixels m).idxOf (tgt K c p)) = 0 ∧
          vget noise ((Spec.unmaskedPixels m).idxOf (tgt K c p))
            * vget noise ((Spec.unmaskedPixels m).idxOf (tgt K c p)) = 0
      · rw [if_pos hz, hz.1, zero_div, mul_zero]
      · rw [if_neg hz]
    · simp only [if_neg hm,
        if_neg (fun h : validOff K c p ∧ tgt K c p ∈ Spec.unmaskedPixels m => hm h.2)]
      simp
  rw [sum_map_congr _ _ _ hterm, kernel_sum_reindex K _ hnd c
      (fun t => vget data ((Spec.unmaskedPixels m).idxOf t) /
        (vget noise ((Spec.unmaskedPixels m).idxOf t) * vget noise ((Spec.unmaskedPixels m).idxOf t))),
    sum_map_getD (Spec.unmaskedPixels m) (0, 0)]
  apply sumRange_congr
  intro d hd
  rw [idxOf_getD hnd d hd]
  simp only [pMat, hcdef]

/-! ### `w_tilde_curvature_value_from` -/

theorem pEntry_mul_zero_of_far (K : Kernel α) (d ip0 ip1 : Nat × Nat)
    (hfar : (ip0.1 : Int) - ip1.1 < 2 * -(K.hy : Int) ∨ (ip0.1 : Int) - ip1.1 > -2 * -(K.hy : Int) ∨
      (ip0.2 : Int) - ip1.2 < 2 * -(K.hx : Int) ∨ (ip0.2 : Int) - ip1.2 > -2 * -(K.hx : Int)) :
    pEntry K d ip0 * pEntry K d ip1 = 0 := by
  simp only [pEntry]
  have hy : K.kh ≤ 2 * K.hy + 1 := by simp only [Kernel.hy]; omega
  have hx : K.kw ≤ 2 * K.hx + 1 := by simp only [Kernel.hx]; omega
  by_cases h0 : ip0.1 ≤ d.1 + K.hy ∧ d.1 + K.hy - ip0.1 < K.kh ∧ ip0.2 ≤ d.2 + K.hx ∧
      d.2 + K.hx - ip0.2 < K.kw
  · have h1 : ¬ (ip1.1 ≤ d.1 + K.hy ∧ d.1 + K.hy - ip1.1 < K.kh ∧ ip1.2 ≤ d.2 + K.hx ∧
        d.2 + K.hx - ip1.2 < K.kw) := by
      intro h1
      omega
    rw [if_neg h1, mul_zero]
  · rw [if_neg h0, zero_mul]

/-- C04.c: `w_tilde_curvature_value_from(noise_native, K, ip0, ip1) = Σ_d P[d,a] P[d,b] / σ_d²` -/
theorem wTildeCurvatureValue_spec (m : Mask) (K : Kernel α) (noise : List α) (hf : Footprint m K)
    (hpos : ∀ k, k < (Spec.unmaskedPixels m).length → 0 < vget noise k)
    (a b : Nat) (ha : a < (Spec.unmaskedPixels m).length) (hb : b < (Spec.unmaskedPixels m).length) :
    Impl.wTildeCurvatureValue m.w (Impl.nativeFrom m noise 0) K
        ((Spec.unmaskedPixels m).getD a (0, 0)) ((Spec.unmaskedPixels m).getD b (0, 0))
      = wTilde K (Spec.unmaskedPixels m) noise a b := by
  have hnd := unmaskedPixels_nodup m
  have hcm : (Spec.unmaskedPixels m).getD a (0, 0) ∈ Spec.unmaskedPixels m := by
    simp only [List.getD_eq_getElem?_getD, List.getElem?_eq_getElem ha, Option.getD_some]
    exact List.getElem_mem ha
  unfold wTilde
  simp only [pMat]
  generalize (Spec.unmaskedPixels m).getD a (0, 0) = ip0 at hcm
  generalize (Spec.unmaskedPixels m).getD b (0, 0) = ip1
  unfold Impl.wTildeCurvatureValue
  dsimp only
  by_cases hfar : (ip0.1 : Int) - ip1.1 < 2 * -(K.hy : Int) ∨ (ip0.1 : Int) - ip1.1 > -2 * -(K.hy : Int) ∨
      (ip0.2 : Int) - ip1.2 < 2 * -(K.hx : Int) ∨ (ip0.2 : Int) - ip1.2 > -2 * -(K.hx : Int)
  · rw [if_pos hfar]
    symm
    apply sumRange_eq_zero
    intro d _
    rw [pEntry_mul_zero_of_far K _ ip0 ip1 hfar, zero_mul]
  · rw [if_neg hfar, forYX_cond2_add]
    have hterm : ∀ p ∈ pixels K.kh K.kw,
        (if 0 < vget (Impl.nativeFrom m noise 0) ((ip0.1 + p.1 - K.hy) * m.w + (ip0.2 + p.2 - K.hx)) then
          (if 0 ≤ (p.1 : Int) + ((ip0.1 : Int) - ip1.1) ∧ 0 ≤ (p.2 : Int) + ((ip0.2 : Int) - ip1.2) ∧
              (p.1 : Int) + ((ip0.1 : Int) - ip1.1) < (K.kh : Int) ∧
              (p.2 : Int) + ((ip0.2 : Int) - ip1.2) < (K.kw : Int) then
            K.get p.1 p.2 * K.get ((p.1 : Int) + ((ip0.1 : Int) - ip1.1)).toNat
                ((p.2 : Int) + ((ip0.2 : Int) - ip1.2)).toNat
              * (1 / vget (Impl.nativeFrom m noise 0) ((ip0.1 + p.1 - K.hy) * m.w + (ip0.2 + p.2 - K.hx))
                * (1 / vget (Impl.nativeFrom m noise 0)
                    ((ip0.1 + p.1 - K.hy) * m.w + (ip0.2 + p.2 - K.hx))))
          else 0)
        else 0)
        = if validOff K ip0 p ∧ tgt K ip0 p ∈ Spec.unmaskedPixels m then
            K.get p.1 p.2 * (pEntry K (tgt K ip0 p) ip1 *
              (1 / vget noise ((Spec.unmaskedPixels m).idxOf (tgt K ip0 p))
                * (1 / vget noise ((Spec.unmaskedPixels m).idxOf (tgt K ip0 p)))))
          else 0 := by
      intro p hp
      obtain ⟨hv, hn⟩ := native_read_off m K hf noise hcm hp
      rw [hn]
      by_cases hm : tgt K ip0 p ∈ Spec.unmaskedPixels m
      · have hlt : (Spec.unmaskedPixels m).idxOf (tgt K ip0 p) < (Spec.unmaskedPixels m).length :=
          List.idxOf_lt_length_iff.mpr hm
        simp only [if_pos hm, if_pos (hpos _ hlt),
          if_pos (show validOff K ip0 p ∧ tgt K ip0 p ∈ Spec.unmaskedPixels m from ⟨hv, hm⟩)]
        simp only [pEntry]
        obtain ⟨v1, v2⟩ := hv
        have ht1 : (tgt K ip0 p).1 = ip0.1 + p.1 - K.hy := rfl
        have ht2 : (tgt K ip0 p).2 = ip0.2 + p.2 - K.hx := rfl
        by_cases hin : 0 ≤ (p.1 : Int) + ((ip0.1 : Int) - ip1.1) ∧
            0 ≤ (p.2 : Int) + ((ip0.2 : Int) - ip1.2) ∧
            (p.1 : Int) + ((ip0.1 : Int) - ip1.1) < (K.kh : Int) ∧
            (p.2 : Int) + ((ip0.2 : Int) - ip1.2) < (K.kw : Int)
        · have hin' : ip1.1 ≤ (tgt K ip0 p).1 + K.hy ∧ (tgt K ip0 p).1 + K.hy - ip1.1 < K.kh ∧
              ip1.2 ≤ (tgt K ip0 p).2 + K.hx ∧ (tgt K ip0 p).2 + K.hx - ip1.2 < K.kw := by
            omega
          have e1 : ((p.1 : Int) + ((ip0.1 : Int) - ip1.1)).toNat = (tgt K ip0 p).1 + K.hy - ip1.1 := by
            omega
          have e2 : ((p.2 : Int) + ((ip0.2 : Int) - ip1.2)).toNat = (tgt K ip0 p).2 + K.hx - ip1.2 := by
            omega
          rw [if_pos hin, if_pos hin', e1, e2]
          ring
        · have hin' : ¬ (ip1.1 ≤ (tgt K ip0 p).1 + K.hy ∧ (tgt K ip0 p).1 + K.hy - ip1.1 < K.kh ∧
              ip1.2 ≤ (tgt K ip0 p).2 + K.hx ∧ (tgt K ip0 p).2 + K.hx - ip1.2 < K.kw) := by
            intro h; apply hin; omega
          rw [if_neg hin, if_neg hin']
          ring
      · simp only [if_neg hm, if_neg (lt_irrefl (0 : α)),
          if_neg (fun h : validOff K ip0 p ∧ tgt K ip0 p ∈ Spec.unmaskedPixels m => hm h.2)]
    rw [sum_map_congr _ _ _ hterm, kernel_sum_reindex K _ hnd ip0
        (fun t => pEntry K t ip1 * (1 / vget noise ((Spec.unmaskedPixels m).idxOf t)
          * (1 / vget noise ((Spec.unmaskedPixels m).idxOf t)))),
      sum_map_getD (Spec.unmaskedPixels m) (0, 0)]
    apply sumRange_congr
    intro d hd
    rw [idxOf_getD hnd d hd]
    ring

theorem wTilde_symm (K : Kernel α) (idx : List (Nat × Nat)) (noise : List α) (a b : Nat) :
    wTilde K idx noise a b = wTilde K idx noise b a := by
  unfold wTilde
  apply sumRange_congr
  intro d _
  ring

end Model
