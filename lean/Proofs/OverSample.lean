/-
Proofs/OverSample.lean — loop refinement lemmas for Model/OverSample.lean (core Lean only):
the transliterated loops of the over-sampling utilities equal their list-comprehension forms.
Field arithmetic lives in Proofs/OverSampleField.lean, the iterate loop in Proofs/OverSampleIterate.lean.
-/
import Model.OverSample
import Proofs.Slim

namespace Model

/-! ### generic loop shapes -/

theorem foldl_append_all (l : List γ) (g : γ → δ) (init : List δ) :
    l.foldl (fun acc p => acc ++ [g p]) init = init ++ l.map g := by
  induction l generalizing init with
  | nil => simp
  | cons a l ih => simp [ih]

theorem forYX_append (h w : Nat) (g : Nat → Nat → δ) (init : List δ) :
    forYX h w (fun acc y x => acc ++ [g y x]) init = init ++ (pixels h w).map fun q => g q.1 q.2 := by
  rw [forYX_eq_foldl]
  exact foldl_append_all (pixels h w) (fun q => g q.1 q.2) init

/-- a loop that appends a whole block per selected element, the block depending on a running index -/
theorem block_loop (l : List γ) (c : γ → Bool) (blk : γ → Nat → List δ) (acc : List δ) (n : Nat) :
    l.foldl (fun (st : List δ × Nat) p => if c p then (st.1 ++ blk p st.2, st.2 + 1) else st) (acc, n)
      = (acc ++ ((l.filter c).zipIdx n).flatMap (fun q => blk q.1 q.2), n + (l.filter c).length) := by
  induction l generalizing acc n with
  | nil => simp
  | cons a l ih =>
    simp only [List.foldl_cons, List.filter_cons]
    split
    · rw [ih]; simp [List.zipIdx_cons, List.flatMap_cons]; omega
    · rw [ih]

/-- partial sums of block sizes -/
def offs (sz : Nat → Nat) (k : Nat) : Nat := ((List.range k).map sz).sum

theorem offs_succ (sz : Nat → Nat) (k : Nat) : offs sz (k + 1) = offs sz k + sz k := by
  simp [offs, List.range_succ]

theorem offs_mono (sz : Nat → Nat) {j k : Nat} (h : j ≤ k) : offs sz j ≤ offs sz k := by
  induction k with
  | zero => have : j = 0 := by omega
            subst this; exact Nat.le_refl _
  | succ k ih =>
    rcases Nat.lt_or_ge j (k + 1) with h1 | h1
    · have := ih (by omega); rw [offs_succ]; omega
    · have : j = k + 1 := by omega
      subst this; exact Nat.le_refl _

/-- a loop with two running counters: element index `k` and offset `offs sz k` -/
theorem offset_loop (l : List γ) (c : γ → Bool) (sz : Nat → Nat) (val : Nat → Nat → δ)
    (acc : List δ) (k : Nat) :
    l.foldl (fun (st : List δ × Nat × Nat) p =>
        if c p then (st.1 ++ [val st.2.1 st.2.2], st.2.1 + 1, st.2.2 + sz st.2.1) else st)
        (acc, k, offs sz k)
      = (acc ++ (List.range' k (l.filter c).length).map (fun j => val j (offs sz j)),
         k + (l.filter c).length, offs sz (k + (l.filter c).length)) := by
  induction l generalizing acc k with
  | nil => simp
  | cons a l ih =>
    simp only [List.foldl_cons, List.filter_cons]
    split
    · rw [← offs_succ, ih]
      have e1 : k + 1 + (List.filter c l).length = k + ((List.filter c l).length + 1) := by omega
      simp only [List.length_cons, List.range'_succ, List.map_cons, List.append_assoc,
        List.singleton_append, e1]
    · rw [ih]

/-- the accumulate-and-count inner loop of `binned_array_2d_from` -/
theorem accum_loop [Add δ] (l : List γ) (hv : Nat → δ) (v0 : δ) (off : Nat) :
    l.foldl (fun (v : δ × Nat) _ => (v.1 + hv v.2, v.2 + 1)) (v0, off)
      = (((List.range l.length).map fun j => hv (off + j)).foldl (· + ·) v0, off + l.length) := by
  induction l generalizing v0 off with
  | nil => simp
  | cons a l ih =>
    simp only [List.foldl_cons, List.length_cons]
    rw [ih, List.range_succ_eq_map]
    simp only [List.map_cons, List.map_map, List.foldl_cons, Nat.add_zero]
    have e1 : (fun j => hv (off + 1 + j)) = (fun j => hv (off + j)) ∘ Nat.succ := by
      funext j; simp only [Function.comp]; congr 1; omega
    have e2 : off + 1 + l.length = off + (l.length + 1) := by omega
    rw [e1, e2]

theorem zipIdx_flatMap_snd (l : List γ) (n : Nat) (F : Nat → List δ) :
    (l.zipIdx n).flatMap (fun q => F q.2) = (List.range' n l.length).flatMap F := by
  induction l generalizing n with
  | nil => simp
  | cons a l ih => simp [List.zipIdx_cons, List.range'_succ, ih]

end Model

namespace Model

theorem foldl_append_blocks (l : List γ) (B : γ → List δ) (init : List δ) :
    l.foldl (fun acc i => acc ++ B i) init = init ++ l.flatMap B := by
  induction l generalizing init with
  | nil => simp
  | cons a l ih => simp [ih]

theorem map_const_pixels (s : Nat) (k : δ) : (pixels s s).map (fun _ => k) = List.replicate (s * s) k := by
  rw [List.map_const', pixels_length]

theorem offset_eq_offs (sub : List Nat) :
    Spec.offset sub = offs (fun j => sub.getD j 0 * sub.getD j 0) := rfl

/-! ### index tables -/

/-- `slim_index_for_sub_slim_index_via_mask_2d_from` = each slim index repeated `sub²` times -/
theorem slimForSubSlim_eq (m : Mask) (sub : List Nat) :
    Impl.slimForSubSlim m sub = Spec.slimForSubSlim (Spec.unmaskedPixels m).length sub := by
  unfold Impl.slimForSubSlim Spec.slimForSubSlim
  dsimp only
  rw [forYX_eq_foldl]
  have := block_loop (pixels m.h m.w) (fun p => !m.get p.1 p.2)
    (fun _ k => List.replicate (sub.getD k 0 * sub.getD k 0) k) [] 0
  simp only [forYX_append, map_const_pixels]
  simp only [List.nil_append] at this
  rw [this]
  show ((Spec.unmaskedPixels m).zipIdx 0).flatMap _ = _
  rw [zipIdx_flatMap_snd (Spec.unmaskedPixels m) 0
    (fun k => List.replicate (sub.getD k 0 * sub.getD k 0) k), List.range_eq_range']

/-- `native_sub_index_for_slim_sub_index_2d_from` -/
theorem subNativeForSubSlim_eq (m : Mask) (sub : List Nat) :
    Impl.subNativeForSubSlim m sub
      = (Spec.slimPixels m).flatMap fun pk =>
          (pixels (sub.getD pk.2 0) (sub.getD pk.2 0)).map fun q =>
            (pk.1.1 * sub.getD pk.2 0 + q.1, pk.1.2 * sub.getD pk.2 0 + q.2) := by
  unfold Impl.subNativeForSubSlim Spec.slimPixels Spec.unmaskedPixels
  dsimp only
  rw [forYX_eq_foldl]
  have := block_loop (pixels m.h m.w) (fun p => !m.get p.1 p.2)
    (fun p k => (pixels (sub.getD k 0) (sub.getD k 0)).map fun q =>
      (p.1 * sub.getD k 0 + q.1, p.2 * sub.getD k 0 + q.2)) [] 0
  simp only [forYX_append]
  simp only [List.nil_append] at this
  rw [this]

/-! ### the grids -/
section grid
variable {α : Type} [Add α] [Sub α] [Mul α] [Div α] [Neg α] [NatCast α] [OfNat α 1] [OfNat α 2]

/-- `grid_2d_slim_over_sampled_via_mask_from` as a comprehension: slim pixel by slim pixel, then `y1`,
    then `x1`, each point computed by the code's own expression -/
theorem overSampledGrid_loop (m : Mask) (sub : List Nat) (g : Geom α) :
    Impl.overSampledGrid m sub g
      = (Spec.slimPixels m).flatMap fun pk =>
          (pixels (sub.getD pk.2 0) (sub.getD pk.2 0)).map fun q =>
            Impl.subPoint g (Impl.centresScaled m.h m.w g) pk.1.1 pk.1.2 (sub.getD pk.2 0) q.1 q.2 := by
  unfold Impl.overSampledGrid Spec.slimPixels Spec.unmaskedPixels
  dsimp only
  rw [forYX_eq_foldl]
  have := block_loop (pixels m.h m.w) (fun p => !m.get p.1 p.2)
    (fun p k => (pixels (sub.getD k 0) (sub.getD k 0)).map fun q =>
      Impl.subPoint g (Impl.centresScaled m.h m.w g) p.1 p.2 (sub.getD k 0) q.1 q.2) [] 0
  simp only [forYX_append]
  simp only [List.nil_append] at this
  rw [this]

/-- `grid_2d_slim_via_mask_from` as a comprehension -/
theorem unmaskedGrid_loop (m : Mask) (g : Geom α) :
    Impl.unmaskedGrid m g
      = (Spec.unmaskedPixels m).map fun p =>
          Impl.pixelPoint g (Impl.centresScaled m.h m.w g) p.1 p.2 := by
  unfold Impl.unmaskedGrid Spec.unmaskedPixels
  dsimp only
  rw [forYX_eq_foldl]
  have := foldl_append_if (pixels m.h m.w) (fun p => !m.get p.1 p.2)
    (fun p => Impl.pixelPoint g (Impl.centresScaled m.h m.w g) p.1 p.2) []
  simpa using this

end grid

/-! ### binning -/
section binned
variable {α : Type} [Add α] [Mul α] [Div α] [NatCast α] [OfNat α 0] [OfNat α 1]

omit [Div α] [NatCast α] [OfNat α 1] in
theorem binned_inner (a : List α) (frac : α) (s off : Nat) :
    forYX s s (fun (v : α × Nat) _ _ => (v.1 + a.getD v.2 0 * frac, v.2 + 1)) ((0 : α), off)
      = (((List.range (s * s)).map fun j => a.getD (off + j) 0 * frac).foldl (· + ·) 0, off + s * s) := by
  rw [forYX_eq_foldl]
  have := accum_loop (pixels s s) (fun i => a.getD i 0 * frac) (0 : α) off
  rw [pixels_length] at this
  exact this

/-- `binned_array_2d_from` as a comprehension: entry `k` accumulates, from zero and in order, the
    `sub_k²` values starting at offset `Σ_{j<k} sub_j²`, each times `1/sub_k²` -/
theorem binned_loop (m : Mask) (sub : List Nat) (a : List α) :
    Impl.binned m sub a
      = (List.range (Spec.unmaskedPixels m).length).map fun k =>
          ((List.range (sub.getD k 0 * sub.getD k 0)).map fun j =>
            a.getD (Spec.offset sub k + j) 0 * (1 / ((sub.getD k 0 * sub.getD k 0 : Nat) : α))).foldl
              (· + ·) 0 := by
  unfold Impl.binned
  dsimp only
  rw [forYX_eq_foldl]
  simp only [binned_inner]
  have := offset_loop (pixels m.h m.w) (fun p => !m.get p.1 p.2)
    (fun j => sub.getD j 0 * sub.getD j 0)
    (fun k off => ((List.range (sub.getD k 0 * sub.getD k 0)).map fun j =>
      a.getD (off + j) 0 * (1 / ((sub.getD k 0 * sub.getD k 0 : Nat) : α))).foldl (· + ·) 0) [] 0
  simp only [List.nil_append, offs, List.range_zero, List.map_nil, List.sum_nil] at this
  rw [this]
  simp only [List.range_eq_range', offset_eq_offs, offs]
  rfl

end binned

/-! ### areas -/
section areas
variable {α : Type} [Mul α] [Div α] [NatCast α]

theorem subPixelAreas_loop (sub : List Nat) (g : Geom α) :
    Impl.subPixelAreas sub g
      = (List.range sub.length).flatMap fun i =>
          List.replicate (sub.getD i 0 * sub.getD i 0)
            (g.sy * g.sx / ((sub.getD i 0 * sub.getD i 0 : Nat) : α)) := by
  unfold Impl.subPixelAreas
  dsimp only
  simp only [foldl_append_all, List.map_const', List.length_range]
  rw [foldl_append_blocks]
  simp

end areas

end Model

namespace Model

/-! ### point-update loops (`arr[y, x] = …` under a condition, for every pixel) -/

/-- the row-major double loop visits the flat indices `0 … h*w-1` in order -/
theorem forYX_flat (h w : Nat) (F : β → Nat → β) (init : β) :
    forYX h w (fun acc y x => F acc (y * w + x)) init = (List.range (h * w)).foldl F init := by
  rw [forYX_eq_foldl, ← pixels_map_flat, List.foldl_map]
  rfl

theorem setLoop_length (c : Nat → Bool) (v : Nat → δ) (init : List δ) (n : Nat) :
    ((List.range n).foldl (fun acc i => if c i then acc.set i (v i) else acc) init).length
      = init.length := by
  induction n with
  | zero => simp
  | succ n ih =>
    rw [List.range_succ, List.foldl_append]
    simp only [List.foldl_cons, List.foldl_nil]
    split <;> simp [ih]

theorem setLoop_get (c : Nat → Bool) (v : Nat → δ) (init : List δ) (n j : Nat)
    (hn : n ≤ init.length) :
    ((List.range n).foldl (fun acc i => if c i then acc.set i (v i) else acc) init)[j]?
      = if j < n ∧ c j = true then some (v j) else init[j]? := by
  induction n with
  | zero => simp
  | succ n ih =>
    have ih := ih (by omega)
    rw [List.range_succ, List.foldl_append]
    simp only [List.foldl_cons, List.foldl_nil]
    by_cases hjn : j = n
    · subst hjn
      by_cases hc : c j = true
      · rw [if_pos hc, List.getElem?_set_self (by rw [setLoop_length]; omega)]
        simp [hc]
      · rw [if_neg hc, ih]
        simp [hc]
    · have hne : n ≠ j := fun h => hjn h.symm
      have e : (j < n + 1) ↔ (j < n) := by omega
      split
      · rw [List.getElem?_set_ne hne, ih]; simp only [e]
      · rw [ih]; simp only [e]

/-- all-in-one: a conditional point-update loop over the whole frame, read at an in-frame index -/
theorem forYX_set_get (h w : Nat) (c : Nat → Bool) (v : Nat → δ) (init : List δ)
    (hl : init.length = h * w) (j : Nat) (hj : j < h * w) :
    (forYX h w (fun acc y x => if c (y * w + x) then acc.set (y * w + x) (v (y * w + x)) else acc)
        init)[j]?
      = some (if c j then v j else init.getD j (v j)) := by
  have e := forYX_flat h w (fun (acc : List δ) i => if c i then acc.set i (v i) else acc) init

  rw [e, setLoop_get _ _ _ _ _ (by omega)]
  have hj' : j < init.length := by omega
  by_cases hc : c j = true
  · simp [hc, hj]
  · simp [hc, List.getD_eq_getElem?_getD, List.getElem?_eq_getElem hj']

theorem forYX_set_length (h w : Nat) (c : Nat → Bool) (v : Nat → δ) (init : List δ) :
    (forYX h w (fun acc y x => if c (y * w + x) then acc.set (y * w + x) (v (y * w + x)) else acc)
        init).length = init.length := by
  have e := forYX_flat h w (fun (acc : List δ) i => if c i then acc.set i (v i) else acc) init

  rw [e, setLoop_length]

end Model
