/-
Proofs/OverSampleBins.lean — refinement lemmas for Model/OverSampleBins.lean (all sizes):
the `break` loop is a first-match (`List.find?`), and the running-counter loop numbers the unmasked
sub-pixels by the count of unmasked sub-pixels before them.
-/
import Model.OverSampleBins
import Proofs.Core

namespace Model
namespace OverSampleBinsProofs

/-! ### the radial bins -/
section bins
variable {α : Type}

/-- once the break flag is set the inner loop does nothing -/
theorem inner_stuck (c : Nat → Prop) [DecidablePred c] (v : Nat → α) (i : Nat) (l : List Nat)
    (out : List α) :
    l.foldl (fun (st : List α × Bool) j =>
        if st.2 then st else if c j then (st.1.set i (v j), true) else st) (out, true)
      = (out, true) := by
  induction l with
  | nil => rfl
  | cons j l ih => simpa using ih

/-- the inner loop with `break` writes at the first match, or leaves the array alone -/
theorem inner_break (c : Nat → Prop) [DecidablePred c] (v : Nat → α) (i : Nat) (l : List Nat)
    (out : List α) :
    l.foldl (fun (st : List α × Bool) j =>
        if st.2 then st else if c j then (st.1.set i (v j), true) else st) (out, false)
      = match l.find? (fun j => decide (c j)) with
        | some j => (out.set i (v j), true)
        | none => (out, false) := by
  induction l with
  | nil => rfl
  | cons j l ih =>
    simp only [List.foldl_cons, List.find?_cons]
    by_cases hc : c j
    · simp [hc, inner_stuck]
    · simpa [hc] using ih

theorem range_map_getD {β γ : Type} (l : List β) (d : β) (F : β → γ) :
    (List.range l.length).map (fun i => F (l.getD i d)) = l.map F := by
  apply List.ext_getElem
  · simp
  · intro i h1 h2
    have hi : i < l.length := by simpa using h2
    simp [List.getD_eq_getElem?_getD, List.getElem?_eq_getElem hi]

variable [LT α] [DecidableLT α]

/-- REFINEMENT: the double loop with `break` assigns to each radius the sub-size of the first bin whose
    upper edge exceeds it (the last sub-size when there is none) -/
theorem subSizeRadialBins_eq (radial subs edges : List α) (z : α) :
    Impl.subSizeRadialBins radial subs edges z = Spec.subSizeRadialBins radial subs edges z := by
  unfold Impl.subSizeRadialBins Spec.subSizeRadialBins
  rw [← range_map_getD radial z (Spec.binOf subs edges z)]
  suffices H : ∀ k d, (List.range k).foldl
      (fun out i =>
        ((List.range edges.length).foldl
          (fun (st : List α × Bool) j =>
            if st.2 then st
            else if radial.getD i z < edges.getD j z then (st.1.set i (subs.getD j z), true)
            else st)
          (out, false)).1)
      (List.replicate (k + d) (subs.getD (subs.length - 1) z))
      = (List.range k).map (fun i => Spec.binOf subs edges z (radial.getD i z))
          ++ List.replicate d (subs.getD (subs.length - 1) z) by
    simpa using H radial.length 0
  intro k
  induction k with
  | zero => intro d; simp
  | succ k ih =>
    intro d
    have e : k + 1 + d = k + (d + 1) := by omega
    rw [List.range_succ, List.foldl_append, e, ih (d + 1)]
    simp only [List.foldl_cons, List.foldl_nil, List.map_append, List.map_cons, List.map_nil]
    rw [inner_break (fun j => radial.getD k z < edges.getD j z) (fun j => subs.getD j z)]
    have hl : k = ((List.range k).map
        (fun i => Spec.binOf subs edges z (radial.getD i z))).length := by simp
    unfold Spec.binOf
    cases hfind : (List.range edges.length).find?
        (fun j => decide (radial.getD k z < edges.getD j z)) with
    | none => simp [List.replicate_succ]
    | some j =>
      simp only []
      conv => lhs; arg 2; rw [hl]
      simp [List.replicate_succ]

end bins

/-! ### the sub-native → sub-slim table -/
section subslim

/-- the running-counter loop over the row-major positions `0 … k-1` of a bit list -/
theorem counter_loop (c : Nat → Bool) (k d : Nat) :
    (List.range k).foldl
        (fun (st : List (Option Nat) × Nat) q =>
          if c q == false then (st.1.set q (some st.2), st.2 + 1) else st)
        (List.replicate (k + d) none, 0)
      = ((List.range k).map (fun q =>
            if c q then none else some ((List.range q).filter fun r => !c r).length)
          ++ List.replicate d none,
         ((List.range k).filter fun r => !c r).length) := by
  induction k generalizing d with
  | zero => simp
  | succ k ih =>
    have e : k + 1 + d = k + (d + 1) := by omega
    rw [List.range_succ, List.foldl_append, e, ih (d + 1)]
    simp only [List.foldl_cons, List.foldl_nil, List.map_append, List.map_cons, List.map_nil,
      List.filter_append, List.length_append]
    have hl : k = ((List.range k).map (fun q =>
        if c q then none else some ((List.range q).filter fun r => !c r).length)).length := by simp
    by_cases hc : c k
    · simp [hc, List.replicate_succ]
    · simp only [hc, Bool.false_eq_true, if_false, beq_self_eq_true, if_true, Bool.not_false,
        List.filter_cons_of_pos, List.filter_nil, List.length_cons, List.length_nil, Prod.mk.injEq]
      refine ⟨?_, by simp⟩
      conv => lhs; arg 2; rw [hl]
      simp [List.replicate_succ]

/-- REFINEMENT: every unmasked sub-pixel gets the number of unmasked sub-pixels before it, every
    masked one keeps `-1` (`none`) -/
theorem subSlimForSubNative_eq (m : Mask) :
    Impl.subSlimForSubNative m = Spec.subSlimForSubNative m := by
  unfold Impl.subSlimForSubNative Spec.subSlimForSubNative
  rw [forYX_eq_foldl]
  have h1 : (pixels m.h m.w).foldl
        (fun (st : List (Option Nat) × Nat) p =>
          if m.get p.1 p.2 == false then (st.1.set (p.1 * m.w + p.2) (some st.2), st.2 + 1) else st)
        (List.replicate (m.h * m.w) none, 0)
      = ((pixels m.h m.w).map (flat m.w)).foldl
        (fun (st : List (Option Nat) × Nat) q =>
          if m.bits.getD q true == false then (st.1.set q (some st.2), st.2 + 1) else st)
        (List.replicate (m.h * m.w) none, 0) := by
    rw [List.foldl_map]
    rfl
  rw [h1, pixels_map_flat]
  have := counter_loop (fun q => m.bits.getD q true) (m.h * m.w) 0
  simp only [Nat.add_zero, List.replicate_zero, List.append_nil] at this
  rw [this]

end subslim

end OverSampleBinsProofs
end Model

/-! ### non-vacuity: the closed forms on small concrete inputs -/
example : Model.Spec.subSizeRadialBins [0, 5, 10, 3] [8, 4, 2] [3, 7] 0 = [8, 4, 2, 4] := by decide
example : Model.Impl.subSizeRadialBins [0, 5, 10, 3] [8, 4, 2] [3, 7] 0 = [8, 4, 2, 4] := by decide
example : Model.Spec.subSlimForSubNative ⟨2, 3, [false, true, false, false, true, false]⟩
    = [some 0, none, some 1, some 2, none, some 3] := by decide
