/-
Proofs/OverSampleBridge.lean — ties the function-level iterate (`levelArray`: evaluate on the
(over-sampled) grid of the shrunken mask, bin, scatter to native) to the table-level loop theorem:
a pixel's level value does not depend on the mask it is evaluated under.
-/
import Proofs.OverSampleField

namespace Model

theorem eq_div_mod_of_flat {w j : Nat} {p : Nat × Nat} (hp : p.2 < w) (hf : flat w p = j) :
    p = (j / w, j % w) := by
  have hw : 0 < w := by omega
  apply flat_injOn (w := w) hp (Nat.mod_lt _ hw)
  rw [hf, flat_div_mod]

section field
variable {α : Type} [Field α]

/-- the level-`l` value of the pixel with flat index `i` -/
def tableOf (f : α × α → α) (h w : Nat) (g : Geom α) (steps : List Nat) (l i : Nat) : α :=
  Spec.levelValue f g steps (Spec.pixelCentre h w g (i / w, i % w)) l

/-- scatter of a slim list that is a function of the pixel: native entry `j` is zero if masked,
    the function of pixel `(j / w, j % w)` otherwise -/
theorem nativeFrom_of_pixel_fn (mk : Mask) (F : Nat × Nat → α) (s : List α)
    (hs : ∀ k (hk : k < (Spec.unmaskedPixels mk).length),
      s.getD k 0 = F ((Spec.unmaskedPixels mk)[k]))
    (j : Nat) (hj : j < mk.h * mk.w) :
    (Impl.nativeFrom mk s 0)[j]?
      = some (if mk.bits.getD j true then 0 else F (j / mk.w, j % mk.w)) := by
  rcases Bool.eq_false_or_eq_true (mk.bits.getD j true) with hm | hm
  · rw [nativeFrom_masked mk s 0 j hj hm, hm]; rfl
  · obtain ⟨k, hk, hflat⟩ := exists_slim_index mk j hj hm
    have hit := nativeFrom_hit mk s 0 k hk
    rw [hflat] at hit
    rw [hit, hm, hs k hk]
    have hmem := (mem_unmaskedPixels (m := mk)).mp (List.getElem_mem hk)
    rw [eq_div_mod_of_flat hmem.2.1 hflat]
    simp

/-- (e, bridging) the native array of level `l` under any mask `bits` is the level table with the
    masked entries zeroed: a pixel's binned value depends only on the pixel and the sub-size, not on
    which other pixels are still unmasked. -/
theorem levelArray_eq_tableArray (f : α × α → α) (h w : Nat) (g : Geom α) (steps : List Nat)
    (l : Nat) (bits : List Bool) :
    Impl.levelArray f h w g steps l bits = Impl.tableArray (h * w) (tableOf f h w g steps) l bits := by
  apply List.ext_getElem?
  intro j
  by_cases hj : j < h * w
  · rw [tableArray_get _ _ _ _ _ hj]
    unfold Impl.levelArray
    dsimp only
    by_cases hl : l = 0
    · rw [if_pos hl]
      have := nativeFrom_of_pixel_fn (⟨h, w, bits⟩ : Mask)
        (fun p => f (Spec.pixelCentre h w g p))
        ((Impl.unmaskedGrid (⟨h, w, bits⟩ : Mask) g).map f)
        (by
          intro k hk
          rw [unmaskedGrid_eq]
          simp [List.getD_eq_getElem?_getD, hk]) j hj
      rw [this]
      simp [tableOf, Spec.levelValue, hl]
    · rw [if_neg hl]
      have := nativeFrom_of_pixel_fn (⟨h, w, bits⟩ : Mask)
        (fun p => Spec.cellMean f g (Spec.pixelCentre h w g p) (steps.getD (l - 1) 0))
        (Impl.arrayViaFunc f (⟨h, w, bits⟩ : Mask)
          (List.replicate (Impl.totalPixels (⟨h, w, bits⟩ : Mask)) (steps.getD (l - 1) 0)) g)
        (by
          intro k hk
          rw [arrayViaFunc_eq, Spec.slimPixels, totalPixels_eq]
          simp [List.getD_eq_getElem?_getD, hk]) j hj
      rw [this]
      simp [tableOf, Spec.levelValue, hl]
  · have h1 : (Impl.levelArray f h w g steps l bits).length ≤ j := by
      unfold Impl.levelArray
      dsimp only
      split <;> (rw [nativeFrom_length]; simp only; omega)
    have h2 : (Impl.tableArray (h * w) (tableOf f h w g steps) l bits).length ≤ j := by
      rw [tableArray_length]; omega
    rw [List.getElem?_eq_none h1, List.getElem?_eq_none h2]

end field
section ordered
variable {α : Type} [Field α] [LinearOrder α] [IsStrictOrderedRing α]

omit [LinearOrder α] [IsStrictOrderedRing α] in
theorem applyMask_getD (m : Mask) (a : List α) (j : Nat) (hj : j < m.h * m.w) :
    (Impl.applyMask m a 0).getD j 0 = if m.bits.getD j true then 0 else a.getD j 0 := by
  simp [Impl.applyMask, hj]

omit [LinearOrder α] [IsStrictOrderedRing α] in
theorem level0_zero_iff (f : α × α → α) (m : Mask) (g : Geom α) (steps : List Nat) :
    (∀ j, j < m.h * m.w → m.bits.getD j true = false → tableOf f m.h m.w g steps 0 j = 0)
      ↔ ∀ p ∈ Spec.unmaskedPixels m, f (Spec.pixelCentre m.h m.w g p) = 0 := by
  constructor
  · intro hz p hp
    have hmem := (mem_unmaskedPixels (m := m)).mp hp
    have hj : flat m.w p < m.h * m.w := flat_lt (mem_pixels.mpr ⟨hmem.1, hmem.2.1⟩)
    have hb : m.bits.getD (flat m.w p) true = false := by
      have := hmem.2.2; simpa [Mask.get, flat] using this
    have := hz _ hj hb
    rw [tableOf, ← eq_div_mod_of_flat hmem.2.1 rfl] at this
    simpa [Spec.levelValue] using this
  · intro hz j hj hb
    have hmem : (j / m.w, j % m.w) ∈ Spec.unmaskedPixels m := by
      rw [mem_unmaskedPixels]
      have := div_mod_mem_pixels hj
      rw [mem_pixels] at this
      exact ⟨this.1, this.2, by simpa [get_div_mod] using hb⟩
    have := hz _ hmem
    simpa [tableOf, Spec.levelValue] using this

omit [IsStrictOrderedRing α] in
/-- (e) `OverSamplerIterate.array_via_func_from`, for every user function, mask, geometry,
    thresholds and non-empty schedule, when the sub-size-1 evaluation is not identically zero:
    each pixel gets the level value the stopping rule selects from its own column. -/
theorem iterateViaFunc_eq (f : α × α → α) (m : Mask) (g : Geom α) (fr rel : Option α)
    (steps : List Nat) (hn : steps ≠ [])
    (hnz : ¬ ∀ p ∈ Spec.unmaskedPixels m, f (Spec.pixelCentre m.h m.w g p) = 0) :
    Impl.iterateViaFunc f m g fr rel steps
      = (Spec.unmaskedPixels m).map fun p =>
          Spec.iterValue (Spec.converged fr rel)
            (Spec.levelValue f g steps (Spec.pixelCentre m.h m.w g p)) steps.length := by
  unfold Impl.iterateViaFunc
  have hfun : Impl.levelArray f m.h m.w g steps
      = Impl.tableArray (m.h * m.w) (tableOf f m.h m.w g steps) :=
    funext fun l => funext fun bits => levelArray_eq_tableArray f m.h m.w g steps l bits
  rw [hfun, slimFrom_eq]
  unfold Spec.slimFrom
  apply List.map_congr_left
  intro p hp
  have hmem := (mem_unmaskedPixels (m := m)).mp hp
  have hj : flat m.w p < m.h * m.w := flat_lt (mem_pixels.mpr ⟨hmem.1, hmem.2.1⟩)
  have hb : m.bits.getD (flat m.w p) true = false := by
    have := hmem.2.2; simpa [Mask.get, flat] using this
  have hlen : 1 ≤ steps.length := by
    cases steps with
    | nil => exact absurd rfl hn
    | cons a l => simp
  rw [applyMask_getD m _ _ hj, hb]
  simp only [Bool.false_eq_true, if_false]
  rw [List.getD_eq_getElem?_getD,
    iterateNative_get fr rel m.h m.w _ m.bits steps.length add_zero zero_add
      (by rw [level0_zero_iff]; exact hnz) _ hj, hb]
  simp only [Bool.false_eq_true, if_false, Option.getD_some]
  rw [chosenFrom_eq_iterValue _ _ _ hlen]
  simp only [tableOf]
  rw [← eq_div_mod_of_flat hmem.2.1 rfl]

omit [IsStrictOrderedRing α] in
/-- (e, early return) if the function vanishes at every unmasked pixel centre the code returns the
    sub-size-1 array, i.e. zeros — whatever the higher levels would give. -/
theorem iterateViaFunc_all_zero (f : α × α → α) (m : Mask) (g : Geom α) (fr rel : Option α)
    (steps : List Nat)
    (hz : ∀ p ∈ Spec.unmaskedPixels m, f (Spec.pixelCentre m.h m.w g p) = 0) :
    Impl.iterateViaFunc f m g fr rel steps
      = List.replicate (Spec.unmaskedPixels m).length 0 := by
  unfold Impl.iterateViaFunc
  have hfun : Impl.levelArray f m.h m.w g steps
      = Impl.tableArray (m.h * m.w) (tableOf f m.h m.w g steps) :=
    funext fun l => funext fun bits => levelArray_eq_tableArray f m.h m.w g steps l bits
  rw [hfun, iterateNative_all_zero fr rel m.h m.w _ m.bits steps.length
    ((level0_zero_iff f m g steps).mpr hz), slimFrom_eq]
  unfold Spec.slimFrom
  apply List.ext_getElem
  · simp
  · intro k h1 h2
    have hk : k < (Spec.unmaskedPixels m).length := by simpa using h1
    have hmem := (mem_unmaskedPixels (m := m)).mp (List.getElem_mem hk)
    have hj : flat m.w (Spec.unmaskedPixels m)[k] < m.h * m.w :=
      flat_lt (mem_pixels.mpr ⟨hmem.1, hmem.2.1⟩)
    simp only [List.getElem_map, List.getElem_replicate]
    rw [applyMask_getD m _ _ hj]
    split
    · rfl
    · simp [hj]

end ordered
/-! ### the decorator's dispatch -/

theorem length_le_sum_of_pos (l : List Nat) (hl : ∀ s ∈ l, 1 ≤ s) : l.length ≤ l.sum := by
  induction l with
  | nil => simp
  | cons a l ih =>
    have h1 := hl a (by simp)
    have h2 := ih (fun s hs => hl s (by simp [hs]))
    simp only [List.length_cons, List.sum_cons]; omega

/-- for sub-sizes ≥ 1: `sum(sub_size) == pixels_in_mask` iff every sub-size is 1 -/
theorem sum_eq_length_iff_all_one (l : List Nat) (hl : ∀ s ∈ l, 1 ≤ s) :
    l.foldl (· + ·) 0 = l.length ↔ ∀ s ∈ l, s = 1 := by
  rw [← List.sum_eq_foldl]
  induction l with
  | nil => simp
  | cons a l ih =>
    have h1 := hl a (by simp)
    have hl' : ∀ s ∈ l, 1 ≤ s := fun s hs => hl s (by simp [hs])
    have h2 := length_le_sum_of_pos l hl'
    have ih := ih hl'
    simp only [List.length_cons, List.sum_cons, List.mem_cons, forall_eq_or_imp]
    constructor
    · intro h
      have : a = 1 := by omega
      exact ⟨this, ih.mp (by omega)⟩
    · rintro ⟨ha, hr⟩
      have := ih.mpr hr
      omega

theorem map_eq_zipIdx_map (l : List γ) (n : Nat) (F : γ → δ) :
    l.map F = (l.zipIdx n).map fun pk => F pk.1 := by
  induction l generalizing n with
  | nil => simp
  | cons a l ih => simp [List.zipIdx_cons, ← ih]

section field2
variable {α : Type} [Field α]

/-- sub-size 1 in every pixel: over-sample-and-bin is the plain evaluation at the pixel centres -/
theorem arrayViaFunc_all_one (f : α × α → α) (m : Mask) (sub : List Nat) (g : Geom α)
    (h1 : ∀ k, k < (Spec.unmaskedPixels m).length → sub.getD k 0 = 1) :
    Impl.arrayViaFunc f m sub g = (Impl.unmaskedGrid m g).map f := by
  rw [arrayViaFunc_eq, unmaskedGrid_eq, List.map_map, Spec.slimPixels,
    map_eq_zipIdx_map (Spec.unmaskedPixels m) 0, zipIdx_map_range _ (0, 0), zipIdx_map_range _ (0, 0)]
  apply List.map_congr_left
  intro k hk
  have hk' : k < (Spec.unmaskedPixels m).length := by simpa using hk
  simp only [Nat.zero_add, Function.comp]
  rw [h1 k hk', cellMean_one]

end field2

end Model
