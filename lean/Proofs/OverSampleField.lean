/-
Proofs/OverSampleField.lean — field arithmetic for Model/OverSample.lean: the code's sub-pixel
expression is the centre of a cell of the uniform partition, binning is the mean of the pixel's own
sub-values, means of constants / affine functions, areas, and the agreement rule in closed form.
-/
import Mathlib.Tactic.Ring
import Mathlib.Tactic.FieldSimp
import Mathlib.Tactic.Linarith
import Mathlib.Algebra.BigOperators.Group.List.Basic
import Mathlib.Algebra.BigOperators.Ring.List
import Mathlib.Algebra.Order.Field.Basic
import Proofs.OverSampleIterate

namespace Model

/-! ### list plumbing -/

theorem zipIdx_flatMap_range (l : List γ) (d : γ) (n : Nat) (F : γ × Nat → List δ) :
    (l.zipIdx n).flatMap F = (List.range l.length).flatMap fun k => F (l.getD k d, n + k) := by
  induction l generalizing n with
  | nil => simp
  | cons a l ih =>
    rw [List.zipIdx_cons, List.flatMap_cons, ih, List.length_cons, List.range_succ_eq_map,
      List.flatMap_cons, List.flatMap_map]
    simp only [List.getD_cons_zero, Nat.add_zero, List.getD_cons_succ]
    congr 2
    funext k
    have : n + 1 + k = n + (k + 1) := by omega
    rw [this]

theorem zipIdx_map_range (l : List γ) (d : γ) (n : Nat) (F : γ × Nat → δ) :
    (l.zipIdx n).map F = (List.range l.length).map fun k => F (l.getD k d, n + k) := by
  induction l generalizing n with
  | nil => simp
  | cons a l ih =>
    rw [List.zipIdx_cons, List.map_cons, ih, List.length_cons, List.range_succ_eq_map,
      List.map_cons, List.map_map]
    simp only [List.getD_cons_zero, Nat.add_zero]
    congr 2
    funext k
    simp only [Function.comp, List.getD_cons_succ]
    have : n + 1 + k = n + (k + 1) := by omega
    rw [this]

theorem flatMap_range_length (B : Nat → List δ) (sz : Nat → Nat) (hB : ∀ k, (B k).length = sz k)
    (n : Nat) : ((List.range n).flatMap B).length = offs sz n := by
  induction n with
  | zero => simp [offs]
  | succ n ih => rw [List.range_succ, List.flatMap_append, List.length_append, ih, offs_succ]; simp [hB]

/-- entry `offs k + j` of a concatenation of blocks is entry `j` of block `k` -/
theorem flatMap_range_get (B : Nat → List δ) (sz : Nat → Nat) (hB : ∀ k, (B k).length = sz k)
    (n k j : Nat) (hk : k < n) (hj : j < sz k) :
    ((List.range n).flatMap B)[offs sz k + j]? = (B k)[j]? := by
  induction n with
  | zero => omega
  | succ n ih =>
    rw [List.range_succ, List.flatMap_append]
    simp only [List.flatMap_cons, List.flatMap_nil, List.append_nil]
    rcases Nat.lt_or_ge k n with h1 | h1
    · have hle : offs sz (k + 1) ≤ offs sz n := offs_mono sz (by omega)
      rw [offs_succ] at hle
      rw [List.getElem?_append_left (by rw [flatMap_range_length B sz hB]; omega)]
      exact ih h1
    · have : k = n := by omega
      subst this
      rw [List.getElem?_append_right (by rw [flatMap_range_length B sz hB]; omega),
        flatMap_range_length B sz hB]
      congr 1; omega

theorem map_getD_range (l : List δ) (d : δ) : (List.range l.length).map (fun j => l.getD j d) = l := by
  apply List.ext_getElem
  · simp
  · intro i h1 h2
    simp [List.getElem?_eq_getElem h2]

section field
variable {α : Type} [Field α]

/-! ### the code's expressions are the partition's centres -/

theorem subPoint_eq_subCentre (g : Geom α) (h w : Nat) (p : Nat × Nat) (s : Nat) (q : Nat × Nat) :
    Impl.subPoint g (Impl.centresScaled h w g) p.1 p.2 s q.1 q.2
      = Spec.subCentre g (Spec.pixelCentre h w g p) s q := by
  unfold Impl.subPoint Impl.centresScaled Spec.subCentre Spec.pixelCentre
  ext <;> simp only <;> ring

theorem pixelPoint_eq_pixelCentre (g : Geom α) (h w : Nat) (p : Nat × Nat) :
    Impl.pixelPoint g (Impl.centresScaled h w g) p.1 p.2 = Spec.pixelCentre h w g p := by
  unfold Impl.pixelPoint Impl.centresScaled Spec.pixelCentre
  ext
  · simp only; ring
  · simp only

/-- `grid_2d_slim_over_sampled_via_mask_from` = the specification grid -/
theorem overSampledGrid_eq (m : Mask) (sub : List Nat) (g : Geom α) :
    Impl.overSampledGrid m sub g = Spec.overSampledGrid m sub g := by
  rw [overSampledGrid_loop]
  unfold Spec.overSampledGrid Spec.subCentres
  simp only [subPoint_eq_subCentre]

/-- `grid_2d_slim_via_mask_from` = the pixel centres in slim order -/
theorem unmaskedGrid_eq (m : Mask) (g : Geom α) :
    Impl.unmaskedGrid m g = (Spec.unmaskedPixels m).map (Spec.pixelCentre m.h m.w g) := by
  rw [unmaskedGrid_loop]
  simp only [pixelPoint_eq_pixelCentre]

theorem subCentres_length (g : Geom α) (P : α × α) (s : Nat) :
    (Spec.subCentres g P s).length = s * s := by
  simp [Spec.subCentres, pixels_length]

/-! ### binning = mean of the pixel's own sub-values -/

theorem foldl_add_eq_sum (l : List α) : l.foldl (· + ·) 0 = l.sum := List.sum_eq_foldl.symm

/-- (c) `binned_array_2d_from`: entry `k` is the arithmetic mean of pixel `k`'s own block of
    sub-values (the `sub_k²` entries starting at `Σ_{j<k} sub_j²`) -/
theorem binned_eq_mean (m : Mask) (sub : List Nat) (a : List α) :
    Impl.binned m sub a
      = (List.range (Spec.unmaskedPixels m).length).map fun k =>
          (Spec.block sub a k).sum / ((sub.getD k 0 * sub.getD k 0 : Nat) : α) := by
  rw [binned_loop]
  apply List.map_congr_left
  intro k _
  rw [foldl_add_eq_sum, List.sum_map_mul_right, Spec.block, mul_one_div]

/-- evaluating on the over-sampled grid and binning gives, pixel by pixel, the mean of `f` over the
    pixel's own sub-centres -/
theorem arrayViaFunc_eq (f : α × α → α) (m : Mask) (sub : List Nat) (g : Geom α) :
    Impl.arrayViaFunc f m sub g
      = (Spec.slimPixels m).map fun pk =>
          Spec.cellMean f g (Spec.pixelCentre m.h m.w g pk.1) (sub.getD pk.2 0) := by
  unfold Impl.arrayViaFunc
  rw [binned_eq_mean, overSampledGrid_eq]
  unfold Spec.overSampledGrid Spec.slimPixels
  rw [zipIdx_map_range _ (0, 0), zipIdx_flatMap_range _ (0, 0), List.map_flatMap]
  apply List.map_congr_left
  intro k hk
  have hk' : k < (Spec.unmaskedPixels m).length := by simpa using hk
  simp only [Nat.zero_add]
  unfold Spec.cellMean
  congr 1
  rw [foldl_add_eq_sum]
  congr 1
  unfold Spec.block
  rw [offset_eq_offs]
  -- the block of pixel k inside the concatenation
  set B : Nat → List α := fun k =>
    (Spec.subCentres g (Spec.pixelCentre m.h m.w g ((Spec.unmaskedPixels m).getD k (0, 0)))
      (sub.getD k 0)).map f with hB
  have hBl : ∀ k, (B k).length = (fun j => sub.getD j 0 * sub.getD j 0) k := by
    intro k; simp [hB, subCentres_length]
  have : (List.range (sub.getD k 0 * sub.getD k 0)).map
        (fun j => ((List.range (Spec.unmaskedPixels m).length).flatMap B).getD
          (offs (fun j => sub.getD j 0 * sub.getD j 0) k + j) 0)
      = (List.range (B k).length).map (fun j => (B k).getD j 0) := by
    rw [hBl k]
    apply List.map_congr_left
    intro j hj
    have hj' : j < sub.getD k 0 * sub.getD k 0 := by simpa using hj
    rw [List.getD_eq_getElem?_getD, List.getD_eq_getElem?_getD,
      flatMap_range_get B _ hBl _ k j hk' hj']
  rw [this, map_getD_range]

/-! ### means over the sub-centres -/

theorem sum_pixels (h w : Nat) (F : Nat × Nat → α) :
    ((pixels h w).map F).sum
      = ((List.range h).map fun y => ((List.range w).map fun x => F (y, x)).sum).sum := by
  induction h with
  | zero => simp [pixels]
  | succ h ih =>
    rw [pixels_succ, List.map_append, List.sum_append, ih, List.sum_range_succ, List.map_map]
    rfl

section char0
variable [CharZero α]

theorem sum_affine_range (n : Nat) (A B : α) :
    ((List.range n).map (fun (j : ℕ) => A + B * ((j : α) + 1 / 2))).sum
      = n * A + B * ((n : α) * n / 2) := by
  induction n with
  | zero => simp
  | succ n ih => rw [List.sum_range_succ, ih]; push_cast; ring

/-- sum of an affine function of the point over the `s²` sub-centres of a pixel -/
theorem sum_affine_subCentres (g : Geom α) (P : α × α) (s : Nat) (c0 c1 c2 : α)
    (hs0 : s ≠ 0) :
    ((Spec.subCentres g P s).map fun p => c0 + c1 * p.1 + c2 * p.2).sum
      = ((s * s : Nat) : α) * (c0 + c1 * P.1 + c2 * P.2) := by
  have hs : (s : α) ≠ 0 := Nat.cast_ne_zero.mpr hs0
  unfold Spec.subCentres
  rw [List.map_map, sum_pixels]
  have inner : ∀ y : ℕ, ((List.range s).map fun x =>
        ((fun p : α × α => c0 + c1 * p.1 + c2 * p.2) ∘ Spec.subCentre g P s) (y, x)).sum
      = ((s : α) * (c0 + c1 * (P.1 + g.sy / 2) + c2 * (P.2 - g.sx / 2))
          + c2 * g.sx / s * ((s : α) * s / 2))
        + (-(c1 * g.sy)) * ((y : α) + 1 / 2) := by
    intro y
    have : (fun (x : ℕ) => ((fun p : α × α => c0 + c1 * p.1 + c2 * p.2) ∘ Spec.subCentre g P s) (y, x))
        = fun (x : ℕ) => (c0 + c1 * (P.1 + g.sy / 2 - ((y : α) + 1 / 2) * g.sy / s)
            + c2 * (P.2 - g.sx / 2)) + (c2 * g.sx / s) * ((x : α) + 1 / 2) := by
      funext x
      simp only [Function.comp, Spec.subCentre]
      ring
    rw [this, sum_affine_range]
    field_simp
    ring
  simp only [inner]
  rw [sum_affine_range]
  push_cast
  field_simp
  ring

/-- the mean of an affine function of position over a pixel's sub-centres is its value at the
    pixel centre (char 0 is only needed through `s ≠ 0` in `α`) -/
theorem cellMean_affine (g : Geom α) (P : α × α) (s : Nat) (c0 c1 c2 : α) (hs0 : s ≠ 0) :
    Spec.cellMean (fun p => c0 + c1 * p.1 + c2 * p.2) g P s = c0 + c1 * P.1 + c2 * P.2 := by
  have hs : (s : α) ≠ 0 := Nat.cast_ne_zero.mpr hs0
  unfold Spec.cellMean
  rw [foldl_add_eq_sum, sum_affine_subCentres g P s c0 c1 c2 hs0]
  have : ((s * s : Nat) : α) ≠ 0 := by push_cast; exact mul_ne_zero hs hs
  field_simp

theorem cellMean_const (g : Geom α) (P : α × α) (s : Nat) (c : α) (hs : s ≠ 0) :
    Spec.cellMean (fun _ => c) g P s = c := by
  have := cellMean_affine g P s c 0 0 hs
  simpa using this

end char0

/-- with sub-size one the single sub-centre is the pixel centre itself -/
theorem cellMean_one (f : α × α → α) (g : Geom α) (P : α × α) : Spec.cellMean f g P 1 = f P := by
  have hP : Spec.subCentre g P 1 (0, 0) = P := by
    unfold Spec.subCentre
    ext <;> (simp; ring)
  simp [Spec.cellMean, Spec.subCentres, pixels, hP]

/-! ### areas -/

theorem sum_blocks_replicate [CharZero α] (n : Nat) (c : Nat → Nat) (A : α) (hc : ∀ i, i < n → c i ≠ 0) :
    ((List.range n).flatMap fun i => List.replicate (c i) (A / ((c i : Nat) : α))).sum = n * A := by
  induction n with
  | zero => simp
  | succ n ih =>
    rw [List.range_succ, List.flatMap_append, List.sum_append, ih (fun i hi => hc i (by omega))]
    have h0 : ((c n : Nat) : α) ≠ 0 := Nat.cast_ne_zero.mpr (hc n (by omega))
    simp only [List.flatMap_cons, List.flatMap_nil, List.append_nil, List.sum_replicate,
      nsmul_eq_mul]
    push_cast
    field_simp

/-- sub-pixel areas sum to (number of pixels) × (pixel area) -/
theorem subPixelAreas_sum [CharZero α] (sub : List Nat) (g : Geom α) (hsub : ∀ s ∈ sub, s ≠ 0) :
    (Impl.subPixelAreas sub g).sum = (sub.length : α) * (g.sy * g.sx) := by
  rw [subPixelAreas_loop]
  apply sum_blocks_replicate
  intro i hi
  have : sub.getD i 0 ∈ sub := by
    rw [List.getD_eq_getElem?_getD, List.getElem?_eq_getElem hi]; exact List.getElem_mem hi
  exact Nat.mul_ne_zero (hsub _ this) (hsub _ this)

end field

/-! ### the agreement rule in closed form (ordered field) -/
section ordered
variable {α : Type} [Field α] [LinearOrder α] [IsStrictOrderedRing α]

theorem absDiff_eq_abs (a b : α) : Impl.absDiff a b = |a - b| := by
  unfold Impl.absDiff
  dsimp only
  split
  · rename_i h; rw [abs_of_neg h]
  · rename_i h; rw [abs_of_nonneg (not_lt.mp h)]

/-- both values positive: the code's `fractional_accuracy` is the ratio of the smaller to the larger -/
theorem fracAccuracy_pos (lo hi : α) (hlo : 0 < lo) (hhi : 0 < hi) :
    Impl.fracAccuracy lo hi = min lo hi / max lo hi := by
  unfold Impl.fracAccuracy
  rw [if_pos hlo]
  dsimp only
  by_cases h : 1 < lo / hi
  · rw [if_pos h]
    have hlt : hi < lo := by rwa [one_lt_div hhi] at h
    rw [min_eq_right hlt.le, max_eq_left hlt.le, one_div_div]
  · rw [if_neg h]
    have hle : lo ≤ hi := by
      rw [not_lt, div_le_one hhi] at h; exact h
    rw [min_eq_left hle, max_eq_right hle]

omit [IsStrictOrderedRing α] in
/-- previous value not positive: the ratio is not defined and the code uses 0 -/
theorem fracAccuracy_of_nonpos (lo hi : α) (hlo : lo ≤ 0) : Impl.fracAccuracy lo hi = 0 := by
  unfold Impl.fracAccuracy
  rw [if_neg (not_lt.mpr hlo)]

/-- previous value positive, current value not: the code's ratio is ≤ 0, below every positive threshold -/
theorem fracAccuracy_le_zero (lo hi : α) (hlo : 0 < lo) (hhi : hi ≤ 0) :
    Impl.fracAccuracy lo hi ≤ 0 := by
  unfold Impl.fracAccuracy
  rw [if_pos hlo]
  dsimp only
  have hr : lo / hi ≤ 0 := div_nonpos_of_nonneg_of_nonpos hlo.le hhi
  rw [if_neg (by intro h; linarith)]
  exact hr

/-- the agreement rule, for a positive fractional-accuracy threshold `t` and optional tolerance:
    it holds iff both values are positive, smaller/larger ≥ t and (if set) |lo − hi| ≤ r -/
theorem converged_iff (t : α) (ht : 0 < t) (rel : Option α) (lo hi : α) :
    Spec.converged (some t) rel lo hi = true
      ↔ (0 < lo ∧ 0 < hi ∧ t ≤ min lo hi / max lo hi) ∧ (∀ r, rel = some r → |lo - hi| ≤ r) := by
  unfold Spec.converged
  have h1 : (!decide (Impl.fracAccuracy lo hi < t)) = true
      ↔ (0 < lo ∧ 0 < hi ∧ t ≤ min lo hi / max lo hi) := by
    simp only [Bool.not_eq_true', decide_eq_false_iff_not, not_lt]
    constructor
    · intro h
      rcases lt_or_ge 0 lo with hlo | hlo
      · rcases lt_or_ge 0 hi with hhi | hhi
        · exact ⟨hlo, hhi, by rwa [fracAccuracy_pos lo hi hlo hhi] at h⟩
        · have := fracAccuracy_le_zero lo hi hlo hhi; linarith
      · rw [fracAccuracy_of_nonpos lo hi hlo] at h; linarith
    · rintro ⟨hlo, hhi, h⟩
      rwa [fracAccuracy_pos lo hi hlo hhi]
  cases rel with
  | none => simp only [Bool.and_true]; rw [h1]; simp
  | some r =>
    simp only [Bool.and_eq_true]
    rw [h1, absDiff_eq_abs]
    simp

end ordered
end Model
