/-
Proofs/OverSampleIterate.lean — the array-level loop of `OverSamplerIterate.array_via_func_from`
with its shrinking masks selects, pixel by pixel, the first agreeing level (core Lean + a few
algebraic facts passed as hypotheses, so that the file stays Mathlib-free).
-/
import Model.OverSample
import Proofs.OverSample

namespace Model

theorem ite_nested {β : Type _} (b : Bool) (q : Prop) [Decidable q] (x y : β) :
    (if b = true then (if q then x else y) else y) = if (b && decide q) = true then x else y := by
  cases b <;> by_cases hq : q <;> simp [hq]

section
variable {α : Type} [Add α] [Sub α] [Mul α] [Div α] [Neg α]
  [OfNat α 0] [OfNat α 1] [LT α] [DecidableLT α]

omit [Add α] [Mul α] in
/-- `threshold_mask_via_arrays_jit_from`, pixel by pixel: an entry stays `True` iff the pixel is masked
    at this level or its two values agree. -/
theorem thresholdMask_get (fr rel : Option α) (h w : Nat) (higher lower : List α)
    (hm : List Bool) (j : Nat) (hj : j < h * w) :
    (Impl.thresholdMask fr rel h w higher lower hm)[j]?
      = some (hm.getD j true || Spec.converged fr rel (lower.getD j 0) (higher.getD j 0)) := by
  have e1 : ∀ (t : α), (fun (tm : List Bool) (y x : Nat) =>
        if !hm.getD (y * w + x) true then
          if Impl.fracAccuracy (lower.getD (y * w + x) 0) (higher.getD (y * w + x) 0) < t then
            tm.set (y * w + x) false
          else tm
        else tm)
      = (fun tm y x =>
          if (fun i => !hm.getD i true &&
              decide (Impl.fracAccuracy (lower.getD i 0) (higher.getD i 0) < t)) (y * w + x)
          then tm.set (y * w + x) ((fun _ => false) (y * w + x)) else tm) := by
    intro t; funext tm y x
    exact ite_nested _ _ _ _
  have e2 : ∀ (t : α), (fun (tm : List Bool) (y x : Nat) =>
        if !hm.getD (y * w + x) true then
          if t < Impl.absDiff (lower.getD (y * w + x) 0) (higher.getD (y * w + x) 0) then
            tm.set (y * w + x) false
          else tm
        else tm)
      = (fun tm y x =>
          if (fun i => !hm.getD i true &&
              decide (t < Impl.absDiff (lower.getD i 0) (higher.getD i 0))) (y * w + x)
          then tm.set (y * w + x) ((fun _ => false) (y * w + x)) else tm) := by
    intro t; funext tm y x
    exact ite_nested _ _ _ _
  let c1 : α → Nat → Bool := fun t i => !hm.getD i true &&
      decide (Impl.fracAccuracy (lower.getD i 0) (higher.getD i 0) < t)
  let c2 : α → Nat → Bool := fun t i => !hm.getD i true &&
      decide (t < Impl.absDiff (lower.getD i 0) (higher.getD i 0))
  have g1 : ∀ t, (forYX h w (fun tm y x => if c1 t (y * w + x) then
      tm.set (y * w + x) ((fun _ => false) (y * w + x)) else tm) (List.replicate (h * w) true))[j]?
        = some (if c1 t j then false else true) := by
    intro t
    rw [forYX_set_get h w (c1 t) (fun _ => false) _ (by simp) j hj]
    simp [hj]
  have g1l : ∀ t, (forYX h w (fun tm y x => if c1 t (y * w + x) then
      tm.set (y * w + x) ((fun _ => false) (y * w + x)) else tm) (List.replicate (h * w) true)).length
        = h * w := by
    intro t
    rw [forYX_set_length h w (c1 t) (fun _ => false)]; simp
  have g2 : ∀ t (init : List Bool), init.length = h * w →
      (forYX h w (fun tm y x => if c2 t (y * w + x) then
      tm.set (y * w + x) ((fun _ => false) (y * w + x)) else tm) init)[j]?
        = some (if c2 t j then false else init.getD j false) := by
    intro t init hl
    rw [forYX_set_get h w (c2 t) (fun _ => false) _ hl j hj]
  unfold Impl.thresholdMask Spec.converged
  cases fr with
  | none =>
    cases rel with
    | none => simp [hj]
    | some t2 =>
      dsimp only
      rw [e2 t2]
      rw [show (fun (tm : List Bool) (y x : Nat) => if (fun i => !hm.getD i true &&
              decide (t2 < Impl.absDiff (lower.getD i 0) (higher.getD i 0))) (y * w + x) = true
            then tm.set (y * w + x) ((fun _ => false) (y * w + x)) else tm)
          = (fun tm y x => if c2 t2 (y * w + x) then
              tm.set (y * w + x) ((fun _ => false) (y * w + x)) else tm) from rfl]
      rw [g2 t2 _ (by simp)]
      simp only [c2]
      have hr : (List.replicate (h * w) true).getD j false = true := by simp [hj]
      rw [hr]
      rcases Bool.eq_false_or_eq_true (hm.getD j true) with hb | hb <;>
        by_cases hq : t2 < Impl.absDiff (lower.getD j 0) (higher.getD j 0) <;>
        simp [-List.getD_eq_getElem?_getD, hb, hq]
  | some t1 =>
    cases rel with
    | none =>
      dsimp only
      rw [e1 t1]
      rw [show (fun (tm : List Bool) (y x : Nat) => if (fun i => !hm.getD i true &&
              decide (Impl.fracAccuracy (lower.getD i 0) (higher.getD i 0) < t1)) (y * w + x) = true
            then tm.set (y * w + x) ((fun _ => false) (y * w + x)) else tm)
          = (fun tm y x => if c1 t1 (y * w + x) then
              tm.set (y * w + x) ((fun _ => false) (y * w + x)) else tm) from rfl]
      rw [g1 t1]
      simp only [c1]
      rcases Bool.eq_false_or_eq_true (hm.getD j true) with hb | hb <;>
        by_cases hq : Impl.fracAccuracy (lower.getD j 0) (higher.getD j 0) < t1 <;>
        simp [-List.getD_eq_getElem?_getD, hb, hq]
    | some t2 =>
      dsimp only
      rw [e2 t2, e1 t1]
      rw [show (fun (tm : List Bool) (y x : Nat) => if (fun i => !hm.getD i true &&
              decide (t2 < Impl.absDiff (lower.getD i 0) (higher.getD i 0))) (y * w + x) = true
            then tm.set (y * w + x) ((fun _ => false) (y * w + x)) else tm)
          = (fun tm y x => if c2 t2 (y * w + x) then
              tm.set (y * w + x) ((fun _ => false) (y * w + x)) else tm) from rfl]
      rw [show (fun (tm : List Bool) (y x : Nat) => if (fun i => !hm.getD i true &&
              decide (Impl.fracAccuracy (lower.getD i 0) (higher.getD i 0) < t1)) (y * w + x) = true
            then tm.set (y * w + x) ((fun _ => false) (y * w + x)) else tm)
          = (fun tm y x => if c1 t1 (y * w + x) then
              tm.set (y * w + x) ((fun _ => false) (y * w + x)) else tm) from rfl]
      rw [g2 t2 _ (g1l t1), List.getD_eq_getElem?_getD, g1 t1]
      simp only [c1, c2]
      rcases Bool.eq_false_or_eq_true (hm.getD j true) with hb | hb <;>
        by_cases hq : Impl.fracAccuracy (lower.getD j 0) (higher.getD j 0) < t1 <;>
        by_cases hq2 : t2 < Impl.absDiff (lower.getD j 0) (higher.getD j 0) <;>
        simp [-List.getD_eq_getElem?_getD, hb, hq, hq2]

theorem forYX_length_inv {δ : Type _} (h w : Nat) (F : List δ → Nat → Nat → List δ) (init : List δ)
    (hF : ∀ acc y x, (F acc y x).length = acc.length) : (forYX h w F init).length = init.length := by
  rw [forYX_eq_foldl]
  generalize pixels h w = l
  induction l generalizing init with
  | nil => simp
  | cons a l ih => simp only [List.foldl_cons]; rw [ih, hF]

omit [Add α] [Mul α] in
theorem thresholdMask_length (fr rel : Option α) (h w : Nat) (higher lower : List α)
    (hm : List Bool) : (Impl.thresholdMask fr rel h w higher lower hm).length = h * w := by
  unfold Impl.thresholdMask
  cases fr <;> cases rel <;> dsimp only <;>
    (repeat rw [forYX_length_inv _ _ _ _ (by intro acc y x; split <;> (try split) <;> simp)]) <;>
    simp

omit [Add α] [Sub α] [Mul α] [Div α] [Neg α] [OfNat α 1] [LT α] [DecidableLT α] in
/-- `iterated_array_jit_from`, pixel by pixel -/
theorem iteratedArray_get (h w : Nat) (iter : List α) (tmH tmL : List Bool) (higher : List α)
    (hl : iter.length = h * w) (j : Nat) (hj : j < h * w) :
    (Impl.iteratedArray h w iter tmH tmL higher)[j]?
      = some (if tmH.getD j true && !tmL.getD j true then higher.getD j 0 else iter.getD j 0) := by
  unfold Impl.iteratedArray
  rw [forYX_set_get h w (fun i => tmH.getD i true && !tmL.getD i true) (fun i => higher.getD i 0)
    iter hl j hj]
  split <;> simp [List.getD_eq_getElem?_getD, List.getElem?_eq_getElem (hl ▸ hj)]

omit [Add α] [Sub α] [Mul α] [Div α] [Neg α] [OfNat α 1] [LT α] [DecidableLT α] in
theorem iteratedArray_length (h w : Nat) (iter : List α) (tmH tmL : List Bool) (higher : List α) :
    (Impl.iteratedArray h w iter tmH tmL higher).length = iter.length := by
  unfold Impl.iteratedArray
  rw [forYX_set_length h w (fun i => tmH.getD i true && !tmL.getD i true) (fun i => higher.getD i 0)]

omit [Add α] [Sub α] [Mul α] [Div α] [Neg α] [OfNat α 1] [LT α] [DecidableLT α] in
theorem tableArray_get (hw : Nat) (v : Nat → Nat → α) (l : Nat) (bits : List Bool) (j : Nat)
    (hj : j < hw) :
    (Impl.tableArray hw v l bits)[j]? = some (if bits.getD j true then 0 else v l j) := by
  simp [Impl.tableArray, hj]

omit [Add α] [Sub α] [Mul α] [Div α] [Neg α] [OfNat α 1] [LT α] [DecidableLT α] in
theorem tableArray_length (hw : Nat) (v : Nat → Nat → α) (l : Nat) (bits : List Bool) :
    (Impl.tableArray hw v l bits).length = hw := by
  simp [Impl.tableArray]

omit [Sub α] [Mul α] [Div α] [Neg α] [OfNat α 0] [OfNat α 1] [LT α] [DecidableLT α] in
theorem addArrays_get (a b : List α) (j : Nat) (ha : j < a.length) (hb : j < b.length) :
    (Impl.addArrays a b)[j]? = some (a[j] + b[j]) := by
  simp [Impl.addArrays, List.getElem?_zipWith, List.getElem?_eq_getElem ha,
    List.getElem?_eq_getElem hb]

omit [Mul α] in
/-- Invariant of the loop of `OverSamplerIterate.array_via_func_from` on a value table: if the
    pixels still active (unmasked in `mLow`) carry the previous level's value in `aLow` and zero in
    `iter`, the loop returns, for every active pixel, the value `chosenFrom` selects from that
    pixel's column, and leaves every other entry of `iter` untouched. -/
theorem iterGo_get (fr rel : Option α) (h w : Nat) (v : Nat → Nat → α)
    (hz1 : ∀ a : α, a + 0 = a) (hz2 : ∀ a : α, 0 + a = a) :
    ∀ (r l : Nat) (iter : List α) (mLow : List Bool) (aLow : List α),
      iter.length = h * w →
      (∀ j, j < h * w → mLow.getD j true = false →
        aLow.getD j 0 = v (l - 1) j ∧ iter.getD j 0 = 0) →
      ∀ j, j < h * w →
        (Impl.iterGo fr rel h w (Impl.tableArray (h * w) v) r l iter mLow aLow)[j]?
          = some (if mLow.getD j true then iter.getD j 0
                  else Spec.chosenFrom (Spec.converged fr rel) (fun k => v k j) r l) := by
  intro r
  induction r with
  | zero =>
    intro l iter mLow aLow hlen hinv j hj
    simp only [Impl.iterGo, Spec.chosenFrom]
    have hb : j < (Impl.tableArray (h * w) v l mLow).length := by rw [tableArray_length]; exact hj
    rw [addArrays_get _ _ j (hlen ▸ hj) hb]
    have ht := tableArray_get (h * w) v l mLow j hj
    rw [List.getElem?_eq_getElem hb] at ht
    have ht' := Option.some.inj ht
    rw [ht']
    have hi : iter.getD j 0 = iter[j]'(hlen ▸ hj) := by
      simp [List.getD_eq_getElem?_getD, List.getElem?_eq_getElem (hlen ▸ hj)]
    rcases Bool.eq_false_or_eq_true (mLow.getD j true) with hm | hm
    · simp only [hm, if_true]
      rw [hz1, hi]
    · have := (hinv j hj hm).2
      simp only [hm, Bool.false_eq_true, if_false]
      rw [← hi, this, hz2]
  | succ r ih =>
    intro l iter mLow aLow hlen hinv j hj
    simp only [Impl.iterGo, Spec.chosenFrom]
    -- facts about this level's arrays at any in-frame index
    have hA : ∀ i, i < h * w →
        (Impl.tableArray (h * w) v l mLow).getD i 0 = if mLow.getD i true then 0 else v l i := by
      intro i hi
      rw [List.getD_eq_getElem?_getD, tableArray_get _ _ _ _ _ hi]; rfl
    have hT : ∀ i, i < h * w →
        (Impl.thresholdMask fr rel h w (Impl.tableArray (h * w) v l mLow) aLow mLow).getD i true
          = (mLow.getD i true || Spec.converged fr rel (aLow.getD i 0)
              ((Impl.tableArray (h * w) v l mLow).getD i 0)) := by
      intro i hi
      rw [List.getD_eq_getElem?_getD, thresholdMask_get _ _ _ _ _ _ _ _ hi]; rfl
    have hI : ∀ i, i < h * w →
        (Impl.iteratedArray h w iter
            (Impl.thresholdMask fr rel h w (Impl.tableArray (h * w) v l mLow) aLow mLow) mLow
            (Impl.tableArray (h * w) v l mLow)).getD i 0
          = if (Impl.thresholdMask fr rel h w (Impl.tableArray (h * w) v l mLow) aLow mLow).getD i true
                && !mLow.getD i true
            then (Impl.tableArray (h * w) v l mLow).getD i 0 else iter.getD i 0 := by
      intro i hi
      rw [List.getD_eq_getElem?_getD, iteratedArray_get _ _ _ _ _ _ hlen _ hi]; rfl
    split
    · -- every entry of the threshold mask is True: return iterated_array
      rename_i hall
      have hallj : (Impl.thresholdMask fr rel h w (Impl.tableArray (h * w) v l mLow) aLow mLow).getD j true
          = true := by
        have hjl : j < (Impl.thresholdMask fr rel h w (Impl.tableArray (h * w) v l mLow) aLow mLow).length := by
          rw [thresholdMask_length]; exact hj
        rw [List.all_eq_true] at hall
        have := hall _ (List.getElem_mem hjl)
        simp only [id] at this
        simp [List.getD_eq_getElem?_getD, List.getElem?_eq_getElem hjl, this]
      have hjl : j < (Impl.iteratedArray h w iter
            (Impl.thresholdMask fr rel h w (Impl.tableArray (h * w) v l mLow) aLow mLow) mLow
            (Impl.tableArray (h * w) v l mLow)).length := by
        rw [iteratedArray_length, hlen]; exact hj
      have hIj := hI j hj
      rw [List.getD_eq_getElem?_getD, List.getElem?_eq_getElem hjl] at hIj
      rw [List.getElem?_eq_getElem hjl]
      simp only [Option.getD_some] at hIj
      rw [hIj, hallj]
      rcases Bool.eq_false_or_eq_true (mLow.getD j true) with hm | hm
      · simp [-List.getD_eq_getElem?_getD, hm]
      · have hTj := hT j hj
        rw [hallj, hm, hA j hj, hm, (hinv j hj hm).1] at hTj
        simp only [Bool.false_or, Bool.false_eq_true, if_false] at hTj
        simp [-List.getD_eq_getElem?_getD, hm, hA j hj, ← hTj]
    · -- recurse with (iter', tm, aHigh) at level l+1
      rw [ih (l + 1) _ _ _ (by rw [iteratedArray_length, hlen]) ?_ j hj]
      · rcases Bool.eq_false_or_eq_true (mLow.getD j true) with hm | hm
        · rw [hT j hj, hI j hj, hT j hj]
          simp [-List.getD_eq_getElem?_getD, hm]
        · rw [hT j hj, hI j hj, hT j hj, hA j hj, (hinv j hj hm).1]
          simp only [hm, Bool.false_or, Bool.not_false, Bool.and_true, Bool.false_eq_true, if_false]
          by_cases hc : Spec.converged fr rel (v (l - 1) j) (v l j) = true
          · simp [hc]
          · simp [hc]
      · intro i hi hact
        rw [hT i hi] at hact
        have hm : mLow.getD i true = false := by
          rcases Bool.eq_false_or_eq_true (mLow.getD i true) with hm | hm
          · rw [hm] at hact; simp at hact
          · exact hm
        constructor
        · rw [hA i hi, hm]; simp
        · rw [hI i hi, hT i hi, hact]
          simp only [Bool.false_and, Bool.false_eq_true, if_false]
          exact (hinv i hi hm).2

omit [Add α] [Sub α] [Mul α] [Div α] [Neg α] [OfNat α 0] [OfNat α 1] [LT α] [DecidableLT α] in
/-- the recursive selection is "first agreeing level of the scan, else the level after the scan" -/
theorem chosenFrom_eq_find (conv : α → α → Bool) (vi : Nat → α) (r l : Nat) :
    Spec.chosenFrom conv vi r l
      = match (List.range' l r).find? (fun k => conv (vi (k - 1)) (vi k)) with
        | some k => vi k
        | none => vi (l + r) := by
  induction r generalizing l with
  | zero => simp [Spec.chosenFrom]
  | succ r ih =>
    rw [Spec.chosenFrom, List.range'_succ, List.find?_cons]
    by_cases hc : conv (vi (l - 1)) (vi l) = true
    · simp [hc]
    · have hc' : conv (vi (l - 1)) (vi l) = false := by simpa using hc
      rw [ih (l + 1)]
      simp only [hc', Bool.false_eq_true, if_false]
      have : l + 1 + r = l + (r + 1) := by omega
      rw [this]

omit [Add α] [Sub α] [Mul α] [Div α] [Neg α] [OfNat α 0] [OfNat α 1] [LT α] [DecidableLT α] in
theorem chosenFrom_eq_iterValue (conv : α → α → Bool) (vi : Nat → α) (n : Nat) (hn : 1 ≤ n) :
    Spec.chosenFrom conv vi (n - 1) 1 = Spec.iterValue conv vi n := by
  rw [chosenFrom_eq_find, Spec.iterValue]
  have : 1 + (n - 1) = n := by omega
  rw [this]
  rfl

variable [DecidableEq α]

omit [Add α] [Sub α] [Mul α] [Div α] [Neg α] [OfNat α 1] [LT α] [DecidableLT α] in
/-- `np.any(array_sub_1)` is false iff the level-0 value of every unmasked pixel is zero -/
theorem level0_all_zero_iff (hw : Nat) (v : Nat → Nat → α) (bits : List Bool) :
    (Impl.tableArray hw v 0 bits).all (fun x => x == 0) = true
      ↔ ∀ j, j < hw → bits.getD j true = false → v 0 j = 0 := by
  rw [List.all_eq_true]
  constructor
  · intro hall j hj hb
    have hjl : j < (Impl.tableArray hw v 0 bits).length := by rw [tableArray_length]; exact hj
    have := hall _ (List.getElem_mem hjl)
    have hg := tableArray_get hw v 0 bits j hj
    rw [List.getElem?_eq_getElem hjl] at hg
    rw [Option.some.inj hg, hb] at this
    simpa using this
  · intro hz x hx
    obtain ⟨j, hjl, rfl⟩ := List.getElem_of_mem hx
    have hj : j < hw := by rw [tableArray_length] at hjl; exact hjl
    have hg := tableArray_get hw v 0 bits j hj
    rw [List.getElem?_eq_getElem hjl] at hg
    rw [Option.some.inj hg]
    rcases Bool.eq_false_or_eq_true (bits.getD j true) with hb | hb
    · simp [-List.getD_eq_getElem?_getD, hb]
    · simp [-List.getD_eq_getElem?_getD, hb, hz j hj hb]

omit [Mul α] in
/-- `OverSamplerIterate.array_via_func_from` on a value table, not all zero at level 0: masked
    entries are zero, every unmasked pixel holds the value selected from its own column. -/
theorem iterateNative_get (fr rel : Option α) (h w : Nat) (v : Nat → Nat → α) (bits : List Bool)
    (n : Nat) (hz1 : ∀ a : α, a + 0 = a) (hz2 : ∀ a : α, 0 + a = a)
    (hnz : ¬ ∀ j, j < h * w → bits.getD j true = false → v 0 j = 0)
    (j : Nat) (hj : j < h * w) :
    (Impl.iterateNative fr rel h w bits (Impl.tableArray (h * w) v) n)[j]?
      = some (if bits.getD j true then 0
              else Spec.chosenFrom (Spec.converged fr rel) (fun k => v k j) (n - 1) 1) := by
  unfold Impl.iterateNative
  dsimp only
  rw [if_neg (by rw [level0_all_zero_iff]; exact hnz)]
  rw [iterGo_get fr rel h w v hz1 hz2 (n - 1) 1 _ bits _ (by simp) ?_ j hj]
  · simp [hj]
  · intro i hi hb
    constructor
    · rw [List.getD_eq_getElem?_getD, tableArray_get _ _ _ _ _ hi, hb]; rfl
    · simp [hi]

omit [Mul α] in
/-- the early return: level 0 all zero ⇒ the sub-size-1 array (all zero) is returned -/
theorem iterateNative_all_zero (fr rel : Option α) (h w : Nat) (v : Nat → Nat → α)
    (bits : List Bool) (n : Nat)
    (hz : ∀ j, j < h * w → bits.getD j true = false → v 0 j = 0) :
    Impl.iterateNative fr rel h w bits (Impl.tableArray (h * w) v) n
      = List.replicate (h * w) 0 := by
  unfold Impl.iterateNative
  dsimp only
  rw [if_pos (by rw [level0_all_zero_iff]; exact hz)]
  apply List.ext_getElem
  · simp [tableArray_length]
  · intro j h1 h2
    have hj : j < h * w := by rw [tableArray_length] at h1; exact h1
    have hg := tableArray_get (h * w) v 0 bits j hj
    rw [List.getElem?_eq_getElem h1] at hg
    rw [Option.some.inj hg]
    rcases Bool.eq_false_or_eq_true (bits.getD j true) with hb | hb
    · simp [-List.getD_eq_getElem?_getD, hb]
    · simp [-List.getD_eq_getElem?_getD, hb, hz j hj hb]

end
end Model
