/-
Proofs/OverSampleMask.lean — refinement for `over_sample_util.oversample_mask_2d_from` (property C09):
the loop of block stores (`Model.Impl.oversampleMask`, tied to the regenerated source in
Proofs/TieOverSample3.lean) computes the closed form `out[Y, X] = mask[Y / s, X / s]`
(`Model.Spec.oversampleMask`), for every well-formed mask and every sub-size.  Core Lean only.
-/
import Model.OverSampleMask
import Proofs.Core

open Model

namespace OverSampleMask

/-- flat index `k` of the over-sampled frame lies in the block of pixel `p` -/
def inBlock (W s : Nat) (p : Nat × Nat) (k : Nat) : Bool :=
  decide (p.1 * s ≤ k / W ∧ k / W < (p.1 + 1) * s ∧ p.2 * s ≤ k % W ∧ k % W < (p.2 + 1) * s)

/-- some unmasked pixel of `L` has written entry `k` -/
def hit (m : Mask) (s : Nat) (L : List (Nat × Nat)) (k : Nat) : Bool :=
  L.any fun p => !m.get p.1 p.2 && inBlock (m.w * s) s p k

/-- the fold of block stores over any list of pixels: an entry is `False` once some unmasked pixel of the list
    covers it, otherwise untouched -/
theorem fold_blocks (m : Mask) (s : Nat) (L : List (Nat × Nat)) (acc : List Bool) :
    L.foldl (fun acc p =>
        if !m.get p.1 p.2 then
          Impl.blockSet (m.w * s) acc (p.1 * s) ((p.1 + 1) * s) (p.2 * s) ((p.2 + 1) * s) false
        else acc) acc
      = acc.mapIdx fun k e => if hit m s L k then false else e := by
  induction L generalizing acc with
  | nil =>
    apply List.ext_getElem <;> simp [hit]
  | cons p L ih =>
    simp only [List.foldl_cons]
    rw [ih]
    apply List.ext_getElem
    · by_cases hg : (!m.get p.1 p.2) = true <;> simp [hg, Impl.blockSet]
    · intro k h1 h2
      simp only [List.getElem_mapIdx]
      by_cases hg : (!m.get p.1 p.2) = true
      · simp only [hg, if_true, Impl.blockSet, List.getElem_mapIdx, hit, List.any_cons, Bool.true_and, inBlock]
        by_cases hb : p.1 * s ≤ k / (m.w * s) ∧ k / (m.w * s) < (p.1 + 1) * s ∧ p.2 * s ≤ k % (m.w * s)
            ∧ k % (m.w * s) < (p.2 + 1) * s
        · simp [hb]
        · simp [hb]
      · simp only [hg, hit, List.any_cons, Bool.false_and, Bool.false_or]
        rfl

theorem div_eq_of_block {a y s : Nat} (h1 : y * s ≤ a) (h2 : a < (y + 1) * s) : a / s = y := by
  have hs : 0 < s := by
    rcases Nat.eq_zero_or_pos s with h | h
    · subst h; simp at h2
    · exact h
  rw [Nat.div_eq_iff hs]
  rw [Nat.succ_mul] at h2
  omega

theorem block_of_div {a s : Nat} (hs : 0 < s) : (a / s) * s ≤ a ∧ a < (a / s + 1) * s := by
  have := (Nat.div_eq_iff (x := a) (y := a / s) hs).1 rfl
  rw [Nat.succ_mul]
  omega

/-- the `k`-th pixel in row-major order -/
theorem pixels_getElem_eq (h w k : Nat) (hk : k < (pixels h w).length) :
    (pixels h w)[k] = (k / w, k % w) := by
  have hflat := pixels_getElem h w k hk
  have hmem := mem_pixels.1 (List.getElem_mem hk)
  generalize (pixels h w)[k] = p at hflat hmem
  obtain ⟨y, x⟩ := p
  simp only [flat] at hflat
  have hw : 0 < w := by omega
  subst hflat
  have e1 : (y * w + x) / w = y := by
    rw [Nat.mul_comm y, Nat.mul_add_div hw, Nat.div_eq_of_lt hmem.2]; rfl
  have e2 : (y * w + x) % w = x := by
    rw [Nat.mul_comm y, Nat.mul_add_mod, Nat.mod_eq_of_lt hmem.2]
  rw [e1, e2]

/-- on the whole frame: entry `k` is written iff its parent pixel is unmasked -/
theorem hit_pixels (m : Mask) (s : Nat) (k : Nat) (hk : k < m.h * s * (m.w * s)) :
    hit m s (pixels m.h m.w) k = !m.get (k / (m.w * s) / s) (k % (m.w * s) / s) := by
  have hW : 0 < m.w * s := by
    rcases Nat.eq_zero_or_pos (m.w * s) with h | h
    · rw [h] at hk; simp at hk
    · exact h
  have hs : 0 < s := by
    rcases Nat.eq_zero_or_pos s with h | h
    · subst h; simp at hW
    · exact h
  have hY : k / (m.w * s) < m.h * s := (Nat.div_lt_iff_lt_mul hW).2 hk
  have hX : k % (m.w * s) < m.w * s := Nat.mod_lt _ hW
  have hy : k / (m.w * s) / s < m.h := (Nat.div_lt_iff_lt_mul hs).2 hY
  have hx : k % (m.w * s) / s < m.w := (Nat.div_lt_iff_lt_mul hs).2 hX
  apply Bool.eq_iff_iff.2
  unfold hit
  rw [List.any_eq_true]
  constructor
  · rintro ⟨p, _, hp⟩
    simp only [Bool.and_eq_true, inBlock, decide_eq_true_eq] at hp
    obtain ⟨hg, h1, h2, h3, h4⟩ := hp
    rw [div_eq_of_block h1 h2, div_eq_of_block h3 h4]
    exact hg
  · intro hg
    refine ⟨(k / (m.w * s) / s, k % (m.w * s) / s), mem_pixels.2 ⟨hy, hx⟩, ?_⟩
    simp only [Bool.and_eq_true, inBlock, decide_eq_true_eq]
    exact ⟨hg, (block_of_div hs).1, (block_of_div hs).2, (block_of_div hs).1, (block_of_div hs).2⟩

/-- `oversample_mask_2d_from` computes `out[Y, X] = mask[Y / s, X / s]` -/
theorem oversampleMask_eq_spec (m : Mask) (s : Nat) : Impl.oversampleMask m s = Spec.oversampleMask m s := by
  unfold Impl.oversampleMask Spec.oversampleMask Impl.oversampleBits
  congr 1
  rw [forYX_eq_foldl, fold_blocks]
  apply List.ext_getElem
  · simp [pixels_length]
  · intro k h1 h2
    have hk : k < m.h * s * (m.w * s) := by simpa using h1
    simp only [List.getElem_mapIdx, List.getElem_replicate, List.getElem_map]
    rw [hit_pixels m s k hk, pixels_getElem_eq]
    cases m.get (k / (m.w * s) / s) (k % (m.w * s) / s) <;> rfl

/-- the over-sampled mask is well formed and has the over-sampled shape -/
theorem oversampleMask_wf (m : Mask) (s : Nat) : (Impl.oversampleMask m s).WF := by
  rw [oversampleMask_eq_spec]
  simp [Spec.oversampleMask, Mask.WF, pixels_length]

/-- reading the over-sampled mask: sub-pixel `(Y, X)` is masked exactly when its parent pixel is -/
theorem oversampleMask_get (m : Mask) (s : Nat) {Y X : Nat} (hY : Y < m.h * s) (hX : X < m.w * s) :
    (Impl.oversampleMask m s).get Y X = m.get (Y / s) (X / s) := by
  rw [oversampleMask_eq_spec]
  have hlt : Y * (m.w * s) + X < (pixels (m.h * s) (m.w * s)).length := by
    rw [pixels_length]
    calc Y * (m.w * s) + X < Y * (m.w * s) + m.w * s := by omega
      _ = (Y + 1) * (m.w * s) := by rw [Nat.succ_mul]
      _ ≤ m.h * s * (m.w * s) := Nat.mul_le_mul_right _ hY
  have hW : 0 < m.w * s := by omega
  simp only [Spec.oversampleMask, Mask.get, List.getD_eq_getElem?_getD]
  rw [List.getElem?_eq_getElem (by simpa using hlt)]
  simp only [List.getElem_map, Option.getD_some]
  rw [pixels_getElem_eq]
  have e1 : (Y * (m.w * s) + X) / (m.w * s) = Y := by
    rw [Nat.mul_comm Y, Nat.mul_add_div hW, Nat.div_eq_of_lt hX]; rfl
  have e2 : (Y * (m.w * s) + X) % (m.w * s) = X := by
    rw [Nat.mul_comm Y, Nat.mul_add_mod, Nat.mod_eq_of_lt hX]
  simp only [e1, e2]

end OverSampleMask
