/-
Proofs/Preload.lean — helper lemmas for property C15 (heap frame lemmas, Impl = Spec refinement).
-/
import Model.Preload

open Model Model.Preload

namespace Model.Preload

end Model.Preload
