/-
Proofs/Preload.lean — helper lemmas for property C15.

* frame lemmas of the heap (`alloc`, `write`, `copy`);
* `Good p f v`: from every heap in which the arrays of the Preloads object `p` lie below the heap
  size, accessor `f` only *extends* the heap (every old cell — in particular every preloaded array —
  keeps its contents), returns a live reference, and the cell it returns holds `v (contents h p)`;
  `Fresh p f`: the reference returned was allocated by `f` itself;
* every accessor of `Model.Preload.Impl` under `Policy.repaired` is `Good` for the corresponding
  `Model.Preload.Spec` value (the refinement Impl = Spec), hence `readAll`, `inversion`, `history`.
-/
import Model.Preload

open Model Model.Preload

namespace Model.Preload

variable {α : Type}

/-! ## heap -/
namespace Heap

/-- `h'` extends `h`: at least as many cells, every cell of `h` unchanged -/
def Extends (h h' : Heap α) : Prop := h.size ≤ h'.size ∧ ∀ r, r < h.size → h'.read r = h.read r

theorem Extends.refl (h : Heap α) : Extends h h := ⟨Nat.le_refl _, fun _ _ => rfl⟩

theorem Extends.trans {a b c : Heap α} (h1 : Extends a b) (h2 : Extends b c) : Extends a c :=
  ⟨Nat.le_trans h1.1 h2.1, fun r hr => by
    rw [h2.2 r (Nat.lt_of_lt_of_le hr h1.1), h1.2 r hr]⟩

@[simp] theorem size_alloc (h : Heap α) (b : List α) : (h.alloc b).1.size = h.size + 1 := by
  simp [alloc, size]

@[simp] theorem alloc_ref (h : Heap α) (b : List α) : (h.alloc b).2 = h.size := rfl

@[simp] theorem read_alloc_new (h : Heap α) (b : List α) : (h.alloc b).1.read h.size = b := by
  simp [alloc, read, size]

theorem read_alloc_old (h : Heap α) (b : List α) (r : Ref) (hr : r < h.size) :
    (h.alloc b).1.read r = h.read r := by
  simp only [alloc, read, size, List.getD_eq_getElem?_getD] at *
  rw [List.getElem?_append_left hr]

theorem ext_alloc (h : Heap α) (b : List α) : Extends h (h.alloc b).1 :=
  ⟨by simp, fun r hr => read_alloc_old h b r hr⟩

@[simp] theorem size_write (h : Heap α) (r : Ref) (b : List α) : (h.write r b).size = h.size := by
  simp [write, size]

theorem read_write_same (h : Heap α) (r : Ref) (b : List α) (hr : r < h.size) :
    (h.write r b).read r = b := by
  simp only [write, read, size, List.getD_eq_getElem?_getD] at *
  simp [hr]

theorem read_write_ne (h : Heap α) (r r' : Ref) (b : List α) (hne : r' ≠ r) :
    (h.write r b).read r' = h.read r' := by
  simp only [write, read, List.getD_eq_getElem?_getD]
  rw [List.getElem?_set_ne (Ne.symm hne)]

/-- writing into a cell that `h0` does not have keeps `h0`'s cells -/
theorem ext_write {h0 h : Heap α} (hx : Extends h0 h) (r : Ref) (b : List α) (hr : h0.size ≤ r) :
    Extends h0 (h.write r b) :=
  ⟨by simpa using hx.1, fun r' hr' => by
    rw [read_write_ne h r r' b (Nat.ne_of_lt (by omega)), hx.2 r' hr']⟩

@[simp] theorem size_copy (h : Heap α) (r : Ref) : (h.copy r).1.size = h.size + 1 := by
  simp [copy]

@[simp] theorem copy_ref (h : Heap α) (r : Ref) : (h.copy r).2 = h.size := rfl

@[simp] theorem read_copy_new (h : Heap α) (r : Ref) : (h.copy r).1.read h.size = h.read r := by
  simp [copy]

theorem ext_copy (h : Heap α) (r : Ref) : Extends h (h.copy r).1 := ext_alloc h _

end Heap

open Heap

/-! ## Preloads: below / contents -/

theorem Preloads.Below.mono {p : Preloads α} {n m : Nat} (hp : p.Below n) (hnm : n ≤ m) :
    p.Below m := by
  unfold Preloads.Below at *
  simp only [List.all_eq_true] at *
  intro o ho
  have := hp o ho
  cases o with
  | none => simp
  | some r => simp at this ⊢; omega

/-- membership form of `Below` -/
theorem Preloads.Below.lt {p : Preloads α} {n : Nat} (hp : p.Below n) {r : Ref}
    (hr : some r ∈ p.arrays) : r < n := by
  unfold Preloads.Below at hp
  simp only [List.all_eq_true] at hp
  simpa using hp (some r) hr

theorem contents_ext {h h' : Heap α} {p : Preloads α} (hx : Extends h h') (hp : p.Below h.size) :
    contents h' p = contents h p := by
  have e : ∀ r, some r ∈ p.arrays → h'.read r = h.read r := fun r hr => hx.2 r (hp.lt hr)
  unfold contents SlotsOf.map
  have a1 : p.wTilde.map h'.read = p.wTilde.map h.read := by
    cases hq : p.wTilde with
    | none => rfl
    | some r => simp [e r (by simp [SlotsOf.arrays, hq])]
  have a2 : p.operatedMappingMatrix.map h'.read = p.operatedMappingMatrix.map h.read := by
    cases hq : p.operatedMappingMatrix with
    | none => rfl
    | some r => simp [e r (by simp [SlotsOf.arrays, hq])]
  have a3 : p.linearFuncDict.map h'.read = p.linearFuncDict.map h.read := by
    cases hq : p.linearFuncDict with
    | none => rfl
    | some r => simp [e r (by simp [SlotsOf.arrays, hq])]
  have a4 : p.dataLinearFuncDict.map h'.read = p.dataLinearFuncDict.map h.read := by
    cases hq : p.dataLinearFuncDict with
    | none => rfl
    | some r => simp [e r (by simp [SlotsOf.arrays, hq])]
  have a5 : p.mapperOperatedDict.map h'.read = p.mapperOperatedDict.map h.read := by
    cases hq : p.mapperOperatedDict with
    | none => rfl
    | some r => simp [e r (by simp [SlotsOf.arrays, hq])]
  have a6 : p.curvatureMatrix.map h'.read = p.curvatureMatrix.map h.read := by
    cases hq : p.curvatureMatrix with
    | none => rfl
    | some r => simp [e r (by simp [SlotsOf.arrays, hq])]
  have a7 : p.dataVectorMapper.map h'.read = p.dataVectorMapper.map h.read := by
    cases hq : p.dataVectorMapper with
    | none => rfl
    | some r => simp [e r (by simp [SlotsOf.arrays, hq])]
  have a8 : p.curvatureMatrixMapperDiag.map h'.read = p.curvatureMatrixMapperDiag.map h.read := by
    cases hq : p.curvatureMatrixMapperDiag with
    | none => rfl
    | some r => simp [e r (by simp [SlotsOf.arrays, hq])]
  have a9 : p.regularizationMatrix.map h'.read = p.regularizationMatrix.map h.read := by
    cases hq : p.regularizationMatrix with
    | none => rfl
    | some r => simp [e r (by simp [SlotsOf.arrays, hq])]
  rw [a1, a2, a3, a4, a5, a6, a7, a8, a9]

/-! ## accessor specifications -/

/-- `f` extends the heap, returns a live reference, and the cell returned holds `v` of the preload
    contents -/
def Good (p : Preloads α) (f : Impl.Acc α) (v : Slots α → List α) : Prop :=
  ∀ h, p.Below h.size →
    Extends h (f h).1 ∧ (f h).2 < (f h).1.size ∧ (f h).1.read (f h).2 = v (contents h p)

/-- the array returned was allocated by `f` itself (it is not a preloaded array, nor any older one) -/
def Fresh (p : Preloads α) (f : Impl.Acc α) : Prop := ∀ h, p.Below h.size → h.size ≤ (f h).2

theorem Good.congr {p : Preloads α} {f : Impl.Acc α} {v v' : Slots α → List α}
    (hg : Good p f v) (hv : ∀ s, v s = v' s) : Good p f v' := by
  intro h hp
  obtain ⟨a, b, c⟩ := hg h hp
  exact ⟨a, b, by rw [c, hv]⟩

/-- allocation of a value computed from the heap's preload contents -/
theorem good_alloc {p : Preloads α} (g : Heap α → List α) (v : Slots α → List α)
    (hg : ∀ h, p.Below h.size → g h = v (contents h p)) :
    Good p (fun h => h.alloc (g h)) v ∧ Fresh p (fun h => h.alloc (g h)) := by
  refine ⟨fun h hp => ⟨ext_alloc h _, by simp, ?_⟩, fun h _ => by simp⟩
  simp [hg h hp]

/-- `if preloads.slot is not None: return preloads.slot` -/
theorem good_slotOr {p : Preloads α} (slot : Option Ref) (sv : Slots α → Option (List α))
    (hmem : ∀ r, slot = some r → some r ∈ p.arrays)
    (hsv : ∀ h, sv (contents h p) = slot.map h.read)
    {compute : Impl.Acc α} {vc : Slots α → List α} (hc : Good p compute vc) :
    Good p (Impl.slotOr slot compute) (fun s => (sv s).getD (vc s)) := by
  intro h hp
  unfold Impl.slotOr
  cases hs : slot with
  | none =>
    have := hc h hp
    simpa [hsv, hs] using this
  | some r =>
    have hr : r < h.size := hp.lt (hmem r hs)
    exact ⟨Extends.refl h, hr, by simp [hsv, hs]⟩

/-- `return copy.copy(preloads.slot)` -/
theorem good_slotCopyOr {p : Preloads α} (slot : Option Ref) (sv : Slots α → Option (List α))
    (hsv : ∀ h, sv (contents h p) = slot.map h.read)
    {compute : Impl.Acc α} {vc : Slots α → List α} (hc : Good p compute vc) (hf : Fresh p compute) :
    Good p (Impl.slotCopyOr true slot compute) (fun s => (sv s).getD (vc s))
    ∧ Fresh p (Impl.slotCopyOr true slot compute) := by
  constructor
  · intro h hp
    unfold Impl.slotCopyOr
    cases hs : slot with
    | none =>
      have := hc h hp
      simpa [hsv, hs] using this
    | some r =>
      refine ⟨ext_copy h r, by simp, ?_⟩
      simp [hsv, hs]
  · intro h hp
    unfold Impl.slotCopyOr
    cases hs : slot with
    | none => simpa using hf h hp
    | some r => simp

/-- run `g`, then write into the (fresh) array it returned -/
theorem good_thenWrite {p : Preloads α} {g : Impl.Acc α} {vg : Slots α → List α}
    (hg : Good p g vg) (hf : Fresh p g) (f : Heap α → List α → List α)
    (vf : Slots α → List α → List α)
    (hfv : ∀ h h', p.Below h.size → Extends h h' → ∀ b, f h' b = vf (contents h p) b) :
    Good p (Impl.thenWrite g f) (fun s => vf s (vg s)) ∧ Fresh p (Impl.thenWrite g f) := by
  constructor
  · intro h hp
    obtain ⟨hx, hlt, hrd⟩ := hg h hp
    have hfr := hf h hp
    unfold Impl.thenWrite
    refine ⟨ext_write hx _ _ hfr, by simpa using hlt, ?_⟩
    simp only []
    rw [read_write_same _ _ _ hlt, hfv h _ hp hx, hrd]
  · intro h hp
    unfold Impl.thenWrite
    exact hf h hp

/-- run `g1`, then `g2`, then allocate `k` of the two arrays -/
theorem good_alloc2 {p : Preloads α} {g1 g2 : Impl.Acc α} {v1 v2 : Slots α → List α}
    (h1 : Good p g1 v1) (h2 : Good p g2 v2) (k : List α → List α → List α) :
    Good p (fun h => ((g2 (g1 h).1).1.alloc
        (k ((g2 (g1 h).1).1.read (g1 h).2) ((g2 (g1 h).1).1.read (g2 (g1 h).1).2))))
      (fun s => k (v1 s) (v2 s))
    ∧ Fresh p (fun h => ((g2 (g1 h).1).1.alloc
        (k ((g2 (g1 h).1).1.read (g1 h).2) ((g2 (g1 h).1).1.read (g2 (g1 h).1).2)))) := by
  constructor
  · intro h hp
    obtain ⟨x1, l1, r1⟩ := h1 h hp
    have hp1 : p.Below (g1 h).1.size := hp.mono x1.1
    obtain ⟨x2, l2, r2⟩ := h2 _ hp1
    refine ⟨(x1.trans x2).trans (ext_alloc _ _), by simp, ?_⟩
    simp only [alloc_ref, read_alloc_new]
    rw [x2.2 _ l1, r1, r2, contents_ext x1 hp]
  · intro h hp
    obtain ⟨x1, _, _⟩ := h1 h hp
    obtain ⟨x2, _, _⟩ := h2 _ (hp.mono x1.1)
    simp only [alloc_ref]
    exact Nat.le_trans x1.1 x2.1

/-- run `g1` (fresh result), then `g2`, then write `k` of the two arrays INTO the first -/
theorem good_write2 {p : Preloads α} {g1 g2 : Impl.Acc α} {v1 v2 : Slots α → List α}
    (h1 : Good p g1 v1) (f1 : Fresh p g1) (h2 : Good p g2 v2) (k : List α → List α → List α) :
    Good p (fun h => (((g2 (g1 h).1).1.write (g1 h).2
        (k ((g2 (g1 h).1).1.read (g1 h).2) ((g2 (g1 h).1).1.read (g2 (g1 h).1).2))), (g1 h).2))
      (fun s => k (v1 s) (v2 s))
    ∧ Fresh p (fun h => (((g2 (g1 h).1).1.write (g1 h).2
        (k ((g2 (g1 h).1).1.read (g1 h).2) ((g2 (g1 h).1).1.read (g2 (g1 h).1).2))), (g1 h).2)) := by
  constructor
  · intro h hp
    obtain ⟨x1, l1, r1⟩ := h1 h hp
    have hp1 : p.Below (g1 h).1.size := hp.mono x1.1
    obtain ⟨x2, l2, r2⟩ := h2 _ hp1
    have l1' : (g1 h).2 < (g2 (g1 h).1).1.size := Nat.lt_of_lt_of_le l1 x2.1
    refine ⟨ext_write (x1.trans x2) _ _ (f1 h hp), by simpa using l1', ?_⟩
    simp only []
    rw [read_write_same _ _ _ l1', x2.2 _ l1, r1, r2, contents_ext x1 hp]
  · intro h hp
    exact f1 h hp

/-- run `g`, then allocate `k` of the array (and of the heap's preload contents) -/
theorem good_alloc1 {p : Preloads α} {g : Impl.Acc α} {vg : Slots α → List α}
    (hg : Good p g vg) (k : Heap α → List α → List α) (vk : Slots α → List α → List α)
    (hk : ∀ h h', p.Below h.size → Extends h h' → ∀ b, k h' b = vk (contents h p) b) :
    Good p (fun h => (g h).1.alloc (k (g h).1 ((g h).1.read (g h).2))) (fun s => vk s (vg s))
    ∧ Fresh p (fun h => (g h).1.alloc (k (g h).1 ((g h).1.read (g h).2))) := by
  constructor
  · intro h hp
    obtain ⟨x, l, r⟩ := hg h hp
    refine ⟨x.trans (ext_alloc _ _), by simp, ?_⟩
    simp only [alloc_ref, read_alloc_new]
    rw [hk h _ hp x, r]
  · intro h hp
    obtain ⟨x, _, _⟩ := hg h hp
    simp only [alloc_ref]
    exact x.1

/-! ## the accessors of the repaired code refine the Spec values -/
section refinement
set_option linter.unusedSectionVars false
variable [Add α] [OfNat α 0]
variable (c : Cfg α) (E : Ext α) (p : Preloads α)

theorem lfVal_eq {h h' : Heap α} (hp : p.Below h.size) (hx : Extends h h') :
    Impl.lfVal E p h' = Spec.lf E (contents h p) := by
  unfold Impl.lfVal Spec.lf contents SlotsOf.map
  cases hq : p.linearFuncDict with
  | none => rfl
  | some r => simp [hx.2 r (hp.lt (by simp [SlotsOf.arrays, hq]))]

theorem wtVal_eq {h h' : Heap α} (hp : p.Below h.size) (hx : Extends h h') :
    Impl.wtVal E p h' = Spec.wt E (contents h p) := by
  unfold Impl.wtVal Spec.wt contents SlotsOf.map
  cases hq : p.wTilde with
  | none => rfl
  | some r => simp [hx.2 r (hp.lt (by simp [SlotsOf.arrays, hq]))]

theorem funcOffWrites_eq {h h' : Heap α} (hp : p.Below h.size) (hx : Extends h h') :
    Impl.funcOffWrites E p h' = Spec.funcOffWrites E (contents h p) := by
  unfold Impl.funcOffWrites Spec.funcOffWrites
  rw [lfVal_eq E p hp hx]
  simp only [contents, SlotsOf.map]
  cases hq : p.dataLinearFuncDict with
  | some r => simp [hx.2 r (hp.lt (by simp [SlotsOf.arrays, hq]))]
  | none =>
    cases hq2 : p.mapperOperatedDict with
    | some r => simp [hx.2 r (hp.lt (by simp [SlotsOf.arrays, hq2]))]
    | none => simp

theorem ommFresh_good :
    Good p (Impl.ommFresh c E p) (Spec.ommFresh c E) ∧ Fresh p (Impl.ommFresh c E p) := by
  have := good_alloc (p := p)
    (fun h => if c.funcOverride then E.ommOfLf (Impl.lfVal E p h) else E.ommPlain)
    (Spec.ommFresh c E)
    (fun h hp => by
      unfold Spec.ommFresh
      rw [lfVal_eq E p hp (Extends.refl h)])
  have e : Impl.ommFresh c E p
      = fun h => h.alloc (if c.funcOverride then E.ommOfLf (Impl.lfVal E p h) else E.ommPlain) := by
    funext h; unfold Impl.ommFresh; split <;> rfl
  rw [e]; exact this

theorem omm_good : Good p (Impl.operatedMappingMatrix c E p) (Spec.omm c E) := by
  have := good_slotOr (p := p) p.operatedMappingMatrix (fun s => s.operatedMappingMatrix)
    (fun r hr => by simp [SlotsOf.arrays, hr]) (fun h => rfl) (ommFresh_good c E p).1
  exact this.congr (fun s => rfl)

theorem withDiag_good {g : Impl.Acc α} {v : Slots α → List α} (hg : Good p g v) (hf : Fresh p g) :
    Good p (Impl.withDiag c g) (fun s => Spec.withDiag c (v s)) ∧ Fresh p (Impl.withDiag c g) := by
  unfold Impl.withDiag Spec.withDiag
  split
  · exact ⟨hg, hf⟩
  · exact good_thenWrite hg hf _ (fun _ b => addDiag c.dim c.noRegIdx c.diagValue b)
      (fun _ _ _ _ _ => rfl)

/-- `omm`-then-kernel: the shape of `data_vector` and `curvature_matrix` in the mapping formalism -/
theorem ommThen_good (k : List α → List α) :
    Good p (fun h => (Impl.operatedMappingMatrix c E p h).1.alloc
        (k ((Impl.operatedMappingMatrix c E p h).1.read (Impl.operatedMappingMatrix c E p h).2)))
      (fun s => k (Spec.omm c E s))
    ∧ Fresh p (fun h => (Impl.operatedMappingMatrix c E p h).1.alloc
        (k ((Impl.operatedMappingMatrix c E p h).1.read (Impl.operatedMappingMatrix c E p h).2))) :=
  good_alloc1 (omm_good c E p) (fun _ b => k b) (fun _ b => k b) (fun _ _ _ _ _ => rfl)

theorem dataVectorMapping_good :
    Good p (Impl.dataVectorMapping c E Policy.repaired p) (Spec.dataVectorMapping c E) := by
  intro h hp
  have hc := (ommThen_good c E p E.dvOfOmm).1 h hp
  unfold Impl.dataVectorMapping Spec.dataVectorMapping
  cases hq : p.dataVectorMapper with
  | none =>
    have : (contents h p).dataVectorMapper = none := by simp [contents, SlotsOf.map, hq]
    simpa [this] using hc
  | some r =>
    have hv : (contents h p).dataVectorMapper = some (h.read r) := by
      simp [contents, SlotsOf.map, hq]
    by_cases hfl : c.hasFuncList = true
    · simpa [Policy.repaired, hfl, hv] using hc
    · have hr : r < h.size := hp.lt (by simp [SlotsOf.arrays, hq])
      simp only [Bool.not_eq_true] at hfl
      simp only [Policy.repaired, hfl, Bool.and_false, Bool.false_eq_true, ↓reduceIte, hv]
      exact ⟨Extends.refl h, hr, trivial⟩

theorem curvatureMapping_good :
    Good p (Impl.curvatureMapping c E Policy.repaired p) (Spec.curvatureMapping c E)
    ∧ Fresh p (Impl.curvatureMapping c E Policy.repaired p) := by
  have hk := ommThen_good c E p E.curvOfOmm
  have hd := withDiag_good c p hk.1 hk.2
  have := good_slotCopyOr (p := p) p.curvatureMatrix (fun s => s.curvatureMatrix) (fun h => rfl)
    hd.1 hd.2
  refine ⟨this.1.congr (fun s => ?_), this.2⟩
  unfold Spec.curvatureMapping
  cases s.curvatureMatrix <;> rfl

theorem dataVectorMapperW_good :
    Good p (Impl.dataVectorMapperW E Policy.repaired p) (fun s => s.dataVectorMapper.getD E.dvW)
    ∧ Fresh p (Impl.dataVectorMapperW E Policy.repaired p) := by
  have ha := good_alloc (p := p) (fun _ => E.dvW) (fun _ => E.dvW) (fun _ _ => rfl)
  exact good_slotCopyOr (p := p) p.dataVectorMapper (fun s => s.dataVectorMapper) (fun h => rfl)
    ha.1 ha.2

theorem dataVectorW_good :
    Good p (Impl.dataVectorW c E Policy.repaired p) (Spec.dataVectorW c E) := by
  unfold Impl.dataVectorW
  split
  · rename_i hfl
    have hm := dataVectorMapperW_good E p
    have := (good_thenWrite hm.1 hm.2
      (fun h b => applyWrites (E.dvFuncEntries (Impl.lfVal E p h)) b)
      (fun s b => applyWrites (E.dvFuncEntries (Spec.lf E s)) b)
      (fun h h' hp hx b => by rw [lfVal_eq E p hp hx])).1
    exact this.congr (fun s => by simp [Spec.dataVectorW, hfl])
  · rename_i hfl
    have ha := good_alloc (p := p) (fun _ => E.dvW) (fun _ => E.dvW) (fun _ _ => rfl)
    have := good_slotOr (p := p) p.dataVectorMapper (fun s => s.dataVectorMapper)
      (fun r hr => by simp [SlotsOf.arrays, hr]) (fun h => rfl) ha.1
    exact this.congr (fun s => by simp [Spec.dataVectorW, hfl])

theorem mapperDiag_good :
    Good p (Impl.mapperDiag E Policy.repaired p) (Spec.mapperDiag E)
    ∧ Fresh p (Impl.mapperDiag E Policy.repaired p) := by
  have ha := good_alloc (p := p) (fun h => E.diagOfWT (Impl.wtVal E p h))
    (fun s => E.diagOfWT (Spec.wt E s))
    (fun h hp => by rw [wtVal_eq E p hp (Extends.refl h)])
  have := good_slotCopyOr (p := p) p.curvatureMatrixMapperDiag
    (fun s => s.curvatureMatrixMapperDiag) (fun h => rfl) ha.1 ha.2
  exact ⟨this.1.congr (fun s => rfl), this.2⟩

theorem multiMapper_good :
    Good p (Impl.multiMapper c E Policy.repaired p) (Spec.multiMapper c E)
    ∧ Fresh p (Impl.multiMapper c E Policy.repaired p) := by
  have hm := mapperDiag_good E p
  unfold Impl.multiMapper
  split
  · rename_i h1
    exact ⟨hm.1.congr (fun s => by simp [Spec.multiMapper, h1]), hm.2⟩
  · rename_i h1
    have := good_thenWrite hm.1 hm.2
      (fun h b => applyWrites (E.offDiagWrites (Impl.wtVal E p h)) b)
      (fun s b => applyWrites (E.offDiagWrites (Spec.wt E s)) b)
      (fun h h' hp hx b => by rw [wtVal_eq E p hp hx])
    exact ⟨this.1.congr (fun s => by simp [Spec.multiMapper, h1]), this.2⟩

theorem funcListAndMapper_good :
    Good p (Impl.funcListAndMapper c E Policy.repaired p) (Spec.funcListAndMapper c E)
    ∧ Fresh p (Impl.funcListAndMapper c E Policy.repaired p) := by
  have hm := multiMapper_good c E p
  have := good_thenWrite hm.1 hm.2
    (fun h b => applyWrites (E.funcDiagWrites (Impl.lfVal E p h))
      (applyWrites (Impl.funcOffWrites E p h) b))
    (fun s b => applyWrites (E.funcDiagWrites (Spec.lf E s)) (applyWrites (Spec.funcOffWrites E s) b))
    (fun h h' hp hx b => by
      rw [lfVal_eq E p hp hx, funcOffWrites_eq E p hp hx])
  exact ⟨this.1.congr (fun s => rfl), this.2⟩

theorem preMirror_good :
    Good p (fun h => if c.hasFuncList then Impl.funcListAndMapper c E Policy.repaired p h
        else if c.nMappers == 1 then Impl.mapperDiag E Policy.repaired p h
        else Impl.multiMapper c E Policy.repaired p h) (Spec.preMirror c E) := by
  unfold Spec.preMirror
  by_cases h1 : c.hasFuncList = true
  · simpa [h1] using (funcListAndMapper_good c E p).1
  · by_cases h2 : (c.nMappers == 1) = true
    · simpa [h1, h2] using (mapperDiag_good E p).1
    · simpa [h1, h2] using (multiMapper_good c E p).1

theorem curvatureW_good :
    Good p (Impl.curvatureW c E Policy.repaired p) (Spec.curvatureW c E)
    ∧ Fresh p (Impl.curvatureW c E Policy.repaired p) := by
  have hk := good_alloc1 (preMirror_good c E p) (fun _ b => E.mirror b) (fun _ b => E.mirror b)
    (fun _ _ _ _ _ => rfl)
  have hd := withDiag_good c p hk.1 hk.2
  have := good_slotCopyOr (p := p) p.curvatureMatrix (fun s => s.curvatureMatrix) (fun h => rfl)
    hd.1 hd.2
  refine ⟨this.1.congr (fun s => ?_), this.2⟩
  unfold Spec.curvatureW
  cases s.curvatureMatrix <;> rfl

theorem dataVector_good (w : Bool) :
    Good p (Impl.dataVector c E Policy.repaired w p) (Spec.dataVector c E w) := by
  unfold Impl.dataVector Spec.dataVector
  cases w
  · simpa using dataVectorMapping_good c E p
  · simpa using dataVectorW_good c E p

theorem curvatureMatrix_good (w : Bool) :
    Good p (Impl.curvatureMatrix c E Policy.repaired w p) (Spec.curvatureMatrix c E w)
    ∧ Fresh p (Impl.curvatureMatrix c E Policy.repaired w p) := by
  unfold Impl.curvatureMatrix Spec.curvatureMatrix
  cases w
  · simpa using curvatureMapping_good c E p
  · simpa using curvatureW_good c E p

theorem regularizationMatrix_good :
    Good p (Impl.regularizationMatrix E p) (Spec.regularizationMatrix E) := by
  have ha := good_alloc (p := p) (fun _ => E.regCompute) (fun _ => E.regCompute) (fun _ _ => rfl)
  have := good_slotOr (p := p) p.regularizationMatrix (fun s => s.regularizationMatrix)
    (fun r hr => by simp [SlotsOf.arrays, hr]) (fun h => rfl) ha.1
  exact this.congr (fun s => rfl)

theorem reduced_good {g : Impl.Acc α} {v : Slots α → List α} (hg : Good p g v) :
    Good p (Impl.reduced c E g) (fun s => Spec.red c E (v s)) := by
  unfold Impl.reduced Spec.red
  by_cases h1 : c.allReg = true
  · simpa [h1] using hg
  · have := (good_alloc1 hg (fun _ b => E.reduce b) (fun _ b => E.reduce b)
      (fun _ _ _ _ _ => rfl)).1
    simpa [h1] using this

theorem reducedVec_good {g : Impl.Acc α} {v : Slots α → List α} (hg : Good p g v) :
    Good p (Impl.reducedVec c E g) (fun s => Spec.redVec c E (v s)) := by
  unfold Impl.reducedVec Spec.redVec
  by_cases h1 : c.allReg = true
  · simpa [h1] using hg
  · have := (good_alloc1 hg (fun _ b => E.reduceVec b) (fun _ b => E.reduceVec b)
      (fun _ _ _ _ _ => rfl)).1
    simpa [h1] using this

theorem curvatureRegMatrix_good (w : Bool) :
    Good p (Impl.curvatureRegMatrix c E Policy.repaired w p) (Spec.curvatureRegMatrix c E w) := by
  have hF := curvatureMatrix_good c E p w
  have hH := regularizationMatrix_good E p
  unfold Impl.curvatureRegMatrix Spec.curvatureRegMatrix
  by_cases h1 : c.hasReg = true
  · by_cases h2 : (c.nObjs == 1) = true
    · have := (good_write2 hF.1 hF.2 hH addBuf).1
      simpa [h1, h2] using this
    · have := (good_alloc2 hF.1 hH addBuf).1
      simpa [h1, h2] using this
  · simpa [h1] using hF.1

theorem reconstruction_good (w : Bool) :
    Good p (Impl.reconstruction c E Policy.repaired w p) (Spec.reconstruction c E w) := by
  have := (good_alloc2 (dataVector_good c E p w) (curvatureRegMatrix_good c E p w)
    (fun d f => E.solve f d)).1
  unfold Impl.reconstruction Spec.reconstruction
  exact this

theorem mapped_good (w : Bool) :
    Good p (Impl.mapped c E Policy.repaired w p) (Spec.mapped c E w) := by
  have := (good_alloc1 (reconstruction_good c E p w)
    (fun h b => if w then E.mappedW (Impl.lfVal E p h) b else E.mappedMapping (Impl.lfVal E p h) b)
    (fun s b => if w then E.mappedW (Spec.lf E s) b else E.mappedMapping (Spec.lf E s) b)
    (fun h h' hp hx b => by rw [lfVal_eq E p hp hx])).1
  unfold Impl.mapped
  exact this.congr (fun s => by unfold Spec.mapped; cases w <;> rfl)

theorem regularizationTerm_good (w : Bool) :
    Good p (Impl.regularizationTerm c E Policy.repaired w p)
      (fun s => [Spec.regularizationTerm c E w s]) := by
  unfold Impl.regularizationTerm Spec.regularizationTerm
  by_cases h1 : c.hasReg = true
  · have := (good_alloc2 (reducedVec_good c E p (reconstruction_good c E p w))
      (reduced_good c E p (regularizationMatrix_good E p))
      (fun sv hm => [E.regTerm hm sv])).1
    simpa [h1] using this
  · have := (good_alloc (p := p) (fun _ => [(0 : α)]) (fun _ => [(0 : α)]) (fun _ _ => rfl)).1
    simpa [h1] using this

theorem logDetCurvReg_good (w : Bool) :
    Good p (Impl.logDetCurvReg c E Policy.repaired w p) (fun s => [Spec.logDetCurvReg c E w s]) := by
  unfold Impl.logDetCurvReg Spec.logDetCurvReg
  by_cases h1 : c.hasReg = true
  · have := (good_alloc1 (reduced_good c E p (curvatureRegMatrix_good c E p w))
      (fun _ b => [E.logDetCurvReg b]) (fun _ b => [E.logDetCurvReg b]) (fun _ _ _ _ _ => rfl)).1
    simpa [h1] using this
  · have := (good_alloc (p := p) (fun _ => [(0 : α)]) (fun _ => [(0 : α)]) (fun _ _ => rfl)).1
    simpa [h1] using this

theorem logDetReg_good :
    Good p (Impl.logDetReg c E p) (fun s => [Spec.logDetReg c E s]) := by
  unfold Impl.logDetReg Spec.logDetReg
  by_cases h1 : c.hasReg = true
  · cases hq : p.logDetRegularizationMatrixTerm with
    | some v =>
      have := (good_alloc (p := p) (fun _ => [v]) (fun _ => [v]) (fun _ _ => rfl)).1
      have hv : ∀ h, (contents h p).logDetRegularizationMatrixTerm = some v := by
        intro h; simp [contents, SlotsOf.map, hq]
      intro h hp
      have := this h hp
      simpa [h1, hv h] using this
    | none =>
      have := (good_alloc1 (reduced_good c E p (regularizationMatrix_good E p))
        (fun _ b => [E.logDetReg b]) (fun _ b => [E.logDetReg b]) (fun _ _ _ _ _ => rfl)).1
      have hv : ∀ h, (contents h p).logDetRegularizationMatrixTerm = none := by
        intro h; simp [contents, SlotsOf.map, hq]
      intro h hp
      have := this h hp
      simpa [h1, hv h] using this
  · have := (good_alloc (p := p) (fun _ => [(0 : α)]) (fun _ => [(0 : α)]) (fun _ _ => rfl)).1
    simpa [h1] using this

/-- every read of the repaired code returns the Spec value and leaves every older array alone -/
theorem access_good (w : Bool) (a : Access) :
    Good p (Impl.access c E Policy.repaired w p a) (fun s => Spec.output c E w s a) := by
  cases a
  · exact omm_good c E p
  · exact dataVector_good c E p w
  · exact (curvatureMatrix_good c E p w).1
  · exact regularizationMatrix_good E p
  · exact curvatureRegMatrix_good c E p w
  · exact reconstruction_good c E p w
  · exact mapped_good c E p w
  · exact regularizationTerm_good c E p w
  · exact logDetCurvReg_good c E p w
  · exact logDetReg_good c E p

end refinement

/-! ## reads, one inversion, a history -/
section runs
set_option linter.unusedSectionVars false
variable [Add α] [OfNat α 0]
variable (c : Cfg α) (E : Ext α) (p : Preloads α)

theorem readAll_spec (w : Bool) (accs : List Access) :
    ∀ h : Heap α, p.Below h.size →
      Extends h (Impl.readAll c E Policy.repaired w p accs h).1
      ∧ (Impl.readAll c E Policy.repaired w p accs h).2
          = accs.map (Spec.output c E w (contents h p)) := by
  induction accs with
  | nil => intro h _; exact ⟨Extends.refl h, rfl⟩
  | cons a as ih =>
    intro h hp
    obtain ⟨x, _, r⟩ := access_good c E p w a h hp
    obtain ⟨x2, r2⟩ := ih _ (hp.mono x.1)
    refine ⟨x.trans x2, ?_⟩
    simp only [Impl.readAll, List.map_cons]
    rw [r, r2, contents_ext x hp]

theorem inversion_spec (accs : List Access) (h : Heap α) (hp : p.Below h.size) :
    Extends h (Impl.inversion c E Policy.repaired p accs h).1
    ∧ (Impl.inversion c E Policy.repaired p accs h).2 = Spec.inversion c E (contents h p) accs := by
  have hw : (contents h p).useWTilde = p.useWTilde := rfl
  have hwt : Impl.wtVal E p h = Spec.wt E (contents h p) := wtVal_eq E p hp (Extends.refl h)
  unfold Impl.inversion Spec.inversion
  rw [hw, hwt]
  by_cases hc : (useWTilde c p.useWTilde && !E.wtCheck (Spec.wt E (contents h p))) = true
  · simp only [hc, ↓reduceIte]
    exact ⟨Extends.refl h, trivial⟩
  · obtain ⟨x, r⟩ := readAll_spec c E p (useWTilde c p.useWTilde) accs h hp
    simp only [hc, Bool.false_eq_true, ↓reduceIte]
    exact ⟨x, by rw [r]⟩

theorem history_spec (hist : List (List Access)) :
    ∀ h : Heap α, p.Below h.size →
      Extends h (Impl.history c E Policy.repaired p hist h).1
      ∧ (Impl.history c E Policy.repaired p hist h).2
          = hist.map (Spec.inversion c E (contents h p)) := by
  induction hist with
  | nil => intro h _; exact ⟨Extends.refl h, rfl⟩
  | cons accs rest ih =>
    intro h hp
    obtain ⟨x, r⟩ := inversion_spec c E p accs h hp
    obtain ⟨x2, r2⟩ := ih _ (hp.mono x.1)
    refine ⟨x.trans x2, ?_⟩
    simp only [Impl.history, List.map_cons]
    rw [r, r2, contents_ext x hp]

end runs

/-! ## slot transparency on the Spec values -/

/-- every filled slot holds what the preload-free computation (formalism `w`) would compute -/
structure Consistent [Add α] [OfNat α 0] (c : Cfg α) (E : Ext α) (w : Bool) (s : Slots α) : Prop where
  wTilde : ∀ v, s.wTilde = some v → v = E.wtCompute
  omm : ∀ v, s.operatedMappingMatrix = some v → v = Spec.ommFresh c E {}
  lf : ∀ v, s.linearFuncDict = some v → v = E.lfCompute
  dlf : ∀ v, s.dataLinearFuncDict = some v → v = E.dlfOfLf E.lfCompute
  momd : ∀ v, s.mapperOperatedDict = some v → v = E.momdCompute
  curv : ∀ v, s.curvatureMatrix = some v → v = Spec.curvatureMatrix c E w {}
  dvm : ∀ v, s.dataVectorMapper = some v → v = if w then E.dvW else E.dvmMapping
  diag : ∀ v, s.curvatureMatrixMapperDiag = some v → v = E.diagOfWT E.wtCompute
  reg : ∀ v, s.regularizationMatrix = some v → v = E.regCompute
  logDet : ∀ v, s.logDetRegularizationMatrixTerm = some v →
    v = E.logDetReg (Spec.red c E E.regCompute)

/-- the alternative routes to the same quantity agree (exact arithmetic; C04's business) -/
structure Routes [Add α] [OfNat α 0] (c : Cfg α) (E : Ext α) : Prop where
  /-- mapper×func blocks through `data_linear_func_matrix_dict` = through the convolver frames -/
  dlf : E.funcOffViaDlf (E.dlfOfLf E.lfCompute) = E.funcOffDefault E.lfCompute
  /-- mapper×func blocks through `mapper_operated_mapping_matrix_dict` = through the convolver frames -/
  momd : E.funcOffViaMomd E.momdCompute E.lfCompute = E.funcOffDefault E.lfCompute
  /-- without linear func lists the mapper data vector of the mapping formalism IS its data vector -/
  dvm : c.hasFuncList = false → E.dvmMapping = E.dvOfOmm (Spec.ommFresh c E {})

section transparency
set_option linter.unusedSectionVars false
variable [Add α] [OfNat α 0]
variable {c : Cfg α} {E : Ext α} {w : Bool} {s : Slots α}

theorem tr_lf (hs : Consistent c E w s) : Spec.lf E s = E.lfCompute := by
  unfold Spec.lf
  cases hq : s.linearFuncDict with
  | none => rfl
  | some v => simp [hs.lf v hq]

theorem tr_wt (hs : Consistent c E w s) : Spec.wt E s = E.wtCompute := by
  unfold Spec.wt
  cases hq : s.wTilde with
  | none => rfl
  | some v => simp [hs.wTilde v hq]

theorem lf_empty : Spec.lf E ({} : Slots α) = E.lfCompute := rfl
theorem wt_empty : Spec.wt E ({} : Slots α) = E.wtCompute := rfl

theorem tr_ommFresh (hs : Consistent c E w s) : Spec.ommFresh c E s = Spec.ommFresh c E {} := by
  unfold Spec.ommFresh; rw [tr_lf hs, lf_empty]

theorem tr_omm (hs : Consistent c E w s) : Spec.omm c E s = Spec.omm c E {} := by
  unfold Spec.omm
  cases hq : s.operatedMappingMatrix with
  | none => simp [tr_ommFresh hs]
  | some v => simp [hs.omm v hq]

theorem tr_dataVectorMapping (hs : Consistent c E false s) (hr : Routes c E) :
    Spec.dataVectorMapping c E s = Spec.dataVectorMapping c E {} := by
  unfold Spec.dataVectorMapping
  cases hq : s.dataVectorMapper with
  | none => simp [tr_omm hs]
  | some v =>
    have hv := hs.dvm v hq
    simp only [Bool.false_eq_true, ↓reduceIte] at hv
    by_cases hfl : c.hasFuncList = true
    · simp [hfl, tr_omm hs]
    · simp only [Bool.not_eq_true] at hfl
      simp only [hfl, Bool.false_eq_true, ↓reduceIte]
      rw [hv, hr.dvm hfl]
      rfl

theorem tr_curvatureMapping (hs : Consistent c E false s) :
    Spec.curvatureMapping c E s = Spec.curvatureMapping c E {} := by
  cases hq : s.curvatureMatrix with
  | none => simp [Spec.curvatureMapping, hq, tr_omm hs]
  | some v =>
    have := hs.curv v hq
    simp only [Spec.curvatureMatrix, Bool.false_eq_true, ↓reduceIte] at this
    simp [Spec.curvatureMapping, hq, this]

theorem tr_dataVectorW (hs : Consistent c E true s) :
    Spec.dataVectorW c E s = Spec.dataVectorW c E {} := by
  unfold Spec.dataVectorW
  rw [tr_lf hs, lf_empty]
  cases hq : s.dataVectorMapper with
  | none => rfl
  | some v =>
    have hv := hs.dvm v hq
    simp only [↓reduceIte] at hv
    simp [hv]

theorem tr_mapperDiag (hs : Consistent c E w s) : Spec.mapperDiag E s = Spec.mapperDiag E {} := by
  unfold Spec.mapperDiag
  rw [tr_wt hs, wt_empty]
  cases hq : s.curvatureMatrixMapperDiag with
  | none => rfl
  | some v => simp [hs.diag v hq]

theorem tr_multiMapper (hs : Consistent c E w s) :
    Spec.multiMapper c E s = Spec.multiMapper c E {} := by
  unfold Spec.multiMapper
  rw [tr_mapperDiag hs, tr_wt hs, wt_empty]

theorem tr_funcOffWrites (hs : Consistent c E w s) (hr : Routes c E) :
    Spec.funcOffWrites E s = Spec.funcOffWrites E {} := by
  unfold Spec.funcOffWrites
  rw [tr_lf hs, lf_empty]
  cases hq : s.dataLinearFuncDict with
  | some v => simp [hs.dlf v hq, hr.dlf]
  | none =>
    cases hq2 : s.mapperOperatedDict with
    | some v => simp [hs.momd v hq2, hr.momd]
    | none => rfl

theorem tr_funcListAndMapper (hs : Consistent c E w s) (hr : Routes c E) :
    Spec.funcListAndMapper c E s = Spec.funcListAndMapper c E {} := by
  unfold Spec.funcListAndMapper
  rw [tr_lf hs, lf_empty, tr_funcOffWrites hs hr, tr_multiMapper hs]

theorem tr_preMirror (hs : Consistent c E w s) (hr : Routes c E) :
    Spec.preMirror c E s = Spec.preMirror c E {} := by
  unfold Spec.preMirror
  rw [tr_funcListAndMapper hs hr, tr_mapperDiag hs, tr_multiMapper hs]

theorem tr_curvatureW (hs : Consistent c E true s) (hr : Routes c E) :
    Spec.curvatureW c E s = Spec.curvatureW c E {} := by
  cases hq : s.curvatureMatrix with
  | none => simp [Spec.curvatureW, hq, tr_preMirror hs hr]
  | some v =>
    have := hs.curv v hq
    simp only [Spec.curvatureMatrix, ↓reduceIte] at this
    simp [Spec.curvatureW, hq, this]

theorem tr_dataVector (hs : Consistent c E w s) (hr : Routes c E) :
    Spec.dataVector c E w s = Spec.dataVector c E w {} := by
  unfold Spec.dataVector
  cases w
  · simp [tr_dataVectorMapping hs hr]
  · simp [tr_dataVectorW hs]

theorem tr_curvatureMatrix (hs : Consistent c E w s) (hr : Routes c E) :
    Spec.curvatureMatrix c E w s = Spec.curvatureMatrix c E w {} := by
  unfold Spec.curvatureMatrix
  cases w
  · simp [tr_curvatureMapping hs]
  · simp [tr_curvatureW hs hr]

theorem tr_regularizationMatrix (hs : Consistent c E w s) :
    Spec.regularizationMatrix E s = Spec.regularizationMatrix E {} := by
  unfold Spec.regularizationMatrix
  cases hq : s.regularizationMatrix with
  | none => rfl
  | some v => simp [hs.reg v hq]

theorem tr_curvatureRegMatrix (hs : Consistent c E w s) (hr : Routes c E) :
    Spec.curvatureRegMatrix c E w s = Spec.curvatureRegMatrix c E w {} := by
  unfold Spec.curvatureRegMatrix
  rw [tr_curvatureMatrix hs hr, tr_regularizationMatrix hs]

theorem tr_reconstruction (hs : Consistent c E w s) (hr : Routes c E) :
    Spec.reconstruction c E w s = Spec.reconstruction c E w {} := by
  unfold Spec.reconstruction
  rw [tr_curvatureRegMatrix hs hr, tr_dataVector hs hr]

theorem tr_mapped (hs : Consistent c E w s) (hr : Routes c E) :
    Spec.mapped c E w s = Spec.mapped c E w {} := by
  unfold Spec.mapped
  rw [tr_reconstruction hs hr, tr_lf hs, lf_empty]

theorem tr_regularizationTerm (hs : Consistent c E w s) (hr : Routes c E) :
    Spec.regularizationTerm c E w s = Spec.regularizationTerm c E w {} := by
  unfold Spec.regularizationTerm
  rw [tr_reconstruction hs hr, tr_regularizationMatrix hs]

theorem tr_logDetCurvReg (hs : Consistent c E w s) (hr : Routes c E) :
    Spec.logDetCurvReg c E w s = Spec.logDetCurvReg c E w {} := by
  unfold Spec.logDetCurvReg
  rw [tr_curvatureRegMatrix hs hr]

theorem tr_logDetReg (hs : Consistent c E w s) :
    Spec.logDetReg c E s = Spec.logDetReg c E {} := by
  unfold Spec.logDetReg
  rw [tr_regularizationMatrix hs]
  cases hq : s.logDetRegularizationMatrixTerm with
  | none => rfl
  | some v =>
    have := hs.logDet v hq
    simp [this, Spec.regularizationMatrix]

theorem tr_output (hs : Consistent c E w s) (hr : Routes c E) (a : Access) :
    Spec.output c E w s a = Spec.output c E w {} a := by
  cases a <;> simp only [Spec.output]
  · exact tr_omm hs
  · exact tr_dataVector hs hr
  · exact tr_curvatureMatrix hs hr
  · exact tr_regularizationMatrix hs
  · exact tr_curvatureRegMatrix hs hr
  · exact tr_reconstruction hs hr
  · exact tr_mapped hs hr
  · rw [tr_regularizationTerm hs hr]
  · rw [tr_logDetCurvReg hs hr]
  · rw [tr_logDetReg hs]

end transparency

/-! ## the two formalisms -/

/-- What property C04 establishes, taken here as an abstract hypothesis: on preload-free inputs the
    w-tilde pipeline and the mapping pipeline produce the same data vector and curvature matrix, the
    two ways of mapping a reconstruction back to the data agree, and the dataset's own w-tilde passes
    its own noise-map check. -/
structure FormalismsAgree [Add α] [OfNat α 0] (c : Cfg α) (E : Ext α) : Prop where
  dataVector : Spec.dataVectorW c E {} = Spec.dataVectorMapping c E {}
  curvature : Spec.curvatureW c E {} = Spec.curvatureMapping c E {}
  mapped : ∀ l s, E.mappedW l s = E.mappedMapping l s
  check : E.wtCheck E.wtCompute = true

section formalism
set_option linter.unusedSectionVars false
variable [Add α] [OfNat α 0]
variable {c : Cfg α} {E : Ext α}

theorem fa_output (hA : FormalismsAgree c E) (a : Access) :
    Spec.output c E true {} a = Spec.output c E false {} a := by
  have hD : Spec.dataVector c E true {} = Spec.dataVector c E false {} := by
    simp [Spec.dataVector, hA.dataVector]
  have hF : Spec.curvatureMatrix c E true {} = Spec.curvatureMatrix c E false {} := by
    simp [Spec.curvatureMatrix, hA.curvature]
  have hFH : Spec.curvatureRegMatrix c E true {} = Spec.curvatureRegMatrix c E false {} := by
    simp [Spec.curvatureRegMatrix, hF]
  have hS : Spec.reconstruction c E true {} = Spec.reconstruction c E false {} := by
    simp [Spec.reconstruction, hFH, hD]
  cases a <;> simp only [Spec.output]
  · exact hD
  · exact hF
  · exact hFH
  · exact hS
  · simp [Spec.mapped, hS, hA.mapped]
  · simp [Spec.regularizationTerm, hS]
  · simp [Spec.logDetCurvReg, hFH]

/-- the cfg with another `settings.use_w_tilde`; nothing but the factory reads that flag -/
theorem output_settings_irrelevant (b w : Bool) (s : Slots α) (a : Access) :
    Spec.output { c with settingsUseWTilde := b } E w s a = Spec.output c E w s a := by
  cases a <;> rfl

theorem belowEmpty (u : Option Bool) (n : Nat) :
    Preloads.Below ({ useWTilde := u } : Preloads α) n := by
  simp [Preloads.Below, SlotsOf.arrays]

theorem contentsEmpty (u : Option Bool) (h : Heap α) :
    contents h ({ useWTilde := u } : Preloads α) = { useWTilde := u } := rfl

theorem wt_flag (u : Option Bool) : Spec.wt E ({ useWTilde := u } : Slots α) = E.wtCompute := rfl

theorem output_flag (u : Option Bool) (w : Bool) (a : Access) :
    Spec.output c E w ({ useWTilde := u } : Slots α) a = Spec.output c E w {} a := by
  cases a <;> rfl

/-- `Spec.inversion` of consistent slots = `Spec.inversion` of no arrays, same `use_w_tilde` flag -/
theorem tr_inversion {s : Slots α} (hs : Consistent c E (useWTilde c s.useWTilde) s)
    (hr : Routes c E) (accs : List Access) :
    Spec.inversion c E s accs = Spec.inversion c E { useWTilde := s.useWTilde } accs := by
  unfold Spec.inversion
  simp only []
  rw [tr_wt hs, wt_flag]
  split
  · rfl
  · congr 1
    apply List.map_congr_left
    intro a _
    rw [tr_output hs hr a, ← output_flag (c := c) (E := E) s.useWTilde]

/-- with `FormalismsAgree`, the `use_w_tilde` flag of the Preloads object changes nothing either -/
theorem fa_inversion (hA : FormalismsAgree c E) (u : Option Bool) (accs : List Access) :
    Spec.inversion c E ({ useWTilde := u } : Slots α) accs = Spec.inversion c E {} accs := by
  unfold Spec.inversion
  simp only [wt_flag, hA.check, Bool.not_true, Bool.and_false, Bool.false_eq_true,
    ↓reduceIte]
  congr 1
  apply List.map_congr_left
  intro a _
  rw [output_flag]
  cases h1 : useWTilde c u <;> cases h2 : useWTilde c (none : Option Bool)
  · rfl
  · exact (fa_output hA a).symm
  · exact fa_output hA a
  · rfl

end formalism

end Model.Preload
