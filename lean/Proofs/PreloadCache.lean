/-
Proofs/PreloadCache.lean — the `cached_property` layer of Model.Preload (property C15).

`cachedAccess` memoises the array every read returns and models the one place where a cached array is
written afterwards (`curvature_reg_matrix` adds the regularization matrix INTO the cached
`curvature_matrix` array and deletes that cache entry).  Main result: with the `del` line present the
reads of a cached inversion object return exactly the Spec values, as the uncached accessors do, and
nothing that existed before the inversion is changed.
-/
import Model.Preload
import Proofs.Preload

open Model Model.Preload Model.Preload.Heap

namespace Model.Preload

variable {α : Type}

/-- the array returned is one of the preloaded arrays or was allocated by the accessor itself -/
def AliasOrFresh (p : Preloads α) (f : Impl.Acc α) : Prop :=
  ∀ h, p.Below h.size → some (f h).2 ∈ p.arrays ∨ h.size ≤ (f h).2

theorem Fresh.aliasOrFresh {p : Preloads α} {f : Impl.Acc α} (hf : Fresh p f) :
    AliasOrFresh p f := fun h hp => Or.inr (hf h hp)

theorem aliasOrFresh_slotOr {p : Preloads α} (slot : Option Ref)
    (hmem : ∀ r, slot = some r → some r ∈ p.arrays) {compute : Impl.Acc α}
    (hc : Fresh p compute) : AliasOrFresh p (Impl.slotOr slot compute) := by
  intro h hp
  unfold Impl.slotOr
  cases hs : slot with
  | none => exact Or.inr (hc h hp)
  | some r => exact Or.inl (hmem r hs)

section
set_option linter.unusedSectionVars false
variable [Add α] [OfNat α 0]
variable (c : Cfg α) (E : Ext α) (p : Preloads α)

theorem allocConst_fresh (b : List α) : Fresh p (fun h => h.alloc b) :=
  (good_alloc (p := p) (fun _ => b) (fun _ => b) (fun _ _ => rfl)).2

theorem dataVector_aliasOrFresh (w : Bool) :
    AliasOrFresh p (Impl.dataVector c E Policy.repaired w p) := by
  unfold Impl.dataVector
  cases w
  · -- mapping formalism
    simp only [Bool.false_eq_true, ↓reduceIte]
    intro h hp
    have hf := (ommThen_good c E p E.dvOfOmm).2 h hp
    unfold Impl.dataVectorMapping
    cases hq : p.dataVectorMapper with
    | none => exact Or.inr hf
    | some r =>
      by_cases hfl : c.hasFuncList = true
      · simp only [Policy.repaired, hfl, Bool.and_self, ↓reduceIte]
        exact Or.inr hf
      · simp only [Bool.not_eq_true] at hfl
        simp only [Policy.repaired, hfl, Bool.and_false, Bool.false_eq_true, ↓reduceIte]
        exact Or.inl (by simp [SlotsOf.arrays, hq])
  · simp only [↓reduceIte]
    unfold Impl.dataVectorW
    split
    · have hm := dataVectorMapperW_good E p
      exact (good_thenWrite hm.1 hm.2
        (fun h b => applyWrites (E.dvFuncEntries (Impl.lfVal E p h)) b)
        (fun s b => applyWrites (E.dvFuncEntries (Spec.lf E s)) b)
        (fun h h' hp hx b => by rw [lfVal_eq E p hp hx])).2.aliasOrFresh
    · exact aliasOrFresh_slotOr p.dataVectorMapper (fun r hr => by simp [SlotsOf.arrays, hr])
        (allocConst_fresh p E.dvW)

theorem curvatureRegMatrix_fresh (w : Bool) :
    Fresh p (Impl.curvatureRegMatrix c E Policy.repaired w p) := by
  have hF := curvatureMatrix_good c E p w
  have hH := regularizationMatrix_good E p
  unfold Impl.curvatureRegMatrix
  by_cases h1 : c.hasReg = true
  · by_cases h2 : (c.nObjs == 1) = true
    · have := (good_write2 hF.1 hF.2 hH addBuf).2
      simpa [h1, h2] using this
    · have := (good_alloc2 hF.1 hH addBuf).2
      simpa [h1, h2] using this
  · simpa [h1] using hF.2

theorem reconstruction_fresh (w : Bool) :
    Fresh p (Impl.reconstruction c E Policy.repaired w p) := by
  have := (good_alloc2 (dataVector_good c E p w) (curvatureRegMatrix_good c E p w)
    (fun d f => E.solve f d)).2
  unfold Impl.reconstruction
  exact this

theorem mapped_fresh (w : Bool) : Fresh p (Impl.mapped c E Policy.repaired w p) := by
  have := (good_alloc1 (reconstruction_good c E p w)
    (fun h b => if w then E.mappedW (Impl.lfVal E p h) b else E.mappedMapping (Impl.lfVal E p h) b)
    (fun s b => if w then E.mappedW (Spec.lf E s) b else E.mappedMapping (Spec.lf E s) b)
    (fun h h' hp hx b => by rw [lfVal_eq E p hp hx])).2
  unfold Impl.mapped
  exact this

theorem regularizationTerm_fresh (w : Bool) :
    Fresh p (Impl.regularizationTerm c E Policy.repaired w p) := by
  unfold Impl.regularizationTerm
  by_cases h1 : c.hasReg = true
  · have := (good_alloc2 (reducedVec_good c E p (reconstruction_good c E p w))
      (reduced_good c E p (regularizationMatrix_good E p))
      (fun sv hm => [E.regTerm hm sv])).2
    simpa [h1] using this
  · have := allocConst_fresh p [(0 : α)]
    simpa [h1] using this

theorem logDetCurvReg_fresh (w : Bool) :
    Fresh p (Impl.logDetCurvReg c E Policy.repaired w p) := by
  unfold Impl.logDetCurvReg
  by_cases h1 : c.hasReg = true
  · have := (good_alloc1 (reduced_good c E p (curvatureRegMatrix_good c E p w))
      (fun _ b => [E.logDetCurvReg b]) (fun _ b => [E.logDetCurvReg b]) (fun _ _ _ _ _ => rfl)).2
    simpa [h1] using this
  · have := allocConst_fresh p [(0 : α)]
    simpa [h1] using this

theorem logDetReg_fresh : Fresh p (Impl.logDetReg c E p) := by
  unfold Impl.logDetReg
  by_cases h1 : c.hasReg = true
  · cases hq : p.logDetRegularizationMatrixTerm with
    | some v =>
      intro h hp
      simp [h1]
    | none =>
      have := (good_alloc1 (reduced_good c E p (regularizationMatrix_good E p))
        (fun _ b => [E.logDetReg b]) (fun _ b => [E.logDetReg b]) (fun _ _ _ _ _ => rfl)).2
      intro h hp
      simpa [h1] using this h hp
  · have := allocConst_fresh p [(0 : α)]
    simpa [h1] using this

/-- every read returns a preloaded array itself or an array of its own -/
theorem access_aliasOrFresh (w : Bool) (a : Access) :
    AliasOrFresh p (Impl.access c E Policy.repaired w p a) := by
  cases a
  · exact aliasOrFresh_slotOr p.operatedMappingMatrix (fun r hr => by simp [SlotsOf.arrays, hr])
      (ommFresh_good c E p).2
  · exact dataVector_aliasOrFresh c E p w
  · exact (curvatureMatrix_good c E p w).2.aliasOrFresh
  · exact aliasOrFresh_slotOr p.regularizationMatrix (fun r hr => by simp [SlotsOf.arrays, hr])
      (allocConst_fresh p E.regCompute)
  · exact (curvatureRegMatrix_fresh c E p w).aliasOrFresh
  · exact (reconstruction_fresh c E p w).aliasOrFresh
  · exact (mapped_fresh c E p w).aliasOrFresh
  · exact (regularizationTerm_fresh c E p w).aliasOrFresh
  · exact (logDetCurvReg_fresh c E p w).aliasOrFresh
  · exact (logDetReg_fresh c E p).aliasOrFresh

/-! ## the invariant of one inversion object -/

/-- `h0` = the heap when the inversion object was created. -/
structure CInv (w : Bool) (h0 : Heap α) (st : Impl.CState α) : Prop where
  /-- nothing that existed before the inversion has changed -/
  ext : Extends h0 st.heap
  /-- every cached array is live and holds the Spec value of its quantity -/
  hit : ∀ a r, st.cache a = some r →
    r < st.heap.size ∧ st.heap.read r = Spec.output c E w (contents h0 p) a
  /-- the cached `curvature_matrix` array is the inversion's own and no other entry is that array -/
  own : ∀ r, st.cache Access.curvatureMatrix = some r →
    h0.size ≤ r ∧ ∀ b, b ≠ Access.curvatureMatrix → st.cache b ≠ some r

theorem cinv_init (w : Bool) (h0 : Heap α) :
    CInv c E p w h0 { heap := h0, cache := fun _ => none } :=
  ⟨Extends.refl h0, fun _ _ h => by simp at h, fun _ h => by simp at h⟩

/-- the in-place step of `curvature_reg_matrix`, given the array `x` that plays `curvature_matrix` -/
theorem inplace_step (w : Bool) (h0 : Heap α) (hp : p.Below h0.size) (st : Impl.CState α)
    (hi : CInv c E p w h0 st) (hreg : c.hasReg = true)
    (x : Heap α × Ref) (x1 : Extends st.heap x.1) (l1 : x.2 < x.1.size) (f1 : h0.size ≤ x.2)
    (r1 : x.1.read x.2 = Spec.curvatureMatrix c E w (contents h0 p))
    (hne : ∀ b r, b ≠ Access.curvatureMatrix → st.cache b = some r → r ≠ x.2) :
    CInv c E p w h0
      ((({ heap := (Impl.regularizationMatrix E p x.1).1.write x.2
            (addBuf ((Impl.regularizationMatrix E p x.1).1.read x.2)
              ((Impl.regularizationMatrix E p x.1).1.read (Impl.regularizationMatrix E p x.1).2)),
           cache := st.cache } : Impl.CState α).store Access.curvatureMatrix none).store
          Access.curvatureRegMatrix (some x.2))
    ∧ ((Impl.regularizationMatrix E p x.1).1.write x.2
          (addBuf ((Impl.regularizationMatrix E p x.1).1.read x.2)
            ((Impl.regularizationMatrix E p x.1).1.read (Impl.regularizationMatrix E p x.1).2))).read x.2
        = Spec.output c E w (contents h0 p) Access.curvatureRegMatrix := by
  have hps : p.Below st.heap.size := hp.mono hi.ext.1
  have hcs : contents st.heap p = contents h0 p := contents_ext hi.ext hp
  obtain ⟨y1, l2, r2⟩ := regularizationMatrix_good E p x.1 (hps.mono x1.1)
  have hcx : contents x.1 p = contents h0 p := by rw [contents_ext x1 hps, hcs]
  have l1' : x.2 < (Impl.regularizationMatrix E p x.1).1.size := Nat.lt_of_lt_of_le l1 y1.1
  have hval : addBuf ((Impl.regularizationMatrix E p x.1).1.read x.2)
        ((Impl.regularizationMatrix E p x.1).1.read (Impl.regularizationMatrix E p x.1).2)
      = Spec.output c E w (contents h0 p) Access.curvatureRegMatrix := by
    rw [y1.2 _ l1, r1, r2, hcx]
    simp [Spec.output, Spec.curvatureRegMatrix, hreg]
  refine ⟨⟨?_, ?_, ?_⟩, ?_⟩
  · simp only [Impl.CState.store]
    exact ext_write (hi.ext.trans (x1.trans y1)) _ _ f1
  · intro b r hb
    simp only [Impl.CState.store] at hb ⊢
    by_cases hb1 : b = Access.curvatureRegMatrix
    · subst hb1
      simp only [↓reduceIte, Option.some.injEq] at hb
      subst hb
      refine ⟨by simpa using l1', ?_⟩
      rw [read_write_same _ _ _ l1', hval]
    · by_cases hb2 : b = Access.curvatureMatrix
      · subst hb2
        simp [hb1] at hb
      · simp only [hb1, hb2, ↓reduceIte] at hb
        obtain ⟨lb, rb⟩ := hi.hit b r hb
        refine ⟨by simpa using Nat.lt_of_lt_of_le lb (x1.trans y1).1, ?_⟩
        rw [read_write_ne _ _ _ _ (hne b r hb2 hb), (x1.trans y1).2 r lb, rb]
  · intro r hr
    simp [Impl.CState.store] at hr
  · rw [read_write_same _ _ _ l1', hval]

theorem cachedAccess_spec (w : Bool) (h0 : Heap α) (hp : p.Below h0.size) (a : Access)
    (st : Impl.CState α) (hi : CInv c E p w h0 st) :
    CInv c E p w h0 (Impl.cachedAccess c E Policy.repaired true w p a st).1
    ∧ (Impl.cachedAccess c E Policy.repaired true w p a st).1.heap.read
        (Impl.cachedAccess c E Policy.repaired true w p a st).2
        = Spec.output c E w (contents h0 p) a := by
  have hps : p.Below st.heap.size := hp.mono hi.ext.1
  have hcs : contents st.heap p = contents h0 p := contents_ext hi.ext hp
  unfold Impl.cachedAccess
  cases hca : st.cache a with
  | some r => exact ⟨hi, (hi.hit a r hca).2⟩
  | none =>
    simp only []
    by_cases hsp : a = Access.curvatureRegMatrix ∧ c.hasReg = true ∧ (c.nObjs == 1) = true
    · -- the in-place path
      obtain ⟨ha, hreg, hone⟩ := hsp
      subst ha
      simp only [hreg, hone, and_self, ↓reduceIte]
      cases hcf : st.cache Access.curvatureMatrix with
      | some rf =>
        simp only []
        refine inplace_step c E p w h0 hp st hi hreg (st.heap, rf) (Extends.refl _)
          (hi.hit _ rf hcf).1 (hi.own rf hcf).1 (hi.hit _ rf hcf).2 ?_
        intro b r hb hbr hrr
        exact (hi.own rf hcf).2 b hb (by rw [hbr, hrr])
      | none =>
        simp only []
        obtain ⟨x1, l1, r1⟩ := (curvatureMatrix_good c E p w).1 st.heap hps
        have f1 := (curvatureMatrix_good c E p w).2 st.heap hps
        refine inplace_step c E p w h0 hp st hi hreg _ x1 l1 (Nat.le_trans hi.ext.1 f1)
          (by rw [r1, hcs]) ?_
        intro b r _ hbr
        have := (hi.hit b r hbr).1
        exact Nat.ne_of_lt (Nat.lt_of_lt_of_le this f1)
    · -- every other read: run the accessor, remember the array
      simp only [hsp, ↓reduceIte]
      obtain ⟨x1, l1, r1⟩ := access_good c E p w a st.heap hps
      have af := access_aliasOrFresh c E p w a st.heap hps
      refine ⟨⟨hi.ext.trans x1, ?_, ?_⟩, by simp only [Impl.CState.store]; rw [r1, hcs]⟩
      · intro b r hb
        simp only [Impl.CState.store] at hb ⊢
        by_cases hba : b = a
        · subst hba
          simp only [↓reduceIte, Option.some.injEq] at hb
          subst hb
          exact ⟨l1, by rw [r1, hcs]⟩
        · simp only [hba, ↓reduceIte] at hb
          obtain ⟨lb, rb⟩ := hi.hit b r hb
          exact ⟨Nat.lt_of_lt_of_le lb x1.1, by rw [x1.2 r lb, rb]⟩
      · intro r hr
        simp only [Impl.CState.store] at hr ⊢
        by_cases hac : Access.curvatureMatrix = a
        · subst hac
          simp only [↓reduceIte, Option.some.injEq] at hr
          subst hr
          have f1 := (curvatureMatrix_good c E p w).2 st.heap hps
          refine ⟨Nat.le_trans hi.ext.1 f1, ?_⟩
          intro b hb
          simp only [hb, ↓reduceIte]
          intro hbr
          have hlt := (hi.hit b _ hbr).1
          simp only [Impl.access] at hlt
          exact absurd hlt (Nat.not_lt.mpr f1)
        · simp only [hac, ↓reduceIte] at hr
          obtain ⟨o1, o2⟩ := hi.own r hr
          refine ⟨o1, ?_⟩
          intro b hb
          by_cases hba : b = a
          · subst hba
            simp only [↓reduceIte]
            intro heq
            have heq' := Option.some.inj heq
            have lr := (hi.hit _ r hr).1
            rcases af with hal | hfr
            · have hlt := hp.lt hal
              rw [heq'] at hlt
              exact absurd hlt (Nat.not_lt.mpr o1)
            · rw [heq'] at hfr
              exact absurd lr (Nat.not_lt.mpr hfr)
          · simp only [hba, ↓reduceIte]
            exact o2 b hb

theorem readAllCached_spec (w : Bool) (h0 : Heap α) (hp : p.Below h0.size) (accs : List Access) :
    ∀ st : Impl.CState α, CInv c E p w h0 st →
      CInv c E p w h0 (Impl.readAllCached c E Policy.repaired true w p accs st).1
      ∧ (Impl.readAllCached c E Policy.repaired true w p accs st).2
          = accs.map (Spec.output c E w (contents h0 p)) := by
  induction accs with
  | nil => intro st hi; exact ⟨hi, rfl⟩
  | cons a as ih =>
    intro st hi
    obtain ⟨hi1, r1⟩ := cachedAccess_spec c E p w h0 hp a st hi
    obtain ⟨hi2, r2⟩ := ih _ hi1
    refine ⟨hi2, ?_⟩
    simp only [Impl.readAllCached, List.map_cons]
    rw [r1, r2]

theorem inversionCached_spec (accs : List Access) (h : Heap α) (hp : p.Below h.size) :
    Extends h (Impl.inversionCached c E Policy.repaired true p accs h).1
    ∧ (Impl.inversionCached c E Policy.repaired true p accs h).2
        = Spec.inversion c E (contents h p) accs := by
  have hw : (contents h p).useWTilde = p.useWTilde := rfl
  have hwt : Impl.wtVal E p h = Spec.wt E (contents h p) := wtVal_eq E p hp (Extends.refl h)
  unfold Impl.inversionCached Spec.inversion
  rw [hw, hwt]
  by_cases hc : (useWTilde c p.useWTilde && !E.wtCheck (Spec.wt E (contents h p))) = true
  · simp only [hc, ↓reduceIte]
    exact ⟨Extends.refl h, trivial⟩
  · obtain ⟨hi, r⟩ := readAllCached_spec c E p (useWTilde c p.useWTilde) h hp accs _
      (cinv_init c E p _ h)
    simp only [hc, Bool.false_eq_true, ↓reduceIte]
    exact ⟨hi.ext, by rw [r]⟩

theorem historyCached_spec (hist : List (List Access)) :
    ∀ h : Heap α, p.Below h.size →
      Extends h (Impl.historyCached c E Policy.repaired true p hist h).1
      ∧ (Impl.historyCached c E Policy.repaired true p hist h).2
          = hist.map (Spec.inversion c E (contents h p)) := by
  induction hist with
  | nil => intro h _; exact ⟨Extends.refl h, rfl⟩
  | cons accs rest ih =>
    intro h hp
    obtain ⟨x, r⟩ := inversionCached_spec c E p accs h hp
    obtain ⟨x2, r2⟩ := ih _ (hp.mono x.1)
    refine ⟨x.trans x2, ?_⟩
    simp only [Impl.historyCached, List.map_cons]
    rw [r, r2, contents_ext x hp]

/-! ## Preloads read off an inversion (what `preloads.py set_*` and user code do) -/

/-- a `Preloads` object whose arrays ARE the cached arrays of an inversion object (no copies), as
    `Preloads.set_operated_mapping_matrix_with_preloads`, `set_curvature_matrix`,
    `set_regularization_matrix_and_term` store them -/
def preloadsOf (st : Impl.CState α) : Preloads α :=
  { operatedMappingMatrix := st.cache Access.operatedMappingMatrix,
    curvatureMatrix := st.cache Access.curvatureMatrix,
    regularizationMatrix := st.cache Access.regularizationMatrix }

theorem preloadsOf_consistent (w : Bool) (h0 : Heap α) (st : Impl.CState α)
    (hi : CInv c E ({} : Preloads α) w h0 st) :
    (preloadsOf st).Below st.heap.size
    ∧ Consistent c E w (contents st.heap (preloadsOf st)) := by
  have hc0 : contents h0 ({} : Preloads α) = ({} : Slots α) := rfl
  constructor
  · unfold Preloads.Below
    simp only [SlotsOf.arrays, preloadsOf, List.all_cons, List.all_nil, Bool.and_true,
      Option.all_none, Bool.true_and, Bool.and_eq_true]
    refine ⟨?_, ?_, ?_⟩
    · cases hq : st.cache Access.operatedMappingMatrix with
      | none => rfl
      | some r => simpa using (hi.hit _ r hq).1
    · cases hq : st.cache Access.curvatureMatrix with
      | none => rfl
      | some r => simpa using (hi.hit _ r hq).1
    · cases hq : st.cache Access.regularizationMatrix with
      | none => rfl
      | some r => simpa using (hi.hit _ r hq).1
  · constructor
    · intro v hv; simp [contents, SlotsOf.map, preloadsOf] at hv
    · intro v hv
      simp only [contents, SlotsOf.map, preloadsOf, Option.map_eq_some_iff] at hv
      obtain ⟨r, hr, rfl⟩ := hv
      rw [(hi.hit _ r hr).2, hc0]
      rfl
    · intro v hv; simp [contents, SlotsOf.map, preloadsOf] at hv
    · intro v hv; simp [contents, SlotsOf.map, preloadsOf] at hv
    · intro v hv; simp [contents, SlotsOf.map, preloadsOf] at hv
    · intro v hv
      simp only [contents, SlotsOf.map, preloadsOf, Option.map_eq_some_iff] at hv
      obtain ⟨r, hr, rfl⟩ := hv
      rw [(hi.hit _ r hr).2, hc0]
      rfl
    · intro v hv; simp [contents, SlotsOf.map, preloadsOf] at hv
    · intro v hv; simp [contents, SlotsOf.map, preloadsOf] at hv
    · intro v hv
      simp only [contents, SlotsOf.map, preloadsOf, Option.map_eq_some_iff] at hv
      obtain ⟨r, hr, rfl⟩ := hv
      rw [(hi.hit _ r hr).2, hc0]
      rfl
    · intro v hv; simp [contents, SlotsOf.map, preloadsOf] at hv

/-- the state of a preload-free inversion object after any reads satisfies the invariant -/
theorem cinv_after_reads (h0 : Heap α) (accs : List Access) :
    CInv c E ({} : Preloads α) (useWTilde c none) h0
      (Impl.readAllCached c E Policy.repaired true (useWTilde c none) {} accs
        { heap := h0, cache := fun _ => none }).1 :=
  (readAllCached_spec c E {} _ h0 (belowEmpty _ _) accs _ (cinv_init c E {} _ h0)).1

end

end Model.Preload
