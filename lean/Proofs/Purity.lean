/-
Proofs/Purity.lean — helper lemmas for property C11 (Model/Purity.lean).  Core Lean only.

Plan.  `Skel h` is the part of a heap that caches cannot touch (contents + parent links).
* `Spec.value` depends on the skeleton only (`value_congr`), is monotone in the fuel (`value_mono`) and
  hence deterministic (`value_det`), and is stable under heap extension for well-formed heaps
  (`value_append`).
* a pure read keeps the skeleton (`readF_skel`) and keeps the invariant "every cached value is the
  cache-free value" (`CacheOK`), and what it reports is the cache-free value (`readF_sound`).
* constructions and derivations keep well-formedness and `CacheOK` (`step_inv`), the latter for
  derivations under `KeepSound` (inherited keys are invariant under the derivation).
-/
import Model.Purity

namespace Model
namespace Purity

set_option linter.unusedSectionVars false
set_option linter.unusedSimpArgs false

variable {κ γ τ σ ν : Type} [DecidableEq κ]

/-! ### caches -/

theorem lookupCache_filter (c : List (κ × ν)) (p : κ → Bool) (k : κ) :
    lookupCache (c.filter fun e => p e.1) k = if p k then lookupCache c k else none := by
  induction c with
  | nil => simp [lookupCache]
  | cons e c ih =>
    rcases e with ⟨a, b⟩
    simp only [List.filter_cons]
    by_cases hp : p a = true
    · simp only [hp, if_true, lookupCache]
      by_cases hak : a = k
      · subst hak; simp [hp]
      · simp [hak, ih]
    · simp only [hp, lookupCache]
      by_cases hak : a = k
      · subst hak; simp [hp, ih]
      · simp [hak, ih]

theorem lookupCache_filter_some (c : List (κ × ν)) (p : κ → Bool) (k : κ) (v : ν)
    (h : lookupCache (c.filter fun e => p e.1) k = some v) : lookupCache c k = some v ∧ p k = true := by
  rw [lookupCache_filter] at h
  by_cases hp : p k = true
  · simp [hp] at h; exact ⟨h, hp⟩
  · simp [hp] at h

theorem lookupCache_storeCache (c : List (κ × ν)) (k k' : κ) (v : ν) :
    lookupCache (storeCache c k v) k' = if k = k' then some v else lookupCache c k' := by
  unfold storeCache
  simp only [lookupCache]
  split
  · rfl
  · rename_i hne
    have := lookupCache_filter c (fun a => !(decide (a = k))) k'
    rw [this]
    have hne' : ¬ k' = k := fun h => hne h.symm
    simp [hne']

theorem lookupCache_dropCache_some (c : List (κ × ν)) (ks : List κ) (k : κ) (v : ν)
    (h : lookupCache (dropCache c ks) k = some v) : lookupCache c k = some v := by
  unfold dropCache at h
  exact (lookupCache_filter_some c (fun a => !(ks.contains a)) k v h).1

/-! ### skeletons: what caches cannot touch -/

/-- contents and parent links of every object -/
def Skel (h : Heap κ σ ν) : List (σ × List Nat) := h.map fun ob => (ob.contents, ob.parents)

/-- parent links point to existing objects -/
def WF (h : Heap κ σ ν) : Prop :=
  ∀ (o : Nat) (ob : Obj κ σ ν), h[o]? = some ob → ∀ p ∈ ob.parents, p < h.length

theorem skel_length {h h' : Heap κ σ ν} (e : Skel h = Skel h') : h.length = h'.length := by
  have := congrArg List.length e
  simpa [Skel] using this

theorem skel_get {h h' : Heap κ σ ν} (e : Skel h = Skel h') {o : Nat} {ob : Obj κ σ ν}
    (ho : h[o]? = some ob) :
    ∃ ob', h'[o]? = some ob' ∧ ob'.contents = ob.contents ∧ ob'.parents = ob.parents := by
  have h1 : (Skel h)[o]? = some (ob.contents, ob.parents) := by simp [Skel, ho]
  rw [e] at h1
  simp only [Skel, List.getElem?_map, Option.map_eq_some_iff] at h1
  obtain ⟨ob', h2, h3⟩ := h1
  refine ⟨ob', h2, ?_, ?_⟩
  · exact (Prod.mk.inj h3).1
  · exact (Prod.mk.inj h3).2

theorem skel_get_none {h h' : Heap κ σ ν} (e : Skel h = Skel h') {o : Nat}
    (ho : h[o]? = none) : h'[o]? = none := by
  have := skel_length e
  rw [List.getElem?_eq_none_iff] at ho ⊢
  omega

theorem resolve_congr {h h' : Heap κ σ ν} (e : Skel h = Skel h') (o r : Nat) :
    resolve h o r = resolve h' o r := by
  unfold resolve
  cases r with
  | zero => simp [skel_length e]
  | succ i =>
    simp only
    cases ho : h[o]? with
    | none => simp [skel_get_none e ho]
    | some ob =>
      obtain ⟨ob', h2, _, h4⟩ := skel_get e ho
      simp [h2, h4]

theorem resolve_lt {h : Heap κ σ ν} (wf : WF h) {o r p : Nat} (hr : resolve h o r = some p) :
    p < h.length := by
  unfold resolve at hr
  cases r with
  | zero =>
    simp only at hr
    split at hr
    · simp at hr; omega
    · simp at hr
  | succ i =>
    simp only at hr
    cases ho : h[o]? with
    | none => simp [ho] at hr
    | some ob =>
      simp only [ho] at hr
      exact wf o ob ho p (List.mem_of_getElem? hr)

theorem modifyObj_length (h : Heap κ σ ν) (o : Nat) (f : Obj κ σ ν → Obj κ σ ν) :
    (modifyObj h o f).length = h.length := by
  unfold modifyObj
  split <;> simp

theorem modifyObj_skel (h : Heap κ σ ν) (o : Nat) (f : Obj κ σ ν → Obj κ σ ν)
    (hf : ∀ ob, (f ob).contents = ob.contents ∧ (f ob).parents = ob.parents) :
    Skel (modifyObj h o f) = Skel h := by
  unfold modifyObj
  cases ho : h[o]? with
  | none => rfl
  | some ob =>
    simp only
    apply List.ext_getElem?
    intro i
    simp only [Skel, List.getElem?_map]
    by_cases hio : o = i
    · subst hio
      have hlt : o < h.length := by
        rcases List.getElem?_eq_some_iff.mp ho with ⟨hl, _⟩; exact hl
      rw [List.getElem?_set_self hlt, ho]
      simp [(hf ob).1, (hf ob).2]
    · rw [List.getElem?_set_ne hio]

theorem modifyObj_get_self (h : Heap κ σ ν) (o : Nat) (f : Obj κ σ ν → Obj κ σ ν) (ob : Obj κ σ ν)
    (ho : h[o]? = some ob) : (modifyObj h o f)[o]? = some (f ob) := by
  unfold modifyObj
  simp only [ho]
  have hlt : o < h.length := by
    rcases List.getElem?_eq_some_iff.mp ho with ⟨hl, _⟩; exact hl
  rw [List.getElem?_set_self hlt]

theorem modifyObj_get_ne (h : Heap κ σ ν) (o i : Nat) (f : Obj κ σ ν → Obj κ σ ν) (hne : o ≠ i) :
    (modifyObj h o f)[i]? = h[i]? := by
  unfold modifyObj
  split
  · rfl
  · rw [List.getElem?_set_ne hne]

/-! ### the cache-free value -/

theorem depVals_congr {h h' : Heap κ σ ν} (e : Skel h = Skel h') (sp sp' : Nat → κ → Option ν)
    (hsp : ∀ p k, sp p k = sp' p k) (o : Nat) (ds : List (Nat × κ)) :
    Spec.depVals sp h o ds = Spec.depVals sp' h' o ds := by
  induction ds with
  | nil => rfl
  | cons d ds ih =>
    simp only [Spec.depVals]
    rw [resolve_congr e, ih]
    cases resolve h' o d.1 with
    | none => rfl
    | some p => simp only [hsp]

/-- the cache-free value depends on the skeleton only -/
theorem value_congr (E : Effects κ γ τ σ ν) {h h' : Heap κ σ ν} (e : Skel h = Skel h') :
    ∀ n o k, Spec.value E n h o k = Spec.value E n h' o k := by
  intro n
  induction n with
  | zero => intro o k; rfl
  | succ n ih =>
    intro o k
    simp only [Spec.value]
    cases ho : h[o]? with
    | none => simp [skel_get_none e ho]
    | some ob =>
      obtain ⟨ob', h2, h3, _⟩ := skel_get e ho
      simp only [h2]
      rw [depVals_congr e (Spec.value E n h) (Spec.value E n h') ih o (E.deps k), h3]

theorem erase_skel (h : Heap κ σ ν) : Skel (Spec.erase h) = Skel h := by
  simp [Skel, Spec.erase, List.map_map, Function.comp_def]

theorem depVals_mono {h : Heap κ σ ν} (sp sp' : Nat → κ → Option ν)
    (hsp : ∀ p k v, sp p k = some v → sp' p k = some v) (o : Nat) :
    ∀ (ds : List (Nat × κ)) (vs : List ν), Spec.depVals sp h o ds = some vs → Spec.depVals sp' h o ds = some vs := by
  intro ds
  induction ds with
  | nil => intro vs hv; exact hv
  | cons d ds ih =>
    intro vs hv
    simp only [Spec.depVals] at hv ⊢
    cases hr : resolve h o d.1 with
    | none => simp [hr] at hv
    | some p =>
      simp only [hr] at hv ⊢
      cases h1 : sp p d.2 with
      | none => simp [h1] at hv
      | some v =>
        simp only [h1] at hv
        rw [hsp p d.2 v h1]
        cases h2 : Spec.depVals sp h o ds with
        | none => simp [h2] at hv
        | some ws =>
          simp only [h2] at hv
          rw [ih ws h2]
          exact hv

/-- more fuel never changes a defined value -/
theorem value_mono (E : Effects κ γ τ σ ν) (h : Heap κ σ ν) :
    ∀ n o k v, Spec.value E n h o k = some v → Spec.value E (n + 1) h o k = some v := by
  intro n
  induction n with
  | zero => intro o k v hv; simp [Spec.value] at hv
  | succ n ih =>
    intro o k v hv
    rw [Spec.value] at hv ⊢
    cases ho : h[o]? with
    | none => simp [ho] at hv
    | some ob =>
      simp only [ho] at hv ⊢
      cases hd : Spec.depVals (Spec.value E n h) h o (E.deps k) with
      | none => simp [hd] at hv
      | some vs =>
        simp only [hd] at hv
        rw [depVals_mono (Spec.value E n h) (Spec.value E (n + 1) h) (fun p k v => ih p k v) o _ vs hd]
        exact hv

theorem value_mono_le (E : Effects κ γ τ σ ν) (h : Heap κ σ ν) {n m : Nat} (hle : n ≤ m)
    {o : Nat} {k : κ} {v : ν} (hv : Spec.value E n h o k = some v) : Spec.value E m h o k = some v := by
  induction hle with
  | refl => exact hv
  | step _ ih => exact value_mono E h _ o k v ih

/-- the cache-free value does not depend on how much fuel was used to obtain it -/
theorem value_det (E : Effects κ γ τ σ ν) (h : Heap κ σ ν) {n m o : Nat} {k : κ} {v w : ν}
    (hv : Spec.value E n h o k = some v) (hw : Spec.value E m h o k = some w) : v = w := by
  have h1 := value_mono_le E h (Nat.le_max_left n m) hv
  have h2 := value_mono_le E h (Nat.le_max_right n m) hw
  rw [h1] at h2
  exact Option.some.inj h2

theorem get_append_lt (h t : Heap κ σ ν) {o : Nat} (ho : o < h.length) : (h ++ t)[o]? = h[o]? := by
  rw [List.getElem?_append_left ho]

theorem resolve_append {h : Heap κ σ ν} (t : Heap κ σ ν) {o : Nat} (ho : o < h.length) (r : Nat) :
    resolve (h ++ t) o r = resolve h o r := by
  unfold resolve
  cases r with
  | zero =>
    have : o < h.length + t.length := by omega
    simp [ho, this]
  | succ i => simp only [get_append_lt h t ho]

theorem depVals_append {h : Heap κ σ ν} (wf : WF h) (t : Heap κ σ ν) (sp sp' : Nat → κ → Option ν)
    (hsp : ∀ p k, p < h.length → sp p k = sp' p k) {o : Nat} (ho : o < h.length) (ds : List (Nat × κ)) :
    Spec.depVals sp (h ++ t) o ds = Spec.depVals sp' h o ds := by
  induction ds with
  | nil => rfl
  | cons d ds ih =>
    simp only [Spec.depVals]
    rw [resolve_append t ho, ih]
    cases hr : resolve h o d.1 with
    | none => rfl
    | some p => simp only [hsp p d.2 (resolve_lt wf hr)]

/-- objects appended later do not change the cache-free value of existing objects -/
theorem value_append (E : Effects κ γ τ σ ν) {h : Heap κ σ ν} (wf : WF h) (t : Heap κ σ ν) :
    ∀ n o k, o < h.length → Spec.value E n (h ++ t) o k = Spec.value E n h o k := by
  intro n
  induction n with
  | zero => intro o k _; rfl
  | succ n ih =>
    intro o k ho
    simp only [Spec.value]
    rw [get_append_lt h t ho]
    cases h[o]? with
    | none => rfl
    | some ob =>
      simp only
      rw [depVals_append wf t (Spec.value E n (h ++ t)) (Spec.value E n h) (fun p k hp => ih p k hp) ho]

/-! ### reads on a pure table -/

theorem applyCWrites_nil (h : Heap κ σ ν) (o : Nat) : applyCWrites h o [] = h := rfl
theorem applyVWrites_nil (h : Heap κ σ ν) (o : Nat) : applyVWrites h o ([] : List (Nat × κ × (ν → ν))) = h := rfl

/-- the heap after the bookkeeping of a computed read, on a pure table -/
def afterRead (E : Effects κ γ τ σ ν) (h1 : Heap κ σ ν) (o : Nat) (k : κ) (v : ν) : Heap κ σ ν :=
  modifyObj (if E.cached k then modifyObj h1 o (fun ob => { ob with cache := storeCache ob.cache k v }) else h1)
    o (fun ob => { ob with cache := dropCache ob.cache (E.drops k) })

theorem modifyObj_cache_skel (h : Heap κ σ ν) (o : Nat) (g : List (κ × ν) → List (κ × ν)) :
    Skel (modifyObj h o (fun ob => { ob with cache := g ob.cache })) = Skel h :=
  modifyObj_skel h o (fun ob => { ob with cache := g ob.cache }) (fun _ => ⟨rfl, rfl⟩)

theorem afterRead_skel (E : Effects κ γ τ σ ν) (h1 : Heap κ σ ν) (o : Nat) (k : κ) (v : ν) :
    Skel (afterRead E h1 o k v) = Skel h1 := by
  unfold afterRead
  rw [modifyObj_cache_skel _ o (fun c => dropCache c (E.drops k))]
  split
  · rw [modifyObj_cache_skel _ o (fun c => storeCache c k v)]
  · rfl

/-- unfolding of one computed (non-cached) read on a pure table -/
theorem readF_succ_eq (E : Effects κ γ τ σ ν) (hp : E.Pure) (n : Nat) (h : Heap κ σ ν) (o : Nat) (k : κ) :
    Impl.readF E (n + 1) h o k =
      match h[o]? with
      | none => none
      | some ob =>
        match lookupCache ob.cache k with
        | some v => some (h, v)
        | none =>
          match Impl.readDeps (Impl.readF E n) o (E.deps k) h with
          | none => none
          | some (h1, vs) =>
            match h1[o]? with
            | none => none
            | some ob1 => some (afterRead E h1 o k (E.compute k ob1.contents vs), E.compute k ob1.contents vs) := by
  rw [Impl.readF]
  cases h[o]? with
  | none => rfl
  | some ob =>
    simp only
    cases lookupCache ob.cache k with
    | some v => rfl
    | none =>
      simp only
      cases Impl.readDeps (Impl.readF E n) o (E.deps k) h with
      | none => rfl
      | some r =>
        rcases r with ⟨h1, vs⟩
        simp only
        cases h1[o]? with
        | none => rfl
        | some ob1 =>
          simp only [hp.1 k, hp.2.1 k, applyCWrites_nil, applyVWrites_nil, afterRead]

theorem readDeps_skel (rd : Heap κ σ ν → Nat → κ → Option (Heap κ σ ν × ν))
    (hrd : ∀ h p k h' v, rd h p k = some (h', v) → Skel h' = Skel h) (o : Nat) :
    ∀ (ds : List (Nat × κ)) (h h' : Heap κ σ ν) (vs : List ν),
      Impl.readDeps rd o ds h = some (h', vs) → Skel h' = Skel h := by
  intro ds
  induction ds with
  | nil =>
    intro h h' vs hr
    simp only [Impl.readDeps, Option.some.injEq, Prod.mk.injEq] at hr
    rw [← hr.1]
  | cons d ds ih =>
    intro h h' vs hr
    simp only [Impl.readDeps] at hr
    cases hres : resolve h o d.1 with
    | none => simp [hres] at hr
    | some p =>
      simp only [hres] at hr
      cases h1 : rd h p d.2 with
      | none => simp [h1] at hr
      | some r1 =>
        rcases r1 with ⟨ha, v⟩
        simp only [h1] at hr
        cases h2 : Impl.readDeps rd o ds ha with
        | none => simp [h2] at hr
        | some r2 =>
          rcases r2 with ⟨hb, ws⟩
          simp only [h2, Option.some.injEq, Prod.mk.injEq] at hr
          rw [← hr.1, ih ha hb ws h2, hrd h p d.2 ha v h1]

/-- a read on a pure table changes caches only -/
theorem readF_skel (E : Effects κ γ τ σ ν) (hp : E.Pure) :
    ∀ n (h : Heap κ σ ν) o k h' v, Impl.readF E n h o k = some (h', v) → Skel h' = Skel h := by
  intro n
  induction n with
  | zero => intro h o k h' v hr; simp [Impl.readF] at hr
  | succ n ih =>
    intro h o k h' v hr
    rw [readF_succ_eq E hp] at hr
    cases ho : h[o]? with
    | none => simp [ho] at hr
    | some ob =>
      simp only [ho] at hr
      cases hl : lookupCache ob.cache k with
      | some w =>
        simp only [hl, Option.some.injEq, Prod.mk.injEq] at hr
        rw [← hr.1]
      | none =>
        simp only [hl] at hr
        cases hd : Impl.readDeps (Impl.readF E n) o (E.deps k) h with
        | none => simp [hd] at hr
        | some r =>
          rcases r with ⟨h1, vs⟩
          simp only [hd] at hr
          cases ho1 : h1[o]? with
          | none => simp [ho1] at hr
          | some ob1 =>
            simp only [ho1, Option.some.injEq, Prod.mk.injEq] at hr
            rw [← hr.1, afterRead_skel]
            exact readDeps_skel (Impl.readF E n) (fun h p k h' v => ih h p k h' v) o _ _ _ _ hd

/-! ### the cache invariant -/

/-- every cached value is the cache-free value of its key on its object -/
def CacheOK (E : Effects κ γ τ σ ν) (h : Heap κ σ ν) : Prop :=
  ∀ (o : Nat) (ob : Obj κ σ ν), h[o]? = some ob → ∀ k v, lookupCache ob.cache k = some v →
    ∃ n, Spec.value E n h o k = some v

theorem cacheOK_congr_values (E : Effects κ γ τ σ ν) {h h' : Heap κ σ ν} (e : Skel h = Skel h')
    {o : Nat} {k : κ} {v : ν} (hv : ∃ n, Spec.value E n h o k = some v) :
    ∃ n, Spec.value E n h' o k = some v := by
  obtain ⟨n, hn⟩ := hv
  exact ⟨n, by rw [← value_congr E e]; exact hn⟩

theorem afterRead_get_ne (E : Effects κ γ τ σ ν) (h1 : Heap κ σ ν) (o i : Nat) (k : κ) (v : ν)
    (hne : o ≠ i) : (afterRead E h1 o k v)[i]? = h1[i]? := by
  unfold afterRead
  rw [modifyObj_get_ne _ _ _ _ hne]
  split
  · rw [modifyObj_get_ne _ _ _ _ hne]
  · rfl

theorem afterRead_get_self (E : Effects κ γ τ σ ν) (h1 : Heap κ σ ν) (o : Nat) (k : κ) (v : ν)
    (ob1 : Obj κ σ ν) (ho : h1[o]? = some ob1) :
    (afterRead E h1 o k v)[o]? = some (Obj.mk ob1.contents
      (dropCache (if E.cached k then storeCache ob1.cache k v else ob1.cache) (E.drops k)) ob1.parents) := by
  unfold afterRead
  by_cases hc : E.cached k = true
  · simp only [hc, if_true]
    rw [modifyObj_get_self _ _ _ _ (modifyObj_get_self h1 o _ ob1 ho)]
  · have hc' : E.cached k = false := by simpa using hc
    simp only [hc', Bool.false_eq_true, if_false]
    rw [modifyObj_get_self _ _ _ _ ho]

theorem readDeps_sound (E : Effects κ γ τ σ ν)
    (rd : Heap κ σ ν → Nat → κ → Option (Heap κ σ ν × ν))
    (hrd : ∀ h p k h' v, rd h p k = some (h', v) → CacheOK E h →
      Skel h' = Skel h ∧ CacheOK E h' ∧ ∃ m, Spec.value E m h p k = some v) (o : Nat) :
    ∀ (ds : List (Nat × κ)) (h h' : Heap κ σ ν) (vs : List ν),
      Impl.readDeps rd o ds h = some (h', vs) → CacheOK E h →
      Skel h' = Skel h ∧ CacheOK E h' ∧ ∃ m, Spec.depVals (Spec.value E m h) h o ds = some vs := by
  intro ds
  induction ds with
  | nil =>
    intro h h' vs hr hc
    simp only [Impl.readDeps, Option.some.injEq, Prod.mk.injEq] at hr
    rw [← hr.1, ← hr.2]
    exact ⟨rfl, hc, 0, rfl⟩
  | cons d ds ih =>
    intro h h' vs hr hc
    simp only [Impl.readDeps] at hr
    cases hres : resolve h o d.1 with
    | none => simp [hres] at hr
    | some p =>
      simp only [hres] at hr
      cases h1 : rd h p d.2 with
      | none => simp [h1] at hr
      | some r1 =>
        rcases r1 with ⟨ha, v⟩
        simp only [h1] at hr
        cases h2 : Impl.readDeps rd o ds ha with
        | none => simp [h2] at hr
        | some r2 =>
          rcases r2 with ⟨hb, ws⟩
          simp only [h2, Option.some.injEq, Prod.mk.injEq] at hr
          obtain ⟨sa, ca, m1, hm1⟩ := hrd h p d.2 ha v h1 hc
          obtain ⟨sb, cb, m2, hm2⟩ := ih ha hb ws h2 ca
          rw [← hr.1, ← hr.2]
          refine ⟨sb.trans sa, cb, max m1 m2, ?_⟩
          simp only [Spec.depVals, hres]
          rw [value_mono_le E h (Nat.le_max_left m1 m2) hm1]
          -- transport the tail from heap `ha` to heap `h`, then raise the fuel
          have e1 : Spec.depVals (Spec.value E m2 h) h o ds = some ws := by
            rw [← depVals_congr sa (Spec.value E m2 ha) (Spec.value E m2 h)
              (fun p k => value_congr E sa m2 p k) o ds]
            exact hm2
          rw [depVals_mono (Spec.value E m2 h) (Spec.value E (max m1 m2) h)
            (fun p k v hv => value_mono_le E h (Nat.le_max_right m1 m2) hv) o ds ws e1]

/-- **soundness of reads**: on a pure table a read changes caches only, keeps the cache invariant, and
    reports the cache-free value. -/
theorem readF_sound (E : Effects κ γ τ σ ν) (hp : E.Pure) :
    ∀ n (h : Heap κ σ ν) o k h' v, Impl.readF E n h o k = some (h', v) → CacheOK E h →
      Skel h' = Skel h ∧ CacheOK E h' ∧ ∃ m, Spec.value E m h o k = some v := by
  intro n
  induction n with
  | zero => intro h o k h' v hr; simp [Impl.readF] at hr
  | succ n ih =>
    intro h o k h' v hr hc
    rw [readF_succ_eq E hp] at hr
    cases ho : h[o]? with
    | none => simp [ho] at hr
    | some ob =>
      simp only [ho] at hr
      cases hl : lookupCache ob.cache k with
      | some w =>
        simp only [hl, Option.some.injEq, Prod.mk.injEq] at hr
        rw [← hr.1, ← hr.2]
        exact ⟨rfl, hc, hc o ob ho k w hl⟩
      | none =>
        simp only [hl] at hr
        cases hd : Impl.readDeps (Impl.readF E n) o (E.deps k) h with
        | none => simp [hd] at hr
        | some r =>
          rcases r with ⟨h1, vs⟩
          simp only [hd] at hr
          cases ho1 : h1[o]? with
          | none => simp [ho1] at hr
          | some ob1 =>
            simp only [ho1, Option.some.injEq, Prod.mk.injEq] at hr
            obtain ⟨s1, c1, m, hm⟩ := readDeps_sound E (Impl.readF E n)
              (fun h p k h' v hr hc => ih h p k h' v hr hc) o _ _ _ _ hd hc
            -- the object's contents are those it had before the dependency reads
            obtain ⟨ob', hob', hcont, _⟩ := skel_get s1 ho1
            have hobeq : ob' = ob := by rw [ho] at hob'; exact (Option.some.inj hob').symm
            have hval : Spec.value E (m + 1) h o k = some (E.compute k ob1.contents vs) := by
              rw [Spec.value]
              simp only [ho, hm]
              rw [← hcont, hobeq]
            rw [← hr.1, ← hr.2]
            have sk : Skel (afterRead E h1 o k (E.compute k ob1.contents vs)) = Skel h :=
              (afterRead_skel E h1 o k _).trans s1
            refine ⟨sk, ?_, m + 1, hval⟩
            intro i obi hi k' w hw
            apply cacheOK_congr_values E sk.symm
            by_cases hio : o = i
            · subst hio
              rw [afterRead_get_self E h1 o k _ ob1 ho1] at hi
              have hobi := (Option.some.inj hi).symm
              rw [hobi] at hw
              simp only at hw
              have hw1 := lookupCache_dropCache_some _ _ _ _ hw
              by_cases hcache : E.cached k = true
              · simp only [hcache, if_true] at hw1
                rw [lookupCache_storeCache] at hw1
                by_cases hkk : k = k'
                · subst hkk
                  simp only [if_true, Option.some.injEq] at hw1
                  rw [← hw1]; exact ⟨m + 1, hval⟩
                · simp only [hkk, if_false] at hw1
                  exact cacheOK_congr_values E s1 (c1 o ob1 ho1 k' w hw1)
              · simp only [hcache] at hw1
                exact cacheOK_congr_values E s1 (c1 o ob1 ho1 k' w hw1)
            · rw [afterRead_get_ne E h1 o i k _ hio] at hi
              exact cacheOK_congr_values E s1 (c1 i obi hi k' w hw)

/-! ### steps and histories -/

/-- inherited cache keys are invariant under the derivation: the cache-free value of an inherited key on the
    derived object is the one it had on the source (trivially true when nothing is inherited). -/
def KeepSound (E : Effects κ γ τ σ ν) : Prop :=
  ∀ g k, E.keeps g k = true → ∀ (h : Heap κ σ ν) (o : Nat) (ob : Obj κ σ ν), WF h → h[o]? = some ob →
    ∀ n v, Spec.value E n h o k = some v →
      ∃ m, Spec.value E m (h ++ [Obj.mk (E.apply g ob.contents) [] ob.parents]) h.length k = some v

theorem keepSound_of_no_keeps (E : Effects κ γ τ σ ν) (hk : ∀ g k, E.keeps g k = false) : KeepSound E := by
  intro g k hkeep
  rw [hk g k] at hkeep
  exact absurd hkeep (by simp)

theorem wf_congr {h h' : Heap κ σ ν} (e : Skel h = Skel h') (wf : WF h) : WF h' := by
  intro o ob' ho p hp
  obtain ⟨ob, h1, _, h3⟩ := skel_get e.symm ho
  rw [← skel_length e]
  exact wf o ob h1 p (by rw [h3]; exact hp)

theorem skel_append (h t : Heap κ σ ν) : Skel (h ++ t) = Skel h ++ Skel t := by
  simp [Skel]

theorem wf_snoc {h : Heap κ σ ν} (wf : WF h) (x : Obj κ σ ν) (hx : ∀ p ∈ x.parents, p < h.length) :
    WF (h ++ [x]) := by
  intro o ob ho p hp
  simp only [List.length_append, List.length_singleton]
  by_cases hlt : o < h.length
  · rw [get_append_lt h [x] hlt] at ho
    have := wf o ob ho p hp
    omega
  · have hge : h.length ≤ o := by omega
    rw [List.getElem?_append_right hge] at ho
    have : o - h.length = 0 := by
      cases hd : o - h.length with
      | zero => rfl
      | succ j => simp [hd] at ho
    simp only [this, List.getElem?_cons_zero, Option.some.injEq] at ho
    have := hx p (by rw [ho]; exact hp)
    omega

theorem cacheOK_snoc (E : Effects κ γ τ σ ν) {h : Heap κ σ ν} (wf : WF h) (hc : CacheOK E h) (x : Obj κ σ ν)
    (hx : ∀ k v, lookupCache x.cache k = some v → ∃ n, Spec.value E n (h ++ [x]) h.length k = some v) :
    CacheOK E (h ++ [x]) := by
  intro o ob ho k v hl
  by_cases hlt : o < h.length
  · rw [get_append_lt h [x] hlt] at ho
    obtain ⟨n, hn⟩ := hc o ob ho k v hl
    exact ⟨n, by rw [value_append E wf [x] n o k hlt]; exact hn⟩
  · have hge : h.length ≤ o := by omega
    rw [List.getElem?_append_right hge] at ho
    have h0 : o - h.length = 0 := by
      cases hd : o - h.length with
      | zero => rfl
      | succ j => simp [hd] at ho
    simp only [h0, List.getElem?_cons_zero, Option.some.injEq] at ho
    have ho' : o = h.length := by omega
    rw [ho']
    exact hx k v (by rw [ho]; exact hl)

/-- the invariant every pure history maintains -/
def Inv (E : Effects κ γ τ σ ν) (h : Heap κ σ ν) : Prop := WF h ∧ CacheOK E h

theorem inv_nil (E : Effects κ γ τ σ ν) : Inv E ([] : Heap κ σ ν) := by
  constructor
  · intro o ob ho; simp at ho
  · intro o ob ho; simp at ho

/-- one step of a pure, keep-sound table keeps the invariant and only appends to the skeleton -/
theorem step_inv (E : Effects κ γ τ σ ν) (hp : E.Pure) (hk : KeepSound E) (fuel : Nat)
    (h : Heap κ σ ν) (hi : Inv E h) (s : Impl.Step κ γ τ σ) :
    Inv E (Impl.step E fuel h s).1 ∧ ∃ t, Skel (Impl.step E fuel h s).1 = Skel h ++ t := by
  obtain ⟨wf, hc⟩ := hi
  cases s with
  | construct t c ps =>
    simp only [Impl.step]
    by_cases hall : ps.all (· < h.length) = true
    · simp only [hall, if_true, hp.2.2 t, List.map_nil, applyCWrites_nil]
      have hx : ∀ p ∈ ps, p < h.length := by
        intro p hp'
        have := List.all_eq_true.mp hall p hp'
        simpa using this
      refine ⟨⟨wf_snoc wf _ hx, cacheOK_snoc E wf hc _ ?_⟩, _, skel_append h _⟩
      intro k v hl
      simp [lookupCache] at hl
    · simp only [hall]
      exact ⟨⟨wf, hc⟩, [], by simp⟩
  | read o k =>
    simp only [Impl.step]
    cases hr : Impl.readF E fuel h o k with
    | none => exact ⟨⟨wf, hc⟩, [], by simp⟩
    | some r =>
      rcases r with ⟨h1, v⟩
      obtain ⟨s1, c1, _⟩ := readF_sound E hp fuel h o k h1 v hr hc
      exact ⟨⟨wf_congr s1.symm wf, c1⟩, [], by simp [s1]⟩
  | derive o g =>
    simp only [Impl.step]
    cases ho : h[o]? with
    | none => exact ⟨⟨wf, hc⟩, [], by simp⟩
    | some ob =>
      simp only
      have hx : ∀ p ∈ ob.parents, p < h.length := wf o ob ho
      refine ⟨⟨wf_snoc wf _ hx, cacheOK_snoc E wf hc _ ?_⟩, _, skel_append h _⟩
      intro k v hl
      simp only at hl
      obtain ⟨hl1, hkeep⟩ := lookupCache_filter_some ob.cache (fun a => E.keeps g a) k v hl
      obtain ⟨n, hn⟩ := hc o ob ho k v hl1
      obtain ⟨m, hm⟩ := hk g k hkeep h o ob wf ho n v hn
      refine ⟨m, ?_⟩
      rw [← hm]
      apply value_congr
      simp [Skel]

theorem run_inv (E : Effects κ γ τ σ ν) (hp : E.Pure) (hk : KeepSound E) (fuel : Nat) :
    ∀ (hist : List (Impl.Step κ γ τ σ)) (h : Heap κ σ ν), Inv E h →
      Inv E (Impl.run E fuel hist h).1 ∧ ∃ t, Skel (Impl.run E fuel hist h).1 = Skel h ++ t := by
  intro hist
  induction hist with
  | nil => intro h hi; exact ⟨hi, [], by simp [Impl.run]⟩
  | cons s ss ih =>
    intro h hi
    simp only [Impl.run]
    obtain ⟨i1, t1, e1⟩ := step_inv E hp hk fuel h hi s
    obtain ⟨i2, t2, e2⟩ := ih (Impl.step E fuel h s).1 i1
    refine ⟨i2, t1 ++ t2, ?_⟩
    rw [e2, e1, List.append_assoc]

/-! ### order independence: only the structural steps shape the skeleton -/

theorem step_read_skel (E : Effects κ γ τ σ ν) (hp : E.Pure) (fuel : Nat) (h : Heap κ σ ν) (o : Nat) (k : κ) :
    Skel (Impl.step E fuel h (.read o k)).1 = Skel h := by
  simp only [Impl.step]
  cases hr : Impl.readF E fuel h o k with
  | none => rfl
  | some r =>
    rcases r with ⟨h1, v⟩
    exact readF_skel E hp fuel h o k h1 v hr

theorem step_structural_skel (E : Effects κ γ τ σ ν) (hp : E.Pure) (fuel fuel' : Nat) {h h' : Heap κ σ ν}
    (e : Skel h = Skel h') (s : Impl.Step κ γ τ σ) (hs : s.isStructural = true) :
    Skel (Impl.step E fuel h s).1 = Skel (Impl.step E fuel' h' s).1 := by
  cases s with
  | read o k => simp [Impl.Step.isStructural] at hs
  | construct t c ps =>
    simp only [Impl.step, hp.2.2 t, List.map_nil, applyCWrites_nil, skel_length e]
    split
    · rw [skel_append, skel_append, e]
    · exact e
  | derive o g =>
    simp only [Impl.step]
    cases ho : h[o]? with
    | none => simp [skel_get_none e ho, e]
    | some ob =>
      obtain ⟨ob', h2, h3, h4⟩ := skel_get e ho
      simp only [h2]
      rw [skel_append, skel_append, e]
      simp [Skel, h3, h4]

/-- the skeleton after a history is the skeleton after its structural steps alone -/
theorem run_skel_filter (E : Effects κ γ τ σ ν) (hp : E.Pure) (fuel fuel' : Nat) :
    ∀ (hist : List (Impl.Step κ γ τ σ)) (h h' : Heap κ σ ν), Skel h = Skel h' →
      Skel (Impl.run E fuel hist h).1
        = Skel (Impl.run E fuel' (hist.filter Impl.Step.isStructural) h').1 := by
  intro hist
  induction hist with
  | nil => intro h h' e; simpa [Impl.run] using e
  | cons s ss ih =>
    intro h h' e
    by_cases hs : s.isStructural = true
    · simp only [List.filter_cons, hs, if_true, Impl.run]
      exact ih _ _ (step_structural_skel E hp fuel fuel' e s hs)
    · simp only [List.filter_cons, hs, Impl.run]
      cases s with
      | read o k =>
        apply ih
        rw [step_read_skel E hp]; exact e
      | construct t c ps => simp [Impl.Step.isStructural] at hs
      | derive o g => simp [Impl.Step.isStructural] at hs

/-- a history made of structural steps only leaves every cache empty when nothing is inherited or
    when it starts from empty caches: stated for the start heap `[]` -/
theorem run_filter_structural_idem (hist : List (Impl.Step κ γ τ σ)) :
    (hist.filter Impl.Step.isStructural).filter Impl.Step.isStructural
      = hist.filter Impl.Step.isStructural := by
  simp [List.filter_filter]

/-! ### completeness of reads: a defined cache-free value is what the read returns -/

theorem readDeps_complete (E : Effects κ γ τ σ ν) (hp : E.Pure) (n : Nat)
    (ih : ∀ (h : Heap κ σ ν) o k v, CacheOK E h → Spec.value E n h o k = some v →
      ∃ h', Impl.readF E n h o k = some (h', v)) (o : Nat) :
    ∀ (ds : List (Nat × κ)) (h : Heap κ σ ν) (vs : List ν), CacheOK E h →
      Spec.depVals (Spec.value E n h) h o ds = some vs →
      ∃ h1, Impl.readDeps (Impl.readF E n) o ds h = some (h1, vs) ∧ Skel h1 = Skel h ∧ CacheOK E h1 := by
  intro ds
  induction ds with
  | nil =>
    intro h vs hc hd
    simp only [Spec.depVals, Option.some.injEq] at hd
    exact ⟨h, by simp [Impl.readDeps, hd], rfl, hc⟩
  | cons d ds ihd =>
    intro h vs hc hd
    simp only [Spec.depVals] at hd
    cases hres : resolve h o d.1 with
    | none => simp [hres] at hd
    | some p =>
      simp only [hres] at hd
      cases hv : Spec.value E n h p d.2 with
      | none => simp [hv] at hd
      | some v =>
        simp only [hv] at hd
        cases hrest : Spec.depVals (Spec.value E n h) h o ds with
        | none => simp [hrest] at hd
        | some ws =>
          simp only [hrest, Option.some.injEq] at hd
          obtain ⟨ha, hra⟩ := ih h p d.2 v hc hv
          obtain ⟨sa, ca, _⟩ := readF_sound E hp n h p d.2 ha v hra hc
          have hrest' : Spec.depVals (Spec.value E n ha) ha o ds = some ws := by
            rw [depVals_congr sa (Spec.value E n ha) (Spec.value E n h)
              (fun p k => value_congr E sa n p k) o ds]
            exact hrest
          obtain ⟨hb, hrb, sb, cb⟩ := ihd ha ws ca hrest'
          refine ⟨hb, ?_, sb.trans sa, cb⟩
          simp only [Impl.readDeps, hres, hra, hrb]
          rw [← hd]

theorem readF_complete (E : Effects κ γ τ σ ν) (hp : E.Pure) :
    ∀ n (h : Heap κ σ ν) o k v, CacheOK E h → Spec.value E n h o k = some v →
      ∃ h', Impl.readF E n h o k = some (h', v) := by
  intro n
  induction n with
  | zero => intro h o k v _ hv; simp [Spec.value] at hv
  | succ n ih =>
    intro h o k v hc hv
    rw [readF_succ_eq E hp]
    have hv0 := hv
    rw [Spec.value] at hv
    cases ho : h[o]? with
    | none => simp [ho] at hv
    | some ob =>
      simp only [ho] at hv ⊢
      cases hl : lookupCache ob.cache k with
      | some w =>
        obtain ⟨m, hm⟩ := hc o ob ho k w hl
        have : w = v := value_det E h hm hv0
        exact ⟨h, by rw [this]⟩
      | none =>
        simp only
        cases hd : Spec.depVals (Spec.value E n h) h o (E.deps k) with
        | none => simp [hd] at hv
        | some vs =>
          simp only [hd, Option.some.injEq] at hv
          obtain ⟨h1, hr1, s1, _⟩ := readDeps_complete E hp n ih o (E.deps k) h vs hc hd
          obtain ⟨ob1, ho1, hc1, _⟩ := skel_get s1.symm ho
          simp only [hr1, ho1]
          exact ⟨afterRead E h1 o k (E.compute k ob1.contents vs), by rw [hc1, hv]⟩

/-! ### the log of a run: entry `i` is what step `i` reports on the heap left by the first `i` steps -/

theorem run_log_get (E : Effects κ γ τ σ ν) (fuel : Nat) :
    ∀ (hist : List (Impl.Step κ γ τ σ)) (h : Heap κ σ ν) (i : Nat) (s : Impl.Step κ γ τ σ),
      hist[i]? = some s →
      (Impl.run E fuel hist h).2[i]? = some (Impl.step E fuel (Impl.run E fuel (hist.take i) h).1 s).2 := by
  intro hist
  induction hist with
  | nil => intro h i s hs; simp at hs
  | cons a ss ih =>
    intro h i s hs
    cases i with
    | zero =>
      simp only [List.getElem?_cons_zero, Option.some.injEq] at hs
      simp [Impl.run, hs]
    | succ j =>
      simp only [List.getElem?_cons_succ] at hs
      simp only [Impl.run, List.take_succ_cons, List.getElem?_cons_succ]
      exact ih _ j s hs

/-! ### tables that are pure only on a dependency-closed set of keys (the real table: everything except
    the operations of known finding D9b) -/

theorem purify_pure (E : Effects κ γ τ σ ν) : E.purify.Pure :=
  ⟨fun _ => rfl, fun _ => rfl, fun _ => rfl⟩

theorem readDeps_congr_on (rd rd' : Heap κ σ ν → Nat → κ → Option (Heap κ σ ν × ν)) (S : κ → Prop)
    (hrd : ∀ h p k, S k → rd h p k = rd' h p k) (o : Nat) :
    ∀ (ds : List (Nat × κ)) (h : Heap κ σ ν), (∀ d ∈ ds, S d.2) →
      Impl.readDeps rd o ds h = Impl.readDeps rd' o ds h := by
  intro ds
  induction ds with
  | nil => intro h _; rfl
  | cons d ds ih =>
    intro h hS
    simp only [Impl.readDeps]
    cases resolve h o d.1 with
    | none => rfl
    | some p =>
      simp only
      rw [hrd h p d.2 (hS d (List.mem_cons_self))]
      cases rd' h p d.2 with
      | none => rfl
      | some r =>
        rcases r with ⟨h1, v⟩
        simp only
        rw [ih h1 (fun d' hd' => hS d' (List.mem_cons_of_mem _ hd'))]

/-- on keys of a clean, dependency-closed set a read behaves exactly as on the purified table -/
theorem readF_purify (E : Effects κ γ τ σ ν) (S : κ → Prop) (hS : E.CleanOn S) :
    ∀ n (h : Heap κ σ ν) o k, S k → Impl.readF E n h o k = Impl.readF E.purify n h o k := by
  intro n
  induction n with
  | zero => intro h o k _; rfl
  | succ n ih =>
    intro h o k hk
    obtain ⟨hc, hv, hd⟩ := hS k hk
    rw [Impl.readF, Impl.readF]
    cases h[o]? with
    | none => rfl
    | some ob =>
      simp only
      cases lookupCache ob.cache k with
      | some v => rfl
      | none =>
        simp only
        have hdeps : E.purify.deps k = E.deps k := rfl
        rw [hdeps, readDeps_congr_on (Impl.readF E n) (Impl.readF E.purify n) S
          (fun h p k hk => ih h p k hk) o (E.deps k) h hd]
        cases Impl.readDeps (Impl.readF E.purify n) o (E.deps k) h with
        | none => rfl
        | some r =>
          rcases r with ⟨h1, vs⟩
          simp only
          cases h1[o]? with
          | none => rfl
          | some ob1 =>
            simp only [hc, hv, applyCWrites_nil, applyVWrites_nil]
            rfl

/-- every read of the history is of a key in `S` -/
def ReadsIn (S : κ → Prop) (hist : List (Impl.Step κ γ τ σ)) : Prop :=
  ∀ s ∈ hist, match s with
    | .read _ k => S k
    | _ => True

theorem step_purify (E : Effects κ γ τ σ ν) (S : κ → Prop) (hS : E.CleanOn S)
    (hctor : ∀ t, E.ctorWrites t = []) (fuel : Nat) (h : Heap κ σ ν) (s : Impl.Step κ γ τ σ)
    (hs : match s with | .read _ k => S k | _ => True) :
    Impl.step E fuel h s = Impl.step E.purify fuel h s := by
  cases s with
  | construct t c ps =>
    simp only [Impl.step, hctor t]
    rfl
  | read o k =>
    simp only [Impl.step]
    rw [readF_purify E S hS fuel h o k hs]
  | derive o g => rfl

theorem run_purify (E : Effects κ γ τ σ ν) (S : κ → Prop) (hS : E.CleanOn S)
    (hctor : ∀ t, E.ctorWrites t = []) (fuel : Nat) :
    ∀ (hist : List (Impl.Step κ γ τ σ)) (h : Heap κ σ ν), ReadsIn S hist →
      Impl.run E fuel hist h = Impl.run E.purify fuel hist h := by
  intro hist
  induction hist with
  | nil => intro h _; rfl
  | cons s ss ih =>
    intro h hr
    simp only [Impl.run]
    rw [step_purify E S hS hctor fuel h s (hr s List.mem_cons_self)]
    rw [ih _ (fun s' hs' => hr s' (List.mem_cons_of_mem _ hs'))]

theorem value_purify (E : Effects κ γ τ σ ν) (h : Heap κ σ ν) :
    ∀ n o k, Spec.value E.purify n h o k = Spec.value E n h o k := by
  intro n
  induction n with
  | zero => intro o k; rfl
  | succ n ih =>
    intro o k
    simp only [Spec.value]
    have : Spec.value E.purify n h = Spec.value E n h := by
      funext p k'; exact ih p k'
    rw [this]
    rfl

theorem keepSound_purify (E : Effects κ γ τ σ ν) (hk : KeepSound E) : KeepSound E.purify := by
  intro g k hkeep h o ob wf ho n v hv
  rw [value_purify] at hv
  obtain ⟨m, hm⟩ := hk g k hkeep h o ob wf ho n v hv
  exact ⟨m, by rw [value_purify]; exact hm⟩

theorem filter_readsIn (S : κ → Prop) (hist : List (Impl.Step κ γ τ σ)) :
    ReadsIn S (hist.filter Impl.Step.isStructural) := by
  intro s hs
  have := (List.mem_filter.mp hs).2
  cases s with
  | read o k => simp [Impl.Step.isStructural] at this
  | construct t c ps => trivial
  | derive o g => trivial

end Purity
end Model
