/-
Proofs/Regularization.lean — matrix-update lemmas for the regularization model (property C07).

Everything the `*_regularization_matrix_from` loops do is `M[a, b] += v`.  A functional `Φ` of the
matrix that is *linear in single-entry updates* (`Φ (M[a,b] += v) = Φ M + φ a b * v`) therefore
turns every loop into a finite sum.  The two functionals used are the quadratic form
`M ↦ xᵀ M x` (kernel `x_a x_b`) and the entry `M ↦ M[i,j]` (kernel `[a = i ∧ b = j]`).
-/
import Model.Regularization
import Mathlib.Tactic.Ring
import Mathlib.Tactic.Linarith
import Mathlib.Algebra.BigOperators.Group.List.Basic
import Mathlib.Algebra.BigOperators.Group.Finset.Basic
import Mathlib.Algebra.BigOperators.Group.Finset.Piecewise
import Mathlib.Algebra.BigOperators.Ring.Finset
import Mathlib.Algebra.Order.BigOperators.Group.List
import Mathlib.Algebra.Order.BigOperators.Group.Finset
import Mathlib.Algebra.Order.Field.Basic

namespace Model
namespace Mat

open Finset

variable {α : Type}

/-! ### sums -/

theorem sumRange_eq_finset [AddCommMonoid α] (n : Nat) (f : Nat → α) :
    sumRange n f = ∑ i ∈ Finset.range n, f i := by
  unfold sumRange
  induction n with
  | zero => simp
  | succ n ih => rw [List.range_succ, List.map_append, List.sum_append, ih, Finset.sum_range_succ]; simp

theorem sumRange_succ [AddCommMonoid α] (n : Nat) (f : Nat → α) :
    sumRange (n + 1) f = sumRange n f + f n := by
  simp [sumRange_eq_finset, Finset.sum_range_succ]

theorem sumRange_congr [AddCommMonoid α] (n : Nat) (f g : Nat → α) (h : ∀ i < n, f i = g i) :
    sumRange n f = sumRange n g := by
  rw [sumRange_eq_finset, sumRange_eq_finset]
  exact Finset.sum_congr rfl fun i hi => h i (Finset.mem_range.mp hi)

theorem sumRange_add [AddCommMonoid α] (n : Nat) (f g : Nat → α) :
    sumRange n (fun i => f i + g i) = sumRange n f + sumRange n g := by
  simp [sumRange_eq_finset, Finset.sum_add_distrib]

theorem sumRange_mul_left [NonUnitalNonAssocSemiring α] (n : Nat) (c : α) (f : Nat → α) :
    sumRange n (fun i => c * f i) = c * sumRange n f := by
  simp [sumRange_eq_finset, Finset.mul_sum]

theorem sumRange_zero [AddCommMonoid α] (n : Nat) : sumRange n (fun _ => (0 : α)) = 0 := by
  simp [sumRange_eq_finset]

/-- picking out one index -/
theorem sumRange_ite_eq [AddCommMonoid α] (n a : Nat) (ha : a < n) (f : Nat → α) :
    sumRange n (fun i => if a = i then f i else 0) = f a := by
  rw [sumRange_eq_finset, Finset.sum_ite_eq]
  simp [ha]

theorem sum_map_flatMap [AddCommMonoid α] {ι κ : Type} (l : List ι) (f : ι → List κ) (g : κ → α) :
    ((l.flatMap f).map g).sum = (l.map fun a => ((f a).map g).sum).sum := by
  induction l with
  | nil => simp
  | cons a l ih => simp [List.flatMap_cons, List.sum_append, ih]

/-! ### shapes -/

theorem dims_zeros [Zero α] (n : Nat) : Dims n (zeros (α := α) n n) := by
  constructor
  · simp [zeros]
  · intro r hr
    simp only [zeros, List.mem_replicate] at hr
    rw [hr.2]; simp

theorem dims_modify_row {n : Nat} {M : List (List α)} (hM : Dims n M) (a : Nat)
    (f : List α → List α) (hf : ∀ r, r.length = n → (f r).length = n) :
    Dims n (M.modify a f) := by
  constructor
  · rw [List.length_modify]; exact hM.1
  · intro r hr
    obtain ⟨k, hk, rfl⟩ := List.getElem_of_mem hr
    rw [List.getElem_modify]
    have hk' : k < M.length := by simpa using hk
    split
    · exact hf _ (hM.2 _ (List.getElem_mem hk'))
    · exact hM.2 _ (List.getElem_mem hk')

theorem dims_addAt [Add α] {n : Nat} {M : List (List α)} (hM : Dims n M) (a b : Nat) (v : α) :
    Dims n (addAt M a b v) :=
  dims_modify_row hM a _ fun r hr => by rw [List.length_modify]; exact hr

theorem dims_divAt [Div α] {n : Nat} {M : List (List α)} (hM : Dims n M) (a b : Nat) (v : α) :
    Dims n (divAt M a b v) :=
  dims_modify_row hM a _ fun r hr => by rw [List.length_modify]; exact hr

/-- reading an entry after a row/column modification -/
theorem entry_modify [Zero α] {n : Nat} {M : List (List α)} (hM : Dims n M) {a b : Nat} (ha : a < n)
    (hb : b < n) (g : α → α) (i j : Nat) :
    entry (M.modify a fun row => row.modify b g) i j
      = if a = i ∧ b = j then g (entry M i j) else entry M i j := by
  unfold entry
  simp only [List.getD_eq_getElem?_getD, List.getElem?_modify]
  by_cases hi : i < M.length
  · have hrow : (M[i]).length = n := hM.2 _ (List.getElem_mem hi)
    rw [List.getElem?_eq_getElem hi]
    simp only [Option.map_eq_map, Option.map_some, Option.getD_some]
    by_cases hai : a = i
    · subst hai
      simp only [if_true, true_and, List.getElem?_modify]
      by_cases hj : j < (M[a]).length
      · rw [List.getElem?_eq_getElem hj]
        by_cases hbj : b = j <;> simp [hbj]
      · have : b ≠ j := by omega
        simp [this]
    · simp [hai]
  · have hai : a ≠ i := by have := hM.1; omega
    simp [hai]

theorem entry_addAt [AddZeroClass α] {n : Nat} {M : List (List α)} (hM : Dims n M) {a b : Nat}
    (ha : a < n) (hb : b < n) (v : α) (i j : Nat) :
    entry (addAt M a b v) i j = entry M i j + if a = i ∧ b = j then v else 0 := by
  unfold addAt
  rw [entry_modify hM ha hb]
  split <;> simp

theorem entry_zeros [Zero α] (n m i j : Nat) : entry (zeros (α := α) n m) i j = 0 := by
  unfold entry zeros
  simp only [List.getD_eq_getElem?_getD]
  by_cases hi : i < n
  · simp only [List.getElem?_replicate, hi, if_true, Option.getD_some]
    by_cases hj : j < m <;> simp [hj]
  · simp [hi]

/-- in a ring `M[a,b] -= v` is `M[a,b] += -v` -/
theorem subAt_eq_addAt [AddGroup α] (M : List (List α)) (a b : Nat) (v : α) :
    subAt M a b v = addAt M a b (-v) := by
  unfold subAt addAt
  congr 1
  funext row
  congr 1
  funext e
  exact sub_eq_add_neg e v

/-! ### functionals linear in single-entry updates -/

/-- `Φ` is linear in single-entry updates of `n×n` matrices with kernel `φ` -/
def LinFun [Add α] [Mul α] (n : Nat) (Φ : List (List α) → α) (φ : Nat → Nat → α) : Prop :=
  ∀ (M : List (List α)) (a b : Nat) (v : α), Dims n M → a < n → b < n →
    Φ (addAt M a b v) = Φ M + φ a b * v

/-- a loop whose every step adds a known amount to `Φ` and keeps the shape adds the sum -/
theorem foldl_linfun [AddCommMonoid α] {ι : Type} {n : Nat} (Φ : List (List α) → α)
    (step : List (List α) → ι → List (List α)) (c : ι → α) (l : List ι)
    (hstep : ∀ M i, i ∈ l → Dims n M → Dims n (step M i) ∧ Φ (step M i) = Φ M + c i)
    (M : List (List α)) (hM : Dims n M) :
    Dims n (l.foldl step M) ∧ Φ (l.foldl step M) = Φ M + (l.map c).sum := by
  induction l generalizing M with
  | nil => simp [hM]
  | cons a l ih =>
    obtain ⟨h1, h2⟩ := hstep M a (by simp) hM
    obtain ⟨h3, h4⟩ := ih (fun M i hi hM => hstep M i (by simp [hi]) hM) (step M a) h1
    refine ⟨by simpa using h3, ?_⟩
    simp only [List.foldl_cons, List.map_cons, List.sum_cons]
    rw [h4, h2, add_assoc]

/-- the same over `range`, with the sum written as `sumRange` -/
theorem foldl_range_linfun [AddCommMonoid α] {n : Nat} (Φ : List (List α) → α)
    (step : List (List α) → Nat → List (List α)) (c : Nat → α) (k : Nat)
    (hstep : ∀ M i, i < k → Dims n M → Dims n (step M i) ∧ Φ (step M i) = Φ M + c i)
    (M : List (List α)) (hM : Dims n M) :
    Dims n ((List.range k).foldl step M) ∧ Φ ((List.range k).foldl step M) = Φ M + sumRange k c :=
  foldl_linfun Φ step c (List.range k) (fun M i hi => hstep M i (List.mem_range.mp hi)) M hM

/-- the entry functional -/
theorem linfun_entry [NonAssocSemiring α] (n i j : Nat) :
    LinFun n (fun M => entry M i j) (fun a b => if a = i ∧ b = j then (1 : α) else 0) := by
  intro M a b v hM ha hb
  simp only
  rw [entry_addAt hM ha hb]
  split <;> simp

/-- the quadratic form `xᵀ M x` -/
theorem linfun_quad [CommSemiring α] (n : Nat) (x : List α) (hx : x.length = n) :
    LinFun n (fun M => quad M x) (fun a b => x.getD a 0 * x.getD b 0) := by
  intro M a b v hM ha hb
  simp only [quad, hx]
  have h1 : ∀ i, sumRange n (fun j => x.getD i 0 * entry (addAt M a b v) i j * x.getD j 0)
      = sumRange n (fun j => x.getD i 0 * entry M i j * x.getD j 0)
        + (if a = i then x.getD i 0 * v * x.getD b 0 else 0) := by
    intro i
    have : ∀ j, x.getD i 0 * entry (addAt M a b v) i j * x.getD j 0
        = x.getD i 0 * entry M i j * x.getD j 0
          + (if b = j then (if a = i then x.getD i 0 * v * x.getD j 0 else 0) else 0) := by
      intro j
      rw [entry_addAt hM ha hb]
      by_cases h1 : a = i <;> by_cases h2 : b = j <;> simp [h1, h2]; ring
    simp only [this, sumRange_add]
    congr 1
    rw [sumRange_ite_eq n b hb (fun j => if a = i then x.getD i 0 * v * x.getD j 0 else 0)]
  simp only [h1, sumRange_add]
  rw [sumRange_ite_eq n a ha (fun i => x.getD i 0 * v * x.getD b 0)]
  ring

end Mat
end Model

namespace Model
open Mat Spec

variable {α : Type}

/-! ### neighbour tables -/

theorem mem_edges {n : Nat} {N : List (List Nat)} {S : List Nat} {e : Nat × Nat} :
    e ∈ edges n N S ↔ ∃ i < n, ∃ j < S.getD i 0, e = (i, nb N i j) := by
  simp only [edges, List.mem_flatMap, List.mem_range, List.mem_map]
  constructor
  · rintro ⟨i, hi, j, hj, rfl⟩; exact ⟨i, hi, j, hj, rfl⟩
  · rintro ⟨i, hi, j, hj, rfl⟩; exact ⟨i, hi, j, hj, rfl⟩

theorem inRange_nb {n : Nat} {N : List (List Nat)} {S : List Nat} (h : InRange n N S) {i j : Nat}
    (hi : i < n) (hj : j < S.getD i 0) : nb N i j < n :=
  h (i, nb N i j) (mem_edges.mpr ⟨i, hi, j, hj, rfl⟩)

/-- a sum over the directed neighbour pairs is the double loop sum -/
theorem sum_edges [AddCommMonoid α] (n : Nat) (N : List (List Nat)) (S : List Nat) (g : Nat × Nat → α) :
    ((edges n N S).map g).sum
      = sumRange n fun i => sumRange (S.getD i 0) fun j => g (i, nb N i j) := by
  unfold edges sumRange
  rw [sum_map_flatMap]
  simp [List.map_map, Function.comp_def]

/-! ### the neighbour-difference loops as sums -/

theorem constantMatrix_linfun [CommRing α] {n : Nat} {Φ : List (List α) → α} {φ : Nat → Nat → α}
    (hΦ : LinFun n Φ φ) (ρ c : α) (N : List (List Nat)) (S : List Nat) (hn : N.length = n)
    (hR : InRange n N S) :
    Dims n (Impl.constantMatrix ρ c N S) ∧
    Φ (Impl.constantMatrix ρ c N S) = Φ (zeros n n)
      + sumRange n fun i => (φ i i * ρ
          + sumRange (S.getD i 0) fun j => (φ i i * (c * c) + φ i (nb N i j) * (-(c * c)))) := by
  unfold Impl.constantMatrix
  simp only [hn]
  apply foldl_range_linfun Φ _ _ n _ _ (dims_zeros n)
  intro M i hi hM
  have h0 := dims_addAt hM i i ρ
  have h := foldl_range_linfun Φ
    (fun M j => subAt (addAt M i i (c * c)) i (nb N i j) (c * c))
    (fun j => φ i i * (c * c) + φ i (nb N i j) * (-(c * c))) (S.getD i 0)
    (by
      intro M j hj hM
      have hnb := inRange_nb hR hi hj
      have h1 := dims_addAt hM i i (c * c)
      refine ⟨by rw [subAt_eq_addAt]; exact dims_addAt h1 _ _ _, ?_⟩
      rw [subAt_eq_addAt, hΦ _ _ _ _ h1 hi hnb, hΦ _ _ _ _ hM hi hi, add_assoc])
    (addAt M i i ρ) h0
  refine ⟨h.1, ?_⟩
  rw [h.2, hΦ _ _ _ _ hM hi hi, add_assoc]

end Model

namespace Model
open Mat Spec

variable {α : Type}

theorem quad_zeros [CommSemiring α] (n : Nat) (x : List α) : quad (zeros (α := α) n n) x = 0 := by
  simp [quad, entry_zeros, sumRange_zero]

/-- (a) directed form of the constant scheme's quadratic form -/
theorem constantMatrix_quad [CommRing α] {n : Nat} (ρ c : α) (N : List (List Nat)) (S : List Nat)
    (hn : N.length = n) (hR : InRange n N S) (x : List α) (hx : x.length = n) :
    quad (Impl.constantMatrix ρ c N S) x
      = (c * c) * ((edges n N S).map fun e =>
            x.getD e.1 0 * x.getD e.1 0 - x.getD e.1 0 * x.getD e.2 0).sum
        + ρ * sumSq x := by
  rw [(constantMatrix_linfun (linfun_quad n x hx) ρ c N S hn hR).2, quad_zeros, sum_edges]
  simp only [sumSq, hx, ← sumRange_mul_left, zero_add, ← sumRange_add]
  apply sumRange_congr
  intro i _
  rw [add_comm]
  congr 1
  · apply sumRange_congr
    intro j _
    ring
  · ring

/-- entries of the constant scheme's matrix -/
theorem constantMatrix_entry [CommRing α] {n : Nat} (ρ c : α) (N : List (List Nat)) (S : List Nat)
    (hn : N.length = n) (hR : InRange n N S) (i j : Nat) :
    entry (Impl.constantMatrix ρ c N S) i j
      = sumRange n (fun a => (if a = i ∧ a = j then ρ else 0)
          + sumRange (S.getD a 0) fun _ => (if a = i ∧ a = j then c * c else 0))
        - ((edges n N S).map fun e => if e.1 = i ∧ e.2 = j then c * c else 0).sum := by
  rw [(constantMatrix_linfun (linfun_entry n i j) ρ c N S hn hR).2, entry_zeros, sum_edges, zero_add]
  rw [eq_sub_iff_add_eq, ← sumRange_add]
  apply sumRange_congr
  intro a _
  rw [add_assoc, ← sumRange_add]
  congr 1
  · split <;> simp
  · apply sumRange_congr
    intro k _
    by_cases h1 : a = i ∧ a = j <;> by_cases h2 : a = i ∧ nb N a k = j <;> simp [h1, h2]

/-! ### symmetric neighbour tables -/

/-- a sum over the directed pairs is unchanged by reversing every pair -/
theorem sum_edges_swap [AddCommMonoid α] {n : Nat} {N : List (List Nat)} {S : List Nat}
    (hS : Symmetric n N S) (g : Nat × Nat → α) :
    ((edges n N S).map fun e => g (e.2, e.1)).sum = ((edges n N S).map g).sum := by
  have := (hS.map g).sum_eq
  simpa [List.map_map, Function.comp_def] using this

theorem constantMatrix_symm [CommRing α] {n : Nat} (ρ c : α) (N : List (List Nat)) (S : List Nat)
    (hn : N.length = n) (hR : InRange n N S) (hS : Symmetric n N S) (i j : Nat) :
    entry (Impl.constantMatrix ρ c N S) i j = entry (Impl.constantMatrix ρ c N S) j i := by
  rw [constantMatrix_entry ρ c N S hn hR, constantMatrix_entry ρ c N S hn hR]
  congr 1
  · apply sumRange_congr
    intro a _
    simp only [and_comm]
  · rw [← sum_edges_swap hS]
    simp only [and_comm]

end Model

namespace Model
open Mat Spec

variable {α : Type}

/-- for a symmetric pair list and a symmetric summand vanishing on the diagonal, the sum over all
    directed pairs counts every unordered pair twice -/
theorem sum_symm_pairs [AddCommMonoid α] (E : List (Nat × Nat))
    (hE : (E.map fun e => (e.2, e.1)).Perm E) (g : Nat × Nat → α)
    (hsym : ∀ a b, g (a, b) = g (b, a)) (hdiag : ∀ a, g (a, a) = 0) :
    (E.map g).sum = ((E.filter fun e => e.1 < e.2).map g).sum
                    + ((E.filter fun e => e.1 < e.2).map g).sum := by
  have step1 : ∀ L : List (Nat × Nat), (L.map g).sum
      = ((L.filter fun e => e.1 < e.2).map g).sum + ((L.filter fun e => e.2 < e.1).map g).sum := by
    intro L
    induction L with
    | nil => simp
    | cons e L ih =>
      obtain ⟨a, b⟩ := e
      rcases Nat.lt_trichotomy a b with h | h | h
      · have h' : ¬ b < a := by omega
        simp [h, h', ih, add_assoc]
      · subst h
        simp [ih, hdiag]
      · have h' : ¬ a < b := by omega
        simp [h, h', ih, add_left_comm]
  rw [step1 E]
  congr 1
  have hperm := (hE.filter fun e => e.1 < e.2).map g
  rw [← hperm.sum_eq, List.filter_map, List.map_map]
  congr 1
  apply List.map_congr_left
  intro e _
  simp [hsym e.2 e.1]

theorem sumSq_nonneg [Field α] [LinearOrder α] [IsStrictOrderedRing α] (x : List α) : 0 ≤ sumSq x := by
  rw [sumSq, sumRange_eq_finset]
  exact Finset.sum_nonneg fun i _ => mul_self_nonneg _

theorem sumSq_pos [Field α] [LinearOrder α] [IsStrictOrderedRing α] (x : List α)
    (hx : ∃ i, i < x.length ∧ x.getD i 0 ≠ 0) : 0 < sumSq x := by
  obtain ⟨k, hk, hne⟩ := hx
  rw [sumSq, sumRange_eq_finset]
  have h1 : x.getD k 0 * x.getD k 0 ≤ ∑ i ∈ Finset.range x.length, x.getD i 0 * x.getD i 0 :=
    Finset.single_le_sum (f := fun i => x.getD i 0 * x.getD i 0)
      (fun i _ => mul_self_nonneg _) (Finset.mem_range.mpr hk)
  have h2 : 0 < x.getD k 0 * x.getD k 0 := mul_self_pos.mpr hne
  linarith

/-- (a) with a symmetric neighbour table: `c²·Σ_{unordered pairs}(x_i − x_j)² + ρ|x|²` -/
theorem constantMatrix_quad_pairs [Field α] [LinearOrder α] [IsStrictOrderedRing α] {n : Nat}
    (ρ c : α) (N : List (List Nat)) (S : List Nat) (hn : N.length = n) (hR : InRange n N S)
    (hS : Symmetric n N S) (x : List α) (hx : x.length = n) :
    quad (Impl.constantMatrix ρ c N S) x
      = (c * c) * ((pairs n N S).map fun e =>
            (x.getD e.1 0 - x.getD e.2 0) * (x.getD e.1 0 - x.getD e.2 0)).sum
        + ρ * sumSq x := by
  rw [constantMatrix_quad ρ c N S hn hR x hx]
  congr 2
  set g : Nat × Nat → α := fun e => (x.getD e.1 0 - x.getD e.2 0) * (x.getD e.1 0 - x.getD e.2 0)
  set f : Nat × Nat → α := fun e => x.getD e.1 0 * x.getD e.1 0 - x.getD e.1 0 * x.getD e.2 0
  have h1 : ((edges n N S).map f).sum + ((edges n N S).map f).sum = ((edges n N S).map g).sum := by
    nth_rewrite 2 [← sum_edges_swap hS f]
    rw [← List.sum_map_add]
    congr 1
    apply List.map_congr_left
    intro e _
    simp only [f, g]
    ring
  have h2 := sum_symm_pairs (edges n N S) hS g (fun a b => by simp only [g]; ring)
    (fun a => by simp [g])
  have h3 : (2 : α) * ((edges n N S).map f).sum = 2 * ((pairs n N S).map g).sum := by
    rw [two_mul, two_mul, h1, h2]; rfl
  exact mul_left_cancel₀ two_ne_zero h3

theorem constantMatrix_posdef [Field α] [LinearOrder α] [IsStrictOrderedRing α] {n : Nat}
    (ρ c : α) (hρ : 0 < ρ) (N : List (List Nat)) (S : List Nat) (hn : N.length = n)
    (hR : InRange n N S) (hS : Symmetric n N S) (x : List α) (hx : x.length = n)
    (hx0 : ∃ i, i < n ∧ x.getD i 0 ≠ 0) :
    0 < quad (Impl.constantMatrix ρ c N S) x := by
  rw [constantMatrix_quad_pairs ρ c N S hn hR hS x hx]
  have h1 : 0 ≤ ((pairs n N S).map fun e =>
      (x.getD e.1 0 - x.getD e.2 0) * (x.getD e.1 0 - x.getD e.2 0)).sum := by
    apply List.sum_nonneg
    intro v hv
    obtain ⟨e, _, rfl⟩ := List.mem_map.mp hv
    exact mul_self_nonneg _
  have h2 : 0 < sumSq x := sumSq_pos x (by rw [hx]; exact hx0)
  have h3 : 0 ≤ c * c := mul_self_nonneg c
  have h4 := mul_nonneg h3 h1
  have h5 := mul_pos hρ h2
  linarith

end Model

namespace Model
open Mat Spec

variable {α : Type}

/-! ### constant + zeroth -/

theorem constantZerothMatrix_linfun [CommRing α] {n : Nat} {Φ : List (List α) → α}
    {φ : Nat → Nat → α} (hΦ : LinFun n Φ φ) (ρ c cz : α) (N : List (List Nat)) (S : List Nat)
    (hn : N.length = n) (hR : InRange n N S) :
    Dims n (Impl.constantZerothMatrix ρ c cz N S) ∧
    Φ (Impl.constantZerothMatrix ρ c cz N S) = Φ (Impl.constantMatrix (ρ + cz * cz) c N S) := by
  have hc := constantMatrix_linfun hΦ (ρ + cz * cz) c N S hn hR
  rw [hc.2]
  unfold Impl.constantZerothMatrix
  simp only [hn]
  apply foldl_range_linfun Φ _ _ n _ _ (dims_zeros n)
  intro M i hi hM
  have h0 := dims_addAt hM i i ρ
  have h0' := dims_addAt h0 i i (cz * cz)
  have h := foldl_range_linfun Φ
    (fun M j => subAt (addAt M i i (c * c)) i (nb N i j) (c * c))
    (fun j => φ i i * (c * c) + φ i (nb N i j) * (-(c * c))) (S.getD i 0)
    (by
      intro M j hj hM
      have hnb := inRange_nb hR hi hj
      have h1 := dims_addAt hM i i (c * c)
      refine ⟨by rw [subAt_eq_addAt]; exact dims_addAt h1 _ _ _, ?_⟩
      rw [subAt_eq_addAt, hΦ _ _ _ _ h1 hi hnb, hΦ _ _ _ _ hM hi hi, add_assoc])
    (addAt (addAt M i i ρ) i i (cz * cz)) h0'
  refine ⟨h.1, ?_⟩
  rw [h.2, hΦ _ _ _ _ h0 hi hi, hΦ _ _ _ _ hM hi hi]
  ring

/-! ### weighted (adaptive) scheme -/

theorem getD_map_sq [MulZeroClass α] (w : List α) (k : Nat) :
    (w.map fun v => v * v).getD k 0 = w.getD k 0 * w.getD k 0 := by
  simp only [List.getD_eq_getElem?_getD, List.getElem?_map]
  cases w[k]? <;> simp

theorem weightedMatrix_linfun [CommRing α] {n : Nat} {Φ : List (List α) → α} {φ : Nat → Nat → α}
    (hΦ : LinFun n Φ φ) (ρ : α) (w : List α) (N : List (List Nat)) (S : List Nat)
    (hn : w.length = n) (hR : InRange n N S) :
    Dims n (Impl.weightedMatrix ρ w N S) ∧
    Φ (Impl.weightedMatrix ρ w N S) = Φ (zeros n n)
      + sumRange n fun i => (φ i i * ρ
          + sumRange (S.getD i 0) fun j =>
              (φ i i + φ (nb N i j) (nb N i j) - φ i (nb N i j) - φ (nb N i j) i)
                * (w.getD (nb N i j) 0 * w.getD (nb N i j) 0)) := by
  unfold Impl.weightedMatrix
  simp only [hn, getD_map_sq]
  apply foldl_range_linfun Φ _ _ n _ _ (dims_zeros n)
  intro M i hi hM
  have h0 := dims_addAt hM i i ρ
  have h := foldl_range_linfun Φ
    (fun M j =>
      subAt (subAt (addAt (addAt M i i (w.getD (nb N i j) 0 * w.getD (nb N i j) 0))
        (nb N i j) (nb N i j) (w.getD (nb N i j) 0 * w.getD (nb N i j) 0))
        i (nb N i j) (w.getD (nb N i j) 0 * w.getD (nb N i j) 0))
        (nb N i j) i (w.getD (nb N i j) 0 * w.getD (nb N i j) 0))
    (fun j => (φ i i + φ (nb N i j) (nb N i j) - φ i (nb N i j) - φ (nb N i j) i)
                * (w.getD (nb N i j) 0 * w.getD (nb N i j) 0)) (S.getD i 0)
    (by
      intro M j hj hM
      have hnb := inRange_nb hR hi hj
      have h1 := dims_addAt hM i i (w.getD (nb N i j) 0 * w.getD (nb N i j) 0)
      have h2 := dims_addAt h1 (nb N i j) (nb N i j) (w.getD (nb N i j) 0 * w.getD (nb N i j) 0)
      have h3 := dims_addAt h2 i (nb N i j) (-(w.getD (nb N i j) 0 * w.getD (nb N i j) 0))
      refine ⟨by rw [subAt_eq_addAt, subAt_eq_addAt]; exact dims_addAt h3 _ _ _, ?_⟩
      rw [subAt_eq_addAt, subAt_eq_addAt, hΦ _ _ _ _ h3 hnb hi, hΦ _ _ _ _ h2 hi hnb,
        hΦ _ _ _ _ h1 hnb hnb, hΦ _ _ _ _ hM hi hi]
      ring)
    (addAt M i i ρ) h0
  refine ⟨h.1, ?_⟩
  rw [h.2, hΦ _ _ _ _ hM hi hi, add_assoc]

/-- (b) directed form: `Σ_{(i,j) directed} w_j²·(x_i − x_j)² + ρ|x|²` (any neighbour table) -/
theorem weightedMatrix_quad [CommRing α] {n : Nat} (ρ : α) (w : List α) (N : List (List Nat))
    (S : List Nat) (hn : w.length = n) (hR : InRange n N S) (x : List α) (hx : x.length = n) :
    quad (Impl.weightedMatrix ρ w N S) x
      = ((edges n N S).map fun e => (w.getD e.2 0 * w.getD e.2 0)
            * ((x.getD e.1 0 - x.getD e.2 0) * (x.getD e.1 0 - x.getD e.2 0))).sum
        + ρ * sumSq x := by
  rw [(weightedMatrix_linfun (linfun_quad n x hx) ρ w N S hn hR).2, quad_zeros, sum_edges]
  simp only [sumSq, hx, ← sumRange_mul_left, zero_add, ← sumRange_add]
  apply sumRange_congr
  intro i _
  rw [add_comm]
  congr 1
  · apply sumRange_congr
    intro j _
    ring
  · ring

theorem delta_symm [Ring α] (A A' B B' : Prop) [Decidable A] [Decidable A'] [Decidable B]
    [Decidable B'] :
    ((if A ∧ A' then (1 : α) else 0) + (if B ∧ B' then 1 else 0) - (if A ∧ B' then 1 else 0)
        - (if B ∧ A' then 1 else 0))
      = (if A' ∧ A then 1 else 0) + (if B' ∧ B then 1 else 0) - (if A' ∧ B then 1 else 0)
        - (if B' ∧ A then 1 else 0) := by
  by_cases h1 : A <;> by_cases h2 : A' <;> by_cases h3 : B <;> by_cases h4 : B' <;>
    simp [h1, h2, h3, h4]

/-- the weighted matrix is symmetric for every (even asymmetric) neighbour table -/
theorem weightedMatrix_symm [CommRing α] {n : Nat} (ρ : α) (w : List α) (N : List (List Nat))
    (S : List Nat) (hn : w.length = n) (hR : InRange n N S) (i j : Nat) :
    entry (Impl.weightedMatrix ρ w N S) i j = entry (Impl.weightedMatrix ρ w N S) j i := by
  rw [(weightedMatrix_linfun (linfun_entry n i j) ρ w N S hn hR).2,
    (weightedMatrix_linfun (linfun_entry n j i) ρ w N S hn hR).2, entry_zeros, entry_zeros]
  congr 1
  apply sumRange_congr
  intro a _
  congr 1
  · simp only [and_comm]
  · apply sumRange_congr
    intro k _
    congr 1
    exact delta_symm _ _ _ _

theorem weightedMatrix_posdef [Field α] [LinearOrder α] [IsStrictOrderedRing α] {n : Nat}
    (ρ : α) (hρ : 0 < ρ) (w : List α) (N : List (List Nat)) (S : List Nat) (hn : w.length = n)
    (hR : InRange n N S) (x : List α) (hx : x.length = n)
    (hx0 : ∃ i, i < n ∧ x.getD i 0 ≠ 0) :
    0 < quad (Impl.weightedMatrix ρ w N S) x := by
  rw [weightedMatrix_quad ρ w N S hn hR x hx]
  have h1 : 0 ≤ ((edges n N S).map fun e => (w.getD e.2 0 * w.getD e.2 0)
      * ((x.getD e.1 0 - x.getD e.2 0) * (x.getD e.1 0 - x.getD e.2 0))).sum := by
    apply List.sum_nonneg
    intro v hv
    obtain ⟨e, _, rfl⟩ := List.mem_map.mp hv
    exact mul_nonneg (mul_self_nonneg _) (mul_self_nonneg _)
  have h2 : 0 < sumSq x := sumSq_pos x (by rw [hx]; exact hx0)
  have h5 := mul_pos hρ h2
  linarith

/-- (b) with a symmetric neighbour table: pair `{i,j}` is weighted by `w_i² + w_j²` -/
theorem weightedMatrix_quad_pairs [Field α] [LinearOrder α] [IsStrictOrderedRing α] {n : Nat}
    (ρ : α) (w : List α) (N : List (List Nat)) (S : List Nat) (hn : w.length = n)
    (hR : InRange n N S) (hS : Symmetric n N S) (x : List α) (hx : x.length = n) :
    quad (Impl.weightedMatrix ρ w N S) x
      = ((pairs n N S).map fun e =>
            (w.getD e.1 0 * w.getD e.1 0 + w.getD e.2 0 * w.getD e.2 0)
              * ((x.getD e.1 0 - x.getD e.2 0) * (x.getD e.1 0 - x.getD e.2 0))).sum
        + ρ * sumSq x := by
  rw [weightedMatrix_quad ρ w N S hn hR x hx]
  congr 1
  set g : Nat × Nat → α := fun e => (w.getD e.1 0 * w.getD e.1 0 + w.getD e.2 0 * w.getD e.2 0)
      * ((x.getD e.1 0 - x.getD e.2 0) * (x.getD e.1 0 - x.getD e.2 0))
  set f : Nat × Nat → α := fun e => (w.getD e.2 0 * w.getD e.2 0)
      * ((x.getD e.1 0 - x.getD e.2 0) * (x.getD e.1 0 - x.getD e.2 0))
  have h1 : ((edges n N S).map f).sum + ((edges n N S).map f).sum = ((edges n N S).map g).sum := by
    nth_rewrite 2 [← sum_edges_swap hS f]
    rw [← List.sum_map_add]
    congr 1
    apply List.map_congr_left
    intro e _
    simp only [f, g]
    ring
  have h2 := sum_symm_pairs (edges n N S) hS g (fun a b => by simp only [g]; ring)
    (fun a => by simp [g])
  have h3 : (2 : α) * ((edges n N S).map f).sum = 2 * ((pairs n N S).map g).sum := by
    rw [two_mul, two_mul, h1, h2]; rfl
  exact mul_left_cancel₀ two_ne_zero h3

end Model

namespace Model
open Mat Spec

variable {α : Type}

/-! ### zeroth-order schemes (diagonal matrices) -/

theorem zerothMatrix_linfun [CommRing α] {n : Nat} {Φ : List (List α) → α} {φ : Nat → Nat → α}
    (hΦ : LinFun n Φ φ) (c : α) :
    Dims n (Impl.zerothMatrix c n) ∧
    Φ (Impl.zerothMatrix c n) = Φ (zeros n n) + sumRange n fun i => φ i i * (c * c) := by
  unfold Impl.zerothMatrix
  apply foldl_range_linfun Φ _ _ n _ _ (dims_zeros n)
  intro M i hi hM
  exact ⟨dims_addAt hM _ _ _, hΦ _ _ _ _ hM hi hi⟩

theorem zerothMatrix_quad [CommRing α] (n : Nat) (c : α) (x : List α) (hx : x.length = n) :
    quad (Impl.zerothMatrix c n) x = (c * c) * sumSq x := by
  rw [(zerothMatrix_linfun (linfun_quad n x hx) c).2, quad_zeros, zero_add]
  simp only [sumSq, hx, ← sumRange_mul_left]
  apply sumRange_congr
  intro i _
  ring

theorem zerothMatrix_entry [CommRing α] (n : Nat) (c : α) (i j : Nat) :
    entry (Impl.zerothMatrix c n) i j = if i = j ∧ i < n then c * c else 0 := by
  rw [(zerothMatrix_linfun (linfun_entry n i j) c).2, entry_zeros, zero_add]
  by_cases h : i = j ∧ i < n
  · obtain ⟨rfl, hi⟩ := h
    simp only [hi, and_self, if_true]
    refine Eq.trans (sumRange_congr n _ (fun a => if i = a then c * c else 0) ?_)
      (sumRange_ite_eq n i hi (fun _ => c * c))
    intro a _
    by_cases ha : a = i
    · subst ha; simp
    · have ha' : ¬ i = a := fun h => ha h.symm
      simp [ha, ha']
  · rw [if_neg h]
    refine Eq.trans (sumRange_congr n _ (fun _ => (0 : α)) ?_) (sumRange_zero n)
    intro a ha
    have : ¬ (a = i ∧ a = j) := by
      rintro ⟨rfl, rfl⟩
      exact h ⟨rfl, ha⟩
    simp [this]

theorem brightnessZerothMatrix_linfun [CommRing α] {n : Nat} {Φ : List (List α) → α}
    {φ : Nat → Nat → α} (hΦ : LinFun n Φ φ) (w : List α) (hn : w.length = n) :
    Dims n (Impl.brightnessZerothMatrix w) ∧
    Φ (Impl.brightnessZerothMatrix w) = Φ (zeros n n)
      + sumRange n fun i => φ i i * (w.getD i 0 * w.getD i 0) := by
  unfold Impl.brightnessZerothMatrix
  simp only [hn, getD_map_sq]
  apply foldl_range_linfun Φ _ _ n _ _ (dims_zeros n)
  intro M i hi hM
  exact ⟨dims_addAt hM _ _ _, hΦ _ _ _ _ hM hi hi⟩

theorem brightnessZerothMatrix_quad [CommRing α] (n : Nat) (w : List α) (hn : w.length = n)
    (x : List α) (hx : x.length = n) :
    quad (Impl.brightnessZerothMatrix w) x
      = sumRange n fun i => (w.getD i 0 * w.getD i 0) * (x.getD i 0 * x.getD i 0) := by
  rw [(brightnessZerothMatrix_linfun (linfun_quad n x hx) w hn).2, quad_zeros, zero_add]
  apply sumRange_congr
  intro i _
  ring

theorem brightnessZerothMatrix_entry [CommRing α] (n : Nat) (w : List α) (hn : w.length = n)
    (i j : Nat) :
    entry (Impl.brightnessZerothMatrix w) i j
      = if i = j ∧ i < n then w.getD i 0 * w.getD i 0 else 0 := by
  rw [(brightnessZerothMatrix_linfun (linfun_entry n i j) w hn).2, entry_zeros, zero_add]
  by_cases h : i = j ∧ i < n
  · obtain ⟨rfl, hi⟩ := h
    simp only [hi, and_self, if_true]
    refine Eq.trans (sumRange_congr n _ (fun a => if i = a then w.getD a 0 * w.getD a 0 else 0) ?_)
      (sumRange_ite_eq n i hi (fun a => w.getD a 0 * w.getD a 0))
    intro a _
    by_cases ha : a = i
    · subst ha; simp
    · have ha' : ¬ i = a := fun h => ha h.symm
      simp [ha, ha']
  · rw [if_neg h]
    refine Eq.trans (sumRange_congr n _ (fun _ => (0 : α)) ?_) (sumRange_zero n)
    intro a ha
    have : ¬ (a = i ∧ a = j) := by
      rintro ⟨rfl, rfl⟩
      exact h ⟨rfl, ha⟩
    simp [this]

theorem sumRange_nonneg [Field α] [LinearOrder α] [IsStrictOrderedRing α] (n : Nat) (f : Nat → α)
    (h : ∀ i < n, 0 ≤ f i) : 0 ≤ sumRange n f := by
  rw [sumRange_eq_finset]
  exact Finset.sum_nonneg fun i hi => h i (Finset.mem_range.mp hi)

end Model
