/-
Proofs/RegularizationBlock.lean — scalar multiples and the block-diagonal assembly over linear
objects (`LinearObj.regularization_matrix`, `AbstractInversion.regularization_matrix`).
-/
import Proofs.Regularization

namespace Model
open Mat Spec

variable {α : Type}

/-! ### scalar multiple -/

theorem entry_smul [MulZeroClass α] (c : α) (M : List (List α)) (i j : Nat) :
    entry (smul c M) i j = c * entry M i j := by
  unfold entry smul
  simp only [List.getD_eq_getElem?_getD, List.getElem?_map]
  cases hM : M[i]? with
  | none => simp
  | some r =>
    simp only [Option.map_some, Option.getD_some, List.getElem?_map]
    cases r[j]? <;> simp

theorem quad_smul [CommSemiring α] (c : α) (M : List (List α)) (x : List α) :
    quad (smul c M) x = c * quad M x := by
  simp only [quad, entry_smul, ← sumRange_mul_left]
  apply sumRange_congr
  intro i _
  apply sumRange_congr
  intro j _
  ring

/-! ### block-diagonal assembly -/

theorem getD_append_left {β : Type} (x y : List β) (d : β) (i : Nat) (h : i < x.length) :
    (x ++ y).getD i d = x.getD i d := by
  simp [List.getD_eq_getElem?_getD, List.getElem?_append_left h]

theorem getD_append_right {β : Type} (x y : List β) (d : β) (i : Nat) :
    (x ++ y).getD (x.length + i) d = y.getD i d := by
  simp [List.getD_eq_getElem?_getD, List.getElem?_append_right]

/-- one step of the recursion: the first object's block sits top-left, everything else of its rows
    and columns is zero, and the remaining objects' matrix sits bottom-right -/
theorem blockDiag_cons_entry [Zero α] (n : Nat) (B : List (List α)) (hB : Dims n B)
    (rest : List (Nat × List (List α))) (i j : Nat) :
    entry (blockDiag ((n, B) :: rest)) i j
      = if i < n then (if j < n then entry B i j else 0)
        else (if j < n then 0 else entry (blockDiag rest) (i - n) (j - n)) := by
  unfold entry
  simp only [blockDiag]
  by_cases hi : i < n
  · simp only [hi, if_true]
    have hiB : i < B.length := by rw [hB.1]; exact hi
    have hrow : (B[i]).length = n := hB.2 _ (List.getElem_mem hiB)
    rw [getD_append_left _ _ _ _ (by simpa using hiB)]
    simp only [List.getD_eq_getElem?_getD, List.getElem?_map, List.getElem?_eq_getElem hiB,
      Option.map_some, Option.getD_some]
    by_cases hj : j < n
    · simp only [hj, if_true]
      rw [List.getElem?_append_left (by rw [hrow]; exact hj)]
    · simp only [hj, if_false]
      rw [List.getElem?_append_right (by rw [hrow]; omega)]
      simp only [List.getElem?_replicate]
      split <;> simp
  · simp only [hi, if_false]
    have hlen : (B.map fun r => r ++ List.replicate (rest.map (·.1)).sum (0 : α)).length = n := by
      simp [hB.1]
    have e : i = (B.map fun r => r ++ List.replicate (rest.map (·.1)).sum (0 : α)).length + (i - n) := by
      rw [hlen]; omega
    rw [e, getD_append_right, hlen]
    have e2 : n + (i - n) - n = i - n := by omega
    simp only [e2]
    simp only [List.getD_eq_getElem?_getD, List.getElem?_map]
    cases hr : (blockDiag rest)[i - n]? with
    | none => simp
    | some r =>
      simp only [Option.map_some, Option.getD_some]
      by_cases hj : j < n
      · simp only [hj, if_true]
        rw [List.getElem?_append_left (by simpa using hj)]
        simp [hj]
      · simp only [hj, if_false]
        rw [List.getElem?_append_right (by simp; omega)]
        simp

/-- every object's matrix has the object's parameter count -/
def AllDims (objs : List (Nat × List (List α))) : Prop := ∀ o ∈ objs, Dims o.1 o.2

/-- total parameter count -/
def totalParams (objs : List (Nat × List (List α))) : Nat := (objs.map (·.1)).sum

/-- index offset of object `k` -/
def offset (objs : List (Nat × List (List α))) (k : Nat) : Nat := ((objs.take k).map (·.1)).sum

/-- size = total parameter count -/
theorem blockDiag_dims [Zero α] (objs : List (Nat × List (List α))) (h : AllDims objs) :
    Dims (totalParams objs) (blockDiag objs) := by
  induction objs with
  | nil => exact ⟨rfl, by simp [blockDiag]⟩
  | cons o rest ih =>
    obtain ⟨n, B⟩ := o
    have hB : Dims n B := h (n, B) (by simp)
    have hrest := ih (fun o ho => h o (by simp [ho]))
    simp only [blockDiag, totalParams, List.map_cons, List.sum_cons]
    constructor
    · simp only [List.length_append, List.length_map, hB.1]
      congr 1
      exact hrest.1
    · intro r hr
      simp only [List.mem_append, List.mem_map] at hr
      rcases hr with ⟨r', hr', rfl⟩ | ⟨r', hr', rfl⟩
      · simp [hB.2 r' hr']
      · have := hrest.2 r' hr'
        simp only [totalParams] at this
        simp [this]

/-- (f) block `k` of the assembled matrix is object `k`'s matrix, at the offset given by the objects
    before it (object order); every entry coupling two different objects is zero -/
theorem blockDiag_entry [Zero α] (objs : List (Nat × List (List α))) (h : AllDims objs)
    (k k' : Nat) (hk : k < objs.length) (hk' : k' < objs.length) (a b : Nat)
    (ha : a < (objs.getD k (0, [])).1) (hb : b < (objs.getD k' (0, [])).1) :
    entry (blockDiag objs) (offset objs k + a) (offset objs k' + b)
      = if k = k' then entry (objs.getD k (0, [])).2 a b else 0 := by
  induction objs generalizing k k' with
  | nil => simp at hk
  | cons o rest ih =>
    obtain ⟨n, B⟩ := o
    have hB : Dims n B := h (n, B) (by simp)
    have hrest : AllDims rest := fun o ho => h o (by simp [ho])
    rw [blockDiag_cons_entry n B hB]
    have hoff0 : offset ((n, B) :: rest) 0 = 0 := by simp [offset]
    have hoffS : ∀ m, offset ((n, B) :: rest) (m + 1) = n + offset rest m := by
      intro m; simp [offset]
    cases k with
    | zero =>
      have ha' : a < n := by simpa using ha
      cases k' with
      | zero =>
        have hb' : b < n := by simpa using hb
        rw [hoff0]
        simp [ha', hb']
      | succ k' =>
        rw [hoff0, hoffS]
        have e : ¬ (n + offset rest k' + b < n) := by omega
        have e0 : ¬ (0 = k' + 1) := by omega
        simp only [Nat.zero_add, ha', if_true, e, if_false, e0]
    | succ k =>
      cases k' with
      | zero =>
        have hb' : b < n := by simpa using hb
        rw [hoff0, hoffS]
        have e : ¬ (n + offset rest k + a < n) := by omega
        have e0 : ¬ (k + 1 = 0) := by omega
        simp only [Nat.zero_add, hb', if_true, e, if_false, e0]
      | succ k' =>
        rw [hoffS, hoffS]
        have e1 : ¬ (n + offset rest k + a < n) := by omega
        have e2 : ¬ (n + offset rest k' + b < n) := by omega
        have e3 : n + offset rest k + a - n = offset rest k + a := by omega
        have e4 : n + offset rest k' + b - n = offset rest k' + b := by omega
        simp only [e1, e2, if_false, e3, e4]
        have := ih hrest k k' (by simpa using hk) (by simpa using hk') (by simpa using ha)
          (by simpa using hb)
        rw [this]
        simp

/-- (f) the quadratic form of the assembled matrix is the sum of the objects' quadratic forms on
    their own slices of `x` -/
theorem blockDiag_cons_quad [CommSemiring α] (n : Nat) (B : List (List α)) (hB : Dims n B)
    (rest : List (Nat × List (List α))) (x y : List α) (hx : x.length = n) :
    quad (blockDiag ((n, B) :: rest)) (x ++ y) = quad B x + quad (blockDiag rest) y := by
  simp only [quad, List.length_append, hx, sumRange_eq_finset]
  rw [Finset.sum_range_add]
  congr 1
  · apply Finset.sum_congr rfl
    intro i hi
    have hi' : i < n := Finset.mem_range.mp hi
    rw [Finset.sum_range_add]
    have h0 : ∑ j ∈ Finset.range y.length,
        (x ++ y).getD i 0 * entry (blockDiag ((n, B) :: rest)) i (n + j) * (x ++ y).getD (n + j) 0 = 0 := by
      apply Finset.sum_eq_zero
      intro j _
      rw [blockDiag_cons_entry n B hB]
      have : ¬ (n + j < n) := by omega
      simp [hi', this]
    rw [h0, add_zero]
    apply Finset.sum_congr rfl
    intro j hj
    have hj' : j < n := Finset.mem_range.mp hj
    rw [blockDiag_cons_entry n B hB, getD_append_left _ _ _ _ (by omega),
      getD_append_left _ _ _ _ (by omega)]
    simp [hi', hj']
  · apply Finset.sum_congr rfl
    intro i _
    rw [Finset.sum_range_add]
    have h0 : ∑ j ∈ Finset.range n,
        (x ++ y).getD (n + i) 0 * entry (blockDiag ((n, B) :: rest)) (n + i) j * (x ++ y).getD j 0 = 0 := by
      apply Finset.sum_eq_zero
      intro j hj
      have hj' : j < n := Finset.mem_range.mp hj
      rw [blockDiag_cons_entry n B hB]
      have : ¬ (n + i < n) := by omega
      simp [hj', this]
    rw [h0, zero_add]
    apply Finset.sum_congr rfl
    intro j _
    rw [blockDiag_cons_entry n B hB]
    have e1 : ¬ (n + i < n) := by omega
    have e2 : ¬ (n + j < n) := by omega
    have e3 : n + i - n = i := by omega
    have e4 : n + j - n = j := by omega
    simp only [e1, e2, if_false, e3, e4]
    rw [← hx, getD_append_right, getD_append_right]

end Model

namespace Model
open Mat Spec

variable {α : Type}

/-- the assembled matrix is symmetric when every block is -/
theorem blockDiag_symm [Zero α] (objs : List (Nat × List (List α))) (h : AllDims objs)
    (hs : ∀ o ∈ objs, ∀ a b, entry o.2 a b = entry o.2 b a) (i j : Nat) :
    entry (blockDiag objs) i j = entry (blockDiag objs) j i := by
  induction objs generalizing i j with
  | nil => simp [blockDiag, entry]
  | cons o rest ih =>
    obtain ⟨n, B⟩ := o
    have hB : Dims n B := h (n, B) (by simp)
    rw [blockDiag_cons_entry n B hB, blockDiag_cons_entry n B hB]
    by_cases hi : i < n <;> by_cases hj : j < n
    · simp only [hi, hj, if_true]
      exact hs (n, B) (by simp) i j
    · simp [hi, hj]
    · simp [hi, hj]
    · simp only [hi, hj, if_false]
      exact ih (fun o ho => h o (by simp [ho])) (fun o ho => hs o (by simp [ho])) _ _

/-- the assembled matrix is positive semi-definite when every block is -/
theorem blockDiag_psd [CommSemiring α] [PartialOrder α] [IsOrderedAddMonoid α]
    (objs : List (Nat × List (List α))) (h : AllDims objs)
    (hp : ∀ o ∈ objs, ∀ x : List α, x.length = o.1 → 0 ≤ quad o.2 x)
    (x : List α) (hx : x.length = totalParams objs) : 0 ≤ quad (blockDiag objs) x := by
  induction objs generalizing x with
  | nil =>
    have : x = [] := by simpa [totalParams] using hx
    subst this
    simp [quad, sumRange]
  | cons o rest ih =>
    obtain ⟨n, B⟩ := o
    have hB : Dims n B := h (n, B) (by simp)
    have hlen : x.length = n + totalParams rest := by simpa [totalParams] using hx
    have hsplit : x = x.take n ++ x.drop n := (List.take_append_drop n x).symm
    have h1 : (x.take n).length = n := by simp; omega
    have h2 : (x.drop n).length = totalParams rest := by simp; omega
    rw [hsplit, blockDiag_cons_quad n B hB rest _ _ h1]
    exact add_nonneg (hp (n, B) (by simp) _ h1)
      (ih (fun o ho => h o (by simp [ho])) (fun o ho => hp o (by simp [ho])) _ h2)

end Model
