/-
Proofs/RegularizationDelaunay.lean — C07 composed with C06.f for Delaunay meshes: under Qhull's contract
as C06 states it (the CSR slice of vertex `k` lists exactly the vertices sharing a simplex with `k`, the
slices are complete) plus "no vertex is listed twice in a slice", the table `Mesh2DDelaunay.neighbors`
satisfies the hypotheses `InRange` / `Symmetric` of the C07 theorems.
-/
import Proofs.Regularization
import Proofs.MapperDelaunay
import Model.RegularizationRect

namespace Model
open Mat Spec

/-- a table whose directed pair list has no duplicates and is closed under reversal is `Symmetric` -/
theorem symmetric_of_nodup (n : Nat) (N : List (List Nat)) (S : List Nat)
    (hnd : (edges n N S).Nodup) (hsym : ∀ a b, (a, b) ∈ edges n N S → (b, a) ∈ edges n N S) :
    Spec.Symmetric n N S := by
  unfold Spec.Symmetric
  have hnd' : ((edges n N S).map fun e => (e.2, e.1)).Nodup := by
    rw [List.nodup_iff_pairwise_ne] at hnd ⊢
    apply List.Pairwise.map _ _ hnd
    intro a b hab h
    apply hab
    exact Prod.ext (congrArg Prod.snd h) (congrArg Prod.fst h)
  rw [List.perm_ext_iff_of_nodup hnd' hnd]
  rintro ⟨a, b⟩
  simp only [List.mem_map, Prod.mk.injEq]
  constructor
  · rintro ⟨⟨c, d⟩, he, rfl, rfl⟩
    exact hsym c d he
  · intro h
    exact ⟨(b, a), hsym a b h, rfl, rfl⟩

section

variable (indptr indices : List Nat) (n : Nat)
  (hfull : ∀ k < n, (csrSlice indptr indices k).length = indptr.getD (k + 1) 0 - indptr.getD k 0)

include hfull

theorem delaunayMesh_size (i : Nat) (hi : i < n) :
    (Impl.delaunayMeshSizes indptr indices n).getD i 0 = (csrSlice indptr indices i).length := by
  rw [hfull i hi]
  exact (delaunayNeighbors_row indptr indices n i hi).1

omit hfull in
theorem delaunayMesh_nb (i j : Nat) (hi : i < n) (hj : j < (csrSlice indptr indices i).length) :
    nb (Impl.delaunayMeshNeighbors indptr indices n) i j = (csrSlice indptr indices i)[j] := by
  obtain ⟨_, pad, hrow⟩ := delaunayNeighbors_row indptr indices n i hi
  have hlen : (Impl.delaunayNeighbors indptr indices n).1.length = n := by
    simp [Impl.delaunayNeighbors]
  have hget : (Impl.delaunayNeighbors indptr indices n).1[i]? 
      = some ((csrSlice indptr indices i).map Int.ofNat ++ List.replicate pad (-1)) := by
    rw [← hrow, List.getD_eq_getElem?_getD, List.getElem?_eq_getElem (by rw [hlen]; exact hi)]
    rfl
  simp only [nb, Impl.delaunayMeshNeighbors, pyTable, List.getD_eq_getElem?_getD, List.getElem?_map,
    hget, Option.map_some, Option.getD_some,
    List.getElem?_append_left (show j < ((csrSlice indptr indices i).map Int.ofNat).length by simpa using hj),
    List.getElem?_eq_getElem hj]
  simp [pyIdx]

theorem delaunayMesh_edges :
    edges n (Impl.delaunayMeshNeighbors indptr indices n) (Impl.delaunayMeshSizes indptr indices n)
      = (List.range n).flatMap fun i => (csrSlice indptr indices i).map fun v => (i, v) := by
  unfold edges
  apply List.flatMap_congr
  intro i hi
  have hi' : i < n := List.mem_range.mp hi
  rw [delaunayMesh_size indptr indices n hfull i hi']
  apply List.ext_getElem
  · simp
  · intro j h1 h2
    have hj : j < (csrSlice indptr indices i).length := by simpa using h1
    simp only [List.getElem_map, List.getElem_range]
    rw [delaunayMesh_nb indptr indices n i j hi' hj]

theorem mem_delaunayMesh_edges (a b : Nat) :
    (a, b) ∈ edges n (Impl.delaunayMeshNeighbors indptr indices n)
        (Impl.delaunayMeshSizes indptr indices n)
      ↔ a < n ∧ b ∈ csrSlice indptr indices a := by
  rw [delaunayMesh_edges indptr indices n hfull]
  simp only [List.mem_flatMap, List.mem_range, List.mem_map, Prod.mk.injEq]
  constructor
  · rintro ⟨i, hi, v, hv, rfl, rfl⟩; exact ⟨hi, hv⟩
  · rintro ⟨ha, hb⟩; exact ⟨a, ha, b, hb, rfl, rfl⟩

/-- (Qhull's contract ⇒ C07 hypotheses) the neighbour table of a Delaunay mesh reads only valid vertex
    indices and is symmetric with multiplicity -/
theorem delaunayMesh_wellformed (simplices : List (List Nat))
    (hcontract : ∀ k < n, ∀ j, j ∈ csrSlice indptr indices k ↔
      (j < n ∧ j ≠ k ∧ ∃ s ∈ simplices, k ∈ s ∧ j ∈ s))
    (hnodup : ∀ k < n, (csrSlice indptr indices k).Nodup) :
    (Impl.delaunayMeshNeighbors indptr indices n).length = n
    ∧ InRange n (Impl.delaunayMeshNeighbors indptr indices n) (Impl.delaunayMeshSizes indptr indices n)
    ∧ Spec.Symmetric n (Impl.delaunayMeshNeighbors indptr indices n)
        (Impl.delaunayMeshSizes indptr indices n) := by
  refine ⟨by simp [Impl.delaunayMeshNeighbors, Impl.delaunayNeighbors, pyTable], ?_, ?_⟩
  · rintro ⟨a, b⟩ he
    obtain ⟨ha, hb⟩ := (mem_delaunayMesh_edges indptr indices n hfull a b).mp he
    exact ((hcontract a ha b).mp hb).1
  · apply symmetric_of_nodup
    · rw [delaunayMesh_edges indptr indices n hfull, List.nodup_iff_pairwise_ne, List.pairwise_flatMap]
      constructor
      · intro i hi
        have hi' : i < n := List.mem_range.mp hi
        have := hnodup i hi'
        rw [List.nodup_iff_pairwise_ne] at this
        apply List.Pairwise.map _ _ this
        intro a b hab h
        exact hab (by simpa using h)
      · apply List.Pairwise.imp _ (List.nodup_range (n := n))
        intro i1 i2 hne x hx y hy hxy
        simp only [List.mem_map] at hx hy
        obtain ⟨_, _, rfl⟩ := hx
        obtain ⟨_, _, rfl⟩ := hy
        exact hne (by simpa using congrArg Prod.fst hxy)
    · intro a b he
      obtain ⟨ha, hb⟩ := (mem_delaunayMesh_edges indptr indices n hfull a b).mp he
      obtain ⟨hbn, hne, s, hs, h1, h2⟩ := (hcontract a ha b).mp hb
      exact (mem_delaunayMesh_edges indptr indices n hfull b a).mpr
        ⟨hbn, (hcontract b hbn a).mpr ⟨ha, fun h => hne h.symm, s, hs, h2, h1⟩⟩

end

end Model
