/-
Proofs/RegularizationExpPD.lean — the exponential kernel covariance matrix built by
`exp_cov_matrix_from` (`C_ij = exp(−‖p_i − p_j‖/σ) + ρ·[i = j]`) is positive definite over ℝ, for every
list of points of ℝ² (repetitions allowed), every scale `σ ≥ 0` (σ > 0 in the code; `σ = 0` gives the
all-ones kernel under Lean's `x/0 = 0`) and every ridge `ρ > 0`.

Route (no Fourier analysis): `|a − b|` is conditionally negative definite on ℝ (finite induction on the
smallest point, `RegularizationExpPD1`); the Euclidean norm of ℝ² is an angular average of absolute
values of one-dimensional projections, so the Euclidean distance is conditionally negative definite
(`RegularizationExpPD2`); Schoenberg's step (Schur product theorem + power series of `exp`) turns that
into positive semidefiniteness of `exp(−t‖p − q‖)`, `t ≥ 0`; the ridge makes it strict.
-/
import Proofs.RegularizationExpPD2
import Proofs.RegularizationGaussPD

namespace Model.RegExpPD
open Mat Spec Finset

/-- the exponential kernel of two rows of the point list is `exp(−t·‖p_i − p_j‖)`, `t = 1/σ` -/
theorem expKernel_eq (scale : ℝ) (pts : List (ℝ × ℝ)) (i j : Nat) :
    Impl.expKernel Real.exp scale (Real.sqrt (dist2 pts i j))
      = Real.exp (-(scale⁻¹ * edist (pts.getD i (0, 0)) (pts.getD j (0, 0)))) := by
  unfold Impl.expKernel edist dist2
  congr 1
  rw [div_eq_mul_inv]
  ring

/-- the kernel `exp(−t‖p − q‖)`, `t ≥ 0`, on ℝ² has a non-negative quadratic form (any finite family) -/
theorem expDist_quad_nonneg {ι : Type} [Fintype ι] (t : ℝ) (ht : 0 ≤ t) (p : ι → ℝ × ℝ)
    (x : ι → ℝ) : 0 ≤ ∑ i, ∑ j, x i * x j * Real.exp (-(t * edist (p i) (p j))) :=
  schoenberg edist edist_isCND edist_symm edist_self t ht (0, 0) p x

/-- (e, exponential — kernel part) the exponential kernel matrix `exp(−‖p_i − p_j‖/σ)` of
    `exp_cov_matrix_from` is positive SEMI-definite over ℝ: every list of points (duplicates allowed),
    every coefficient vector, every `σ ≥ 0`, every index range `n` -/
theorem exponential_kernel_psd (scale : ℝ) (hσ : 0 ≤ scale) (pts : List (ℝ × ℝ)) (n : Nat)
    (x : Nat → ℝ) :
    0 ≤ ∑ i ∈ range n, ∑ j ∈ range n,
        x i * x j * Impl.expKernel Real.exp scale (Real.sqrt (dist2 pts i j)) := by
  have h := expDist_quad_nonneg (ι := Fin n) scale⁻¹ (inv_nonneg.mpr hσ)
    (fun i => pts.getD i.val (0, 0)) (fun i => x i.val)
  simp only [expKernel_eq]
  rw [Finset.sum_range]
  refine le_of_le_of_eq h ?_
  apply Finset.sum_congr rfl; intro i _
  rw [Finset.sum_range]

/-- (e, exponential) the covariance matrix of `exp_cov_matrix_from` is positive definite over ℝ -/
theorem exponential_kernel_cov_posdef (scale ridge : ℝ) (hσ : 0 ≤ scale) (hρ : 0 < ridge)
    (pts : List (ℝ × ℝ)) :
    IsPosDef pts.length
      (Impl.covMatrix (Impl.expKernel Real.exp scale) Real.sqrt ridge pts) := by
  intro x hx hx0
  set n := pts.length with hn
  simp only [quad, hx, sumRange_eq_finset]
  have hterm : ∀ i ∈ range n, ∑ j ∈ range n,
        x.getD i 0 * entry (Impl.covMatrix (Impl.expKernel Real.exp scale) Real.sqrt ridge pts) i j
          * x.getD j 0
      = ridge * (x.getD i 0 * x.getD i 0)
        + ∑ j ∈ range n, x.getD i 0 * x.getD j 0
            * Impl.expKernel Real.exp scale (Real.sqrt (dist2 pts i j)) := by
    intro i hi
    have hi' : i < n := Finset.mem_range.mp hi
    have : ∀ j ∈ range n,
        x.getD i 0 * entry (Impl.covMatrix (Impl.expKernel Real.exp scale) Real.sqrt ridge pts) i j
          * x.getD j 0
        = (if i = j then ridge * (x.getD i 0 * x.getD j 0) else 0)
          + x.getD i 0 * x.getD j 0 * Impl.expKernel Real.exp scale (Real.sqrt (dist2 pts i j)) := by
      intro j hj
      rw [covMatrix_entry _ _ _ pts rfl i j hi' (Finset.mem_range.mp hj)]
      by_cases h : i = j <;> simp [h] <;> ring
    rw [Finset.sum_congr rfl this, Finset.sum_add_distrib, Finset.sum_ite_eq]
    simp [hi]
  rw [Finset.sum_congr rfl hterm, Finset.sum_add_distrib, ← Finset.mul_sum]
  have h1 : 0 < ∑ i ∈ range n, x.getD i 0 * x.getD i 0 := by
    have := sumSq_pos x (by rw [hx]; exact hx0)
    simpa [sumSq, hx, sumRange_eq_finset] using this
  have h2 := exponential_kernel_psd scale hσ pts n (fun i => x.getD i 0)
  have := mul_pos hρ h1
  linarith

/-! ### non-vacuity: three concrete source-pixel centres, `σ = 1`, the code's ridge `1e-8` -/

/-- the matrix is genuinely non-diagonal (`C_01 = e^{-1}` for two points at distance 1), positive
    definite, and its quadratic form at `e_0` is strictly positive -/
example :
    let pts : List (ℝ × ℝ) := [(0, 0), (0, 1), (1, 0)]
    let C := Impl.covMatrix (Impl.expKernel Real.exp 1) Real.sqrt (1 / 100000000) pts
    entry C 0 1 = Real.exp (-1) ∧ IsPosDef 3 C ∧ 0 < quad C [1, 0, 0] := by
  intro pts C
  have hpd : IsPosDef 3 C :=
    exponential_kernel_cov_posdef 1 (1 / 100000000) (by norm_num) (by norm_num) pts
  refine ⟨?_, hpd, hpd [1, 0, 0] rfl ⟨0, by norm_num, by simp⟩⟩
  show entry (Impl.covMatrix (Impl.expKernel Real.exp 1) Real.sqrt (1 / 100000000) pts) 0 1 = _
  rw [covMatrix_entry _ _ _ pts rfl 0 1 (by simp [pts]) (by simp [pts])]
  simp [Impl.expKernel, dist2, pts]

end Model.RegExpPD
