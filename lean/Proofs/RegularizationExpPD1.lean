/-
Proofs/RegularizationExpPD1.lean — conditionally negative definite kernels (part 1 of the proof that the
exponential kernel covariance matrix `exp(−‖p_i − p_j‖/σ)` is positive semidefinite).

* `IsCND ψ`: `Σ c_i c_j ψ(p_i,p_j) ≤ 0` for every finite family of points and every real coefficient
  family with `Σ c_i = 0`.
* `minKernel_nonneg`: `min(a_i,a_j)` is a positive semidefinite kernel on the non-negative reals
  (finite proof: remove the smallest point).
* `abs_isCND`: `ψ(a,b) = |a − b|` is conditionally negative definite on ℝ.
* `schoenberg`: if `ψ` is symmetric, vanishes on the diagonal and is conditionally negative definite,
  then `exp(−t ψ)` is a positive semidefinite kernel for every `t ≥ 0` (Schur product theorem
  `Matrix.PosSemidef.hadamard` + the power series of `exp`).
-/
import Mathlib.Analysis.Matrix.Order
import Mathlib.Analysis.SpecialFunctions.Exponential
import Mathlib.Topology.Algebra.InfiniteSum.Order
import Mathlib.Topology.Algebra.InfiniteSum.Ring
import Mathlib.Data.Finset.Max
import Mathlib.Algebra.BigOperators.Option

namespace Model.RegExpPD
open Finset

/-- `ψ` is conditionally negative definite: `Σ_ij c_i c_j ψ(p_i,p_j) ≤ 0` whenever `Σ_i c_i = 0` -/
def IsCND {P : Type} (ψ : P → P → ℝ) : Prop :=
  ∀ (ι : Type) [Fintype ι] (p : ι → P) (c : ι → ℝ), ∑ i, c i = 0 →
    ∑ i, ∑ j, c i * c j * ψ (p i) (p j) ≤ 0

/-! ### step 1: `|a − b|` on ℝ -/

theorem sum_sum_erase {ι : Type} [DecidableEq ι] (s : Finset ι) (m : ι) (f : ι → ι → ℝ)
    (h1 : ∀ j ∈ s, f m j = 0) (h2 : ∀ i ∈ s, f i m = 0) :
    ∑ i ∈ s, ∑ j ∈ s, f i j = ∑ i ∈ s.erase m, ∑ j ∈ s.erase m, f i j := by
  rw [← Finset.sum_erase s (a := m) (Finset.sum_eq_zero h1)]
  apply Finset.sum_congr rfl
  intro i hi
  rw [Finset.sum_erase s (h2 i (Finset.mem_of_mem_erase hi))]

/-- decomposition used in the induction: subtract the value at `m` -/
theorem minKernel_shift {ι : Type} (s : Finset ι) (x a : ι → ℝ) (v : ℝ) :
    ∑ i ∈ s, ∑ j ∈ s, x i * x j * min (a i) (a j)
      = v * ((∑ i ∈ s, x i) * (∑ i ∈ s, x i))
        + ∑ i ∈ s, ∑ j ∈ s, x i * x j * min (a i - v) (a j - v) := by
  have key : ∀ i j, x i * x j * min (a i) (a j)
      = v * (x i * x j) + x i * x j * min (a i - v) (a j - v) := by
    intro i j
    rw [min_sub_sub_right]; ring
  simp only [key, Finset.sum_add_distrib]
  congr 1
  rw [Finset.sum_mul_sum, Finset.mul_sum]
  apply Finset.sum_congr rfl
  intro i _
  rw [Finset.mul_sum]

/-- the Brownian-motion covariance `min(a,b)` is a positive semidefinite kernel on `[0, ∞)` -/
theorem minKernel_nonneg {ι : Type} [DecidableEq ι] (s : Finset ι) (x : ι → ℝ) :
    ∀ a : ι → ℝ, (∀ i ∈ s, 0 ≤ a i) →
      0 ≤ ∑ i ∈ s, ∑ j ∈ s, x i * x j * min (a i) (a j) := by
  induction s using Finset.strongInduction with
  | H s ih =>
    intro a ha
    rcases s.eq_empty_or_nonempty with rfl | hne
    · simp
    obtain ⟨m, hm, hmin⟩ := Finset.exists_min_image s a hne
    rw [minKernel_shift s x a (a m)]
    have ha' : ∀ i ∈ s, 0 ≤ a i - a m := fun i hi => sub_nonneg.mpr (hmin i hi)
    rw [sum_sum_erase s m (fun i j => x i * x j * min (a i - a m) (a j - a m))
      (fun j hj => by simp [min_eq_left (ha' j hj)])
      (fun i hi => by simp [min_eq_right (ha' i hi)])]
    have h2 := ih (s.erase m) (Finset.erase_ssubset hm) (fun i => a i - a m)
      (fun i hi => ha' i (Finset.mem_of_mem_erase hi))
    have h1 : 0 ≤ a m * ((∑ i ∈ s, x i) * (∑ i ∈ s, x i)) :=
      mul_nonneg (ha m hm) (mul_self_nonneg _)
    linarith

/-- … and on all of ℝ for coefficient families of total mass zero -/
theorem minKernel_nonneg_of_sum_zero {ι : Type} [DecidableEq ι] (s : Finset ι) (x a : ι → ℝ)
    (hx : ∑ i ∈ s, x i = 0) :
    0 ≤ ∑ i ∈ s, ∑ j ∈ s, x i * x j * min (a i) (a j) := by
  rcases s.eq_empty_or_nonempty with rfl | hne
  · simp
  obtain ⟨m, hm, hmin⟩ := Finset.exists_min_image s a hne
  rw [minKernel_shift s x a (a m), hx]
  have := minKernel_nonneg s x (fun i => a i - a m) (fun i hi => sub_nonneg.mpr (hmin i hi))
  simpa using this

theorem abs_sub_eq_add_sub_min (a b : ℝ) : |a - b| = a + b - 2 * min a b := by
  rcases le_total a b with h | h
  · rw [min_eq_left h, abs_of_nonpos (sub_nonpos.mpr h)]; ring
  · rw [min_eq_right h, abs_of_nonneg (sub_nonneg.mpr h)]; ring

/-- (step 1) `|a − b|` is conditionally negative definite on ℝ -/
theorem abs_cnd_finset {ι : Type} (s : Finset ι) (c a : ι → ℝ) (hc : ∑ i ∈ s, c i = 0) :
    ∑ i ∈ s, ∑ j ∈ s, c i * c j * |a i - a j| ≤ 0 := by
  classical
  have key : ∀ i j, c i * c j * |a i - a j|
      = c i * a i * c j + c i * (c j * a j) - 2 * (c i * c j * min (a i) (a j)) := by
    intro i j
    rw [abs_sub_eq_add_sub_min]; ring
  simp only [key, Finset.sum_sub_distrib, Finset.sum_add_distrib, ← Finset.mul_sum,
    ← Finset.sum_mul, hc]
  have := minKernel_nonneg_of_sum_zero s c a hc
  simp only [mul_zero, zero_mul] at *
  linarith

theorem abs_isCND : IsCND (fun a b : ℝ => |a - b|) := by
  intro ι _ p c hc
  exact abs_cnd_finset Finset.univ c p hc

/-! ### step 3: Schoenberg — `exp(−tψ)` is positive semidefinite -/

section Schoenberg
variable {P : Type} {ι : Type} [Fintype ι]

/-- quadratic form of a Mathlib positive semidefinite real matrix, as a double sum -/
theorem quad_nonneg_of_posSemidef {A : Matrix ι ι ℝ} (hA : A.PosSemidef) (x : ι → ℝ) :
    0 ≤ ∑ i, ∑ j, x i * x j * A i j := by
  have h := hA.dotProduct_mulVec_nonneg x
  simp only [dotProduct, Matrix.mulVec, star_trivial, Finset.mul_sum] at h
  refine le_of_le_of_eq h ?_
  apply Finset.sum_congr rfl; intro i _
  apply Finset.sum_congr rfl; intro j _
  ring

theorem posSemidef_of_quad_nonneg {A : Matrix ι ι ℝ} (hs : ∀ i j, A i j = A j i)
    (h : ∀ x : ι → ℝ, 0 ≤ ∑ i, ∑ j, x i * x j * A i j) : A.PosSemidef := by
  refine Matrix.PosSemidef.of_dotProduct_mulVec_nonneg ?_ fun x => ?_
  · ext i j
    simp only [Matrix.conjTranspose_apply, star_trivial]
    exact hs j i
  · simp only [dotProduct, Matrix.mulVec, star_trivial, Finset.mul_sum]
    refine le_of_le_of_eq (h x) ?_
    apply Finset.sum_congr rfl; intro i _
    apply Finset.sum_congr rfl; intro j _
    ring

/-- the "centred" kernel `φ(p,q) = ψ(p,p₀) + ψ(q,p₀) − ψ(p,q)` of a conditionally negative definite
    kernel is positive semidefinite -/
theorem centred_quad_nonneg (ψ : P → P → ℝ) (hcnd : IsCND ψ) (hsymm : ∀ p q, ψ p q = ψ q p)
    (hdiag : ∀ p, ψ p p = 0) (p0 : P) (p : ι → P) (x : ι → ℝ) :
    0 ≤ ∑ i, ∑ j, x i * x j * (ψ (p i) p0 + ψ (p j) p0 - ψ (p i) (p j)) := by
  obtain ⟨S, hS⟩ : ∃ S, ∑ i, x i = S := ⟨_, rfl⟩
  have h := hcnd (Option ι) (fun o => o.elim p0 p) (fun o => o.elim (-S) x)
    (by rw [Fintype.sum_option]; simp [hS])
  simp only [Fintype.sum_option, Option.elim_none, Option.elim_some, hdiag, mul_zero, zero_add] at h
  have e1 : ∑ j, -S * x j * ψ p0 (p j) = -(S * ∑ j, x j * ψ (p j) p0) := by
    rw [Finset.mul_sum, ← Finset.sum_neg_distrib]
    apply Finset.sum_congr rfl; intro j _
    rw [hsymm p0 (p j)]; ring
  have e2 : ∑ i, (x i * -S * ψ (p i) p0 + ∑ j, x i * x j * ψ (p i) (p j))
      = -(S * ∑ j, x j * ψ (p j) p0) + ∑ i, ∑ j, x i * x j * ψ (p i) (p j) := by
    rw [Finset.sum_add_distrib, Finset.mul_sum, ← Finset.sum_neg_distrib]
    congr 1
    apply Finset.sum_congr rfl; intro j _
    ring
  have e3 : ∑ i, ∑ j, x i * x j * (ψ (p i) p0 + ψ (p j) p0 - ψ (p i) (p j))
      = 2 * ((∑ i, x i) * ∑ j, x j * ψ (p j) p0) - ∑ i, ∑ j, x i * x j * ψ (p i) (p j) := by
    have key : ∀ i j, x i * x j * (ψ (p i) p0 + ψ (p j) p0 - ψ (p i) (p j))
        = x i * ψ (p i) p0 * x j + x i * (x j * ψ (p j) p0) - x i * x j * ψ (p i) (p j) := by
      intro i j; ring
    simp only [key, Finset.sum_sub_distrib, Finset.sum_add_distrib, ← Finset.mul_sum,
      ← Finset.sum_mul]
    ring
  rw [e1, e2] at h
  rw [e3, hS]
  linarith

/-- entrywise powers of a positive semidefinite matrix are positive semidefinite -/
theorem hadamardPow_posSemidef {A : Matrix ι ι ℝ} (hA : A.PosSemidef) (k : ℕ) :
    (Matrix.of fun i j => A i j ^ k).PosSemidef := by
  induction k with
  | zero =>
    apply posSemidef_of_quad_nonneg (fun i j => rfl)
    intro x
    have : ∑ i, ∑ j, x i * x j * (Matrix.of fun i j => A i j ^ 0) i j
        = (∑ i, x i) * (∑ i, x i) := by
      rw [Finset.sum_mul_sum]
      simp
    rw [this]
    exact mul_self_nonneg _
  | succ k ih =>
    have e : (Matrix.of fun i j => A i j ^ (k + 1))
        = Matrix.hadamard (Matrix.of fun i j => A i j ^ k) A := by
      ext i j
      simp [Matrix.hadamard, pow_succ]
    rw [e]
    exact ih.hadamard hA

/-- the entrywise exponential of a positive semidefinite matrix has a non-negative quadratic form -/
theorem expEntrywise_quad_nonneg {A : Matrix ι ι ℝ} (hA : A.PosSemidef) (t : ℝ) (ht : 0 ≤ t)
    (x : ι → ℝ) : 0 ≤ ∑ i, ∑ j, x i * x j * Real.exp (t * A i j) := by
  have hs : ∀ i j, HasSum (fun k : ℕ => x i * x j * ((t * A i j) ^ k / (k.factorial : ℝ)))
      (x i * x j * Real.exp (t * A i j)) := by
    intro i j
    have := NormedSpace.expSeries_div_hasSum_exp (𝔸 := ℝ) (t * A i j)
    rw [← Real.exp_eq_exp_ℝ] at this
    exact this.mul_left _
  have hsum : HasSum (fun k : ℕ => ∑ i, ∑ j, x i * x j * ((t * A i j) ^ k / (k.factorial : ℝ)))
      (∑ i, ∑ j, x i * x j * Real.exp (t * A i j)) :=
    hasSum_sum fun i _ => hasSum_sum fun j _ => hs i j
  refine hsum.nonneg fun k => ?_
  have : ∑ i, ∑ j, x i * x j * ((t * A i j) ^ k / (k.factorial : ℝ))
      = (t ^ k / (k.factorial : ℝ)) * ∑ i, ∑ j, x i * x j * (Matrix.of fun i j => A i j ^ k) i j := by
    rw [Finset.mul_sum]
    apply Finset.sum_congr rfl; intro i _
    rw [Finset.mul_sum]
    apply Finset.sum_congr rfl; intro j _
    rw [mul_pow, Matrix.of_apply]
    ring
  rw [this]
  exact mul_nonneg (div_nonneg (pow_nonneg ht k) (Nat.cast_nonneg _))
    (quad_nonneg_of_posSemidef (hadamardPow_posSemidef hA k) x)

/-- (step 3, Schoenberg) for a symmetric conditionally negative definite kernel `ψ` vanishing on the
    diagonal, `exp(−tψ)` is a positive semidefinite kernel for every `t ≥ 0` -/
theorem schoenberg (ψ : P → P → ℝ) (hcnd : IsCND ψ) (hsymm : ∀ p q, ψ p q = ψ q p)
    (hdiag : ∀ p, ψ p p = 0) (t : ℝ) (ht : 0 ≤ t) (p0 : P) (p : ι → P) (x : ι → ℝ) :
    0 ≤ ∑ i, ∑ j, x i * x j * Real.exp (-(t * ψ (p i) (p j))) := by
  set A : Matrix ι ι ℝ := Matrix.of fun i j => ψ (p i) p0 + ψ (p j) p0 - ψ (p i) (p j) with hAdef
  have hA : A.PosSemidef := by
    apply posSemidef_of_quad_nonneg
    · intro i j
      simp only [hAdef, Matrix.of_apply]
      rw [hsymm (p i) (p j)]; ring
    · intro y
      exact centred_quad_nonneg ψ hcnd hsymm hdiag p0 p y
  have h := expEntrywise_quad_nonneg hA t ht (fun i => x i * Real.exp (-(t * ψ (p i) p0)))
  refine le_of_le_of_eq h ?_
  apply Finset.sum_congr rfl; intro i _
  apply Finset.sum_congr rfl; intro j _
  have : -(t * ψ (p i) (p j))
      = -(t * ψ (p i) p0) + -(t * ψ (p j) p0) + t * A i j := by
    simp only [hAdef, Matrix.of_apply]; ring
  rw [this, Real.exp_add, Real.exp_add]
  ring

end Schoenberg

end Model.RegExpPD
