/-
Proofs/RegularizationExpPD2.lean — part 2: the Euclidean distance on ℝ² is conditionally negative
definite.

The Euclidean norm is an average of one-dimensional absolute values over all directions:
`∫_0^{2π} |a cos θ + b sin θ| dθ = κ · √(a² + b²)` with `κ = ∫_0^{2π} |cos θ| dθ ≥ π > 0`
(polar form `a = r cos φ`, `b = r sin φ`, then `a cos θ + b sin θ = r cos(θ − φ)` and the integral of a
periodic function over a period does not depend on the starting point). Hence
`κ · Σ c_i c_j ‖p_i − p_j‖ = ∫ Σ c_i c_j |⟨p_i,u_θ⟩ − ⟨p_j,u_θ⟩| dθ ≤ 0` by `abs_cnd_finset`.
-/
import Proofs.RegularizationExpPD1
import Mathlib.Analysis.SpecialFunctions.Integrals.Basic
import Mathlib.MeasureTheory.Integral.IntervalIntegral.Periodic
import Mathlib.Analysis.SpecialFunctions.Complex.Arg

namespace Model.RegExpPD
open Finset Real

/-- Euclidean distance of two points `(y, x)` of ℝ², in the shape computed by the code:
    `sqrt((x_p − x_q)·(x_p − x_q) + (y_p − y_q)·(y_p − y_q))` -/
noncomputable def edist (p q : ℝ × ℝ) : ℝ :=
  Real.sqrt ((p.2 - q.2) * (p.2 - q.2) + (p.1 - q.1) * (p.1 - q.1))

theorem edist_symm (p q : ℝ × ℝ) : edist p q = edist q p := by
  unfold edist; congr 1; ring

theorem edist_self (p : ℝ × ℝ) : edist p p = 0 := by
  unfold edist; simp

/-- the normalising constant `κ = ∫_0^{2π} |cos θ| dθ` (its value is 4; only `κ > 0` is needed) -/
noncomputable def kappa : ℝ := ∫ θ in (0 : ℝ)..2 * π, |cos θ|

theorem kappa_pos : 0 < kappa := by
  have h1 : ∫ θ in (0 : ℝ)..2 * π, cos θ ^ 2 = π := by
    rw [integral_cos_sq]; simp
  have h2 : (∫ θ in (0 : ℝ)..2 * π, cos θ ^ 2) ≤ kappa := by
    apply intervalIntegral.integral_mono_on (by positivity)
    · exact (by fun_prop : Continuous fun θ : ℝ => cos θ ^ 2).intervalIntegrable _ _
    · exact (by fun_prop : Continuous fun θ : ℝ => |cos θ|).intervalIntegrable _ _
    · intro θ _
      rw [← sq_abs]
      have h0 : 0 ≤ |cos θ| := abs_nonneg _
      have h1 : |cos θ| ≤ 1 := abs_cos_le_one θ
      nlinarith
  have := pi_pos
  linarith

theorem abs_cos_periodic : Function.Periodic (fun u : ℝ => |cos u|) (2 * π) := by
  intro u
  simp only [cos_periodic u]

/-- (step 2a) the Euclidean norm as an angular average of absolute values of projections -/
theorem integral_abs_proj (a b : ℝ) :
    ∫ θ in (0 : ℝ)..2 * π, |a * cos θ + b * sin θ| = Real.sqrt (a * a + b * b) * kappa := by
  set z : ℂ := ⟨a, b⟩ with hz
  have hr : ‖z‖ = Real.sqrt (a * a + b * b) := by
    rw [Complex.norm_eq_sqrt_sq_add_sq]; simp [hz, sq]
  have ha : ‖z‖ * cos (Complex.arg z) = a := Complex.norm_mul_cos_arg z
  have hb : ‖z‖ * sin (Complex.arg z) = b := Complex.norm_mul_sin_arg z
  have hθ : ∀ θ : ℝ, |a * cos θ + b * sin θ| = ‖z‖ * |cos (θ - Complex.arg z)| := by
    intro θ
    have e : a * cos θ + b * sin θ = ‖z‖ * cos (θ - Complex.arg z) := by
      calc a * cos θ + b * sin θ
          = (‖z‖ * cos (Complex.arg z)) * cos θ + (‖z‖ * sin (Complex.arg z)) * sin θ := by
            rw [ha, hb]
        _ = _ := by rw [cos_sub]; ring
    rw [e, abs_mul, abs_of_nonneg (norm_nonneg z)]
  simp only [hθ]
  rw [intervalIntegral.integral_const_mul, hr]
  congr 1
  rw [intervalIntegral.integral_comp_sub_right (fun u => |cos u|) (Complex.arg z)]
  have := abs_cos_periodic.intervalIntegral_add_eq (0 - Complex.arg z) 0
  rw [show 2 * π - Complex.arg z = 0 - Complex.arg z + 2 * π by ring, this, zero_add]
  rfl

/-- (step 2) the Euclidean distance on ℝ² is conditionally negative definite -/
theorem edist_isCND : IsCND edist := by
  intro ι _ p c hc
  -- projections on the direction `θ`
  let a : ℝ → ι → ℝ := fun θ i => (p i).2 * cos θ + (p i).1 * sin θ
  have hint : ∀ i j, IntervalIntegrable (fun θ => c i * c j * |a θ i - a θ j|)
      MeasureTheory.volume 0 (2 * π) := by
    intro i j
    exact (by fun_prop : Continuous fun θ : ℝ => c i * c j * |a θ i - a θ j|).intervalIntegrable _ _
  have hint' : ∀ i, IntervalIntegrable (fun θ => ∑ j, c i * c j * |a θ i - a θ j|)
      MeasureTheory.volume 0 (2 * π) := by
    intro i
    exact (by fun_prop : Continuous fun θ : ℝ => ∑ j, c i * c j * |a θ i - a θ j|).intervalIntegrable _ _
  have hterm : ∀ i j, ∫ θ in (0 : ℝ)..2 * π, c i * c j * |a θ i - a θ j|
      = kappa * (c i * c j * edist (p i) (p j)) := by
    intro i j
    rw [intervalIntegral.integral_const_mul]
    have : ∀ θ, a θ i - a θ j = ((p i).2 - (p j).2) * cos θ + ((p i).1 - (p j).1) * sin θ := by
      intro θ; simp only [a]; ring
    simp only [this]
    rw [integral_abs_proj, edist]
    ring
  have hI : ∫ θ in (0 : ℝ)..2 * π, ∑ i, ∑ j, c i * c j * |a θ i - a θ j|
      = kappa * ∑ i, ∑ j, c i * c j * edist (p i) (p j) := by
    rw [intervalIntegral.integral_finsetSum (fun i _ => hint' i), Finset.mul_sum]
    apply Finset.sum_congr rfl; intro i _
    rw [intervalIntegral.integral_finsetSum (fun j _ => hint i j), Finset.mul_sum]
    apply Finset.sum_congr rfl; intro j _
    exact hterm i j
  have hle : ∫ θ in (0 : ℝ)..2 * π, ∑ i, ∑ j, c i * c j * |a θ i - a θ j| ≤ 0 := by
    have h := intervalIntegral.integral_nonneg (μ := MeasureTheory.volume)
      (f := fun θ => -∑ i, ∑ j, c i * c j * |a θ i - a θ j|) (a := 0) (b := 2 * π)
      (by positivity)
      (fun θ _ => neg_nonneg.mpr (abs_cnd_finset Finset.univ c (a θ) hc))
    rw [intervalIntegral.integral_neg] at h
    linarith
  rw [hI] at hle
  by_contra hcon
  have := mul_pos kappa_pos (not_le.mp hcon)
  linarith

end Model.RegExpPD
