/-
Proofs/RegularizationGaussPD.lean — the Gaussian kernel covariance matrix built by
`gauss_cov_matrix_from` is positive definite over ℝ, for every list of points (repetitions allowed),
every scale and every ridge > 0.

Route: `exp(−c|p−q|²) = u(p) u(q) exp(2c⟨p,q⟩)`; `⟨p,q⟩^k = Σ_m C(k,m) (p₁^m p₂^{k−m})(q₁^m q₂^{k−m})` (binomial
theorem, so every power kernel is a sum of squares — no Schur product theorem needed in two
dimensions); `exp` is the sum of its power series (`NormedSpace.expSeries_div_hasSum_exp`), a series of
non-negative quadratic forms has a non-negative sum; congruence by the positive diagonal `u`; the
ridge makes it strict.
-/
import Proofs.RegularizationKernel
import Mathlib.Analysis.SpecialFunctions.Exponential
import Mathlib.Analysis.Real.Sqrt
import Mathlib.Topology.Algebra.InfiniteSum.Order
import Mathlib.Topology.Algebra.InfiniteSum.Ring

namespace Model
open Mat Spec Finset

/-- the `k`-th power of the dot-product kernel is a sum of squares -/
theorem powKernel_nonneg (n k : Nat) (x a b : Nat → ℝ) :
    0 ≤ ∑ i ∈ range n, ∑ j ∈ range n, x i * x j * (a i * a j + b i * b j) ^ k := by
  have h1 : ∀ i j, x i * x j * (a i * a j + b i * b j) ^ k
      = ∑ m ∈ range (k + 1), (k.choose m : ℝ)
          * ((x i * (a i ^ m * b i ^ (k - m))) * (x j * (a j ^ m * b j ^ (k - m)))) := by
    intro i j
    rw [add_pow, Finset.mul_sum]
    apply Finset.sum_congr rfl
    intro m _
    rw [mul_pow, mul_pow]
    ring
  have h2 : ∑ i ∈ range n, ∑ j ∈ range n, x i * x j * (a i * a j + b i * b j) ^ k
      = ∑ m ∈ range (k + 1), (k.choose m : ℝ)
          * ((∑ i ∈ range n, x i * (a i ^ m * b i ^ (k - m)))
            * (∑ j ∈ range n, x j * (a j ^ m * b j ^ (k - m)))) := by
    simp only [h1]
    rw [Finset.sum_congr rfl fun i _ => Finset.sum_comm]
    rw [Finset.sum_comm]
    apply Finset.sum_congr rfl
    intro m _
    rw [Finset.sum_mul_sum, Finset.mul_sum]
    apply Finset.sum_congr rfl
    intro i _
    rw [Finset.mul_sum]
  rw [h2]
  exact Finset.sum_nonneg fun m _ => mul_nonneg (Nat.cast_nonneg _) (mul_self_nonneg _)

/-- the exponential of the dot-product kernel has a non-negative quadratic form -/
theorem expKernel_nonneg (n : Nat) (t : ℝ) (ht : 0 ≤ t) (x a b : Nat → ℝ) :
    0 ≤ ∑ i ∈ range n, ∑ j ∈ range n, x i * x j * Real.exp (t * (a i * a j + b i * b j)) := by
  have hs : ∀ i j, HasSum (fun k : ℕ => x i * x j * ((t * (a i * a j + b i * b j)) ^ k / (k.factorial : ℝ)))
      (x i * x j * Real.exp (t * (a i * a j + b i * b j))) := by
    intro i j
    have := NormedSpace.expSeries_div_hasSum_exp (𝔸 := ℝ) (t * (a i * a j + b i * b j))
    rw [← Real.exp_eq_exp_ℝ] at this
    exact this.mul_left _
  have hsum : HasSum (fun k : ℕ => ∑ i ∈ range n, ∑ j ∈ range n,
        x i * x j * ((t * (a i * a j + b i * b j)) ^ k / (k.factorial : ℝ)))
      (∑ i ∈ range n, ∑ j ∈ range n, x i * x j * Real.exp (t * (a i * a j + b i * b j))) :=
    hasSum_sum fun i _ => hasSum_sum fun j _ => hs i j
  refine hsum.nonneg fun k => ?_
  have : ∑ i ∈ range n, ∑ j ∈ range n,
        x i * x j * ((t * (a i * a j + b i * b j)) ^ k / (k.factorial : ℝ))
      = (t ^ k / (k.factorial : ℝ))
          * ∑ i ∈ range n, ∑ j ∈ range n, x i * x j * (a i * a j + b i * b j) ^ k := by
    rw [Finset.mul_sum]
    apply Finset.sum_congr rfl
    intro i _
    rw [Finset.mul_sum]
    apply Finset.sum_congr rfl
    intro j _
    rw [mul_pow]
    ring
  rw [this]
  exact mul_nonneg (div_nonneg (pow_nonneg ht k) (Nat.cast_nonneg _)) (powKernel_nonneg n k x a b)

/-- the Gaussian kernel `exp(−c|p−q|²)`, `c ≥ 0`, has a non-negative quadratic form -/
theorem gaussQuad_nonneg (n : Nat) (c : ℝ) (hc : 0 ≤ c) (x a b : Nat → ℝ) :
    0 ≤ ∑ i ∈ range n, ∑ j ∈ range n,
        x i * x j * Real.exp (-(c * ((a i - a j) * (a i - a j) + (b i - b j) * (b i - b j)))) := by
  have h := expKernel_nonneg n (2 * c) (by linarith)
    (fun i => x i * Real.exp (-(c * (a i * a i + b i * b i)))) a b
  have e : ∀ i j, x i * x j * Real.exp (-(c * ((a i - a j) * (a i - a j) + (b i - b j) * (b i - b j))))
      = (x i * Real.exp (-(c * (a i * a i + b i * b i))))
        * (x j * Real.exp (-(c * (a j * a j + b j * b j))))
        * Real.exp (2 * c * (a i * a j + b i * b j)) := by
    intro i j
    have : -(c * ((a i - a j) * (a i - a j) + (b i - b j) * (b i - b j)))
        = -(c * (a i * a i + b i * b i)) + -(c * (a j * a j + b j * b j))
          + 2 * c * (a i * a j + b i * b j) := by ring
    rw [this, Real.exp_add, Real.exp_add]
    ring
  simp only [e]
  exact h

/-- (e, Gaussian) the covariance matrix of `gauss_cov_matrix_from` is positive definite over ℝ -/
theorem gaussCov_posdef (scale ridge : ℝ) (hρ : 0 < ridge) (pts : List (ℝ × ℝ)) :
    IsPosDef pts.length
      (Impl.covMatrix (Impl.gaussKernel Real.exp scale) Real.sqrt ridge pts) := by
  intro x hx hx0
  set n := pts.length with hn
  set c : ℝ := ((1 + 1) * (scale * scale))⁻¹ with hc
  have hc0 : 0 ≤ c := inv_nonneg.mpr (mul_nonneg (by norm_num) (mul_self_nonneg _))
  have hd : ∀ i j, 0 ≤ dist2 pts i j := fun i j =>
    add_nonneg (mul_self_nonneg _) (mul_self_nonneg _)
  have hK : ∀ i j, Impl.gaussKernel Real.exp scale (Real.sqrt (dist2 pts i j))
      = Real.exp (-(c * dist2 pts i j)) := by
    intro i j
    unfold Impl.gaussKernel
    rw [Real.mul_self_sqrt (hd i j)]
    congr 1
    rw [hc, div_eq_mul_inv]
    ring
  simp only [quad, hx, sumRange_eq_finset]
  have hterm : ∀ i ∈ range n, ∑ j ∈ range n,
        x.getD i 0 * entry (Impl.covMatrix (Impl.gaussKernel Real.exp scale) Real.sqrt ridge pts) i j
          * x.getD j 0
      = ridge * (x.getD i 0 * x.getD i 0)
        + ∑ j ∈ range n, x.getD i 0 * x.getD j 0 * Real.exp (-(c * dist2 pts i j)) := by
    intro i hi
    have hi' : i < n := Finset.mem_range.mp hi
    have : ∀ j ∈ range n,
        x.getD i 0 * entry (Impl.covMatrix (Impl.gaussKernel Real.exp scale) Real.sqrt ridge pts) i j
          * x.getD j 0
        = (if i = j then ridge * (x.getD i 0 * x.getD j 0) else 0)
          + x.getD i 0 * x.getD j 0 * Real.exp (-(c * dist2 pts i j)) := by
      intro j hj
      rw [covMatrix_entry _ _ _ pts rfl i j hi' (Finset.mem_range.mp hj), hK]
      by_cases h : i = j <;> simp [h] <;> ring
    rw [Finset.sum_congr rfl this, Finset.sum_add_distrib, Finset.sum_ite_eq]
    simp [hi]
  rw [Finset.sum_congr rfl hterm, Finset.sum_add_distrib, ← Finset.mul_sum]
  have h1 : 0 < ∑ i ∈ range n, x.getD i 0 * x.getD i 0 := by
    have := sumSq_pos x (by rw [hx]; exact hx0)
    simpa [sumSq, hx, sumRange_eq_finset] using this
  have h2 : 0 ≤ ∑ i ∈ range n, ∑ j ∈ range n,
      x.getD i 0 * x.getD j 0 * Real.exp (-(c * dist2 pts i j)) := by
    have := gaussQuad_nonneg n c hc0 (fun i => x.getD i 0)
      (fun i => (pts.getD i (0, 0)).2) (fun i => (pts.getD i (0, 0)).1)
    simpa [dist2] using this
  have := mul_pos hρ h1
  linarith

end Model
