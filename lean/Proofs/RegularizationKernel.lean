/-
Proofs/RegularizationKernel.lean — kernel schemes (`GaussianKernel`, `ExponentialKernel`):
entries / symmetry / diagonal of the covariance matrix built by the double loop, and the conditional
statement "if the covariance matrix is positive definite then `coefficient · inv(C)` is symmetric
positive definite" (via Mathlib's `Matrix.PosDef.inv`).
-/
import Proofs.Regularization
import Mathlib.LinearAlgebra.Matrix.PosDef
import Mathlib.LinearAlgebra.Matrix.NonsingularInverse
import Mathlib.Algebra.BigOperators.Fin

namespace Model
open Mat Spec

variable {α : Type}

/-! ### the covariance loop -/

/-- squared distance argument handed to `sqrt`: `(xi - xj)**2 + (yi - yj)**2` -/
def dist2 [Add α] [Sub α] [Mul α] [Zero α] (points : List (α × α)) (i j : Nat) : α :=
  ((points.getD i (0, 0)).2 - (points.getD j (0, 0)).2)
      * ((points.getD i (0, 0)).2 - (points.getD j (0, 0)).2)
    + ((points.getD i (0, 0)).1 - (points.getD j (0, 0)).1)
      * ((points.getD i (0, 0)).1 - (points.getD j (0, 0)).1)

theorem covMatrix_linfun [CommRing α] {n : Nat} {Φ : List (List α) → α} {φ : Nat → Nat → α}
    (hΦ : LinFun n Φ φ) (k sqrt : α → α) (ρ : α) (pts : List (α × α)) (hn : pts.length = n) :
    Dims n (Impl.covMatrix k sqrt ρ pts) ∧
    Φ (Impl.covMatrix k sqrt ρ pts) = Φ (zeros n n)
      + sumRange n fun i => (φ i i * ρ + sumRange n fun j => φ i j * k (sqrt (dist2 pts i j))) := by
  unfold Impl.covMatrix
  simp only [hn]
  apply foldl_range_linfun Φ _ _ n _ _ (dims_zeros n)
  intro M i hi hM
  have h0 := dims_addAt hM i i ρ
  have h := foldl_range_linfun Φ
    (fun M j => addAt M i j (k (sqrt (dist2 pts i j))))
    (fun j => φ i j * k (sqrt (dist2 pts i j))) n
    (fun M j hj hM => ⟨dims_addAt hM _ _ _, hΦ _ _ _ _ hM hi hj⟩)
    (addAt M i i ρ) h0
  refine ⟨h.1, ?_⟩
  have e : ∀ M : List (List α),
      (List.range n).foldl (fun M j => addAt M i j (k (sqrt (dist2 pts i j)))) M
      = (List.range n).foldl (fun M j => addAt M i j (k (sqrt
          (((pts.getD i (0, 0)).2 - (pts.getD j (0, 0)).2)
              * ((pts.getD i (0, 0)).2 - (pts.getD j (0, 0)).2)
            + ((pts.getD i (0, 0)).1 - (pts.getD j (0, 0)).1)
              * ((pts.getD i (0, 0)).1 - (pts.getD j (0, 0)).1))))) M := fun _ => rfl
  rw [← e, h.2, hΦ _ _ _ _ hM hi hi, add_assoc]

theorem sumRange_ite_and [CommRing α] (n a b : Nat) (ha : a < n) (hb : b < n) (f : Nat → Nat → α) :
    sumRange n (fun i => sumRange n fun j => (if i = a ∧ j = b then (1 : α) else 0) * f i j)
      = f a b := by
  have h1 : ∀ i, sumRange n (fun j => (if i = a ∧ j = b then (1 : α) else 0) * f i j)
      = if a = i then f i b else 0 := by
    intro i
    by_cases hia : i = a
    · subst hia
      simp only [true_and, if_true]
      refine Eq.trans (sumRange_congr n _ (fun j => if b = j then f i j else 0) ?_)
        (sumRange_ite_eq n b hb (fun j => f i j))
      intro j _
      by_cases hj : j = b
      · subst hj; simp
      · have : ¬ b = j := fun h => hj h.symm
        simp [hj, this]
    · have : ¬ a = i := fun h => hia h.symm
      simp only [hia, false_and, if_false, zero_mul, this]
      exact sumRange_zero n
  simp only [h1]
  exact sumRange_ite_eq n a ha (fun i => f i b)

/-- (e) entries of the covariance matrix: kernel value plus the ridge on the diagonal -/
theorem covMatrix_entry [CommRing α] {n : Nat} (k sqrt : α → α) (ρ : α) (pts : List (α × α))
    (hn : pts.length = n) (a b : Nat) (ha : a < n) (hb : b < n) :
    entry (Impl.covMatrix k sqrt ρ pts) a b
      = (if a = b then ρ else 0) + k (sqrt (dist2 pts a b)) := by
  rw [(covMatrix_linfun (linfun_entry n a b) k sqrt ρ pts hn).2, entry_zeros, zero_add,
    sumRange_add, sumRange_ite_and n a b ha hb (fun i j => k (sqrt (dist2 pts i j)))]
  congr 1
  by_cases hab : a = b
  · subst hab
    simp only [and_self, if_true]
    refine Eq.trans (sumRange_congr n _ (fun i => if a = i then ρ else 0) ?_)
      (sumRange_ite_eq n a ha (fun _ => ρ))
    intro i _
    by_cases hi : i = a
    · subst hi; simp
    · have : ¬ a = i := fun h => hi h.symm
      simp [hi, this]
  · rw [if_neg hab]
    refine Eq.trans (sumRange_congr n _ (fun _ => (0 : α)) ?_) (sumRange_zero n)
    intro i _
    have : ¬ (i = a ∧ i = b) := by rintro ⟨rfl, rfl⟩; exact hab rfl
    simp [this]

theorem dist2_symm [CommRing α] (pts : List (α × α)) (a b : Nat) : dist2 pts a b = dist2 pts b a := by
  unfold dist2; ring

theorem dist2_self [CommRing α] (pts : List (α × α)) (a : Nat) : dist2 pts a a = 0 := by
  unfold dist2; ring

/-- (e) the covariance matrix is symmetric -/
theorem covMatrix_symm [CommRing α] {n : Nat} (k sqrt : α → α) (ρ : α) (pts : List (α × α))
    (hn : pts.length = n) (a b : Nat) (ha : a < n) (hb : b < n) :
    entry (Impl.covMatrix k sqrt ρ pts) a b = entry (Impl.covMatrix k sqrt ρ pts) b a := by
  rw [covMatrix_entry k sqrt ρ pts hn a b ha hb, covMatrix_entry k sqrt ρ pts hn b a hb ha,
    dist2_symm pts a b]
  simp only [eq_comm]

/-! ### bridge to Mathlib matrices, and the conditional positive-definiteness of the inverse -/

/-- `C·B = I` on the index range `< n` — the contract of `B = np.linalg.inv(C)` -/
def IsRightInverse [Add α] [Mul α] [Zero α] [One α] (n : Nat) (C B : List (List α)) : Prop :=
  ∀ i j, i < n → j < n →
    sumRange n (fun k => entry C i k * entry B k j) = if i = j then 1 else 0

/-- symmetric on the index range `< n` -/
def IsSymm [Zero α] (n : Nat) (M : List (List α)) : Prop :=
  ∀ i j, i < n → j < n → entry M i j = entry M j i

/-- `xᵀ M x > 0` for every non-zero `x` of length `n` -/
def IsPosDef [Add α] [Mul α] [Zero α] [LT α] (n : Nat) (M : List (List α)) : Prop :=
  ∀ x : List α, x.length = n → (∃ i, i < n ∧ x.getD i 0 ≠ 0) → 0 < quad M x

def toMatrix [Zero α] (n : Nat) (M : List (List α)) : Matrix (Fin n) (Fin n) α :=
  Matrix.of fun i j => entry M i.val j.val

def toVec [Zero α] (n : Nat) (x : List α) : Fin n → α := fun i => x.getD i.val 0

theorem quad_eq_dot [CommRing α] {n : Nat} (M : List (List α)) (x : List α) (hx : x.length = n) :
    quad M x = toVec n x ⬝ᵥ (toMatrix n M).mulVec (toVec n x) := by
  simp only [quad, hx, sumRange_eq_finset, dotProduct, Matrix.mulVec, toVec, toMatrix,
    Matrix.of_apply, Finset.sum_range, Finset.mul_sum, mul_assoc]

theorem toVec_ofFn [Zero α] {n : Nat} (v : Fin n → α) : toVec n (List.ofFn v) = v := by
  funext i
  simp [toVec, List.getD_eq_getElem?_getD]

theorem inv_symm_posdef [Field α] [LinearOrder α] [IsStrictOrderedRing α] {n : Nat}
    (C B : List (List α)) (hsymm : IsSymm n C) (hpd : IsPosDef n C) (hinv : IsRightInverse n C B) :
    IsSymm n B ∧ IsPosDef n B := by
  let _ : StarRing α := starRingOfComm
  have hstar : ∀ a : α, star a = a := fun _ => rfl
  have hstarv : ∀ v : Fin n → α, star v = v := fun v => by funext i; exact hstar _
  -- C as a Mathlib matrix is positive definite
  have hH : (toMatrix n C).IsHermitian := by
    ext i j
    simp only [Matrix.conjTranspose_apply, toMatrix, Matrix.of_apply, hstar]
    exact hsymm j.val i.val j.isLt i.isLt
  have hC : (toMatrix n C).PosDef := by
    apply Matrix.PosDef.of_dotProduct_mulVec_pos hH
    intro v hv
    rw [hstarv]
    have hlen : (List.ofFn v).length = n := by simp
    have hne : ∃ i, i < n ∧ (List.ofFn v).getD i 0 ≠ 0 := by
      by_contra hcon
      apply hv
      funext i
      by_contra hi
      apply hcon
      refine ⟨i.val, i.isLt, ?_⟩
      have := congrFun (toVec_ofFn v) i
      simp only [toVec] at this
      rw [this]
      exact hi
    have := hpd (List.ofFn v) hlen hne
    rw [quad_eq_dot C _ hlen, toVec_ofFn] at this
    exact this
  -- B is its inverse
  have hmul : toMatrix n C * toMatrix n B = 1 := by
    ext i j
    rw [Matrix.mul_apply, Matrix.one_apply]
    have := hinv i.val j.val i.isLt j.isLt
    rw [sumRange_eq_finset, Finset.sum_range] at this
    simp only [toMatrix, Matrix.of_apply]
    rw [this]
    simp only [Fin.ext_iff]
  have hB : (toMatrix n B).PosDef := by
    rw [← Matrix.inv_eq_right_inv hmul]
    exact hC.inv
  constructor
  · intro i j hi hj
    have := congrFun (congrFun hB.1 ⟨i, hi⟩) ⟨j, hj⟩
    simp only [Matrix.conjTranspose_apply, toMatrix, Matrix.of_apply, hstar] at this
    exact this.symm
  · intro x hx hx0
    rw [quad_eq_dot B x hx]
    have hv : toVec n x ≠ 0 := by
      obtain ⟨i, hi, hne⟩ := hx0
      intro h
      exact hne (congrFun h ⟨i, hi⟩)
    have := hB.dotProduct_mulVec_pos hv
    rw [hstarv] at this
    exact this

end Model
