/-
Proofs/RegularizationMatern.lean — Matérn kernel covariance matrix
(`autoarray/inversion/regularization/matern_kernel.py`, model: Model/RegularizationMatern.lean).

* refinement, all sizes: `Impl.maternCov = Spec.maternCov` (`maternCov_refines`): the double loop produces
  the `n × n` matrix whose entry `(i, j)` is `matern_kernel(sqrt((xi-xj)² + (yi-yj)²))`, plus the ridge
  `1e-8` on the diagonal;
* symmetry (`maternCov_symm`, `impl_maternCov_symm`): entry `(i, j)` = entry `(j, i)`;
* diagonal (`maternCov_diag`): ridge + kernel at `sqrt 0`.

NOTHING is assumed about the oracles `sqrt gamma kv rpow` (arbitrary functions).  The number type is a
commutative ring (plus arbitrary `/`, `<`, `==`): the loop starts from `np.zeros` and accumulates with `+=`
(`0 + x = x`), and the symmetry of the distance argument needs `(x - y)² = (y - x)²`.  The minimal
algebraic hypothesis for the symmetry of the closed form is stated separately (`maternEntry_symm_of`):
`∀ x y, (x - y) * (x - y) = (y - x) * (y - x)`.
-/
import Model.RegularizationMatern
import Proofs.RegularizationKernel
import Mathlib.Tactic.Ring

namespace Model
open Mat

variable {α : Type}

/-- the distance argument of the spec is the `dist2` of Proofs/RegularizationKernel.lean -/
theorem maternDist2_eq_dist2 [Add α] [Sub α] [Mul α] [Zero α] (pts : List (α × α)) (i j : Nat) :
    Spec.maternDist2 pts i j = dist2 pts i j := rfl

/-- two `n × n` matrices with the same entries are equal -/
theorem mat_ext_entry [Zero α] {n : Nat} {M M' : List (List α)} (hM : Dims n M) (hM' : Dims n M')
    (h : ∀ a b, a < n → b < n → entry M a b = entry M' a b) : M = M' := by
  apply List.ext_getElem (by rw [hM.1, hM'.1])
  intro a h1 h2
  have ha : a < n := by rw [← hM.1]; exact h1
  have r1 := hM.2 _ (List.getElem_mem h1)
  have r2 := hM'.2 _ (List.getElem_mem h2)
  apply List.ext_getElem (by rw [r1, r2])
  intro b h3 h4
  have hb : b < n := by rw [← r1]; exact h3
  have := h a b ha hb
  unfold entry at this
  simpa [List.getD_eq_getElem?_getD, List.getElem?_eq_getElem h1, List.getElem?_eq_getElem h2,
    List.getElem?_eq_getElem h3, List.getElem?_eq_getElem h4] using this

/-! ### the closed form -/

section spec
variable [Add α] [Sub α] [Mul α] [Div α] [Neg α] [Zero α] [One α] [LT α] [DecidableLT α] [BEq α]
  (sqrt gamma : α → α) (kv rpow : α → α → α) (tiny ridge scale nu : α) (pts : List (α × α))

theorem spec_maternCov_dims :
    Dims pts.length (Spec.maternCov sqrt gamma kv rpow tiny ridge scale nu pts) := by
  refine ⟨by simp [Spec.maternCov], ?_⟩
  intro r hr
  simp only [Spec.maternCov, List.mem_map] at hr
  obtain ⟨i, _, rfl⟩ := hr
  simp

theorem spec_maternCov_entry (a b : Nat) (ha : a < pts.length) (hb : b < pts.length) :
    entry (Spec.maternCov sqrt gamma kv rpow tiny ridge scale nu pts) a b
      = Spec.maternEntry sqrt gamma kv rpow tiny ridge scale nu pts a b := by
  unfold Spec.maternCov entry
  simp [List.getD_eq_getElem?_getD, ha, hb]

/-- symmetry of the closed form under the minimal algebraic hypothesis: squares of differences do not
    depend on the order of the operands.  No hypothesis on the oracles. -/
theorem maternEntry_symm_of (hsq : ∀ x y : α, (x - y) * (x - y) = (y - x) * (y - x)) (a b : Nat) :
    Spec.maternEntry sqrt gamma kv rpow tiny ridge scale nu pts a b
      = Spec.maternEntry sqrt gamma kv rpow tiny ridge scale nu pts b a := by
  unfold Spec.maternEntry
  have hd : Spec.maternDist2 pts a b = Spec.maternDist2 pts b a := by
    unfold Spec.maternDist2
    rw [hsq (pts.getD a (0, 0)).2, hsq (pts.getD a (0, 0)).1]
  rw [hd]
  by_cases hab : a = b
  · subst hab; rfl
  · have hba : ¬ b = a := fun h => hab h.symm
    rw [if_neg hab, if_neg hba]

end spec

/-! ### over a commutative ring (arbitrary `/`, `<`, `==`, arbitrary oracles) -/

section ring
variable [CommRing α] [Div α] [LT α] [DecidableLT α] [BEq α]
  (sqrt gamma : α → α) (kv rpow : α → α → α) (tiny ridge scale nu : α) (pts : List (α × α))

theorem impl_maternCov_dims :
    Dims pts.length (Impl.maternCov sqrt gamma kv rpow tiny ridge scale nu pts) := by
  rw [Impl.maternCov_eq_covMatrix]
  exact (covMatrix_linfun (linfun_entry pts.length 0 0) _ sqrt ridge pts rfl).1

/-- entries of the matrix built by the double loop -/
theorem impl_maternCov_entry (a b : Nat) (ha : a < pts.length) (hb : b < pts.length) :
    entry (Impl.maternCov sqrt gamma kv rpow tiny ridge scale nu pts) a b
      = Spec.maternEntry sqrt gamma kv rpow tiny ridge scale nu pts a b := by
  rw [Impl.maternCov_eq_covMatrix, covMatrix_entry _ sqrt ridge pts rfl a b ha hb]
  rfl

/-- REFINEMENT (all sizes): the loop transliteration is the closed form -/
theorem maternCov_refines :
    Impl.maternCov sqrt gamma kv rpow tiny ridge scale nu pts
      = Spec.maternCov sqrt gamma kv rpow tiny ridge scale nu pts := by
  refine mat_ext_entry (impl_maternCov_dims sqrt gamma kv rpow tiny ridge scale nu pts)
    (spec_maternCov_dims sqrt gamma kv rpow tiny ridge scale nu pts) ?_
  intro a b ha hb
  rw [impl_maternCov_entry sqrt gamma kv rpow tiny ridge scale nu pts a b ha hb,
    spec_maternCov_entry sqrt gamma kv rpow tiny ridge scale nu pts a b ha hb]

theorem maternEntry_symm (a b : Nat) :
    Spec.maternEntry sqrt gamma kv rpow tiny ridge scale nu pts a b
      = Spec.maternEntry sqrt gamma kv rpow tiny ridge scale nu pts b a :=
  maternEntry_symm_of sqrt gamma kv rpow tiny ridge scale nu pts (fun x y => by ring) a b

/-- the Matérn covariance matrix is symmetric, whatever the oracles are -/
theorem maternCov_symm :
    IsSymm pts.length (Spec.maternCov sqrt gamma kv rpow tiny ridge scale nu pts) := by
  intro a b ha hb
  rw [spec_maternCov_entry sqrt gamma kv rpow tiny ridge scale nu pts a b ha hb,
    spec_maternCov_entry sqrt gamma kv rpow tiny ridge scale nu pts b a hb ha]
  exact maternEntry_symm sqrt gamma kv rpow tiny ridge scale nu pts a b

/-- … and so is the matrix the loops build -/
theorem impl_maternCov_symm :
    IsSymm pts.length (Impl.maternCov sqrt gamma kv rpow tiny ridge scale nu pts) := by
  rw [maternCov_refines]
  exact maternCov_symm sqrt gamma kv rpow tiny ridge scale nu pts

/-- the diagonal: the ridge plus the kernel at `sqrt 0` (where `matern_kernel` replaces a zero distance
    by `tiny`, if `sqrt 0 == 0`) -/
theorem maternCov_diag (a : Nat) (ha : a < pts.length) :
    entry (Spec.maternCov sqrt gamma kv rpow tiny ridge scale nu pts) a a
      = ridge + Impl.maternKernel sqrt gamma kv rpow tiny (sqrt 0) scale nu := by
  rw [spec_maternCov_entry sqrt gamma kv rpow tiny ridge scale nu pts a a ha ha]
  unfold Spec.maternEntry
  rw [if_pos rfl, maternDist2_eq_dist2, dist2_self]

/-- off the diagonal: the kernel value alone -/
theorem maternCov_offdiag (a b : Nat) (ha : a < pts.length) (hb : b < pts.length) (hab : a ≠ b) :
    entry (Spec.maternCov sqrt gamma kv rpow tiny ridge scale nu pts) a b
      = Impl.maternKernel sqrt gamma kv rpow tiny (sqrt (Spec.maternDist2 pts a b)) scale nu := by
  rw [spec_maternCov_entry sqrt gamma kv rpow tiny ridge scale nu pts a b ha hb]
  unfold Spec.maternEntry
  rw [if_neg hab, zero_add]

end ring

/-! ### non-vacuity: a concrete instance (`α := Int`, arbitrary computable stand-ins for the oracles) -/

example :
    Impl.maternCov (α := Int) (fun x => x + 3) (fun x => x * x + 1) (fun a b => a - 2 * b)
        (fun a b => a * b + 7) 5 11 2 3 [(0, 0), (1, 2), (-4, 5)]
      = Spec.maternCov (fun x => x + 3) (fun x => x * x + 1) (fun a b => a - 2 * b)
        (fun a b => a * b + 7) 5 11 2 3 [(0, 0), (1, 2), (-4, 5)] := by decide

end Model
