/-
Proofs/RegularizationRect.lean — C07 composed with C06.f: the neighbour table of a rectangular mesh
(`mesh_util.rectangular_neighbors_from`, proved equal to the 4-connectivity table in
Proofs/MapperRectNeighbors.lean) satisfies the hypotheses `InRange` / `Symmetric` of the C07 theorems, for
every shape `H, W ≥ 2`; and its list of unordered pairs is exactly the 4-adjacent pixel pairs, once each.
-/
import Proofs.Regularization
import Proofs.MapperRectNeighbors
import Model.RegularizationRect

namespace Model
open Mat Spec

/-! ### the entries of one row of the 4-connectivity table -/

theorem fourNeighbors_cases {H W k : Nat} {v : Int} (hv : v ∈ Spec.fourNeighbors H W k) :
    (v = (k : Int) - W ∧ 0 < k / W) ∨ (v = (k : Int) - 1 ∧ 0 < k % W)
      ∨ (v = (k : Int) + 1 ∧ k % W + 1 < W) ∨ (v = (k : Int) + W ∧ k / W + 1 < H) := by
  unfold Spec.fourNeighbors at hv
  simp only [List.mem_append] at hv
  rcases hv with ((h | h) | h) | h
  · split at h
    · next hc => left; exact ⟨by simpa using h, hc⟩
    · simp at h
  · split at h
    · next hc => right; left; exact ⟨by simpa using h, hc⟩
    · simp at h
  · split at h
    · next hc => right; right; left; exact ⟨by simpa using h, hc⟩
    · simp at h
  · split at h
    · next hc => right; right; right; exact ⟨by simpa using h, hc⟩
    · simp at h

/-- every listed neighbour is a valid pixel index different from the pixel itself -/
theorem fourNeighbors_range {H W k : Nat} (hk : k < H * W) {v : Int}
    (hv : v ∈ Spec.fourNeighbors H W k) : 0 ≤ v ∧ v < ((H * W : Nat) : Int) ∧ v ≠ (k : Int) := by
  have hW : 0 < W := by
    rcases Nat.eq_zero_or_pos W with h | h
    · subst h; simp at hk
    · exact h
  have hdm := Nat.div_add_mod k W
  have hq : k / W < H := by rw [Nat.div_lt_iff_lt_mul hW]; exact hk
  have hr : k % W < W := Nat.mod_lt _ hW
  have hcomm : H * W = W * H := Nat.mul_comm H W
  rcases fourNeighbors_cases hv with ⟨rfl, h⟩ | ⟨rfl, h⟩ | ⟨rfl, h⟩ | ⟨rfl, h⟩
  · have h1 : W * 1 ≤ W * (k / W) := Nat.mul_le_mul_left _ h
    refine ⟨by omega, by omega, by omega⟩
  · refine ⟨by omega, by omega, by omega⟩
  · have h1 : W * (k / W + 1) ≤ W * H := Nat.mul_le_mul_left _ (by omega)
    rw [Nat.mul_succ] at h1
    refine ⟨by omega, by omega, by omega⟩
  · have h1 : W * (k / W + 2) ≤ W * H := Nat.mul_le_mul_left _ (by omega)
    have h2 : W * (k / W + 2) = W * (k / W) + W + W := by
      rw [Nat.mul_add]; omega
    refine ⟨by omega, by omega, by omega⟩

/-- a row lists its neighbours in strictly increasing order (so without repetition) -/
theorem fourNeighbors_sorted (H W k : Nat) (hW : 2 ≤ W) :
    (Spec.fourNeighbors H W k).Pairwise (· < ·) := by
  unfold Spec.fourNeighbors
  simp only []
  split <;> split <;> split <;> split <;> simp <;> omega

/-! ### the table the schemes read -/

theorem rectMesh_length (H W : Nat) (hH : 2 ≤ H) (hW : 2 ≤ W) :
    (Impl.rectMeshNeighbors H W).length = H * W ∧ (Impl.rectMeshSizes H W).length = H * W := by
  simp [Impl.rectMeshNeighbors, Impl.rectMeshSizes, rectNeighbors_eq_spec H W hH hW,
    Spec.rectNeighbors, pyTable]

theorem rectMesh_size (H W : Nat) (hH : 2 ≤ H) (hW : 2 ≤ W) (i : Nat) (hi : i < H * W) :
    (Impl.rectMeshSizes H W).getD i 0 = (Spec.fourNeighbors H W i).length := by
  simp [Impl.rectMeshSizes, rectNeighbors_eq_spec H W hH hW, Spec.rectNeighbors, hi]

theorem rectMesh_nb (H W : Nat) (hH : 2 ≤ H) (hW : 2 ≤ W) (i j : Nat) (hi : i < H * W)
    (hj : j < (Spec.fourNeighbors H W i).length) :
    nb (Impl.rectMeshNeighbors H W) i j = ((Spec.fourNeighbors H W i)[j]).toNat := by
  have hmem : (Spec.fourNeighbors H W i)[j] ∈ Spec.fourNeighbors H W i := List.getElem_mem hj
  have h0 := (fourNeighbors_range hi hmem).1
  simp only [nb, Impl.rectMeshNeighbors, rectNeighbors_eq_spec H W hH hW, Spec.rectNeighbors, pyTable,
    List.getD_eq_getElem?_getD, List.getElem?_map, List.getElem?_range hi, Option.map_some,
    Option.getD_some, List.getElem?_append_left hj, List.getElem?_eq_getElem hj]
  simp [pyIdx, Int.not_lt.mpr h0]

/-- the directed pairs read by the loops on a rectangular mesh: pixel `i` with each of its
    4-neighbours, in the table's order -/
theorem rectMesh_edges (H W : Nat) (hH : 2 ≤ H) (hW : 2 ≤ W) :
    edges (H * W) (Impl.rectMeshNeighbors H W) (Impl.rectMeshSizes H W)
      = (List.range (H * W)).flatMap fun i =>
          (Spec.fourNeighbors H W i).map fun v => (i, v.toNat) := by
  unfold edges
  apply List.flatMap_congr
  intro i hi
  have hi' : i < H * W := List.mem_range.mp hi
  rw [rectMesh_size H W hH hW i hi']
  apply List.ext_getElem
  · simp
  · intro j h1 h2
    have hj : j < (Spec.fourNeighbors H W i).length := by simpa using h1
    simp only [List.getElem_map, List.getElem_range]
    rw [rectMesh_nb H W hH hW i j hi' hj]

theorem mem_rectMesh_edges (H W : Nat) (hH : 2 ≤ H) (hW : 2 ≤ W) (a b : Nat) :
    (a, b) ∈ edges (H * W) (Impl.rectMeshNeighbors H W) (Impl.rectMeshSizes H W)
      ↔ a < H * W ∧ (b : Int) ∈ Spec.fourNeighbors H W a := by
  rw [rectMesh_edges H W hH hW]
  simp only [List.mem_flatMap, List.mem_range, List.mem_map, Prod.mk.injEq]
  constructor
  · rintro ⟨i, hi, v, hv, rfl, rfl⟩
    have h0 := (fourNeighbors_range hi hv).1
    rw [Int.toNat_of_nonneg h0]
    exact ⟨hi, hv⟩
  · rintro ⟨ha, hb⟩
    exact ⟨a, ha, (b : Int), hb, rfl, by simp⟩

theorem rectMesh_edges_nodup (H W : Nat) (hH : 2 ≤ H) (hW : 2 ≤ W) :
    (edges (H * W) (Impl.rectMeshNeighbors H W) (Impl.rectMeshSizes H W)).Nodup := by
  rw [rectMesh_edges H W hH hW, List.nodup_iff_pairwise_ne, List.pairwise_flatMap]
  constructor
  · intro i hi
    have hi' : i < H * W := List.mem_range.mp hi
    apply List.Pairwise.map (R := fun a b : Int => a.toNat ≠ b.toNat)
    · intro a b hab h
      exact hab (by simpa using h)
    · apply List.Pairwise.imp_of_mem _ (fourNeighbors_sorted H W i hW)
      intro a b ha hb hab
      have h1 := (fourNeighbors_range hi' ha).1
      have h2 := (fourNeighbors_range hi' hb).1
      omega
  · apply List.Pairwise.imp _ (List.nodup_range (n := H * W))
    intro i1 i2 hne x hx y hy hxy
    simp only [List.mem_map] at hx hy
    obtain ⟨_, _, rfl⟩ := hx
    obtain ⟨_, _, rfl⟩ := hy
    exact hne (by simpa using congrArg Prod.fst hxy)

/-- (C06.f ⇒ C07 hypothesis) every index read from the table of a rectangular mesh is a valid pixel -/
theorem rectMesh_inRange (H W : Nat) (hH : 2 ≤ H) (hW : 2 ≤ W) :
    InRange (H * W) (Impl.rectMeshNeighbors H W) (Impl.rectMeshSizes H W) := by
  rintro ⟨a, b⟩ he
  obtain ⟨ha, hb⟩ := (mem_rectMesh_edges H W hH hW a b).mp he
  have := (fourNeighbors_range ha hb).2.1
  exact Int.ofNat_lt.mp this

/-- (C06.f ⇒ C07 hypothesis) the table of a rectangular mesh is symmetric, with multiplicity -/
theorem rectMesh_symmetric (H W : Nat) (hH : 2 ≤ H) (hW : 2 ≤ W) :
    Spec.Symmetric (H * W) (Impl.rectMeshNeighbors H W) (Impl.rectMeshSizes H W) := by
  unfold Spec.Symmetric
  have hnd := rectMesh_edges_nodup H W hH hW
  have hnd' : ((edges (H * W) (Impl.rectMeshNeighbors H W) (Impl.rectMeshSizes H W)).map
      fun e => (e.2, e.1)).Nodup := by
    rw [List.nodup_iff_pairwise_ne] at hnd ⊢
    apply List.Pairwise.map _ _ hnd
    intro a b hab h
    apply hab
    have h1 := congrArg Prod.fst h
    have h2 := congrArg Prod.snd h
    exact Prod.ext h2 h1
  rw [List.perm_ext_iff_of_nodup hnd' hnd]
  rintro ⟨a, b⟩
  rw [mem_rectMesh_edges H W hH hW]
  simp only [List.mem_map, Prod.mk.injEq]
  constructor
  · rintro ⟨⟨c, d⟩, he, rfl, rfl⟩
    obtain ⟨hc, hd⟩ := (mem_rectMesh_edges H W hH hW c d).mp he
    have hdr := (fourNeighbors_range hc hd).2.1
    have hd' : d < H * W := Int.ofNat_lt.mp hdr
    exact ⟨hd', (fourNeighbors_symm H W c d (by omega) hc hd').mp hd⟩
  · rintro ⟨ha, hb⟩
    have hbr := (fourNeighbors_range ha hb).2.1
    have hb' : b < H * W := Int.ofNat_lt.mp hbr
    exact ⟨(b, a), (mem_rectMesh_edges H W hH hW b a).mpr
      ⟨hb', (fourNeighbors_symm H W a b (by omega) ha hb').mp hb⟩, rfl, rfl⟩

/-- the "neighbouring source-pixel pairs" of a rectangular mesh: `(a, b)` with `a < b` is in the list
    iff the two pixels are 4-adjacent, and no pair occurs twice -/
theorem rectMesh_pairs (H W : Nat) (hH : 2 ≤ H) (hW : 2 ≤ W) :
    (pairs (H * W) (Impl.rectMeshNeighbors H W) (Impl.rectMeshSizes H W)).Nodup
    ∧ ∀ a b, (a, b) ∈ pairs (H * W) (Impl.rectMeshNeighbors H W) (Impl.rectMeshSizes H W)
        ↔ a < b ∧ b < H * W ∧ (b : Int) ∈ Spec.fourNeighbors H W a := by
  constructor
  · unfold pairs
    have hnd := rectMesh_edges_nodup H W hH hW
    rw [List.nodup_iff_pairwise_ne] at hnd ⊢
    exact hnd.filter _
  · intro a b
    unfold pairs
    rw [List.mem_filter, mem_rectMesh_edges H W hH hW]
    simp only [decide_eq_true_eq]
    constructor
    · rintro ⟨⟨ha, hb⟩, hab⟩
      exact ⟨hab, Int.ofNat_lt.mp (fourNeighbors_range ha hb).2.1, hb⟩
    · rintro ⟨hab, hb, hm⟩
      exact ⟨⟨by omega, hm⟩, hab⟩

/-- the same in mesh coordinates: pixel `(y, x)` (flattened `y*W + x`) is paired with its right
    neighbour `(y, x+1)` and its lower neighbour `(y+1, x)`, and with nothing else -/
theorem rectMesh_pairs_coords (H W : Nat) (hH : 2 ≤ H) (hW : 2 ≤ W) (y x y' x' : Nat) (hx : x < W)
    (hx' : x' < W) (hy : y < H) (hy' : y' < H) :
    (y * W + x, y' * W + x') ∈ pairs (H * W) (Impl.rectMeshNeighbors H W) (Impl.rectMeshSizes H W)
      ↔ (y' = y ∧ x + 1 = x') ∨ (x' = x ∧ y + 1 = y') := by
  have hb : y' * W + x' < H * W := by
    have : (y' + 1) * W ≤ H * W := Nat.mul_le_mul_right _ (by omega)
    rw [Nat.succ_mul] at this
    omega
  rw [(rectMesh_pairs H W hH hW).2, mem_fourNeighbors_flat H W y x y' x' hx hx' hy hy']
  constructor
  · rintro ⟨hlt, _, (⟨rfl, h | h⟩ | ⟨rfl, h | h⟩)⟩
    · omega
    · left; exact ⟨rfl, h⟩
    · subst h
      rw [Nat.succ_mul] at hlt
      omega
    · right; exact ⟨rfl, h⟩
  · rintro (⟨rfl, h⟩ | ⟨rfl, h⟩)
    · exact ⟨by omega, hb, Or.inl ⟨rfl, Or.inr h⟩⟩
    · refine ⟨?_, hb, Or.inr ⟨rfl, Or.inr h⟩⟩
      subst h
      rw [Nat.succ_mul]
      omega

end Model
