/-
Proofs/RegularizationReduced.lean — `AbstractInversion.no_regularization_index_list` and
`AbstractInversion.regularization_matrix_reduced` (property C07, assembly clause).

* `noRegIndexList` (the loop over `zip(linear_obj_list, regularization_list, param_range_list)`) lists exactly
  the parameter indices of the objects without a regularization scheme, in increasing order;
* deleting those rows and columns from the block-diagonal matrix leaves the block-diagonal matrix of the
  regularized objects' own matrices, in object order (`reducedMatrix_eq_blockDiag`);
* a block-diagonal matrix of positive-definite blocks is positive definite (`blockDiag_posdef`).
-/
import Proofs.RegularizationBlock

namespace Model
open Mat Spec

variable {α : Type}

/-! ### `np.delete` as "keep the positions satisfying `p`" -/

/-- the entries of `l` whose position (counted from `k`) satisfies `p` -/
def keepFrom {β : Type} (k : Nat) (l : List β) (p : Nat → Bool) : List β :=
  ((l.zipIdx k).filter fun q => p q.2).map (·.1)

theorem deleteIdx_eq_keepFrom {β : Type} (l : List β) (idx : List Nat) :
    deleteIdx l idx = keepFrom 0 l (fun i => !idx.contains i) := rfl

@[simp] theorem keepFrom_nil {β : Type} (k : Nat) (p : Nat → Bool) : keepFrom k ([] : List β) p = [] := rfl

theorem keepFrom_cons {β : Type} (k : Nat) (a : β) (l : List β) (p : Nat → Bool) :
    keepFrom k (a :: l) p = (if p k then [a] else []) ++ keepFrom (k + 1) l p := by
  unfold keepFrom
  rw [List.zipIdx_cons, List.filter_cons]
  by_cases h : p k <;> simp [h]

theorem keepFrom_congr {β : Type} (k : Nat) (l : List β) (p p' : Nat → Bool)
    (h : ∀ i, k ≤ i → i < k + l.length → p i = p' i) : keepFrom k l p = keepFrom k l p' := by
  induction l generalizing k with
  | nil => rfl
  | cons a l ih =>
    rw [keepFrom_cons, keepFrom_cons, h k (Nat.le_refl _) (by simp),
      ih (k + 1) (fun i h1 h2 => h i (by omega) (by simp at h2 ⊢; omega))]

theorem keepFrom_shift {β : Type} (k : Nat) (l : List β) (p : Nat → Bool) :
    keepFrom k l p = keepFrom 0 l (fun i => p (k + i)) := by
  induction l generalizing k p with
  | nil => rfl
  | cons a l ih =>
    rw [keepFrom_cons, keepFrom_cons, ih (k + 1), ih (0 + 1)]
    simp only [Nat.add_zero]
    congr 1
    apply keepFrom_congr
    intro i _ _
    congr 1
    omega

theorem keepFrom_append {β : Type} (k : Nat) (a b : List β) (p : Nat → Bool) :
    keepFrom k (a ++ b) p = keepFrom k a p ++ keepFrom (k + a.length) b p := by
  induction a generalizing k with
  | nil => simp
  | cons x a ih =>
    rw [List.cons_append, keepFrom_cons, keepFrom_cons, ih (k + 1), List.append_assoc]
    congr 3
    simp only [List.length_cons]
    omega

theorem keepFrom_map {β γ : Type} (k : Nat) (l : List β) (f : β → γ) (p : Nat → Bool) :
    keepFrom k (l.map f) p = (keepFrom k l p).map f := by
  induction l generalizing k with
  | nil => rfl
  | cons a l ih =>
    rw [List.map_cons, keepFrom_cons, keepFrom_cons, ih (k + 1), List.map_append]
    by_cases h : p k <;> simp [h]

theorem keepFrom_all {β : Type} (k : Nat) (l : List β) (p : Nat → Bool)
    (h : ∀ i, k ≤ i → i < k + l.length → p i = true) : keepFrom k l p = l := by
  induction l generalizing k with
  | nil => rfl
  | cons a l ih =>
    rw [keepFrom_cons, h k (Nat.le_refl _) (by simp),
      ih (k + 1) (fun i h1 h2 => h i (by omega) (by simp at h2 ⊢; omega))]
    rfl

theorem keepFrom_none {β : Type} (k : Nat) (l : List β) (p : Nat → Bool)
    (h : ∀ i, k ≤ i → i < k + l.length → p i = false) : keepFrom k l p = [] := by
  induction l generalizing k with
  | nil => rfl
  | cons a l ih =>
    rw [keepFrom_cons, h k (Nat.le_refl _) (by simp),
      ih (k + 1) (fun i h1 h2 => h i (by omega) (by simp at h2 ⊢; omega))]
    rfl

/-! ### `no_regularization_index_list` -/

/-- the specification: object by object, the whole parameter range `[off, off + n)` of every object
    without a scheme, `off` = number of parameters of the objects before it -/
def noRegSpec (off : Nat) : List (Nat × Bool) → List Nat
  | [] => []
  | (n, reg) :: rest => (if reg then [] else List.range' off n) ++ noRegSpec (off + n) rest

/-- does parameter index `i` belong to an object with a regularization scheme (`true` past the end) -/
def keepB : List (Nat × Bool) → Nat → Bool
  | [], _ => true
  | (n, reg) :: rest, i => if i < n then reg else keepB rest (i - n)

theorem noRegIndexList_eq (objs : List (Nat × Bool)) : Impl.noRegIndexList objs = noRegSpec 0 objs := by
  have gen : ∀ (objs : List (Nat × Bool)) (acc : List Nat) (off : Nat),
      (objs.foldl (fun (st : List Nat × Nat) o =>
        (if o.2 then st.1 else st.1 ++ (List.range o.1).map (· + st.2), st.2 + o.1)) (acc, off)).1
        = acc ++ noRegSpec off objs := by
    intro objs
    induction objs with
    | nil => intro acc off; simp [noRegSpec]
    | cons o rest ih =>
      intro acc off
      obtain ⟨n, reg⟩ := o
      rw [List.foldl_cons, ih]
      simp only [noRegSpec]
      cases reg
      · have : (List.range n).map (· + off) = List.range' off n := by
          rw [List.range'_eq_map_range]
          apply List.map_congr_left
          intro a _
          omega
        simp [this]
      · simp
  simpa [Impl.noRegIndexList] using gen objs [] 0

theorem mem_noRegSpec (off : Nat) (objs : List (Nat × Bool)) (i : Nat) :
    i ∈ noRegSpec off objs ↔ off ≤ i ∧ keepB objs (i - off) = false := by
  induction objs generalizing off with
  | nil => simp [noRegSpec, keepB]
  | cons o rest ih =>
    obtain ⟨n, reg⟩ := o
    simp only [noRegSpec, keepB, List.mem_append, ih]
    have e : i - (off + n) = i - off - n := by omega
    rw [e]
    by_cases h : i - off < n
    · cases reg
      · simp only [Bool.false_eq_true, if_false, List.mem_range'_1, h, if_true]
        constructor
        · rintro (⟨h1, _⟩ | ⟨h1, _⟩)
          · exact ⟨h1, trivial⟩
          · omega
        · rintro ⟨h1, _⟩
          left; omega
      · simp only [if_true, List.not_mem_nil, false_or, h]
        constructor
        · rintro ⟨h1, _⟩; omega
        · rintro ⟨_, h2⟩; cases h2
    · cases reg
      · simp only [Bool.false_eq_true, if_false, List.mem_range'_1, h]
        constructor
        · rintro (⟨h1, h2⟩ | ⟨h1, h2⟩)
          · omega
          · exact ⟨by omega, h2⟩
        · rintro ⟨h1, h2⟩
          right; exact ⟨by omega, h2⟩
      · simp only [if_true, List.not_mem_nil, false_or, h, if_false]
        constructor
        · rintro ⟨h1, h2⟩; exact ⟨by omega, h2⟩
        · rintro ⟨h1, h2⟩; exact ⟨by omega, h2⟩

/-- the listed indices are exactly the parameters of the objects without a scheme -/
theorem contains_noRegSpec (objs : List (Nat × Bool)) (i : Nat) :
    (!(noRegSpec 0 objs).contains i) = keepB objs i := by
  have h := mem_noRegSpec 0 objs i
  simp only [Nat.zero_le, true_and, Nat.sub_zero] at h
  cases hk : keepB objs i
  · simp [h.mpr hk]
  · have : i ∉ noRegSpec 0 objs := fun hm => by rw [h.mp hm] at hk; cases hk
    simp [this]

/-- the list is strictly increasing -/
theorem noRegSpec_sorted (off : Nat) (objs : List (Nat × Bool)) :
    (noRegSpec off objs).Pairwise (· < ·) := by
  induction objs generalizing off with
  | nil => simp [noRegSpec]
  | cons o rest ih =>
    obtain ⟨n, reg⟩ := o
    simp only [noRegSpec, List.pairwise_append]
    refine ⟨?_, ih _, ?_⟩
    · cases reg
      · simpa using List.pairwise_lt_range' (s := off) (n := n)
      · simp
    · intro a ha b hb
      have hb' := ((mem_noRegSpec _ _ _).mp hb).1
      cases reg
      · simp only [Bool.false_eq_true, if_false, List.mem_range'_1] at ha
        omega
      · simp at ha

/-! ### the reduced matrix -/

/-- the objects with a scheme, with their matrices, in object order -/
def regBlocks (objs : List (Nat × Option (List (List α)))) : List (Nat × List (List α)) :=
  objs.filterMap fun o => o.2.map fun H => (o.1, H)

/-- `(params, has a scheme)` per object -/
def regFlags (objs : List (Nat × Option (List (List α)))) : List (Nat × Bool) :=
  objs.map fun o => (o.1, o.2.isSome)

/-- total number of parameters / of regularized parameters -/
def flagTotal (f : List (Nat × Bool)) : Nat := (f.map (·.1)).sum
def flagRegTotal (f : List (Nat × Bool)) : Nat := (f.map fun o => if o.2 then o.1 else 0).sum

theorem keepFrom_replicate_keepB {β : Type} (f : List (Nat × Bool)) (a : β) :
    keepFrom 0 (List.replicate (flagTotal f) a) (keepB f) = List.replicate (flagRegTotal f) a := by
  induction f with
  | nil => simp [flagTotal, flagRegTotal]
  | cons o rest ih =>
    obtain ⟨n, reg⟩ := o
    have e1 : flagTotal ((n, reg) :: rest) = n + flagTotal rest := by simp [flagTotal]
    have e2 : flagRegTotal ((n, reg) :: rest) = (if reg then n else 0) + flagRegTotal rest := by
      simp [flagRegTotal]
    rw [e1, e2, List.replicate_add, List.replicate_add, keepFrom_append, List.length_replicate,
      keepFrom_shift (0 + n)]
    have hs : keepFrom 0 (List.replicate (flagTotal rest) a) (fun i => keepB ((n, reg) :: rest) (0 + n + i))
        = keepFrom 0 (List.replicate (flagTotal rest) a) (keepB rest) := by
      apply keepFrom_congr
      intro i _ _
      have : ¬ (0 + n + i < n) := by omega
      simp only [keepB, this, if_false]
      congr 1
      omega
    rw [hs, ih]
    congr 1
    cases reg
    · rw [keepFrom_none]
      · simp
      · intro i _ hi
        have : i < n := by simpa using hi
        simp [keepB, this]
    · rw [keepFrom_all]
      · simp
      · intro i _ hi
        have : i < n := by simpa using hi
        simp [keepB, this]

theorem flagRegTotal_regFlags (objs : List (Nat × Option (List (List α)))) :
    flagRegTotal (regFlags objs) = ((regBlocks objs).map (·.1)).sum := by
  induction objs with
  | nil => rfl
  | cons o rest ih =>
    obtain ⟨n, m⟩ := o
    have ih' : flagRegTotal (regFlags rest) = ((regBlocks rest).map (·.1)).sum := ih
    cases m with
    | none =>
      have : regBlocks ((n, (none : Option (List (List α)))) :: rest) = regBlocks rest := by
        simp [regBlocks]
      rw [this, ← ih']
      simp [flagRegTotal, regFlags]
    | some B =>
      have : regBlocks ((n, some B) :: rest) = (n, B) :: regBlocks rest := by simp [regBlocks]
      rw [this, List.map_cons, List.sum_cons, ← ih']
      simp [flagRegTotal, regFlags]

theorem flagTotal_regFlags [Zero α] (objs : List (Nat × Option (List (List α)))) :
    flagTotal (regFlags objs)
      = ((objs.map fun o => (o.1, Impl.linearObjMatrix o.1 o.2)).map (·.1)).sum := by
  simp [flagTotal, regFlags, List.map_map, Function.comp_def]

/-- deleting the rows and columns of the unregularized objects from the assembled matrix leaves the
    block-diagonal matrix of the regularized objects -/
theorem keep_blockDiag [Zero α] (objs : List (Nat × Option (List (List α))))
    (hd : ∀ o ∈ objs, ∀ H, o.2 = some H → Dims o.1 H) :
    (keepFrom 0 (blockDiag (objs.map fun o => (o.1, Impl.linearObjMatrix o.1 o.2)))
        (keepB (regFlags objs))).map (fun r => keepFrom 0 r (keepB (regFlags objs)))
      = blockDiag (regBlocks objs) := by
  induction objs with
  | nil => simp [blockDiag, regBlocks]
  | cons o rest ih =>
    obtain ⟨n, m⟩ := o
    have ih' := ih (fun o ho => hd o (by simp [ho]))
    have hB : Dims n (Impl.linearObjMatrix n m) := by
      cases m with
      | none => exact dims_zeros n
      | some B => exact hd (n, some B) (by simp) B rfl
    have hK : ∀ i, keepB (regFlags ((n, m) :: rest)) (n + i) = keepB (regFlags rest) i := by
      intro i
      have : ¬ (n + i < n) := by omega
      simp only [regFlags, List.map_cons, keepB, this, if_false]
      congr 1
      omega
    have hK0 : ∀ i, i < n → keepB (regFlags ((n, m) :: rest)) i = m.isSome := by
      intro i hi
      simp [regFlags, keepB, hi]
    -- a row of the lower part: `zeros n ++ r`
    have hrowY : ∀ r : List α, keepFrom 0 (List.replicate n (0 : α) ++ r) (keepB (regFlags ((n, m) :: rest)))
        = (if m.isSome then List.replicate n (0 : α) else []) ++ keepFrom 0 r (keepB (regFlags rest)) := by
      intro r
      rw [keepFrom_append, List.length_replicate, keepFrom_shift (0 + n)]
      congr 1
      · cases hm : m.isSome
        · rw [keepFrom_none]; · simp
          intro i _ hi
          rw [hK0 i (by simpa using hi), hm]
        · rw [keepFrom_all]; · simp
          intro i _ hi
          rw [hK0 i (by simpa using hi), hm]
      · apply keepFrom_congr
        intro i _ _
        rw [Nat.zero_add, hK]
    -- a row of the upper part: `r ++ zeros T`, `r` a row of the object's own matrix
    have hrowX : ∀ r : List α, r.length = n →
        keepFrom 0 (r ++ List.replicate (flagTotal (regFlags rest)) (0 : α)) (keepB (regFlags ((n, m) :: rest)))
          = (if m.isSome then r else [])
            ++ List.replicate (((regBlocks rest).map (·.1)).sum) (0 : α) := by
      intro r hr
      rw [keepFrom_append, hr, keepFrom_shift (0 + n)]
      congr 1
      · cases hm : m.isSome
        · rw [keepFrom_none]; · simp
          intro i _ hi
          rw [hK0 i (by omega), hm]
        · rw [keepFrom_all]; · simp
          intro i _ hi
          rw [hK0 i (by omega), hm]
      · rw [← flagRegTotal_regFlags, ← keepFrom_replicate_keepB]
        apply keepFrom_congr
        intro i _ _
        rw [Nat.zero_add, hK]
    simp only [List.map_cons, blockDiag]
    rw [← flagTotal_regFlags rest, keepFrom_append, List.length_map, hB.1, keepFrom_shift (0 + n),
      List.map_append]
    have hlow : keepFrom 0 (List.map (fun r => List.replicate n (0 : α) ++ r)
          (blockDiag (rest.map fun o => (o.1, Impl.linearObjMatrix o.1 o.2))))
          (fun i => keepB (regFlags ((n, m) :: rest)) (0 + n + i))
        = (keepFrom 0 (blockDiag (rest.map fun o => (o.1, Impl.linearObjMatrix o.1 o.2)))
            (keepB (regFlags rest))).map (fun r => List.replicate n (0 : α) ++ r) := by
      rw [keepFrom_map]
      congr 1
      apply keepFrom_congr
      intro i _ _
      rw [Nat.zero_add, hK]
    rw [hlow, List.map_map]
    have hlow2 : List.map ((fun r => keepFrom 0 r (keepB (regFlags ((n, m) :: rest))))
          ∘ fun r => List.replicate n (0 : α) ++ r)
          (keepFrom 0 (blockDiag (rest.map fun o => (o.1, Impl.linearObjMatrix o.1 o.2)))
            (keepB (regFlags rest)))
        = (blockDiag (regBlocks rest)).map
            (fun r => (if m.isSome then List.replicate n (0 : α) else []) ++ r) := by
      rw [← ih', List.map_map]
      apply List.map_congr_left
      intro r _
      simp only [Function.comp_apply]
      rw [hrowY]
    rw [hlow2]
    cases m with
    | none =>
      have hup : keepFrom 0 (List.map (fun r => r ++ List.replicate (flagTotal (regFlags rest)) (0 : α))
          (Impl.linearObjMatrix n (none : Option (List (List α)))))
          (keepB (regFlags ((n, none) :: rest))) = [] := by
        apply keepFrom_none
        intro i _ hi
        rw [hK0 i (by simpa [hB.1] using hi)]
        rfl
      rw [hup]
      have : regBlocks ((n, (none : Option (List (List α)))) :: rest) = regBlocks rest := by
        simp [regBlocks]
      rw [this]
      simp
    | some B =>
      have hB' : Dims n B := hB
      have hup : keepFrom 0 (List.map (fun r => r ++ List.replicate (flagTotal (regFlags rest)) (0 : α))
          (Impl.linearObjMatrix n (some B))) (keepB (regFlags ((n, some B) :: rest)))
          = List.map (fun r => r ++ List.replicate (flagTotal (regFlags rest)) (0 : α)) B := by
        apply keepFrom_all
        intro i _ hi
        rw [hK0 i (by simpa [Impl.linearObjMatrix, hB'.1] using hi)]
        rfl
      rw [hup, List.map_map]
      have : regBlocks ((n, some B) :: rest) = (n, B) :: regBlocks rest := by simp [regBlocks]
      rw [this]
      simp only [blockDiag, Option.isSome_some, if_true]
      congr 1
      apply List.map_congr_left
      intro r hr
      simp only [Function.comp_apply]
      rw [hrowX r (hB'.2 r hr)]
      simp

/-- `regularization_matrix_reduced` is the assembled matrix with the rows and the columns listed by
    `no_regularization_index_list` deleted — in both branches of the code (when every object has a scheme
    the list is empty and nothing is deleted) -/
theorem reducedMatrix_eq_delete [Zero α] (objs : List (Nat × Option (List (List α)))) :
    Impl.reducedMatrix objs
      = (deleteIdx (Impl.inversionMatrix objs) (Impl.noRegIndexList (regFlags objs))).map
          fun r => deleteIdx r (Impl.noRegIndexList (regFlags objs)) := by
  unfold Impl.reducedMatrix
  simp only
  split
  · next hall =>
    have hnil : Impl.noRegIndexList (regFlags objs) = [] := by
      rw [noRegIndexList_eq]
      have : ∀ (off : Nat) (l : List (Nat × Option (List (List α)))),
          (l.all fun o => o.2.isSome) = true → noRegSpec off (regFlags l) = [] := by
        intro off l
        induction l generalizing off with
        | nil => intro _; rfl
        | cons o rest ih =>
          intro h
          simp only [List.all_cons, Bool.and_eq_true] at h
          simp only [regFlags, List.map_cons, noRegSpec, h.1, if_true, List.nil_append]
          exact ih _ h.2
      exact this 0 objs hall
    have hdel : ∀ {β : Type} (l : List β), deleteIdx l [] = l := by
      intro β l
      rw [deleteIdx_eq_keepFrom]
      exact keepFrom_all 0 l _ (fun _ _ _ => by simp)
    rw [hnil, hdel]
    simp [hdel]
  · rfl

/-- the reduced matrix is the block-diagonal matrix of the regularized objects' own matrices, in object
    order -/
theorem reducedMatrix_eq_blockDiag [Zero α] (objs : List (Nat × Option (List (List α))))
    (hd : ∀ o ∈ objs, ∀ H, o.2 = some H → Dims o.1 H) :
    Impl.reducedMatrix objs = blockDiag (regBlocks objs) := by
  rw [reducedMatrix_eq_delete, ← keep_blockDiag objs hd, noRegIndexList_eq]
  simp only [deleteIdx_eq_keepFrom, Impl.inversionMatrix]
  have hp : (fun i => !(noRegSpec 0 (regFlags objs)).contains i) = keepB (regFlags objs) := by
    funext i; exact contains_noRegSpec _ i
  rw [hp]

/-! ### block-diagonal of positive-definite blocks -/

theorem quad_eq_zero_of_zero [CommSemiring α] (M : List (List α)) (x : List α)
    (h : ∀ i, i < x.length → x.getD i 0 = 0) : quad M x = 0 := by
  unfold quad
  rw [sumRange_congr x.length _ (fun _ => (0 : α)), sumRange_zero]
  intro i hi
  rw [sumRange_congr x.length _ (fun _ => (0 : α)), sumRange_zero]
  intro j _
  rw [h i hi]
  simp

theorem nonneg_of_posdef [Field α] [LinearOrder α] [IsStrictOrderedRing α] (n : Nat) (M : List (List α))
    (hp : ∀ x : List α, x.length = n → (∃ i, i < n ∧ x.getD i 0 ≠ 0) → 0 < quad M x)
    (x : List α) (hx : x.length = n) : 0 ≤ quad M x := by
  by_cases h : ∃ i, i < n ∧ x.getD i 0 ≠ 0
  · exact le_of_lt (hp x hx h)
  · rw [quad_eq_zero_of_zero M x]
    intro i hi
    by_contra hne
    exact h ⟨i, by omega, hne⟩

/-- a block-diagonal matrix whose blocks are all positive definite is positive definite -/
theorem blockDiag_posdef [Field α] [LinearOrder α] [IsStrictOrderedRing α]
    (objs : List (Nat × List (List α))) (h : AllDims objs)
    (hp : ∀ o ∈ objs, ∀ x : List α, x.length = o.1 → (∃ i, i < o.1 ∧ x.getD i 0 ≠ 0) → 0 < quad o.2 x)
    (x : List α) (hx : x.length = totalParams objs)
    (hx0 : ∃ i, i < totalParams objs ∧ x.getD i 0 ≠ 0) : 0 < quad (blockDiag objs) x := by
  induction objs generalizing x with
  | nil =>
    obtain ⟨i, hi, _⟩ := hx0
    simp [totalParams] at hi
  | cons o rest ih =>
    obtain ⟨n, B⟩ := o
    have hB : Dims n B := h (n, B) (by simp)
    have hrest : AllDims rest := fun o ho => h o (by simp [ho])
    have hprest : ∀ o ∈ rest, ∀ x : List α, x.length = o.1 → (∃ i, i < o.1 ∧ x.getD i 0 ≠ 0) →
        0 < quad o.2 x := fun o ho => hp o (by simp [ho])
    have hlen : x.length = n + totalParams rest := by simpa [totalParams] using hx
    have hsplit : x = x.take n ++ x.drop n := (List.take_append_drop n x).symm
    have h1 : (x.take n).length = n := by simp; omega
    have h2 : (x.drop n).length = totalParams rest := by simp; omega
    have hpsd_rest : 0 ≤ quad (blockDiag rest) (x.drop n) :=
      blockDiag_psd rest hrest
        (fun o ho y hy => nonneg_of_posdef o.1 o.2 (hprest o ho) y hy) _ h2
    have hpsd_B : 0 ≤ quad B (x.take n) := nonneg_of_posdef n B (hp (n, B) (by simp)) _ h1
    obtain ⟨i, hi, hne⟩ := hx0
    rw [hsplit, blockDiag_cons_quad n B hB rest _ _ h1]
    by_cases hin : i < n
    · have : 0 < quad B (x.take n) := by
        apply hp (n, B) (by simp) _ h1
        refine ⟨i, hin, ?_⟩
        rw [hsplit, getD_append_left _ _ _ _ (by omega)] at hne
        exact hne
      exact add_pos_of_pos_of_nonneg this hpsd_rest
    · have : 0 < quad (blockDiag rest) (x.drop n) := by
        apply ih hrest hprest _ h2
        refine ⟨i - n, by simp only [totalParams, List.map_cons, List.sum_cons] at hi; simp only [totalParams]; omega, ?_⟩
        rw [hsplit] at hne
        have e : i = (x.take n).length + (i - n) := by omega
        rw [e, getD_append_right] at hne
        exact hne
      exact add_pos_of_nonneg_of_pos hpsd_B this

end Model
