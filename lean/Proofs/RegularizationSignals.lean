/-
Proofs/RegularizationSignals.lean — `mapper_util.adaptive_pixel_signals_from` and the adaptive
regularization weights built from it (property C07).

* `fancyAdd` (numpy's buffered `arr[idx] += vals`) as a point-wise formula;
* the accumulation loop = the finite sums `Spec.pixelSignalSum` / `Spec.pixelSignalCount` on well-formed
  mapper tables (`pixelSignalAccum_spec`), hence the returned signals are
  `pow (mean_p / max_q mean_q)` (`adaptivePixelSignals_spec`);
* range facts that need no well-formedness at all: with a non-negative adapt image and non-negative
  interpolation weights every mean is ≥ 0, and when some mean is positive every signal lies in `[0, 1]` and
  the brightest pixel has signal exactly `pow 1` (`adaptivePixelSignals_range`);
* `adaptive_regularization_weights_from` is strictly positive on signals in `[0, 1]` for positive
  coefficients (`adaptiveWeights_pos`).
-/
import Proofs.Regularization
import Model.RegularizationSignals

set_option linter.unusedSectionVars false
set_option linter.unusedSimpArgs false

namespace Model
open Mat Spec

variable {α : Type}

/-! ### `fancyAdd` -/

theorem foldl_set_length {β : Type} (ps : List (Nat × β)) (a : List β) :
    (ps.foldl (fun a p => a.set p.1 p.2) a).length = a.length := by
  induction ps generalizing a with
  | nil => rfl
  | cons q ps ih => rw [List.foldl_cons, ih, List.length_set]

/-- assigning `(key, value)` pairs in order, when the value is a function `g` of the key: every assigned
    position ends up with `g`, the others are untouched -/
theorem foldl_set_getD [Zero α] (g : Nat → α) (ps : List (Nat × α)) (a : List α)
    (hr : ∀ q ∈ ps, q.1 < a.length) (hg : ∀ q ∈ ps, q.2 = g q.1) (p : Nat) :
    (ps.foldl (fun a q => a.set q.1 q.2) a).getD p 0
      = if p ∈ ps.map (·.1) then g p else a.getD p 0 := by
  induction ps generalizing a with
  | nil => simp
  | cons q ps ih =>
    rw [List.foldl_cons, ih (a.set q.1 q.2)
      (fun q' hq' => by rw [List.length_set]; exact hr q' (by simp [hq']))
      (fun q' hq' => hg q' (by simp [hq']))]
    have hq1 : q.1 < a.length := hr q (by simp)
    have hq2 : q.2 = g q.1 := hg q (by simp)
    by_cases hp : p ∈ ps.map (·.1)
    · have : p ∈ (q :: ps).map (·.1) := by simp only [List.map_cons, List.mem_cons]; right; exact hp
      rw [if_pos hp, if_pos this]
    · rw [if_neg hp]
      by_cases hqp : q.1 = p
      · have : p ∈ (q :: ps).map (·.1) := by simp [hqp.symm]
        rw [if_pos this, List.getD_eq_getElem?_getD, ← hqp, List.getElem?_set_self hq1, hq2]
        rfl
      · have : p ∉ (q :: ps).map (·.1) := by
          simp only [List.map_cons, List.mem_cons, not_or]
          exact ⟨fun h => hqp h.symm, hp⟩
        rw [if_neg this, List.getD_eq_getElem?_getD, List.getElem?_set_ne hqp,
          ← List.getD_eq_getElem?_getD]

theorem mem_zip_zipWith {β γ δ : Type} (F : β → γ → δ) (idx : List β) (vals : List γ) (q : β × δ)
    (hq : q ∈ List.zip idx (List.zipWith F idx vals)) :
    ∃ l, ∃ (h1 : l < idx.length) (h2 : l < vals.length), q = (idx[l], F idx[l] vals[l]) := by
  obtain ⟨l, hl, rfl⟩ := List.mem_iff_getElem.mp hq
  have hl' : l < idx.length ∧ l < vals.length := by
    simp only [List.length_zip, List.length_zipWith] at hl
    omega
  exact ⟨l, hl'.1, hl'.2, by simp⟩

theorem fancyAdd_length [Add α] [Zero α] (arr : List α) (idx : List Nat) (vals : List α) :
    (Impl.fancyAdd arr idx vals).length = arr.length := by
  unfold Impl.fancyAdd
  exact foldl_set_length _ _

/-- `arr[idx] += vals` with pairwise distinct in-range indices: position `p` gains the value paired
    with it -/
theorem fancyAdd_getD_nodup [AddCommMonoid α] (arr : List α) (idx : List Nat) (vals : List α)
    (hr : ∀ k ∈ idx, k < arr.length) (hnd : idx.Nodup) (hlen : vals.length = idx.length) (p : Nat) :
    (Impl.fancyAdd arr idx vals).getD p 0
      = arr.getD p 0 + sumRange idx.length fun l => if idx.getD l 0 = p then vals.getD l 0 else 0 := by
  unfold Impl.fancyAdd
  simp only
  rw [foldl_set_getD
    (fun k => arr.getD k 0 + sumRange idx.length fun l => if idx.getD l 0 = k then vals.getD l 0 else 0)]
  · split
    · rfl
    · next hp =>
      have hkeys : (List.zip idx (List.zipWith (fun k v => arr.getD k 0 + v) idx vals)).map (·.1) = idx := by
        apply List.map_fst_zip
        simp [hlen]
      rw [hkeys] at hp
      rw [sumRange_congr idx.length _ (fun _ => (0 : α)), sumRange_zero, add_zero]
      intro l hl
      have : idx.getD l 0 ≠ p := by
        intro h
        apply hp
        rw [← h, List.getD_eq_getElem?_getD, List.getElem?_eq_getElem hl]
        exact List.getElem_mem hl
      rw [if_neg this]
  · intro q hq
    exact hr q.1 (List.of_mem_zip (a := q.1) (b := q.2) hq).1
  · intro q hq
    obtain ⟨l, h1, h2, rfl⟩ := mem_zip_zipWith _ _ _ _ hq
    simp only
    congr 1
    rw [sumRange_congr idx.length _ (fun l' => if l = l' then vals.getD l' 0 else 0),
      sumRange_ite_eq idx.length l h1, List.getD_eq_getElem?_getD, List.getElem?_eq_getElem h2]
    · rfl
    · intro l' hl'
      have e : idx.getD l' 0 = idx[l'] := by
        rw [List.getD_eq_getElem?_getD, List.getElem?_eq_getElem hl']; rfl
      rw [e]
      by_cases hll : l = l'
      · subst hll; simp
      · have : idx[l'] ≠ idx[l] := fun h => hll ((hnd.getElem_inj_iff).mp h).symm
        rw [if_neg this, if_neg hll]

/-- `arr[idx] += 1` (repetitions allowed: the assignment is buffered, so a repeated index still gains 1) -/
theorem fancyAdd_getD_ones [AddCommMonoid α] [One α] (arr : List α) (idx : List Nat)
    (hr : ∀ k ∈ idx, k < arr.length) (p : Nat) :
    (Impl.fancyAdd arr idx (idx.map fun _ => (1 : α))).getD p 0
      = arr.getD p 0 + if p ∈ idx then 1 else 0 := by
  unfold Impl.fancyAdd
  simp only
  rw [foldl_set_getD (fun k => arr.getD k 0 + 1)]
  · have hkeys : (List.zip idx (List.zipWith (fun k v => arr.getD k 0 + v) idx
        (idx.map fun _ => (1 : α)))).map (·.1) = idx := by
      apply List.map_fst_zip
      simp
    rw [hkeys]
    split <;> simp
  · intro q hq
    exact hr q.1 (List.of_mem_zip (a := q.1) (b := q.2) hq).1
  · intro q hq
    obtain ⟨l, h1, h2, rfl⟩ := mem_zip_zipWith _ _ _ _ hq
    simp

/-! ### the accumulation loop on well-formed tables -/

section accum

variable [Field α] [LinearOrder α] [IsStrictOrderedRing α]

theorem getD_take_lt (l : List Nat) (n i : Nat) (h : i < n) : (l.take n).getD i 0 = l.getD i 0 := by
  rw [List.getD_eq_getElem?_getD, List.getD_eq_getElem?_getD, List.getElem?_take_of_lt h]

theorem getD_map_lt (f : α → α) (l : List α) (i : Nat) (h : i < l.length) :
    (l.map f).getD i 0 = f (l.getD i 0) := by
  rw [List.getD_eq_getElem?_getD, List.getD_eq_getElem?_getD, List.getElem?_map,
    List.getElem?_eq_getElem h]
  rfl

theorem getD_set_add (arr : List α) (v p : Nat) (hv : v < arr.length) (x : α) :
    (arr.set v (arr.getD v 0 + x)).getD p 0 = arr.getD p 0 + if v = p then x else 0 := by
  by_cases h : v = p
  · subst h
    rw [List.getD_eq_getElem?_getD, List.getElem?_set_self hv]
    simp
  · rw [List.getD_eq_getElem?_getD, List.getElem?_set_ne h, ← List.getD_eq_getElem?_getD]
    simp [h]

theorem pixelSignalStep_spec (pixels : Nat) (pixelWeights : List (List α))
    (pixIndexes : List (List Int)) (pixSizes : List Nat) (slimForSub : List Nat) (adaptData : List α)
    (hwf : SignalsWF pixels pixelWeights pixIndexes pixSizes) (st : List α × List α) (sub : Nat)
    (hsub : sub < pixIndexes.length) (h1 : st.1.length = pixels) (h2 : st.2.length = pixels) :
    let st' := Impl.pixelSignalStep pixels pixelWeights pixIndexes pixSizes slimForSub adaptData st sub
    st'.1.length = pixels ∧ st'.2.length = pixels
    ∧ ∀ p, st'.1.getD p 0
          = st.1.getD p 0 + signalContrib pixels pixelWeights pixIndexes pixSizes slimForSub adaptData p sub
        ∧ st'.2.getD p 0 = st.2.getD p 0 + countContrib pixels pixIndexes pixSizes p sub := by
  obtain ⟨hrange, hbig, hsmall⟩ := hwf sub hsub
  simp only [Impl.pixelSignalStep, signalContrib, countContrib]
  have hrow : (pixIndexes.getD sub []).map (pyIdx pixels) = signalRow pixels pixIndexes sub := rfl
  simp only [hrow]
  by_cases hs : 1 < pixSizes.getD sub 0
  · obtain ⟨hlen, hw, hnd⟩ := hbig hs
    have hs' : pixSizes.getD sub 0 > 1 := hs
    simp only [hs', if_true, hs]
    refine ⟨by rw [fancyAdd_length, h1], by rw [fancyAdd_length, h2], ?_⟩
    intro p
    constructor
    · rw [fancyAdd_getD_nodup _ _ _
        (fun k hk => by rw [h1]; exact hrange k (List.mem_of_mem_take hk)) hnd
        (by rw [List.length_map, hw, List.length_take]; omega)]
      congr 1
      have hl : ((signalRow pixels pixIndexes sub).take (pixSizes.getD sub 0)).length
          = pixSizes.getD sub 0 := by rw [List.length_take]; omega
      rw [hl]
      apply sumRange_congr
      intro l hl'
      have e1 : ((signalRow pixels pixIndexes sub).take (pixSizes.getD sub 0)).getD l 0
          = (signalRow pixels pixIndexes sub).getD l 0 := getD_take_lt _ _ _ hl'
      have e2 : ((pixelWeights.getD sub []).map fun w => adaptData.getD (slimForSub.getD sub 0) 0 * w).getD l 0
          = adaptData.getD (slimForSub.getD sub 0) 0 * (pixelWeights.getD sub []).getD l 0 :=
        getD_map_lt _ _ _ (by rw [hw]; exact hl')
      rw [e1, e2]
    · rw [fancyAdd_getD_ones _ _ (fun k hk => by rw [h2]; exact hrange k hk)]
  · have hs' : ¬ pixSizes.getD sub 0 > 1 := hs
    simp only [hs', if_false, hs]
    have hne := hsmall hs
    have hv0 : (signalRow pixels pixIndexes sub).getD 0 0 < pixels := by
      apply hrange
      cases hr : signalRow pixels pixIndexes sub with
      | nil => exact absurd hr hne
      | cons a t => simp
    refine ⟨by rw [List.length_set, h1], by rw [List.length_set, h2], ?_⟩
    intro p
    exact ⟨getD_set_add _ _ _ (by rw [h1]; exact hv0) _, getD_set_add _ _ _ (by rw [h2]; exact hv0) _⟩

/-- on well-formed mapper tables the loop of `adaptive_pixel_signals_from` leaves in `pixel_signals[p]` the
    weighted sum of the adapt-image values of the sub-pixels mapped to `p`, and in `pixel_sizes[p]` their
    number -/
theorem pixelSignalAccum_spec (pixels : Nat) (pixelWeights : List (List α))
    (pixIndexes : List (List Int)) (pixSizes : List Nat) (slimForSub : List Nat) (adaptData : List α)
    (hwf : SignalsWF pixels pixelWeights pixIndexes pixSizes) :
    let st := Impl.pixelSignalAccum pixels pixelWeights pixIndexes pixSizes slimForSub adaptData
    st.1.length = pixels ∧ st.2.length = pixels
    ∧ ∀ p, p < pixels →
        st.1.getD p 0 = pixelSignalSum pixels pixelWeights pixIndexes pixSizes slimForSub adaptData p
        ∧ st.2.getD p 0 = pixelSignalCount pixels pixIndexes pixSizes p := by
  have gen : ∀ k, k ≤ pixIndexes.length →
      let st := (List.range k).foldl
        (Impl.pixelSignalStep pixels pixelWeights pixIndexes pixSizes slimForSub adaptData)
        (List.replicate pixels 0, List.replicate pixels 0)
      st.1.length = pixels ∧ st.2.length = pixels
      ∧ ∀ p, p < pixels →
          st.1.getD p 0
            = sumRange k (signalContrib pixels pixelWeights pixIndexes pixSizes slimForSub adaptData p)
          ∧ st.2.getD p 0 = sumRange k (countContrib pixels pixIndexes pixSizes p) := by
    intro k
    induction k with
    | zero =>
      intro _
      refine ⟨by simp, by simp, ?_⟩
      intro p hp
      simp [sumRange, List.getD_eq_getElem?_getD, List.getElem?_replicate, hp]
    | succ k ih =>
      intro hk
      obtain ⟨i1, i2, i3⟩ := ih (by omega)
      rw [List.range_succ, List.foldl_append]
      simp only [List.foldl_cons, List.foldl_nil]
      obtain ⟨s1, s2, s3⟩ := pixelSignalStep_spec pixels pixelWeights pixIndexes pixSizes slimForSub
        adaptData hwf _ k (by omega) i1 i2
      refine ⟨s1, s2, ?_⟩
      intro p hp
      rw [(s3 p).1, (s3 p).2, (i3 p hp).1, (i3 p hp).2, sumRange_succ, sumRange_succ]
      exact ⟨rfl, rfl⟩
  exact gen pixIndexes.length (Nat.le_refl _)

theorem getD_zipWith_div (a b : List α) (p : Nat) (h1 : p < a.length) (h2 : p < b.length) :
    (List.zipWith (fun s n => s / n) a b).getD p 0 = a.getD p 0 / b.getD p 0 := by
  simp [List.getD_eq_getElem?_getD, List.getElem?_zipWith, List.getElem?_eq_getElem h1,
    List.getElem?_eq_getElem h2]

/-- the per-pixel means before the normalisation -/
theorem pixelSignalMeans_spec (pixels : Nat) (pixelWeights : List (List α))
    (pixIndexes : List (List Int)) (pixSizes : List Nat) (slimForSub : List Nat) (adaptData : List α)
    (hwf : SignalsWF pixels pixelWeights pixIndexes pixSizes) :
    (Impl.pixelSignalMeans pixels pixelWeights pixIndexes pixSizes slimForSub adaptData).length = pixels
    ∧ ∀ p, p < pixels →
        (Impl.pixelSignalMeans pixels pixelWeights pixIndexes pixSizes slimForSub adaptData).getD p 0
          = pixelSignalMean pixels pixelWeights pixIndexes pixSizes slimForSub adaptData p := by
  obtain ⟨h1, h2, h3⟩ := pixelSignalAccum_spec pixels pixelWeights pixIndexes pixSizes slimForSub
    adaptData hwf
  unfold Impl.pixelSignalMeans
  simp only
  refine ⟨by simp [h1, h2], ?_⟩
  intro p hp
  rw [getD_zipWith_div _ _ p (by rw [h1]; exact hp) (by rw [List.length_map, h2]; exact hp),
    (h3 p hp).1]
  unfold pixelSignalMean
  congr 1
  rw [← (h3 p hp).2]
  simp [List.getD_eq_getElem?_getD, List.getElem?_map, List.getElem?_eq_getElem (show p < _ from by rw [h2]; exact hp)]

end accum

/-! ### `np.max` -/

section order

variable [Field α] [LinearOrder α] [IsStrictOrderedRing α]

theorem foldl_max_spec (rest : List α) (a : α) :
    a ≤ rest.foldl (fun m v => if m < v then v else m) a
    ∧ (∀ v ∈ rest, v ≤ rest.foldl (fun m v => if m < v then v else m) a)
    ∧ (rest.foldl (fun m v => if m < v then v else m) a = a
        ∨ rest.foldl (fun m v => if m < v then v else m) a ∈ rest) := by
  induction rest generalizing a with
  | nil => simp
  | cons b rest ih =>
    rw [List.foldl_cons]
    obtain ⟨i1, i2, i3⟩ := ih (if a < b then b else a)
    have hle : a ≤ (if a < b then b else a) ∧ b ≤ (if a < b then b else a) := by
      split
      · next h => exact ⟨le_of_lt h, le_refl _⟩
      · next h => exact ⟨le_refl _, not_lt.mp h⟩
    refine ⟨le_trans hle.1 i1, ?_, ?_⟩
    · intro v hv
      rcases List.mem_cons.mp hv with rfl | hv
      · exact le_trans hle.2 i1
      · exact i2 v hv
    · rcases i3 with h | h
      · rw [h]
        split
        · right; simp
        · left; rfl
      · right; exact List.mem_cons_of_mem _ h

/-- `np.max` of a non-empty array is one of its entries and bounds all of them -/
theorem npMax_spec (l : List α) (hl : l ≠ []) :
    Impl.npMax l ∈ l ∧ ∀ v ∈ l, v ≤ Impl.npMax l := by
  cases l with
  | nil => exact absurd rfl hl
  | cons a rest =>
    obtain ⟨i1, i2, i3⟩ := foldl_max_spec rest a
    simp only [Impl.npMax]
    constructor
    · rcases i3 with h | h
      · rw [h]; simp
      · exact List.mem_cons_of_mem _ h
    · intro v hv
      rcases List.mem_cons.mp hv with rfl | hv
      · exact i1
      · exact i2 v hv

/-! ### non-negativity, without any well-formedness -/

/-- all entries ≥ 0 -/
def AllNonneg (l : List α) : Prop := ∀ v ∈ l, 0 ≤ v

theorem AllNonneg.getD {l : List α} (h : AllNonneg l) (k : Nat) : 0 ≤ l.getD k 0 := by
  rw [List.getD_eq_getElem?_getD]
  cases hk : l[k]? with
  | none => simp
  | some v => exact h v (List.mem_of_getElem? hk)

theorem AllNonneg.set {l : List α} (h : AllNonneg l) (k : Nat) (v : α) (hv : 0 ≤ v) :
    AllNonneg (l.set k v) := by
  intro w hw
  rcases List.mem_or_eq_of_mem_set hw with h' | rfl
  · exact h w h'
  · exact hv

theorem foldl_set_nonneg (ps : List (Nat × α)) (a : List α) (ha : AllNonneg a)
    (hp : ∀ q ∈ ps, 0 ≤ q.2) : AllNonneg (ps.foldl (fun a q => a.set q.1 q.2) a) := by
  induction ps generalizing a with
  | nil => exact ha
  | cons q ps ih =>
    rw [List.foldl_cons]
    exact ih _ (ha.set _ _ (hp q (by simp))) (fun q' hq' => hp q' (by simp [hq']))

theorem fancyAdd_nonneg (arr : List α) (idx : List Nat) (vals : List α) (ha : AllNonneg arr)
    (hv : AllNonneg vals) : AllNonneg (Impl.fancyAdd arr idx vals) := by
  unfold Impl.fancyAdd
  apply foldl_set_nonneg _ _ ha
  intro q hq
  obtain ⟨l, h1, h2, rfl⟩ := mem_zip_zipWith _ _ _ _ hq
  exact add_nonneg (ha.getD _) (hv _ (List.getElem_mem h2))

theorem pixelSignalAccum_nonneg (pixels : Nat) (pixelWeights : List (List α))
    (pixIndexes : List (List Int)) (pixSizes : List Nat) (slimForSub : List Nat) (adaptData : List α)
    (had : AllNonneg adaptData) (hw : ∀ r ∈ pixelWeights, AllNonneg r) :
    let st := Impl.pixelSignalAccum pixels pixelWeights pixIndexes pixSizes slimForSub adaptData
    AllNonneg st.1 ∧ AllNonneg st.2 := by
  have gen : ∀ (subs : List Nat) (st : List α × List α), AllNonneg st.1 → AllNonneg st.2 →
      AllNonneg (subs.foldl
        (Impl.pixelSignalStep pixels pixelWeights pixIndexes pixSizes slimForSub adaptData) st).1
      ∧ AllNonneg (subs.foldl
        (Impl.pixelSignalStep pixels pixelWeights pixIndexes pixSizes slimForSub adaptData) st).2 := by
    intro subs
    induction subs with
    | nil => intro st h1 h2; exact ⟨h1, h2⟩
    | cons sub subs ih =>
      intro st h1 h2
      rw [List.foldl_cons]
      apply ih
      · unfold Impl.pixelSignalStep
        simp only
        split
        · apply fancyAdd_nonneg _ _ _ h1
          intro v hv
          obtain ⟨w, hw', rfl⟩ := List.mem_map.mp hv
          have hrow : AllNonneg (pixelWeights.getD sub []) := by
            rw [List.getD_eq_getElem?_getD]
            cases hr : pixelWeights[sub]? with
            | none => intro v hv; simp at hv
            | some r => exact hw r (List.mem_of_getElem? hr)
          exact mul_nonneg (had.getD _) (hrow w hw')
        · exact h1.set _ _ (add_nonneg (h1.getD _) (had.getD _))
      · unfold Impl.pixelSignalStep
        simp only
        split
        · apply fancyAdd_nonneg _ _ _ h2
          intro v hv
          obtain ⟨_, _, rfl⟩ := List.mem_map.mp hv
          exact zero_le_one
        · exact h2.set _ _ (add_nonneg (h2.getD _) zero_le_one)
  apply gen
  · intro v hv
    rw [List.eq_of_mem_replicate hv]
  · intro v hv
    rw [List.eq_of_mem_replicate hv]

/-- every per-pixel mean is ≥ 0 when the adapt image and the interpolation weights are -/
theorem pixelSignalMeans_nonneg (pixels : Nat) (pixelWeights : List (List α))
    (pixIndexes : List (List Int)) (pixSizes : List Nat) (slimForSub : List Nat) (adaptData : List α)
    (had : AllNonneg adaptData) (hw : ∀ r ∈ pixelWeights, AllNonneg r) :
    AllNonneg (Impl.pixelSignalMeans pixels pixelWeights pixIndexes pixSizes slimForSub adaptData) := by
  obtain ⟨h1, h2⟩ := pixelSignalAccum_nonneg pixels pixelWeights pixIndexes pixSizes slimForSub
    adaptData had hw
  unfold Impl.pixelSignalMeans
  simp only
  intro v hv
  obtain ⟨l, hl, rfl⟩ := List.mem_iff_getElem.mp hv
  simp only [List.getElem_zipWith, List.getElem_map]
  apply div_nonneg (h1 _ (List.getElem_mem _))
  split
  · exact zero_le_one
  · exact h2 _ (List.getElem_mem _)

/-- **range of the pixel signals.**  With a non-negative adapt image and non-negative interpolation
    weights, and at least one pixel of positive mean signal, every returned signal is `pow t` for some
    `t ∈ [0, 1]` and the brightest pixel is `pow 1`; so, for any `pow` mapping `[0,1]` into `[0,1]`, all
    signals lie in `[0, 1]`. -/
theorem adaptivePixelSignals_range (pow : α → α) (pixels : Nat) (pixelWeights : List (List α))
    (pixIndexes : List (List Int)) (pixSizes : List Nat) (slimForSub : List Nat) (adaptData : List α)
    (had : AllNonneg adaptData) (hw : ∀ r ∈ pixelWeights, AllNonneg r)
    (hpos : ∃ m ∈ Impl.pixelSignalMeans pixels pixelWeights pixIndexes pixSizes slimForSub adaptData, 0 < m) :
    (∀ s ∈ Impl.adaptivePixelSignals pow pixels pixelWeights pixIndexes pixSizes slimForSub adaptData,
        ∃ t, 0 ≤ t ∧ t ≤ 1 ∧ s = pow t)
    ∧ pow 1 ∈ Impl.adaptivePixelSignals pow pixels pixelWeights pixIndexes pixSizes slimForSub adaptData := by
  have hnn := pixelSignalMeans_nonneg pixels pixelWeights pixIndexes pixSizes slimForSub adaptData had hw
  obtain ⟨m, hm, hm0⟩ := hpos
  have hne : Impl.pixelSignalMeans pixels pixelWeights pixIndexes pixSizes slimForSub adaptData ≠ [] := by
    intro h; rw [h] at hm; simp at hm
  obtain ⟨hmem, hmax⟩ := npMax_spec _ hne
  have hmx : 0 < Impl.npMax
      (Impl.pixelSignalMeans pixels pixelWeights pixIndexes pixSizes slimForSub adaptData) :=
    lt_of_lt_of_le hm0 (hmax m hm)
  unfold Impl.adaptivePixelSignals
  simp only [List.map_map, List.mem_map, Function.comp_apply]
  constructor
  · rintro s ⟨v, hv, rfl⟩
    exact ⟨_, div_nonneg (hnn v hv) (le_of_lt hmx), (div_le_one hmx).mpr (hmax v hv), rfl⟩
  · exact ⟨_, hmem, by rw [div_self (ne_of_gt hmx)]⟩

theorem adaptivePixelSignals_length (pow : α → α) (pixels : Nat) (pixelWeights : List (List α))
    (pixIndexes : List (List Int)) (pixSizes : List Nat) (slimForSub : List Nat) (adaptData : List α) :
    (Impl.adaptivePixelSignals pow pixels pixelWeights pixIndexes pixSizes slimForSub adaptData).length
      = (Impl.pixelSignalMeans pixels pixelWeights pixIndexes pixSizes slimForSub adaptData).length := by
  simp [Impl.adaptivePixelSignals]

/-- what `adaptive_pixel_signals_from` returns on well-formed mapper tables: `pixels` values, pixel `p`
    carrying `pow (mean_p / mx)` where `mean_p` is the mean adapt-image signal mapped to `p`
    (`Spec.pixelSignalMean`) and `mx` is the largest of the means (it is one of them and bounds them all) -/
theorem adaptivePixelSignals_spec (pow : α → α) (pixels : Nat) (hpix : 0 < pixels)
    (pixelWeights : List (List α)) (pixIndexes : List (List Int)) (pixSizes : List Nat)
    (slimForSub : List Nat) (adaptData : List α)
    (hwf : SignalsWF pixels pixelWeights pixIndexes pixSizes) :
    (Impl.adaptivePixelSignals pow pixels pixelWeights pixIndexes pixSizes slimForSub adaptData).length
      = pixels
    ∧ ∃ mx : α,
        (∃ q, q < pixels
          ∧ mx = pixelSignalMean pixels pixelWeights pixIndexes pixSizes slimForSub adaptData q)
        ∧ (∀ q, q < pixels →
            pixelSignalMean pixels pixelWeights pixIndexes pixSizes slimForSub adaptData q ≤ mx)
        ∧ ∀ p, p < pixels →
            (Impl.adaptivePixelSignals pow pixels pixelWeights pixIndexes pixSizes slimForSub
                adaptData).getD p 0
              = pow (pixelSignalMean pixels pixelWeights pixIndexes pixSizes slimForSub adaptData p / mx) := by
  obtain ⟨hlen, hget⟩ := pixelSignalMeans_spec pixels pixelWeights pixIndexes pixSizes slimForSub
    adaptData hwf
  have hne : Impl.pixelSignalMeans pixels pixelWeights pixIndexes pixSizes slimForSub adaptData ≠ [] := by
    intro h; rw [h] at hlen; simp at hlen; omega
  obtain ⟨hmem, hmax⟩ := npMax_spec _ hne
  refine ⟨by rw [adaptivePixelSignals_length, hlen],
    Impl.npMax (Impl.pixelSignalMeans pixels pixelWeights pixIndexes pixSizes slimForSub adaptData),
    ?_, ?_, ?_⟩
  · obtain ⟨q, hq, he⟩ := List.mem_iff_getElem.mp hmem
    refine ⟨q, by rw [← hlen]; exact hq, ?_⟩
    rw [← hget q (by rw [← hlen]; exact hq), ← he, List.getD_eq_getElem?_getD,
      List.getElem?_eq_getElem hq]
    rfl
  · intro q hq
    rw [← hget q hq]
    apply hmax
    rw [List.getD_eq_getElem?_getD, List.getElem?_eq_getElem (by rw [hlen]; exact hq)]
    exact List.getElem_mem _
  · intro p hp
    have hp' : p < (Impl.pixelSignalMeans pixels pixelWeights pixIndexes pixSizes slimForSub
        adaptData).length := by rw [hlen]; exact hp
    rw [← hget p hp]
    unfold Impl.adaptivePixelSignals
    simp only [List.map_map, List.getD_eq_getElem?_getD, List.getElem?_map,
      List.getElem?_eq_getElem hp', Option.map_some, Option.getD_some, Function.comp_apply]

/-! ### the adaptive regularization weights -/

/-- `adaptive_regularization_weights_from`: entry `i` is `(inner·s_i + outer·(1 − s_i))²` -/
theorem adaptiveWeights_getD (inner outer : α) (signals : List α) (i : Nat) (hi : i < signals.length) :
    (Impl.adaptiveWeights inner outer signals).getD i 0
      = (inner * signals.getD i 0 + outer * (1 - signals.getD i 0))
        * (inner * signals.getD i 0 + outer * (1 - signals.getD i 0)) := by
  simp [Impl.adaptiveWeights, List.getD_eq_getElem?_getD, List.getElem?_map, List.getElem?_eq_getElem hi]

/-- with positive inner and outer coefficients and signals in `[0, 1]` every reported weight is > 0
    (the weighted scheme then penalises every neighbouring pair) -/
theorem adaptiveWeights_pos (inner outer : α) (hi : 0 < inner) (ho : 0 < outer) (signals : List α)
    (hs : ∀ s ∈ signals, 0 ≤ s ∧ s ≤ 1) :
    ∀ w ∈ Impl.adaptiveWeights inner outer signals, 0 < w := by
  intro w hw
  obtain ⟨s, hs', rfl⟩ := List.mem_map.mp hw
  obtain ⟨h0, h1⟩ := hs s hs'
  have : 0 < inner * s + outer * (1 - s) := by
    rcases lt_or_eq_of_le h0 with h | h
    · have := mul_pos hi h
      have := mul_nonneg (le_of_lt ho) (sub_nonneg.mpr h1)
      linarith
    · rw [← h]
      simp only [mul_zero, sub_zero, mul_one, zero_add]
      exact ho
  exact mul_pos this this

/-- the weights are squares: always ≥ 0 -/
theorem adaptiveWeights_nonneg (inner outer : α) (signals : List α) :
    ∀ w ∈ Impl.adaptiveWeights inner outer signals, 0 ≤ w := by
  intro w hw
  obtain ⟨s, _, rfl⟩ := List.mem_map.mp hw
  exact mul_self_nonneg _

end order

end Model
