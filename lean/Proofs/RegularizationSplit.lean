/-
Proofs/RegularizationSplit.lean — the split-cross scheme
(`pixel_splitted_regularization_matrix_from`): the quadruple loop followed by the halving of the
diagonal equals `(ρ₂/2)·I + Σ_i ω_i² Σ_{j<4} v_{4i+j} v_{4i+j}ᵀ` when the pixel indices inside one
cross-point row are distinct.
-/
import Proofs.Regularization
import Mathlib.Tactic.FieldSimp
import Mathlib.Algebra.BigOperators.Field

namespace Model
open Mat Spec

variable {α : Type}

/-! ### the triangular double loop `for l in range(s): for m in range(s - l)` -/

theorem tri_sum [CommRing α] (s : Nat) (t : Nat → α) :
    sumRange s (fun l => sumRange (s - l) fun m =>
        if m = 0 then t l * t l else (t l * t (l + m) + t l * t (l + m)))
      = sumRange s t * sumRange s t := by
  simp only [sumRange_eq_finset]
  induction s with
  | zero => simp
  | succ s ih =>
    rw [Finset.sum_range_succ, Finset.sum_range_succ]
    have h1 : ∀ l ∈ Finset.range s,
        (∑ m ∈ Finset.range (s + 1 - l),
            if m = 0 then t l * t l else (t l * t (l + m) + t l * t (l + m)))
        = (∑ m ∈ Finset.range (s - l),
            if m = 0 then t l * t l else (t l * t (l + m) + t l * t (l + m)))
          + (t l * t s + t l * t s) := by
      intro l hl
      have hl' : l < s := Finset.mem_range.mp hl
      have e : s + 1 - l = (s - l) + 1 := by omega
      rw [e, Finset.sum_range_succ]
      have e2 : ¬ (s - l = 0) := by omega
      have e3 : l + (s - l) = s := by omega
      rw [if_neg e2, e3]
    rw [Finset.sum_congr rfl h1, Finset.sum_add_distrib, ih]
    have e4 : s + 1 - s = 1 := by omega
    rw [e4]
    simp only [Finset.range_one, Finset.sum_singleton, if_true]
    have h2 : ∑ l ∈ Finset.range s, (t l * t s + t l * t s)
        = (∑ l ∈ Finset.range s, t l) * t s + (∑ l ∈ Finset.range s, t l) * t s := by
      rw [Finset.sum_add_distrib, Finset.sum_mul]
    rw [h2]
    ring

/-! ### hypotheses on the cross-point tables -/

/-- every pixel index read from row `k < 4p` is a valid pixel index -/
def SplitInRange (p : Nat) (mappings : List (List Nat)) (sizes : List Nat) : Prop :=
  ∀ k, k < 4 * p → ∀ l, l < sizes.getD k 0 → (mappings.getD k []).getD l 0 < p

/-- the pixel indices read from one row are pairwise distinct -/
def SplitDistinct (p : Nat) (mappings : List (List Nat)) (sizes : List Nat) : Prop :=
  ∀ k, k < 4 * p → ∀ l l', l < sizes.getD k 0 → l' < sizes.getD k 0 →
    (mappings.getD k []).getD l 0 = (mappings.getD k []).getD l' 0 → l = l'

/-- the accumulation loop of `pixel_splitted_regularization_matrix_from` (before the halving) -/
def splitAccum [Add α] [Mul α] [Zero α] (ridge2 : α) (regWeights : List α)
    (mappings : List (List Nat)) (sizes : List Nat) (weights : List (List α)) : List (List α) :=
  let parameters := mappings.length / 4
  let rw := regWeights.map fun w => w * w
  (List.range parameters).foldl (fun M i =>
      let M := addAt M i i ridge2
      (List.range 4).foldl (fun M j =>
          let k := i * 4 + j
          let size := sizes.getD k 0
          let mapping := mappings.getD k []
          let weight := weights.getD k []
          (List.range size).foldl (fun M l =>
              (List.range (size - l)).foldl (fun M m =>
                  let v := weight.getD l 0 * weight.getD (l + m) 0 * rw.getD i 0
                  let M := addAt M (mapping.getD l 0) (mapping.getD (l + m) 0) v
                  addAt M (mapping.getD (l + m) 0) (mapping.getD l 0) v) M) M) M)
    (zeros parameters parameters)

theorem pixelSplittedMatrix_eq [Add α] [Mul α] [Div α] [Zero α] [One α] (ridge2 : α)
    (regWeights : List α) (mappings : List (List Nat)) (sizes : List Nat)
    (weights : List (List α)) :
    Impl.pixelSplittedMatrix ridge2 regWeights mappings sizes weights
      = (List.range (mappings.length / 4)).foldl (fun M i => divAt M i i (1 + 1))
          (splitAccum ridge2 regWeights mappings sizes weights) := rfl

theorem splitAccum_linfun [CommRing α] {p : Nat} {Φ : List (List α) → α} {φ : Nat → Nat → α}
    (hΦ : LinFun p Φ φ) (ρ2 : α) (ω : List α) (mp : List (List Nat)) (S : List Nat)
    (W : List (List α)) (hp : mp.length / 4 = p) (hR : SplitInRange p mp S) :
    Dims p (splitAccum ρ2 ω mp S W) ∧
    Φ (splitAccum ρ2 ω mp S W) = Φ (zeros p p)
      + sumRange p fun i => (φ i i * ρ2
          + sumRange 4 fun j =>
              sumRange (S.getD (i * 4 + j) 0) fun l =>
                sumRange (S.getD (i * 4 + j) 0 - l) fun m =>
                  (φ ((mp.getD (i * 4 + j) []).getD l 0) ((mp.getD (i * 4 + j) []).getD (l + m) 0)
                    + φ ((mp.getD (i * 4 + j) []).getD (l + m) 0) ((mp.getD (i * 4 + j) []).getD l 0))
                  * ((W.getD (i * 4 + j) []).getD l 0 * (W.getD (i * 4 + j) []).getD (l + m) 0
                      * (ω.getD i 0 * ω.getD i 0))) := by
  unfold splitAccum
  simp only [hp, getD_map_sq]
  apply foldl_range_linfun Φ _ _ p _ _ (dims_zeros p)
  intro M i hi hM
  have h0 := dims_addAt hM i i ρ2
  have hj := foldl_range_linfun Φ
    (fun M j =>
      (List.range (S.getD (i * 4 + j) 0)).foldl (fun M l =>
        (List.range (S.getD (i * 4 + j) 0 - l)).foldl (fun M m =>
          addAt (addAt M ((mp.getD (i * 4 + j) []).getD l 0) ((mp.getD (i * 4 + j) []).getD (l + m) 0)
              ((W.getD (i * 4 + j) []).getD l 0 * (W.getD (i * 4 + j) []).getD (l + m) 0
                * (ω.getD i 0 * ω.getD i 0)))
            ((mp.getD (i * 4 + j) []).getD (l + m) 0) ((mp.getD (i * 4 + j) []).getD l 0)
            ((W.getD (i * 4 + j) []).getD l 0 * (W.getD (i * 4 + j) []).getD (l + m) 0
              * (ω.getD i 0 * ω.getD i 0))) M) M)
    (fun j =>
      sumRange (S.getD (i * 4 + j) 0) fun l =>
        sumRange (S.getD (i * 4 + j) 0 - l) fun m =>
          (φ ((mp.getD (i * 4 + j) []).getD l 0) ((mp.getD (i * 4 + j) []).getD (l + m) 0)
            + φ ((mp.getD (i * 4 + j) []).getD (l + m) 0) ((mp.getD (i * 4 + j) []).getD l 0))
          * ((W.getD (i * 4 + j) []).getD l 0 * (W.getD (i * 4 + j) []).getD (l + m) 0
              * (ω.getD i 0 * ω.getD i 0))) 4
    (by
      intro M j hj hM
      have hk : i * 4 + j < 4 * p := by omega
      apply foldl_range_linfun Φ _ _ _ _ _ hM
      intro M l hl hM
      apply foldl_range_linfun Φ _ _ _ _ _ hM
      intro M m hm hM
      have ha := hR _ hk l hl
      have hb := hR _ hk (l + m) (by omega)
      have h1 := dims_addAt hM ((mp.getD (i * 4 + j) []).getD l 0)
        ((mp.getD (i * 4 + j) []).getD (l + m) 0)
        ((W.getD (i * 4 + j) []).getD l 0 * (W.getD (i * 4 + j) []).getD (l + m) 0
          * (ω.getD i 0 * ω.getD i 0))
      refine ⟨dims_addAt h1 _ _ _, ?_⟩
      rw [hΦ _ _ _ _ h1 hb ha, hΦ _ _ _ _ hM ha hb]
      ring)
    (addAt M i i ρ2) h0
  refine ⟨hj.1, ?_⟩
  rw [hj.2, hΦ _ _ _ _ hM hi hi, add_assoc]

end Model

namespace Model
open Mat Spec

variable {α : Type}

/-! ### the halving of the diagonal -/

theorem entry_divAt [DivisionRing α] {n : Nat} {M : List (List α)} (hM : Dims n M) {a b : Nat}
    (ha : a < n) (hb : b < n) (v : α) (i j : Nat) :
    entry (divAt M a b v) i j = if a = i ∧ b = j then entry M i j / v else entry M i j := by
  unfold divAt
  exact entry_modify hM ha hb _ i j

theorem halveDiag_entry [DivisionRing α] {n : Nat} (two : α) (k : Nat) (hk : k ≤ n)
    (M : List (List α)) (hM : Dims n M) :
    Dims n ((List.range k).foldl (fun M i => divAt M i i two) M) ∧
    ∀ a b, entry ((List.range k).foldl (fun M i => divAt M i i two) M) a b
      = if a = b ∧ a < k then entry M a b / two else entry M a b := by
  induction k with
  | zero => simp [hM]
  | succ k ih =>
    obtain ⟨h1, h2⟩ := ih (by omega)
    rw [List.range_succ, List.foldl_append]
    simp only [List.foldl_cons, List.foldl_nil]
    refine ⟨dims_divAt h1 _ _ _, ?_⟩
    intro a b
    rw [entry_divAt h1 (by omega) (by omega), h2]
    by_cases hab : a = b
    · subst hab
      by_cases hak : k = a
      · subst hak
        simp
      · have : ¬ (a < k + 1) ↔ ¬ (a < k) := by omega
        by_cases h : a < k
        · have h' : a < k + 1 := by omega
          simp [hak, h, h']
        · have h' : ¬ a < k + 1 := by omega
          simp [hak, h, h']
    · have : ¬ (k = a ∧ k = b) := by
        rintro ⟨rfl, rfl⟩; exact hab rfl
      simp [hab, this]

/-- `Σ_i x_i M_ii x_i` -/
def diagq [Add α] [Mul α] [Zero α] (M : List (List α)) (x : List α) : α :=
  sumRange x.length fun i => x.getD i 0 * entry M i i * x.getD i 0

theorem linfun_diagq [CommSemiring α] (n : Nat) (x : List α) (hx : x.length = n) :
    LinFun n (fun M => diagq M x)
      (fun a b => if a = b then x.getD a 0 * x.getD a 0 else 0) := by
  intro M a b v hM ha hb
  simp only [diagq, hx]
  have h1 : ∀ i, x.getD i 0 * entry (addAt M a b v) i i * x.getD i 0
      = x.getD i 0 * entry M i i * x.getD i 0
        + (if a = i then (if a = b then x.getD a 0 * x.getD a 0 else 0) * v else 0) := by
    intro i
    rw [entry_addAt hM ha hb]
    by_cases h1 : a = i
    · subst h1
      by_cases h2 : b = a
      · subst h2; simp; ring
      · have h2' : ¬ a = b := fun h => h2 h.symm
        simp [h2, h2']
    · simp [h1]
  simp only [h1, sumRange_add]
  rw [sumRange_ite_eq n a ha (fun _ => (if a = b then x.getD a 0 * x.getD a 0 else 0) * v)]

theorem sumRange_div [DivisionRing α] (n : Nat) (f : Nat → α) (c : α) :
    sumRange n f / c = sumRange n fun i => f i / c := by
  simp only [sumRange_eq_finset, Finset.sum_div]

/-- the quadratic form after halving the diagonal -/
theorem quad_halveDiag [Field α] (h2 : (1 + 1 : α) ≠ 0) {n : Nat} (M : List (List α))
    (hM : Dims n M) (x : List α) (hx : x.length = n) :
    quad ((List.range n).foldl (fun M i => divAt M i i (1 + 1)) M) x
      = quad M x - diagq M x / (1 + 1) := by
  obtain ⟨_, he⟩ := halveDiag_entry (1 + 1 : α) n (le_refl n) M hM
  simp only [quad, diagq, hx]
  rw [eq_sub_iff_add_eq, sumRange_div, ← sumRange_add]
  apply sumRange_congr
  intro i hi
  have h1 : ∀ j, x.getD i 0 * entry ((List.range n).foldl (fun M i => divAt M i i (1 + 1)) M) i j
        * x.getD j 0
      = x.getD i 0 * entry M i j * x.getD j 0
        + (if i = j then -(x.getD i 0 * entry M i i * x.getD i 0 / (1 + 1)) else 0) := by
    intro j
    rw [he]
    by_cases hij : i = j
    · subst hij
      simp only [hi, and_self, if_true]
      field_simp
      ring
    · simp [hij]
  simp only [h1, sumRange_add]
  rw [sumRange_ite_eq n i hi (fun _ => -(x.getD i 0 * entry M i i * x.getD i 0 / (1 + 1)))]
  ring

end Model

namespace Model
open Mat Spec

variable {α : Type}

theorem linfun_sub_div [Field α] {n : Nat} {Φ1 Φ2 : List (List α) → α} {φ1 φ2 : Nat → Nat → α}
    (h1 : LinFun n Φ1 φ1) (h2 : LinFun n Φ2 φ2) (c : α) :
    LinFun n (fun M => Φ1 M - Φ2 M / c) (fun a b => φ1 a b - φ2 a b / c) := by
  intro M a b v hM ha hb
  simp only
  rw [h1 M a b v hM ha hb, h2 M a b v hM ha hb]
  ring

theorem diagq_zeros [CommSemiring α] (n : Nat) (x : List α) : diagq (zeros (α := α) n n) x = 0 := by
  simp [diagq, entry_zeros, sumRange_zero]

/-- (d) the split-cross matrix: `xᵀHx = (ρ₂/2)·|x|² + Σ_i ω_i² Σ_{j<4} (v_{4i+j}·x)²`, where
    `v_k·x = Σ_{l<size_k} weight_k[l]·x[mapping_k[l]]` -/
theorem pixelSplittedMatrix_quad [Field α] (h2 : (1 + 1 : α) ≠ 0) {p : Nat} (ρ2 : α) (ω : List α)
    (mp : List (List Nat)) (S : List Nat) (W : List (List α)) (hp : mp.length / 4 = p)
    (hR : SplitInRange p mp S) (hD : SplitDistinct p mp S) (x : List α) (hx : x.length = p) :
    quad (Impl.pixelSplittedMatrix ρ2 ω mp S W) x
      = (ρ2 / (1 + 1)) * sumSq x
        + sumRange p fun i => sumRange 4 fun j =>
            (ω.getD i 0 * ω.getD i 0) * (crossDot mp S W x (i * 4 + j) * crossDot mp S W x (i * 4 + j)) := by
  have hΨ := linfun_sub_div (linfun_quad p x hx) (linfun_diagq p x hx) (1 + 1 : α)
  obtain ⟨hdim, hval⟩ := splitAccum_linfun hΨ ρ2 ω mp S W hp hR
  rw [pixelSplittedMatrix_eq, hp, quad_halveDiag h2 _ hdim x hx]
  simp only at hval
  rw [hval, quad_zeros, diagq_zeros]
  simp only [sumSq, hx, ← sumRange_mul_left, zero_div, sub_zero, zero_add, ← sumRange_add]
  apply sumRange_congr
  intro i hi
  congr 1
  · simp only [if_true]
    field_simp
    ring
  · apply sumRange_congr
    intro j hj
    have hk : i * 4 + j < 4 * p := by omega
    set k := i * 4 + j
    set t : Nat → α := fun l => (W.getD k []).getD l 0 * x.getD ((mp.getD k []).getD l 0) 0
    have htri := tri_sum (S.getD k 0) t
    have : crossDot mp S W x k = sumRange (S.getD k 0) t := rfl
    rw [this, ← htri, ← sumRange_mul_left]
    apply sumRange_congr
    intro l hl
    rw [← sumRange_mul_left]
    apply sumRange_congr
    intro m hm
    by_cases hm0 : m = 0
    · subst hm0
      simp only [Nat.add_zero, if_true, t]
      field_simp
      ring
    · have hne : (mp.getD k []).getD l 0 ≠ (mp.getD k []).getD (l + m) 0 := by
        intro h
        have := hD k hk l (l + m) hl (by omega) h
        omega
      simp only [hne, hne.symm, if_false, hm0, t]
      ring

end Model

namespace Model
open Mat Spec

variable {α : Type}

theorem delta_pair_symm [Ring α] (A A' B B' : Prop) [Decidable A] [Decidable A'] [Decidable B]
    [Decidable B'] :
    ((if A ∧ B' then (1 : α) else 0) + (if B ∧ A' then 1 else 0))
      = (if A' ∧ B then 1 else 0) + (if B' ∧ A then 1 else 0) := by
  by_cases h1 : A <;> by_cases h2 : A' <;> by_cases h3 : B <;> by_cases h4 : B' <;>
    simp [h1, h2, h3, h4]

theorem splitAccum_symm [CommRing α] {p : Nat} (ρ2 : α) (ω : List α) (mp : List (List Nat))
    (S : List Nat) (W : List (List α)) (hp : mp.length / 4 = p) (hR : SplitInRange p mp S)
    (a b : Nat) :
    entry (splitAccum ρ2 ω mp S W) a b = entry (splitAccum ρ2 ω mp S W) b a := by
  rw [(splitAccum_linfun (linfun_entry p a b) ρ2 ω mp S W hp hR).2,
    (splitAccum_linfun (linfun_entry p b a) ρ2 ω mp S W hp hR).2, entry_zeros, entry_zeros]
  congr 1
  apply sumRange_congr
  intro i _
  congr 1
  · simp only [and_comm]
  · apply sumRange_congr
    intro j _
    apply sumRange_congr
    intro l _
    apply sumRange_congr
    intro m _
    congr 1
    exact delta_pair_symm _ _ _ _

/-- (d) the split-cross matrix is symmetric (no distinctness needed) -/
theorem pixelSplittedMatrix_symm [Field α] {p : Nat} (ρ2 : α) (ω : List α) (mp : List (List Nat))
    (S : List Nat) (W : List (List α)) (hp : mp.length / 4 = p) (hR : SplitInRange p mp S)
    (a b : Nat) :
    entry (Impl.pixelSplittedMatrix ρ2 ω mp S W) a b
      = entry (Impl.pixelSplittedMatrix ρ2 ω mp S W) b a := by
  obtain ⟨hdim, _⟩ := splitAccum_linfun (linfun_entry p a b) ρ2 ω mp S W hp hR
  obtain ⟨_, he⟩ := halveDiag_entry (1 + 1 : α) p (le_refl p) _ hdim
  rw [pixelSplittedMatrix_eq, hp, he, he]
  by_cases hab : a = b
  · subst hab; rfl
  · have hba : ¬ b = a := fun h => hab h.symm
    simp only [hab, hba, false_and, if_false]
    exact splitAccum_symm ρ2 ω mp S W hp hR a b

theorem pixelSplittedMatrix_dims [Field α] {p : Nat} (ρ2 : α) (ω : List α) (mp : List (List Nat))
    (S : List Nat) (W : List (List α)) (hp : mp.length / 4 = p) (hR : SplitInRange p mp S) :
    Dims p (Impl.pixelSplittedMatrix ρ2 ω mp S W) := by
  obtain ⟨hdim, _⟩ := splitAccum_linfun (linfun_entry p 0 0) ρ2 ω mp S W hp hR
  rw [pixelSplittedMatrix_eq, hp]
  exact (halveDiag_entry (1 + 1 : α) p (le_refl p) _ hdim).1

theorem pixelSplittedMatrix_posdef [Field α] [LinearOrder α] [IsStrictOrderedRing α] {p : Nat}
    (ρ2 : α) (hρ : 0 < ρ2) (ω : List α) (mp : List (List Nat)) (S : List Nat)
    (W : List (List α)) (hp : mp.length / 4 = p) (hR : SplitInRange p mp S)
    (hD : SplitDistinct p mp S) (x : List α) (hx : x.length = p)
    (hx0 : ∃ i, i < p ∧ x.getD i 0 ≠ 0) :
    0 < quad (Impl.pixelSplittedMatrix ρ2 ω mp S W) x := by
  have h2 : (1 + 1 : α) ≠ 0 := by rw [one_add_one_eq_two]; exact two_ne_zero
  rw [pixelSplittedMatrix_quad h2 ρ2 ω mp S W hp hR hD x hx]
  have h1 : 0 < sumSq x := sumSq_pos x (by rw [hx]; exact hx0)
  have h3 : 0 < ρ2 / (1 + 1) := by
    apply div_pos hρ
    rw [one_add_one_eq_two]; exact two_pos
  have h4 : 0 ≤ sumRange p fun i => sumRange 4 fun j =>
      (ω.getD i 0 * ω.getD i 0)
        * (crossDot mp S W x (i * 4 + j) * crossDot mp S W x (i * 4 + j)) :=
    sumRange_nonneg _ _ fun i _ => sumRange_nonneg _ _ fun j _ =>
      mul_nonneg (mul_self_nonneg _) (mul_self_nonneg _)
  have h5 := mul_pos h3 h1
  linarith

end Model
